----------------------------- MODULE Gen_Cluster -----------------------------
(* History generator for the replay against the real Session (C16).  A step of *)
(* a history is one driver-visible action of Cluster.tla, possibly together    *)
(* with a change of what the cluster reports; the history records, per step,   *)
(* the action, the peer rows reported from then on, and the driver state the   *)
(* model expects at quiescence.  BFS prints every history of length GenDepth   *)
(* (each prefix is checked on the way); -simulate prints random ones.          *)
EXTENDS Cluster, Json

CONSTANTS MaxLen, WithBad, WithDup, GenDepth, Sim, Mixed, Burst,
          WithSplit, \* rows may have a node-to-node address (peer) that differs from the connect address
          SchemaPlan,\* enumerated histories: refresh; keyspace metadata (un)available; then anything
                     \* (in simulation: "keyspace metadata (un)available" is one more kind of step)
          ControlPlan,\* enumerated histories: refresh; control node lost; it answers again; a refresh BEFORE the
                     \* session has reconnected (it has to return); the reconnection
                     \* (in simulation: "answers again" / "reconnects" are two more kinds of step)
          RetryPlan, \* enumerated histories: two nodes (each plain or multi-homed); the first stops answering; DOWN and
                     \* then UP are reported for one of its addresses (the session retries it in vain); a refresh
          Overlap,   \* enumerated histories: a set-up refresh, then two steps of which the second happens
                     \* while the first is still in progress (see OverlapSteps)
          LateEvents,\* enumerated histories end with one status event for any address (also addresses
                     \* of nodes that have just vanished or moved)
          Ordered    \* FALSE: events travel as frames, each handled on a goroutine of its own - a batch then
                     \* holds at most one status per address (their order of arrival is not defined)

VARIABLE hist
gvars == <<truth, g, d, nref, hist>>

RowSet == {r \in [id : Ids, addr : Addrs, peer : EventAddrs, inv : IF WithBad THEN {"ok", "bad"} ELSE {"ok"}] :
             r.peer = r.addr \/ (WithSplit /\ r.peer = Priv(r.addr))}
\* addresses events may name
EvA == IF WithSplit THEN EventAddrs ELSE AllAddrs \cup {C0peer}
\* system.peers is keyed by the peer address: rows have distinct addresses
GoodList(s) ==
  /\ \A j, k \in 1 .. Len(s) : j < k => s[j].addr # s[k].addr
  /\ WithDup \/ \A j, k \in 1 .. Len(s) : j < k => s[j].id # s[k].id
  /\ Cardinality({k \in 1 .. Len(s) : s[k].inv # "ok"}) <= 1
Lists == {s \in UNION {[1 .. n -> RowSet] : n \in 0 .. MaxLen} : GoodList(s)}

CanonIds == <<"i1", "i2", "i3", "i4">>
CanonAddrs == <<"a1", "a2", "a3", "a4">>

RECURSIVE SeqOf(_)
SeqOf(S) == IF S = {} THEN <<>> ELSE LET x == CHOOSE y \in S : TRUE IN <<x>> \o SeqOf(S \ {x})
SeqOfAddrs == SeqOf(EvA)

Ev(k, a) == [kind |-> k, addr |-> a]
StatusBatches ==
  {<<Ev(k, a)>> : k \in {"UP", "DOWN"}, a \in EvA}
  \cup (IF Ordered THEN {<<Ev("UP", a), Ev("DOWN", a)>> : a \in EvA} \cup {<<Ev("DOWN", a), Ev("UP", a)>> : a \in EvA}
        ELSE {<<Ev("UP", p[1]), Ev("DOWN", p[2])>> : p \in {x \in EvA \X EvA : x[1] # x[2]}})
TopoBatches ==
  {<<Ev(k, a)>> : k \in {"NEW_NODE", "REMOVED_NODE"}, a \in EvA}
  \cup {<<Ev("NEW_NODE", a), Ev(k, a)>> : k \in {"UP", "DOWN"}, a \in EvA}
  \cup {<<Ev("DOWN", a), Ev("REMOVED_NODE", a)>> : a \in EvA}

\* a burst: Burst events in a row, all kinds, all addresses (0: no bursts)
AddrSeq == SeqOfAddrs
\* every address gets one kind of status event throughout the burst (the frames of a burst are
\* handled concurrently), topology events in between
BurstAt(o) ==
  [k \in 1 .. Burst |->
     LET ai == ((k * 3 + o) % Len(AddrSeq)) + 1
     IN IF k % 3 = 0 THEN Ev(IF k % 2 = 0 THEN "NEW_NODE" ELSE "REMOVED_NODE", AddrSeq[ai])
        ELSE Ev(IF (ai + o) % 2 = 0 THEN "UP" ELSE "DOWN", AddrSeq[ai])]

\* concrete kinds of invalid rows, rotated with the position in the history
BadKinds == <<"notokens", "norack", "nodc", "norpc", "nohostid">>
Concrete(rows, n) ==
  [k \in 1 .. Len(rows) |-> [id |-> rows[k].id, addr |-> rows[k].addr, peer |-> rows[k].peer,
                              inv |-> IF rows[k].inv = "ok" THEN "ok" ELSE BadKinds[((n + k) % 5) + 1]]]

Pairs(f) == {[id |-> i, addr |-> f[i].addr, n2n |-> f[i].n2n] : i \in DOMAIN f}
RevPairs(f) == {[id |-> f[a], addr |-> a] : a \in DOMAIN f}
Exp(dd, n) == [hosts |-> Pairs(dd.hosts), byaddr |-> RevPairs(dd.byAddr), pool |-> dd.pool, pol |-> dd.pol,
               down |-> dd.down, refreshes |-> n]

\* ov: "" = the step starts when the previous one is over; "handler" / "peers" = it happens while
\* the previous step is held - its event handler started by the flush but not yet reading its
\* frames / its refresh having read the peer rows but not yet applied them.  In both places the
\* held step has not touched the driver's picture yet and what it will apply is already fixed
\* (the frames of its batch, the rows it read), so the outcome the property demands is the one of
\* the two steps in sequence; the recorded history says where the second one landed.
RecOv(op, rows, fail, evs, a, ov) ==
  hist' = Append(hist, [op |-> op, rows |-> Concrete(rows, Len(hist)), fail |-> fail, evs |-> evs, addr |-> a,
                        ov |-> ov, exp |-> Exp(d', nref')])
Rec(op, rows, fail, evs, a) == RecOv(op, rows, fail, evs, a, "")

Init == InitWith(<<>>) /\ hist = <<>>

\* In simulation every kind of step gets the same weight (one random instance per kind).
\* (the index set mentions the state so that TLC does not cache the choice as a constant)
Pick(S) == IF Sim THEN {RandomElement({x \in S : Len(hist) >= 0})} ELSE S
\* sampled lists: 6 of 10 without invalid rows and repeated ids, 2 with an invalid row, 2 with a repeated id
IsClean(s) == (\A k \in 1 .. Len(s) : s[k].inv = "ok") /\ (\A j, k \in 1 .. Len(s) : j < k => s[j].id # s[k].id)
SeqClean == SeqOf({s \in Lists : IsClean(s)})
SeqBad == SeqOf({s \in Lists : \E k \in 1 .. Len(s) : s[k].inv # "ok"})
SeqDup == SeqOf({s \in Lists : \E j, k \in 1 .. Len(s) : j < k /\ s[j].id = s[k].id})
FromSeq(q) == q[RandomElement(1 .. (Len(q) + 0 * Len(hist)))]
PickList ==
  IF ~Sim THEN Lists
  ELSE LET c == RandomElement(1 .. (10 + 0 * Len(hist)))
       IN {IF c <= 6 \/ (c <= 8 /\ SeqBad = <<>>) \/ (c > 8 /\ SeqDup = <<>>) THEN FromSeq(SeqClean)
           ELSE IF c <= 8 THEN FromSeq(SeqBad) ELSE FromSeq(SeqDup)}

\* ids and addresses are interchangeable: the first step of an enumerated history uses
\* canonical lists (i1 at a1, i2 at a2, ...) and the first peer address only
CanonLists == {s \in Lists : \A k \in 1 .. Len(s) : s[k].id = CanonIds[k] /\ s[k].addr = CanonAddrs[k] /\ s[k].inv = "ok"}
L0 == IF Len(hist) = 0 /\ ~Sim THEN CanonLists ELSE Lists
A0 == IF Len(hist) = 0 /\ ~Sim THEN {C0addr, CanonAddrs[1]} ELSE AllAddrs
E0 == IF Len(hist) = 0 /\ ~Sim THEN {C0addr, C0peer, CanonAddrs[1], Priv(CanonAddrs[1])} \cap EvA ELSE EvA
\* a list that differs from the current truth (for refreshes that fail: nothing of it may be applied)
Other == IF truth = <<>> THEN <<[id |-> CanonIds[1], addr |-> CanonAddrs[1], peer |-> CanonAddrs[1], inv |-> "ok"]>> ELSE <<>>

SchemaSteps == \E m \in Pick({"error", "norows", "ok"}) : SchemaChange(truth) /\ Rec("schema", truth, "none", <<>>, m)

RefreshSteps == \E l \in (IF Sim THEN PickList ELSE L0) : Refresh(l, "none") /\ Rec("refresh", l, "none", <<>>, "")

MixedSteps ==
  \/ \E f \in Pick({"local", "peers"}) : Refresh(Other, f) /\ Rec("refresh", Other, f, <<>>, "")
  \/ \E b \in Pick({x \in StatusBatches : x[1].addr \in E0}) : Events(truth, b) /\ Rec("events", truth, "none", b, "")
  \/ \E b \in Pick({<<Ev("NEW_NODE", CanonAddrs[1])>>}) : \E l \in (IF Sim THEN PickList ELSE L0) : Events(l, b) /\ Rec("events", l, "none", b, "")
  \/ \E b \in Pick({x \in TopoBatches : x[1].addr \in E0 /\ (Sim \/ x # <<Ev("NEW_NODE", CanonAddrs[1])>>)}) :
        \E l \in (IF Sim THEN PickList ELSE {truth}) : Events(l, b) /\ Rec("events", l, "none", b, "")
  \/ Sim /\ \E b \in Pick({<<Ev("UP", a)>> : a \in EvA}) : \E l \in PickList : Events(l, b) /\ Rec("events", l, "none", b, "")
  \/ Burst > 0 /\ \E o \in Pick(0 .. 4) : \E l \in (IF Sim THEN PickList ELSE {truth}) :
        Events(l, BurstAt(o)) /\ Rec("burst", l, "none", BurstAt(o), "")
  \/ SchemaPlan /\ Sim /\ SchemaSteps
  \/ ControlPlan /\ Sim /\ Heal(truth) /\ Rec("heal", truth, "none", <<>>, C0addr)
  \/ ControlPlan /\ Sim /\ \E l \in PickList : Reconnect(l) /\ Rec("reconnect", l, "none", <<>>, "")
  \/ \E a \in Pick(A0) : NodeFail(truth, a) /\ Rec("nodefail", truth, "none", <<>>, a)
  \/ \E a \in Pick(Addrs) : NodeRecover(truth, a) /\ Rec("noderecover", truth, "none", <<>>, a)
  \/ \E l \in (IF Sim THEN PickList ELSE {truth, Other}) : NodeRecover(l, C0addr) /\ Rec("noderecover", l, "none", <<>>, C0addr)
  \/ \E l \in (IF Sim THEN PickList ELSE {truth, Other}) : ControlLost(l) /\ Rec("ctllost", l, "none", <<>>, "")

\* Overlapping steps.  Position 1: the step that will be held - a status event (held in its handler)
\* or something that refreshes (held between reading and applying the rows).  Position 2: what
\* arrives meanwhile - for a held handler any further event; for a held refresh a topology event
\* or a request for an immediate refresh, after the cluster has changed again.
SetupList == <<[id |-> "i1", addr |-> "a1", peer |-> "a1", inv |-> "ok"], [id |-> "i2", addr |-> "a2", peer |-> "a2", inv |-> "ok"]>>
NewNode == <<Ev("NEW_NODE", "a1")>>
Singles == {<<Ev(k, a)>> : k \in {"UP", "DOWN"}, a \in AllAddrs}
OverlapSteps ==
  IF Len(hist) = 0 THEN Refresh(SetupList, "none") /\ Rec("refresh", SetupList, "none", <<>>, "")
  ELSE IF Len(hist) = 1 THEN
    \/ \E b \in Singles : Events(truth, b) /\ Rec("events", truth, "none", b, "")
    \/ \E l \in Lists : Refresh(l, "none") /\ Rec("refresh", l, "none", <<>>, "")
    \/ \E l \in Lists : Events(l, NewNode) /\ Rec("events", l, "none", NewNode, "")
  ELSE IF hist[2].op = "events" /\ hist[2].evs \in Singles THEN
    \/ \E b \in Singles : Events(truth, b) /\ RecOv("events", truth, "none", b, "", "handler")
    \/ \E l \in Lists : Events(l, NewNode) /\ RecOv("events", l, "none", NewNode, "", "handler")
  ELSE
    \/ \E l \in Lists : Events(l, NewNode) /\ RecOv("events", l, "none", NewNode, "", "peers")
    \/ \E l \in Lists : Refresh(l, "none") /\ RecOv("refresh", l, "none", <<>>, "", "peers")

\* the last step of an enumerated history with late events: one status event, any address
LateSteps == \E b \in {<<Ev(k, a)>> : k \in {"UP", "DOWN"}, a \in EvA} : Events(truth, b) /\ Rec("events", truth, "none", b, "")

Next ==
  /\ Len(hist) < GenDepth
  /\ IF RetryPlan /\ ~Sim THEN
       CASE Len(hist) = 0 -> \E l \in {x \in CanonLists : Len(x) = 2} : Refresh(l, "none") /\ Rec("refresh", l, "none", <<>>, "")
         [] Len(hist) = 1 -> NodeFail(truth, "a1") /\ Rec("nodefail", truth, "none", <<>>, "a1")
         [] Len(hist) = 2 -> \E x \in {"a1", "b1"} : Events(truth, <<Ev("DOWN", x)>>) /\ Rec("events", truth, "none", <<Ev("DOWN", x)>>, "")
         [] Len(hist) = 3 -> \E x \in {"a1", "b1"} : Events(truth, <<Ev("UP", x)>>) /\ Rec("events", truth, "none", <<Ev("UP", x)>>, "")
         [] OTHER -> \E l \in {x \in Lists : Len(x) <= 1} : Refresh(l, "none") /\ Rec("refresh", l, "none", <<>>, "")
     ELSE IF ControlPlan /\ ~Sim THEN
       CASE Len(hist) = 0 -> \E l \in CanonLists : Refresh(l, "none") /\ Rec("refresh", l, "none", <<>>, "")
         [] Len(hist) = 1 -> NodeFail(truth, C0addr) /\ Rec("nodefail", truth, "none", <<>>, C0addr)
         [] Len(hist) = 2 -> Heal(truth) /\ Rec("heal", truth, "none", <<>>, C0addr)
         [] Len(hist) = 3 -> \E l \in Lists : Refresh(l, "none") /\ Rec("refresh", l, "none", <<>>, "")
         [] OTHER -> Reconnect(truth) /\ Rec("reconnect", truth, "none", <<>>, "")
     ELSE IF Overlap /\ ~Sim THEN OverlapSteps
     ELSE IF LateEvents /\ ~Sim /\ Len(hist) = GenDepth - 1 THEN LateSteps
     ELSE IF SchemaPlan /\ ~Sim /\ Len(hist) = 0 THEN \E l \in {x \in CanonLists : Len(x) = MaxLen} : Refresh(l, "none") /\ Rec("refresh", l, "none", <<>>, "")
     ELSE IF SchemaPlan /\ ~Sim /\ Len(hist) = 1 THEN SchemaSteps
     ELSE \/ RefreshSteps
          \/ Mixed /\ MixedSteps

Spec == Init /\ [][Next]_gvars

Emit == Len(hist) = GenDepth => PrintT(<<"HIST", ToJson([exp0 |-> Exp(FreshSession(<<>>, Filt, AllAddrs), 0), steps |-> hist])>>)
=============================================================================
