-------------------------- MODULE Trace_StreamsLin --------------------------
(***************************************************************************)
(* Validates a free-running execution of the real stream-id allocator,     *)
(* recorded as call/return events (global sequence numbers; "call" logged  *)
(* before the call, "ret" after it returned), against the abstract         *)
(* allocator the property C08 describes:                                   *)
(*   - GetStream takes effect atomically somewhere between call and ret;   *)
(*     it returns an id that is free at that instant, never 0, in range;   *)
(*   - it may report exhaustion only if no id stayed free during the whole *)
(*     call;                                                               *)
(*   - Clear(id) reports true iff the id was in use at its effect point;   *)
(*   - at the end Available() equals the number of free ids.               *)
(* The effect point of each call is an internal step TLC places; the trace *)
(* is explainable iff some placement reaches the end of the log.           *)
(***************************************************************************)
EXTENDS Integers, Sequences, FiniteSets, TLC, Json, IOUtils

Log == ndJsonDeserialize(IOEnv.VF_TRACE)
N == Log[1].n
NT == Log[1].threads
Thr == 0 .. NT - 1

VARIABLES l,       \* next log line
          free,    \* abstract allocator state: set of free ids
          pend     \* per thread: the call in progress

vars == <<l, free, pend>>
None == [op |-> "none", id |-> -1, ok |-> FALSE, done |-> FALSE, cand |-> {}]
ToSet(s) == {s[i] : i \in 1 .. Len(s)}

Init == /\ l = 2
        /\ free = ToSet(Log[1].free)
        /\ pend = [t \in Thr |-> None]

\* the return event of the call that thread t starts at line k
RetOf(k, t) == LET idx == CHOOSE i \in k + 1 .. Len(Log) :
                            Log[i].t = t /\ \A m \in k + 1 .. i - 1 : Log[m].t # t
               IN Log[idx]

Call == /\ l <= Len(Log)
        /\ Log[l].ev \in {"call_get", "call_clear"}
        /\ LET t == Log[l].t
               r == RetOf(l, t) IN
           /\ pend[t].op = "none"
           /\ pend' = [pend EXCEPT ![t] = [op |-> IF Log[l].ev = "call_get" THEN "get" ELSE "clear",
                                           id |-> r.id, ok |-> r.ok, done |-> FALSE,
                                           cand |-> IF Log[l].ev = "call_get" /\ ~r.ok THEN free ELSE {}]]
        /\ l' = l + 1
        /\ UNCHANGED free

\* the atomic effect of a pending call
Effect(t) ==
  /\ pend[t].op # "none" /\ ~pend[t].done
  /\ LET p == pend[t] IN
     CASE p.op = "get" /\ p.ok ->
            /\ p.id \in free /\ p.id \in 1 .. N - 1
            /\ free' = free \ {p.id}
            \* an id taken by somebody is no longer "free throughout" for anyone
            /\ pend' = [u \in Thr |-> IF u = t THEN [p EXCEPT !.done = TRUE]
                                      ELSE [pend[u] EXCEPT !.cand = @ \ {p.id}]]
       [] p.op = "get" /\ ~p.ok ->
            /\ UNCHANGED free
            /\ pend' = [pend EXCEPT ![t].done = TRUE]
       [] p.op = "clear" /\ p.ok ->
            /\ p.id \notin free
            /\ free' = free \cup {p.id}
            /\ pend' = [pend EXCEPT ![t].done = TRUE]
       [] p.op = "clear" /\ ~p.ok ->
            /\ p.id \in free
            /\ UNCHANGED free
            /\ pend' = [pend EXCEPT ![t].done = TRUE]
  /\ UNCHANGED l

Ret == /\ l <= Len(Log)
       /\ Log[l].ev \in {"ret_get", "ret_clear"}
       /\ LET t == Log[l].t IN
          /\ pend[t].done
          \* exhaustion only if nothing stayed free for the whole call
          /\ (pend[t].op = "get" /\ ~pend[t].ok) => pend[t].cand = {}
          /\ pend' = [pend EXCEPT ![t] = None]
       /\ l' = l + 1
       /\ UNCHANGED free

End == /\ l <= Len(Log)
       /\ Log[l].ev = "end"
       /\ \A t \in Thr : pend[t].op = "none"
       /\ Log[l].id = Cardinality(free)              \* Available()
       /\ ToSet(Log[l].freeEnd) = free               \* the bitmap itself
       /\ l' = l + 1
       /\ UNCHANGED <<free, pend>>

Next == Call \/ Ret \/ End \/ \E t \in Thr : Effect(t)
Spec == Init /\ [][Next]_vars

\* "violated" exactly when some placement of the effect points explains the whole log
NotAccepted == l <= Len(Log)
\* high-water mark of explained lines, for diagnostics (needs -workers 1)
Mark == IF l > TLCGet(1) THEN TLCSet(1, l) ELSE TRUE
PrintMark == PrintT(<<"HIGHWATER", TLCGet(1)>>)
ASSUME TLCSet(1, 0)
=============================================================================
