SPECIFICATION SpecDump
CONSTANTS
  MaxE = 3
  Configs <- CfgConcEx
  KeepHist = TRUE
  GateAtomic = TRUE
  NonIdemRetry = FALSE
INVARIANTS NoViolation EmitCase
