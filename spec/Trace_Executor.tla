--------------------------- MODULE Trace_Executor ---------------------------
(***************************************************************************)
(* Conformance of executions recorded from the REAL queryExecutor          *)
(* (harness/c13, NDJSON in IOEnv.VF_TRACE, many traces per file, each      *)
(* "begin" ... "endtrace") with Executor.tla: every recorded event must be *)
(* an enabled visible Executor action with exactly the recorded arguments; *)
(* the channel send / receive (Deliver, Recv) are silent steps TLC places. *)
(* A trace is ACCEPTed iff some placement explains all of it.  Abandon     *)
(* gives up the current trace and moves to the next one, so one TLC run    *)
(* decides every trace of the file.  The monitor g runs along (it is part  *)
(* of Executor's actions), its keys are printed with the acceptance.       *)
(* Configuration: NonIdemRetry = TRUE (the known deviation for queries not *)
(* marked idempotent is reported by the monitor, not as non-conformance).  *)
(***************************************************************************)
EXTENDS Executor, Json, IOUtils

Log == ndJsonDeserialize(IOEnv.VF_TRACE)
NLog == Len(Log)
AllOuts == {Log[i].x : i \in {j \in 1 .. NLog : Log[j].ev = "end"}} \cup {"ok"}
ToSet(s) == {s[i] : i \in 1 .. Len(s)}

VARIABLES l, tid
tvars == <<l, tid>>

CfgOf(b) == [hosts |-> b.hosts, pol |-> [kind |-> b.polkind, n |-> b.poln, allow |-> ToSet(b.allow), name |-> b.policy],
             outs |-> AllOuts, k |-> b.k, idem |-> b.idem, cancel |-> "any", wire |-> b.wire]
BlankCfg == [hosts |-> <<>>, pol |-> [kind |-> "none", n |-> 0, allow |-> {}, name |-> "none"], outs |-> {}, k |-> 0, idem |-> FALSE, cancel |-> "none", wire |-> FALSE]
Proj(r) == Ev(r.ev, r.e, r.h, r.n, r.x, r.y)

\* an end-to-end observer cannot see which *Iter executeQuery returned (n = -1 in the log)
SameEvent(a, b) == IF b.ev = "return" /\ b.n = -1 THEN [a EXCEPT !.n = -1] = b ELSE a = b

\* all Executor variables in the blank state between traces
BlankNext == /\ cfg' = BlankCfg /\ ex' = [e \in E |-> Ex0] /\ ipos' = 0 /\ cnt' = 0 /\ started' = 0 /\ spawned' = 1 /\ launched' = 0
          /\ chan' = NoRes /\ ret' = NoRes /\ cancelled' = "no" /\ returned' = FALSE
          /\ g' = MonInit /\ hist' = <<>> /\ last' = NoEv

TInit == /\ l = 1 /\ tid = 0
         /\ InitWith(BlankCfg)

Begin == /\ l <= NLog /\ Log[l].ev = "begin"
         /\ cfg' = CfgOf(Log[l]) /\ ex' = [e \in E |-> Ex0] /\ ipos' = 0 /\ cnt' = 0 /\ started' = 0 /\ spawned' = 1 /\ launched' = 0
         /\ chan' = NoRes /\ ret' = NoRes /\ cancelled' = "no" /\ returned' = FALSE
         /\ g' = MonInit /\ hist' = <<>> /\ last' = NoEv
         /\ l' = l + 1 /\ tid' = Log[l].id

InTrace == l <= NLog /\ tid # 0 /\ Log[l].ev \notin {"begin"}

Visible == /\ InTrace /\ Log[l].ev \notin {"endtrace", "quiesce"}
           /\ VisibleNext
           /\ SameEvent(last', Proj(Log[l]))
           /\ l' = l + 1 /\ tid' = tid

\* harness knowledge, not an action of the executor: only the monitor takes note
Quiesce == /\ InTrace /\ Log[l].ev = "quiesce"
           /\ g' = MonStep(g, Proj(Log[l]), cfg)
           /\ UNCHANGED <<cfg, ex, ipos, cnt, started, spawned, launched, chan, ret, cancelled, returned, hist, last>>
           /\ l' = l + 1 /\ tid' = tid

Silent == /\ InTrace /\ SilentNext /\ UNCHANGED tvars

EndTrace == /\ InTrace /\ Log[l].ev = "endtrace"
            /\ returned
            /\ PrintT(<<"ACCEPT", ToJson([id |-> tid, viol |-> g.viol, sent |-> g.sent, execs |-> Cardinality(g.execs)])>>)
            /\ BlankNext
            /\ l' = l + 1 /\ tid' = 0

NextBegin(k) == IF \E j \in k .. NLog : Log[j].ev = "begin"
                THEN CHOOSE j \in k .. NLog : Log[j].ev = "begin" /\ \A m \in k .. j - 1 : Log[m].ev # "begin"
                ELSE NLog + 1
Abandon == /\ InTrace
           /\ BlankNext
           /\ l' = NextBegin(l) /\ tid' = 0

TNext == Begin \/ Visible \/ Quiesce \/ Silent \/ EndTrace \/ Abandon
TSpec == TInit /\ [][TNext]_<<vars, tvars>>
=============================================================================
