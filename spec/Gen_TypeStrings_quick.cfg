CONSTANT Tier = "quick"
INIT TInit
NEXT TNext
INVARIANT EmitCase
CHECK_DEADLOCK FALSE
