-------------------------- MODULE Trace_SchemaAgree --------------------------
(***************************************************************************)
(* X01, code -> spec: evaluates waits for schema agreement of the real     *)
(* driver (Session.AwaitSchemaAgreement and schema-changing statements)    *)
(* recorded by harness/x01 against the properties of SchemaAgree.tla.      *)
(*                                                                         *)
(* The log holds observations only: the call and its result (with          *)
(* `late` = the measured duration reached MaxWaitSchemaAgreement), every   *)
(* answer the scripted node gave to a poll (system.peers: the rows as      *)
(* answered, system.local: the version as answered, or a failure), the     *)
(* answer to the statement, the cancellation of the caller's context, and  *)
(* - in replays - the state observed next to the state Gen_SchemaAgree     *)
(* computed.  The monitor folds the log into the ghost state of            *)
(* SchemaAgree.tla (cur / last round, cancelled, afterCancel) and          *)
(* evaluates the same property operators (RoundAgrees ...).                *)
(***************************************************************************)
EXTENDS SchemaAgree, Json, IOUtils

Log == ndJsonDeserialize(IOEnv.VF_TRACE)

VARIABLES l, m, rep
tvars == <<A, l, m, rep>>

NoRnd == [p |-> "none", rows |-> <<>>, l |-> "none", lver |-> ""]
M0 == [scn |-> 0, kind |-> "", ddl |-> "none", cur |-> NoRnd, last |-> NoRnd, cancelled |-> FALSE, afterCancel |-> 0,
       polls |-> 0, active |-> FALSE, told |-> FALSE,
       sure |-> TRUE]   \* the answers of the last round were given before the context ended (after that the driver may
                        \* have abandoned the query the node still answers)

Cur == Log[l]
RowsOf(x) == [i \in 1 .. Len(x) |-> [kind |-> x[i][1], ver |-> x[i][2]]]
HasNull(r) == \E i \in DOMAIN r.rows : r.rows[i].kind = "nullver"
V(kind, r, extra) == [kind |-> kind, scn |-> r.scn, line |-> l, ev |-> r.ev, detail |-> ToString(extra)]
CompleteKey(r) == IF HasNull(r) THEN "await-no-return-on-agreement-null-schema-version" ELSE "await-no-return-on-agreement"

StepOf(r, mm) ==
  CASE r.ev = "init" -> <<[M0 EXCEPT !.scn = r.scn], {}, {}, {}>>
    [] r.ev = "aw_begin" -> <<[M0 EXCEPT !.scn = r.scn, !.kind = r.kind, !.active = TRUE], {}, {}, {}>>
    [] r.ev = "a_ddl" -> <<[mm EXCEPT !.ddl = IF r.ans = "change" THEN "applied" ELSE "rejected"], {}, {}, {}>>
    [] r.ev = "a_peers" ->
         LET c == [p |-> r.ans, rows |-> RowsOf(r.rows), l |-> "none", lver |-> ""]
             \* [S1] the wait ends at the round that shows agreement: no further poll
             \* (reported once per wait)
             v1 == IF mm.active /\ ~mm.told /\ mm.sure /\ RoundAgrees(mm.last) THEN {V(CompleteKey(mm.last), r, mm.last)} ELSE {}
             n == IF mm.cancelled THEN mm.afterCancel + 1 ELSE mm.afterCancel
             v2 == IF mm.active /\ n = 3 /\ mm.afterCancel = 2 THEN {V("await-ignores-cancel", r, n)} ELSE {}
         IN <<[mm EXCEPT !.cur = c, !.last = IF r.ans = "ok" THEN @ ELSE c, !.polls = @ + 1, !.told = @ \/ v1 # {},
                         !.sure = ~mm.cancelled, !.afterCancel = n], v1 \cup v2, {}, {}>>
    [] r.ev = "a_local" ->
         LET c == [mm.cur EXCEPT !.l = r.ans, !.lver = r.lver] IN
         <<[mm EXCEPT !.cur = c, !.last = c, !.sure = mm.sure /\ ~mm.cancelled], {}, {}, {}>>
    [] r.ev = "cancel" -> <<[mm EXCEPT !.cancelled = TRUE], {}, {}, {}>>
    \* a request the connection refused because its context was done: a poll attempted after the cancellation
    [] r.ev = "x_ctx" ->
         LET n == IF mm.active /\ mm.cancelled THEN mm.afterCancel + 1 ELSE mm.afterCancel IN
         <<[mm EXCEPT !.afterCancel = n], IF n = 3 /\ mm.afterCancel = 2 THEN {V("await-ignores-cancel", r, n)} ELSE {}, {}, {}>>
    [] r.ev = "aw_end" /\ r.kind = "await" ->
         LET agreed == RoundAgrees(mm.last)
             v == (IF r.ans = "nil" /\ ~agreed THEN {V("await-nil-without-agreement", r, mm.last)} ELSE {})
                  \* (once the context has ended the driver may have abandoned a query whose answer the node logged)
                  \cup (IF r.ans # "nil" /\ agreed /\ ~mm.cancelled /\ ~mm.told THEN {V(CompleteKey(mm.last), r, <<r.ans, mm.last>>)} ELSE {})
                  \cup (IF r.ans = "disagree" /\ ~r.late THEN {V("await-error-before-maxwait", r, r.ms)} ELSE {})
                  \cup (IF r.ans = "ctx" /\ ~mm.cancelled THEN {V("await-ctx-error-without-cancel", r, "")} ELSE {})
             d == IF r.ans \notin {"nil", "disagree", "ctx"} THEN {V("await-unexpected-error", r, r.ans)} ELSE {}
         IN <<[mm EXCEPT !.active = FALSE], v, d, {}>>
    [] r.ev = "aw_end" /\ r.kind = "ddl" ->
         LET agreed == RoundAgrees(mm.last)
             \* [S2] the statement returns after agreement was seen, after the deadline, or when its context ended
             v == (IF mm.ddl = "applied" /\ ~(agreed \/ r.late \/ mm.cancelled)
                     THEN {V("ddl-returned-before-agreement", r, mm.last)} ELSE {})
             d == (IF mm.ddl = "applied" /\ r.ans = "err" /\ ~mm.cancelled
                     THEN {V("ddl-returns-agreement-error", r, "the statement was applied; conn.go only logs the outcome of the wait")} ELSE {})
                  \cup (IF mm.ddl = "rejected" /\ r.ans = "ok" THEN {V("ddl-rejected-without-error", r, "")} ELSE {})
         IN <<[mm EXCEPT !.active = FALSE], v, d, {}>>
    [] r.ev = "aw_hang" ->
         \* [S1] "The maximum amount of time this takes is governed by MaxWaitSchemaAgreement": polls keep arriving
         \* 40 s after the deadline
         IF r.flag THEN <<mm, {V("await-polls-past-deadline", r, r.n)}, {}, {}>> ELSE <<mm, {}, {}, {V("stall", r, r.ms)}>>
    [] r.ev = "obs" ->
         <<mm, {}, IF ~r.flag /\ ~(r.obs.pc = "done" /\ r.late) THEN {V("replay-left-the-model", r, [cmd |-> r.cmd, step |-> r.n, observed |-> r.obs, model |-> r.exp])} ELSE {}, {}>>
    [] OTHER -> <<mm, {}, {}, {}>>

TInit == /\ l = 1 /\ m = M0 /\ rep = [viol |-> {}, drift |-> {}, skip |-> {}] /\ A = 0
TNext ==
  /\ l <= Len(Log)
  /\ LET st == StepOf(Cur, m) IN
       /\ m' = st[1]
       /\ rep' = [viol |-> st[2], drift |-> st[3], skip |-> st[4]]
  /\ l' = l + 1
  /\ A' = A
TSpec == TInit /\ [][TNext]_tvars

Report ==
  /\ \A v \in rep.viol : PrintT(<<"MONVIOL", ToJson(v)>>)
  /\ \A v \in rep.drift : PrintT(<<"MONDRIFT", ToJson(v)>>)
  /\ \A v \in rep.skip : PrintT(<<"MONSKIP", ToJson(v)>>)
  /\ (l = Len(Log) + 1) => PrintT(<<"MONDONE", l - 1>>)
=============================================================================
