INIT InitSpecial
NEXT Next
INVARIANT EmitSpecial
CHECK_DEADLOCK FALSE
