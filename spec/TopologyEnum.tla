---------------------------- MODULE TopologyEnum ----------------------------
(***************************************************************************)
(* Enumeration of bounded rings and datacenter/rack layouts without        *)
(* symmetric copies (shared by the C10 and C11 case generators): node ids  *)
(* appear in the ring in order of first occurrence, datacenter indexes in  *)
(* order of first occurrence over node ids, rack indexes likewise inside   *)
(* each datacenter.                                                        *)
(***************************************************************************)
EXTENDS Integers, Sequences, FiniteSets

LOCAL ERange(s) == {s[k] : k \in 1 .. Len(s)}
LOCAL EMin(a, b) == IF a < b THEN a ELSE b
EnumMaxOf(S) == IF S = {} THEN 0 ELSE CHOOSE x \in S : \A y \in S : y <= x
LOCAL ECount(s, x) == Cardinality({k \in 1 .. Len(s) : s[k] = x})

DcName(k) == CASE k = 1 -> "dc1" [] k = 2 -> "dc2" [] k = 3 -> "dc3" [] OTHER -> "dc4"
RackName(k) == CASE k = 1 -> "r1" [] k = 2 -> "r2" [] k = 3 -> "r3" [] OTHER -> "r4"

\* rings of exactly L entries over at most N nodes, each node at most V times, restricted growth
RECURSIVE EnumRingsOfLen(_, _, _)
EnumRingsOfLen(L, N, V) ==
  IF L = 0 THEN {<<>>}
  ELSE UNION {{Append(s, h) : h \in {x \in 1 .. EMin(EnumMaxOf(ERange(s)) + 1, N) : ECount(s, x) < V}}
              : s \in EnumRingsOfLen(L - 1, N, V)}
EnumRings(MaxL, N, V) == UNION {EnumRingsOfLen(L, N, V) : L \in 1 .. MaxL}

\* datacenter index per node 1..n (at most D datacenters), restricted growth
RECURSIVE EnumDcIdx(_, _)
EnumDcIdx(n, D) == IF n = 0 THEN {<<>>}
                   ELSE UNION {{Append(s, d) : d \in 1 .. EMin(EnumMaxOf(ERange(s)) + 1, D)} : s \in EnumDcIdx(n - 1, D)}
\* rack index per node (at most R racks per datacenter), restricted growth inside each datacenter
RECURSIVE EnumRackIdx(_, _, _)
EnumRackIdx(di, n, R) ==
  IF n = 0 THEN {<<>>}
  ELSE UNION {{Append(s, r) : r \in 1 .. EMin(EnumMaxOf({s[k] : k \in {m \in 1 .. n - 1 : di[m] = di[n]}}) + 1, R)}
              : s \in EnumRackIdx(di, n - 1, R)}
=============================================================================
