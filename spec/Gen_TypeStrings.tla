--------------------------- MODULE Gen_TypeStrings ---------------------------
(***************************************************************************)
(* Property C05, input family 4: type descriptions as the schema tables    *)
(* carry them.                                                             *)
(*   g = "marshal": class strings of the validator / comparator columns    *)
(*       (system.schema_columnfamilies / schema_columns before Cassandra   *)
(*       3), grammar of org.apache.cassandra.db.marshal.TypeParser:        *)
(*          CLASS := ID [ "(" PARAM { "," PARAM } ")" ]                     *)
(*          PARAM := [ ID ":" ] CLASS          ID := LETTER { LETTER }      *)
(*   g = "cql": type strings of system_schema (Cassandra 3+):              *)
(*          TYPE := ID [ "<" TYPE { ", " TYPE } ">" ]                       *)
(*   g = "compidx": the component_index of a key column.                   *)
(*   g = "aggregate": the final_func / state_func names of a row of        *)
(*       system_schema.aggregates (FINALFUNC is optional in CREATE         *)
(*       AGGREGATE: the column may be null; the keyspace's functions are   *)
(*       read by a separate query).                                        *)
(* A base string is a sequence of tokens.  One TLC state per case: the     *)
(* string itself, every truncation (character offset), every token        *)
(* dropped, every bracket / separator duplicated, every bracket reversed   *)
(* (bracket imbalance); and, for every type with several components       *)
(* (CompositeType, MapType, TupleType, UserType, wrappers of one; map<>,   *)
(* tuple<>), a MALFORMED COMPONENT IN EVERY POSITION while the others are  *)
(* complete: a class that lacks its parameters, has an empty parameter     *)
(* list, too few parameters, nothing at all, a named parameter where none  *)
(* belongs.  Oracle: spec/Trace_Malformed.tla.                             *)
(***************************************************************************)
EXTENDS Integers, Sequences, TLC, Json

CONSTANT Tier
VARIABLE p

P(n) == "org.apache.cassandra.db.marshal." \o n
LP == "("
RP == ")"
CM == ","
CL == ":"
LT == "<"
GT == ">"
CS == ", "

MarshalBase == <<
  <<P("UTF8Type")>>,
  <<P("ListType"), LP, P("Int32Type"), RP>>,
  <<P("SetType"), LP, P("UTF8Type"), RP>>,
  <<P("MapType"), LP, P("UTF8Type"), CM, P("Int32Type"), RP>>,
  <<P("ReversedType"), LP, P("Int32Type"), RP>>,
  <<P("CompositeType"), LP, P("UTF8Type"), CM, P("Int32Type"), RP>>,
  <<P("CompositeType"), LP, P("UTF8Type"), CM, P("ReversedType"), LP, P("TimeUUIDType"), RP, RP>>,
  <<P("CompositeType"), LP, P("UTF8Type"), CM, P("ColumnToCollectionType"), LP, "6d79636f6c", CL, P("ListType"), LP, P("Int32Type"), RP, RP, RP>>,
  <<P("CompositeType"), LP, P("ColumnToCollectionType"), LP, "zz", CL, P("SetType"), LP, P("UTF8Type"), RP, RP, RP>>,
  <<P("ListType"), LP, P("MapType"), LP, P("UTF8Type"), CM, P("SetType"), LP, P("Int32Type"), RP, RP, RP>>,
  <<P("FrozenType"), LP, P("ListType"), LP, P("Int32Type"), RP, RP>>,
  <<P("UserType"), LP, "ks", CM, "6e616d65", CM, "6631", CL, P("Int32Type"), CM, "6632", CL, P("UTF8Type"), RP>>,
  <<P("TupleType"), LP, P("Int32Type"), CM, P("UTF8Type"), RP>>,
  <<P("MapType"), LP, " ", P("UTF8Type"), " ", CM, " ", P("Int32Type"), " ", RP>>,
  <<P("DynamicCompositeType"), LP, "a=>", P("BytesType"), RP>>,
  <<"com.example.MyType">> >>
MarshalMore == <<
  <<P("ReversedType"), LP, P("ListType"), LP, P("Int32Type"), RP, RP>>,
  <<P("CompositeType"), LP, P("ReversedType"), LP, P("UTF8Type"), RP, CM, P("ReversedType"), LP, P("Int32Type"), RP, RP>>,
  <<P("MapType"), LP, P("ReversedType"), LP, P("UTF8Type"), RP, CM, P("ListType"), LP, P("Int32Type"), RP, RP>>,
  <<P("CompositeType"), LP, P("Int32Type"), RP>>,
  <<P("SetType"), LP, P("TupleType"), LP, P("Int32Type"), CM, P("UTF8Type"), RP, RP>>,
  <<P("ColumnToCollectionType"), LP, "6d", CL, P("MapType"), LP, P("UTF8Type"), CM, P("Int32Type"), RP, RP>> >>

CqlBase == <<
  <<"int">>,
  <<"list", LT, "int", GT>>,
  <<"set", LT, "text", GT>>,
  <<"map", LT, "text", CS, "int", GT>>,
  <<"frozen", LT, "list", LT, "int", GT, GT>>,
  <<"map", LT, "text", CS, "frozen", LT, "list", LT, "int", GT, GT, GT>>,
  <<"tuple", LT, "int", CS, "text", CS, "frozen", LT, "set", LT, "uuid", GT, GT, GT>>,
  <<"frozen", LT, "tuple", LT, "int", CS, "map", LT, "text", CS, "int", GT, GT, GT>>,
  <<"frozen", LT, "my_udt", GT>>,
  <<"map", LT, "frozen", LT, "list", LT, "int", GT, GT, CS, "text", GT>>,
  <<"'org.apache.cassandra.db.marshal.DateType'">> >>
CqlMore == <<
  <<"list", LT, "frozen", LT, "map", LT, "int", CS, "frozen", LT, "tuple", LT, "int", CS, "text", GT, GT, GT, GT, GT>>,
  <<"tuple", LT, GT>>,
  <<"map", LT, "int", CM, "text", GT>>,
  <<"set", LT, "frozen", LT, "tuple", LT, "blob", CS, "duration", GT, GT, GT>> >>

Bases(g) == IF g = "marshal" THEN MarshalBase \o (IF Tier = "thorough" THEN MarshalMore ELSE <<>>)
            ELSE CqlBase \o (IF Tier = "thorough" THEN CqlMore ELSE <<>>)

RECURSIVE Join(_)
Join(toks) == IF Len(toks) = 0 THEN "" ELSE Head(toks) \o Join(Tail(toks))
Drop(toks, i) == SubSeq(toks, 1, i - 1) \o SubSeq(toks, i + 1, Len(toks))
Dup(toks, i) == SubSeq(toks, 1, i) \o SubSeq(toks, i, Len(toks))
Flip(tok) == CASE tok = LP -> RP [] tok = RP -> LP [] tok = LT -> GT [] tok = GT -> LT [] OTHER -> tok
Swap(toks, i) == [j \in 1 .. Len(toks) |-> IF j = i THEN Flip(toks[j]) ELSE toks[j]]
Punct == {LP, RP, CM, CL, LT, GT, CS}

St(t, g, b, mk, i, s, v) == [t |-> t, g |-> g, b |-> b, mk |-> mk, i |-> i, s |-> s, v |-> v, toks |-> <<>>]
CompIdx == {-1, -2, 1, 7, 65536, 2147483647}

\* ------------------------------------------------------------------ a malformed component in every position
\* components are token sequences; a wrapper joins n of them
RECURSIVE JoinWith(_, _)
JoinWith(cs, sep) == IF Len(cs) = 0 THEN <<>> ELSE IF Len(cs) = 1 THEN cs[1] ELSE cs[1] \o <<sep>> \o JoinWith(Tail(cs), sep)
GoodM == << <<P("UTF8Type")>>, <<P("Int32Type")>>, <<P("ReversedType"), LP, P("Int32Type"), RP>>, <<P("ListType"), LP, P("UTF8Type"), RP>> >>
BadM == << <<P("ReversedType")>>, <<P("ReversedType"), LP, RP>>, <<P("ListType")>>, <<P("ListType"), LP, RP>>, <<P("SetType"), LP, RP>>,
           <<P("MapType"), LP, P("UTF8Type"), RP>>, <<P("MapType")>>, <<>>, <<P("ColumnToCollectionType"), LP, RP>>,
           <<P("ColumnToCollectionType"), LP, "zz", RP>>, <<P("CompositeType")>>, <<P("CompositeType"), LP, RP>>,
           <<"6d", CL, P("Int32Type")>>, <<P("ReversedType"), LP, P("ListType"), RP>>, <<P("TupleType"), LP, RP>> >>
\* wrappers: [name, arity, prefix tokens inside the parentheses]
WrapM == << [n |-> P("CompositeType"), k |-> 2, pre |-> <<>>], [n |-> P("CompositeType"), k |-> 3, pre |-> <<>>],
            [n |-> P("MapType"), k |-> 2, pre |-> <<>>], [n |-> P("TupleType"), k |-> 2, pre |-> <<>>],
            [n |-> P("UserType"), k |-> 2, pre |-> <<"ks", CM, "6e616d65", CM>>],
            [n |-> P("ReversedType"), k |-> 1, pre |-> <<>>], [n |-> P("ListType"), k |-> 1, pre |-> <<>>],
            [n |-> P("FrozenType"), k |-> 1, pre |-> <<>>] >>
\* the component at position i is bad b, the others are good ones (rotating with the fill f)
CompsM(w, i, b, f) == [j \in 1 .. w.k |-> IF j = i THEN BadM[b] ELSE GoodM[((j + f) % Len(GoodM)) + 1]]
NamedM(w, cs) == IF w.n = P("UserType") THEN [j \in 1 .. Len(cs) |-> <<"66", CL>> \o cs[j]] ELSE cs
WrapToksM(w, cs) == <<w.n, LP>> \o w.pre \o JoinWith(NamedM(w, cs), CM) \o <<RP>>
GoodC == << <<"int">>, <<"text">>, <<"frozen", LT, "list", LT, "int", GT, GT>> >>
BadC == << <<"list", LT>>, <<"list", LT, GT>>, <<"list">>, <<"map", LT, "int", GT>>, <<"frozen", LT, GT>>, <<"tuple", LT, GT>>, <<>>,
           <<"map", LT>>, <<"frozen">>, <<LT>>, <<GT>> >>
WrapC == << [n |-> "map", k |-> 2], [n |-> "tuple", k |-> 2], [n |-> "tuple", k |-> 3], [n |-> "frozen", k |-> 1], [n |-> "list", k |-> 1], [n |-> "set", k |-> 1] >>
CompsC(w, i, b, f) == [j \in 1 .. w.k |-> IF j = i THEN BadC[b] ELSE GoodC[((j + f) % Len(GoodC)) + 1]]
WrapToksC(w, cs) == <<w.n, LT>> \o JoinWith(cs, CS) \o <<GT>>
Fills == IF Tier = "thorough" THEN {0, 1, 2} ELSE {0, 1}

\* i = 1: the name is the aggregate's final function, i = 2: its state function; "f1" exists
FuncNames == {"", "f1", "nosuchfn"}
TInit == \/ \E fn \in FuncNames, i \in {1, 2} : p = St("case", "aggregate", 0, "value", i, fn, 0)
         \/ \E w \in 1 .. Len(WrapM), b \in 1 .. Len(BadM), f \in Fills : \E i \in 1 .. WrapM[w].k :
              p = St("case", "marshal", w, "bad-component", i, Join(WrapToksM(WrapM[w], CompsM(WrapM[w], i, b, f))), b)
         \/ \E w \in 1 .. Len(WrapC), b \in 1 .. Len(BadC), f \in Fills : \E i \in 1 .. WrapC[w].k :
              p = St("case", "cql", w, "bad-component", i, Join(WrapToksC(WrapC[w], CompsC(WrapC[w], i, b, f))), b)
         \/ \E g \in {"marshal", "cql"} : \E b \in 1 .. Len(Bases(g)) : p = [St("base", g, b, "", 0, Join(Bases(g)[b]), 0) EXCEPT !.toks = Bases(g)[b]]
         \/ \E v \in CompIdx : p = St("case", "compidx", 0, "value", 0, "", v)
TNext ==
  /\ p.t = "base"
  /\ \/ p' = St("case", p.g, p.b, "wellformed", 0, p.s, 0)
     \/ \E k \in 0 .. Len(p.s) - 1 : p' = St("case", p.g, p.b, "trunc", k, SubSeq(p.s, 1, k), 0)
     \/ \E i \in 1 .. Len(p.toks) : p' = St("case", p.g, p.b, "drop-token", i, Join(Drop(p.toks, i)), 0)
     \/ \E i \in 1 .. Len(p.toks) : p.toks[i] \in Punct /\ p' = St("case", p.g, p.b, "dup-token", i, Join(Dup(p.toks, i)), 0)
     \/ \E i \in 1 .. Len(p.toks) : p.toks[i] \in {LP, RP, LT, GT} /\ p' = St("case", p.g, p.b, "flip-bracket", i, Join(Swap(p.toks, i)), 0)

EmitCase == p.t = "case" => PrintT("CASE " \o ToJson([g |-> p.g, b |-> p.b, mk |-> p.mk, i |-> p.i, s |-> p.s, v |-> p.v]))
=============================================================================
