------------------------------ MODULE MC_Conn ------------------------------
EXTENDS Conn
CONSTANTS r1, r2, r3
Perm2 == Permutations({r1, r2})
Perm3 == Permutations({r1, r2, r3})
=============================================================================
