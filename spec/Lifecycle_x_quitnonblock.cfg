SPECIFICATION Spec
CONSTANTS
  Closers = {"k1"}
  Requesters = {"r1"}
  MaxDebounce = 0
  MaxEvents = 0
  MaxProbeFail = 1
  MaxCtlFail = 0
  MaxAddHost = 0
  OnlyDebouncer = FALSE
  WithControl = TRUE
  Defect_StopHandshake = FALSE
  Defect_HeartbeatStart = FALSE
  Defect_LatePool = FALSE
  Defect_ReconnectWindow = FALSE
  Defect_EvStopUnderLock = FALSE
  Defect_EvSyncCallback = FALSE
  EvEager = FALSE
  Defect_CloseHoldsStateLock = FALSE
  Defect_QuitNonBlocking = TRUE
  Defect_ReconnectInline = FALSE
  Mut = "none"
INVARIANTS TypeOK NoPanic
PROPERTIES GoroutinesExit
