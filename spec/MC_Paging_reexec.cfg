SPECIFICATION FairSpec
CONSTANTS
  MaxPages = 3
  MaxRows = 2
  Quarters = {0, 2}
  Kinds = {"Scan", "Scanner", "MapScan", "SliceMap"}
  ManualQuarters = {1}
  Plans <- PlansReexec
INVARIANTS TypeOK RowsExactlyOnceInOrder RequestChain RequestsIdentical EndsAsDemanded FinalMatchesExpectation OnceOnly
PROPERTIES Terminates
CHECK_DEADLOCK FALSE
