--------------------------- MODULE Trace_UuidConc ---------------------------
(***************************************************************************)
(* C19, concurrent generation: one shard of the UUIDs that G goroutines    *)
(* obtained from TimeUUID().  The harness puts a UUID into shard           *)
(* (octet 3 mod nshard); TLC verifies the membership of every record, so   *)
(* two equal UUIDs are necessarily in the same shard and per-shard         *)
(* distinctness implies global distinctness.  First line: header           *)
(* [shard, nshard, n (records in this shard), total, c0, c1 (clockSeq      *)
(* before / after the run, 4 big-endian bytes)], then n lines [g, u].      *)
(***************************************************************************)
EXTENDS Uuid, Json, IOUtils, FiniteSets

Log == ndJsonDeserialize(IOEnv.VF_TRACE)
Hdr == Log[1]
N == Len(Log) - 1
U(i) == Log[i + 1].u

VARIABLE res
\* every record is a version-1 RFC 4122 UUID of this shard
WellFormed == \A i \in 1 .. N : IsV1(U(i)) /\ U(i)[4] % Hdr.nshard = Hdr.shard
Distinct == Cardinality({U(i) : i \in 1 .. N}) = N
\* generator model: every call incremented the process-wide counter exactly once
\* (c1 - c0 = total modulo 2^32); 4-byte big-endian counters, total < 2^31
Counter ==
  LET w(b) == <<b[4], b[3], b[2], b[1], 0, 0, 0, 0>>
      d == AddW(w(Hdr.c0), NatW(Hdr.total)) IN
  <<d[1], d[2], d[3], d[4]>> = <<Hdr.c1[4], Hdr.c1[3], Hdr.c1[2], Hdr.c1[1]>>
Init == res = [count |-> (N = Hdr.n), wellformed |-> WellFormed, distinct |-> Distinct, counter |-> Counter,
               n |-> N, shard |-> Hdr.shard]
Next == UNCHANGED res
Report == PrintT(<<"CONC", ToJson(res)>>)
=============================================================================
