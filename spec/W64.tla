-------------------------------- MODULE W64 --------------------------------
(***************************************************************************)
(* Fixed-size and arbitrary-size integer arithmetic for the Token (C09)    *)
(* and Uuid (C19) reference definitions.  TLC integers are 32-bit, so      *)
(*  - a 64-bit word is a tuple of 8 byte limbs, least significant first;   *)
(*    arithmetic is modulo 2^64 (two's complement: the same operators      *)
(*    serve Java's signed long);                                           *)
(*  - a natural number of any size is a big-endian sequence of bytes,      *)
(*    a decimal numeral is a sequence of digits 0..9, most significant     *)
(*    first, without leading zeros (zero is <<0>>).                        *)
(***************************************************************************)
EXTENDS Integers, Sequences, Bitwise

Pow2(n) == CASE n = 0 -> 1 [] n = 1 -> 2 [] n = 2 -> 4 [] n = 3 -> 8 [] n = 4 -> 16
             [] n = 5 -> 32 [] n = 6 -> 64 [] n = 7 -> 128 [] n = 8 -> 256

IsByte(b) == b \in 0 .. 255
IsBytes(s) == \A i \in 1 .. Len(s) : s[i] \in 0 .. 255

\* ------------------------------------------------------------ 64-bit words
ZeroW == <<0, 0, 0, 0, 0, 0, 0, 0>>
OneW == <<1, 0, 0, 0, 0, 0, 0, 0>>
AllOnesW == <<255, 255, 255, 255, 255, 255, 255, 255>>

\* 0 <= n < 2^31
NatW(n) == <<n % 256, (n \div 256) % 256, (n \div 65536) % 256, (n \div 16777216) % 256, 0, 0, 0, 0>>

\* word from 8 bytes, first byte least / most significant
WordLE(b) == <<b[1], b[2], b[3], b[4], b[5], b[6], b[7], b[8]>>
WordBE(b) == <<b[8], b[7], b[6], b[5], b[4], b[3], b[2], b[1]>>
BytesBE(w) == <<w[8], w[7], w[6], w[5], w[4], w[3], w[2], w[1]>>

XorW(a, b) == <<a[1] ^^ b[1], a[2] ^^ b[2], a[3] ^^ b[3], a[4] ^^ b[4],
                a[5] ^^ b[5], a[6] ^^ b[6], a[7] ^^ b[7], a[8] ^^ b[8]>>
NotW(a) == <<255 - a[1], 255 - a[2], 255 - a[3], 255 - a[4], 255 - a[5], 255 - a[6], 255 - a[7], 255 - a[8]>>

AddW(a, b) ==
  LET s1 == a[1] + b[1]
      s2 == a[2] + b[2] + s1 \div 256
      s3 == a[3] + b[3] + s2 \div 256
      s4 == a[4] + b[4] + s3 \div 256
      s5 == a[5] + b[5] + s4 \div 256
      s6 == a[6] + b[6] + s5 \div 256
      s7 == a[7] + b[7] + s6 \div 256
      s8 == a[8] + b[8] + s7 \div 256
  IN <<s1 % 256, s2 % 256, s3 % 256, s4 % 256, s5 % 256, s6 % 256, s7 % 256, s8 % 256>>
NegW(a) == AddW(NotW(a), OneW)
SubW(a, b) == AddW(a, NegW(b))

\* schoolbook product modulo 2^64: column k collects a[i]*b[j] with i+j = k
MulW(a, b) ==
  LET c1 == a[1]*b[1]
      c2 == a[1]*b[2] + a[2]*b[1] + c1 \div 256
      c3 == a[1]*b[3] + a[2]*b[2] + a[3]*b[1] + c2 \div 256
      c4 == a[1]*b[4] + a[2]*b[3] + a[3]*b[2] + a[4]*b[1] + c3 \div 256
      c5 == a[1]*b[5] + a[2]*b[4] + a[3]*b[3] + a[4]*b[2] + a[5]*b[1] + c4 \div 256
      c6 == a[1]*b[6] + a[2]*b[5] + a[3]*b[4] + a[4]*b[3] + a[5]*b[2] + a[6]*b[1] + c5 \div 256
      c7 == a[1]*b[7] + a[2]*b[6] + a[3]*b[5] + a[4]*b[4] + a[5]*b[3] + a[6]*b[2] + a[7]*b[1] + c6 \div 256
      c8 == a[1]*b[8] + a[2]*b[7] + a[3]*b[6] + a[4]*b[5] + a[5]*b[4] + a[6]*b[3] + a[7]*b[2] + a[8]*b[1] + c7 \div 256
  IN <<c1 % 256, c2 % 256, c3 % 256, c4 % 256, c5 % 256, c6 % 256, c7 % 256, c8 % 256>>

\* rotate left by r bits (0 < r < 64): whole limbs by r \div 8, then r % 8 bits across limbs
Rotl(w, r) ==
  LET q == r \div 8
      s == r % 8
      lo(i) == w[((i - 1 - q + 16) % 8) + 1]         \* limb that moves to position i
      pv(i) == w[((i - 2 - q + 16) % 8) + 1]         \* the one below it
      f(i) == IF s = 0 THEN lo(i) ELSE ((lo(i) * Pow2(s)) % 256) + (pv(i) \div Pow2(8 - s))
  IN <<f(1), f(2), f(3), f(4), f(5), f(6), f(7), f(8)>>

\* logical shift right by r bits (0 < r < 64)
Shr(w, r) ==
  LET q == r \div 8
      s == r % 8
      g(k) == IF k > 8 THEN 0 ELSE w[k]
      f(i) == IF s = 0 THEN g(i + q) ELSE (g(i + q) \div Pow2(s)) + ((g(i + q + 1) % Pow2(s)) * Pow2(8 - s))
  IN <<f(1), f(2), f(3), f(4), f(5), f(6), f(7), f(8)>>

\* shift left by whole bytes (0 <= q <= 8)
ShlBytes(w, q) == [i \in 1 .. 8 |-> IF i - q >= 1 THEN w[i - q] ELSE 0]

IsNegW(w) == w[8] >= 128
\* unsigned / signed (two's complement) order
RECURSIVE LtFrom(_, _, _)
LtFrom(a, b, i) == IF i = 0 THEN FALSE ELSE IF a[i] # b[i] THEN a[i] < b[i] ELSE LtFrom(a, b, i - 1)
LtU(a, b) == LtFrom(a, b, 8)
LtS(a, b) == IF IsNegW(a) # IsNegW(b) THEN IsNegW(a) ELSE LtU(a, b)

\* --------------------------------------------- naturals of any size, decimal
RECURSIVE StripZeros(_)
StripZeros(s) == IF Len(s) > 1 /\ s[1] = 0 THEN StripZeros(Tail(s)) ELSE s

\* divide the big-endian byte sequence by 10: <<quotient bytes, remainder>>
DivMod10(be) ==
  LET RECURSIVE G(_, _, _)
      G(i, rem, acc) == IF i > Len(be) THEN <<acc, rem>>
                        ELSE LET v == rem * 256 + be[i] IN G(i + 1, v % 10, Append(acc, v \div 10))
  IN G(1, 0, <<>>)
IsZeroBytes(be) == \A i \in 1 .. Len(be) : be[i] = 0

\* decimal numeral of the natural number with big-endian bytes be
RECURSIVE DecAcc(_, _)
DecAcc(be, acc) == IF IsZeroBytes(be) THEN (IF acc = <<>> THEN <<0>> ELSE acc)
                   ELSE LET qr == DivMod10(be) IN DecAcc(qr[1], <<qr[2]>> \o acc)
DecOfBytes(be) == DecAcc(be, <<>>)

\* two's complement negation of a big-endian byte sequence (same length; -2^(8n-1) maps to itself,
\* which read as UNSIGNED is the correct magnitude 2^(8n-1))
NegBytes(be) ==
  LET n == Len(be)
      RECURSIVE G(_, _, _)
      G(i, c, acc) == IF i = 0 THEN acc
                      ELSE LET v == (255 - be[i]) + c IN G(i - 1, v \div 256, <<v % 256>> \o acc)
  IN G(n, 1, <<>>)
\* magnitude of the signed (two's complement) big-endian integer, as unsigned bytes
AbsBytes(be) == IF Len(be) > 0 /\ be[1] >= 128 THEN NegBytes(be) ELSE be

\* signed decimal numeral: [neg |-> BOOLEAN, dig |-> digits]
SignedDecOfBytes(be) == [neg |-> Len(be) > 0 /\ be[1] >= 128, dig |-> DecOfBytes(AbsBytes(be))]
SignedDecW(w) == SignedDecOfBytes(BytesBE(w))
UnsignedDecW(w) == DecOfBytes(BytesBE(w))

\* ASCII rendering (what strconv.FormatInt / BigInteger.toString print)
AsciiOfDigits(d) == [i \in 1 .. Len(d) |-> 48 + d[i]]
AsciiOfSigned(sd) == (IF sd.neg THEN <<45>> ELSE <<>>) \o AsciiOfDigits(sd.dig)

\* canonical decimal numerals as ASCII: optional '-', digits, no leading zero, no "-0"
IsCanonDec(a) ==
  LET neg == Len(a) > 0 /\ a[1] = 45
      d == IF neg THEN Tail(a) ELSE a
  IN /\ Len(d) >= 1
     /\ \A i \in 1 .. Len(d) : d[i] \in 48 .. 57
     /\ (Len(d) > 1 => d[1] # 48)
     /\ (neg => d # <<48>>)
\* order of two canonical decimal numerals as integers
RECURSIVE LexLt(_, _, _)
LexLt(a, b, i) == IF i > Len(a) THEN FALSE ELSE IF a[i] # b[i] THEN a[i] < b[i] ELSE LexLt(a, b, i + 1)
MagLt(a, b) == IF Len(a) # Len(b) THEN Len(a) < Len(b) ELSE LexLt(a, b, 1)
DecLt(a, b) ==
  LET na == a[1] = 45
      nb == b[1] = 45
      da == IF na THEN Tail(a) ELSE a
      db == IF nb THEN Tail(b) ELSE b
  IN IF na /\ ~nb THEN TRUE
     ELSE IF ~na /\ nb THEN FALSE
     ELSE IF na THEN MagLt(db, da)
     ELSE MagLt(da, db)
=============================================================================
