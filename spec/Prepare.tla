------------------------------ MODULE Prepare ------------------------------
(***************************************************************************)
(* C14 - prepared statements: prepared once, failures not cached,          *)
(* re-prepared when lost.                                                  *)
(*                                                                         *)
(* One session-wide LRU of single-flight PREPAREs, keyed by the triple     *)
(* <<host, keyspace, statement>>; executors (queries and batches) running  *)
(* on connections <<host, keyspace>>; a node table per key that can FORGET *)
(* (answer UNPREPARED) and re-issues a new id at the next PREPARE.         *)
(*                                                                         *)
(* The whole state is ONE record S and every action is a pair              *)
(*      XxxEn(S, args)  - enabling condition                               *)
(*      Xxx(S, args)    - successor state (a function of S)                *)
(* so that the trace specification (Trace_Prepare.tla) and the behaviour   *)
(* generator (Gen_Prepare.tla) compose exactly the same operators; TLC     *)
(* has no action composition, functions compose freely.                    *)
(*                                                                         *)
(* One action per critical section / observable step of the code:          *)
(*   Lookup        execIfMissing: one lock; hit = move to front and join   *)
(*                 the flight, miss = insert a new in-flight entry, which  *)
(*                 may evict the oldest entry - also an in-flight one      *)
(*   SendPrepare   the winner's goroutine puts PREPARE on the wire         *)
(*   NodePrepareOk / NodePrepareFail                                       *)
(*   FlightDone    result published (done closed); on failure remove(key)  *)
(*                 first - whatever entry is there, possibly a NEWER       *)
(*                 flight's entry                                          *)
(*   WaiterWake / CtxDone                                                  *)
(*   CheckArity    bound-value count against the prepared metadata         *)
(*   SendExecute   EXECUTE (one item) or BATCH (several items)             *)
(*   NodeExecute   rows | UNPREPARED(first id the node does not know)      *)
(*   Evict         evictPreparedID: Get (moves to front), remove only a    *)
(*                 finished entry with that very id; then re-execute (at   *)
(*                 most MaxReprepare times in a row, then the UNPREPARED   *)
(*                 error goes to the caller)                               *)
(*   Forget        the node loses a statement                              *)
(***************************************************************************)
EXTENDS Integers, Sequences, FiniteSets, TLC

CONSTANTS
  Execs,       \* executor ids
  Arity,       \* [statement -> number of bind markers]
  MaxLRU,      \* configured cache size (>= 1)
  MaxForget,   \* bound on Forget steps
  MaxFail,     \* bound on failing PREPAREs
  Cancellable, \* executors whose context may be cancelled
  MaxReprepare,\* how often in a row one execution prepares again after UNPREPARED before it gives up with that error
  UniqueIds,   \* TRUE: every PREPARE answer carries a fresh id; FALSE: one id per generation
  Plans        \* set of plans: [Execs -> [conn : <<host, ks>>, items : Seq([s : stmt, n : #values])]]

VARIABLE S
vars == <<S>>

NoKey == <<"-", "-", "-">>
NoId == [k |-> NoKey, g |-> 0, n |-> 0]
NoFrame == [ids |-> <<>>, nvals |-> <<>>, meta |-> <<>>]

Range(q) == {q[i] : i \in 1 .. Len(q)}
Without(q, x) == SelectSeq(q, LAMBDA y : y # x)

KeyOf(p, e, i) == <<p[e].conn[1], p[e].conn[2], p[e].items[i].s>>
AllKeys(p) == UNION {{KeyOf(p, e, i) : i \in 1 .. Len(p[e].items)} : e \in DOMAIN p}

InitState(p) ==
  [plan |-> p,
   lru |-> <<>>,                         \* keys, most recently used first
   ent |-> [x \in {} |-> 0],            \* function key -> flight, DOMAIN = keys in lru
   fl |-> <<>>,                          \* flights in creation order
   ex |-> [e \in DOMAIN p |-> [pc |-> "lookup", idx |-> 1, cur |-> 0, got |-> <<>>, waited |-> {},
                               unprep |-> NoId, res |-> "none", nframes |-> 0, frame |-> NoFrame,
                               started |-> FALSE, rep |-> 0]],
   known |-> [k \in AllKeys(p) |-> FALSE],
   gen |-> [k \in AllKeys(p) |-> 0],
   cnt |-> [k \in AllKeys(p) |-> 0],
   nprep |-> [k \in AllKeys(p) |-> 0],   \* PREPARE frames sent per key
   nrem |-> [k \in AllKeys(p) |-> 0],    \* removals per key (transitions that make the key absent)
   forgets |-> 0, fails |-> 0]

Init == \E p \in Plans : S = InitState(p)

InLRU(T, k) == k \in DOMAIN T.ent
Items(T, e) == T.plan[e].items
CurKey(T, e) == KeyOf(T.plan, e, T.ex[e].idx)

\* remove key k from the cache (caller guarantees it is present)
Drop(T, k) == [T EXCEPT !.lru = Without(T.lru, k),
                        !.ent = [x \in DOMAIN T.ent \ {k} |-> T.ent[x]],
                        !.nrem[k] = @ + 1]
Touch(T, k) == [T EXCEPT !.lru = <<k>> \o Without(T.lru, k)]

-----------------------------------------------------------------------------
\* execIfMissing (prepared_cache.go), one critical section
LookupEn(T, e) == T.ex[e].pc = "lookup"
LookupHits(T, e) == InLRU(T, CurKey(T, e))
Lookup(T, e) ==
  LET k == CurKey(T, e) IN
  IF InLRU(T, k) THEN
    LET f == T.ent[k] IN
    [Touch(T, k) EXCEPT !.ex[e] = [@ EXCEPT !.pc = "wait", !.cur = f, !.waited = @ \cup {f}, !.started = TRUE]]
  ELSE
    LET f == Len(T.fl) + 1
        l1 == <<k>> \o T.lru
        over == Len(l1) > MaxLRU
        victim == l1[Len(l1)]
        l2 == IF over THEN SubSeq(l1, 1, Len(l1) - 1) ELSE l1
    IN [T EXCEPT !.lru = l2,
                 !.ent = [x \in Range(l2) |-> IF x = k THEN f ELSE T.ent[x]],
                 !.fl = Append(@, [key |-> k, by |-> e, st |-> "new", id |-> NoId]),
                 !.nrem = IF over THEN [@ EXCEPT ![victim] = @ + 1] ELSE @,
                 !.ex[e] = [@ EXCEPT !.pc = "wait", !.cur = f, !.waited = @ \cup {f}, !.started = TRUE]]

SendPrepareEn(T, f) == f \in 1 .. Len(T.fl) /\ T.fl[f].st = "new"
SendPrepare(T, f) == [T EXCEPT !.fl[f].st = "sent", !.nprep[T.fl[f].key] = @ + 1]

NodePrepareOkEn(T, f) == f \in 1 .. Len(T.fl) /\ T.fl[f].st = "sent"
NodePrepareOk(T, f) ==
  LET k == T.fl[f].key
      g == IF T.known[k] THEN T.gen[k] ELSE T.gen[k] + 1
      c == T.cnt[k] + 1
  IN [T EXCEPT !.known[k] = TRUE, !.gen[k] = g, !.cnt[k] = c,
               !.fl[f].st = "ok", !.fl[f].id = [k |-> k, g |-> g, n |-> IF UniqueIds THEN c ELSE 0]]

\* NodePrepareFail covers every way a PREPARE fails: answered with an ERROR frame, answered with something the
\* driver cannot parse, never answered (driver timeout), connection lost while outstanding.  In all of them the
\* flight has failed and FlightDone must remove the entry and wake every waiter; the ways differ only in how the
\* harness produces them (Gen_Prepare: PrepFail / PrepLost) and in what the monitor sees of the node.
NodePrepareFailEn(T, f) == NodePrepareOkEn(T, f) /\ T.fails < MaxFail
NodePrepareFail(T, f) == [T EXCEPT !.fl[f].st = "fail", !.fails = @ + 1]

\* the winner's goroutine publishes the result; on failure it first calls remove(key)
FlightDoneEn(T, f) == f \in 1 .. Len(T.fl) /\ T.fl[f].st \in {"ok", "fail"}
FlightDone(T, f) ==
  IF T.fl[f].st = "ok" THEN [T EXCEPT !.fl[f].st = "done_ok"]
  ELSE LET k == T.fl[f].key
           T1 == IF InLRU(T, k) THEN Drop(T, k) ELSE T
       IN [T1 EXCEPT !.fl[f].st = "done_fail"]

FlightFinished(T, f) == T.fl[f].st \in {"done_ok", "done_fail"}

WaiterWakeEn(T, e) == T.ex[e].pc = "wait" /\ FlightFinished(T, T.ex[e].cur)
WaiterWake(T, e) ==
  IF T.fl[T.ex[e].cur].st = "done_fail"
  THEN [T EXCEPT !.ex[e].pc = "done", !.ex[e].res = "err_prepare"]
  ELSE [T EXCEPT !.ex[e].pc = "arity", !.ex[e].got = Append(@, T.fl[T.ex[e].cur].id)]

\* the caller's context ends while it waits for the flight or for the answer to EXECUTE
CtxDoneEn(T, e) == e \in Cancellable /\ T.ex[e].pc \in {"wait", "send", "awaitexec"}
CtxDone(T, e) == [T EXCEPT !.ex[e].pc = "done", !.ex[e].res = "err_ctx"]

CheckArityEn(T, e) == T.ex[e].pc = "arity"
CheckArity(T, e) ==
  LET it == Items(T, e)[T.ex[e].idx] IN
  IF it.n # Arity[it.s] THEN [T EXCEPT !.ex[e].pc = "done", !.ex[e].res = "err_arity"]
  ELSE IF T.ex[e].idx < Len(Items(T, e)) THEN [T EXCEPT !.ex[e].pc = "lookup", !.ex[e].idx = @ + 1]
  ELSE [T EXCEPT !.ex[e].pc = "send"]

SendExecuteEn(T, e) == T.ex[e].pc = "send"
SendExecute(T, e) ==
  LET its == Items(T, e) IN
  [T EXCEPT !.ex[e].pc = "awaitexec", !.ex[e].nframes = @ + 1,
            !.ex[e].frame = [ids |-> T.ex[e].got,
                             nvals |-> [i \in 1 .. Len(its) |-> its[i].n],
                             \* the statement whose prepared metadata typed the values / will type the rows
                             meta |-> [i \in 1 .. Len(its) |-> T.ex[e].got[i].k[3]]]]

Valid(T, id) == T.known[id.k] /\ T.gen[id.k] = id.g
FirstBad(T, ids) == LET B == {i \in 1 .. Len(ids) : ~Valid(T, ids[i])} IN
                    IF B = {} THEN 0 ELSE CHOOSE i \in B : \A j \in B : i <= j
NodeExecuteEn(T, e) == T.ex[e].pc = "awaitexec"
NodeExecute(T, e) ==
  LET b == FirstBad(T, T.ex[e].frame.ids) IN
  IF b = 0 THEN [T EXCEPT !.ex[e].pc = "done", !.ex[e].res = "ok"]
  ELSE [T EXCEPT !.ex[e].pc = "evict", !.ex[e].unprep = T.ex[e].frame.ids[b]]

\* evictPreparedID + re-execution of the whole query / batch
EvictEn(T, e) == T.ex[e].pc = "evict"
EvictRemoves(T, e) == LET k == T.ex[e].unprep.k IN
                      /\ InLRU(T, k)
                      /\ T.fl[T.ent[k]].st = "done_ok"
                      /\ T.fl[T.ent[k]].id = T.ex[e].unprep
Evict(T, e) ==
  LET k == T.ex[e].unprep.k
      T1 == IF InLRU(T, k) THEN (IF EvictRemoves(T, e) THEN Drop(T, k) ELSE Touch(T, k)) ELSE T
  IN IF T.ex[e].rep >= MaxReprepare
     THEN [T1 EXCEPT !.ex[e].pc = "done", !.ex[e].res = "err_unprepared"]   \* gives up (after the eviction)
     ELSE [T1 EXCEPT !.ex[e].pc = "lookup", !.ex[e].idx = 1, !.ex[e].got = <<>>, !.ex[e].rep = @ + 1]

ForgetEn(T, k) == k \in DOMAIN T.known /\ T.known[k] /\ T.forgets < MaxForget
Forget(T, k) == [T EXCEPT !.known[k] = FALSE, !.forgets = @ + 1]

-----------------------------------------------------------------------------
Flights(T) == 1 .. Len(T.fl)
EX(T) == DOMAIN T.ex

Progress ==
  \/ \E e \in EX(S) : \/ LookupEn(S, e) /\ S' = Lookup(S, e)
                      \/ WaiterWakeEn(S, e) /\ S' = WaiterWake(S, e)
                      \/ CheckArityEn(S, e) /\ S' = CheckArity(S, e)
                      \/ SendExecuteEn(S, e) /\ S' = SendExecute(S, e)
                      \/ NodeExecuteEn(S, e) /\ S' = NodeExecute(S, e)
                      \/ EvictEn(S, e) /\ S' = Evict(S, e)
  \/ \E f \in Flights(S) : \/ SendPrepareEn(S, f) /\ S' = SendPrepare(S, f)
                           \/ NodePrepareOkEn(S, f) /\ S' = NodePrepareOk(S, f)
                           \/ FlightDoneEn(S, f) /\ S' = FlightDone(S, f)
Faults ==
  \/ \E f \in Flights(S) : NodePrepareFailEn(S, f) /\ S' = NodePrepareFail(S, f)
  \/ \E e \in EX(S) : CtxDoneEn(S, e) /\ S' = CtxDone(S, e)
  \/ \E k \in DOMAIN S.known : ForgetEn(S, k) /\ S' = Forget(S, k)

Next == Progress \/ Faults
Spec == Init /\ [][Next]_vars
FairSpec == Spec /\ WF_vars(Progress)

-----------------------------------------------------------------------------
\* Properties (C14 as stated).  Each is an operator over a state T (the trace specification
\* evaluates them on the states it reconstructs) and an invariant over S.

AllDone(T) == \A e \in EX(T) : T.ex[e].pc = "done"

\* the cache never exceeds its configured size (and is a proper map)
BoundedT(T, cap) == /\ Len(T.lru) <= cap
                    /\ Cardinality(Range(T.lru)) = Len(T.lru)
                    /\ DOMAIN T.ent = Range(T.lru)
Bounded == BoundedT(S, MaxLRU)

\* prepared once: a PREPARE is started only by a lookup that misses and inserts; a key is absent
\* only initially or after a removal:  #PREPARE(key) <= 1 + #removals(key)
PreparedOnceK(T, k) == /\ T.nprep[k] <= 1 + T.nrem[k]
                       /\ Cardinality({f \in Flights(T) : T.fl[f].key = k}) <= 1 + T.nrem[k]
PreparedOnceT(T) == \A k \in DOMAIN T.nprep : PreparedOnceK(T, k)
PreparedOnce == PreparedOnceT(S)

\* a failed flight is not in the cache once its result is published
FailedNotCachedT(T) == \A k \in DOMAIN T.ent : T.fl[T.ent[k]].st # "done_fail"
FailedNotCached == FailedNotCachedT(S)

\* ... and is reported to everyone who waited on it
FailedReportedE(T, e) ==
   (T.ex[e].cur # 0 /\ T.fl[T.ex[e].cur].st = "done_fail" /\ T.ex[e].pc # "wait")
     => (T.ex[e].pc = "done" /\ T.ex[e].res \in {"err_prepare", "err_ctx"})
FailedReportedT(T) == \A e \in EX(T) : FailedReportedE(T, e)
FailedReported == FailedReportedT(S)

\* every EXECUTE / BATCH entry carries an id the node returned for THAT host+keyspace+statement in a
\* flight this executor waited on, with that statement's metadata and the right number of values
ExecAttributionE(T, e) == T.ex[e].nframes > 0 =>
   LET fr == T.ex[e].frame IN
   /\ Len(fr.ids) = Len(Items(T, e))
   /\ \A i \in 1 .. Len(fr.ids) :
        /\ fr.ids[i].k = KeyOf(T.plan, e, i)
        /\ \E f \in T.ex[e].waited : T.fl[f].id = fr.ids[i] /\ T.fl[f].key = KeyOf(T.plan, e, i)
        /\ fr.meta[i] = Items(T, e)[i].s
        /\ fr.nvals[i] = Arity[Items(T, e)[i].s]
ExecAttributionT(T) == \A e \in EX(T) : ExecAttributionE(T, e)
ExecAttribution == ExecAttributionT(S)

ArityWrong(T, e) == \E i \in 1 .. Len(Items(T, e)) : Items(T, e)[i].n # Arity[Items(T, e)[i].s]
\* arity mismatch => error, nothing sent
ArityCheckedE(T, e) == ArityWrong(T, e) =>
                   /\ T.ex[e].nframes = 0
                   /\ T.ex[e].pc = "done" => T.ex[e].res # "ok"
ArityCheckedT(T) == \A e \in EX(T) : ArityCheckedE(T, e)
ArityChecked == ArityCheckedT(S)

\* an error result has a cause; success means the node accepted ids it currently knows
Justified == \A e \in EX(S) : S.ex[e].pc = "done" =>
   /\ S.ex[e].res \in {"ok", "err_prepare", "err_arity", "err_ctx", "err_unprepared"}
   /\ S.ex[e].res = "err_unprepared" => S.ex[e].rep >= MaxReprepare /\ S.ex[e].nframes > MaxReprepare
   /\ S.ex[e].res = "err_prepare" => \E f \in S.ex[e].waited : S.fl[f].st = "done_fail"
   /\ S.ex[e].res = "err_arity" => ArityWrong(S, e)
   /\ S.ex[e].res = "err_ctx" => e \in Cancellable
   /\ S.ex[e].res = "ok" => S.ex[e].nframes > 0

ProgressEnabled(T) ==
  \/ \E e \in EX(T) : T.ex[e].pc \in {"lookup", "arity", "send", "awaitexec", "evict"} \/ WaiterWakeEn(T, e)
  \/ \E f \in Flights(T) : T.fl[f].st \in {"new", "sent", "ok", "fail"}
\* nobody waits for ever: when nothing can move every executor has returned
NoStuck == ProgressEnabled(S) \/ AllDone(S)

\* liveness: finitely many UNPREPARED answers / failures => every query returns; with the
\* invariant Justified: it succeeds (with ids of the newest generation) unless it has a reported cause
Terminates == <>[]AllDone(S)
=============================================================================
