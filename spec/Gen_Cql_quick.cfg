SPECIFICATION Spec
CONSTANT Thorough = FALSE
INVARIANT Emit
CHECK_DEADLOCK FALSE
