----------------------------- MODULE PolicyPool -----------------------------
(***************************************************************************)
(* The per-session map of host pools (connectionpool.go policyConnPool)    *)
(* for ONE host, with several concurrent triggers: addHost (reconnect      *)
(* ticker, UP event, ring refresh, control connection setupConn),          *)
(* removeHost (DOWN event, refresh) and Close.  A hostConnPool is          *)
(* abstracted to what Pool.tla establishes about it: a fill brings an open *)
(* pool to NumConns connections (never more), Close closes them, a closed  *)
(* pool takes no connection.                                               *)
(*                                                                         *)
(* One action = one critical section under policyConnPool.mu.  Mut =       *)
(* "racyadd" is the lookup-under-RLock / insert-without-recheck variant.   *)
(* What C17 demands: at quiescence no more than NumConns connections to    *)
(* the host; a pool that holds connections is reachable (in the map or     *)
(* about to be closed); after Close nothing is open.                       *)
(***************************************************************************)
EXTENDS Integers, FiniteSets, TLC

CONSTANTS Adders, Removers, NumConns, WithClose, Mut

MaxPools == Cardinality(Adders)
Pools == 1 .. MaxPools

VARIABLES map,      \* the host's pool in the map (0 = none)
          closed,   \* policyConnPool closed
          npools,   \* pools created so far
          pclosed,  \* pool -> closed
          pconns,   \* pool -> open connections
          apc,      \* adder -> "idle" | "create" | "fill" | "done"
          apool,    \* adder -> the pool it will fill
          rpc,      \* remover -> "idle" | "closing" | "done"
          rq,       \* remover -> pool taken out of the map, still to be closed
          kpc, kq   \* the closer

vars == <<map, closed, npools, pclosed, pconns, apc, apool, rpc, rq, kpc, kq>>

Init == /\ map = 0 /\ closed = FALSE /\ npools = 0
        /\ pclosed = [p \in Pools |-> FALSE] /\ pconns = [p \in Pools |-> 0]
        /\ apc = [a \in Adders |-> "idle"] /\ apool = [a \in Adders |-> 0]
        /\ rpc = [r \in Removers |-> "idle"] /\ rq = [r \in Removers |-> 0]
        /\ kpc = "idle" /\ kq = 0

\* addHost, one critical section: closed -> nothing; look up; create and insert when missing
AddHost(a) ==
  /\ Mut # "racyadd"
  /\ apc[a] = "idle"
  /\ IF closed
     THEN apc' = [apc EXCEPT ![a] = "done"] /\ UNCHANGED <<map, npools, apool>>
     ELSE IF map # 0
     THEN apc' = [apc EXCEPT ![a] = "fill"] /\ apool' = [apool EXCEPT ![a] = map] /\ UNCHANGED <<map, npools>>
     ELSE /\ npools' = npools + 1 /\ map' = npools + 1
          /\ apool' = [apool EXCEPT ![a] = npools + 1]
          /\ apc' = [apc EXCEPT ![a] = "fill"]
  /\ UNCHANGED <<closed, pclosed, pconns, rpc, rq, kpc, kq>>

\* (mutation) lookup under the read lock ...
AddLookup(a) ==
  /\ Mut = "racyadd"
  /\ apc[a] = "idle"
  /\ IF map # 0
     THEN apc' = [apc EXCEPT ![a] = "fill"] /\ apool' = [apool EXCEPT ![a] = map] /\ UNCHANGED npools
     ELSE apc' = [apc EXCEPT ![a] = "create"] /\ npools' = npools + 1 /\ apool' = [apool EXCEPT ![a] = npools + 1]
  /\ UNCHANGED <<map, closed, pclosed, pconns, rpc, rq, kpc, kq>>

\* ... and insert under the write lock without looking again
AddInsert(a) ==
  /\ apc[a] = "create"
  /\ IF closed
     THEN apc' = [apc EXCEPT ![a] = "done"] /\ UNCHANGED map
     ELSE map' = apool[a] /\ apc' = [apc EXCEPT ![a] = "fill"]
  /\ UNCHANGED <<closed, npools, pclosed, pconns, apool, rpc, rq, kpc, kq>>

\* pool.fill(): an open pool ends with NumConns connections, a closed one takes none
Fill(a) ==
  /\ apc[a] = "fill"
  /\ pconns' = [pconns EXCEPT ![apool[a]] = IF pclosed[apool[a]] THEN @ ELSE NumConns]
  /\ apc' = [apc EXCEPT ![a] = "done"]
  /\ UNCHANGED <<map, closed, npools, pclosed, apool, rpc, rq, kpc, kq>>

RemoveHost(r) ==
  /\ rpc[r] = "idle"
  /\ IF map = 0
     THEN rpc' = [rpc EXCEPT ![r] = "done"] /\ UNCHANGED <<map, rq>>
     ELSE rq' = [rq EXCEPT ![r] = map] /\ map' = 0 /\ rpc' = [rpc EXCEPT ![r] = "closing"]
  /\ UNCHANGED <<closed, npools, pclosed, pconns, apc, apool, kpc, kq>>

\* go pool.Close()
RemoveClose(r) ==
  /\ rpc[r] = "closing"
  /\ pclosed' = [pclosed EXCEPT ![rq[r]] = TRUE]
  /\ pconns' = [pconns EXCEPT ![rq[r]] = 0]
  /\ rpc' = [rpc EXCEPT ![r] = "done"]
  /\ rq' = [rq EXCEPT ![r] = 0]
  /\ UNCHANGED <<map, closed, npools, apc, apool, kpc, kq>>

Close1 ==
  /\ WithClose /\ kpc = "idle"
  /\ closed' = TRUE
  /\ kq' = map /\ map' = 0
  /\ kpc' = IF map = 0 THEN "done" ELSE "closing"
  /\ UNCHANGED <<npools, pclosed, pconns, apc, apool, rpc, rq>>

Close2 ==
  /\ kpc = "closing"
  /\ pclosed' = [pclosed EXCEPT ![kq] = TRUE]
  /\ pconns' = [pconns EXCEPT ![kq] = 0]
  /\ kpc' = "done" /\ kq' = 0
  /\ UNCHANGED <<map, closed, npools, apc, apool, rpc, rq>>

Next == \/ \E a \in Adders : AddHost(a) \/ AddLookup(a) \/ AddInsert(a) \/ Fill(a)
        \/ \E r \in Removers : RemoveHost(r) \/ RemoveClose(r)
        \/ Close1 \/ Close2

SysNext == \/ \E a \in Adders : AddInsert(a) \/ Fill(a)
           \/ \E r \in Removers : RemoveClose(r)
           \/ Close2
Spec == Init /\ [][Next]_vars /\ WF_vars(SysNext)

RECURSIVE Sum(_)
Sum(S) == IF S = {} THEN 0 ELSE LET p == CHOOSE p \in S : TRUE IN pconns[p] + Sum(S \ {p})
Total == Sum(Pools)
Closing == {rq[r] : r \in Removers} \cup {kq}
Quiet == /\ \A a \in Adders : apc[a] \in {"idle", "done"}
         /\ \A r \in Removers : rpc[r] \in {"idle", "done"}
         /\ kpc \in {"idle", "done"}

TypeOK == map \in 0 .. MaxPools /\ npools \in 0 .. MaxPools /\ pconns \in [Pools -> 0 .. NumConns]
\* no more than NumConns connections to the host once everything has settled
HostBound == Quiet => Total <= NumConns
\* a pool that holds connections can still be reached by removeHost / Close
NoOrphanPool == \A p \in Pools : pconns[p] > 0 => (map = p \/ p \in Closing)
\* nothing is open after Close
AfterClose == (closed /\ Quiet) => Total = 0
\* a pool taken out of the map gets closed
Settles == <>[](\A r \in Removers : rpc[r] # "closing") /\ <>[](kpc # "closing")
=============================================================================
