---------------------------- MODULE Gen_Compress ----------------------------
(***************************************************************************)
(* C18 spec -> code: compressed bodies assembled element by element from   *)
(* the format documents (encodings the driver's own encoders do not        *)
(* produce: snappy copy-4, long-form literal lengths, overlapping copies,  *)
(* several literals; LZ4 sequences with every length-extension boundary,   *)
(* overlapping matches, zero-literal sequences), each with structurally    *)
(* corrupted variants.  One TLC state per base stream; the state prints    *)
(* the base stream and its variants.  The same run checks the reference    *)
(* decoders of Compress.tla against the element-level meaning of the       *)
(* streams (what the elements append), i.e. decoder and assembler, written *)
(* separately, agree.                                                      *)
(***************************************************************************)
EXTENDS Compress, TLC, Json

CONSTANT Alg     \* "snappy" | "lz4"

Pat(k, seed) == [j \in 1 .. k |-> (j * 37 + seed * 11 + (j \div 7)) % 256]
B(v, k) == (v \div Pow2(8 * k)) % 256

--------------------------------------------------------------------------------
(* snappy assembler.  An element is [t |-> "lit", n, form, seed] or [t |-> "c1"|"c2"|"c4", off, len]; *)
(* off = 0 in a descriptor means "the whole output so far".                                           *)
SnVarint(n) == LET RECURSIVE V(_)
                   V(x) == IF x < 128 THEN <<x>> ELSE <<128 + (x % 128)>> \o V(x \div 128)
               IN V(n)
SnLit(c, form) ==
  LET n == Len(c) - 1
  IN (CASE form = "min" /\ n < 60 -> <<n * 4>>
        [] form = "x1" \/ (form = "min" /\ n < 256) -> <<60 * 4, n>>
        [] form = "x2" \/ form = "min" -> <<61 * 4, B(n, 0), B(n, 1)>>
        [] form = "x3" -> <<62 * 4, B(n, 0), B(n, 1), B(n, 2)>>
        [] OTHER -> <<63 * 4, B(n, 0), B(n, 1), B(n, 2), 0>>) \o c
SnCopy(t, off, len) ==
  CASE t = "c1" -> <<(off \div 256) * 32 + (len - 4) * 4 + 1, off % 256>>
    [] t = "c2" -> <<(len - 1) * 4 + 2, B(off, 0), B(off, 1)>>
    [] OTHER -> <<(len - 1) * 4 + 3, B(off, 0), B(off, 1), B(off, 2), 0>>

SnLits == {[t |-> "lit", n |-> n, form |-> f, seed |-> 1] :
             n \in {1, 2, 59, 60, 61, 256, 257}, f \in {"min"}} \cup
          {[t |-> "lit", n |-> 5, form |-> f, seed |-> 2] : f \in {"x1", "x2", "x3", "x4"}} \cup
          {[t |-> "lit", n |-> 300, form |-> "x4", seed |-> 3]}
SnCopies == {[t |-> "c1", off |-> o, len |-> n] : o \in {0, 1, 3}, n \in {4, 11}} \cup
            {[t |-> "c2", off |-> o, len |-> n] : o \in {0, 1, 2}, n \in {1, 3, 64}} \cup
            {[t |-> "c4", off |-> o, len |-> n] : o \in {0, 1, 5}, n \in {1, 64}}
SnSecond == SnCopies \cup {[t |-> "lit", n |-> 3, form |-> "min", seed |-> 4]}
SnThird == {[t |-> "none"], [t |-> "c4", off |-> 0, len |-> 7], [t |-> "c1", off |-> 2, len |-> 9],
            [t |-> "lit", n |-> 61, form |-> "min", seed |-> 5]}

\* apply elements: [bytes, out, ok] (ok = FALSE when a copy reaches before the start)
SnApply(acc, e) ==
  IF e.t = "none" THEN acc
  ELSE IF e.t = "lit" THEN LET c == Pat(e.n, e.seed) IN [bytes |-> acc.bytes \o SnLit(c, e.form), out |-> acc.out \o c, ok |-> acc.ok]
  ELSE LET off == IF e.off = 0 THEN Len(acc.out) ELSE e.off
           good == off >= 1 /\ off <= Len(acc.out) /\ (e.t # "c1" \/ off < 2048)
       IN IF ~good THEN [bytes |-> acc.bytes \o SnCopy(e.t, off % 2048, e.len), out |-> acc.out, ok |-> FALSE]
          ELSE [bytes |-> acc.bytes \o SnCopy(e.t, off, e.len), out |-> acc.out \o CopyBytes(acc.out, off, e.len), ok |-> acc.ok]

--------------------------------------------------------------------------------
(* LZ4 assembler.  A sequence is [ll, off, ml] (ml = real match length >= 4; off = 0: whole output), *)
(* the block ends with fin literal bytes.                                                           *)
LzExt(v) == LET RECURSIVE E(_)
                E(x) == IF x < 255 THEN <<x>> ELSE <<255>> \o E(x - 255)
            IN E(v)
LzSeq(lits, off, ml) ==
  LET ll == Len(lits)
      m == ml - 4
  IN <<(IF ll >= 15 THEN 15 ELSE ll) * 16 + (IF m >= 15 THEN 15 ELSE m)>>
     \o (IF ll >= 15 THEN LzExt(ll - 15) ELSE <<>>) \o lits \o <<B(off, 0), B(off, 1)>>
     \o (IF m >= 15 THEN LzExt(m - 15) ELSE <<>>)
LzFinal(lits) == LET ll == Len(lits)
                 IN <<(IF ll >= 15 THEN 15 ELSE ll) * 16>> \o (IF ll >= 15 THEN LzExt(ll - 15) ELSE <<>>) \o lits
BE32(n) == <<B(n, 3), B(n, 2), B(n, 1), B(n, 0)>>

LzSeq1 == {[ll |-> a, off |-> o, ml |-> m] : a \in {1, 15, 270}, o \in {0, 1, 3}, m \in {4, 19, 274}}
LzSeq2 == {[ll |-> -1, off |-> 0, ml |-> 0]} \cup
          {[ll |-> a, off |-> o, ml |-> m] : a \in {0, 14}, o \in {0, 2}, m \in {18, 20}}
LzFins == {5, 12, 16}

LzApply(acc, q, seed) ==
  IF q.ll < 0 THEN acc
  ELSE LET lits == Pat(q.ll, seed)
           out1 == acc.out \o lits
           off == IF q.off = 0 THEN Len(out1) ELSE q.off
           good == off >= 1 /\ off <= Len(out1)
       IN IF ~good THEN [bytes |-> acc.bytes \o LzSeq(lits, off, q.ml), out |-> out1, ok |-> FALSE, lastm |-> Len(out1)]
          ELSE [bytes |-> acc.bytes \o LzSeq(lits, off, q.ml), out |-> out1 \o CopyBytes(out1, off, q.ml), ok |-> acc.ok, lastm |-> Len(out1)]

--------------------------------------------------------------------------------
VARIABLES e1, e2, e3
gvars == <<e1, e2, e3>>
Init == IF Alg = "snappy" THEN e1 \in SnLits /\ e2 \in SnSecond /\ e3 \in SnThird
        ELSE e1 \in LzSeq1 /\ e2 \in LzSeq2 /\ e3 \in LzFins
Next == UNCHANGED gvars
Spec == Init /\ [][Next]_gvars

\* the assembled base stream: [stream, out, ok, strictok]
Base ==
  IF Alg = "snappy"
  THEN LET a == SnApply(SnApply(SnApply([bytes |-> <<>>, out |-> <<>>, ok |-> TRUE], e1), e2), e3)
       IN [stream |-> SnVarint(Len(a.out)) \o a.bytes, out |-> a.out, ok |-> a.ok, strictok |-> a.ok, body |-> a.bytes,
           seqs |-> a.bytes, mid |-> a.out]
  ELSE LET a == LzApply(LzApply([bytes |-> <<>>, out |-> <<>>, ok |-> TRUE, lastm |-> -1], e1, 1), e2, 2)
           fl == Pat(e3, 3)
           out == a.out \o fl
       IN [stream |-> BE32(Len(out)) \o a.bytes \o LzFinal(fl), out |-> out, ok |-> a.ok,
           strictok |-> a.ok /\ Len(out) - a.lastm >= 12, body |-> a.bytes \o LzFinal(fl),
           seqs |-> a.bytes, mid |-> a.out]

PrefLen == IF Alg = "snappy" THEN Len(Base.stream) - Len(Base.body) ELSE 4
Cuts == LET n == Len(Base.stream) IN {k \in {PrefLen, PrefLen + 1, PrefLen + 2, PrefLen + 3, n \div 2, n - 3, n - 2, n - 1} : k >= 0 /\ k < n}
SetPrefix(n) == (IF Alg = "snappy" THEN SnVarint(n) ELSE BE32(n)) \o Base.body

Variants ==
  LET b == Base
      n == Len(b.out)
  IN {[cls |-> IF b.ok THEN "assembled" ELSE "offset-beyond-output", stream |-> b.stream]} \cup
     (IF ~b.ok THEN {} ELSE
      {[cls |-> "truncated", stream |-> SubSeq(b.stream, 1, k)] : k \in Cuts} \cup
      {[cls |-> "length-prefix-too-large", stream |-> SetPrefix(n + 1)],
       [cls |-> "length-prefix-much-too-large", stream |-> SetPrefix(n + 1000)],
       [cls |-> "length-prefix-too-small", stream |-> SetPrefix(n - 1)],
       [cls |-> "trailing-byte", stream |-> b.stream \o <<0>>],
       [cls |-> "trailing-element", stream |-> b.stream \o (IF Alg = "snappy" THEN <<0, 65>> ELSE <<16, 65>>)]} \cup
      (IF Alg = "lz4" THEN {[cls |-> "length-prefix-little-endian", stream |-> <<B(n, 0), B(n, 1), B(n, 2), B(n, 3)>> \o b.body],
                            [cls |-> "length-prefix-zero", stream |-> BE32(0) \o b.body]} \cup
                           \* the input ends inside the match-length field (token announces an extension byte that is
                           \* not there) while the length prefix equals what a decoder assuming "extension = 0" produces
                           \* the first match has offset 0
                           {[cls |-> "offset-zero",
                             stream |-> LET q == LzSeq(Pat(e1.ll, 1), 0, e1.ml)
                                        IN BE32(n) \o q \o SubSeq(b.body, Len(q) + 1, Len(b.body))]} \cup
                           (IF e1.ml = 19 /\ e2.ll < 0
                            THEN {[cls |-> "truncated-in-match-length", stream |-> BE32(Len(b.mid)) \o SubSeq(b.seqs, 1, Len(b.seqs) - 1)]}
                            ELSE {})
       ELSE (IF e2.t \in {"c1", "c2", "c4"}
             THEN {[cls |-> "offset-zero",
                    stream |-> LET b1 == SnApply([bytes |-> <<>>, out |-> <<>>, ok |-> TRUE], e1).bytes
                                   q == SnCopy(e2.t, 0, e2.len)
                               IN SnVarint(n) \o b1 \o q \o SubSeq(b.body, Len(b1) + Len(q) + 1, Len(b.body))]}
             ELSE {}) \cup
            {[cls |-> "length-varint-not-minimal", stream |-> <<128 + (n % 128)>> \o (IF n < 128 THEN <<0>> ELSE <<128 + (n \div 128), 0>>) \o b.body]}))

\* Declared lengths at the 31 / 32 bit boundaries (a decoder that takes the length for a signed or a
\* native integer): 2^31-1, 2^31, 2^32-1 and the top bit flipped in an otherwise valid stream.  No frame body
\* is that long, the content never matches: an error is REQUIRED - not a crash.  A decoder may allocate what
\* the prefix says before it finds out, so these exist for ONE small base stream per algorithm only.
HugeBase == IF Alg = "lz4" THEN e1 = [ll |-> 1, off |-> 1, ml |-> 4] /\ e2.ll < 0 /\ e3 = 12
            ELSE e1 = [t |-> "lit", n |-> 1, form |-> "min", seed |-> 1] /\ e2 = [t |-> "lit", n |-> 3, form |-> "min", seed |-> 4]
                 /\ e3 = [t |-> "none"]
HugeVariants ==
  IF ~HugeBase THEN {}
  ELSE LET b == Base
           n == Len(b.out)
       IN IF Alg = "lz4"
          THEN {[cls |-> "length-prefix-huge-2^31-1", stream |-> <<127, 255, 255, 255>> \o b.body],
                [cls |-> "length-prefix-huge-2^31", stream |-> <<128, 0, 0, 0>> \o b.body],
                [cls |-> "length-prefix-huge-2^32-1", stream |-> <<255, 255, 255, 255>> \o b.body],
                [cls |-> "length-prefix-huge-top-bit-flipped", stream |-> <<128 + B(n, 3), B(n, 2), B(n, 1), B(n, 0)>> \o b.body]}
          ELSE {[cls |-> "length-prefix-huge-2^31-1", stream |-> <<255, 255, 255, 255, 7>> \o b.body],
                [cls |-> "length-prefix-huge-2^31", stream |-> <<128, 128, 128, 128, 8>> \o b.body],
                [cls |-> "length-prefix-huge-2^32-1", stream |-> <<255, 255, 255, 255, 15>> \o b.body],
                [cls |-> "length-prefix-huge-2^32", stream |-> <<128, 128, 128, 128, 16>> \o b.body]}
HugeRejected == \A v \in HugeVariants : IsErr(RefDecode(Alg, v.stream, FALSE))

Emit == PrintT(<<"STREAMS", ToJson([alg |-> Alg, out |-> Base.out, ok |-> Base.ok, strictok |-> Base.strictok,
                                     variants |-> Variants \cup HugeVariants])>>)

\* decoder and assembler agree: what the elements append is what the reference decodes
RefAgrees == LET b == Base
                 st == RefDecode(Alg, b.stream, TRUE)
                 le == RefDecode(Alg, b.stream, FALSE)
             IN /\ (b.ok => le = b.out)
                /\ (b.strictok => st = b.out)
                /\ (~b.ok => IsErr(le) /\ IsErr(st))
                /\ (~IsErr(st) => le = st)
\* every structural corruption the generator labels as such is rejected even by the lenient reading
CorruptRejected ==
  \A v \in Variants : v.cls \in {"truncated", "length-prefix-too-large", "length-prefix-much-too-large", "length-prefix-too-small",
                                 "offset-beyond-output", "length-prefix-little-endian", "truncated-in-match-length", "offset-zero"}
                      => (IsErr(RefDecode(Alg, v.stream, FALSE)) \/ v.cls = "truncated")
=============================================================================
