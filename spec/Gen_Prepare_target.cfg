\* Example of a target search (checks/c14.py generates one per target): TLC's counterexample to
\* "never an in-flight entry evicted and prepared again" is the behaviour that is replayed.
SPECIFICATION GenSpec
CONSTANTS
  Execs = {"e1", "e2", "e3"}
  Arity <- MCArity
  MaxLRU = 1
  MaxForget = 0
  MaxFail = 0
  Cancellable = {}
  MaxReprepare = 3
  UniqueIds = TRUE
  Plans <- PL2
INVARIANT N_EvictInflight
CHECK_DEADLOCK FALSE
