---------------------------- MODULE Trace_Paging ----------------------------
(***************************************************************************)
(* Validates executions of the REAL driver (Session.Query...Iter against   *)
(* the scripted node) recorded as NDJSON, many iterations per file:        *)
(*                                                                         *)
(*   begin  the scenario (pages, threshold, consumer, failing page, mode)  *)
(*   req    the node received a page request (token, everything else)      *)
(*   resp   the node is about to answer it (page served, ok / error, next) *)
(*   row    the consumer was handed a row                                  *)
(*   end    the iteration ended (normally / with which error, PageState()) *)
(*          or the caller stopped after `stop` rows and closed it; qtok =  *)
(*          the paging state then found in the caller's Query value        *)
(*                                                                         *)
(* Every execution of a re-executed Query value is a trace of its own and  *)
(* is judged like a fresh iteration of the same scenario.                  *)
(*                                                                         *)
(* Two things are evaluated by TLC at every step of every trace:           *)
(*                                                                         *)
(*  (1) the PROPERTY: the verdict operators of Paging.tla on what was      *)
(*      observed so far.  A verdict here contradicts properties.jsonl C15  *)
(*      on the real code (kinds in DriftKinds excepted) - MONOUT viol.     *)
(*  (2) CONFORMANCE with the paging machine of Paging.tla: `ms` is the set *)
(*      of machine states that explain the trace so far (the machine's own *)
(*      successor functions; page switch and prefetch trigger are silent,  *)
(*      for SliceMap also the consumption).  When no state explains an     *)
(*      event the code has left the model (e.g. it prefetches at another   *)
(*      moment): that is DRIFT, not a violation - the property says        *)
(*      nothing about when a page is fetched - MONOUT drift.  `state` is   *)
(*      one explaining machine state, on which the invariants of Paging    *)
(*      are evaluated as well (listed in the cfg).                         *)
(***************************************************************************)
EXTENDS Paging, TLC, Json, IOUtils

Log == ndJsonDeserialize(IOEnv.VF_TRACE)

VARIABLES l,      \* next log line
          ob,     \* observation of the current iteration
          ms,     \* machine states explaining it ({}: lost)
          viol,   \* verdict kinds already reported for it
          out,    \* findings of the last step
          cnt     \* [traces, conforming, steps]
tvars == <<scen, state, l, ob, ms, viol, out, cnt>>

TracePlans == {<<-1>>}      \* (Plans is not used here: the plan entry of each execution comes with its begin event)
Dummy == [pages |-> <<0>>, q |-> 0, kind |-> "Scan", fail |-> 0, mode |-> "auto", start |-> 0, plan |-> <<-1>>]
EmptyObs == [reqs |-> <<>>, tmpls |-> <<>>, rows |-> <<>>, ended |-> "no", err |-> 0, exposed |-> 0, qtok |-> -2, changed |-> 0]

TInit == /\ l = 1 /\ scen = Dummy /\ state = InitState(Dummy) /\ ob = EmptyObs /\ ms = {}
         /\ viol = {} /\ out = <<>> /\ cnt = [traces |-> 0, conforming |-> 0, steps |-> 0]

ScenOf(e) == [pages |-> e.pages, q |-> e.q, kind |-> e.kind, fail |-> e.fail, mode |-> e.mode, start |-> e.start,
              plan |-> <<e.stop>>, fkind |-> e.fkind]

ObsAfter(o, e) ==
  CASE e.ev = "req" -> [o EXCEPT !.reqs = Append(@, e.tok),
                                 !.tmpls = Append(@, [op |-> e.op, stmt |-> e.stmt, vals |-> e.vals, size |-> e.size,
                                                      cons |-> e.cons, flags |-> e.flags, serial |-> e.serial,
                                                      ts |-> e.ts, hflags |-> e.hflags, payload |-> e.payload])]
    [] e.ev = "row" -> [o EXCEPT !.rows = Append(@, <<e.page, e.idx>>)]
    [] e.ev = "end" -> [o EXCEPT !.ended = CASE e.normal = 1 -> "normal" [] e.normal = 0 -> "error"
                                              [] e.normal = 3 -> "panic" [] OTHER -> "no",   \* 2: stopped by the harness (runaway)
                                 !.err = e.errpage, !.qtok = e.qtok, !.changed = e.changed,
                                 !.exposed = e.exposed]
    [] OTHER -> o

\* ---- conformance: the machine's own successor functions
Silent(tc, x) ==
  PrefetchTriggerF(tc, x) \cup SwitchPageF(tc, x) \cup
  \* a fetch on a lost pinned connection makes no request: nothing is logged for it
  (IF Lost(tc) THEN {y \in FetchOnceF(tc, x) : y.nx = "error"} ELSE {}) \cup
  (IF tc.kind = "SliceMap" THEN ConsumeRowF(tc, x) \cup EndF(tc, x) ELSE {})
RECURSIVE Clo(_, _)
Clo(tc, S) == LET T == S \cup UNION {Silent(tc, x) : x \in S} IN IF T = S THEN S ELSE Clo(tc, T)

EvSucc(tc, x, e, nrep) ==
  CASE e.ev = "req" -> {y \in FetchOnceF(tc, x) : LastOf(y.reqs).tok = e.tok}
    [] e.ev = "resp" -> {y \in NodePageF(tc, x) : y.nxp = e.page /\ ((y.nx = "fetched") <=> (e.ok = 1))}
    [] e.ev = "row" ->
         IF tc.kind = "SliceMap"     \* the rows are handed over in one piece after the end
         THEN (IF x.st = "done" /\ nrep < Len(x.rows) /\ x.rows[nrep + 1] = <<e.page, e.idx>> THEN {x} ELSE {})
         ELSE {y \in ConsumeRowF(tc, x) : LastOf(y.rows) = <<e.page, e.idx>>}
    [] e.ev = "end" ->
         IF e.normal = 1
         THEN {y \in (IF tc.kind = "SliceMap" THEN (IF x.st = "done" /\ nrep = Len(x.rows) THEN {x} ELSE {})
                      ELSE EndF(tc, x)) : tc.mode = "manual" => y.exposed = e.exposed}
         ELSE IF e.normal = 2 THEN AbandonF(tc, x)       \* the caller stopped and closed the iterator
         ELSE (IF e.normal = 0 /\ x.st = "failed" /\ x.err = e.errpage THEN {x} ELSE {})
    [] e.ev = "retry" -> {x}      \* the failed page asked for again on a RetryPolicy's verdict: C13's, nothing for the iterator
    [] OTHER -> {}

Explain(tc, S, e, nrep) == UNION {EvSucc(tc, x, e, nrep) : x \in Clo(tc, S)}

\* ---- which part of a later request differs from the first one
AlteredKind(o) ==
  LET j == CHOOSE k \in 2 .. Len(o.tmpls) : o.tmpls[k] # o.tmpls[1]
      a == o.tmpls[1]
      b == o.tmpls[j] IN
  CASE a.op # b.op -> "request-altered-opcode"
    [] a.stmt # b.stmt -> "request-altered-statement"
    [] a.vals # b.vals -> "request-altered-values"
    [] a.size # b.size -> "request-altered-pagesize"
    [] a.cons # b.cons -> "request-altered-consistency"
    [] a.serial # b.serial -> "request-altered-serial-consistency"
    [] a.ts # b.ts -> "request-altered-timestamp"
    [] a.payload # b.payload -> "request-altered-payload"
    [] OTHER -> "request-altered-flags"
\* the node decodes every request field by field in the order of the protocol specification; a request it cannot
\* decode that way (or whose paging state is not one it issued) is logged with token -1
Refine(o, k) == IF k = "request-altered" THEN AlteredKind(o)
                ELSE IF k = "request-state-wrong" /\ \E j \in 1 .. Len(o.reqs) : o.reqs[j] = -3
                     THEN "paging-state-presented-to-another-node"
                ELSE IF k = "request-state-wrong" /\ \E j \in 1 .. Len(o.reqs) : o.reqs[j] = -2
                     THEN "request-carries-state-of-another-iteration"   \* (concurrent iterations of one statement)
                ELSE IF k = "request-state-wrong" /\ \E j \in 1 .. Len(o.reqs) : o.reqs[j] = -1
                     THEN "request-paging-state-not-decodable"
                ELSE k

Cur == Log[l]

Begin ==
  /\ Cur.ev = "begin"
  /\ scen' = ScenOf(Cur)
  /\ state' = InitState(scen')
  /\ ms' = {InitState(scen')}
  /\ ob' = EmptyObs
  /\ viol' = {}
  /\ out' = <<>>
  /\ cnt' = [cnt EXCEPT !.traces = @ + 1, !.steps = @ + 1]

Event ==
  /\ Cur.ev # "begin"
  /\ LET o2 == ObsAfter(ob, Cur)
         m2 == IF ms = {} THEN {} ELSE Explain(scen, ms, Cur, Len(ob.rows))
         new == Verdicts(scen, o2) \ viol
         RECURSIVE SeqOf(_)
         SeqOf(S) == IF S = {} THEN <<>> ELSE LET k == CHOOSE x \in S : TRUE IN
                       <<[what |-> IF k \in DriftKinds THEN "drift" ELSE "viol", kind |-> Refine(o2, k),
                          run |-> Cur.run, line |-> l, ev |-> Cur.ev]>> \o SeqOf(S \ {k})
     IN /\ ob' = o2
        /\ ms' = m2
        /\ state' = IF m2 = {} THEN state ELSE CHOOSE x \in m2 : TRUE
        /\ viol' = viol \cup new
        /\ out' = SeqOf(new) \o
                  (IF ms # {} /\ m2 = {}
                   THEN <<[what |-> "drift", kind |-> "not-explained-by-the-paging-machine", run |-> Cur.run,
                           line |-> l, ev |-> Cur.ev]>> ELSE <<>>)
        /\ cnt' = [cnt EXCEPT !.steps = @ + 1,
                              !.conforming = IF Cur.ev = "end" /\ m2 # {} THEN @ + 1 ELSE @]
  /\ UNCHANGED scen

TNext == /\ l <= Len(Log)
         /\ (Begin \/ Event)
         /\ l' = l + 1
TSpec == TInit /\ [][TNext]_tvars

Report == /\ \A i \in 1 .. Len(out) : PrintT(<<"MONOUT", ToJson(out[i])>>)
          /\ (l = Len(Log) + 1 => PrintT(<<"MONDONE", ToJson(cnt)>>))
=============================================================================
