SPECIFICATION SpecNoFair
CONSTANTS
  Size = 2
  Triggers = {"f1"}
  Spawned = {"h1"}
  Pickers = {}
  Defect_PickOnlyEmpty = FALSE
  Closers = {"k1"}
  MaxFail = 0
  MaxKill = 1
  Eager = FALSE
  CloseErr = TRUE
  Defect_LateCloseUnderLock = FALSE
  Defect_NoJoin = FALSE
  Defect_AddDeadConn = FALSE
  Mut = "closeunderlock"
INVARIANTS TypeOK NoSelfDeadlock FillJoin SizeBound OneFiller ClosedEmpty ReportedNotInPool NoStray NoLeakAfterClose
CHECK_DEADLOCK FALSE
