SPECIFICATION Spec
CONSTANTS
  MaxE = 3
  Configs <- CfgThB
  KeepHist = FALSE
  GateAtomic = FALSE
  NonIdemRetry = FALSE
VIEW View
INVARIANTS NoViolation AttemptsWithinPolicies RetryHostAsDecided RethrowIgnoreStop NothingAfterCancel
  NonIdemOneExecution NonIdemNeverRetried OneResultFirstLastError
  DirectBound DirectBoundSequential DirectNonIdem DirectSpeculation DirectCancel DirectResult
