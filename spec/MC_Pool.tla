------------------------------ MODULE MC_Pool ------------------------------
(* Model-checking and edge-dump wrapper for Pool.tla.                        *)
EXTENDS Pool, Sequences, Json, TLCExt

SetToSeq(S) == LET RECURSIVE F(_) F(X) == IF X = {} THEN <<>> ELSE
                 LET m == CHOOSE x \in X : \A y \in X : x <= y IN <<m>> \o F(X \ {m}) IN F(S)

\* the implementation-visible part of a state
Proj(cn, fi, cl, op, pe, ha, fp, cp, kp) ==
  [conns |-> SetToSeq(cn), filling |-> fi, closed |-> cl, open |-> SetToSeq(op),
   pend |-> SetToSeq(pe), handled |-> SetToSeq(ha),
   fpc |-> fp, cpc |-> [c \in ConnIds |-> cp[c]], kpc |-> kp]

EmitEdge ==
  PrintT(<<"EDGE", ToJson([from |-> Proj(conns, filling, closed, open, pendHE, handled, fpc, cpc, kpc),
                           to |-> Proj(conns', filling', closed', open', pendHE', handled', fpc', cpc', kpc'),
                           fails |-> fails' - fails])>>)
EmitInit == PrintT(<<"INIT", ToJson(Proj(conns, filling, closed, open, pendHE, handled, fpc, cpc, kpc))>>)
InitMark == ((nextc = 1 /\ \A f \in Fillers : fpc[f] = "idle") /\ (\A k \in Closers : kpc[k] = "idle")) => EmitInit
=============================================================================
