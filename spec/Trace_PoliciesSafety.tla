------------------------ MODULE Trace_PoliciesSafety ------------------------
(***************************************************************************)
(* Safety-only part of C11: records of concurrent runs (goroutines picking *)
(* and draining while hosts are added / removed / reported up / down).     *)
(* Required: no panic, no nil host, no unbounded iteration.                *)
(***************************************************************************)
EXTENDS Integers, Sequences, TLC, Json, IOUtils

Log == ndJsonDeserialize(IOEnv.VF_TRACE)
VARIABLE l
Init == l = 0
Next == l < Len(Log) /\ l' = l + 1
Spec == Init /\ [][Next]_l

Failing(r) == (IF r.panics > 0 THEN {"concurrent-panic"} ELSE {}) \cup
              (IF r.nils > 0 THEN {"concurrent-nil-host"} ELSE {}) \cup
              (IF r.capped > 0 THEN {"concurrent-not-finite"} ELSE {})
Report == l > 0 => (Failing(Log[l]) # {} => PrintT(<<"VIOL", ToJson([id |-> Log[l].id, kinds |-> Failing(Log[l]), rec |-> Log[l]])>>))
\* vacuity guard: a run without picks or without mutations proves nothing
Busy == l > 0 => (Log[l].picks > 0 /\ Log[l].mutations > 0) \/ Log[l].panics > 0
=============================================================================
