------------------------------ MODULE Policies ------------------------------
(***************************************************************************)
(* Host selection (property C11).                                          *)
(*                                                                         *)
(* Part 1 - the abstract cluster view a policy has after a history of      *)
(*   AddHost / RemoveHost / HostUp / HostDown notifications (and silent    *)
(*   state changes, SetPartitioner, KeyspaceChanged, earlier picks).       *)
(* Part 2 - the PROPERTY PREDICATES on one offered host sequence and on a  *)
(*   group of successive picks.  These state what C11 requires; replicas   *)
(*   come from the reference placement of Topology.tla (Cassandra), never  *)
(*   from the driver.                                                      *)
(* Part 3 - a reference generator (layered round robin + token-aware       *)
(*   prefix) that satisfies the predicates; the case generator checks that *)
(*   (model pass) and prints its sequences as the predicted order.         *)
(*   Agreement of the real order with the prediction is NOT required by    *)
(*   the property: a difference is drift, not a violation.                 *)
(*                                                                         *)
(* World w (record, constant during a history):                            *)
(*   dc, rack     per host id 1..n       ring, tokens  token ownership of  *)
(*   all hosts (as in Topology.tla)      pol "rr" | "dc" | "rack"          *)
(*   ta, shuffle, nonlocal  BOOLEAN      localdc, localrack                *)
(*   strat "simple" | "nts", rfdc, rfn   keyspace replication              *)
(* History: sequence of [op, h]; op in add remove up down sdown setpart ks *)
(*   pick (h = number of picks made).                                      *)
(***************************************************************************)
EXTENDS Topology, TLC

NoTok == -1

Tier(w, h) == CASE w.pol = "rr" -> 0
                [] w.pol = "dc" -> (IF w.dc[h] = w.localdc THEN 0 ELSE 1)
                [] w.pol = "rack" -> (IF w.dc[h] = w.localdc THEN (IF w.rack[h] = w.localrack THEN 0 ELSE 1) ELSE 2)
MaxTier(w) == CASE w.pol = "rr" -> 0 [] w.pol = "dc" -> 1 [] w.pol = "rack" -> 2
Hosts(w) == 1 .. Len(w.dc)

\* ------------------------------------------------------------------ Part 1
\* members : hosts added and not removed (insertion order) - they form the token ring
\* lists   : per tier, the hosts the round-robin layer knows (insertion order):
\*           added / reported up and not removed / reported down since
\* up      : hosts whose state is UP
State0(w) == [members |-> <<>>, lists |-> [t \in 0 .. 2 |-> <<>>], up |-> Hosts(w), npicks |-> 0,
              partset |-> FALSE, ksknown |-> FALSE, ks2known |-> FALSE]
\* w.addr[h]: the address of host h.  A host whose address is already listed under ANOTHER host id (a node
\* replaced at the same address: new host id, new tokens) takes the place of the listed one.
SeqAddA(w, s, h) ==
  IF h \in RangeOf(s) THEN s
  ELSE LET same == {k \in 1 .. Len(s) : w.addr[s[k]] = w.addr[h]} IN
       IF same = {} THEN Append(s, h) ELSE [s EXCEPT ![CHOOSE k \in same : TRUE] = h]
SeqDel(s, h) == SelectSeq(s, LAMBDA x : x # h)

Apply(w, s, e) ==
  CASE e.op = "add"     -> [s EXCEPT !.members = SeqAddA(w, @, e.h), !.lists[Tier(w, e.h)] = SeqAddA(w, @, e.h)]
    [] e.op = "remove"  -> [s EXCEPT !.members = SeqDel(@, e.h), !.lists[Tier(w, e.h)] = SeqDel(@, e.h)]
    [] e.op = "up"      -> [s EXCEPT !.up = @ \cup {e.h}, !.lists[Tier(w, e.h)] = SeqAddA(w, @, e.h)]
    [] e.op = "down"    -> [s EXCEPT !.up = @ \ {e.h}, !.lists[Tier(w, e.h)] = SeqDel(@, e.h)]
    [] e.op = "sdown"   -> [s EXCEPT !.up = @ \ {e.h}]
    [] e.op = "setpart" -> [s EXCEPT !.partset = TRUE]
    [] e.op = "ks"      -> [s EXCEPT !.ksknown = TRUE]
    [] e.op = "ks2"     -> [s EXCEPT !.ks2known = TRUE]
    [] e.op = "pick"    -> [s EXCEPT !.npicks = @ + e.h]
    [] OTHER            -> s

RECURSIVE FoldHist(_, _, _, _)
FoldHist(w, s, hist, k) == IF k > Len(hist) THEN s ELSE FoldHist(w, Apply(w, s, hist[k]), hist, k + 1)
\* state after the first n entries of the history
StateAfter(w, hist, n) == FoldHist(w, State0(w), SubSeq(hist, 1, n), 1)

\* A statement may be on a table of a second keyspace (w.strat2 / rfdc2 / rfn2, known after "ks2") with
\* its own replication: the world and state as seen for keyspace k (1 = the session's keyspace).
ForKs(w, s, k) == IF k = 2 THEN <<[w EXCEPT !.strat = w.strat2, !.rfdc = w.rfdc2, !.rfn = w.rfn2], [s EXCEPT !.ksknown = s.ks2known]>>
                  ELSE <<w, s>>

Known(s) == RangeOf(s.lists[0]) \cup RangeOf(s.lists[1]) \cup RangeOf(s.lists[2])
Live(s) == Known(s) \cap s.up

\* the current token ring: the entries owned by members
RingIdx(w, s) == SelectSeq([k \in 1 .. Len(w.ring) |-> k], LAMBDA k : w.ring[k] \in RangeOf(s.members))
CurRing(w, s) == LET ix == RingIdx(w, s) IN [j \in 1 .. Len(ix) |-> w.ring[ix[j]]]
CurTokens(w, s) == LET ix == RingIdx(w, s) IN [j \in 1 .. Len(ix) |-> w.tokens[ix[j]]]
KsRf(w) == [dc \in RangeOf(w.rfdc) |-> w.rfn[CHOOSE j \in 1 .. Len(w.rfdc) : w.rfdc[j] = dc]]

\* token-aware selection applies: token-aware policy, routing key given, partitioner known
TokenAware(w, s, q) == w.ta /\ q # NoTok /\ s.partset

\* Cassandra's placement of token q on the current ring (empty while the keyspace is unknown)
Placement(w, s, q) ==
  LET ring == CurRing(w, s)
      toks == CurTokens(w, s) IN
  IF Len(ring) = 0 \/ ~s.ksknown THEN <<>>
  ELSE LET p == PrimaryIndex(toks, q) IN
       IF w.strat = "simple" THEN Simple(ring, p, w.rfn[1]) ELSE Nts(ring, p, w.dc, w.rack, KsRf(w))
Owner(w, s, q) == LET ring == CurRing(w, s) IN IF Len(ring) = 0 THEN 0 ELSE ring[PrimaryIndex(CurTokens(w, s), q)]
\* The replicas a policy can know: Cassandra's placement; where that is empty (keyspace metadata not
\* available, or a keyspace without any replica in this ring) the owner of the token stands in.
\* The property does not say which of the two readings applies in that corner (Ambiguous): the
\* prediction uses the owner, a real sequence is accepted under either reading.
Replicas(w, s, q) ==
  LET pl == Placement(w, s, q) IN
  IF pl # <<>> THEN pl ELSE IF Owner(w, s, q) = 0 THEN <<>> ELSE <<Owner(w, s, q)>>
Ambiguous(w, s, q) == TokenAware(w, s, q) /\ Owner(w, s, q) # 0 /\ Placement(w, s, q) = <<>>

\* everything the predicates need to know about query token q in state s, computed once, for a
\* given replica list: up replicas of the nearest tier / of farther tiers (the latter count only
\* with non-local fallback)
QCtxR(w, s, q, replicas) ==
  LET ta == TokenAware(w, s, q)
      reps == IF ta THEN replicas ELSE <<>>
      live == Live(s)
  IN [ta |-> ta, reps |-> reps, live |-> live,
      owner |-> IF ta THEN Owner(w, s, q) ELSE 0,
      near |-> {h \in RangeOf(reps) : h \in live /\ Tier(w, h) = 0},
      far |-> IF w.nonlocal THEN {h \in RangeOf(reps) : h \in live /\ Tier(w, h) > 0} ELSE {}]
QCtx(w, s, q) == QCtxR(w, s, q, IF TokenAware(w, s, q) THEN Replicas(w, s, q) ELSE <<>>)
\* the other reading in the ambiguous corner: no replicas at all
QCtxAlt(w, s, q) == QCtxR(w, s, q, <<>>)

\* ------------------------------------------------------------------ Part 2
TierMonotone(w, seq) == \A a, b \in 1 .. Len(seq) : a < b => Tier(w, seq[a]) <= Tier(w, seq[b])
SeqNoDup(seq) == \A a, b \in 1 .. Len(seq) : a # b => seq[a] # seq[b]

\* failing predicates of ONE offered sequence `seq` (host ids; 0 = a nil host) for the query
\* described by cx in state s; capped = the iterator had not ended after far more calls than
\* there are hosts
PickFailing(w, s, cx, seq, capped) ==
  LET a == Cardinality(cx.near)
      b == Cardinality(cx.far)
      n == Len(seq)
      generic ==
        (IF capped THEN {"not-finite"} ELSE {}) \cup
        (IF 0 \in RangeOf(seq) THEN {"nil-host"} ELSE {}) \cup
        (IF \E k \in 1 .. n : seq[k] # 0 /\ seq[k] \notin s.up THEN {"offers-down-host"} ELSE {}) \cup
        (IF SeqNoDup(seq) THEN {} ELSE {"duplicate-offer"}) \cup
        (IF cx.live \subseteq RangeOf(seq) THEN {} ELSE {"missing-up-host"})
      clean == SelectSeq(seq, LAMBDA h : h # 0)
  IN IF ~cx.ta
     THEN generic \cup (IF TierMonotone(w, clean) THEN {} ELSE {"tier-order"})
     ELSE generic \cup
          \* the up replicas of the nearest tier come first ...
          (IF a <= n /\ {seq[k] : k \in 1 .. a} = cx.near THEN {} ELSE {"near-replicas-not-first"}) \cup
          \* ... the owner of the token first among them, unless shuffling
          (IF ~w.shuffle /\ cx.owner \in cx.near /\ (n = 0 \/ seq[1] # cx.owner) THEN {"primary-not-first"} ELSE {}) \cup
          \* ... then (non-local fallback) the up replicas of farther tiers, nearer tier first
          (IF a + b <= n /\ {seq[k] : k \in a + 1 .. a + b} = cx.far /\ TierMonotone(w, SubSeq(seq, a + 1, a + b))
           THEN {} ELSE {"far-replicas-not-next"}) \cup
          \* ... then the remaining hosts, nearer tiers before farther ones
          (IF a + b <= n /\ ~TierMonotone(w, SelectSeq(SubSeq(seq, a + b + 1, n), LAMBDA h : h # 0)) THEN {"tier-order"} ELSE {})

\* rotation over successive picks (round-robin path only: no token-aware prefix): in a tier whose
\* known hosts are all up, m successive picks begin the tier with m different hosts
FirstOfTier(w, seq, t) == LET ix == {k \in 1 .. Len(seq) : seq[k] # 0 /\ Tier(w, seq[k]) = t} IN
                          IF ix = {} THEN 0 ELSE seq[CHOOSE k \in ix : \A m \in ix : k <= m]
RotationFailing(w, s, cx, picks) ==
  IF cx.ta THEN {}
  ELSE IF \E t \in 0 .. MaxTier(w) :
            LET hs == RangeOf(s.lists[t])
                m == Cardinality(hs) IN
            /\ m >= 2 /\ hs \subseteq s.up /\ Len(picks) >= m
            /\ Cardinality({FirstOfTier(w, picks[k], t) : k \in 1 .. m}) # m
       THEN {"no-rotation"} ELSE {}

\* ------------------------------------------------------------------ Part 3
\* layered round robin: pick number c (1, 2, ...) starts each tier at position c of its list
RRTier(list, c, up) ==
  LET m == Len(list) IN
  IF m = 0 THEN <<>> ELSE SelectSeq([o \in 1 .. m |-> list[((c + o) % m) + 1]], LAMBDA h : h \in up)
RoundRobin(s, c) == RRTier(s.lists[0], c, s.up) \o RRTier(s.lists[1], c, s.up) \o RRTier(s.lists[2], c, s.up)

\* the predicted sequence of the pick number c (counting from 1) in state s
Offer(w, s, cx, c) ==
  IF ~cx.ta THEN RoundRobin(s, c)
  ELSE LET near == SelectSeq(cx.reps, LAMBDA h : h \in cx.near)
           farT(t) == SelectSeq(cx.reps, LAMBDA h : h \in cx.far /\ Tier(w, h) = t)
           far == farT(1) \o farT(2)
           used == cx.near \cup cx.far
       IN near \o far \o SelectSeq(RoundRobin(s, c), LAMBDA h : h \notin used)
\* the part of a real sequence the prediction fixes exactly: everything after the replica prefix
Rest(cx, seq) ==
  IF ~cx.ta THEN seq
  ELSE LET k == Cardinality(cx.near) + Cardinality(cx.far) IN
       IF k >= Len(seq) THEN <<>> ELSE SubSeq(seq, k + 1, Len(seq))
=============================================================================
