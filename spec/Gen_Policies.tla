---------------------------- MODULE Gen_Policies ----------------------------
(***************************************************************************)
(* Case generator for C11: bounded cluster layouts x policy / option       *)
(* combinations x keyspaces x notification histories; every case is ONE    *)
(* TLC state (stage 3).  For every query class (no routing key, and a      *)
(* lookup token equal to / between / below / above the ring tokens) it     *)
(* prints the sequences predicted by the reference generator of            *)
(* Policies.tla for several successive picks, and checks (model pass) that *)
(* those sequences satisfy every property predicate.                       *)
(***************************************************************************)
EXTENDS Policies, TopologyEnum, Json

CONSTANTS MaxLen, MaxNodes, MaxVnodes, NDcs, NRacks,
          KsIdx,       \* which entries of KsTable are used
          TailLen,     \* 0, 1 or 2: notification ops appended to the base history
          Variants,    \* TRUE: also the base-history variants (add order, SetPartitioner position, no KeyspaceChanged)
          Ks2,         \* index of a second keyspace with its own replication (0: none): statements on its tables
          ExtraKs      \* the keyspaces (subset of KsIdx) for which the variants, the rebuild-while-down histories and
                       \* the overlapped-update histories are generated as well

KsTable == <<
  [strat |-> "simple", rfdc |-> <<"*">>, rfn |-> <<1>>],
  [strat |-> "simple", rfdc |-> <<"*">>, rfn |-> <<2>>],
  [strat |-> "nts", rfdc |-> <<"dc1", "dc2">>, rfn |-> <<1, 1>>],
  [strat |-> "nts", rfdc |-> <<"dc1", "dc2">>, rfn |-> <<2, 2>>],
  [strat |-> "nts", rfdc |-> <<"dc1", "dcX">>, rfn |-> <<1, 1>>],
  [strat |-> "nts", rfdc |-> <<"dc2">>, rfn |-> <<2>>],
  [strat |-> "simple", rfdc |-> <<"*">>, rfn |-> <<3>>],
  [strat |-> "nts", rfdc |-> <<"dc1">>, rfn |-> <<2>>],
  [strat |-> "nts", rfdc |-> <<"dc1", "dc2">>, rfn |-> <<3, 1>>],
  [strat |-> "nts", rfdc |-> <<"dc1">>, rfn |-> <<0>>],
  [strat |-> "nts", rfdc |-> <<"dc1">>, rfn |-> <<3>>] >>

Bases == {<<"rr", "dc1", "r1">>, <<"dc", "dc1", "r1">>, <<"dc", "dc2", "r1">>,
          <<"rack", "dc1", "r1">>, <<"rack", "dc1", "r2">>, <<"rack", "dc2", "r1">>}
Opts == {<<FALSE, FALSE, FALSE>>, <<TRUE, FALSE, FALSE>>, <<TRUE, TRUE, FALSE>>, <<TRUE, FALSE, TRUE>>, <<TRUE, TRUE, TRUE>>}
PolCfgs == {[pol |-> b[1], localdc |-> b[2], localrack |-> b[3], ta |-> o[1], shuffle |-> o[2], nonlocal |-> o[3]]
            : b \in Bases, o \in Opts}

Op(o, h) == [op |-> o, h |-> h]
Adds(n, asc) == [k \in 1 .. n |-> Op("add", IF asc THEN k ELSE n + 1 - k)]
BaseHist(n, asc, partFirst, withKs) ==
  (IF partFirst THEN <<Op("setpart", 0)>> ELSE <<>>) \o Adds(n, asc) \o
  (IF partFirst THEN <<>> ELSE <<Op("setpart", 0)>>) \o (IF withKs THEN <<Op("ks", 0)>> ELSE <<>>)
Tails(n) ==
  {<<>>} \cup
  (IF TailLen >= 1 THEN {<<Op(o, h)>> : o \in {"down", "sdown", "remove"}, h \in 1 .. n} ELSE {}) \cup
  (IF TailLen >= 2 THEN
     {t \in {<<Op(o1, h1), Op(o2, h2)>> : o1 \in {"down", "sdown", "remove"}, o2 \in {"down", "sdown", "remove"},
                                          h1 \in 1 .. n, h2 \in 1 .. n} : t[1].h # t[2].h} \cup
     {<<Op(p[1], h), Op(p[2], h)>> : p \in {<<"down", "up">>, <<"remove", "add">>, <<"sdown", "up">>, <<"sdown", "down">>,
                                           <<"down", "add">>, <<"remove", "up">>}, h \in 1 .. n}
   ELSE {})
\* the ring is rebuilt (a host leaves / joins) while another host is down: placement must not depend on
\* liveness; the down host may come back afterwards (no rebuild then)
RebuildTails(n) ==
  IF n < 2 THEN {}
  ELSE UNION {{<<Op("down", p[1]), Op("remove", p[2])>>, <<Op("sdown", p[1]), Op("remove", p[2])>>,
               <<Op("down", p[1]), Op("remove", p[2]), Op("up", p[1])>>,
               <<Op("down", p[1]), Op("remove", p[2]), Op("add", p[2])>>} : p \in {<<1, n>>, <<n, 1>>}}
\* overlapped updates: "par" says that the two following calls overlap - the first one is parked
\* inside the keyspace-metadata callback while the second one is made.  The cluster view afterwards
\* must be the one of their sequential application (the pairs commute on it).
Par(a, b) == <<Op("par", 0), a, b>>
OverlapHists(n) ==
  IF n < 2 THEN {}
  ELSE LET b1 == <<Op("setpart", 0)>> \o Adds(n - 1, TRUE) \o <<Op("ks", 0)>>     \* host n not yet added
       IN {b1 \o Par(Op("add", n), Op("ks", 0)), b1 \o Par(Op("ks", 0), Op("add", n)),
           b1 \o Par(Op("add", n), Op("remove", 1)), b1 \o Par(Op("remove", 1), Op("add", n)),
           b1 \o Par(Op("add", n), Op("down", 1)), b1 \o Par(Op("ks", 0), Op("remove", 1)),
           Adds(n - 1, TRUE) \o <<Op("ks", 0)>> \o Par(Op("setpart", 0), Op("add", n))} \cup
          (IF n < 3 THEN {}
           ELSE {<<Op("setpart", 0)>> \o Adds(n - 2, TRUE) \o <<Op("ks", 0)>> \o Par(Op("add", n - 1), Op("add", n)),
                 <<Op("setpart", 0)>> \o Adds(n - 2, TRUE) \o <<Op("ks", 0)>> \o Par(Op("add", n), Op("add", n - 1)) \o <<Op("up", 1)>>})
Hists(n, extra, ta) ==
  {BaseHist(n, TRUE, TRUE, TRUE) \o t : t \in Tails(n)} \cup
  (IF Variants /\ extra THEN {BaseHist(n, a, p, k) : a \in BOOLEAN, p \in BOOLEAN, k \in BOOLEAN} ELSE {}) \cup
  (IF extra THEN {BaseHist(n, TRUE, TRUE, TRUE) \o t : t \in RebuildTails(n)} ELSE {}) \cup
  (IF extra /\ ta THEN OverlapHists(n) ELSE {})

VARIABLES lay, cfg, ksi, ks2i, hist, stage
vars == <<lay, cfg, ksi, ks2i, hist, stage>>
\* variant 99 of a world: the last host is the REPLACEMENT of host 1 (same address, own host id and tokens)
Replaced == 99
NoCfg == [pol |-> "none", localdc |-> "", localrack |-> "", ta |-> FALSE, shuffle |-> FALSE, nonlocal |-> FALSE]
Init == lay = <<<<>>, <<>>, <<>>>> /\ cfg = NoCfg /\ ksi = 0 /\ ks2i = 0 /\ hist = <<>> /\ stage = 0
PickLayout == /\ stage = 0
              \* x = 1: one more host that owns no token (known to the driver - a contact point, a joining node - without
              \* ring positions); only next to the one-token ring, the remove tails then leave a ring with hosts but no token
              /\ \E r \in EnumRings(MaxLen, MaxNodes, MaxVnodes) : \E x \in (IF Len(r) = 1 THEN {0, 1} ELSE {0}) :
                   \E d \in EnumDcIdx(EnumMaxOf(RangeOf(r)) + x, NDcs) :
                     \E k \in EnumRackIdx(d, Len(d), NRacks) : lay' = <<r, d, k>>
              /\ stage' = 1 /\ UNCHANGED <<cfg, ksi, ks2i, hist>>
\* policies that are not token aware do not look at the keyspace: one keyspace suffices
PickCfg == /\ stage = 1 /\ cfg' \in PolCfgs
           /\ ksi' \in (IF cfg'.ta THEN KsIdx ELSE {CHOOSE k \in KsIdx : \A m \in KsIdx : k <= m})
           /\ ks2i' \in (IF cfg'.ta /\ Ks2 # 0 /\ ExtraKs # {} /\ ksi' = (CHOOSE k \in ExtraKs : \A m \in ExtraKs : k <= m) THEN {0, Ks2} \cup (IF Len(lay[2]) >= 2 THEN {Replaced} ELSE {}) ELSE {0})
           /\ stage' = 2 /\ UNCHANGED <<lay, hist>>
\* with a second keyspace: the session's history, then the second keyspace becomes known (its replica map
\* is computed on the settled ring)
Ks2Hists(n) == {BaseHist(n, TRUE, TRUE, TRUE) \o <<Op("ks2", 0)>>, BaseHist(n, TRUE, TRUE, TRUE) \o <<Op("down", n), Op("ks2", 0)>>,
                BaseHist(n, FALSE, FALSE, FALSE) \o <<Op("ks2", 0)>>}
\* node replacement: the session knows hosts 1..n-1, then host n (at the address of host 1) is announced and
\* host 1 removed (refreshRing order), or the other way round; or all hosts are simply added in turn
ReplaceHists(n) ==
  IF n < 2 THEN {BaseHist(n, TRUE, TRUE, TRUE)}
  ELSE LET b1 == <<Op("setpart", 0)>> \o Adds(n - 1, TRUE) \o <<Op("ks", 0)>>
       IN {b1 \o <<Op("add", n), Op("remove", 1)>>, b1 \o <<Op("remove", 1), Op("add", n)>>, b1 \o <<Op("add", n)>>,
           b1 \o <<Op("add", n), Op("remove", 1), Op("setpart", 0)>>, BaseHist(n, TRUE, FALSE, TRUE)}
PickHist == /\ stage = 2
            /\ hist' \in (IF ks2i = Replaced THEN ReplaceHists(Len(lay[2])) ELSE IF ks2i # 0 THEN Ks2Hists(Len(lay[2])) ELSE Hists(Len(lay[2]), ksi \in ExtraKs \/ ~cfg.ta, cfg.ta))
            /\ stage' = 3 /\ UNCHANGED <<lay, cfg, ksi, ks2i>>
Next == PickLayout \/ PickCfg \/ PickHist
Spec == Init /\ [][Next]_vars
IsCase == stage = 3

N == Len(lay[2])
L == Len(lay[1])
World == [dc |-> [h \in 1 .. N |-> DcName(lay[2][h])], rack |-> [h \in 1 .. N |-> RackName(lay[3][h])],
          ring |-> lay[1], tokens |-> [k \in 1 .. L |-> 10 * k],
          pol |-> cfg.pol, ta |-> cfg.ta, shuffle |-> cfg.shuffle, nonlocal |-> cfg.nonlocal,
          localdc |-> cfg.localdc, localrack |-> cfg.localrack,
          strat |-> KsTable[ksi].strat, rfdc |-> KsTable[ksi].rfdc, rfn |-> KsTable[ksi].rfn,
          addr |-> [h \in 1 .. N |-> IF ks2i = Replaced /\ h = N THEN 1 ELSE h],
          strat2 |-> IF ks2i \in {0, Replaced} THEN "none" ELSE KsTable[ks2i].strat,
          rfdc2 |-> IF ks2i \in {0, Replaced} THEN <<>> ELSE KsTable[ks2i].rfdc,
          rfn2 |-> IF ks2i \in {0, Replaced} THEN <<>> ELSE KsTable[ks2i].rfn]

\* query classes <<token, keyspace>>: no routing key (rotation: one more pick than there are hosts), then every
\* lookup class - for statements on the session's keyspace and, if there is one, on the second keyspace
Keyed == [k \in 1 .. 2 * L + 1 |-> <<5 * k, 1>>] \o (IF ks2i \in {0, Replaced} THEN <<>> ELSE [k \in 1 .. 2 * L + 1 |-> <<5 * k, 2>>])
Queries == <<<<NoTok, 1>>>> \o (IF cfg.ta THEN Keyed ELSE <<>>)
NPicks(q) == IF q = NoTok THEN N + 1 ELSE 2
RECURSIVE Before(_, _)
Before(qs, g) == IF g = 1 THEN 0 ELSE Before(qs, g - 1) + NPicks(qs[g - 1][1])
\* per query class: the predicted sequences of k successive picks, and (model pass) the
\* predicates they fail - which must be none
GroupsOf(w0, s0, qs) ==
  [g \in 1 .. Len(qs) |->
     LET q == qs[g][1]
         pr == ForKs(w0, s0, qs[g][2])
         w == pr[1]
         s == pr[2]
         cx == QCtx(w, s, q)
         k == NPicks(q)
         exp == [i \in 1 .. k |-> Offer(w, s, cx, Before(qs, g) + i)]
     IN [q |-> q, ks |-> qs[g][2], k |-> k, exp |-> exp,
         \* Cassandra's placement for q on the current ring: what the policy's replica map must hold
         place |-> IF cx.ta THEN Placement(w, s, q) ELSE <<>>,
         bad |-> UNION {PickFailing(w, s, cx, exp[i], FALSE) : i \in 1 .. k} \cup RotationFailing(w, s, cx, exp)]]

\* one invariant: model pass (no predicate fails on the predicted sequences) and the case printed
CheckAndEmit ==
  IsCase => LET w == World
                s == StateAfter(w, hist, Len(hist))
                groups == GroupsOf(w, s, Queries)
            IN /\ \A g \in 1 .. Len(groups) : groups[g].bad = {}
               /\ PrintT(<<"CASE", ToJson([w |-> w, hist |-> hist, groups |-> groups])>>)
=============================================================================
