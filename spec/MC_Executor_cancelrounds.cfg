SPECIFICATION SpecDump
CONSTANTS
  MaxE = 3
  Configs <- CfgCancelRounds
  KeepHist = TRUE
  GateAtomic = TRUE
  NonIdemRetry = FALSE
  Defect_WaitResultsOnly = FALSE
INVARIANTS NoViolation EmitCase
