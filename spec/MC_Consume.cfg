SPECIFICATION Spec
CONSTANTS
  MaxPages = 2
  MaxRows = 2
  Variant = "ok"
INVARIANTS TypeOK RowsInOrderOnce CompleteWhenNoError ErrorNotMaskedAsEnd OneShotScan CASReportsApplied ExecReportsError
PROPERTIES StickyError FinalIsFinal CloseReturnsFirstError ErrReturnsFirstError ScannerNeedsNext
CHECK_DEADLOCK FALSE
