----------------------------- MODULE MC_Prepare -----------------------------
(* Model-checking instances of Prepare.tla (C14). *)
EXTENDS Prepare

A1 == [s |-> "A", n |-> 1]
A2 == [s |-> "A", n |-> 2]      \* wrong number of values for A
A0 == [s |-> "A", n |-> 0]      \* no values at all for a statement with a bind marker
B2 == [s |-> "B", n |-> 2]
c11 == <<"h1", "k1">>
c21 == <<"h2", "k1">>            \* other host, same keyspace
c12 == <<"h1", "k2">>            \* same host, other keyspace

MCArity == [s \in {"A", "B"} |-> IF s = "A" THEN 1 ELSE 2]
E3 == {"e1", "e2", "e3"}
E2 == {"e1", "e2"}
Q(c, it) == [conn |-> c, items |-> <<it>>]
Bt(c, its) == [conn |-> c, items |-> its]
P3(x, y, z) == [e \in E3 |-> IF e = "e1" THEN x ELSE IF e = "e2" THEN y ELSE z]
P2(x, y) == [e \in E2 |-> IF e = "e1" THEN x ELSE y]

\* same statement x3 | same + different statement | two hosts | two keyspaces | wrong arity | batch
PlansCore == {P3(Q(c11, A1), Q(c11, A1), Q(c11, A1)),
              P3(Q(c11, A1), Q(c11, A1), Q(c11, B2)),
              P3(Q(c11, A1), Q(c21, A1), Q(c11, A1)),
              P3(Q(c11, A1), Q(c12, A1), Q(c11, B2))}
PlansMore == {P3(Q(c11, A1), Q(c11, A2), Q(c11, B2)),
              P3(Q(c11, A1), Q(c11, A0), Q(c11, B2)),
              P3(Bt(c11, <<A1, B2>>), Q(c11, A1), Q(c11, B2)),
              P3(Bt(c11, <<A1, B2>>), Bt(c11, <<B2, A1>>), Q(c11, A1))}
PlansAll == PlansCore \cup PlansMore
\* everything but the two-batch plan (whose state space is an order of magnitude larger)
PlansMost == PlansAll \ {P3(Bt(c11, <<A1, B2>>), Bt(c11, <<B2, A1>>), Q(c11, A1))}
PL1 == {P3(Q(c11, A1), Q(c11, A1), Q(c11, A1))}
PL2 == {P3(Q(c11, A1), Q(c11, A1), Q(c11, B2))}
PL3 == {P3(Q(c11, A1), Q(c21, A1), Q(c11, A1))}
PL4 == {P3(Q(c11, A1), Q(c12, A1), Q(c11, B2))}
PL5 == {P3(Q(c11, A1), Q(c11, A2), Q(c11, B2))}
PL8 == {P3(Q(c11, A1), Q(c11, A0), Q(c11, B2))}
PL6 == {P3(Bt(c11, <<A1, B2>>), Q(c11, A1), Q(c11, B2))}
PL7 == {P3(Bt(c11, <<A1, B2>>), Bt(c11, <<B2, A1>>), Q(c11, A1))}
E4 == {"e1", "e2", "e3", "e4"}
PT4 == {[e \in E4 |-> IF e = "e3" THEN Q(c11, B2) ELSE Q(c11, A1)]}
PS3 == {P2(Bt(c11, <<A1, B2>>), Q(c11, A1))}
PlansQuick == PL2 \cup PL4
PS4 == {P2(Bt(c11, <<A1, B2>>), Bt(c11, <<B2, A1>>))}
PlansSmall == {P2(Q(c11, A1), Q(c11, A1)), P2(Q(c11, A1), Q(c11, B2)), P2(Bt(c11, <<A1, B2>>), Q(c11, A1))}
PlansSmall4 == PlansSmall \cup PS4

\* Partial-order reduction for the larger instances: SendPrepare, WaiterWake, CheckArity and
\* SendExecute touch only the flight's / executor's own record (and monotone counters) and commute with
\* every other step, so they are taken first and in a fixed order.  (The only race this removes is
\* "context ends exactly when the finished flight is observed"; the unreduced Next keeps it.)
LocalF(T) == {f \in Flights(T) : SendPrepareEn(T, f)}
LocalE(T) == {e \in EX(T) : WaiterWakeEn(T, e) \/ CheckArityEn(T, e) \/ SendExecuteEn(T, e)}
NextPOR ==
  IF LocalF(S) # {} THEN LET f == CHOOSE f \in LocalF(S) : \A g \in LocalF(S) : f <= g IN S' = SendPrepare(S, f)
  ELSE IF LocalE(S) # {} THEN
     LET e == CHOOSE e \in LocalE(S) : TRUE IN
       S' = IF WaiterWakeEn(S, e) THEN WaiterWake(S, e)
            ELSE IF CheckArityEn(S, e) THEN CheckArity(S, e) ELSE SendExecute(S, e)
  ELSE Next
SpecPOR == Init /\ [][NextPOR]_vars
FairSpecPOR == SpecPOR /\ WF_vars(NextPOR)
=============================================================================
