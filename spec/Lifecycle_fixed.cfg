SPECIFICATION Spec
CONSTANTS
  Closers = {"k1", "k2"}
  Requesters = {"r1"}
  MaxDebounce = 1
  MaxEvents = 1
  MaxProbeFail = 1
  MaxCtlFail = 1
  MaxAddHost = 1
  OnlyDebouncer = FALSE
  WithControl = TRUE
  Defect_StopHandshake = FALSE
  Defect_HeartbeatStart = FALSE
  Defect_LatePool = FALSE
  Defect_ReconnectWindow = FALSE
  Defect_EvStopUnderLock = FALSE
  Defect_EvSyncCallback = FALSE
  EvEager = FALSE
  Defect_CloseHoldsStateLock = FALSE
  Defect_QuitNonBlocking = FALSE
  Defect_ReconnectInline = FALSE
  Mut = "none"
INVARIANTS TypeOK ListenersTracked NoQueueAfterStop NoPanic AllClosedAfterClose QueryAfterClose CancelAfterPools

