SPECIFICATION Spec
CONSTANT Thorough = TRUE
INVARIANT Emit
CHECK_DEADLOCK FALSE
