--------------------------- MODULE Gen_SchemaMeta ---------------------------
(***************************************************************************)
(* X01, spec -> code: behaviours of SchemaMeta.tla as sequences of         *)
(* COMMANDS for the Go harness (harness/x01), each with the observable     *)
(* state the model has once the driver has come to rest after it.          *)
(*                                                                         *)
(* Commands are the steps the harness controls: a caller starts its next   *)
(* call, the cluster changes a keyspace, a batch of events is handed to    *)
(* handleSchemaEvent, the scripted node releases an answer it holds        *)
(* (keyspaces row / remaining schema queries / PREPARE, each ok or         *)
(* failing), all hosts go down / come back.  Everything else is the        *)
(* driver's own step and happens by itself; which goroutine wins a lock    *)
(* is not observable, so the generator carries the SET of model states     *)
(* that are consistent with what was commanded (B) and issues a command    *)
(* only when every state of that set comes to rest in the same observable  *)
(* state: the replay is then deterministic for the harness.                *)
(***************************************************************************)
EXTENDS MC_SchemaMeta, Json

CONSTANTS MaxCmds

VARIABLES B,      \* set of model states (all at rest)
          hist,   \* sequence of [c |-> command, p |-> projection after it]
          tags    \* interesting situations met on the way
gvars == <<S, B, hist, tags>>

\* ---- the driver's own steps
IntSucc(T) ==
  {GLock(T, x) : x \in {y \in DOMAIN T.g : GLockEn(T, y)}}
  \cup {ActMetaRet(T, x) : x \in {y \in ActorsOf(T.plan) : ActMetaRetEn(T, y)}}
  \cup {RLookup(T, x) : x \in {y \in ActorsOf(T.plan) : RLookupEn(T, y)}}
  \cup {RConn(T, x) : x \in {y \in ActorsOf(T.plan) : RConnEn(T, y)}}
  \cup {RPrepHit(T, x) : x \in {y \in ActorsOf(T.plan) : RPrepHitEn(T, y)}}
  \cup {RMeta(T, x) : x \in {y \in ActorsOf(T.plan) : RMetaEn(T, y)}}
  \cup {RPub(T, x) : x \in {y \in ActorsOf(T.plan) : RPubEn(T, y)}}
  \cup {RWake(T, x) : x \in {y \in ActorsOf(T.plan) : RWakeEn(T, y)}}
  \cup (IF EvClearEn(T) THEN {EvClear(T)} ELSE {})
  \cup (IF EvAgreeEn(T) THEN {EvAgree(T)} ELSE {})
  \cup (IF EvPolicyEn(T) THEN {EvPolicy(T)} ELSE {})

RECURSIVE Settle(_)
Settle(X) ==
  LET Y == UNION {IF IntSucc(T) = {} THEN {T} ELSE IntSucc(T) : T \in X}
  IN IF Y = X THEN X ELSE Settle(Y)

\* ---- what the harness can see when the driver rests
RefreshersKs(T) == {x \in DOMAIN T.g : T.g[x].pc = "r_ks"}
RefreshersTb(T) == {x \in DOMAIN T.g : T.g[x].pc = "r_tb"}
PrepPending(T) == {s \in Stmts : ~T.known[s] /\ InPrep(T, s) # {}}
Proj(T) ==
  [cache |-> T.cache,
   pend |-> {<<"ks", T.g[x].k>> : x \in RefreshersKs(T)} \cup {<<"tb", T.g[x].k>> : x \in RefreshersTb(T)}
              \cup {<<"prep", s>> : s \in PrepPending(T)},
   outs |-> [x \in ActorsOf(T.plan) |-> [n |-> T.a[x].nout, t |-> T.a[x].out.t, ks |-> T.a[x].out.ks,
                                          tb |-> T.a[x].out.tb, idx |-> T.a[x].out.idx]],
   busy |-> T.epc # "idle",
   npol |-> T.npol, polt |-> T.polres.t, polks |-> T.polres.ks, poltb |-> T.polres.tb,
   rlru |-> [i \in 1 .. Len(T.rlru) |-> <<T.rlru[i], T.rfl[T.rent[T.rlru[i]]].st>>],
   up |-> T.up, sv |-> T.sv, queued |-> Len(T.evq)]

\* ---- commands
\* [a: name, x: actor, k: keyspace, s: statement, kind, n, ans]
Cmd(a, x, k, s, kind, n, ans) == [a |-> a, x |-> x, k |-> k, s |-> s, kind |-> kind, n |-> n, ans |-> ans]
TheKs(T) == CHOOSE x \in RefreshersKs(T) : TRUE
TheTb(T) == CHOOSE x \in RefreshersTb(T) : TRUE

CmdEn(T, c) ==
  CASE c.a = "Start" -> ActStartEn(T, c.x)
    [] c.a = "Chg" -> SrvChangeEn(T, c.k)
    [] c.a = "Deliver" -> EvTakeEn(T, c.n)
    [] c.a = "Ks" -> Cardinality(RefreshersKs(T)) = 1 /\ GAnsKsEn(T, TheKs(T), c.ans)
    [] c.a = "Tb" -> Cardinality(RefreshersTb(T)) = 1 /\ GAnsTbEn(T, TheTb(T), c.ans)
    [] c.a = "Prep" -> RPrepAnsEn(T, c.s, c.ans)
    [] c.a = "Down" -> HostsDownEn(T)
    [] c.a = "Up" -> HostsUpEn(T)
CmdDo(T, c) ==
  CASE c.a = "Start" -> ActStart(T, c.x)
    [] c.a = "Chg" -> SrvChange(T, c.k, c.kind)
    [] c.a = "Deliver" -> EvTake(T, c.n)
    [] c.a = "Ks" -> GAnsKs(T, TheKs(T), c.ans)
    [] c.a = "Tb" -> GAnsTb(T, TheTb(T), c.ans)
    [] c.a = "Prep" -> RPrepAns(T, c.s, c.ans)
    [] c.a = "Down" -> HostsDown(T)
    [] c.a = "Up" -> HostsUp(T)

Cmds(p) ==
  {Cmd("Start", x, "", "", "", 0, "") : x \in ActorsOf(p)}
  \cup {Cmd("Chg", "", k, "", kind, 0, "") : k \in Keyspaces, kind \in {"table", "keyspace"}}
  \cup {Cmd("Deliver", "", "", "", "", n, "") : n \in 1 .. 3}
  \cup {Cmd(a, "", "", "", "", 0, ans) : a \in {"Ks", "Tb"}, ans \in {"ok", "fail"}}
  \cup {Cmd("Prep", "", "", s, "", 0, ans) : s \in Stmts, ans \in {"ok", "fail"}}
  \cup {Cmd("Down", "", "", "", "", 0, ""), Cmd("Up", "", "", "", "", 0, "")}

After(X, c) == Settle({CmdDo(T, c) : T \in X})
Allowed(X, c) == (\A T \in X : CmdEn(T, c)) /\ Cardinality({Proj(T) : T \in After(X, c)}) = 1

\* ---- situations worth replaying (a behaviour is a target when it ends with everything done and the tag met)
TagsOf(X, c, Y) ==
  {t \in {"clear-waits-for-refresh", "caller-waits-for-refresh", "torn-snapshot", "refresh-failed", "keyspace-absent",
          "policy-refetch", "route-join", "route-evict-inflight", "route-noconn", "route-prepare-failed",
          "route-meta-failed", "route-no-table", "route-nil", "route-stale"} :
     \E T \in Y :
       CASE t = "clear-waits-for-refresh" -> T.epc = "clear" /\ T.mu # ""
         [] t = "caller-waits-for-refresh" -> \E x \in ActorsOf(T.plan) : T.g[x].pc = "want" /\ T.mu # ""
         [] t = "torn-snapshot" -> \E k \in Keyspaces : T.cache[k].ks # T.cache[k].tb
         [] t = "refresh-failed" -> c.a \in {"Ks", "Tb"} /\ c.ans = "fail"
         [] t = "keyspace-absent" -> \E x \in ActorsOf(T.plan) : T.a[x].out.t = "notexist"
         [] t = "policy-refetch" -> T.g[Pol].pc \in {"r_ks", "r_tb"}
         [] t = "route-join" -> \E x \in ActorsOf(T.plan) : T.a[x].pc = "r_wait"
         [] t = "route-evict-inflight" -> \E i \in 1 .. Len(T.rfl) : T.rfl[i].st = "run" /\ (T.rfl[i].s \notin DOMAIN T.rent \/ T.rent[T.rfl[i].s] # i)
         [] t = "route-noconn" -> c.a = "Start" /\ ~T.up /\ \E i \in 1 .. Len(T.rfl) : T.rfl[i].st = "fail" /\ T.rfl[i].by = c.x
         [] t = "route-prepare-failed" -> c.a = "Prep" /\ c.ans = "fail"
         [] t = "route-meta-failed" -> c.a \in {"Ks", "Tb"} /\ c.ans = "fail" /\ \E i \in 1 .. Len(T.rfl) : T.rfl[i].st = "fail"
         [] t = "route-no-table" -> \E i \in 1 .. Len(T.rfl) : T.rfl[i].st = "fail" /\ T.rfl[i].ver \in NoTableVers
         [] t = "route-nil" -> \E x \in ActorsOf(T.plan) : T.a[x].out.t = "nil"
         [] t = "route-stale" -> \E x \in ActorsOf(T.plan) : T.a[x].out.t \in {"key", "nil"} /\ T.a[x].pc = "ready" /\ T.a[x].out.tb < T.a[x].rfloor}

GenInit ==
  /\ \E p \in Plans : S = InitState(p)
  /\ B = {S} /\ hist = <<>> /\ tags = {}

GenStep ==
  /\ Len(hist) < MaxCmds
  /\ \E c \in Cmds(S.plan) :
       /\ Allowed(B, c)
       /\ B' = After(B, c)
       /\ hist' = Append(hist, [c |-> c, p |-> Proj(CHOOSE T \in B' : TRUE)])
       /\ tags' = tags \cup TagsOf(B, c, B')
  /\ S' = S

GenSpec == GenInit /\ [][GenStep]_gvars

Finished == \A T \in B : AllDone(T) /\ Quiet(T) /\ T.epc = "idle"
NoMove == \A c \in Cmds(S.plan) : ~Allowed(B, c)

\* -simulate: print the behaviour where the walk ends
EmitWalk == (hist # <<>> /\ (Finished \/ NoMove \/ Len(hist) = MaxCmds)) =>
               PrintT(<<"WALK", ToJson([plan |-> S.plan, steps |-> hist, tags |-> tags, finished |-> Finished])>>)

\* targets (BFS, -dumpTrace): TLC's counterexample to "never" is a shortest complete behaviour that meets the tag
CONSTANT Target
NeverTarget == ~(Finished /\ Target \in tags)
=============================================================================
