SPECIFICATION GenSpec
CONSTANTS
  Keyspaces = {"k1"}
  MaxVer = 3
  AbsentVers = {}
  NoTableVers = {}
  Plans <- PlansMix
  MaxFail = 1
  MaxDown = 1
  MaxRoute = 1
  PkFromPrepare = FALSE
  TakeAll = FALSE
  KsFailureIsNotExist = TRUE
  DefectNoConnCached = TRUE
  Variant = "ok"
  MaxCmds = 30
  Target = "none"
INVARIANT EmitWalk
CHECK_DEADLOCK FALSE
