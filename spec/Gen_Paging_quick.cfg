SPECIFICATION GenSpec
CONSTANTS
  MaxPages = 3
  MaxRows = 3
  Quarters = {0, 1, 2, 4}
  Kinds = {"Scan", "Scanner", "MapScan", "SliceMap"}
  ManualQuarters = {1}
  Plans <- GenPlans
  AllVariants = FALSE
  MultiEvery = 4
  MultiPlans = 1
  OptEvery = 4
  ConcEvery = 24
  Conc = 8
  PinEvery = 6
INVARIANT Emit
CHECK_DEADLOCK FALSE
