--------------------------- MODULE Trace_WireResp ---------------------------
(***************************************************************************)
(* C04, code -> spec: evaluates "driver's view = what the frame says" on    *)
(* vectors recorded from the real driver.  Each line of the NDJSON file is  *)
(*   [id, mode, typed, logical, view]                                      *)
(* logical: the response as TLC generated it (Gen_WireResp), view: what the *)
(* harness observed after feeding Frame(logical) to the driver in `mode`:   *)
(*   plain / snappy            framer level (readHeader, readFrame,         *)
(*                             parseFrame, Iter), body compressed or not    *)
(*   sess-iter[-z]             a void / set-keyspace / schema-change result   *)
(*                             as Query.Iter() of a live session shows it   *)
(*   sess-full-t / sess-skip-t the same with a temporary read timeout injected *)
(*                             after the header and a few body bytes of each  *)
(*                             response (the view must not depend on it)      *)
(*   sess-prep[-z]             a PREPARED response as the application sees  *)
(*                             it (QueryInfo handed to a binding function)  *)
(*   sess-full / sess-skip[-z] through a live session that prepared the     *)
(*                             statement; -skip: the driver asked the       *)
(*                             server to omit the metadata; -z: compressed  *)
(* A mismatch prints one MONVIOL line naming the fields that differ.        *)
(***************************************************************************)
EXTENDS WireResp, Json, IOUtils

Log == ndJsonDeserialize(IOEnv.VF_TRACE)
VARIABLE l
Init == l = 1
Next == UNCHANGED l
Spec == Init /\ [][Next]_l

ModeComp(mode) == mode \in {"snappy", "sess-full-z", "sess-skip-z", "sess-prep-z", "sess-iter-z"}
ModeSess(mode) == mode \in {"sess-full", "sess-skip", "sess-full-z", "sess-skip-z", "sess-prep", "sess-prep-z", "sess-iter", "sess-iter-z", "sess-full-t", "sess-skip-t"}
ModeIter(mode) == mode \in {"sess-iter", "sess-iter-z"}
ModeApi(mode) == mode \in {"sess-prep", "sess-prep-z"}

MetaAgrees(seen, sent) ==
  /\ DOMAIN seen = DOMAIN sent
  /\ seen.flags = sent.flags /\ seen.colcount = sent.colcount /\ seen.paging = sent.paging
  /\ ColsAgree(seen.cols, sent.cols)
FieldAgrees(k, seen, sent) ==
  CASE k = "cols" -> ColsAgree(seen, sent)
    [] k \in {"req", "res"} -> MetaAgrees(seen, sent)
    [] OTHER -> seen = sent

\* the fields of the view that contradict the frame
Diff(rec) ==
  LET exp == ExpView(rec.logical, rec.typed, ModeComp(rec.mode), ModeSess(rec.mode), ModeApi(rec.mode), ModeIter(rec.mode))
      vw == rec.view
      top == {k \in DOMAIN exp \ {"f"} : IF k \in DOMAIN vw THEN vw[k] # exp[k] ELSE TRUE}
      inner == IF top # {} THEN {}
               ELSE {k \in DOMAIN exp.f : IF k \in DOMAIN vw.f THEN ~FieldAgrees(k, vw.f[k], exp.f[k]) ELSE TRUE}
  IN [top |-> top, inner |-> inner]

\* All vectors are evaluated in the single initial state (reading the file once).
CheckRec(rec, i) ==
  LET d == Diff(rec)
  IN (d.top # {} \/ d.inner # {}) =>
       PrintT("MONVIOL " \o ToJson([id |-> rec.id, mode |-> rec.mode, line |-> i, top |-> d.top, inner |-> d.inner]))
Report ==
  LET log == Log
  IN /\ \A i \in 1 .. Len(log) : CheckRec(log[i], i)
     /\ PrintT("MONDONE " \o ToString(Len(log)))
=============================================================================
