SPECIFICATION WalkSpec
CONSTANTS
  Execs = {"e1", "e2", "e3"}
  Arity <- MCArity
  MaxLRU = 1
  MaxForget = 2
  MaxFail = 1
  Cancellable = {"e2"}
  MaxReprepare = 3
  UniqueIds = TRUE
  Plans <- PlansAll
INVARIANT EmitWalk
CHECK_DEADLOCK FALSE
