SPECIFICATION TSpec
CONSTANTS
  MaxPages = 4
  MaxRows = 3
  Quarters = {0, 1, 2, 4}
  Kinds = {"Scan", "Scanner", "MapScan", "SliceMap"}
  ManualQuarters = {1}
  Plans <- TracePlans
INVARIANTS Report TypeOK RowsExactlyOnceInOrder RequestChain RequestsIdentical EndsAsDemanded
CHECK_DEADLOCK FALSE
