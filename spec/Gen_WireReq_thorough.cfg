SPECIFICATION Spec
CONSTANT Tier = "thorough"
INVARIANT Emit
INVARIANT RoundTrip
INVARIANT Sensitive
CHECK_DEADLOCK FALSE
