---------------------------- MODULE MC_QueryLife ----------------------------
(* Model-checking and edge-dump wrapper for QueryLife.tla (X02).            *)
EXTENDS QueryLife, Json, TLCExt

\* every transition of the handle-level machine with the demanded result of the call and the demanded getter values
EmitEdge ==
  PrintT(<<"EDGE", ToJson([from |-> L, call |-> last'.call, res |-> last'.res, to |-> L', proj |-> Proj(L')])>>)
EmitInit == PrintT(<<"INIT", ToJson(L)>>)
InitMark == (L.lives = 0 /\ L.b.st = "none" => EmitInit)
\* the edge dump identifies states by the handle-level state alone
ViewL == L
=============================================================================
