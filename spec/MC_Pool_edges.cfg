SPECIFICATION SpecNoFair
CONSTANTS
  Size = 2
  Triggers = {"f1", "f2"}
  Spawned = {"h1"}
  Pickers = {}
  Defect_PickOnlyEmpty = FALSE
  Closers = {"k1"}
  MaxFail = 2
  MaxKill = 1
  Eager = TRUE
  CloseErr = FALSE
  Defect_LateCloseUnderLock = FALSE
  Defect_NoJoin = FALSE
  Defect_AddDeadConn = FALSE
  Mut = "none"
ACTION_CONSTRAINT EmitEdge
INVARIANT InitMark
CHECK_DEADLOCK FALSE
