SPECIFICATION Spec
CONSTANT Tier = "quick"
INVARIANT Emit
INVARIANT RoundTrip
INVARIANT Sensitive
CHECK_DEADLOCK FALSE
