SPECIFICATION SpecEdges
CONSTANTS
  MaxPages = 2
  MaxRows = 2
  Variant = "ok"
ACTION_CONSTRAINT EmitEdge
INVARIANT InitMark
CHECK_DEADLOCK FALSE
