SPECIFICATION Spec
CONSTANT Alg = "snappy"
INVARIANTS RefAgrees CorruptRejected HugeRejected Emit
CHECK_DEADLOCK FALSE
