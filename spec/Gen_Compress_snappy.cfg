SPECIFICATION Spec
CONSTANT Alg = "snappy"
INVARIANTS RefAgrees CorruptRejected Emit
CHECK_DEADLOCK FALSE
