SPECIFICATION MSpec
CONSTANTS
  MaxE = 8
CHECK_DEADLOCK FALSE
