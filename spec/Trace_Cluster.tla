---------------------------- MODULE Trace_Cluster ----------------------------
(***************************************************************************)
(* Validates executions of the real Session recorded by harness/cluster    *)
(* (one NDJSON line per step: the step, the rows the cluster reports, the  *)
(* projected ring / pool / policy state at quiescence).                    *)
(*                                                                         *)
(* For every line TLC                                                      *)
(*  - advances the property state g of Cluster.tla from the step alone,    *)
(*  - evaluates the property Viol(observed state, g): a non-empty result   *)
(*    is a VIOLATION by the real code (MONVIOL line),                      *)
(*  - computes the state the driver model reaches from the PREVIOUS        *)
(*    OBSERVED state by the same step and compares: a difference that      *)
(*    contradicts no property clause is DRIFT (model out of date).         *)
(* After a violation the rest of that scenario is not judged (what follows *)
(* from a broken state is not a new finding), except for the modelled      *)
(* by-address loss (DefectByAddr), after which the scenario goes on.       *)
(***************************************************************************)
EXTENDS Cluster, Json, IOUtils

Log == ndJsonDeserialize(IOEnv.VF_TRACE)

\* g (property state) and d (here: the driver state OBSERVED on the previous line) are the
\* variables of Cluster.tla; truth and nref repeat the line's rows and refresh count
VARIABLES l, dead, rep
tvars == <<l, dead, rep, truth, g, d, nref>>

Fn(S, key(_), val(_)) == [k \in {key(x) : x \in S} |-> val(CHOOSE x \in S : key(x) = k)]
Obs(r) ==
  [hosts |-> Fn(Range(r.hosts), LAMBDA h : h.id, LAMBDA h : [addr |-> h.addr, n2n |-> h.n2n]),
   byid |-> Fn(Range(r.byid), LAMBDA h : h.id, LAMBDA h : [addr |-> h.addr, n2n |-> h.n2n]),
   byAddr |-> Fn(Range(r.byaddr), LAMBDA h : h.addr, LAMBDA h : h.id),
   hlist |-> r.hlist,
   poolA |-> Fn(Range(r.pool), LAMBDA h : h.id, LAMBDA h : h.addr),
   polE |-> {[id |-> h.id, addr |-> h.addr] : h \in Range(r.pol)},
   down |-> {h.id : h \in {x \in Range(r.hosts) : ~x.up}},
   served |-> Range(r.served), refreshes |-> r.refreshes, panic |-> r.panic, stuck |-> r.stuck,
   upcalls |-> Range(r.upcalls)]
DOf(o) == [hosts |-> o.hosts, byAddr |-> o.byAddr, hlist |-> o.hlist, pool |-> DOMAIN o.poolA,
           pol |-> {e.id : e \in o.polE}, down |-> o.down]

Cur == Log[l]
NonFatal == {"ring-byaddr-lost-after-id-replacement"}

\* <<property state, expected driver state, expected refreshes>> after the step of line r
StepOf(r, g0, d0) ==
  LET filt == Range(r.filt)
      evs == r.evs
      didRefresh == r.refreshes > 0
  IN CASE r.op = "init" -> <<GhostInit(r.rows, filt), FreshSession(r.rows, filt, AllAddrs), 0>>
       [] r.op = "refresh" ->
            IF g0.ctl /\ r.fail = "none"
              THEN <<DoRefreshG(g0, r.rows, filt), ApplyRefresh(d0, r.rows, filt, g0.reach), 1>>
              ELSE <<g0, d0, IF g0.ctl /\ r.fail # "local" THEN 1 ELSE 0>>
       [] r.op \in {"events", "burst"} ->
            LET g00 == GhostStatuses(g0, evs, StatusAddrs(evs))
                \* a status event for an address whose index entry is already lost (reported when
                \* it was lost) cannot reach the host: what follows is not a second finding
                g1 == [g00 EXCEPT !.att = [i \in DOMAIN @ |->
                          IF i \in DOMAIN d0.hosts /\ d0.hosts[i].n2n \in StatusAddrs(evs) /\ d0.hosts[i].n2n \notin DOMAIN d0.byAddr
                            THEN "free" ELSE @[i]]]
                d1 == ApplyStatuses(d0, evs, StatusAddrs(evs), g0.reach)
                need == BatchNeedsRefresh(d0, evs)
            IN <<IF GhostNeedsRefresh(g0, evs) \/ need \/ didRefresh THEN BatchRelax(g0, DoRefreshG(g1, r.rows, filt), evs) ELSE g1,
                 IF need THEN ApplyRefresh(d1, r.rows, filt, g0.reach) ELSE d1,
                 IF need THEN 1 ELSE 0>>
       [] r.op = "nodefail" -> <<GhostNodeFail(g0, r.addr), NodeFailD(d0, r.addr), 0>>
       [] r.op = "noderecover" ->
            IF r.addr = C0addr
              THEN LET g1 == GhostControlBack([g0 EXCEPT !.reach = @ \cup {r.addr}])
                   IN <<DoRefreshG(g1, r.rows, filt),
                        ApplyRefresh(StartFill(d0, C0id, g0.reach \cup {r.addr}), r.rows, filt, g0.reach \cup {r.addr}), 1>>
              ELSE <<[g0 EXCEPT !.reach = @ \cup {r.addr}], d0, 0>>
       [] r.op = "heal" -> <<[g0 EXCEPT !.reach = @ \cup {C0addr}], d0, 0>>
       [] r.op = "reconnect" ->
            <<DoRefreshG(GhostControlBack(g0), r.rows, filt),
              ApplyRefresh(StartFill(d0, C0id, g0.reach), r.rows, filt, g0.reach), 1>>
       [] r.op = "ctllost" ->
            <<DoRefreshG(GhostControlBack(g0), r.rows, filt),
              ApplyRefresh(StartFill(d0, C0id, g0.reach), r.rows, filt, g0.reach), 1>>
       [] OTHER -> \* settle: nothing happens (a late refresh of the same rows is accepted)
            <<IF didRefresh /\ g0.ctl THEN DoRefreshG(g0, r.rows, filt) ELSE g0, d0, 0>>

Healthy(o, a) == \E i \in DOMAIN o.hosts : /\ a \in {o.hosts[i].addr, o.hosts[i].n2n}
                                            /\ o.hosts[i].n2n \in DOMAIN o.byAddr /\ o.byAddr[o.hosts[i].n2n] = i
                                            /\ \E e \in o.polE : e.id = i

\* The model keeps the policy's hosts by id.  The driver's policies keep them by address, so
\* at an address that one host id took over from another (gg.moved) the policy entry depends
\* on the order of internal calls; where the property demands the entry its absence is a
\* violation (policy-missing-host-after-id-replacement), elsewhere it is not compared.
SameD(x, y, gg) ==
  LET mv == {i \in DOMAIN x.hosts : x.hosts[i].addr \in gg.moved} IN
  /\ x.hosts = y.hosts /\ x.byAddr = y.byAddr /\ x.pool = y.pool /\ x.pol \ mv = y.pol \ mv /\ x.down = y.down
  /\ Range(x.hlist) = Range(y.hlist)

Init == /\ l = 1 /\ g = GhostInit(<<>>, {}) /\ d = EmptyD /\ dead = FALSE
        /\ truth = <<>> /\ nref = 0
        /\ rep = [kind |-> "none"]

Next ==
  /\ l <= Len(Log)
  /\ LET r == Cur
         o == Obs(r)
         isInit == r.op = "init"
         st == StepOf(r, g, d)
         g1 == st[1]
         V == Viol(o, g1)
         skip == dead /\ ~isInit
         \* a step that was still in progress (held) when the next one happened has no state of
         \* its own: the model's prediction stands in for it
         held == r.held
     IN /\ truth' = r.rows /\ nref' = r.refreshes
        /\ g' = IF held THEN g1 ELSE [g1 EXCEPT !.moved = {a \in @ : ~Healthy(o, a)}]
        /\ d' = IF held THEN st[2] ELSE DOf(o)
        /\ dead' = IF held THEN dead ELSE IF isInit THEN (V \ NonFatal # {}) ELSE dead \/ (V \ NonFatal # {})
        /\ rep' = IF held THEN [kind |-> "ok", sc |-> r.sc, k |-> r.k]
                  ELSE IF skip THEN [kind |-> "skipped", sc |-> r.sc, k |-> r.k]
                  ELSE IF V # {} THEN [kind |-> "viol", sc |-> r.sc, k |-> r.k, kinds |-> V, line |-> l]
                  \* (no unique prediction while a host id is reported twice)
                  ELSE IF ~g1.dup /\ (~SameD(DOf(o), st[2], g1) \/ (r.ov = "" /\ r.refreshes # st[3]))
                    THEN [kind |-> "drift", sc |-> r.sc, k |-> r.k, line |-> l, op |-> r.op,
                          expected |-> [hosts |-> st[2].hosts, byaddr |-> st[2].byAddr, pool |-> st[2].pool,
                                        pol |-> st[2].pol, down |-> st[2].down, refreshes |-> st[3]]]
                  ELSE [kind |-> "ok", sc |-> r.sc, k |-> r.k]
  /\ l' = l + 1

Spec == Init /\ [][Next]_tvars

Report ==
  /\ rep.kind = "viol" => PrintT(<<"MONVIOL", ToJson(rep)>>)
  /\ rep.kind = "drift" => PrintT(<<"MONDRIFT", ToJson(rep)>>)
  /\ rep.kind = "skipped" => PrintT(<<"MONSKIP", ToJson(rep)>>)
  /\ (l = Len(Log) + 1) => PrintT(<<"MONDONE", l - 1>>)
=============================================================================
