---------------------------- MODULE MC_Lifecycle ----------------------------
(* Edge dump of the refresh-debouncer part of Lifecycle.tla (simulation walks   *)
(* replayed on the real refreshDebouncer).                                      *)
EXTENDS Lifecycle, Json, TLCExt

SetToSeq(S) == LET RECURSIVE F(_) F(X) == IF X = {} THEN <<>> ELSE
                 LET m == CHOOSE x \in X : TRUE IN <<m>> \o F(X \ {m}) IN F(S)

Proj(st, hb, bc, nw, ti, qu, dn, fp, rp, kp, nd) ==
  [stopped |-> st, hasbc |-> hb, bc |-> SetToSeq(bc), now |-> nw, timer |-> ti, quit |-> qu, done |-> dn,
   fl |-> fp, req |-> rp, kpc |-> kp, ndeb |-> nd]

EmitEdge ==
  PrintT(<<"EDGE", ToJson([from |-> Proj(rdStopped, rdHasBc, rdBc, rdNow, rdTimer, rdQuit, rdDone, flPc, reqPc, kpc, nDebounce),
                           to |-> Proj(rdStopped', rdHasBc', rdBc', rdNow', rdTimer', rdQuit', rdDone', flPc', reqPc', kpc', nDebounce')])>>)
EmitInit == PrintT(<<"INIT", ToJson(Proj(rdStopped, rdHasBc, rdBc, rdNow, rdTimer, rdQuit, rdDone, flPc, reqPc, kpc, nDebounce))>>)
InitMark == ((\A k \in Closers : kpc[k] = "idle") /\ (\A r \in Reqs : reqPc[r] = "idle") /\ nDebounce = 0 /\ flPc = "select") => EmitInit
\* Coverage goals: TLC is asked for a behaviour that reaches each situation (the "invariant" is the negated
\* goal; its counterexample is the behaviour).  The behaviours are replayed on the real refreshDebouncer and
\* then left to run: every stop() must return and every listener must be resolved.
PendingR == {r \in Requesters : rdHasBc /\ r \in rdBc /\ reqPc[r] = "waiting"}
ServedR == {r \in Requesters : r \in flCur /\ reqPc[r] = "waiting"}
\* stop() arrives while refreshFn runs and a further request is pending
Goal_StopBusyPending == ~(rdStopped /\ flPc = "refreshing" /\ PendingR # {})
\* ... with a listener being served and another one pending
Goal_StopBusyServedAndPending == ~(rdStopped /\ flPc = "refreshing" /\ PendingR # {} /\ ServedR # {})
\* ... with two listeners on the pending broadcaster
Goal_StopBusyTwoPending == ~(rdStopped /\ flPc = "refreshing" /\ Cardinality(PendingR) = 2)
\* stop() arrives between the flusher's select and its lock, a request pending
Goal_StopWokePending == ~(rdStopped /\ flPc = "woke" /\ PendingR # {})
\* stop() arrives while the flusher sits in its select with a request it has not picked up yet
Goal_StopSelectPending == ~(rdStopped /\ flPc = "select" /\ PendingR # {})
\* a request arrives after stop() marked the debouncer, while refreshFn still runs
Goal_RequestAfterStopBusy == ~(rdStopped /\ flPc = "refreshing" /\ \E r \in Requesters : reqPc[r] = "closed")
\* a request arrives after the flusher has gone
Goal_RequestAfterExit == ~(flPc = "exited" /\ \E r \in Requesters : reqPc[r] = "closed" /\ \E q \in Requesters : reqPc[q] = "idle")
\* walks end when nothing but stuttering is left
NotIdle == ~(Finished /\ \A k \in Closers : kpc[k] = "done")
=============================================================================
