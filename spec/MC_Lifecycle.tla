---------------------------- MODULE MC_Lifecycle ----------------------------
(* Edge dump of the refresh-debouncer part of Lifecycle.tla (simulation walks   *)
(* replayed on the real refreshDebouncer).                                      *)
EXTENDS Lifecycle, Json, TLCExt

SetToSeq(S) == LET RECURSIVE F(_) F(X) == IF X = {} THEN <<>> ELSE
                 LET m == CHOOSE x \in X : TRUE IN <<m>> \o F(X \ {m}) IN F(S)

Proj(st, hb, bc, nw, ti, qu, dn, fp, rp, kp, nd) ==
  [stopped |-> st, hasbc |-> hb, bc |-> SetToSeq(bc), now |-> nw, timer |-> ti, quit |-> qu, done |-> dn,
   fl |-> fp, req |-> rp, kpc |-> kp, ndeb |-> nd]

EmitEdge ==
  PrintT(<<"EDGE", ToJson([from |-> Proj(rdStopped, rdHasBc, rdBc, rdNow, rdTimer, rdQuit, rdDone, flPc, reqPc, kpc, nDebounce),
                           to |-> Proj(rdStopped', rdHasBc', rdBc', rdNow', rdTimer', rdQuit', rdDone', flPc', reqPc', kpc', nDebounce')])>>)
EmitInit == PrintT(<<"INIT", ToJson(Proj(rdStopped, rdHasBc, rdBc, rdNow, rdTimer, rdQuit, rdDone, flPc, reqPc, kpc, nDebounce))>>)
InitMark == ((\A k \in Closers : kpc[k] = "idle") /\ (\A r \in Reqs : reqPc[r] = "idle") /\ nDebounce = 0 /\ flPc = "select") => EmitInit
\* walks end when nothing but stuttering is left
NotIdle == ~(Finished /\ \A k \in Closers : kpc[k] = "done")
=============================================================================
