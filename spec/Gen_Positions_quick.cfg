CONSTANT Thorough = FALSE
CONSTANT Tier = "quick"
INIT PInit
NEXT PNext
INVARIANT EmitCase
CHECK_DEADLOCK FALSE
