CONSTANT Thorough = FALSE
CONSTANT Tier = "quick"
CONSTANT Part = 0
INIT PInit
NEXT PNext
INVARIANT EmitLive
CHECK_DEADLOCK FALSE
