SPECIFICATION Spec
CONSTANTS
  MaxE = 3
  Configs <- CfgQuick
  KeepHist = FALSE
  GateAtomic = FALSE
  NonIdemRetry = FALSE
  Defect_WaitResultsOnly = FALSE
VIEW View
INVARIANTS NoViolation AttemptsWithinPolicies RetryHostAsDecided RethrowIgnoreStop NothingAfterCancel
  NonIdemOneExecution NonIdemNeverRetried OneResultFirstLastError
  DirectBound DirectBoundSequential DirectNonIdem DirectSpeculation DirectCancel DirectResult
