SPECIFICATION SpecDump
CONSTANTS
  MaxE = 3
  Configs <- CfgSeqThorough
  KeepHist = TRUE
  GateAtomic = TRUE
  NonIdemRetry = FALSE
INVARIANTS NoViolation EmitCase
