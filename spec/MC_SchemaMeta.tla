--------------------------- MODULE MC_SchemaMeta ---------------------------
(* Model-checking instances of SchemaMeta.tla (X01: schema metadata cache, events, routing info). *)
EXTENDS SchemaMeta

M(k) == [t |-> "meta", k |-> k]
R(s) == [t |-> "route", s |-> s]

\* callers of KeyspaceMetadata only
PlansMeta2 == {[c1 |-> <<M("k1"), M("k1")>>, c2 |-> <<M("k1")>>]}
PlansMeta2k == {[c1 |-> <<M("k1"), M("k2")>>, c2 |-> <<M("k2"), M("k1")>>]}
PlansMeta3 == {[c1 |-> <<M("k1"), M("k1")>>, c2 |-> <<M("k1")>>, c3 |-> <<M("k1")>>]}
\* routers (and one plain caller)
PlansRoute == {[c1 |-> <<R("s1"), R("s1")>>, c2 |-> <<R("s1")>>],
               [c1 |-> <<R("s1"), R("s2")>>, c2 |-> <<R("s2"), R("s1")>>]}
PlansRoute1 == {[c1 |-> <<R("s1"), R("s1")>>, c2 |-> <<R("s1")>>]}
PlansRoute2 == {[c1 |-> <<R("s1"), R("s2")>>, c2 |-> <<R("s2"), R("s1")>>]}
PlansRouteMeta == {[c1 |-> <<R("s1"), R("s1")>>, c2 |-> <<M("k1"), R("s1")>>]}
PlansRoute3 == {[c1 |-> <<R("s1"), R("s3")>>, c2 |-> <<R("s3"), R("s1")>>, c3 |-> <<R("s1")>>]}
PlansMix == PlansMeta2 \cup PlansRoute \cup PlansRouteMeta
PlansCallers == PlansMeta2 \cup PlansMeta3
PlansRouteAll == PlansRoute \cup PlansRouteMeta

\* reachability (vacuity guard): every situation below has to be met by the model passes.  Each worker prints a
\* situation the first time it meets it (TLC registers), the check collects the REACHED lines.
ASSUME \A i \in 1 .. 12 : TLCSet(i, 0)
Mark(i, c, name) == (c /\ TLCGet(i) = 0) => (PrintT(<<"REACHED", name>>) /\ TLCSet(i, 1))
ReachMarks ==
  /\ Mark(1, \E x \in DOMAIN S.g : S.g[x].pc = "done" /\ S.g[x].res.t = "ok" /\ ~S.g[x].own, "hit")
  /\ Mark(2, \E k \in Keyspaces : S.cache[k].ks # S.cache[k].tb, "torn")
  /\ Mark(3, \E x \in DOMAIN S.g : S.g[x].res.t = "notexist" /\ S.g[x].abs, "notexist")
  /\ Mark(4, S.g[Pol].pc = "done", "policy")
  /\ Mark(5, S.epc = "clear" /\ S.mu # "", "clear_waits")
  /\ Mark(6, \E x \in DOMAIN S.g : S.g[x].pc = "done" /\ S.g[x].res.t = "err", "fetch_failed")
  /\ Mark(7, \E i \in 1 .. Len(S.rfl) : Len(S.rfl[i].val) = 2, "route_key2")
  /\ Mark(8, \E x \in ActorsOf(S.plan) : S.a[x].out.t = "nil", "route_nil")
  /\ Mark(9, \E s \in Stmts : S.nrrem[s] > 0, "route_removed")
  /\ Mark(10, \E x \in ActorsOf(S.plan) : S.a[x].pc = "r_wait", "route_join")
  /\ Mark(11, \E i \in 1 .. Len(S.rfl) : S.rfl[i].st = "fail", "route_failed")
  /\ Mark(12, \E i \in 1 .. Len(S.rfl) : S.rfl[i].st = "run" /\ (S.rfl[i].s \notin DOMAIN S.rent \/ S.rent[S.rfl[i].s] # i), "route_evicted_inflight")
=============================================================================
