--------------------------- MODULE MC_SchemaMeta ---------------------------
(* Model-checking instances of SchemaMeta.tla (X01: schema metadata cache, events, routing info). *)
EXTENDS SchemaMeta

M(k) == [t |-> "meta", k |-> k]
R(s) == [t |-> "route", s |-> s]

\* callers of KeyspaceMetadata only
PlansMeta2 == {[c1 |-> <<M("k1"), M("k1")>>, c2 |-> <<M("k1")>>]}
PlansMeta2k == {[c1 |-> <<M("k1"), M("k2")>>, c2 |-> <<M("k2"), M("k1")>>]}
PlansMeta3 == {[c1 |-> <<M("k1"), M("k1")>>, c2 |-> <<M("k1")>>, c3 |-> <<M("k1")>>]}
\* routers (and one plain caller)
PlansRoute == {[c1 |-> <<R("s1"), R("s1")>>, c2 |-> <<R("s1")>>],
               [c1 |-> <<R("s1"), R("s2")>>, c2 |-> <<R("s2"), R("s1")>>]}
PlansRouteMeta == {[c1 |-> <<R("s1"), R("s1")>>, c2 |-> <<M("k1"), R("s1")>>]}
PlansRoute3 == {[c1 |-> <<R("s1"), R("s3")>>, c2 |-> <<R("s3"), R("s1")>>, c3 |-> <<R("s1")>>]}
PlansMix == PlansMeta2 \cup PlansRoute \cup PlansRouteMeta
PlansCallers == PlansMeta2 \cup PlansMeta3
PlansRouteAll == PlansRoute \cup PlansRouteMeta

\* reachability (vacuity guard): TLC must VIOLATE each of these
Never_hit == \A x \in DOMAIN S.g : ~(S.g[x].pc = "done" /\ S.g[x].res.t = "ok" /\ ~S.g[x].own)
Never_torn == \A k \in Keyspaces : S.cache[k].ks = S.cache[k].tb
Never_notexist == \A x \in DOMAIN S.g : S.g[x].res.t # "notexist"
Never_policy == S.g[Pol].pc # "done"
Never_route_key2 == \A i \in 1 .. Len(S.rfl) : Len(S.rfl[i].val) < 2
Never_route_nil == \A x \in ActorsOf(S.plan) : S.a[x].out.t # "nil"
Never_route_evict == \A s \in Stmts : S.nrrem[s] = 0
Never_route_join == \A x \in ActorsOf(S.plan) : S.a[x].pc # "r_wait"
=============================================================================
