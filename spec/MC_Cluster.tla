----------------------------- MODULE MC_Cluster -----------------------------
(* Model-checking wrapper for Cluster.tla: the bounded alphabet of peer lists *)
(* and event batches; every history of at most MaxLevel - 1 steps is          *)
(* explored (refreshes with any new list, failing refreshes, event batches,   *)
(* nodes failing / recovering, control connection cut / re-established).      *)
EXTENDS Cluster

CONSTANTS MaxLen,     \* rows per peer list
          WithBad,    \* lists may contain invalid rows
          WithDup,    \* lists may report a host id twice (at two addresses)
          WithSplit,  \* rows may have a node-to-node address that differs from the connect address
          MaxLevel    \* histories of at most MaxLevel - 1 steps are explored

\* (a step counter in the state, not TLCGet("level"): with several workers the level of a state
\* is not its breadth-first depth and a bound on it would cut the exploration at random)
VARIABLE steps

\* the ids in a fixed order (canonical row order; ids are interchangeable)
IdSeq == <<"i1", "i2", "i3", "i4", "i5">>
Ord(i) == CHOOSE k \in 1 .. Len(IdSeq) : IdSeq[k] = i
RowSet == {[id |-> i, addr |-> a, peer |-> p, inv |-> v] :
             i \in Ids, a \in Addrs, p \in EventAddrs, v \in (IF WithBad THEN {"ok", "bad"} ELSE {"ok"})}
          \cap {r \in [id : Ids, addr : Addrs, peer : EventAddrs, inv : {"ok", "bad"}] :
                  r.peer = r.addr \/ (WithSplit /\ r.peer = Priv(r.addr))}
\* addresses events may name
EvA == IF WithSplit THEN EventAddrs ELSE AllAddrs \cup {C0peer}
\* system.peers is keyed by the peer address: rows have distinct addresses
GoodList(s) ==
  /\ \A j, k \in 1 .. Len(s) : j < k => s[j].addr # s[k].addr
  /\ \A j, k \in 1 .. Len(s) : j < k => Ord(s[j].id) <= Ord(s[k].id)
  /\ WithDup \/ \A j, k \in 1 .. Len(s) : j < k => s[j].id # s[k].id
Lists == {s \in UNION {[1 .. n -> RowSet] : n \in 0 .. MaxLen} : GoodList(s)}

Ev(k, a) == [kind |-> k, addr |-> a]
Batches ==
  {<<Ev(k, a)>> : k \in {"UP", "DOWN"}, a \in EvA}
  \cup {<<Ev("NEW_NODE", C0addr)>>, <<Ev("REMOVED_NODE", C0addr)>>}
  \cup {<<Ev("UP", a), Ev("DOWN", a)>> : a \in EvA} \cup {<<Ev("DOWN", a), Ev("UP", a)>> : a \in EvA}
  \cup {<<Ev("NEW_NODE", a), Ev(k, a)>> : k \in {"UP", "DOWN"}, a \in EvA}

Init == InitWith(<<>>) /\ steps = 0

\* One step = one driver-visible action; what the cluster reports may change together with the
\* actions that make the driver look at it (refresh, topology event, control reconnection).
Step ==
  \/ \E l \in Lists : Refresh(l, "none")
  \/ \E f \in {"local", "peers"} : \E l \in {truth, <<>>} : Refresh(l, f)
  \/ \E b \in Batches : Events(truth, b)
  \/ \E l \in Lists : Events(l, <<Ev("NEW_NODE", C0addr)>>)
  \* a topology and a status event in one batch while the report changes (one peer address
  \* stands for all: the addresses are interchangeable unless the filter names them)
  \/ \E l \in Lists : \E k \in {"UP", "DOWN"} : \E a \in ({"a1"} \cup Filt \cup (IF WithSplit THEN {"b1"} ELSE {})) :
        Events(l, <<Ev("NEW_NODE", a), Ev(k, a)>>)
  \/ \E a \in AllAddrs : NodeFail(truth, a)
  \/ \E a \in Addrs : NodeRecover(truth, a)
  \/ \E l \in Lists : NodeRecover(l, C0addr)
  \/ \E l \in Lists : ControlLost(l)
  \/ Heal(truth)
  \/ \E l \in Lists : Reconnect(l)

Next == steps < MaxLevel - 1 /\ steps' = steps + 1 /\ Step

Spec == Init /\ [][Next]_<<vars, steps>>
=============================================================================
