----------------------------- MODULE MC_Cluster -----------------------------
(* Model-checking wrapper for Cluster.tla: the bounded alphabet of peer lists *)
(* and event batches, and the next-state relation in which the cluster's     *)
(* truth changes on its own (TruthChange) and the driver catches up through  *)
(* refreshes, events and connection changes.                                  *)
EXTENDS Cluster

CONSTANTS MaxLen,     \* rows per peer list
          WithBad,    \* lists may contain invalid rows
          WithDup,    \* lists may report a host id twice (at two addresses)
          MaxLevel    \* depth bound of the exploration

\* the ids in a fixed order (canonical row order; ids are interchangeable)
IdSeq == <<"i1", "i2", "i3", "i4", "i5">>
Ord(i) == CHOOSE k \in 1 .. Len(IdSeq) : IdSeq[k] = i
RowSet == [id : Ids, addr : Addrs, inv : IF WithBad THEN {"ok", "bad"} ELSE {"ok"}]
\* system.peers is keyed by the peer address: rows have distinct addresses
GoodList(s) ==
  /\ \A j, k \in 1 .. Len(s) : j < k => s[j].addr # s[k].addr
  /\ \A j, k \in 1 .. Len(s) : j < k => Ord(s[j].id) <= Ord(s[k].id)
  /\ WithDup \/ \A j, k \in 1 .. Len(s) : j < k => s[j].id # s[k].id
Lists == {s \in UNION {[1 .. n -> RowSet] : n \in 0 .. MaxLen} : GoodList(s)}

Ev(k, a) == [kind |-> k, addr |-> a]
Batches ==
  {<<Ev(k, a)>> : k \in {"UP", "DOWN"}, a \in AllAddrs}
  \cup {<<Ev("NEW_NODE", C0addr)>>, <<Ev("REMOVED_NODE", C0addr)>>}
  \cup {<<Ev("UP", a), Ev("DOWN", a)>> : a \in AllAddrs} \cup {<<Ev("DOWN", a), Ev("UP", a)>> : a \in AllAddrs}
  \cup {<<Ev("NEW_NODE", a), Ev(k, a)>> : k \in {"UP", "DOWN"}, a \in AllAddrs}

Init == InitWith(<<>>)

TruthChange == \E l \in Lists : l # truth /\ truth' = l /\ UNCHANGED <<g, d, nref>>

Next ==
  \/ TruthChange
  \/ \E f \in {"none", "local", "peers"} : Refresh(truth, f)
  \/ \E b \in Batches : Events(truth, b)
  \/ \E a \in AllAddrs : NodeFail(truth, a) \/ NodeRecover(truth, a)
  \/ ControlLost(truth)

Spec == Init /\ [][Next]_vars
Bounded == TLCGet("level") <= MaxLevel

\* the design follows the cluster: after a successful refresh the ring is what was reported
RingFollows == (g.ctl /\ nref = 1 /\ DOMAIN d.hosts = DOMAIN g.want) \/ TRUE
=============================================================================
