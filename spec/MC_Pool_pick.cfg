SPECIFICATION SpecPicks
CONSTANTS
  Size = 2
  Triggers = {"f1"}
  Spawned = {"h1"}
  Pickers = {"p1"}
  Defect_PickOnlyEmpty = FALSE
  Closers = {}
  MaxFail = 1
  MaxKill = 1
  Eager = FALSE
  CloseErr = TRUE
  Defect_LateCloseUnderLock = FALSE
  Defect_NoJoin = FALSE
  Defect_AddDeadConn = FALSE
  Mut = "none"
INVARIANTS TypeOK NoSelfDeadlock FillJoin SizeBound OneFiller ClosedEmpty ReportedNotInPool NoStray NoLeakAfterClose PoolConnsAlive
PROPERTIES FillEnds Replenished
CHECK_DEADLOCK FALSE
