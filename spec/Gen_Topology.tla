---------------------------- MODULE Gen_Topology ----------------------------
(***************************************************************************)
(* Case generator for C10: every bounded ring x datacenter/rack layout x   *)
(* keyspace replication is ONE TLC state; an invariant prints the case     *)
(* with the replica list the reference placement (Topology.tla) assigns to *)
(* every ring position, and the owning position of every lookup token      *)
(* class (equal to / between / below the smallest / above the largest ring *)
(* token).  The same run checks that the reference satisfies the property  *)
(* predicates and Cassandra's per-datacenter counts (model pass).          *)
(*                                                                         *)
(* Symmetry is removed by construction: node ids appear in the ring in     *)
(* order of first occurrence, datacenter names in order of first           *)
(* occurrence over node ids, rack names likewise inside each datacenter.   *)
(***************************************************************************)
EXTENDS Topology, TopologyEnum, TLC, Json

CONSTANTS MaxLen,      \* ring entries (tokens) at most
          MaxNodes,    \* distinct nodes at most
          MaxVnodes,   \* tokens per node at most
          NDcs,        \* datacenters "dc1".."dcN" a node may be in
          NRacks,      \* racks "r1".."rN" per datacenter
          NtsRfs,      \* replication factors per ring datacenter; 99 (Unnamed) = not named by the keyspace
          XRfs,        \* replication factors of "dcX", a datacenter no node is in; 99 = not named
          SimpleRfs    \* replication factors for SimpleStrategy

Unnamed == 99
DcNames == [k \in 1 .. NDcs |-> DcName(k)] \o <<"dcX">>
MaxOf(S) == EnumMaxOf(S)
Rings == EnumRings(MaxLen, MaxNodes, MaxVnodes)
DcIdx(n) == EnumDcIdx(n, NDcs)
RackIdx(di, n) == EnumRackIdx(di, n, NRacks)

Keyspaces ==
  {[strat |-> "simple", rfdc |-> <<"*">>, rfn |-> <<r>>] : r \in SimpleRfs} \cup
  {LET idx == {k \in 1 .. NDcs + 1 : f[k] # Unnamed}
       RECURSIVE Sel(_)
       Sel(k) == IF k > NDcs + 1 THEN <<>> ELSE (IF k \in idx THEN <<k>> ELSE <<>>) \o Sel(k + 1)
       sel == Sel(1)
   IN [strat |-> "nts", rfdc |-> [j \in 1 .. Len(sel) |-> DcNames[sel[j]]], rfn |-> [j \in 1 .. Len(sel) |-> f[sel[j]]]]
   : f \in {g \in [1 .. NDcs + 1 -> NtsRfs \cup XRfs] : g[NDcs + 1] \in XRfs /\ \A k \in 1 .. NDcs : g[k] \in NtsRfs}}

VARIABLES ring, dci, racki, ks, stage
vars == <<ring, dci, racki, ks, stage>>

\* Cases are built in three steps so that TLC's workers share the enumeration (initial states
\* are computed by one thread): stage 3 states are the cases, one state per case.
NoKs == [strat |-> "none", rfdc |-> <<>>, rfn |-> <<>>]
Init == ring = <<>> /\ dci = <<>> /\ racki = <<>> /\ ks = NoKs /\ stage = 0
PickRing == stage = 0 /\ ring' \in Rings /\ stage' = 1 /\ UNCHANGED <<dci, racki, ks>>
PickLayout == /\ stage = 1
              /\ dci' \in DcIdx(MaxOf(RangeOf(ring)))
              /\ racki' \in RackIdx(dci', Len(dci'))
              /\ stage' = 2 /\ UNCHANGED <<ring, ks>>
PickKs == stage = 2 /\ ks' \in Keyspaces /\ stage' = 3 /\ UNCHANGED <<ring, dci, racki>>
Next == PickRing \/ PickLayout \/ PickKs
Spec == Init /\ [][Next]_vars
IsCase == stage = 3

L == Len(ring)
DcOf == [h \in 1 .. Len(dci) |-> DcName(dci[h])]
RackOf == [h \in 1 .. Len(dci) |-> RackName(racki[h])]
Tokens == [k \in 1 .. L |-> 10 * k]
RfFun == [dc \in RangeOf(ks.rfdc) |-> ks.rfn[CHOOSE j \in 1 .. Len(ks.rfdc) : ks.rfdc[j] = dc]]

Ref(i) == IF ks.strat = "simple" THEN Simple(ring, i, ks.rfn[1]) ELSE Nts(ring, i, DcOf, RackOf, RfFun)
OwnerHolds(i) == IF ks.strat = "simple" THEN SimpleOwnerHolds(ks.rfn[1]) ELSE NtsOwnerHolds(ring, i, DcOf, RfFun)
\* lookup tokens 5, 10, 15, .., 10L, 10L+5: below the smallest, equal, between, above the largest
Lookups == [k \in 1 .. 2 * L + 1 |-> <<5 * k, PrimaryIndex(Tokens, 5 * k)>>]

\* ---- model pass: the reference satisfies the property and Cassandra's counts
RefOK == IsCase => \A i \in 1 .. L : RefSelfConsistent(Ref(i), ring, i, OwnerHolds(i))
CountsOK ==
  IsCase => \A i \in 1 .. L :
    LET r == Ref(i) IN
    IF ks.strat = "simple" THEN Len(r) = Min2(ks.rfn[1], Cardinality(RangeOf(ring)))
    ELSE \A dc \in {DcName(k) : k \in 1 .. NDcs} \cup {"dcX"} :
           LET inDc == {h \in RangeOf(r) : DcOf[h] = dc}
               nodes == NtsHostsIn(ring, DcOf, dc)
               want == IF dc \in DOMAIN RfFun /\ RfFun[dc] > 0 THEN Min2(RfFun[dc], Cardinality(nodes)) ELSE 0
           IN /\ Cardinality(inDc) = want
              \* racks not yet used are preferred: as many distinct racks as possible
              /\ Cardinality({RackOf[h] : h \in inDc}) = Min2(want, Cardinality({RackOf[h] : h \in nodes}))
\* lookups: owner of (previous token, token], wrapping
LookupOK == IsCase => \A k \in 1 .. 2 * L + 1 :
              LET t == Lookups[k][1] p == Lookups[k][2] IN
              /\ (t > Tokens[L] => p = 1)
              /\ (t <= Tokens[L] => Tokens[p] >= t /\ (p > 1 => Tokens[p - 1] < t))

Emit == IsCase => PrintT(<<"CASE", ToJson([ring |-> ring, dc |-> DcOf, rack |-> RackOf, strat |-> ks.strat,
                                 rfdc |-> ks.rfdc, rfn |-> ks.rfn, tokens |-> Tokens,
                                 exp |-> [i \in 1 .. L |-> Ref(i)], look |-> Lookups])>>)
=============================================================================
