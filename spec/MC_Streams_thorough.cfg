SPECIFICATION Spec
CONSTANTS
  Words = 2
  Bits = 64
  Threads = {"t1", "t2", "t3"}
  MaxOps = 2
  InitFree = {62, 63, 64}
  InitOffset = 1
  DoubleClear = FALSE
  RaceClear = FALSE
INVARIANTS TypeOK Unique HeldMarked Range Reserved CountNonNeg CountExact AvailableExact NoFalseExhaustion ClearReports
PROPERTIES DoubleClearHarmless
