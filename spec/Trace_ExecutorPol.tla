--------------------------- MODULE Trace_ExecutorPol ---------------------------
(***************************************************************************)
(* The shipped retry policies, row by row: the harness calls GetRetryType  *)
(* of the REAL SimpleRetryPolicy / ExponentialBackoffRetryPolicy /         *)
(* DowngradingConsistencyRetryPolicy objects with every server error kind  *)
(* x write type x acknowledged / alive variant, and Attempt with every     *)
(* attempts count around the budget (IOEnv.VF_TRACE, one record per call). *)
(* Each answer is judged against the table transcribed from the policies'  *)
(* godoc in ExecutorMon.tla (DocDecision, PolAllow).  One ROWBAD line per  *)
(* row that contradicts it, one ROWS line with the number of rows judged.  *)
(***************************************************************************)
EXTENDS ExecutorMon, TLC, Json, IOUtils

Log == ndJsonDeserialize(IOEnv.VF_TRACE)
VARIABLE l
Pol(r) == [kind |-> "budget", n |-> r.poln, allow |-> {}, name |-> r.policy]
RowOk(r) ==
  CASE r.ev = "decide" -> DocDecision(r.policy, r.y) \in {"any", DecisionClass(r.x)}
    [] r.ev = "allow" -> (r.x = "yes") = PolAllow(Pol(r), r.n)
    [] OTHER -> FALSE
PInit == l = 1
PNext == /\ l <= Len(Log)
         /\ IF RowOk(Log[l]) THEN TRUE ELSE PrintT(<<"ROWBAD", ToJson(Log[l])>>)
         /\ IF l < Len(Log) THEN TRUE ELSE PrintT(<<"ROWS", l>>)
         /\ l' = l + 1
PSpec == PInit /\ [][PNext]_l
=============================================================================
