--------------------------- MODULE HandshakeAuth ---------------------------
(***************************************************************************)
(* C20, authentication machine: the start of a CQL connection after        *)
(* STARTUP, with a client configured with no authenticator / password      *)
(* credentials / a multi-step authenticator, against a server that may     *)
(* answer anything.  Predicates and constants come from Handshake.tla.     *)
(***************************************************************************)
EXTENDS Handshake

--------------------------------------------------------------------------------
(* The machine.  Server choices are nondeterministic; the client follows the rules.   *)

CONSTANTS AuthKinds,      \* subset of {"none", "pw", "chain"}
          AllowedLists,   \* sets of class names the caller may configure ({} = default)
          ServerClasses,  \* class names a server may announce
          MaxChallenges   \* AUTH_CHALLENGE frames a server sends at most

VARIABLES kind, allowed, pc, class, script, sent, nchal, outcome
hvars == <<kind, allowed, pc, class, script, sent, nchal, outcome>>

NoClass == "<none>"

HInit == /\ kind \in AuthKinds
         /\ allowed \in (IF kind = "none" THEN {{}} ELSE AllowedLists)
         /\ pc = "startup_sent"          \* OPTIONS / SUPPORTED / STARTUP done
         /\ class = NoClass
         /\ script = <<>>                \* what the server answered, in order
         /\ sent = <<>>                  \* client frames after STARTUP: "plain" | "chal"
         /\ nchal = 0
         /\ outcome = "pending"          \* "session" | "error"

Ready == /\ pc = "startup_sent"
         /\ script' = Append(script, "ready")
         /\ pc' = "done" /\ outcome' = "session"
         /\ UNCHANGED <<kind, allowed, class, sent, nchal>>

Authenticate(c) ==
  /\ pc = "startup_sent"
  /\ class' = c
  /\ script' = Append(script, "authenticate")
  /\ IF MaySendCredentials(kind, allowed, c)
     THEN /\ sent' = Append(sent, "plain")
          /\ pc' = "auth_sent" /\ outcome' = outcome
     ELSE /\ sent' = sent
          /\ pc' = "done" /\ outcome' = "error"
  /\ UNCHANGED <<kind, allowed, nchal>>

Success == /\ pc = "auth_sent"
           /\ script' = Append(script, "success")
           /\ pc' = "done" /\ outcome' = "session"
           /\ UNCHANGED <<kind, allowed, class, sent, nchal>>

\* ERROR (bad credentials) or a frame that has no business here (READY)
Refuse(what) == /\ pc = "auth_sent"
                /\ script' = Append(script, what)
                /\ pc' = "done" /\ outcome' = "error"
                /\ UNCHANGED <<kind, allowed, class, sent, nchal>>

\* PLAIN is a single-step mechanism: a password client has no answer to a challenge and gives
\* up; a multi-step authenticator answers.
Challenge == /\ pc = "auth_sent" /\ nchal < MaxChallenges
             /\ script' = Append(script, "challenge")
             /\ nchal' = nchal + 1
             /\ IF kind = "chain"
                THEN sent' = Append(sent, "chal") /\ pc' = pc /\ outcome' = outcome
                ELSE sent' = sent /\ pc' = "done" /\ outcome' = "error"
             /\ UNCHANGED <<kind, allowed, class>>

HNext == \/ Ready
         \/ \E c \in ServerClasses : Authenticate(c)
         \/ Success \/ Refuse("error") \/ Refuse("ready") \/ Challenge

HSpec == HInit /\ [][HNext]_hvars

\* ---- the property on the machine
Demanded == class # NoClass
OnlyApproved == sent # <<>> => MaySendCredentials(kind, allowed, class)
PlainFirst == sent # <<>> => sent[1] = "plain"
NoneIsRefused == (kind = "none" /\ Demanded) => (sent = <<>> /\ outcome # "session")
NothingAfterUnapproved == (Demanded /\ class \notin Approved(allowed)) => (sent = <<>> /\ outcome # "session")
SessionIsAuthenticated == outcome = "session" => (~Demanded \/ script[Len(script)] = "success")
AuthTypeOK == /\ pc \in {"startup_sent", "auth_sent", "done"}
              /\ outcome \in {"pending", "session", "error"}
              /\ (pc = "done") = (outcome # "pending")
=============================================================================
