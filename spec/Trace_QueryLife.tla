-------------------------- MODULE Trace_QueryLife --------------------------
(***************************************************************************)
(* code -> spec for X02 part 2: sequences of calls on real Query / Batch   *)
(* values (replayed TLC paths and seeded random ones) stepped through the  *)
(* handle-level machine of QueryLife.tla.                                  *)
(* Log: {"ev":"begin","id":n,"prof":"P1"|"P2"} then                        *)
(*      {"ev":"call","id":n,"n":k,"call":{op,h,a},"res":{ret,reqs,calls,   *)
(*       tracer,traced,att,lat},"proj":{q,c,b}}                            *)
(* Every call is judged against Res (field by field, as far as `judge`     *)
(* says the result is decided) and Proj; a call that is not enabled in the *)
(* model (~En: budget of the model exceeded or not decided by the          *)
(* documentation) ends the judgement of the sequence (skip).               *)
(***************************************************************************)
EXTENDS QueryLife, Json, IOUtils, TLCExt

Log == ndJsonDeserialize(IOEnv.VF_TRACE)
VARIABLES l, on, out
tvars == <<L, last, mem, pool, obj, nobj, l, on, out>>

Verdict(k, id, n, c, what) == [k |-> k, id |-> id, n |-> n, op |-> c.op, h |-> c.h, a |-> c.a, what |-> what]

\* first differing request field
WireFields == <<"op", "stmt", "vals", "cons", "skip", "psize", "pstate", "serial", "ts", "tracing", "payload", "btype", "n", "kinds", "counts">>
WireDiff(a, e) == LET d == {i \in 1 .. Len(WireFields) : a[WireFields[i]] # e[WireFields[i]]} IN
                  IF d = {} THEN "" ELSE WireFields[CHOOSE i \in d : \A j \in d : i <= j]
ReqsDiff(a, e) == IF Len(a) # Len(e) THEN "request-count"
                  ELSE LET d == {i \in 1 .. Len(a) : WireDiff(a[i], e[i]) # ""} IN
                       IF d = {} THEN "" ELSE "request:" \o WireDiff(a[CHOOSE i \in d : TRUE], e[CHOOSE i \in d : TRUE])
ObsFields == <<"who", "stmts", "vals", "rows", "err", "att", "host">>
ObsDiff(a, e) == LET d == {i \in 1 .. Len(ObsFields) : a[ObsFields[i]] # e[ObsFields[i]]} IN
                 IF d = {} THEN "" ELSE ObsFields[CHOOSE i \in d : \A j \in d : i <= j]
CallsDiff(a, e) == IF Len(a) # Len(e) THEN "observer-call-count"
                   ELSE LET d == {i \in 1 .. Len(a) : ObsDiff(a[i], e[i]) # ""} IN
                        IF d = {} THEN "" ELSE "observer:" \o ObsDiff(a[CHOOSE i \in d : TRUE], e[CHOOSE i \in d : TRUE])

ResDiff(a, e) ==
  IF e.judge = "none" THEN ""
  ELSE IF a.ret # e.ret THEN "ret"
  ELSE IF ReqsDiff(a.reqs, e.reqs) # "" THEN ReqsDiff(a.reqs, e.reqs)
  ELSE IF e.judge # "all" THEN ""
  ELSE IF CallsDiff(a.calls, e.calls) # "" THEN CallsDiff(a.calls, e.calls)
  ELSE IF e.first >= 0 /\ a.first # e.first THEN "observer:first-attempt-index"
  ELSE IF a.tracer # e.tracer \/ a.traced # e.traced THEN "tracer"
  ELSE IF e.att >= 0 /\ a.att # e.att THEN "Attempts"
  ELSE IF e.att >= 0 /\ a.lat # e.lat THEN "Latency"
  ELSE ""

QFields == <<"live", "stmt", "vals", "cons", "idem", "ctx", "att", "rkey">>
QDiff(a, e) == IF ~e.live THEN ""
               ELSE LET d == {i \in 1 .. Len(QFields) : a[QFields[i]] # e[QFields[i]] /\ ~(QFields[i] = "att" /\ e.att < 0)} IN
                    IF d = {} THEN "" ELSE QFields[CHOOSE i \in d : \A j \in d : i <= j]
BFields == <<"live", "size", "cons", "att">>
BDiff(a, e) == IF ~e.live THEN ""
               ELSE LET d == {i \in 1 .. Len(BFields) : a[BFields[i]] # e[BFields[i]] /\ ~(BFields[i] = "att" /\ e.att < 0)} IN
                    IF d = {} THEN "" ELSE BFields[CHOOSE i \in d : \A j \in d : i <= j]
ProjDiff(a, e) == IF QDiff(a.q, e.q) # "" THEN "q." \o QDiff(a.q, e.q)
                  ELSE IF QDiff(a.c, e.c) # "" THEN "copy." \o QDiff(a.c, e.c)
                  ELSE IF BDiff(a.b, e.b) # "" THEN "batch." \o BDiff(a.b, e.b) ELSE ""

TInit == /\ L = L0("P1") /\ last = [call |-> Call("-", "-", "-"), res |-> NoRes]
         /\ mem = [o \in Objs |-> Zero] /\ pool = {} /\ obj = [q |-> 0, c |-> 0] /\ nobj = 0
         /\ l = 1 /\ on = FALSE /\ out = <<>>

TNext ==
  /\ l <= Len(Log)
  /\ l' = l + 1
  /\ UNCHANGED <<mem, pool, obj, nobj>>
  /\ LET rec == Log[l] IN
     IF rec.ev = "begin" THEN
       /\ L' = L0(rec.prof) /\ on' = TRUE /\ out' = <<>> /\ UNCHANGED last
     ELSE IF ~on THEN UNCHANGED <<L, last, on>> /\ out' = <<>>
     ELSE LET c == rec.call IN
       IF ~(c \in Calls /\ En(L, c))
       THEN /\ on' = FALSE /\ out' = <<Verdict("skip", rec.id, rec.n, c, "call-outside-the-model")>> /\ UNCHANGED <<L, last>>
       ELSE LET e == Res(L, c)
                L2 == Aft(L, c)
                rd == ResDiff(rec.res, e)
                pd == ProjDiff(rec.proj, Proj(L2))
                vs == (IF rd # "" THEN <<Verdict("viol", rec.id, rec.n, c, "exec:" \o rd)>> ELSE <<>>) \o
                      (IF rd = "" /\ pd # "" THEN <<Verdict("viol", rec.id, rec.n, c, "getter:" \o pd)>> ELSE <<>>)
            IN /\ L' = L2
               /\ last' = [call |-> c, res |-> e]
               /\ out' = vs
               /\ on' = (vs = <<>>)
TSpec == TInit /\ [][TNext]_tvars

Report == \A i \in 1 .. Len(out) : PrintT(<<"MONOUT", ToJson(out[i])>>)
Finished == l <= Len(Log) \/ PrintT(<<"MONDONE", l - 1>>)
=============================================================================
