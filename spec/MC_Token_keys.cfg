INIT InitKeys
NEXT Next
INVARIANT EmitKey
CHECK_DEADLOCK FALSE
