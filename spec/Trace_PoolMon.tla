--------------------------- MODULE Trace_PoolMon ---------------------------
(***************************************************************************)
(* Evaluates the C17 pool and session-end invariants on executions         *)
(* recorded from the real code: the p_* hook events of every hostConnPool  *)
(* (fired inside the pool's critical sections, so their order is the order *)
(* of the critical sections), the harness' snapshots at quiescence, and    *)
(* the observations made after Session.Close returned.  Several runs are   *)
(* concatenated ("init" records).  A deterministic monitor: one record per *)
(* step, the verdict of the step in `bad`, printed as MONVIOL.             *)
(*                                                                         *)
(* Record fields: sched, k, ev, obj (pool), a (hook argument), size,       *)
(* closed, conns, open, dead (snapshots), gor, q (session end).            *)
(***************************************************************************)
EXTENDS Integers, Sequences, FiniteSets, TLC, Json, IOUtils

Log == ndJsonDeserialize(IOEnv.VF_TRACE)
ToSet(s) == {s[i] : i \in 1 .. Len(s)}
MaxObj == 256
Objs == 0 .. MaxObj

VARIABLES l, cnt, fil, clo, bad, drift
vars == <<l, cnt, fil, clo, bad, drift>>

Init == /\ l = 1
        /\ cnt = [o \in Objs |-> 0]
        /\ fil = [o \in Objs |-> FALSE]
        /\ clo = [o \in Objs |-> FALSE]
        /\ bad = "none"
        /\ drift = "none"

Cur == Log[l]
O == IF Cur.obj \in Objs THEN Cur.obj ELSE 0

Step ==
  LET e == Cur.ev
      o == O
      conns == ToSet(Cur.conns)
      open == ToSet(Cur.open)
      dead == ToSet(Cur.dead)
  IN
  CASE e = "init" ->
         /\ cnt' = [x \in Objs |-> 0] /\ fil' = [x \in Objs |-> FALSE] /\ clo' = [x \in Objs |-> FALSE]
         /\ bad' = "none" /\ drift' = "none"
    [] e = "p_fill_begin" ->
         /\ fil' = [fil EXCEPT ![o] = TRUE]
         /\ bad' = IF fil[o] THEN "OneFiller" ELSE IF clo[o] THEN "FillAfterClose" ELSE "none"
         /\ drift' = IF Cur.a # cnt[o] THEN "count" ELSE "none"
         /\ UNCHANGED <<cnt, clo>>
    [] e = "p_fill_end" ->
         /\ fil' = [fil EXCEPT ![o] = FALSE]
         /\ bad' = IF Cur.a > Cur.size THEN "SizeBound" ELSE "none"
         /\ drift' = IF ~fil[o] THEN "fill_end_without_begin" ELSE "none"
         /\ UNCHANGED <<cnt, clo>>
    [] e = "p_connect_add" ->
         /\ cnt' = [cnt EXCEPT ![o] = @ + 1]
         /\ bad' = IF Cur.a > Cur.size \/ cnt[o] + 1 > Cur.size THEN "SizeBound"
                   ELSE IF clo[o] THEN "ClosedEmpty" ELSE "none"
         /\ drift' = IF Cur.a # cnt[o] + 1 THEN "count" ELSE "none"
         /\ UNCHANGED <<fil, clo>>
    [] e = "p_connect_late" ->
         /\ bad' = "none"
         /\ drift' = IF ~clo[o] THEN "late_without_close" ELSE "none"
         /\ UNCHANGED <<cnt, fil, clo>>
    [] e = "p_handle_error" ->
         /\ cnt' = [cnt EXCEPT ![o] = @ - 1]
         /\ bad' = IF clo[o] THEN "ClosedEmpty" ELSE "none"
         /\ drift' = IF Cur.a # cnt[o] - 1 THEN "count" ELSE "none"
         /\ UNCHANGED <<fil, clo>>
    [] e = "p_close" ->
         /\ clo' = [clo EXCEPT ![o] = TRUE]
         /\ cnt' = [cnt EXCEPT ![o] = 0]
         /\ bad' = IF Cur.a > Cur.size THEN "SizeBound" ELSE IF clo[o] THEN "CloseTwice" ELSE "none"
         /\ drift' = IF Cur.a # cnt[o] THEN "count" ELSE "none"
         /\ UNCHANGED fil
    [] e = "h_end" ->      \* snapshot of one pool at quiescence
         /\ bad' = IF Cardinality(conns) > Cur.size THEN "SizeBound"
                   ELSE IF Cur.closed /\ conns # {} THEN "ClosedEmpty"
                   ELSE IF dead \cap conns # {} THEN (IF Cur.q = "killed-before-add" THEN "ReportedNotInPool_AddedDead"
                                                      ELSE "ReportedNotInPool_NotRemoved")
                   ELSE IF Cur.closed /\ open # {} THEN "NoLeakAfterClose"
                   ELSE IF ~Cur.closed /\ ~(open \subseteq conns) THEN "NoStray"
                   ELSE IF ~Cur.closed /\ ~(conns \subseteq open) THEN "PoolConnsAlive"
                   ELSE "none"
         /\ drift' = "none"
         /\ UNCHANGED <<cnt, fil, clo>>
    [] e = "h_lock_dead" ->   \* pool.mu could not be taken any more: a pool method waits for the lock it holds
         /\ bad' = "NoSelfDeadlock" /\ drift' = "none"
         /\ UNCHANGED <<cnt, fil, clo>>
    [] e = "h_fill_stuck" ->  \* pool.filling stayed TRUE although no fill is in progress: the pool is never refilled
         /\ bad' = "FillEnds" /\ drift' = "none"
         /\ UNCHANGED <<cnt, fil, clo>>
    [] e = "h_host_conns" ->  \* dialer's view at quiescence: open pool connections to one host (a) vs NumConns (size)
         /\ bad' = IF Cur.a > Cur.size THEN "HostBound"
                   ELSE IF Cur.a > 0 /\ Cur.q = "no-pool-in-map" THEN "NoOrphanPool" ELSE "none"
         /\ drift' = "none"
         /\ UNCHANGED <<cnt, fil, clo>>
    [] e = "h_host_closed" -> \* after removeHost: connections to the host still open
         /\ bad' = IF Cur.a > 0 THEN "NoOrphanPool" ELSE "none"
         /\ drift' = "none"
         /\ UNCHANGED <<cnt, fil, clo>>
    [] e = "h_replenish" ->   \* queries kept arriving after the schedule: connections of an open pool (a) vs its size
         /\ bad' = IF ~Cur.closed /\ Cur.a < Cur.size THEN "Replenished"
                   ELSE IF Cur.a > Cur.size THEN "SizeBound" ELSE "none"
         /\ drift' = "none"
         /\ UNCHANGED <<cnt, fil, clo>>
    [] e = "h_final" ->    \* the pool has been closed and everything has settled
         /\ bad' = IF open # {} THEN "NoLeakAfterClose" ELSE IF conns # {} THEN "ClosedEmpty" ELSE "none"
         /\ drift' = "none"
         /\ UNCHANGED <<cnt, fil, clo>>
    [] e = "s_end" ->      \* every Session.Close call returned (or not); observations after a bounded wait
         /\ bad' = IF Cur.q = "unsure" THEN "none"     \* an observation that could not be settled: no verdict
                   ELSE IF Cur.q = "hang" THEN "CloseReturns"
                   ELSE IF open # {} THEN "AllConnsClosedAfterClose"
                   ELSE IF Cur.q = "caller-stuck" THEN "CallersReturn"
                   ELSE IF Cur.q # "session-closed" THEN "QueryAfterClose"
                   ELSE "none"
         /\ drift' = "none"
         /\ UNCHANGED <<cnt, fil, clo>>
    [] e = "b_end" ->      \* all sessions of a batch are closed: driver goroutines still alive after a bounded wait
         /\ bad' = IF Cur.gor > 0 THEN "GoroutinesExit" ELSE "none"
         /\ drift' = "none"
         /\ UNCHANGED <<cnt, fil, clo>>
    [] e = "d_end" ->      \* a behaviour replayed on a refreshDebouncer: did every stop() return
         /\ bad' = IF Cur.q = "hang" THEN "StopReturns"
                   ELSE IF Cur.q = "listener-stuck" THEN "RequesterAnswered" ELSE "none"
         /\ drift' = "none"
         /\ UNCHANGED <<cnt, fil, clo>>
    [] e = "h_ctx_cancelled_before_pool_close" ->   \* mechanism of Close's fixed order, not a property clause
         /\ bad' = "none" /\ drift' = "cancel_before_pools"
         /\ UNCHANGED <<cnt, fil, clo>>
    [] OTHER ->
         /\ bad' = "none" /\ drift' = "none"
         /\ UNCHANGED <<cnt, fil, clo>>

Next == /\ l <= Len(Log)
        /\ Step
        /\ l' = l + 1
Spec == Init /\ [][Next]_vars

Report ==
  /\ bad # "none" => PrintT(<<"MONVIOL", ToJson([kind |-> bad, line |-> l - 1, sched |-> Log[l - 1].sched,
                                                   k |-> Log[l - 1].k, ev |-> Log[l - 1].ev])>>)
  /\ drift # "none" => PrintT(<<"MONDRIFT", ToJson([kind |-> drift, line |-> l - 1, sched |-> Log[l - 1].sched,
                                                     k |-> Log[l - 1].k, ev |-> Log[l - 1].ev])>>)
  /\ l = Len(Log) + 1 => PrintT(<<"MONDONE", ToJson([lines |-> Len(Log)])>>)
=============================================================================
