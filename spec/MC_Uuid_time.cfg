INIT InitTime
NEXT Next
INVARIANT EmitTime
CHECK_DEADLOCK FALSE
