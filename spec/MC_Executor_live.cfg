SPECIFICATION FairSpec
CONSTANTS
  MaxE = 3
  Configs <- CfgLive
  KeepHist = FALSE
  GateAtomic = FALSE
  NonIdemRetry = FALSE
INVARIANTS NoViolation
PROPERTIES Terminates
