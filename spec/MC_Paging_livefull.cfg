SPECIFICATION FairSpec
CONSTANTS
  MaxPages = 4
  MaxRows = 3
  Quarters = {0, 1, 2, 4}
  Kinds = {"Scan", "Scanner", "MapScan", "SliceMap"}
  ManualQuarters = {1}
  Plans <- PlansSingle
INVARIANTS TypeOK
PROPERTIES Terminates
CHECK_DEADLOCK FALSE
