SPECIFICATION Spec
CONSTANTS
  Profiles = {"P1", "P2"}
  StmtSet = {"p2", "b2"}
  CopySetters <- Setters
  MaxSets = 1
  MaxLives = 2
  MaxExecs = 1
  WithBatch = FALSE
  PoolVariant = "ok"
INVARIANTS TypeOK FreshAndOwn NewIsDefaults OnePerAttempt NothingSent SettersReachWire
PROPERTIES AttemptsCount
CHECK_DEADLOCK FALSE
