-------------------------- MODULE Trace_ExecutorMon --------------------------
(***************************************************************************)
(* The property monitor of ExecutorMon.tla stepped over executions         *)
(* recorded from the REAL queryExecutor (every trace of the file, whether  *)
(* or not it conforms to Executor.tla): the property clauses are evaluated *)
(* after every recorded event; one MON line per trace with the keys raised *)
(* and the index of the first event that raised one.                       *)
(***************************************************************************)
EXTENDS ExecutorMon, TLC, Json, IOUtils

Log == ndJsonDeserialize(IOEnv.VF_TRACE)
NLog == Len(Log)
ToSet(s) == {s[i] : i \in 1 .. Len(s)}

VARIABLES l, tid, c, m, first
mvars == <<l, tid, c, m, first>>

CfgOf(b) == [hosts |-> b.hosts, pol |-> [kind |-> b.polkind, n |-> b.poln, allow |-> ToSet(b.allow), name |-> b.policy],
             k |-> b.k, idem |-> b.idem, wire |-> b.wire]
BlankCfg == [hosts |-> <<>>, pol |-> [kind |-> "none", n |-> 0, allow |-> {}, name |-> "none"], k |-> 0, idem |-> FALSE, wire |-> FALSE]
Proj(r) == Ev(r.ev, r.e, r.h, r.n, r.x, r.y)

MInit == l = 1 /\ tid = 0 /\ c = BlankCfg /\ m = MonInit /\ first = 0

MNext ==
  /\ l <= NLog
  /\ l' = l + 1
  /\ CASE Log[l].ev = "begin" ->
            /\ tid' = Log[l].id /\ c' = CfgOf(Log[l]) /\ m' = MonInit /\ first' = 0
       [] Log[l].ev = "endtrace" ->
            /\ PrintT(<<"MON", ToJson([id |-> tid, viol |-> m.viol, first |-> first, sent |-> m.sent,
                                      execs |-> Cardinality(m.execs)])>>)
            /\ tid' = 0 /\ c' = BlankCfg /\ m' = MonInit /\ first' = 0
       [] OTHER ->
            LET m1 == MonStep(m, Proj(Log[l]), c) IN
            /\ m' = m1 /\ UNCHANGED <<tid, c>>
            /\ first' = IF first = 0 /\ m1.viol # {} THEN l ELSE first
MSpec == MInit /\ [][MNext]_mvars
=============================================================================
