SPECIFICATION Spec
CONSTANTS
  MaxLen = 6
  MaxNodes = 4
  MaxVnodes = 2
  NDcs = 2
  NRacks = 3
  NtsRfs = {99, 0, 1, 2, 3}
  XRfs = {99, 0, 1}
  SimpleRfs = {0, 1, 2, 3, 4, 5}
INVARIANTS RefOK CountsOK LookupOK Emit
CHECK_DEADLOCK FALSE
