SPECIFICATION TSpec
CONSTANTS
  Keyspaces = {"k1", "k2"}
  MaxVer = 9
  AbsentVers = {}
  NoTableVers = {}
  Plans = {}
  MaxFail = 0
  MaxDown = 0
  MaxRoute = 1
  PkFromPrepare = FALSE
  TakeAll = FALSE
  KsFailureIsNotExist = FALSE
  DefectNoConnCached = FALSE
  Variant = "ok"
INVARIANT Report
CHECK_DEADLOCK FALSE
