INIT InitRest
NEXT Next
INVARIANT EmitRest
CHECK_DEADLOCK FALSE
