----------------------------- MODULE Gen_Paging -----------------------------
(***************************************************************************)
(* Case generator for C15: every bounded scenario of Paging.tla combined   *)
(* with the request variants of the driver (plain QUERY / EXECUTE of a     *)
(* prepared statement without or with bound values; result metadata        *)
(* skipped or not; page size) is ONE TLC state.  An invariant prints the   *)
(* case together with what the property demands of it (request chain,      *)
(* rows, the way the iteration ends, the state to expose), computed by the *)
(* operators of Paging.tla that the exhaustive model check ties to the     *)
(* paging machine (FinalMatchesExpectation).                               *)
(***************************************************************************)
EXTENDS Paging, TLC, Json

CONSTANTS AllVariants,   \* TRUE: every single-iteration scenario x every variant; FALSE: one variant each, rotating
          MultiEvery,    \* one scenario in MultiEvery is also run with re-execution plans ...
          MultiPlans,    \* ... this many of them (rotating through PlanSeq)
          OptEvery,      \* one single-iteration scenario in OptEvery is also run with an execution option set
          ConcEvery,     \* one multi-request scenario in ConcEvery is also run by Conc goroutines at once, all
          Conc,          \* iterating the SAME prepared statement, each with its own bound key
          PinEvery       \* one automatically paged multi-page scenario in PinEvery is also run pinned to one connection
                         \* (Conn.query, the path of the control connection's queries) of a two-node session

VARIABLE variant

Preps == <<"query", "exec0", "exec2">>
\* rebind: the caller calls q.Bind(values...) (and PageState(s) again in manual mode) before executions 2, 3
Variants == {[prep |-> Preps[i], skip |-> k, rebind |-> 0, opt |-> "none", conc |-> 1, pin |-> "no"] : i \in 1 .. 3, k \in {0, 1}}
VariantNo(i) == [prep |-> Preps[(i % 3) + 1], skip |-> (i \div 3) % 2, rebind |-> 0, opt |-> "none", conc |-> 1, pin |-> "no"]

\* Execution options of the Query. None of them changes what the property demands of the iteration:
\* a serial consistency, speculative execution armed (idempotent query), a retry policy, WithContext (cancelled
\* / timing out long after the end), an observer, tracing, a caller-chosen timestamp, a custom payload, and
\* "release": q.Release() as soon as Iter() has returned, other queries then built from the pool.
\* retry / retryignore / retrynext / retrysame: a RetryPolicy whose verdict on a failed page is Rethrow / Ignore /
\* RetryNextHost / Retry (once, on the same host): whatever the verdict, a page fetch that stays failed is the
\* iteration's error (what the retries themselves look like is C13's; a repeated request of the failed page is
\* logged as `retry`, not as a page request)
Opts == <<"serial", "spec", "release", "retry", "retryignore", "ctx", "trace", "retrynext", "ts", "ctxto", "retrysame",
          "observer", "payload">>
OptsReexec == <<"none", "serial", "spec", "none", "retry", "ctx", "retryignore", "trace", "none", "ts", "payload", "retrysame">>   \* (a released Query is not executed again)

\* the same Query value executed two or three times: after a complete iteration, after stopping early
PlanSeq == << <<-1, -1>>, <<0, -1>>, <<1, -1>>, <<2, -1, -1>>, <<-1, 1, -1>>, <<-1, -1, -1>> >>
GenPlans == {<<-1>>} \cup {PlanSeq[i] : i \in 1 .. Len(PlanSeq)}

RECURSIVE SumOf(_)
SumOf(sq) == IF sq = <<>> THEN 0 ELSE Head(sq) + SumOf(Tail(sq))
RECURSIVE MaxOfSeq(_)
MaxOfSeq(sq) == IF sq = <<>> THEN 0 ELSE Max2(Head(sq), MaxOfSeq(Tail(sq)))
KindNo(k) == CASE k = "Scan" -> 0 [] k = "Scanner" -> 1 [] k = "MapScan" -> 2 [] OTHER -> 3
Rot(sc) == (SumOf(sc.pages) * 5 + Len(sc.pages) + sc.q + KindNo(sc.kind) * 2 + sc.fail * 3 + sc.start) % 6
Rot2(sc) == SumOf(sc.pages) * 7 + Len(sc.pages) * 3 + sc.q + KindNo(sc.kind) * 5 + sc.fail * 2 + sc.start
Rot3(sc) == SumOf(sc.pages) * 3 + Len(sc.pages) * 11 + sc.q * 5 + KindNo(sc.kind) * 7 + sc.fail + sc.start * 13

\* any page size at least as large as the largest page (the scripted node never sends more)
\* ... and page size 0 (no page size in the request: the node pages as it sees fit and the paging states still have to
\* travel) for one scenario in five
SizeOf(sc) == IF Rot2(sc) % 5 = 3 THEN 0 ELSE Max2(1, MaxOfSeq(sc.pages)) + (Len(sc.pages) % 2) * 100

VariantsFor(sc) ==
  IF Len(sc.plan) = 1
  THEN (IF AllVariants THEN Variants ELSE {VariantNo(Rot(sc))}) \cup
       (IF Rot3(sc) % OptEvery = 0
        THEN {[VariantNo(Rot2(sc) \div 2) EXCEPT !.opt = Opts[((Rot3(sc) \div OptEvery) % Len(Opts)) + 1]]}
        ELSE {}) \cup
       \* concurrent iterations of one prepared statement (told apart by the bound key: EXECUTE with values), results
       \* with a page that announces a successor, metadata skipped or not
       (IF (Len(sc.pages) > 1 \/ sc.mode = "manual") /\ Rot3(sc) % ConcEvery = 1 % ConcEvery
        THEN {[prep |-> "exec2", skip |-> IF Rot2(sc) % 4 = 0 THEN 0 ELSE 1, rebind |-> 0, opt |-> "none", conc |-> Conc, pin |-> "no"]}
        ELSE {}) \cup
       \* pinned to a connection: the failing page fails by an ERROR answer ("error") or because the pinned
       \* connection is lost after the page before it ("lost": needs a page before it)
       (IF sc.mode = "auto" /\ Len(sc.pages) > 1 /\ Rot3(sc) % PinEvery = 2 % PinEvery
        THEN {[prep |-> "query", skip |-> 0, rebind |-> 0, opt |-> "none", conc |-> 1,
               \* (lost: the caller sees to it after the last row of the page before - which must have one - and there
               \*  must be no prefetch that could already have asked for the page)
               pin |-> IF sc.fail >= 2 /\ sc.pages[sc.fail - 1] >= 1 /\ (sc.q = 0 \/ sc.kind = "Scanner")
                          /\ sc.kind # "SliceMap" THEN "lost" ELSE "error"]}
        ELSE {})
  ELSE IF Rot2(sc) % MultiEvery = 0
            /\ \E j \in 0 .. MultiPlans - 1 : sc.plan = PlanSeq[((Rot2(sc) \div MultiEvery + j * 3) % Len(PlanSeq)) + 1]
       \* rebind 1: q.Bind(values) and (manual mode) PageState(s) again before executions 2, 3;  2: q.Bind(values)
       \* only - the Query then holds no paging state any more (a paging state is only sent if the caller supplied
       \* it or the previous page carried it; the caller supplied it for the arguments bound before)
       THEN {[VariantNo(Rot2(sc) \div 2) EXCEPT !.rebind = (Rot2(sc) \div 3) % 3,
                                                !.opt = OptsReexec[(Rot3(sc) % Len(OptsReexec)) + 1]]}
       ELSE {}

GenInit == /\ PickScenario
           /\ state = InitState(scen)
           /\ variant \in VariantsFor(scen)
GenNext == UNCHANGED <<scen, state, variant>>
GenSpec == GenInit /\ [][GenNext]_<<scen, state, variant>>

\* the scenario execution e of the plan is an iteration of
ScenAt(sc, v, e) == IF e > 1 /\ v.rebind = 2 /\ sc.mode = "manual" THEN [sc EXCEPT !.start = 0]
                    ELSE IF v.pin = "lost"
                    THEN [pages |-> sc.pages, q |-> sc.q, kind |-> sc.kind, fail |-> sc.fail, mode |-> sc.mode,
                          start |-> sc.start, plan |-> sc.plan, fkind |-> "lost"]
                    ELSE sc

Emit ==
  PrintT(<<"CASE", ToJson(
    [pages |-> scen.pages, q |-> scen.q, kind |-> scen.kind, fail |-> scen.fail, mode |-> scen.mode,
     start |-> scen.start, plan |-> scen.plan, prep |-> variant.prep, skip |-> variant.skip,
     rebind |-> variant.rebind, opt |-> variant.opt, conc |-> variant.conc, pin |-> variant.pin, size |-> SizeOf(scen),
     exp |-> [reqs |-> ExpReqs(scen), rows |-> ExpRows(scen), delivered |-> ExpDelivered(scen),
              ended |-> ExpEnd(scen), err |-> ExpErr(scen), exposed |-> ExpExposed(scen),
              execs |-> [e \in 1 .. Len(scen.plan) |->
                          LET sc == ScenAt(scen, variant, e) IN
                          [stop |-> StopOf(sc, e), start |-> sc.start, rows |-> ExpExecRows(sc, e),
                           ended |-> ExpExecEnd(sc, e), reqs |-> ExpReqs(sc), err |-> ExpErr(sc),
                           exposed |-> ExpExposed(sc)]]]])>>)
=============================================================================
