----------------------------- MODULE Gen_Paging -----------------------------
(***************************************************************************)
(* Case generator for C15: every bounded scenario of Paging.tla combined   *)
(* with the request variants of the driver (plain QUERY / EXECUTE of a     *)
(* prepared statement without or with bound values; result metadata        *)
(* skipped or not; page size) is ONE TLC state.  An invariant prints the   *)
(* case together with what the property demands of it (request chain,      *)
(* rows, the way the iteration ends, the state to expose), computed by the *)
(* operators of Paging.tla that the exhaustive model check ties to the     *)
(* paging machine (FinalMatchesExpectation).                               *)
(***************************************************************************)
EXTENDS Paging, TLC, Json

CONSTANT AllVariants   \* TRUE: every scenario x every variant; FALSE: one variant per scenario, rotating

VARIABLE variant

Preps == <<"query", "exec0", "exec2">>
Variants == {[prep |-> Preps[i], skip |-> k] : i \in 1 .. 3, k \in {0, 1}}
VariantNo(i) == [prep |-> Preps[(i % 3) + 1], skip |-> (i \div 3) % 2]

RECURSIVE SumOf(_)
SumOf(sq) == IF sq = <<>> THEN 0 ELSE Head(sq) + SumOf(Tail(sq))
RECURSIVE MaxOfSeq(_)
MaxOfSeq(sq) == IF sq = <<>> THEN 0 ELSE Max2(Head(sq), MaxOfSeq(Tail(sq)))
KindNo(k) == CASE k = "Scan" -> 0 [] k = "Scanner" -> 1 [] k = "MapScan" -> 2 [] OTHER -> 3
Rot(sc) == (SumOf(sc.pages) * 5 + Len(sc.pages) + sc.q + KindNo(sc.kind) * 2 + sc.fail * 3 + sc.start) % 6

\* any page size at least as large as the largest page (the scripted node never sends more)
SizeOf(sc) == Max2(1, MaxOfSeq(sc.pages)) + (Len(sc.pages) % 2) * 100

GenInit == /\ PickScenario
           /\ state = InitState(scen)
           /\ variant \in IF AllVariants THEN Variants ELSE {VariantNo(Rot(scen))}
GenNext == UNCHANGED <<scen, state, variant>>
GenSpec == GenInit /\ [][GenNext]_<<scen, state, variant>>

Emit ==
  PrintT(<<"CASE", ToJson(
    [pages |-> scen.pages, q |-> scen.q, kind |-> scen.kind, fail |-> scen.fail, mode |-> scen.mode,
     start |-> scen.start, prep |-> variant.prep, skip |-> variant.skip, size |-> SizeOf(scen),
     exp |-> [reqs |-> ExpReqs(scen), rows |-> ExpRows(scen), delivered |-> ExpDelivered(scen),
              ended |-> ExpEnd(scen), err |-> ExpErr(scen), exposed |-> ExpExposed(scen)]])>>)
=============================================================================
