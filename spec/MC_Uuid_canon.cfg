INIT InitCanon
NEXT Next
INVARIANT EmitCanon
CHECK_DEADLOCK FALSE
