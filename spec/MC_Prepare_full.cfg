\* Every interleaving, 3 executors, cache size 1 (checks/c14.py generates its configurations; this is "full_lru1").
SPECIFICATION Spec
CONSTANTS
  Execs = {"e1", "e2", "e3"}
  Arity <- MCArity
  MaxLRU = 1
  MaxForget = 1
  MaxFail = 1
  Cancellable = {}
  MaxReprepare = 3
  UniqueIds = TRUE
  Plans <- PlansCore
INVARIANTS Bounded PreparedOnce FailedNotCached FailedReported ExecAttribution ArityChecked Justified NoStuck
CHECK_DEADLOCK FALSE
