SPECIFICATION SpecSafety
CONSTANTS
  r1 = r1
  r2 = r2
  r3 = r3
  Req = {r1, r2}
  Sid = {1, 2}
  HasTimer = TRUE
  AllowCancel = TRUE
  AllowBuildFail = TRUE
  AllowWriteFail = TRUE
  AllowSrvClose = TRUE
  AllowSilent = TRUE
  AllowExtClose = TRUE
  MaxUnsolicited = 0
  MaxAnswers = 1
  HBReq = {}
  HBMaxFail = 1
  TimeoutLimit = 0
  Mut = "none"
SYMMETRY Perm2
INVARIANTS TypeOK NoMisroute NoReuseWhileOutstanding UniqueHold NoDupRefusal OutcomeAllowed ReleaseOnce Conservation NoLeak
PROPERTIES OutcomeOnce
