SPECIFICATION Spec
CONSTANTS
  Closers = {"k1"}
  Requesters = {"r1"}
  MaxDebounce = 0
  MaxEvents = 0
  MaxProbeFail = 0
  MaxCtlFail = 1
  MaxAddHost = 0
  OnlyDebouncer = FALSE
  WithControl = TRUE
  Defect_StopHandshake = FALSE
  Defect_HeartbeatStart = FALSE
  Defect_LatePool = FALSE
  Defect_ReconnectWindow = TRUE
  Defect_EvStopUnderLock = FALSE
  Defect_EvSyncCallback = FALSE
  EvEager = FALSE
  Defect_CloseHoldsStateLock = FALSE
  Defect_QuitNonBlocking = FALSE
  Defect_ReconnectInline = FALSE
  Mut = "none"
INVARIANTS TypeOK NoPanic AllClosedAfterClose QueryAfterClose CancelAfterPools
