---------------------------- MODULE Gen_Prepare ----------------------------
(***************************************************************************)
(* spec -> code for C14: behaviours of Prepare.tla in a form the harness   *)
(* can force onto the real code.                                           *)
(*                                                                         *)
(* The harness controls the ENVIRONMENT (when an executor starts, when a   *)
(* node answers a PREPARE / EXECUTE and how, when a node forgets, when a   *)
(* context ends) and two GATES inside the driver (the PREPARE winner is    *)
(* parked between receiving the answer and publishing it = FlightDone; an  *)
(* executor is parked between receiving UNPREPARED and evictPreparedID =   *)
(* Evict).  Everything else the driver does by itself as soon as it can.   *)
(* GenNext therefore gives the driver's own steps priority: a command step *)
(* is taken only in a state where no internal step is enabled, so that     *)
(* every state in which a command is issued is one the real code reaches   *)
(* and rests in.  `last` records the step taken; Emit prints it with the   *)
(* projection of the state the harness can observe.                        *)
(***************************************************************************)
EXTENDS MC_Prepare, Json, TLCExt

VARIABLES last, proj, hist, lost   \* lost: flights whose PREPARE was given up by PrepLost
gvars == <<S, last, proj, hist, lost>>

Act(a, e, f, k, kind) == [a |-> a, e |-> e, f |-> f, k |-> k, kind |-> kind]
NoAct == Act("Init", "-", 0, NoKey, "-")

\* the driver's own steps
Internal(T) ==
  {Act("Lookup", e, 0, NoKey, "-") : e \in {e \in EX(T) : LookupEn(T, e) /\ T.ex[e].started}} \cup
  {Act("SendPrepare", "-", f, NoKey, "-") : f \in {f \in Flights(T) : SendPrepareEn(T, f)}} \cup
  {Act("WaiterWake", e, 0, NoKey, "-") : e \in {e \in EX(T) : WaiterWakeEn(T, e)}} \cup
  {Act("CheckArity", e, 0, NoKey, "-") : e \in {e \in EX(T) : CheckArityEn(T, e)}} \cup
  {Act("SendExecute", e, 0, NoKey, "-") : e \in {e \in EX(T) : SendExecuteEn(T, e)}}

ExecKind(T, e) == IF FirstBad(T, T.ex[e].frame.ids) = 0 THEN "rows" ELSE "unprepared"

\* PrepLost: the PREPARE is not answered at all - the node kills the connection while it is outstanding.  For
\* Prepare.tla that is the same step as an ERROR answer (NodePrepareFail: the flight has failed); the harness
\* can only do it when nothing else is outstanding on that connection.
ConnOfKey(k) == <<k[1], k[2]>>
\* Everybody who is executing on that connection would fail at his next request (the model has no dying
\* connections): so the started, unfinished executors of the connection must all be waiting on this very flight
\* - they get its failure - and no other PREPARE may be on its way there.
QuietConn(T, f) ==
  /\ \A g \in Flights(T) \ {f} : T.fl[g].st \in {"new", "sent"} => ConnOfKey(T.fl[g].key) # ConnOfKey(T.fl[f].key)
  /\ \A e \in EX(T) : (T.plan[e].conn = ConnOfKey(T.fl[f].key) /\ T.ex[e].started /\ T.ex[e].pc # "done")
                         => (T.ex[e].pc = "wait" /\ T.ex[e].cur = f)

\* commands of the harness
Commands(T) ==
  {Act("Start", e, 0, NoKey, "-") : e \in {e \in EX(T) : LookupEn(T, e) /\ ~T.ex[e].started}} \cup
  {Act("PrepOk", "-", f, NoKey, "-") : f \in {f \in Flights(T) : NodePrepareOkEn(T, f)}} \cup
  {Act("PrepFail", "-", f, NoKey, "-") : f \in {f \in Flights(T) : NodePrepareFailEn(T, f)}} \cup
  {Act("PrepLost", "-", f, NoKey, "-") : f \in {f \in Flights(T) : NodePrepareFailEn(T, f) /\ QuietConn(T, f)}} \cup
  {Act("Done", "-", f, NoKey, "-") : f \in {f \in Flights(T) : FlightDoneEn(T, f)}} \cup
  {Act("ExecReply", e, 0, NoKey, ExecKind(T, e)) : e \in {e \in EX(T) : NodeExecuteEn(T, e)}} \cup
  {Act("Evict", e, 0, NoKey, "-") : e \in {e \in EX(T) : EvictEn(T, e)}} \cup
  {Act("Forget", "-", 0, k, "-") : k \in {k \in DOMAIN T.known : ForgetEn(T, k)}} \cup
  {Act("Cancel", e, 0, NoKey, "-") : e \in {e \in EX(T) : CtxDoneEn(T, e) /\ T.ex[e].pc # "send"}}

Apply(T, x) ==
  CASE x.a \in {"Lookup", "Start"} -> Lookup(T, x.e)
    [] x.a = "SendPrepare" -> SendPrepare(T, x.f)
    [] x.a = "WaiterWake" -> WaiterWake(T, x.e)
    [] x.a = "CheckArity" -> CheckArity(T, x.e)
    [] x.a = "SendExecute" -> SendExecute(T, x.e)
    [] x.a = "PrepOk" -> NodePrepareOk(T, x.f)
    [] x.a \in {"PrepFail", "PrepLost"} -> NodePrepareFail(T, x.f)
    [] x.a = "Done" -> FlightDone(T, x.f)
    [] x.a = "ExecReply" -> NodeExecute(T, x.e)
    [] x.a = "Evict" -> Evict(T, x.e)
    [] x.a = "Forget" -> Forget(T, x.k)
    [] x.a = "Cancel" -> CtxDone(T, x.e)


\* what the harness can observe of a state
SetToSeq(X) == LET RECURSIVE F(_) F(Y) == IF Y = {} THEN <<>> ELSE
                 LET m == CHOOSE x \in Y : \A y \in Y : x <= y IN <<m>> \o F(Y \ {m}) IN F(X)
Proj(T) ==
  [prep |-> SetToSeq({f \in Flights(T) : T.fl[f].st = "sent"}),
   pf |-> SetToSeq({f \in Flights(T) : T.fl[f].st \in {"ok", "fail"}}),
   exec |-> {e \in EX(T) : T.ex[e].pc = "awaitexec"},
   pe |-> {e \in EX(T) : T.ex[e].pc = "evict"},
   done |-> [e \in {e \in EX(T) : T.ex[e].pc = "done"} |-> T.ex[e].res],
   len |-> Len(T.lru),
   lru |-> T.lru,
   nprep |-> [k \in {k \in DOMAIN T.nprep : T.nprep[k] > 0} |-> T.nprep[k]],
   quiet |-> Internal(T) = {}]

GenInit == Init /\ last = NoAct /\ proj = Proj(S) /\ hist = <<>> /\ lost = {}
Step(x) == LET T == Apply(S, x) IN /\ S' = T /\ last' = x /\ proj' = Proj(T)
                                   /\ lost' = IF x.a = "PrepLost" THEN lost \cup {x.f} ELSE lost
Choices == LET I == Internal(S) IN IF I # {} THEN I ELSE Commands(S)
\* exhaustive search for the targets below (the behaviour is read from TLC's counterexample)
GenNext == \E x \in Choices : Step(x) /\ hist' = hist
GenSpec == GenInit /\ [][GenNext]_gvars
\* random walks (-simulate): the history is carried in the state and printed where the walk ends.
\* (TLC evaluates an invariant on candidate successors it may not follow; every printed history
\* is a behaviour of GenSpec all the same.)
WalkNext == \E x \in Choices : Step(x) /\ hist' = Append(hist, [act |-> x, st |-> Proj(Apply(S, x))])
WalkSpec == GenInit /\ [][WalkNext]_gvars
EmitWalk == (Choices = {} /\ hist # <<>>) => PrintT(<<"WALK", ToJson([plan |-> S.plan, steps |-> hist])>>)

\* ------------------------------------------------------------------------
\* Targets: TLC's counterexample to "never X" is a shortest behaviour that does X.
\* (1) an in-flight entry is evicted by another insert, the evicted statement is looked up
\*     again and both flights succeed
T_EvictInflight ==
  \E f, g \in Flights(S) : f < g /\ S.fl[f].key = S.fl[g].key /\ S.fl[f].st = "done_ok" /\ S.fl[g].st = "done_ok"
     /\ S.forgets = 0 /\ AllDone(S)
\* (2) a failing flight's remove() deletes the entry of a NEWER flight of the same key, and the
\*     statement is then prepared a third time
T_FailRemovesNewer ==
  \E f, g, h \in Flights(S) : f < g /\ g < h /\ S.fl[f].key = S.fl[g].key /\ S.fl[g].key = S.fl[h].key
     /\ S.fl[f].st = "done_fail" /\ S.fl[g].st = "done_ok" /\ AllDone(S)
\* (3) a second executor joins a flight whose failure has been received but not yet published
T_JoinFailing ==
  \E f \in Flights(S) : S.fl[f].st = "done_fail" /\ AllDone(S)
     /\ Cardinality({e \in EX(S) : f \in S.ex[e].waited /\ S.ex[e].res = "err_prepare"}) >= 2
     /\ \E e \in EX(S) : S.ex[e].res = "ok"
\* (3b) the PREPARE is never answered (connection killed) while two executors wait on the flight: both get the
\*      failure, nothing is remembered, a later execution prepares again (on the pool's new connection)
T_LostWithWaiters ==
  \E f \in lost : S.fl[f].st = "done_fail" /\ AllDone(S)
     /\ Cardinality({e \in EX(S) : f \in S.ex[e].waited /\ S.ex[e].res = "err_prepare"}) >= 2
     /\ \E e \in EX(S) : S.ex[e].res = "ok" /\ S.plan[e].conn = ConnOfKey(S.fl[f].key)
\* (4) two executors receive UNPREPARED for the same id; the slower one must not evict the new entry
T_UnpreparedTwice ==
  \E e1, e2 \in EX(S) : e1 # e2 /\ S.ex[e1].unprep # NoId /\ S.ex[e1].unprep = S.ex[e2].unprep
     /\ S.ex[e1].nframes = 2 /\ S.ex[e2].nframes = 2 /\ AllDone(S) /\ S.nprep[S.ex[e1].unprep.k] = 2
\* (5) UNPREPARED while the entry is already being prepared again (in flight): no eviction, join it
T_UnpreparedInflight ==
  \E e1, e2 \in EX(S) : e1 # e2 /\ S.ex[e1].unprep # NoId /\ S.ex[e1].unprep = S.ex[e2].unprep
     /\ S.ex[e1].pc = "evict" /\ S.ex[e2].pc = "wait" /\ S.ex[e2].cur # 0 /\ S.fl[S.ex[e2].cur].st = "sent"
     /\ S.ex[e2].nframes = 1
\* (6) a batch on a cache of one entry: its two statements evict each other, the node forgets one
T_BatchThrash ==
  \E e \in EX(S) : Len(Items(S, e)) = 2 /\ S.ex[e].res = "ok" /\ S.ex[e].nframes >= 2 /\ AllDone(S)
\* (7) wrong number of values: reported, nothing sent, others unaffected
T_Arity == AllDone(S) /\ \E e \in EX(S) : S.ex[e].res = "err_arity"

N_EvictInflight == ~T_EvictInflight
N_FailRemovesNewer == ~T_FailRemovesNewer
N_JoinFailing == ~T_JoinFailing
N_LostWithWaiters == ~T_LostWithWaiters
N_UnpreparedTwice == ~T_UnpreparedTwice
N_UnpreparedInflight == ~T_UnpreparedInflight
N_BatchThrash == ~T_BatchThrash
N_Arity == ~T_Arity
=============================================================================
