------------------------------- MODULE Pool -------------------------------
(***************************************************************************)
(* One host's connection pool (connectionpool.go, hostConnPool): fill /    *)
(* connect / HandleError / Close, at the granularity of its critical       *)
(* sections.  One action = one critical section under pool.mu (or one      *)
(* dial), so that every action corresponds to a "verif" hook:              *)
(*                                                                         *)
(*   FillCheck    first check under the read lock; the survivor is at      *)
(*                p_fill_gate                                              *)
(*   FillRecheck  re-check under the write lock, filling := TRUE           *)
(*                (p_fill_begin); the connect() calls are started          *)
(*   Dial         the dialer answers one connect(): ok (the connection is  *)
(*                open, the caller is at p_connect_gate) or fail           *)
(*   ConnectAdd   under the lock: append (p_connect_add) or, when the pool *)
(*                was closed meanwhile, close the late arrival             *)
(*                (p_connect_late)                                         *)
(*   FillEnd      fillingStopped: filling := FALSE (p_fill_end)            *)
(*   Kill         the node (or the network) closes a connection            *)
(*   HandleError  the connection's error callback: remove + spawn fill     *)
(*                (p_handle_error)                                         *)
(*   Close1/2     mark closed and take the connections (p_close); close    *)
(*                them                                                     *)
(*                                                                         *)
(* What the PROPERTY (C17) demands is stated as invariants below; it is    *)
(* not derived from the code.  `open` is the dialer's view: connections    *)
(* it handed out whose driver end has not been closed.                     *)
(***************************************************************************)
EXTENDS Integers, FiniteSets, TLC

CONSTANTS
  Size,        \* configured connections per host (NumConns)
  Triggers,    \* fill() calls made by the environment (Pick, addHost, reconnect)
  Spawned,     \* fill() calls spawned by HandleError
  Pickers,     \* queries: every Pick() on a pool below its size spawns a fill() (a picker is reused once its fill returned)
  Defect_PickOnlyEmpty, \* TRUE: Pick() spawns the fill only when the pool is empty
  Closers,     \* Close() calls
  MaxFail,     \* bound on failing connect() calls
  MaxKill,     \* bound on connections closed by the node
  Eager,       \* TRUE: steps no gate can hold back have priority (the sub-graph a gate scheduler can drive)
  Defect_AddDeadConn, \* TRUE: connect() appends a connection that died before it was added
  CloseErr,    \* TRUE: the sockets' Close() reports an error; Conn.Close then calls the pool's HandleError
               \* on the closing goroutine (re-entrance: HandleError takes pool.mu)
  Defect_LateCloseUnderLock, \* TRUE: connect() closes a late arrival while it still holds pool.mu
  Defect_NoJoin, \* TRUE: connectMany returns at the first failing connect() instead of waiting for every one
  Mut          \* "none", or a protocol mutation (model self-test only)

Fillers == Triggers \cup Spawned \cup Pickers
\* every passing fill starts at most Size connects; a picker's fill can pass once per loss / failure
MaxConn == Size * (Cardinality(Triggers \cup Spawned) + Cardinality(Pickers) * (MaxKill + MaxFail + 1))
ConnIds == 1 .. MaxConn
ASSUME MaxKill <= Cardinality(Spawned)      \* every removal spawns one fill()

VARIABLES
  conns,     \* the pool's connections (set of connection ids)
  filling,   \* single-filler flag
  closed,    \* pool closed
  open,      \* dialer's view: opened and not yet closed
  dialed,    \* every connection the dialer ever opened for this pool
  dead,      \* connections closed from the node side
  pendHE,    \* dead connections whose error callback has not run yet
  handled,   \* connections whose error callback has run ("reported closed")
  fpc,       \* filler -> "idle" | "start" | "gate" | "sync" | "rest" | "end" | "done"
  frem,      \* filler -> connects still to start after the synchronous first one
  ferr,      \* filler -> some connect failed
  cpc,       \* connect() call -> "unused" | "dial" | "connected" | "done"
  cown,      \* connect() call -> owning filler
  nextc,     \* next unused connect id
  fails, kills,
  lockDead,  \* some goroutine waits for pool.mu while holding it: the lock is never released again
  kpc,       \* closer -> "idle" | "closing" | "done"
  closeQ     \* closer -> connections taken out of the pool, still to be closed

vars == <<conns, filling, closed, open, dialed, dead, pendHE, handled, fpc, frem, ferr, cpc, cown,
          nextc, fails, kills, kpc, closeQ, lockDead>>

NoFiller == "nobody"

Init ==
  /\ conns = {} /\ filling = FALSE /\ closed = FALSE
  /\ open = {} /\ dialed = {} /\ dead = {} /\ pendHE = {} /\ handled = {}
  /\ fpc = [f \in Fillers |-> "idle"]
  /\ frem = [f \in Fillers |-> 0]
  /\ ferr = [f \in Fillers |-> FALSE]
  /\ cpc = [c \in ConnIds |-> "unused"]
  /\ cown = [c \in ConnIds |-> NoFiller]
  /\ nextc = 1 /\ fails = 0 /\ kills = 0
  /\ kpc = [k \in Closers |-> "idle"]
  /\ closeQ = [k \in Closers |-> {}]
  /\ lockDead = FALSE

\* start n connect() calls owned by f (on top of the updates cpc1 / cown1)
StartConnects(f, n, cpc1) ==
  /\ cpc' = [c \in ConnIds |-> IF c \in nextc .. nextc + n - 1 THEN "dial" ELSE cpc1[c]]
  /\ cown' = [c \in ConnIds |-> IF c \in nextc .. nextc + n - 1 THEN f ELSE cown[c]]
  /\ nextc' = nextc + n

(* ---- fill ----------------------------------------------------------------- *)
FillCheck(f) ==
  /\ ~lockDead /\ UNCHANGED lockDead
  /\ \/ f \in Triggers /\ fpc[f] = "idle"
     \/ f \in Spawned \cup Pickers /\ fpc[f] = "start"
  /\ fpc' = [fpc EXCEPT ![f] = IF closed \/ filling \/ Cardinality(conns) >= Size THEN "done" ELSE "gate"]
  /\ UNCHANGED <<conns, filling, closed, open, dialed, dead, pendHE, handled, frem, ferr, cpc, cown,
                 nextc, fails, kills, kpc, closeQ>>

FillRecheck(f) ==
  /\ ~lockDead /\ UNCHANGED lockDead
  /\ fpc[f] = "gate"
  /\ LET n == Cardinality(conns)
         need == Size - n
         refuse == IF Mut = "norecheck" THEN need <= 0 ELSE closed \/ filling \/ need <= 0
     IN IF refuse
        THEN /\ fpc' = [fpc EXCEPT ![f] = "done"]
             /\ UNCHANGED <<filling, frem, cpc, cown, nextc>>
        ELSE /\ filling' = TRUE
             /\ IF n = 0
                THEN /\ fpc' = [fpc EXCEPT ![f] = "sync"]          \* first connection synchronously
                     /\ frem' = [frem EXCEPT ![f] = need - 1]
                     /\ StartConnects(f, 1, cpc)
                ELSE /\ fpc' = [fpc EXCEPT ![f] = "rest"]          \* connectMany(need)
                     /\ frem' = [frem EXCEPT ![f] = 0]
                     /\ StartConnects(f, need, cpc)
  /\ UNCHANGED <<conns, closed, open, dialed, dead, pendHE, handled, ferr, fails, kills, kpc, closeQ>>

(* connect() call c returned (failed or not): thread-local continuation of its filler up to its
   next access of shared state.  cpc1 is cpc with c already marked done. *)
Finish(c, failed, cpc1) ==
  LET f == cown[c] IN
  IF fpc[f] = "sync"
  THEN IF failed
       THEN /\ fpc' = [fpc EXCEPT ![f] = "end"]
            /\ ferr' = [ferr EXCEPT ![f] = TRUE]
            /\ cpc' = cpc1
            /\ UNCHANGED <<frem, cown, nextc>>
       ELSE IF frem[f] > 0
       THEN /\ fpc' = [fpc EXCEPT ![f] = "rest"]
            /\ frem' = [frem EXCEPT ![f] = 0]
            /\ StartConnects(f, frem[f], cpc1)
            /\ UNCHANGED ferr
       ELSE /\ fpc' = [fpc EXCEPT ![f] = "end"]
            /\ cpc' = cpc1
            /\ UNCHANGED <<frem, ferr, cown, nextc>>
  ELSE \* connectMany is a join: fillingStopped runs only when every connect() of the round has returned
       /\ ferr' = [ferr EXCEPT ![f] = @ \/ failed]
       /\ fpc' = [fpc EXCEPT ![f] = IF fpc[f] # "rest" THEN @        \* (a straggler of a round that was left early)
                                     ELSE IF (Defect_NoJoin /\ failed)
                                             \/ \A d \in ConnIds : cown[d] = f => cpc1[d] \in {"unused", "done"}
                                     THEN "end" ELSE @]
       /\ cpc' = cpc1
       /\ UNCHANGED <<frem, cown, nextc>>

Dial(c, ok) ==
  /\ UNCHANGED lockDead
  /\ cpc[c] = "dial"
  /\ IF ok
     THEN /\ cpc' = [cpc EXCEPT ![c] = "connected"]
          /\ open' = open \cup {c}
          /\ dialed' = dialed \cup {c}
          /\ UNCHANGED <<fpc, frem, ferr, cown, nextc, fails>>
     ELSE /\ fails < MaxFail
          /\ fails' = fails + 1
          /\ Finish(c, TRUE, [cpc EXCEPT ![c] = "done"])
          /\ UNCHANGED <<open, dialed>>
  /\ UNCHANGED <<conns, filling, closed, dead, pendHE, handled, kills, kpc, closeQ>>

ConnectAdd(c) ==
  /\ ~lockDead
  /\ cpc[c] = "connected"
  /\ LET cpc1 == [cpc EXCEPT ![c] = "done"] IN
     IF closed /\ Mut # "appendclosed"
     THEN IF CloseErr /\ Defect_LateCloseUnderLock
          THEN \* late arrival closed under the lock; the socket's Close error is handed to HandleError,
               \* which waits for the lock this goroutine holds
               /\ open' = open \ {c}
               /\ lockDead' = TRUE
               /\ cpc' = [cpc EXCEPT ![c] = "stuck"]
               /\ UNCHANGED <<conns, handled, fpc, frem, ferr, cown, nextc>>
          ELSE /\ open' = open \ {c}                                   \* late arrival: closed again
               /\ handled' = IF CloseErr THEN handled \cup {c} ELSE handled  \* its error callback: a no-op
               /\ Finish(c, FALSE, cpc1)
               /\ UNCHANGED <<conns, lockDead>>
     ELSE IF c \in dead /\ ~Defect_AddDeadConn
     THEN /\ Finish(c, TRUE, cpc1)                                \* refused: it is already closed
          /\ UNCHANGED <<conns, open, handled, lockDead>>
     ELSE /\ conns' = conns \cup {c}
          /\ Finish(c, FALSE, cpc1)
          /\ UNCHANGED <<open, handled, lockDead>>
  /\ UNCHANGED <<filling, closed, dialed, dead, pendHE, fails, kills, kpc, closeQ>>

FillEnd(f) ==
  /\ ~lockDead /\ UNCHANGED lockDead
  /\ fpc[f] = "end"
  /\ filling' = (Mut = "nofillend" /\ filling)
  /\ fpc' = [fpc EXCEPT ![f] = "done"]
  /\ UNCHANGED <<conns, closed, open, dialed, dead, pendHE, handled, frem, ferr, cpc, cown, nextc,
                 fails, kills, kpc, closeQ>>

(* ---- connection errors ------------------------------------------------------ *)
FreeSpawned == {h \in Spawned : fpc[h] = "idle"}

Kill(c) ==
  /\ UNCHANGED lockDead
  /\ c \in open
  /\ c \in conns \/ cpc[c] = "connected"
  /\ kills < MaxKill
  /\ FreeSpawned # {}
  /\ kills' = kills + 1
  /\ open' = open \ {c}
  /\ dead' = dead \cup {c}
  /\ pendHE' = pendHE \cup {c}
  /\ UNCHANGED <<conns, filling, closed, dialed, handled, fpc, frem, ferr, cpc, cown, nextc, fails, kpc, closeQ>>

HandleError(c) ==
  /\ ~lockDead /\ UNCHANGED lockDead
  /\ c \in pendHE
  /\ pendHE' = pendHE \ {c}
  /\ handled' = handled \cup {c}
  /\ IF ~closed /\ c \in conns
     THEN /\ conns' = IF Mut = "noremove" THEN conns ELSE conns \ {c}
          /\ LET h == CHOOSE h \in FreeSpawned : TRUE IN fpc' = [fpc EXCEPT ![h] = "start"]
     ELSE UNCHANGED <<conns, fpc>>
  /\ UNCHANGED <<filling, closed, open, dialed, dead, frem, ferr, cpc, cown, nextc, fails, kills, kpc, closeQ>>

(* ---- Close ------------------------------------------------------------------ *)
Close1(k) ==
  /\ ~lockDead
  /\ kpc[k] = "idle"
  /\ IF closed
     THEN /\ kpc' = [kpc EXCEPT ![k] = "done"]
          /\ UNCHANGED <<closed, conns, closeQ, open, lockDead>>
     ELSE IF Mut = "closeunderlock" /\ CloseErr /\ conns # {}
     THEN \* (mutation) the connections are closed while the lock is held: the first Close error re-enters
          \* HandleError on this goroutine
          /\ closed' = TRUE
          /\ open' = open \ {CHOOSE c \in conns : TRUE}
          /\ lockDead' = TRUE
          /\ kpc' = [kpc EXCEPT ![k] = "closing"]
          /\ UNCHANGED <<conns, closeQ>>
     ELSE /\ closed' = TRUE
          /\ kpc' = [kpc EXCEPT ![k] = "closing"]
          /\ closeQ' = [closeQ EXCEPT ![k] = IF Mut = "closekeeps" THEN {} ELSE conns]
          /\ conns' = {}
          /\ UNCHANGED <<open, lockDead>>
  /\ UNCHANGED <<filling, dialed, dead, pendHE, handled, fpc, frem, ferr, cpc, cown, nextc, fails, kills>>

\* the taken connections are closed outside the lock; with CloseErr each Close calls HandleError, which takes
\* the lock, finds the pool closed and returns
Close2(k) ==
  /\ ~lockDead /\ UNCHANGED lockDead
  /\ kpc[k] = "closing"
  /\ open' = open \ closeQ[k]
  /\ handled' = IF CloseErr THEN handled \cup closeQ[k] ELSE handled
  /\ closeQ' = [closeQ EXCEPT ![k] = {}]
  /\ kpc' = [kpc EXCEPT ![k] = "done"]
  /\ UNCHANGED <<conns, filling, closed, dialed, dead, pendHE, fpc, frem, ferr, cpc, cown, nextc,
                 fails, kills>>

(* ---- queries ----------------------------------------------------------------
   Pick(): under the read lock; a pool below its size gets a fill() on a goroutine of its own.  This is what replaces a
   connection lost while a fill was in progress (HandleError's own fill() returns at the `filling` check) and what makes up
   for a fill that only partly succeeded.                                                                              *)
Pick(p) ==
  /\ ~lockDead /\ UNCHANGED lockDead
  /\ p \in Pickers /\ fpc[p] \in {"idle", "done"}
  /\ ~closed
  /\ IF Defect_PickOnlyEmpty THEN conns = {} ELSE Cardinality(conns) < Size
  /\ fpc' = [fpc EXCEPT ![p] = "start"]
  /\ UNCHANGED <<conns, filling, closed, open, dialed, dead, pendHE, handled, frem, ferr, cpc, cown,
                 nextc, fails, kills, kpc, closeQ>>

(* ---- next-state relation ------------------------------------------------------
   Auto steps are those no gate in the code can hold back (they follow the previous
   step of the same goroutine without a hook outside the lock in between).          *)
AutoNext ==
  \/ \E f \in Fillers : FillEnd(f)
  \/ \E c \in ConnIds : HandleError(c)
  \/ \E h \in Spawned \cup Pickers : FillCheck(h)
  \/ \E k \in Closers : Close2(k)

EnvNext ==
  \/ \E f \in Triggers : FillCheck(f)
  \/ \E p \in Pickers : Pick(p)
  \/ \E c \in ConnIds : Kill(c)
  \/ \E k \in Closers : Close1(k)

CtrlNext ==
  \/ EnvNext
  \/ \E f \in Fillers : FillRecheck(f)
  \/ \E c \in ConnIds : Dial(c, TRUE) \/ Dial(c, FALSE)
  \/ \E c \in ConnIds : ConnectAdd(c)

AutoEnabled ==
  \/ \E f \in Fillers : fpc[f] = "end"
  \/ pendHE # {}
  \/ \E h \in Spawned \cup Pickers : fpc[h] = "start"
  \/ \E k \in Closers : kpc[k] = "closing"

Next == IF Eager /\ AutoEnabled THEN AutoNext ELSE AutoNext \/ CtrlNext

\* every step of the driver's goroutines eventually happens; the environment (triggers, kills,
\* Close calls) is not obliged to act
SysNext ==
  \/ AutoNext
  \/ \E f \in Fillers : FillRecheck(f)
  \/ \E c \in ConnIds : Dial(c, TRUE) \/ Dial(c, FALSE)
  \/ \E c \in ConnIds : ConnectAdd(c)

Spec == Init /\ [][Next]_vars /\ WF_vars(SysNext)
\* ... and queries keep arriving
\* (fairness per goroutine here: the picker's steps recur for ever and must not stand in for the others)
FairPerGoroutine ==
  /\ \A f \in Fillers : WF_vars((f \in Spawned \cup Pickers /\ FillCheck(f)) \/ FillRecheck(f) \/ FillEnd(f))
  /\ \A c \in ConnIds : WF_vars(Dial(c, TRUE) \/ Dial(c, FALSE)) /\ WF_vars(ConnectAdd(c)) /\ WF_vars(HandleError(c))
  /\ \A k \in Closers : WF_vars(Close2(k))
SpecPicks == Init /\ [][Next]_vars /\ FairPerGoroutine /\ \A p \in Pickers : WF_vars(Pick(p))
SpecNoFair == Init /\ [][Next]_vars

(* ---- what C17 demands -------------------------------------------------------- *)
TypeOK ==
  /\ conns \subseteq ConnIds /\ open \subseteq ConnIds /\ dialed \subseteq ConnIds
  /\ filling \in BOOLEAN /\ closed \in BOOLEAN
  /\ fpc \in [Fillers -> {"idle", "start", "gate", "sync", "rest", "end", "done"}]
  /\ cpc \in [ConnIds -> {"unused", "dial", "connected", "stuck", "done"}]
  /\ nextc \in 1 .. MaxConn + 1

\* a pool never holds more than the configured number of connections
SizeBound == Cardinality(conns) <= Size
\* at most one filler is past the re-check, and the flag says so
PastRecheck == {f \in Fillers : fpc[f] \in {"sync", "rest", "end"}}
OneFiller == Cardinality(PastRecheck) <= 1 /\ (filling <=> PastRecheck # {})
\* a closed pool holds nothing
ClosedEmpty == closed => conns = {}
\* a connection reported closed (its error callback has run) is not in the pool
ReportedNotInPool == handled \cap conns = {}
\* every open connection is accounted for: in the pool, on its way in, or on its way out
InFlight == {c \in ConnIds : cpc[c] = "connected"} \cup UNION {closeQ[k] : k \in Closers}
NoStray == open \subseteq conns \cup InFlight
\* no connection is left open once the pool is closed and nothing is in progress
Quiet == \A c \in ConnIds : cpc[c] \in {"unused", "done"}
NoLeakAfterClose == (closed /\ Quiet /\ \A k \in Closers : kpc[k] # "closing") => open = {}
\* a pool connection is alive, or its error callback is still to come
PoolConnsAlive == conns \subseteq open \cup pendHE

\* fillingStopped is a join: while a connect() of a fill is in flight the pool says "filling"
Connecting == {c \in ConnIds : cpc[c] \in {"dial", "connected"}}
FillJoin == Connecting # {} => filling
\* no pool method waits for the lock it holds (closing a connection may call back into HandleError)
NoSelfDeadlock == ~lockDead

\* A connection reported closed is replaced, a fill that only partly succeeded is made up for: while queries keep
\* arriving an open pool is at its size again once the (bounded) faults are over
Replenished == <>[](closed \/ lockDead \/ Cardinality(conns \ dead) = Size)

\* liveness: a fill ends; whatever the dialer opened for a closed pool gets closed; Close returns
FillEnds == filling ~> ~filling
AllClosedEventually == <>[](closed => open = {})
CloseReturns == \A k \in Closers : kpc[k] = "closing" ~> kpc[k] = "done"
\* a removed connection is replaced: the fill() spawned by HandleError (or whoever fills instead of it) brings
\* the pool back to its size, unless the pool is closed or a connect fails.  Stated for the moment the spawned fill
\* starts with nobody filling (a filler that computed its count before the loss does not make up for it) and for
\* instances with a single kill (MaxKill = 1).
PoolRefilled == \A h \in Spawned : (fpc[h] = "start" /\ ~filling /\ ~closed /\ MaxKill = 1)
                                        ~> (closed \/ Cardinality(conns) = Size \/ fails > 0 \/ lockDead)
\* a removed connection is replaced when nothing fails and the pool stays open
=============================================================================
