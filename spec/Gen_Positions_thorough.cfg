CONSTANT Thorough = FALSE
CONSTANT Tier = "thorough"
INIT PInit
NEXT PNext
INVARIANT EmitCase
CHECK_DEADLOCK FALSE
