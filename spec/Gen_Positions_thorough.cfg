CONSTANT Thorough = FALSE
CONSTANT Tier = "thorough"
CONSTANT Part = 0
INIT PInit
NEXT PNext
INVARIANT EmitLive
CHECK_DEADLOCK FALSE
