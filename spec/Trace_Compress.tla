--------------------------- MODULE Trace_Compress ---------------------------
(***************************************************************************)
(* C18 code -> spec: vectors recorded from the real code, one JSON object  *)
(* per line, judged against Compress.tla.                                  *)
(*  k = "enc"   alg body enc err panic     real Compressor.Encode(body)    *)
(*  k = "dec"   alg stream out outlen err panic   real Decode(stream); out *)
(*              holds at most the first 8192 bytes, outlen the full length *)
(*              (cls: how the stream was made, informational)              *)
(*  k = "frame" alg op flags wire logical  a request built by the real     *)
(*              framer with compressor alg ("" = none); logical = the body *)
(*              of the same request built without compressor               *)
(*  k = "wire"  configured advertised startup after op flags wire haslog   *)
(*              logical   a frame captured on a real connection: startup = *)
(*              COMPRESSION option of this connection's STARTUP ("" none), *)
(*              after = the frame follows STARTUP; plainok = an OPTIONS    *)
(*              body is empty / a STARTUP body parses as a string map      *)
(*  k = "resp"  negotiated flag body outcome   what the caller got for a   *)
(*              response / pushed frame ("value" | "error" | "crash" | ...)  *)
(*  k = "follow" negotiated flag body first outcome   the request that     *)
(*              FOLLOWED such a response on the same connection            *)
(*  k = "srv"   negotiated flag body logical   a frame the re-encoding     *)
(*              proxy sent to the driver (premise of the resp vectors)     *)
(* A mismatch prints MONVIOL with the failing aspects; kinds starting with *)
(* "drift-" do not contradict the property.                                *)
(***************************************************************************)
EXTENDS Compress, TLC, Json, IOUtils

Log == ndJsonDeserialize(IOEnv.VF_TRACE)
ToSet(s) == {s[i] : i \in 1 .. Len(s)}

VARIABLES l, bad, und
vars == <<l, bad, und>>

chk(c, k) == IF c THEN <<>> ELSE <<k>>
Reason(e) == CASE e = ErrTrunc -> "truncated" [] e = ErrOffset -> "offset-beyond-output" [] e = ErrOffset0 -> "offset-zero" [] e = ErrLength -> "length-mismatch" [] OTHER -> "malformed"
Flag(r) == (r.flags % 2) = 1

Kinds(r) ==
  IF r.panic # "" THEN <<"panic">> ELSE
  CASE r.k = "enc" ->
         IF r.err # "" THEN <<"encode-error">>
         ELSE LET st == RefDecode(r.alg, r.enc, TRUE)
                  le == RefDecode(r.alg, r.enc, FALSE)
              IN IF st = r.body THEN <<>>
                 ELSE IF le = r.body THEN <<"note-encoding-not-strict">>
                 ELSE <<"encoded-body-does-not-decode-to-input">>
    [] r.k = "dec" ->
         LET st == RefDecode(r.alg, r.stream, TRUE)
             le == RefDecode(r.alg, r.stream, FALSE)
         IN IF ~IsErr(st) THEN chk(r.err = "", "valid-stream-rejected") \o chk(r.err # "" \/ (r.out = st /\ r.outlen = Len(st)), "valid-stream-wrong-output")
            ELSE IF IsErr(le) THEN chk(r.err # "", "corrupt-stream-accepted:" \o Reason(le))
            ELSE <<>>
    [] r.k = "frame" ->
         chk(~Flag(r) \/ FlagAllowed(r.alg, r.op), "flag-on-uncompressible-frame")
         \o chk(WireBodyOK(Flag(r), r.alg, r.wire, r.logical), IF Flag(r) THEN "flagged-body-not-compressed-form" ELSE "unflagged-body-not-plain")
         \o chk(Flag(r) \/ ~FlagAllowed(r.alg, r.op), "drift-compressible-frame-not-compressed")
    [] r.k = "wire" ->
         LET neg == IF r.after THEN r.startup ELSE ""
             adv == ToSet(r.advertised)
         IN (IF r.op = OpStartup
             THEN chk(StartupCompressionAllowed(r.startup, r.configured, adv), "startup-compression-not-negotiable")
                  \o chk(r.startup = StartupCompressionExpected(r.configured, adv), "drift-startup-compression-unexpected")
             ELSE <<>>)
            \o chk(~Flag(r) \/ FlagAllowed(neg, r.op), "flag-without-negotiation")
            \o chk(r.op \notin {OpOptions, OpStartup} \/ r.plainok, "options-or-startup-body-not-plain")
            \o (IF r.haslog THEN chk(WireBodyOK(Flag(r), neg, r.wire, r.logical),
                                     IF Flag(r) THEN "flagged-body-not-compressed-form" ELSE "unflagged-body-not-plain")
                ELSE chk(~Flag(r) \/ neg = "" \/ ~IsErr(RefDecode(neg, r.wire, FALSE)), "flagged-body-not-compressed-form"))
            \o chk(Flag(r) \/ ~FlagAllowed(neg, r.op), "drift-compressible-frame-not-compressed")
    [] r.k = "resp" ->
         LET good == GoodCompressedFrame(r.negotiated, r.flag, r.body)
             mustfail == ~good /\ ResponseMustFail(r.negotiated, r.flag, r.body)    \* strict accepts => lenient accepts
         IN chk(r.outcome # "crash", "response-crash") \o chk(r.outcome # "hang", "response-hang")
            \o chk(~mustfail \/ r.outcome # "value", "bad-compressed-response-accepted")
            \o chk(~good \/ r.outcome = "value", "good-compressed-frame-not-delivered")
            \o chk(mustfail \/ good \/ r.outcome = "value", "drift-good-response-refused")
    [] r.k = "follow" ->
         \* the request FOLLOWING a (flagged / corrupt / good) response on the same connection: whatever became of the
         \* first one, the next plain answer is never misread - bytes of the first frame's body must not be taken for frames
         chk(r.outcome \notin {"wrong-value", "hang"}, "following-answer-misread")
         \o chk(r.outcome \in {"value", "wrong-value", "hang"}, "drift-following-request-failed")
    [] r.k = "srv" ->
         \* what the proxy put on the wire is what a conforming node sends: plain, or a strictly valid compressed form
         chk(IF r.flag THEN r.negotiated # "" /\ RefDecode(r.negotiated, r.body, TRUE) = r.logical ELSE r.body = r.logical,
             "drift-proxy-frame-not-a-valid-form")
    [] OTHER -> <<"drift-unknown-vector">>

Undecided(r) == r.k = "dec" /\ r.panic = "" /\ IsErr(RefDecode(r.alg, r.stream, TRUE)) /\ ~IsErr(RefDecode(r.alg, r.stream, FALSE))

Init == l = 1 /\ bad = <<>> /\ und = FALSE
Next == /\ l <= Len(Log)
        /\ l' = l + 1
        /\ bad' = Kinds(Log[l])
        /\ und' = Undecided(Log[l])
Spec == Init /\ [][Next]_vars

Report == /\ bad # <<>> => PrintT(<<"MONVIOL", ToJson([line |-> l - 1, id |-> Log[l - 1].id, kinds |-> bad])>>)
          /\ und => PrintT(<<"UNDECIDED", ToJson([line |-> l - 1, id |-> Log[l - 1].id])>>)
=============================================================================
