--------------------------- MODULE Trace_Malformed ---------------------------
(***************************************************************************)
(* Property C05, the oracle.  It is observational: for whatever bytes the  *)
(* generators (Gen_Malformed, Gen_MalformedVal, Gen_TypeStrings,           *)
(* Gen_Positions) produced, every entry point of the driver that was given *)
(* them must have ended in one of                                          *)
(*      value   - it returned something (however nonsensical)              *)
(*      error   - it returned an error                                     *)
(*      closed  - it closed the connection                                 *)
(* "panic" (a panic reached the caller of the driver's entry point, i.e.   *)
(* the application's goroutine or a goroutine of the driver without a      *)
(* recover), "died" (the process ended: fatal error, out of memory, a      *)
(* panic on a background goroutine), "hang" are not in the relation.       *)
(* And for an uncompressed, fully received input of len bytes the bytes    *)
(* allocated while decoding it must stay below AllocC * len + AllocK.      *)
(*                                                                         *)
(* Reads the NDJSON file IOEnv.VF_TRACE recorded by harness/c05: one       *)
(* record per input [id, len, obs : Seq([st, out, alloc, meas])] and       *)
(* prints MONVIOL for every record with a forbidden observation.           *)
(***************************************************************************)
EXTENDS Integers, Sequences, TLC, Json, IOUtils

Log == ndJsonDeserialize(IOEnv.VF_TRACE)

Allowed == {"value", "error", "closed"}
AllocC == 64
AllocK == 8388608            \* 8 MiB
AllocBound(len) == AllocC * (IF len < 0 THEN 0 ELSE IF len > 16777216 THEN 16777216 ELSE len) + AllocK

VARIABLES l, bad
vars == <<l, bad>>

\* indexes of the observations of record r that the property forbids
Forbidden(r) ==
  SelectSeq([i \in 1 .. Len(r.obs) |->
               IF r.obs[i].out \notin Allowed THEN [i |-> i, why |-> "outcome"]
               ELSE IF r.obs[i].meas /\ r.obs[i].alloc > AllocBound(r.len) THEN [i |-> i, why |-> "allocation"]
               ELSE [i |-> 0, why |-> ""]],
            LAMBDA x : x.i # 0)

Init == l = 1 /\ bad = <<>>
Next == /\ l <= Len(Log)
        /\ l' = l + 1
        /\ bad' = Forbidden(Log[l])
Spec == Init /\ [][Next]_vars

Report ==
  /\ bad # <<>> => PrintT(<<"MONVIOL", ToJson([line |-> l - 1, id |-> Log[l - 1].id, bad |-> bad])>>)
  /\ l = Len(Log) + 1 => PrintT(<<"MONDONE", ToJson([n |-> Len(Log)])>>)
=============================================================================
