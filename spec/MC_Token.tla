------------------------------ MODULE MC_Token ------------------------------
(***************************************************************************)
(* C09 case generators (spec -> code).  One state per case; the expected   *)
(* result is computed by Token.tla and printed as JSON; the Go harness     *)
(* executes every case on the real code.                                   *)
(*   InitKeys : partition keys of length 0..MaxLen (every tail length with *)
(*              0, 1, 2 full blocks): a background byte class, one byte of *)
(*              another class at one position.  Sharded over processes by  *)
(*              length; sampled by Stride in the quick tier.               *)
(*   InitRk   : routing keys of 1..3 components with bound-value layouts.  *)
(*   InitRkPartial : statements binding only a proper subset of the key    *)
(*              columns (the rest are literals): no routing key.           *)
(*   InitCmp  : ordered pairs of boundary token strings (Murmur3, Random). *)
(*   InitOrd  : ordered pairs of byte strings (order-preserving).          *)
(*   InitSeq  : scripts on ONE Query / Batch value: bind, get key, re-bind, *)
(*              get key, explicit routing key set and cleared, statements   *)
(*              appended to a batch between calls.                          *)
(***************************************************************************)
EXTENDS Token, Json, IOUtils, FiniteSets

VARIABLE c

EnvNat(name, dflt) == IF name \in DOMAIN IOEnv THEN atoi(IOEnv[name]) ELSE dflt
Shard == EnvNat("VF_SHARD", 0)
NShard == EnvNat("VF_NSHARD", 1)
Stride == EnvNat("VF_STRIDE", 1)
Seed == EnvNat("VF_SEED", 1)
MaxLen == EnvNat("VF_MAXLEN", 47)

Cls == <<0, 1, 127, 128, 255>>

\* ------------------------------------------------------------------ keys
InitKeys ==
  c \in {x \in [L : 0 .. MaxLen, bg : 1 .. 5, p : 0 .. MaxLen, fg : 1 .. 5] :
           /\ x.L % NShard = Shard
           /\ x.p <= x.L
           /\ (x.p = 0 => x.fg = x.bg)
           /\ (x.p > 0 => x.fg # x.bg)
           /\ (x.p = 0 \/ x.L <= 2 \/ (x.L * 7 + x.p * 3 + x.bg * 5 + x.fg + Seed) % Stride = 0)}
KeyOf(x) == [i \in 1 .. x.L |-> IF i = x.p THEN Cls[x.fg] ELSE Cls[x.bg]]
EmitKey == LET key == KeyOf(c) IN
  PrintT(<<"CASE", ToJson([k |-> "key", key |-> key, h1 |-> H1Ascii(key),
                           tok |-> IF key = <<>> THEN <<>> ELSE Murmur3TokenAscii(key)])>>)

\* keys with a published or constructed token
SpecialKeys == << MinTokenKey, <<104, 101, 108, 108, 111>>,
                  <<0, 16, 67, 39, 82, 159, 182, 69, 221, 0, 184, 131, 236, 57, 174, 68, 139, 184, 0, 0, 4, 0, 6, 106, 107, 0>> >>
InitSpecial == c \in [s : 1 .. Len(SpecialKeys)]
EmitSpecial == LET key == SpecialKeys[c.s] IN
  PrintT(<<"CASE", ToJson([k |-> "key", key |-> key, h1 |-> H1Ascii(key), tok |-> Murmur3TokenAscii(key)])>>)

\* ------------------------------------------------------------------ routing keys
Fill(n, b) == [i \in 1 .. n |-> b]
Comp(t, n, b) == [t |-> t, n |-> n, b |-> b]
Palette == <<
  Comp("blob", 0, <<>>), Comp("blob", 0, <<0>>), Comp("blob", 0, <<255, 0, 128>>),
  Comp("blob", 0, Fill(255, 97)), Comp("blob", 0, Fill(256, 0)), Comp("blob", 0, Fill(257, 255)),
  Comp("text", 0, <<97, 98>>),
  Comp("int", 0, <<>>), Comp("int", -1, <<>>), Comp("int", 2147483647, <<>>), Comp("int", -2147483647 - 1, <<>>),
  Comp("bigint", 1, <<>>), Comp("bigint", -2, <<>>),
  Comp("boolean", 0, <<>>), Comp("boolean", 1, <<>>),
  Comp("uuid", 0, <<0, 17, 34, 51, 68, 85, 102, 119, 136, 153, 170, 187, 204, 221, 238, 255>>),
  Comp("bigint8", 0, <<128, 0, 0, 0, 0, 0, 0, 1>>) >>
NP == Len(Palette)
Small == {1, 2, 5, 9, 12, 16}          \* sub-palette for three-component keys
Decoy == Comp("int", 7, <<>>)
\* layout 1: values are the components in key order.  layout 2: a decoy value first, then the
\* components in REVERSE key order (idx points back at them)
InitRk ==
  c \in {x \in [n : 1 .. 3, a : 1 .. NP, b : 1 .. NP, d : 1 .. NP, lay : 1 .. 2] :
           /\ (x.n < 2 => x.b = 1)
           /\ (x.n < 3 => x.d = 1)
           /\ (x.n = 3 => x.a \in Small /\ x.b \in Small /\ x.d \in Small)}
RkComps(x) == CASE x.n = 1 -> <<Palette[x.a]>>
                [] x.n = 2 -> <<Palette[x.a], Palette[x.b]>>
                [] x.n = 3 -> <<Palette[x.a], Palette[x.b], Palette[x.d]>>
Rev(s) == [i \in 1 .. Len(s) |-> s[Len(s) + 1 - i]]
RkValues(x) == IF x.lay = 1 THEN RkComps(x) ELSE <<Decoy>> \o Rev(RkComps(x))
RkIdx(x) == IF x.lay = 1 THEN [i \in 1 .. x.n |-> i] ELSE [i \in 1 .. x.n |-> x.n + 2 - i]
EmitRk == PrintT(<<"CASE", ToJson([k |-> "rk", vals |-> RkValues(c), idx |-> RkIdx(c),
                                   out |-> RoutingKey(RkValues(c), RkIdx(c))])>>)

\* statements that bind only SOME partition-key columns (the others are literals): layout 3.
\* m: the set of key positions that are bound (a proper subset, possibly empty); the bound values follow a
\* decoy value in key order
InitRkPartial ==
  c \in {x \in [n : 2 .. 3, a : Small, b : Small, d : {1, 2, 9}, m : SUBSET (1 .. 3)] :
           /\ (x.n < 3 => x.d = 1)
           /\ (x.n = 3 => x.a \in {1, 2, 9} /\ x.b \in {1, 2, 9})
           /\ x.m \subseteq 1 .. x.n /\ x.m # 1 .. x.n}
PartComps(x) == IF x.n = 2 THEN <<Palette[x.a], Palette[x.b]>> ELSE <<Palette[x.a], Palette[x.b], Palette[x.d]>>
BoundSeq(x) == SelectSeq([i \in 1 .. x.n |-> i], LAMBDA i : i \in x.m)          \* bound key positions, ascending
PartValues(x) == <<Decoy>> \o [j \in 1 .. Len(BoundSeq(x)) |-> PartComps(x)[BoundSeq(x)[j]]]
PartIdx(x) == [i \in 1 .. x.n |-> IF i \in x.m THEN 1 + Cardinality({j \in x.m : j <= i}) ELSE 0]
EmitRkPartial == PrintT(<<"CASE", ToJson([k |-> "rk", vals |-> PartValues(c), idx |-> PartIdx(c),
                                          out |-> RoutingKeyOf(PartValues(c), PartIdx(c))])>>)

\* ------------------------------------------------------------------ token strings
\* signed 64-bit boundary values (big-endian bytes) and non-negative 128-bit values <= 2^127
M3Vals == <<
  <<0, 0, 0, 0, 0, 0, 0, 0>>, <<0, 0, 0, 0, 0, 0, 0, 1>>, <<255, 255, 255, 255, 255, 255, 255, 255>>,
  <<127, 255, 255, 255, 255, 255, 255, 255>>, <<128, 0, 0, 0, 0, 0, 0, 0>>, <<128, 0, 0, 0, 0, 0, 0, 1>>,
  <<127, 255, 255, 255, 255, 255, 255, 254>>, <<0, 0, 0, 0, 0, 0, 0, 9>>, <<0, 0, 0, 0, 0, 0, 0, 10>>,
  <<255, 255, 255, 255, 255, 255, 255, 247>>, <<255, 255, 255, 255, 255, 255, 255, 246>>,
  <<13, 224, 182, 179, 167, 100, 0, 0>>, <<13, 224, 182, 179, 167, 99, 255, 255>>,
  <<242, 31, 73, 76, 88, 156, 0, 0>>, <<242, 31, 73, 76, 88, 156, 0, 1>>,
  <<0, 0, 0, 1, 0, 0, 0, 0>>, <<255, 255, 255, 255, 0, 0, 0, 0>>, <<0, 0, 0, 0, 127, 255, 255, 255>>,
  <<0, 0, 0, 0, 128, 0, 0, 0>>, <<255, 255, 255, 255, 127, 255, 255, 255>>, <<1, 0, 0, 0, 0, 0, 0, 0>>,
  <<254, 255, 255, 255, 255, 255, 255, 255>> >>
Z(n) == Fill(n, 0)
RndVals == <<
  Z(16), Z(15) \o <<1>>, Z(15) \o <<9>>, Z(15) \o <<10>>, Z(15) \o <<255>>, Z(14) \o <<1, 0>>,
  <<128>> \o Z(15), <<127>> \o Fill(15, 255), Z(7) \o <<1>> \o Z(8), Z(8) \o Fill(8, 255),
  Z(8) \o <<128>> \o Z(7), Z(8) \o <<127>> \o Fill(7, 255),
  <<75, 59, 76, 168, 90, 134, 196, 122, 9, 138, 34, 64, 0, 0, 0, 0>>,          \* 10^38
  <<75, 59, 76, 168, 90, 134, 196, 122, 9, 138, 34, 63, 255, 255, 255, 255>>,  \* 10^38 - 1
  <<1>> \o Z(15), <<127>> \o Fill(14, 255) \o <<254>> >>
InitCmp ==
  c \in {x \in [p : {"m3", "rnd"}, a : 1 .. 22, b : 1 .. 22] :
           x.p = "rnd" => (x.a <= Len(RndVals) /\ x.b <= Len(RndVals))}
CmpStr(p, i) == IF p = "m3" THEN AsciiOfSigned(SignedDecOfBytes(M3Vals[i])) ELSE AsciiOfDigits(DecOfBytes(RndVals[i]))
EmitCmp == LET a == CmpStr(c.p, c.a)
               b == CmpStr(c.p, c.b) IN
  PrintT(<<"CASE", ToJson([k |-> "cmp", p |-> c.p, a |-> a, b |-> b, less |-> DecLt(a, b)])>>)

\* ------------------------------------------------------------------ order-preserving
OrdVals == << <<>>, <<0>>, <<0, 0>>, <<1>>, <<127>>, <<128>>, <<255>>, <<127, 255>>, <<128, 0>>, <<255, 255>>,
              <<0, 255>>, <<1, 0>>, <<255, 0>>, <<128, 127>>, <<97, 98, 99>>, <<97, 98>>, <<97, 200>> >>
InitOrd == c \in [a : 1 .. Len(OrdVals), b : 1 .. Len(OrdVals)]
EmitOrd == PrintT(<<"CASE", ToJson([k |-> "ord", a |-> OrdVals[c.a], b |-> OrdVals[c.b],
                                    less |-> BytesLt(OrdVals[c.a], OrdVals[c.b])])>>)

\* ------------------------------------------------------------------ one Query / Batch used repeatedly
\* three statement shapes (types fixed per statement), three value tuples each
Shapes == <<
  [idx |-> <<1>>, ix2 |-> <<1>>,
   v |-> << <<Comp("blob", 0, <<1, 2>>)>>, <<Comp("blob", 0, <<255>>)>>, <<Comp("blob", 0, <<1, 2, 3>>)>> >>],
  [idx |-> <<1, 2>>, ix2 |-> <<2, 1>>,
   v |-> << <<Comp("text", 0, <<97, 98>>), Comp("int", 1, <<>>)>>, <<Comp("text", 0, <<97, 98, 99>>), Comp("int", -1, <<>>)>>,
            <<Comp("text", 0, <<97, 98>>), Comp("int", 2, <<>>)>> >>],
  [idx |-> <<3, 1>>, ix2 |-> <<1, 3>>,
   v |-> << <<Comp("int", 7, <<>>), Comp("bigint", 1, <<>>), Comp("blob", 0, <<0>>)>>,
            <<Comp("int", 8, <<>>), Comp("bigint", 1, <<>>), Comp("blob", 0, <<0>>)>>,
            <<Comp("int", 7, <<>>), Comp("bigint", 2, <<>>), Comp("blob", 0, <<0, 0>>)>> >>] >>
Overrides == << <<9, 9>>, <<0>> >>
St(op, vals, b, ix) == [op |-> op, vals |-> vals, b |-> b, ix |-> ix]
Get == St("get", <<>>, <<>>, <<>>)
Clear == St("clear", <<>>, <<>>, <<>>)
QueryScript(t, A, B, X) ==
  LET bA == St("bind", A, <<>>, <<>>)
      bB == St("bind", B, <<>>, <<>>)
      rX == St("route", <<>>, X, <<>>) IN
  CASE t = 1 -> <<bA, Get, bB, Get>>
    [] t = 2 -> <<bA, Get, bB, Get, bA, Get>>
    [] t = 3 -> <<bA, Get, rX, Get, Clear, Get>>
    [] t = 4 -> <<rX, Get, Clear, bA, Get, bB, Get>>
    [] t = 5 -> <<bA, Get, Get, bB, Get, Get>>
    [] t = 6 -> <<bA, bB, Get, rX, Clear, Get, bA, Get>>
BatchScript(t, A, B, ixA, ixB) ==
  LET aA == St("add", A, <<>>, ixA)
      aB == St("add", B, <<>>, ixB) IN
  CASE t = 1 -> <<Get, aA, Get, aB, Get>>
    [] t = 2 -> <<aA, aB, Get, aA, Get>>
    [] OTHER -> <<aB, Get, aA, Get>>
InitSeq ==
  c \in {x \in [obj : {"query", "batch"}, t : 1 .. 6, sh : 1 .. 3, a : 1 .. 3, b : 1 .. 3, o : 1 .. 2] :
           /\ x.a # x.b
           /\ (x.obj = "batch" => x.t <= 3 /\ x.o = 1)}
SeqSteps(x) ==
  LET sh == Shapes[x.sh] IN
  IF x.obj = "query" THEN QueryScript(x.t, sh.v[x.a], sh.v[x.b], Overrides[x.o])
  ELSE IF x.t = 3 THEN BatchScript(3, sh.v[x.a], sh.v[x.b], sh.idx, sh.ix2)
  ELSE BatchScript(x.t, sh.v[x.a], sh.v[x.b], sh.idx, sh.ix2)
EmitSeq == LET sh == Shapes[c.sh] IN
  PrintT(<<"CASE", ToJson([k |-> "rkseq", obj |-> c.obj, idx |-> sh.idx, steps |-> SeqSteps(c),
                           outs |-> SeqExpected(c.obj, SeqSteps(c), sh.idx)])>>)

Next == UNCHANGED c

\* self-test of the palettes against independently known decimal values
ASSUME CmpStr("m3", 12) = <<49, 48, 48, 48, 48, 48, 48, 48, 48, 48, 48, 48, 48, 48, 48, 48, 48, 48, 48>>   \* 10^18
ASSUME CmpStr("m3", 14) = <<45, 49, 48, 48, 48, 48, 48, 48, 48, 48, 48, 48, 48, 48, 48, 48, 48, 48, 48, 48>>
ASSUME CmpStr("rnd", 13) = <<49>> \o Fill(38, 48)                                                        \* 10^38
ASSUME CmpStr("rnd", 14) = Fill(38, 57)
ASSUME DecLt(CmpStr("m3", 5), CmpStr("m3", 3)) /\ DecLt(CmpStr("m3", 3), CmpStr("m3", 1)) /\ ~DecLt(CmpStr("m3", 4), CmpStr("m3", 5))
=============================================================================
