\* Local steps first (NextPOR), cache size 2, two forgets ("por_lru2_f2" of checks/c14.py).
SPECIFICATION SpecPOR
CONSTANTS
  Execs = {"e1", "e2", "e3"}
  Arity <- MCArity
  MaxLRU = 2
  MaxForget = 2
  MaxFail = 1
  Cancellable = {}
  MaxReprepare = 3
  UniqueIds = TRUE
  Plans <- PlansMost
INVARIANTS Bounded PreparedOnce FailedNotCached FailedReported ExecAttribution ArityChecked Justified NoStuck
CHECK_DEADLOCK FALSE
