SPECIFICATION Spec
CONSTANTS
  MaxE = 3
  Configs <- CfgWitness
  KeepHist = FALSE
  GateAtomic = FALSE
  NonIdemRetry = FALSE
  Defect_WaitResultsOnly = FALSE
VIEW View
INVARIANTS NoViolation DirectBound TemptingBound
