------------------------------ MODULE Compress ------------------------------
(***************************************************************************)
(* C18 - compression.  Executable reference definitions, written from the  *)
(* format documents, not from the driver or its libraries:                 *)
(*  - the snappy block format (google/snappy format_description.txt):      *)
(*    preamble = uncompressed length as a little-endian base-128 varint;   *)
(*    elements: literal (tag 00), copy with 1-byte offset (01), 2-byte     *)
(*    offset (10), 4-byte offset (11);                                     *)
(*  - the LZ4 block format (lz4_Block_format.md): sequences of token,      *)
(*    literal-length extension, literals, 2-byte little-endian offset,     *)
(*    match-length extension; the last sequence stops after its literals;  *)
(*  - Cassandra's framing of an LZ4 body (native protocol v4 section 5):   *)
(*    4 bytes big-endian uncompressed length, then one LZ4 block.          *)
(* The decoders are total: malformed input gives the value Err.            *)
(*                                                                         *)
(* Each decoder has a strict and a lenient reading.  strict = everything   *)
(* the format documents demand of a well-formed stream; lenient = only     *)
(* what no decoder can do without (structure, offsets, declared length).   *)
(*   strict accepts with value v  => a conforming peer may send it; the    *)
(*                                   driver must decode it to exactly v;   *)
(*   lenient rejects              => structurally invalid: the driver must *)
(*                                   report an error;                      *)
(*   otherwise                    => undecided, nothing is required.       *)
(* The second half holds the negotiation / flag rules of the property.     *)
(***************************************************************************)
EXTENDS Integers, Sequences

\* error values (bytes are 0 .. 255, so no output equals one); the number says what is wrong
Err == <<-1>>                \* malformed (other)
ErrTrunc == <<-2>>           \* the input ends inside an element / a length field
ErrOffset == <<-3>>          \* a copy reaches before the start of the output
ErrOffset0 == <<-5>>         \* a copy with offset 0
ErrLength == <<-4>>          \* the declared uncompressed length and the content disagree
IsErr(x) == Len(x) = 1 /\ x[1] < 0
Pow2(k) == 2 ^ k

\* bytes appended by a copy of len bytes from distance off behind the end of out (may overlap)
CopyBytes(out, off, len) == LET m == Len(out) IN [j \in 1 .. len |-> out[m - off + 1 + ((j - 1) % off)]]

\* little-endian value of the k bytes of s starting at i; -1 when it does not fit 31 bits
LE(s, i, k) ==
  IF k = 4 /\ s[i + 3] >= 128 THEN -1
  ELSE LET RECURSIVE F(_)
           F(j) == IF j = k THEN 0 ELSE s[i + j] * Pow2(8 * j) + F(j + 1)
       IN F(0)

--------------------------------------------------------------------------------
(* snappy *)

\* [v, nx, minimal]: value, index after the varint, whether it is the shortest encoding; v = -1: malformed
RECURSIVE Varint(_, _, _, _)
Varint(s, i, shift, acc) ==
  IF i > Len(s) \/ shift > 28 THEN [v |-> -1, nx |-> i, minimal |-> FALSE]
  ELSE LET b == s[i]
           lo == b % 128
       IN IF shift = 28 /\ lo > 7 THEN [v |-> -1, nx |-> i, minimal |-> FALSE]   \* >= 2^31: no frame body is that long
          ELSE IF b < 128 THEN [v |-> acc + lo * Pow2(shift), nx |-> i + 1, minimal |-> (lo # 0 \/ shift = 0)]
          ELSE Varint(s, i + 1, shift + 7, acc + lo * Pow2(shift))

RECURSIVE SnappyLoop(_, _, _, _)
SnappyLoop(s, i, out, n) ==
  IF i > Len(s) THEN (IF Len(out) = n THEN out ELSE ErrLength)
  ELSE
  LET tag == s[i]
      kind == tag % 4
      hi == tag \div 4
      copy(off, len, nx) == IF off = 0 THEN ErrOffset0
                            ELSE IF off < 0 \/ off > Len(out) THEN ErrOffset
                            ELSE IF Len(out) + len > n THEN ErrLength
                            ELSE SnappyLoop(s, nx, out \o CopyBytes(out, off, len), n)
  IN CASE kind = 0 ->
            LET extra == IF hi < 60 THEN 0 ELSE hi - 59
            IN IF i + extra > Len(s) THEN ErrTrunc
               ELSE LET len == IF hi < 60 THEN hi + 1
                               ELSE (LET v == LE(s, i + 1, extra) IN IF v < 0 \/ v >= Pow2(30) THEN -1 ELSE v + 1)
                        from == i + 1 + extra
                    IN IF len < 0 THEN Err
                       ELSE IF from + len - 1 > Len(s) THEN ErrTrunc
                       ELSE IF Len(out) + len > n THEN ErrLength
                       ELSE SnappyLoop(s, from + len, out \o SubSeq(s, from, from + len - 1), n)
       [] kind = 1 -> IF i + 1 > Len(s) THEN ErrTrunc
                      ELSE copy((tag \div 32) * 256 + s[i + 1], 4 + (hi % 8), i + 2)
       [] kind = 2 -> IF i + 2 > Len(s) THEN ErrTrunc
                      ELSE copy(LE(s, i + 1, 2), hi + 1, i + 3)
       [] OTHER    -> IF i + 4 > Len(s) THEN ErrTrunc
                      ELSE copy(LE(s, i + 1, 4), hi + 1, i + 5)

SnappyDecode(s, strict) ==
  LET p == Varint(s, 1, 0, 0)
  IN IF p.v < 0 THEN (IF p.nx > Len(s) THEN ErrTrunc ELSE ErrLength)
     ELSE IF strict /\ ~p.minimal THEN Err ELSE SnappyLoop(s, p.nx, <<>>, p.v)

--------------------------------------------------------------------------------
(* LZ4 block *)

\* length extension bytes from index i: add bytes until one is below 255.  [v, nx]; v = -1 truncated
RECURSIVE LenExt(_, _, _)
LenExt(s, i, acc) == IF i > Len(s) THEN [v |-> -1, nx |-> i]
                     ELSE IF s[i] = 255 THEN LenExt(s, i + 1, acc + 255)
                     ELSE [v |-> acc + s[i], nx |-> i + 1]

(* Decodes sequences from index i.  cap: the output may not grow beyond cap bytes      *)
(* (Cassandra's declared length).  strict additionally demands the end-of-block rules  *)
(* of the format document: the block ends with a literals-only sequence, the last 5    *)
(* bytes of output are literals, the last match starts at least 12 bytes before the    *)
(* end of the output (a block shorter than 13 bytes of output has no match at all).    *)
(* lastm: output length at the start of the last match so far (-1: none).              *)
RECURSIVE Lz4Loop(_, _, _, _, _, _)
Lz4Loop(s, i, out, cap, strict, lastm) ==
  IF i > Len(s) THEN (IF strict THEN Err ELSE out)          \* input ended where a token should be
  ELSE
  LET tok == s[i]
      ll0 == tok \div 16
      ml0 == tok % 16
      le == IF ll0 = 15 THEN LenExt(s, i + 1, 15) ELSE [v |-> ll0, nx |-> i + 1]
  IN IF le.v < 0 \/ le.nx + le.v - 1 > Len(s) THEN ErrTrunc
     ELSE IF Len(out) + le.v > cap THEN ErrLength
     ELSE
     LET out1 == out \o SubSeq(s, le.nx, le.nx + le.v - 1)
         j == le.nx + le.v
     IN IF j > Len(s)
        THEN \* last sequence: literals only
             IF strict /\ (ml0 # 0 \/ (lastm >= 0 /\ (le.v < 5 \/ Len(out1) - lastm < 12))) THEN Err ELSE out1
        ELSE IF j + 1 > Len(s) THEN ErrTrunc                \* offset cut
        ELSE
        LET off == s[j] + 256 * s[j + 1]
            me == IF ml0 = 15 THEN LenExt(s, j + 2, 15) ELSE [v |-> ml0, nx |-> j + 2]
        IN IF off = 0 THEN ErrOffset0
           ELSE IF off > Len(out1) THEN ErrOffset
           ELSE IF me.v < 0 THEN ErrTrunc
           ELSE IF Len(out1) + me.v + 4 > cap THEN ErrLength
           ELSE Lz4Loop(s, me.nx, out1 \o CopyBytes(out1, off, me.v + 4), cap, strict, Len(out1))

Lz4BlockDecode(s, cap, strict) ==
  IF s = <<>> THEN (IF strict THEN Err ELSE <<>>)           \* a block has at least one token
  ELSE Lz4Loop(s, 1, <<>>, cap, strict, -1)

\* Cassandra: [int] uncompressed length (big-endian), then the block, which must produce exactly that
\* many bytes.  Lenient: a declared length of 0 stands for the empty body whatever follows (the
\* driver's own test-suite documents that reading).
Lz4CassDecode(s, strict) ==
  IF Len(s) < 4 THEN ErrTrunc
  ELSE IF s[1] >= 128 THEN ErrLength                           \* >= 2^31: no frame body is that long
  ELSE LET n == ((s[1] * 256 + s[2]) * 256 + s[3]) * 256 + s[4]
           blk == SubSeq(s, 5, Len(s))
       IN IF n = 0 /\ ~strict THEN <<>>
          ELSE IF n = 0 THEN (IF blk = <<0>> THEN <<>> ELSE Err)
          ELSE LET o == Lz4BlockDecode(blk, n, strict)
               IN IF IsErr(o) THEN o ELSE IF Len(o) # n THEN ErrLength ELSE o

--------------------------------------------------------------------------------
(* "vfxor": the harness's stand-in for a third-party compressor (marker byte 197, then every  *)
(* byte xor 90); lets the flag rules be checked for a compressor that is neither snappy nor lz4 *)
Xor90(b) == LET RECURSIVE X(_, _, _)
                X(a, c, k) == IF k = 8 THEN 0
                              ELSE (IF (a % 2) # (c % 2) THEN Pow2(k) ELSE 0) + X(a \div 2, c \div 2, k + 1)
            IN X(b, 90, 0)
XorDecode(s) == IF s = <<>> \/ s[1] # 197 THEN Err ELSE [k \in 1 .. Len(s) - 1 |-> Xor90(s[k + 1])]

RefDecode(alg, s, strict) ==
  CASE alg = "snappy" -> SnappyDecode(s, strict)
    [] alg = "lz4" -> Lz4CassDecode(s, strict)
    [] alg = "vfxor" -> XorDecode(s)
    [] OTHER -> Err

--------------------------------------------------------------------------------
(* Negotiation and flag rules (property text; native protocol v4 sections 2.2, 4.1.1, 5) *)

OpStartup == 1
OpOptions == 5
FlagCompress == 1        \* bit 0 of the header's flags byte

\* "A compressor is used only if the server advertised it": the COMPRESSION option of STARTUP,
\* if present, names the configured compressor and the server's SUPPORTED listed it.
StartupCompressionAllowed(option, configured, advertised) ==
  option = "" \/ (option = configured /\ configured # "" /\ option \in advertised)
\* what a driver that wants compression does (not demanded by the property: drift if different)
StartupCompressionExpected(configured, advertised) ==
  IF configured # "" /\ configured \in advertised THEN configured ELSE ""

\* "OPTIONS and STARTUP are never compressed"; the flag may only be set once a compressor is negotiated
FlagAllowed(negotiated, op) == negotiated # "" /\ op \notin {OpOptions, OpStartup}

\* "request bodies are compressed exactly when the frame's compression flag is set": the body on
\* the wire, read as the flag says, is the logical body
WireBodyOK(flag, negotiated, wire, logical) ==
  IF flag THEN RefDecode(negotiated, wire, FALSE) = logical ELSE wire = logical

\* a response: flag set on a connection without compressor => error; corrupt compressed body => error
\* transparency, server -> driver: a frame carrying the flag on a connection that negotiated a compressor, whose
\* body is a well-formed (strict reading) compressed form, must be delivered - whatever its stream (responses and
\* server-pushed events alike)
GoodCompressedFrame(negotiated, flag, body) ==
  flag /\ negotiated # "" /\ ~IsErr(RefDecode(negotiated, body, TRUE))

ResponseMustFail(negotiated, flag, body) ==
  flag /\ (negotiated = "" \/ IsErr(RefDecode(negotiated, body, FALSE)))
=============================================================================
