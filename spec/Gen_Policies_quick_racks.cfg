SPECIFICATION Spec
CONSTANTS
  MaxLen = 4
  MaxNodes = 4
  MaxVnodes = 2
  NDcs = 1
  NRacks = 2
  KsIdx = {9, 11}
  TailLen = 0
  Variants = FALSE
  ExtraKs = {}
INVARIANTS CheckAndEmit
CHECK_DEADLOCK FALSE
