SPECIFICATION Spec
CONSTANTS
  MaxLen = 4
  MaxNodes = 4
  MaxVnodes = 2
  NDcs = 1
  NRacks = 2
  KsIdx = {9, 11}
  TailLen = 0
  Variants = FALSE
  Ks2 = 0
  ExtraKs = {}
INVARIANTS CheckAndEmit
CHECK_DEADLOCK FALSE
