SPECIFICATION TSpec
CONSTANTS
  Vers = {"a", "b"}
  Peers = {"p1"}
  MaxPolls = 0
  MaxFail = 0
  MaxEnv = 0
  CountNullVersion = FALSE
  Variant = "ok"
INVARIANT Report
CHECK_DEADLOCK FALSE
