--------------------------- MODULE Trace_Consume ---------------------------
(***************************************************************************)
(* code -> spec for X02 part 1: call sequences executed on a real          *)
(* Query / Iter / Scanner / Batch (replayed TLC paths and seeded random    *)
(* sequences) are stepped through Consume.tla.                             *)
(*                                                                         *)
(* Log (NDJSON): {"ev":"begin","id":n,"scn":{...}} opens a sequence,       *)
(* {"ev":"call","id":n,"call":{op,v},"ret":{b,err,ap,keys,vals,rows},      *)
(*  "proj":{spec,nrows,cols,pstate,wsp,warn,pay,host}} is one API call     *)
(* with what it returned and what the getters showed afterwards.           *)
(*                                                                         *)
(* The monitor is deterministic: S follows Aft; every step is judged       *)
(*   - against Res / Proj (the demanded result and getter values)          *)
(*   - by the properties of Consume.tla evaluated on the history H built   *)
(*     from the OBSERVED results (rows in order and once, Close idempotent *)
(*     and equal to the first error, final is final, Scanner needs Next)   *)
(* A call the documentation does not decide in the current state (~En)     *)
(* ends the judgement of that sequence (MONOUT skip): never a violation.   *)
(***************************************************************************)
EXTENDS Consume, Json, IOUtils, TLCExt

Log == ndJsonDeserialize(IOEnv.VF_TRACE)

VARIABLES l,     \* next line
          on,    \* the current sequence is still being judged
          out    \* verdicts of the last step
tvars == <<S, last, H, l, on, out>>

Dummy == Init0(Scn("query", "void", <<0>>, 0, FALSE))
Quiet == <<>>
Verdict(k, id, n, call, what, scn) == [k |-> k, id |-> id, n |-> n, op |-> call.op, v |-> call.v, what |-> what,
                                       shape |-> scn.shape, via |-> scn.via]

GoodScn(s) == /\ s.via \in {"query", "batch"} /\ s.shape \in {"rows", "void", "cas"}
              /\ Len(s.pages) >= 1 /\ \A i \in 1 .. Len(s.pages) : s.pages[i] >= 0
              /\ s.fail >= 0 /\ s.fail <= Len(s.pages)
              /\ (s.shape = "void" => s.pages = <<0>>)
              /\ (s.shape = "cas" => Len(s.pages) = 1 /\ s.pages[1] >= 1 /\ (s.applied => s.pages[1] = 1))
              /\ (s.via = "batch" => s.shape # "rows")

RetFields == <<"b", "err", "ap", "keys", "vals", "rows">>
RetDiff(a, e) == CASE a.b # e.b -> "b" [] a.err # e.err -> "err" [] a.ap # e.ap -> "ap"
                   [] a.keys # e.keys -> "keys" [] a.vals # e.vals -> "vals" [] a.rows # e.rows -> "rows" [] OTHER -> ""
ProjDiff(a, e) == CASE a.nrows # e.nrows -> "NumRows" [] a.cols # e.cols -> "Columns" [] a.pstate # e.pstate -> "PageState"
                    [] a.wsp # e.wsp -> "WillSwitchPage" [] a.warn # e.warn -> "Warnings" [] a.pay # e.pay -> "GetCustomPayload"
                    [] a.host # e.host -> "Host" [] OTHER -> ""

\* properties of Consume.tla on the observed history
HistViol(h, St, c, r) ==
  LET h2 == HNext(h, St, c, r, Aft(St, c)) IN
  (IF ~IsPrefix(h2.rows, AllRows(St.scn)) THEN {"RowsInOrderOnce"} ELSE {}) \cup
  (IF h.fin /\ RowYielding(c) /\ (r.b = "t" \/ r.rows # <<>>) THEN {"FinalIsFinal"} ELSE {}) \cup
  (IF c.op = "Close" /\ h.cret # "unset" /\ r.err # h.cret THEN {"CloseIdempotent"} ELSE {}) \cup
  (IF c.op = "SScan" /\ r.err = "none" /\ ~h.staged THEN {"ScannerNeedsNext"} ELSE {})

SetToSeq(X) == LET RECURSIVE F(_) F(Y) == IF Y = {} THEN <<>> ELSE LET m == CHOOSE x \in Y : TRUE IN <<m>> \o F(Y \ {m}) IN F(X)

TInit == S = Dummy /\ last = [call |-> Call("-", "-"), ret |-> NoRet] /\ H = H0 /\ l = 1 /\ on = FALSE /\ out = Quiet

TNext ==
  /\ l <= Len(Log)
  /\ l' = l + 1
  /\ LET rec == Log[l] IN
     IF rec.ev = "begin" THEN
       IF GoodScn(rec.scn)
       THEN /\ S' = Init0(rec.scn) /\ H' = H0 /\ on' = TRUE /\ out' = Quiet /\ UNCHANGED last
       ELSE /\ on' = FALSE /\ out' = <<Verdict("skip", rec.id, 0, Call("-", "-"), "scenario-outside-the-model", rec.scn)>>
            /\ UNCHANGED <<S, H, last>>
     ELSE IF ~on THEN UNCHANGED <<S, H, last, on>> /\ out' = Quiet
     ELSE LET c == rec.call IN
       IF ~(c \in Calls /\ En(S, c))
       THEN /\ on' = FALSE /\ out' = <<Verdict("skip", rec.id, rec.n, c, "call-not-decided-by-the-documentation", S.scn)>>
            /\ UNCHANGED <<S, H, last>>
       ELSE LET e == Res(S, c)
                S2 == Aft(S, c)
                rd == RetDiff(rec.ret, e)
                pd == IF Proj(S2).spec THEN ProjDiff(rec.proj, Proj(S2)) ELSE ""
                hv == HistViol(H, S, c, rec.ret)
                \* a Scanner.Scan that hands out a row although none is staged: name the situation
                what == IF c.op = "SScan" /\ rd = "err" /\ rec.ret.err = "none" /\ S.valid = "no"
                        THEN IF last.call.op = "Next" /\ last.ret.b = "f" THEN "stale-row-after-Next-returned-false"
                             ELSE IF last.call.op = "SScan" THEN "row-scanned-again-without-Next"
                             ELSE "row-without-Next"
                        ELSE "result:" \o rd
                vs == (IF rd # "" THEN <<Verdict("viol", rec.id, rec.n, c, what, S.scn)>> ELSE <<>>) \o
                      (IF rd = "" /\ pd # "" THEN <<Verdict("viol", rec.id, rec.n, c, "getter:" \o pd, S.scn)>> ELSE <<>>) \o
                      (IF rd = "" THEN [i \in 1 .. Cardinality(hv) |-> Verdict("viol", rec.id, rec.n, c, "property:" \o SetToSeq(hv)[i], S.scn)]
                       ELSE <<>>)
            IN /\ S' = S2
               /\ last' = [call |-> c, ret |-> rec.ret]
               /\ H' = HNext(H, S, c, rec.ret, S2)
               /\ out' = vs
               /\ on' = (vs = <<>>)

TSpec == TInit /\ [][TNext]_tvars

Report == \A i \in 1 .. Len(out) : PrintT(<<"MONOUT", ToJson(out[i])>>)
Finished == l <= Len(Log) \/ PrintT(<<"MONDONE", l - 1>>)
=============================================================================
