----------------------------- MODULE Gen_Writer -----------------------------
(* One TLC state per writer-level case of C07: (mode, frame sizes of a batch /  *)
(* sequence of writers, number of bytes the socket accepts).                    *)
EXTENDS Integers, Sequences, FiniteSets, TLC, Json
CONSTANTS MaxFrames, MaxLen
VARIABLE c
LenSeqs == UNION {[1 .. n -> 1 .. MaxLen] : n \in 1 .. MaxFrames}
SumSeq(s) == LET RECURSIVE S(_) S(i) == IF i > Len(s) THEN 0 ELSE s[i] + S(i + 1) IN S(1)
Cases == {[mode |-> m, lens |-> l, k |-> k] : m \in {"direct", "coalesce"}, l \in LenSeqs, k \in -1 .. 9}
Init == c \in {x \in Cases : x.k <= SumSeq(x.lens)}
Next == UNCHANGED c
Spec == Init /\ [][Next]_c
Emit == PrintT(<<"CASE", ToJson(c)>>)
=============================================================================
