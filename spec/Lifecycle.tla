----------------------------- MODULE Lifecycle -----------------------------
(***************************************************************************)
(* Session.Close (session.go) racing the session's background goroutines:  *)
(*                                                                         *)
(*  - the ring-refresh debouncer (host_source.go refreshDebouncer):        *)
(*    debounce, refreshNow, the flusher goroutine with its three-way       *)
(*    select (refreshNowCh / timer / quit) and stop();                     *)
(*  - the two event debouncers (events.go eventDebouncer): flusher, stop;  *)
(*  - the control connection (control.go): heartBeat's start CAS, its      *)
(*    probe / reconnect / refreshRing loop, close() with the quit send;    *)
(*  - Close's fixed order: flag, pools, control connection, event          *)
(*    debouncers, refresh debouncer, context, closed flag - called by      *)
(*    several goroutines;                                                  *)
(*  - a refresh that adds a host pool while Close runs.                    *)
(*                                                                         *)
(* One action = one critical section / channel operation.  The hand-shakes *)
(* of the code as it is today are kept behind constants (TRUE = today):    *)
(*   Defect_StopHandshake  refreshDebouncer.stop sends on the unbuffered   *)
(*       `quit` channel, the flusher may already have left its select;     *)
(*       refreshNow does not look at `stopped`.  FALSE = stop closes       *)
(*       `quit` and waits for the flusher's `done`; refreshNow after stop  *)
(*       returns a closed channel.                                         *)
(*   Defect_HeartbeatStart controlConn.close leaves state "starting"       *)
(*       untouched, so a heartBeat goroutine scheduled after close starts  *)
(*       and is never stopped.  FALSE = close always moves to "closing".   *)
(*   Defect_LatePool  policyConnPool.addHost after policyConnPool.Close    *)
(*       creates a pool nobody closes.  FALSE = refused once closed.       *)
(*   Defect_ReconnectInline  controlConn.HandleError runs reconnect() on   *)
(*       the goroutine that noticed the failure; when that is the refresh  *)
(*       flusher (its own query failed), reconnect's Session.refreshRing() *)
(*       waits for the flusher itself.  FALSE = reconnect runs in its own  *)
(*       goroutine.                                                        *)
(*   Defect_EvStopUnderLock  eventDebouncer.stop() takes e.mu and keeps it  *)
(*       over the quit hand-off; a flusher that left its select by the     *)
(*       timer case waits for e.mu and never takes the hand-off.           *)
(*   Defect_EvSyncCallback  the flusher runs the event handler itself      *)
(*       under e.mu: debounce and stop (Session.Close) wait for a handler  *)
(*       that may wait for schema agreement or an unreachable node.        *)
(*   Defect_ReconnectWindow  reconnect() looks at `closing` only before it *)
(*       dials: a connection it installs after controlConn.close() ran is  *)
(*       never closed.  FALSE = it looks again after installing and closes *)
(*       the new connection itself.                                        *)
(*                                                                         *)
(* What C17 demands: no deadlock; every Close returns; after the working   *)
(* Close returned every connection is closed, the background goroutines    *)
(* exit, nobody waits forever, queries fail with the session-closed error. *)
(***************************************************************************)
EXTENDS Integers, FiniteSets, Sequences, TLC

CONSTANTS
  Closers,        \* goroutines calling Session.Close
  Requesters,     \* goroutines calling Session.refreshRing() (besides the heartbeat)
  MaxDebounce,    \* debounce() calls on the refresh debouncer by the environment
  MaxEvents,      \* events arriving at the node-event debouncer
  MaxProbeFail,   \* failing heartbeat probes (each leads to reconnect + refreshRing)
  MaxAddHost,     \* refreshes that find a new host (pool creation)
  WithControl,    \* BOOLEAN: the session has a control connection
  OnlyDebouncer,  \* BOOLEAN: the closers call refreshDebouncer.stop() directly (debouncer in isolation)
  MaxCtlFail,     \* control-connection failures noticed by the refresh flusher's own query
  Defect_StopHandshake, Defect_HeartbeatStart, Defect_LatePool, Defect_ReconnectInline, Defect_ReconnectWindow,
  Defect_CloseHoldsStateLock, \* TRUE: Session.Close keeps sessionStateMu for its whole duration (setupConn reads it)
  Defect_QuitNonBlocking,     \* TRUE: controlConn.close signals the heartbeat with a non-blocking send
  Defect_EvStopUnderLock,  \* TRUE: eventDebouncer.stop() takes e.mu before the quit hand-off (the flusher needs e.mu to flush)
  Defect_EvSyncCallback,   \* TRUE: the flusher runs the event handler itself, under e.mu, instead of on its own goroutine
  EvEager,                 \* TRUE: the flusher takes a free e.mu in the same step as the timer case (no hook separates them)
  Mut             \* "none" or a named mutation (model self-test)

HB == "hb"   \* the heartbeat goroutine as a caller of refreshRing()
FL == "fl"   \* the refresh flusher itself (reconnect run inline)
RC == "rc"   \* the reconnect goroutine started by controlConn.HandleError (repaired)
Reqs == Requesters \cup {HB, FL, RC}
EvDeb == {"node", "schema"}

VARIABLES
  \* refresh debouncer
  rdStopped, rdHasBc, rdBc, rdNow, rdTimer, rdQuit, rdDone, flPc, flCur, reqPc,
  nDebounce,
  \* event debouncers
  evPc, evTimer, evQuit, evCb, nEvents,
  evMu,      \* e.mu of each event debouncer: "free" | "deb" (debounce) | "fl" (flusher) | "stop"
  evQ,       \* goroutines parked on e.mu, first come first served: sequence over {"fl", "stop"}
  debPc,     \* the goroutine delivering an event to the node debouncer: "idle" | "locked"
  \* control connection
  ccState, hbPc, ccConnOpen, nProbeFail, reconn, rcPc, nCtlFail,
  \* session
  isClosing, isClosed, poolsClosed, tracked, stray, ctxCancelled, kpc, nAddHost, panicked,
  \* queries issued after some Close returned
  qres

vars == <<rdStopped, rdHasBc, rdBc, rdNow, rdTimer, rdQuit, rdDone, flPc, flCur, reqPc, nDebounce,
          evPc, evTimer, evQuit, evCb, nEvents, evMu, evQ, debPc, ccState, hbPc, ccConnOpen, nProbeFail, reconn, rcPc, nCtlFail,
          isClosing, isClosed, poolsClosed, tracked, stray, ctxCancelled, kpc, nAddHost, panicked, qres>>

rdVars == <<rdStopped, rdHasBc, rdBc, rdNow, rdTimer, rdQuit, rdDone, flPc, flCur, reqPc, nDebounce>>
evVars == <<evPc, evTimer, evQuit, evCb, nEvents, evMu, evQ, debPc>>
ccVars == <<ccState, hbPc, ccConnOpen, nProbeFail, reconn, rcPc, nCtlFail>>
seVars == <<isClosing, isClosed, poolsClosed, tracked, stray, ctxCancelled, kpc, nAddHost, panicked, qres>>

Init ==
  /\ rdStopped = FALSE /\ rdHasBc = FALSE /\ rdBc = {} /\ rdNow = 0 /\ rdTimer = "off"
  /\ rdQuit = "open" /\ rdDone = FALSE /\ flPc = "select" /\ flCur = {}
  /\ reqPc = [r \in Reqs |-> "idle"] /\ nDebounce = 0
  /\ evPc = [e \in EvDeb |-> "select"] /\ evTimer = [e \in EvDeb |-> "off"]
  /\ evQuit = [e \in EvDeb |-> "open"] /\ evCb = 0 /\ nEvents = 0
  /\ evMu = [e \in EvDeb |-> "free"] /\ evQ = [e \in EvDeb |-> <<>>] /\ debPc = "idle"
  /\ ccState = "starting" /\ hbPc = IF WithControl THEN "spawned" ELSE "exited"
  /\ ccConnOpen = WithControl /\ nProbeFail = 0 /\ reconn = FALSE /\ rcPc = "idle" /\ nCtlFail = 0
  /\ isClosing = FALSE /\ isClosed = FALSE /\ poolsClosed = FALSE /\ tracked = 1 /\ stray = 0
  /\ ctxCancelled = FALSE /\ kpc = [k \in Closers |-> "idle"] /\ nAddHost = 0 /\ panicked = FALSE
  /\ qres = "none"

(* ======================= refresh debouncer ================================= *)
\* refreshNow(): under d.mu
RefreshNowBy(r) ==
  IF ~Defect_StopHandshake /\ rdStopped
  THEN /\ reqPc' = [reqPc EXCEPT ![r] = "closed"]       \* repaired: a closed listener, the caller sees "stopped"
       /\ UNCHANGED <<rdHasBc, rdBc, rdNow>>
  ELSE /\ reqPc' = [reqPc EXCEPT ![r] = "waiting"]
       /\ rdBc' = IF rdHasBc THEN rdBc \cup {r} ELSE {r}
       /\ rdHasBc' = TRUE
       /\ rdNow' = IF rdHasBc THEN rdNow ELSE 1

RefreshNow(r) ==
  /\ r \in Requesters
  /\ reqPc[r] = "idle"
  /\ RefreshNowBy(r)
  /\ UNCHANGED <<rdStopped, rdTimer, rdQuit, rdDone, flPc, flCur, nDebounce>>
  /\ UNCHANGED <<evVars, ccVars, seVars>>

DebounceEffect ==
  rdTimer' = IF rdStopped \/ rdTimer = "fired" THEN rdTimer ELSE "armed"

Debounce ==
  /\ nDebounce < MaxDebounce
  /\ nDebounce' = nDebounce + 1
  /\ DebounceEffect
  /\ UNCHANGED <<rdStopped, rdHasBc, rdBc, rdNow, rdQuit, rdDone, flPc, flCur, reqPc>>
  /\ UNCHANGED <<evVars, ccVars, seVars>>

TimerFire ==
  /\ rdTimer = "armed"
  /\ rdTimer' = "fired"
  /\ UNCHANGED <<rdStopped, rdHasBc, rdBc, rdNow, rdQuit, rdDone, flPc, flCur, reqPc, nDebounce>>
  /\ UNCHANGED <<evVars, ccVars, seVars>>

\* the flusher's select: refreshNowCh, timer.C or (repaired) the closed quit channel.  The quit
\* *send* of the code today is a rendezvous and is part of RsSend below.
FlSelect ==
  /\ flPc = "select"
  /\ \/ /\ rdNow = 1 /\ rdNow' = 0 /\ UNCHANGED rdTimer
     \/ /\ rdTimer = "fired" /\ rdTimer' = "off" /\ UNCHANGED rdNow
     \/ /\ rdQuit = "closed" /\ UNCHANGED <<rdNow, rdTimer>>
  /\ flPc' = "woke"
  /\ UNCHANGED <<rdStopped, rdHasBc, rdBc, rdQuit, rdDone, flCur, reqPc, nDebounce>>
  /\ UNCHANGED <<evVars, ccVars, seVars>>

\* the flusher takes d.mu
FlLock ==
  /\ flPc = "woke"
  /\ IF rdStopped
     THEN /\ flPc' = "exited"
          \* broadcaster.stop(): the listeners of the pending broadcaster (requests registered after the
          \* flusher last took the broadcaster, e.g. while refreshFn was running) get a closed channel
          /\ reqPc' = [r \in Reqs |-> IF rdHasBc /\ r \in rdBc /\ reqPc[r] = "waiting" /\ Mut # "dropbc"
                                       THEN "closed" ELSE reqPc[r]]
          /\ rdHasBc' = FALSE /\ rdBc' = {}
          /\ rdTimer' = "off"
          /\ rdDone' = TRUE
          /\ UNCHANGED <<rdNow, flCur>>
     ELSE /\ flPc' = "refreshing"
          /\ rdNow' = 0
          /\ rdTimer' = "off"
          /\ flCur' = IF rdHasBc THEN rdBc ELSE {}
          /\ rdHasBc' = FALSE /\ rdBc' = {}
          /\ UNCHANGED <<reqPc, rdDone>>
  /\ UNCHANGED <<rdStopped, rdQuit, nDebounce>>
  /\ UNCHANGED <<evVars, ccVars, seVars>>

\* refreshFn runs (may find a new host and create its pool), then the result is broadcast
FlAddHost ==
  /\ flPc = "refreshing"
  /\ nAddHost < MaxAddHost
  /\ nAddHost' = nAddHost + 1
  /\ IF ctxCancelled THEN UNCHANGED <<tracked, stray>>                       \* the dial fails
     ELSE IF ~poolsClosed THEN tracked' = tracked + 1 /\ UNCHANGED stray
     ELSE IF Defect_LatePool THEN stray' = stray + 1 /\ UNCHANGED tracked    \* a pool nobody will close
     ELSE UNCHANGED <<tracked, stray>>                                       \* refused: the pools are closed
  /\ UNCHANGED <<isClosing, isClosed, poolsClosed, ctxCancelled, kpc, panicked, qres>>
  /\ UNCHANGED <<rdVars, evVars, ccVars>>

FlRefreshDone ==
  /\ flPc = "refreshing"
  /\ flPc' = "select"
  /\ reqPc' = [r \in Reqs |-> IF r \in flCur /\ reqPc[r] = "waiting" THEN "answered" ELSE reqPc[r]]
  /\ flCur' = {}
  /\ UNCHANGED <<rdStopped, rdHasBc, rdBc, rdNow, rdTimer, rdQuit, rdDone, nDebounce>>
  /\ UNCHANGED <<evVars, ccVars, seVars>>

(* ======================= event debouncers ================================== *)
\* e.mu: Unlock hands the mutex to the goroutine parked longest (sync.Mutex wakes its waiters first come first served)
Release(e) ==
  IF evQ[e] = <<>>
  THEN evMu' = [evMu EXCEPT ![e] = "free"] /\ UNCHANGED evQ
  ELSE evMu' = [evMu EXCEPT ![e] = Head(evQ[e])] /\ evQ' = [evQ EXCEPT ![e] = Tail(@)]

\* debounce(frame): a critical section under e.mu (re-arms the timer first, appends the frame; a full buffer is
\* reported to the logger inside it)
EvDebLock ==
  /\ debPc = "idle" /\ nEvents < MaxEvents
  /\ evMu["node"] = "free"
  /\ evMu' = [evMu EXCEPT !["node"] = "deb"]
  /\ debPc' = "locked"
  /\ nEvents' = nEvents + 1
  /\ evTimer' = [evTimer EXCEPT !["node"] = IF @ = "fired" THEN @ ELSE "armed"]   \* timer.Reset comes first
  /\ UNCHANGED <<evPc, evQuit, evCb, evQ>>
  /\ UNCHANGED <<rdVars, ccVars, seVars>>

EvDebUnlock ==
  /\ debPc = "locked"
  /\ Release("node")
  /\ debPc' = "idle"
  /\ UNCHANGED <<evPc, evTimer, evQuit, evCb, nEvents>>
  /\ UNCHANGED <<rdVars, ccVars, seVars>>

EvTimerFire(e) ==
  /\ evTimer[e] = "armed"
  /\ evTimer' = [evTimer EXCEPT ![e] = "fired"]
  /\ UNCHANGED <<evPc, evQuit, evCb, nEvents, evMu, evQ, debPc>>
  /\ UNCHANGED <<rdVars, ccVars, seVars>>

\* the flusher leaves its select by the timer case ...
EvSelectTimer(e) ==
  /\ evPc[e] = "select" /\ evTimer[e] = "fired"
  /\ evTimer' = [evTimer EXCEPT ![e] = "off"]
  /\ evPc' = [evPc EXCEPT ![e] = "woke"]
  /\ UNCHANGED <<evQuit, evCb, nEvents, evMu, evQ, debPc>>
  /\ UNCHANGED <<rdVars, ccVars, seVars>>

\* ... and calls e.mu.Lock(): takes a free mutex or parks behind whoever holds it
EvFlLock(e) ==
  /\ evPc[e] = "woke"
  /\ IF evMu[e] = "free"
     THEN evMu' = [evMu EXCEPT ![e] = "fl"] /\ UNCHANGED evQ
     ELSE evQ' = [evQ EXCEPT ![e] = Append(@, "fl")] /\ UNCHANGED evMu
  /\ evPc' = [evPc EXCEPT ![e] = "locking"]
  /\ UNCHANGED <<evTimer, evQuit, evCb, nEvents, debPc>>
  /\ UNCHANGED <<rdVars, ccVars, seVars>>

\* flush under e.mu: the events go to a handler goroutine (or, Defect_EvSyncCallback, the handler runs right here)
EvFlushLocked(e) ==
  /\ evPc[e] = "locking" /\ evMu[e] = "fl"
  /\ IF Defect_EvSyncCallback
     THEN /\ evPc' = [evPc EXCEPT ![e] = "incallback"]
          /\ UNCHANGED <<evMu, evQ, evCb>>
     ELSE /\ evPc' = [evPc EXCEPT ![e] = "select"]
          /\ Release(e)
          /\ evCb' = evCb + 1
  /\ UNCHANGED <<evTimer, evQuit, nEvents, debPc>>
  /\ UNCHANGED <<rdVars, ccVars, seVars>>

\* (Defect_EvSyncCallback) the handler running on the flusher returns - whenever it likes: it may wait for schema
\* agreement or talk to an unreachable node, so this is an environment step
EvHandlerDone(e) ==
  /\ evPc[e] = "incallback"
  /\ evPc' = [evPc EXCEPT ![e] = "select"]
  /\ Release(e)
  /\ DebounceEffect
  /\ UNCHANGED <<evTimer, evQuit, evCb, nEvents, debPc>>
  /\ UNCHANGED <<rdStopped, rdHasBc, rdBc, rdNow, rdQuit, rdDone, flPc, flCur, reqPc, nDebounce>>
  /\ UNCHANGED <<ccVars, seVars>>

\* handleNodeEvent on its own goroutine: a topology event asks for a debounced ring refresh
EvCallback ==
  /\ evCb > 0
  /\ evCb' = evCb - 1
  /\ DebounceEffect
  /\ UNCHANGED <<evPc, evTimer, evQuit, nEvents, evMu, evQ, debPc>>
  /\ UNCHANGED <<rdStopped, rdHasBc, rdBc, rdNow, rdQuit, rdDone, flPc, flCur, reqPc, nDebounce>>
  /\ UNCHANGED <<ccVars, seVars>>

(* ======================= control connection ================================ *)
HbStart ==
  /\ hbPc = "spawned"
  /\ IF ccState = "starting"
     THEN ccState' = "started" /\ hbPc' = "select"
     ELSE hbPc' = "exited" /\ UNCHANGED ccState
  /\ UNCHANGED <<ccConnOpen, nProbeFail, reconn, rcPc, nCtlFail>>
  /\ UNCHANGED <<rdVars, evVars, seVars>>

\* the heartbeat timer was reset just before the select: it cannot be ready while a closer is
\* already blocked on the quit send
HbTimer ==
  /\ hbPc = "select"
  /\ \A k \in Closers : kpc[k] # "cc_send"
  /\ hbPc' = "probe"
  /\ UNCHANGED <<ccState, ccConnOpen, nProbeFail, reconn, rcPc, nCtlFail>>
  /\ UNCHANGED <<rdVars, evVars, seVars>>

HbProbe ==
  /\ hbPc = "probe"
  /\ \/ /\ ccConnOpen /\ hbPc' = "select" /\ UNCHANGED nProbeFail
     \/ /\ nProbeFail < MaxProbeFail \/ ~ccConnOpen
        /\ nProbeFail' = IF nProbeFail < MaxProbeFail THEN nProbeFail + 1 ELSE nProbeFail
        /\ hbPc' = "reconnect"
  /\ UNCHANGED <<ccState, ccConnOpen, reconn, rcPc, nCtlFail>>
  /\ UNCHANGED <<rdVars, evVars, seVars>>

\* reconnect(): returns at once when closing; otherwise re-dials (fails once the context is
\* cancelled) and calls Session.refreshRing(), i.e. refreshNow + wait
\* the body of controlConn.reconnect() up to the refreshRing() call, run by `who`:
\* nothing when closing, when another reconnect is in progress or when the dial fails
ReconnectProceeds == ccState # "closing" /\ ~reconn /\ ~ctxCancelled

\* sessionStateMu: Close takes it for its flag updates only - or (Defect_CloseHoldsStateLock) from its first statement
\* to its return; setupConn of a reconnect reads it (Session.initialized())
StateLockHeld == Defect_CloseHoldsStateLock /\ \E k \in Closers : kpc[k] \notin {"idle", "done"}

\* the heartbeat goroutine's reconnect(): the `closing` check and the dial ...
HbReconnect ==
  /\ hbPc = "reconnect"
  /\ IF ~ReconnectProceeds
     THEN hbPc' = "select" /\ UNCHANGED reconn
     ELSE hbPc' = "hbsetup" /\ reconn' = TRUE
  /\ UNCHANGED <<ccState, ccConnOpen, nProbeFail, rcPc, nCtlFail>>
  /\ UNCHANGED <<rdVars, evVars, seVars>>

\* ... then setupConn on the new connection (system.local, REGISTER, Session.initialized() under sessionStateMu.RLock),
\* the second look at `closing`, and refreshRing()
HbSetup ==
  /\ hbPc = "hbsetup"
  /\ ~StateLockHeld
  /\ IF ctxCancelled \/ ccState = "closing"
     THEN /\ hbPc' = "select" /\ reconn' = FALSE           \* failed, or installed and closed again by reconnect itself
          /\ UNCHANGED <<ccConnOpen, reqPc, rdHasBc, rdBc, rdNow>>
     ELSE /\ hbPc' = "waitrefresh"
          /\ ccConnOpen' = TRUE
          /\ RefreshNowBy(HB)
          /\ UNCHANGED reconn
  /\ UNCHANGED <<ccState, nProbeFail, rcPc, nCtlFail>>
  /\ UNCHANGED <<rdStopped, rdTimer, rdQuit, rdDone, flPc, flCur, nDebounce>>
  /\ UNCHANGED <<evVars, seVars>>

HbAnswered ==
  /\ hbPc = "waitrefresh"
  /\ reqPc[HB] \in {"answered", "closed"}
  /\ reqPc' = [reqPc EXCEPT ![HB] = "idle"]
  /\ hbPc' = "select"
  /\ reconn' = FALSE
  /\ UNCHANGED <<ccState, ccConnOpen, nProbeFail, rcPc, nCtlFail>>
  /\ UNCHANGED <<rdStopped, rdHasBc, rdBc, rdNow, rdTimer, rdQuit, rdDone, flPc, flCur, nDebounce>>
  /\ UNCHANGED <<evVars, seVars>>

\* The flusher's own query fails on the control connection (write error / timeout): Conn.exec calls
\* closeWithError on this goroutine, which calls controlConn.HandleError.
FlCtlFail ==
  /\ flPc = "refreshing" /\ WithControl /\ ccConnOpen
  /\ nCtlFail < MaxCtlFail
  /\ nCtlFail' = nCtlFail + 1
  /\ IF Defect_ReconnectInline
     THEN IF ~ReconnectProceeds
          THEN /\ ccConnOpen' = FALSE
               /\ UNCHANGED <<flPc, reconn, reqPc, rdHasBc, rdBc, rdNow, rcPc>>
          ELSE /\ flPc' = "selfwait"              \* reconnect() inline: refreshRing() from the flusher
               /\ reconn' = TRUE
               /\ ccConnOpen' = TRUE
               /\ RefreshNowBy(FL)
               /\ UNCHANGED rcPc
     ELSE /\ ccConnOpen' = FALSE
          /\ rcPc' = IF rcPc = "idle" THEN "reconnect" ELSE rcPc   \* go c.reconnect()
          /\ UNCHANGED <<flPc, reconn, reqPc, rdHasBc, rdBc, rdNow>>
  /\ UNCHANGED <<ccState, hbPc, nProbeFail>>
  /\ UNCHANGED <<rdStopped, rdTimer, rdQuit, rdDone, flCur, nDebounce>>
  /\ UNCHANGED <<evVars, seVars>>

FlSelfAnswered ==
  /\ flPc = "selfwait"
  /\ reqPc[FL] \in {"answered", "closed"}
  /\ reqPc' = [reqPc EXCEPT ![FL] = "idle"]
  /\ flPc' = "refreshing"
  /\ reconn' = FALSE
  /\ UNCHANGED <<ccState, hbPc, ccConnOpen, nProbeFail, rcPc, nCtlFail>>
  /\ UNCHANGED <<rdStopped, rdHasBc, rdBc, rdNow, rdTimer, rdQuit, rdDone, flCur, nDebounce>>
  /\ UNCHANGED <<evVars, seVars>>

\* the reconnect goroutine of the repaired HandleError: the `closing` check, then (a separate step) the
\* dial and installation of the new control connection followed by refreshRing()
RcReconnect ==
  /\ rcPc = "reconnect"
  /\ IF ~ReconnectProceeds
     THEN rcPc' = "done" /\ UNCHANGED reconn
     ELSE rcPc' = "dial" /\ reconn' = TRUE
  /\ UNCHANGED <<ccState, hbPc, ccConnOpen, nProbeFail, nCtlFail>>
  /\ UNCHANGED <<rdVars, evVars, seVars>>

RcInstall ==
  /\ rcPc = "dial"
  /\ IF ctxCancelled                                   \* the dial / handshake fails
     THEN /\ rcPc' = "done" /\ reconn' = FALSE
          /\ UNCHANGED <<ccConnOpen, reqPc, rdHasBc, rdBc, rdNow>>
     ELSE IF ccState = "closing" /\ ~Defect_ReconnectWindow
     THEN /\ rcPc' = "done" /\ reconn' = FALSE           \* installed, then closed again by reconnect itself
          /\ UNCHANGED <<ccConnOpen, reqPc, rdHasBc, rdBc, rdNow>>
     ELSE /\ rcPc' = "wait"
          /\ ccConnOpen' = TRUE
          /\ RefreshNowBy(RC)
          /\ UNCHANGED reconn
  /\ UNCHANGED <<ccState, hbPc, nProbeFail, nCtlFail>>
  /\ UNCHANGED <<rdStopped, rdTimer, rdQuit, rdDone, flPc, flCur, nDebounce>>
  /\ UNCHANGED <<evVars, seVars>>

RcAnswered ==
  /\ rcPc = "wait"
  /\ reqPc[RC] \in {"answered", "closed"}
  /\ reqPc' = [reqPc EXCEPT ![RC] = "idle"]
  /\ rcPc' = "done"
  /\ reconn' = FALSE
  /\ UNCHANGED <<ccState, hbPc, ccConnOpen, nProbeFail, nCtlFail>>
  /\ UNCHANGED <<rdStopped, rdHasBc, rdBc, rdNow, rdTimer, rdQuit, rdDone, flPc, flCur, nDebounce>>
  /\ UNCHANGED <<evVars, seVars>>

(* ======================= Session.Close ===================================== *)
Goto(k, p) == kpc' = [kpc EXCEPT ![k] = p]

KFlag(k) ==
  /\ kpc[k] = "idle"
  /\ ~StateLockHeld
  /\ IF OnlyDebouncer
     THEN Goto(k, "rs_mark") /\ UNCHANGED isClosing
     ELSE IF isClosing /\ Mut # "noguard"
     THEN Goto(k, "done") /\ UNCHANGED isClosing
     ELSE isClosing' = TRUE /\ Goto(k, IF Mut = "cancelfirst" THEN "cancel0" ELSE "pools")
  /\ UNCHANGED <<isClosed, poolsClosed, tracked, stray, ctxCancelled, nAddHost, panicked, qres>>
  /\ UNCHANGED <<rdVars, evVars, ccVars>>

KPools(k) ==
  /\ kpc[k] = "pools"
  /\ poolsClosed' = TRUE
  /\ tracked' = 0
  /\ Goto(k, IF WithControl THEN "control" ELSE "ev_node")
  /\ UNCHANGED <<isClosing, isClosed, stray, ctxCancelled, nAddHost, panicked, qres>>
  /\ UNCHANGED <<rdVars, evVars, ccVars>>

\* controlConn.close(): CAS started -> closing, then the quit send
KControl(k) ==
  /\ kpc[k] = "control"
  /\ IF ccState = "started"
     THEN /\ ccState' = "closing"
          /\ IF Defect_QuitNonBlocking
             THEN \* select { case quit <- : default: }: taken only by a heartbeat that sits in its select right now
                  /\ hbPc' = IF hbPc = "select" THEN "exited" ELSE hbPc
                  /\ Goto(k, "cc_conn")
             ELSE Goto(k, "cc_send") /\ UNCHANGED hbPc
     ELSE /\ ccState' = IF Defect_HeartbeatStart THEN ccState ELSE "closing"
          /\ Goto(k, "cc_conn")
          /\ UNCHANGED hbPc
  /\ UNCHANGED <<ccConnOpen, nProbeFail, reconn, rcPc, nCtlFail>>
  /\ UNCHANGED <<isClosing, isClosed, poolsClosed, tracked, stray, ctxCancelled, nAddHost, panicked, qres>>
  /\ UNCHANGED <<rdVars, evVars>>

\* rendezvous on the unbuffered quit channel: the heartbeat must be in its select
KCcSend(k) ==
  /\ kpc[k] = "cc_send"
  /\ hbPc = "select"
  /\ hbPc' = "exited"
  /\ Goto(k, "cc_conn")
  /\ UNCHANGED <<ccState, ccConnOpen, nProbeFail, reconn, rcPc, nCtlFail>>
  /\ UNCHANGED <<isClosing, isClosed, poolsClosed, tracked, stray, ctxCancelled, nAddHost, panicked, qres>>
  /\ UNCHANGED <<rdVars, evVars>>

KCcConn(k) ==
  /\ kpc[k] = "cc_conn"
  /\ ccConnOpen' = FALSE
  /\ Goto(k, "ev_node")
  /\ UNCHANGED <<ccState, hbPc, nProbeFail, reconn, rcPc, nCtlFail>>
  /\ UNCHANGED <<isClosing, isClosed, poolsClosed, tracked, stray, ctxCancelled, nAddHost, panicked, qres>>
  /\ UNCHANGED <<rdVars, evVars>>

\* eventDebouncer.stop(): send on quit (rendezvous with the flusher's select), then close(quit);
\* a send or close on the closed channel panics
KEvStop(k, e, next) ==
  /\ kpc[k] = "ev_" \o e
  /\ IF evQuit[e] = "closed"
     THEN /\ panicked' = TRUE /\ Goto(k, next) /\ UNCHANGED <<evPc, evQuit, evMu, evQ, evTimer>>
     ELSE IF Defect_EvStopUnderLock
     THEN \* e.mu.Lock(): take a free mutex or park behind its holder
          \* (no hook separates Lock from the timer.Stop() that follows it: one step when the mutex is free)
          /\ IF evMu[e] = "free"
             THEN /\ evMu' = [evMu EXCEPT ![e] = "stop"] /\ UNCHANGED evQ
                  /\ evTimer' = [evTimer EXCEPT ![e] = IF @ = "armed" THEN "off" ELSE @]
                  /\ Goto(k, "evs_" \o e)
             ELSE /\ evQ' = [evQ EXCEPT ![e] = Append(@, "stop")] /\ UNCHANGED <<evMu, evTimer>>
                  /\ Goto(k, "evl_" \o e)
          /\ UNCHANGED <<evPc, evQuit, panicked>>
     ELSE /\ evPc[e] = "select"
          /\ evPc' = [evPc EXCEPT ![e] = "exited"]
          /\ evQuit' = [evQuit EXCEPT ![e] = "closed"]
          /\ Goto(k, next)
          /\ UNCHANGED <<panicked, evMu, evQ, evTimer>>
  /\ UNCHANGED <<evCb, nEvents, debPc>>
  /\ UNCHANGED <<isClosing, isClosed, poolsClosed, tracked, stray, ctxCancelled, nAddHost, qres>>
  /\ UNCHANGED <<rdVars, ccVars>>

\* (Defect_EvStopUnderLock) ... defer Unlock; timer.Stop(), once the mutex is owned
KEvStopLocked(k, e) ==
  /\ kpc[k] = "evl_" \o e
  /\ evMu[e] = "stop"
  /\ evTimer' = [evTimer EXCEPT ![e] = IF @ = "armed" THEN "off" ELSE @]
  /\ Goto(k, "evs_" \o e)
  /\ UNCHANGED <<evPc, evQuit, evCb, nEvents, evMu, evQ, debPc, panicked>>
  /\ UNCHANGED <<isClosing, isClosed, poolsClosed, tracked, stray, ctxCancelled, nAddHost, qres>>
  /\ UNCHANGED <<rdVars, ccVars>>

\* (Defect_EvStopUnderLock) the quit hand-off while e.mu is held
KEvStopSend(k, e, next) ==
  /\ kpc[k] = "evs_" \o e
  /\ evPc[e] = "select"
  /\ evPc' = [evPc EXCEPT ![e] = "exited"]
  /\ evQuit' = [evQuit EXCEPT ![e] = "closed"]
  /\ Release(e)
  /\ Goto(k, next)
  /\ UNCHANGED <<evTimer, evCb, nEvents, debPc, panicked>>
  /\ UNCHANGED <<isClosing, isClosed, poolsClosed, tracked, stray, ctxCancelled, nAddHost, qres>>
  /\ UNCHANGED <<rdVars, ccVars>>

\* refreshDebouncer.stop(), first critical section
RsMark(k) ==
  /\ kpc[k] = "rs_mark"
  /\ IF rdStopped
     THEN Goto(k, "cancel") /\ UNCHANGED rdStopped
     ELSE rdStopped' = TRUE /\ Goto(k, "rs_send")
  /\ UNCHANGED <<rdHasBc, rdBc, rdNow, rdTimer, rdQuit, rdDone, flPc, flCur, reqPc, nDebounce>>
  /\ UNCHANGED <<isClosing, isClosed, poolsClosed, tracked, stray, ctxCancelled, nAddHost, panicked, qres>>
  /\ UNCHANGED <<evVars, ccVars>>

\* today: `d.quit <- struct{}{}` needs the flusher in its select (which then takes the quit
\* case), followed by close(d.quit).  Repaired: close(d.quit), then wait for `done`.
RsSend(k) ==
  /\ kpc[k] = "rs_send"
  /\ IF Defect_StopHandshake
     THEN /\ flPc = "select"
          /\ flPc' = "woke"
          /\ rdQuit' = "closed"
          /\ Goto(k, "cancel")
     ELSE /\ rdQuit' = "closed"
          /\ Goto(k, "rs_wait")
          /\ UNCHANGED flPc
  /\ UNCHANGED <<rdStopped, rdHasBc, rdBc, rdNow, rdTimer, rdDone, flCur, reqPc, nDebounce>>
  /\ UNCHANGED <<isClosing, isClosed, poolsClosed, tracked, stray, ctxCancelled, nAddHost, panicked, qres>>
  /\ UNCHANGED <<evVars, ccVars>>

RsWait(k) ==
  /\ kpc[k] = "rs_wait"
  /\ rdDone
  /\ Goto(k, "cancel")
  /\ UNCHANGED <<isClosing, isClosed, poolsClosed, tracked, stray, ctxCancelled, nAddHost, panicked, qres>>
  /\ UNCHANGED <<rdVars, evVars, ccVars>>

KCancel(k) ==
  /\ kpc[k] \in {"cancel", "cancel0"}
  /\ ctxCancelled' = TRUE
  /\ Goto(k, IF kpc[k] = "cancel0" THEN "pools" ELSE "fin")
  /\ UNCHANGED <<isClosing, isClosed, poolsClosed, tracked, stray, nAddHost, panicked, qres>>
  /\ UNCHANGED <<rdVars, evVars, ccVars>>

KFin(k) ==
  /\ kpc[k] = "fin"
  /\ isClosed' = TRUE
  /\ Goto(k, "done")
  /\ UNCHANGED <<isClosing, poolsClosed, tracked, stray, ctxCancelled, nAddHost, panicked, qres>>
  /\ UNCHANGED <<rdVars, evVars, ccVars>>

\* a query issued once the working Close has returned
Query ==
  /\ qres = "none"
  /\ \E k \in Closers : kpc[k] = "done"
  /\ isClosed
  /\ qres' = IF isClosed THEN "session-closed" ELSE "other"
  /\ UNCHANGED <<isClosing, isClosed, poolsClosed, tracked, stray, ctxCancelled, kpc, nAddHost, panicked>>
  /\ UNCHANGED <<rdVars, evVars, ccVars>>

CloseStep(k) ==
  \/ KFlag(k) \/ KPools(k) \/ KControl(k) \/ KCcSend(k) \/ KCcConn(k)
  \/ KEvStop(k, "node", "ev_schema") \/ KEvStop(k, "schema", "rs_mark")
  \/ KEvStopSend(k, "node", "ev_schema") \/ KEvStopSend(k, "schema", "rs_mark")
  \/ KEvStopLocked(k, "node") \/ KEvStopLocked(k, "schema")
  \/ RsMark(k) \/ RsSend(k) \/ RsWait(k) \/ KCancel(k) \/ KFin(k)

\* the driver's own goroutines (each step eventually happens)
SysNext ==
  \/ FlSelect \/ FlLock \/ FlRefreshDone \/ FlSelfAnswered
  \/ RcReconnect \/ RcInstall \/ RcAnswered
  \/ \E e \in EvDeb : EvSelectTimer(e) \/ EvFlLock(e) \/ EvFlushLocked(e)
  \/ EvCallback \/ EvDebUnlock
  \/ HbStart \/ HbProbe \/ HbReconnect \/ HbSetup \/ HbAnswered
  \/ \E k \in Closers : kpc[k] # "idle" /\ CloseStep(k)

\* the environment (not obliged to act)
EnvNext ==
  \/ \E r \in Requesters : RefreshNow(r)
  \/ Debounce \/ TimerFire \/ EvDebLock \/ \E e \in EvDeb : EvTimerFire(e) \/ EvHandlerDone(e)
  \/ HbTimer \/ FlAddHost \/ FlCtlFail
  \/ \E k \in Closers : KFlag(k)
  \/ Query

\* every goroutine is where it ends: proper termination is not a deadlock
Finished ==
  /\ \A k \in Closers : kpc[k] \in {"idle", "done"}
  /\ flPc = "exited" \/ (flPc = "select" /\ rdNow = 0 /\ rdTimer # "fired" /\ rdQuit = "open")
  /\ hbPc \in {"select", "exited"} /\ rcPc \in {"idle", "done"}
  /\ \A r \in Reqs : reqPc[r] # "waiting"
  /\ evCb = 0 /\ debPc = "idle"
  /\ \A e \in EvDeb : evMu[e] = "free" /\ evPc[e] \in {"select", "exited"} /\ (evTimer[e] # "fired" \/ evPc[e] = "exited")
Idle == Finished /\ UNCHANGED vars

\* (EvEager) an idle flusher takes a fired timer at once: the sub-graph whose steps a harness can force without a
\* hook between the flusher's select and its Lock (used to derive a reproducible schedule; the exhaustive passes
\* run with EvEager = FALSE)
EvUrgentStep(e) ==
  \/ evPc[e] = "select" /\ evTimer[e] = "fired" /\ EvSelectTimer(e)
  \/ evPc[e] = "woke" /\ EvFlLock(e)
  \/ evPc[e] = "locking" /\ evMu[e] = "fl" /\ EvFlushLocked(e)
EvUrgentStop(k, e) == kpc[k] = "evl_" \o e /\ evMu[e] = "stop" /\ KEvStopLocked(k, e)
EvUrgent == EvEager /\ \E e \in EvDeb : \/ evPc[e] = "select" /\ evTimer[e] = "fired"
                                        \/ evPc[e] = "woke"
                                        \/ evPc[e] = "locking" /\ evMu[e] = "fl"
                                        \/ \E k \in Closers : kpc[k] = "evl_" \o e /\ evMu[e] = "stop"
Next == SysNext \/ EnvNext \/ Idle
NextEager == IF EvUrgent THEN \E e \in EvDeb : EvUrgentStep(e) \/ \E k \in Closers : EvUrgentStop(k, e)
             ELSE SysNext \/ EnvNext \/ Idle

\* one weak-fairness condition per goroutine (its steps are mutually exclusive by program counter)
Fairness ==
  /\ WF_vars(FlSelect \/ FlLock \/ FlRefreshDone \/ FlSelfAnswered)
  /\ WF_vars(RcReconnect \/ RcInstall \/ RcAnswered)
  /\ WF_vars((\E e \in EvDeb : EvSelectTimer(e) \/ EvFlLock(e) \/ EvFlushLocked(e)) \/ EvCallback)
  /\ WF_vars(EvDebUnlock)
  /\ WF_vars(HbStart \/ HbProbe \/ HbReconnect \/ HbSetup \/ HbAnswered)
  /\ \A k \in Closers : WF_vars(kpc[k] # "idle" /\ CloseStep(k))

Spec == Init /\ [][Next]_vars /\ Fairness
SpecNoFair == Init /\ [][Next]_vars
SpecEager == Init /\ [][NextEager]_vars

(* ======================= what C17 demands ================================== *)
TypeOK ==
  /\ flPc \in {"select", "woke", "refreshing", "selfwait", "exited"}
  /\ rcPc \in {"idle", "reconnect", "dial", "wait", "done"}
  /\ hbPc \in {"spawned", "select", "probe", "reconnect", "hbsetup", "waitrefresh", "exited"}
  /\ reqPc \in [Reqs -> {"idle", "waiting", "answered", "closed"}]
  /\ rdNow \in 0 .. 1 /\ tracked \in 0 .. 1 + MaxAddHost /\ stray \in 0 .. MaxAddHost

NoPanic == ~panicked
\* once the Close that did the work has returned, no connection is open
AllClosedAfterClose == (isClosed /\ ~OnlyDebouncer) => (tracked = 0 /\ stray = 0 /\ ~ccConnOpen)
\* ... and a query fails with the session-closed error
QueryAfterClose == qres \in {"none", "session-closed"}
\* the context is cancelled only after the pools have been closed (in-flight dials cannot
\* slip a connection into a pool that is then never closed, and requests in flight get the
\* connection-closed error rather than a context error)
CancelAfterPools == OnlyDebouncer \/ (ctxCancelled => poolsClosed)

\* every Close returns
CloseReturns == \A k \in Closers : (kpc[k] # "idle") ~> (kpc[k] = "done")
\* refreshDebouncer.stop returns
StopReturns == \A k \in Closers : (kpc[k] \in {"rs_send", "rs_wait"}) ~> (kpc[k] \notin {"rs_send", "rs_wait"})
\* nobody waits for a refresh answer forever
NobodyStuck == \A r \in Reqs : (reqPc[r] = "waiting") ~> (reqPc[r] # "waiting")
\* The listeners of refreshNow, explicitly: a requester is on exactly one list while it waits - the pending
\* broadcaster (rdBc) or the broadcaster being served (flCur) - and every request, made before, during (refreshFn
\* running) or after stop, is eventually answered with the refresh result or with a closed channel.
ListenersTracked == \A r \in Reqs : reqPc[r] = "waiting" =>
                       ((rdHasBc /\ r \in rdBc) \/ (flPc \in {"refreshing", "selfwait"} /\ r \in flCur))
RequesterAnswered == \A r \in Reqs : (reqPc[r] = "waiting") ~> (reqPc[r] \in {"answered", "closed"})
\* a request made once stop has marked the debouncer is refused at once (closed channel), never queued
NoQueueAfterStop == rdStopped /\ flPc = "exited" => ~rdHasBc
\* the background goroutines exit after Close
\* Close does not wait for an event handler: with the handler's return left to the environment CloseReturns
\* already says so.  The mutex of an event debouncer is never held for good:
EvMutexReleased == \A e \in EvDeb : (evMu[e] \in {"deb", "stop"}) ~> (evMu[e] = "free")
GoroutinesExit == isClosed ~> (flPc = "exited" /\ hbPc = "exited" /\ rcPc \in {"idle", "done"}
                                /\ \A e \in EvDeb : evPc[e] = "exited")
=============================================================================
