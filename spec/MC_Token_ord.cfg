INIT InitOrd
NEXT Next
INVARIANT EmitOrd
CHECK_DEADLOCK FALSE
