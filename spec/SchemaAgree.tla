---------------------------- MODULE SchemaAgree ----------------------------
(***************************************************************************)
(* X01, part 1 - waiting for schema agreement.                             *)
(*                                                                         *)
(* Conn.awaitSchemaAgreement (conn.go) as used by                          *)
(*   Session.AwaitSchemaAgreement(ctx)   (control connection),             *)
(*   Conn.executeQuery after a RESULT/schema_change frame (the connection  *)
(*   that ran the statement), and Session.handleKeyspaceChange.            *)
(*                                                                         *)
(* What users are told (the properties below quote these):                 *)
(*  [S1] session.go, AwaitSchemaAgreement: "will wait until schema         *)
(*       versions across all nodes in the cluster are the same (as seen    *)
(*       from the point of view of the control connection). The maximum    *)
(*       amount of time this takes is governed by the                      *)
(*       MaxWaitSchemaAgreement setting in the configuration (default:     *)
(*       60s). AwaitSchemaAgreement returns an error in case schema        *)
(*       versions are not the same after the timeout specified in          *)
(*       MaxWaitSchemaAgreement elapses."                                  *)
(*  [S2] cluster.go, ClusterConfig.MaxWaitSchemaAgreement: "The maximum    *)
(*       amount of time to wait for schema agreement in a cluster after    *)
(*       receiving a schema change frame. (default: 60s)"                  *)
(*  [S3] Cassandra: system.peers.schema_version is null for a peer whose   *)
(*       schema the queried node does not know (not gossiped yet / gone);  *)
(*       rows lacking rpc_address, host_id, data_center, rack or tokens    *)
(*       are not usable peers (host_source.go isValidPeer; conn.go logs    *)
(*       "invalid peer or peer with empty schema_version" and goes on).    *)
(*       Such rows have no schema version to compare: they do not take     *)
(*       part in "the same".                                               *)
(*  [S4] context.Context convention: a wait given a context returns        *)
(*       ctx.Err() once the context is done.                               *)
(*                                                                         *)
(* The environment (cluster truth, answers, failures, the deadline, the    *)
(* caller's context) are separate nondeterministic actions.  Time is       *)
(* abstract: `expired` becomes TRUE at some moment; the driver reads it    *)
(* only where the code compares time.Now() with the deadline.              *)
(*                                                                         *)
(* The state is ONE record A; every action is a pair XxxEn / Xxx           *)
(* (enabling condition, successor as a function) so that Gen_SchemaAgree   *)
(* and Trace_SchemaAgree compose the same operators.                       *)
(*   Start       the call begins (for "ddl": the statement is sent)        *)
(*   NodeDdl     the node executes the statement and answers               *)
(*               schema_change (or rejects it)                             *)
(*   Check       for time.Now().Before(endDeadline)                        *)
(*   SendPeers   SELECT * FROM system.peers on this connection             *)
(*   AnsPeers    rows as the node has them now / failure                   *)
(*   AnsLocal    SELECT schema_version FROM system.local: answer / failure *)
(*               (the query is sent in the step that consumed the peers)   *)
(*   Sleep       select { <-ctx.Done(): return ctx.Err(); <-After(200ms) } *)
(*   Expire, Cancel, EnvStep                                               *)
(***************************************************************************)
EXTENDS Integers, Sequences, FiniteSets, TLC

CONSTANTS
  Vers,             \* schema version ids, e.g. {"a", "b"}
  Peers,            \* rows of system.peers of the polled node, e.g. {"p1", "p2"}
  MaxPolls,         \* bound: poll rounds of one wait
  MaxFail,          \* bound: poll queries that fail
  MaxEnv,           \* bound: changes of the cluster truth during the wait
  CountNullVersion, \* TRUE: driver model of gocql as it is - a peers row with a null schema_version is read as
                    \*       the zero uuid and counted as a version of its own (conn.go, finding X01-F1)
  Variant           \* "ok", or a deliberately wrong driver model that the model pass has to reject

VARIABLE A
vars == <<A>>

RowKinds == {"ok", "invalid", "nullver"}
AnyVer == CHOOSE v \in Vers : TRUE
NoRound == [p |-> "none", rows |-> [x \in Peers |-> [kind |-> "invalid", ver |-> AnyVer]], l |-> "none", lver |-> AnyVer]

-----------------------------------------------------------------------------
\* Property level: what one poll round shows, from the answers alone ([S1] + [S3]).
CountedVers(r) == {r.rows[p].ver : p \in {q \in DOMAIN r.rows : r.rows[q].kind = "ok"}}
                     \cup (IF r.l = "ok" THEN {r.lver} ELSE {})
RoundComplete(r) == r.p = "ok" /\ r.l = "ok"
RoundAgrees(r) == RoundComplete(r) /\ Cardinality(CountedVers(r)) <= 1

\* [S1] nil only after a round that showed agreement
AgreeSoundOf(T) == T.res = "nil" => RoundAgrees(T.last)
\* [S1] "will wait until ... are the same": the wait ends with nil at the round that shows agreement
AgreeCompleteOf(T) == RoundAgrees(T.last) => (T.pc = "done" /\ T.res = "nil")
\* [S1] the inconsistency error is for "not the same after the timeout ... elapses": never before
ErrOnlyLateOf(T) == T.res = "disagree" => T.expired
\* [S4]
CtxOnlyCancelledOf(T) == T.res = "ctx" => T.cancelled
CancelHonouredOf(T) == T.afterCancel <= 1
\* [S1] "The maximum amount of time this takes is governed by the MaxWaitSchemaAgreement setting"
DeadlineHonouredOf(T) == T.lateRounds = 0
\* [S2] a schema-changing statement returns after agreement was seen, after the deadline, or when its context ended
DdlWaitsOf(T) == (T.kind = "ddl" /\ T.pc = "done" /\ T.res # "ddlerr") =>
                    \/ T.res = "nil" /\ RoundAgrees(T.last)
                    \/ T.res = "disagree" /\ T.expired
                    \/ T.res = "ctx" /\ T.cancelled

AgreeSound == AgreeSoundOf(A)
AgreeComplete == AgreeCompleteOf(A)
ErrOnlyLate == ErrOnlyLateOf(A)
CtxOnlyCancelled == CtxOnlyCancelledOf(A)
CancelHonoured == CancelHonouredOf(A)
DeadlineHonoured == DeadlineHonouredOf(A)
DdlWaits == DdlWaitsOf(A)

-----------------------------------------------------------------------------
\* Driver model.
DriverVersOfRows(rw) ==
  {rw[p].ver : p \in {q \in Peers : rw[q].kind = "ok" \/ (Variant = "count_invalid" /\ rw[q].kind = "invalid")}}
    \cup (IF CountNullVersion /\ \E q \in Peers : rw[q].kind = "nullver" THEN {"zero-uuid"} ELSE {})

InitState(kind, local, rows, expired) ==
  [kind |-> kind,           \* "await": AwaitSchemaAgreement | "ddl": Exec of a schema-changing statement
   pc |-> "idle",           \* idle | ddl | check | send | peers | local | sleep | done
   res |-> "none",          \* none | nil | disagree | ctx | ddlerr   ("disagree" = the inconsistency error)
   local |-> local,         \* schema version of the polled node
   rows |-> rows,           \* [Peers -> [kind, ver]]: what the polled node reports about its peers
   seen |-> {},             \* driver: versions collected in the round in progress
   cur |-> NoRound,         \* ghost: the round in progress as ANSWERED
   last |-> NoRound,        \* ghost: the last finished round
   expired |-> expired,     \* the deadline start+MaxWaitSchemaAgreement has passed (TRUE at once: MaxWait <= 0)
   cancelled |-> FALSE,
   polls |-> 0, fails |-> 0, envs |-> 0, afterCancel |-> 0, lateRounds |-> 0]

Init == \E kind \in {"await", "ddl"}, local \in Vers, rows \in [Peers -> [kind : RowKinds, ver : Vers]], ex \in BOOLEAN :
           A = InitState(kind, local, rows, ex)

Fin(T, r) == [T EXCEPT !.pc = "done", !.res = r]

StartEn(T) == T.pc = "idle"
Start(T) == [T EXCEPT !.pc = IF T.kind = "ddl" THEN "ddl" ELSE "check"]

\* the node executes the statement: its own schema version changes at once, the peers follow later
NodeDdlEn(T, ans, v) == T.pc = "ddl" /\ (ans = "applied" => v \in Vers \ {T.local})
NodeDdl(T, ans, v) == IF ans = "applied" THEN [T EXCEPT !.local = v, !.pc = "check"] ELSE Fin(T, "ddlerr")

CheckEn(T) == T.pc = "check"
Check(T) ==
  IF T.expired /\ Variant # "no_deadline" THEN Fin(T, "disagree")
  ELSE [T EXCEPT !.pc = "send", !.lateRounds = IF T.expired THEN @ + 1 ELSE @]

SendPeersEn(T) == T.pc = "send" /\ T.polls < MaxPolls
SendPeers(T) == [T EXCEPT !.pc = "peers", !.polls = @ + 1, !.afterCancel = IF T.cancelled THEN @ + 1 ELSE @]

AnsEn(T, ans) == ans \in {"ok", "err"} /\ (ans = "err" => (T.cancelled \/ T.fails < MaxFail))
CountFail(T, ans) == IF ans = "err" /\ ~T.cancelled THEN T.fails + 1 ELSE T.fails

AnsPeersEn(T, ans) == T.pc = "peers" /\ AnsEn(T, ans)
AnsPeers(T, ans) ==
  LET r == [p |-> ans, rows |-> T.rows, l |-> "none", lver |-> T.local]
      T1 == [T EXCEPT !.cur = r, !.fails = CountFail(T, ans)] IN
  IF ans = "ok" THEN [T1 EXCEPT !.seen = DriverVersOfRows(T.rows), !.pc = "local"]
  ELSE LET T2 == [T1 EXCEPT !.seen = {}, !.last = r] IN
       IF Variant = "fail_is_agree" THEN Fin(T2, "nil") ELSE [T2 EXCEPT !.pc = "sleep"]

AnsLocalEn(T, ans) == T.pc = "local" /\ AnsEn(T, ans)
AnsLocal(T, ans) ==
  LET r == [T.cur EXCEPT !.l = ans, !.lver = T.local]
      s == IF ans = "ok" THEN T.seen \cup {T.local} ELSE T.seen
      T1 == [T EXCEPT !.cur = r, !.last = r, !.seen = s, !.fails = CountFail(T, ans)] IN
  IF ans = "ok" /\ Cardinality(s) <= 1 THEN Fin(T1, "nil")
  ELSE IF ans = "err" /\ Variant = "fail_is_agree" THEN Fin(T1, "nil")
  ELSE IF Variant = "err_early" THEN Fin(T1, "disagree")
  ELSE [T1 EXCEPT !.pc = "sleep"]

SleepEn(T) == T.pc = "sleep"
Sleep(T) == IF T.cancelled /\ Variant # "ignore_ctx" THEN Fin(T, "ctx") ELSE [T EXCEPT !.pc = "check"]

\* ---- environment
Running(T) == T.pc \notin {"idle", "done"}
ExpireEn(T) == ~T.expired /\ Running(T)
Expire(T) == [T EXCEPT !.expired = TRUE]
\* (the caller is assumed not to cancel before the statement itself was answered: that is a failed statement, no wait)
CancelEn(T) == ~T.cancelled /\ Running(T) /\ T.pc # "ddl"
Cancel(T) == [T EXCEPT !.cancelled = TRUE]
\* a peer learns the polled node's version / a row becomes usable or unusable / somebody else changes the schema
EnvEn(T, rows, local) == T.envs < MaxEnv /\ Running(T) /\ <<rows, local>> # <<T.rows, T.local>>
Env(T, rows, local) == [T EXCEPT !.rows = rows, !.local = local, !.envs = @ + 1]
EnvChoices(T) ==
  {<<[T.rows EXCEPT ![p].ver = T.local], T.local>> : p \in Peers}
  \cup {<<[T.rows EXCEPT ![p].kind = k], T.local>> : p \in Peers, k \in RowKinds}
  \cup {<<T.rows, v>> : v \in Vers}

Driver ==
  \/ StartEn(A) /\ A' = Start(A)
  \/ CheckEn(A) /\ A' = Check(A)
  \/ SendPeersEn(A) /\ A' = SendPeers(A)
  \/ SleepEn(A) /\ A' = Sleep(A)
Node ==
  \/ \E ans \in {"applied", "rejected"}, v \in Vers : NodeDdlEn(A, ans, v) /\ A' = NodeDdl(A, ans, v)
  \/ \E ans \in {"ok", "err"} : \/ AnsPeersEn(A, ans) /\ A' = AnsPeers(A, ans)
                                \/ AnsLocalEn(A, ans) /\ A' = AnsLocal(A, ans)
Environment ==
  \/ ExpireEn(A) /\ A' = Expire(A)
  \/ CancelEn(A) /\ A' = Cancel(A)
  \/ \E c \in EnvChoices(A) : EnvEn(A, c[1], c[2]) /\ A' = Env(A, c[1], c[2])

Next == Driver \/ Node \/ Environment
Spec == Init /\ [][Next]_vars
\* liveness: the wait ends ([S1] "The maximum amount of time this takes is governed by MaxWaitSchemaAgreement").
\* The poll bound is an exploration bound, not part of the system: runs that hit it are not judged.
FairSpec == Spec /\ WF_vars(Driver) /\ WF_vars(Node) /\ WF_vars(ExpireEn(A) /\ A' = Expire(A))
Terminates == <>(A.pc = "done" \/ A.polls = MaxPolls)

TypeOK ==
  /\ A.pc \in {"idle", "ddl", "check", "send", "peers", "local", "sleep", "done"}
  /\ A.res \in {"none", "nil", "disagree", "ctx", "ddlerr"}
  /\ (A.pc = "done") = (A.res # "none")
=============================================================================
