---------------------------- MODULE SchemaAgree ----------------------------
(***************************************************************************)
(* X01, part 1 - waiting for schema agreement.                             *)
(*                                                                         *)
(* Conn.awaitSchemaAgreement (conn.go) as used by                          *)
(*   Session.AwaitSchemaAgreement(ctx)   (control connection),             *)
(*   Conn.executeQuery after a RESULT/schema_change frame (the connection  *)
(*   that ran the statement), and Session.handleKeyspaceChange.            *)
(*                                                                         *)
(* What users are told (the properties below quote these):                 *)
(*  [S1] session.go, AwaitSchemaAgreement: "will wait until schema         *)
(*       versions across all nodes in the cluster are the same (as seen    *)
(*       from the point of view of the control connection). The maximum    *)
(*       amount of time this takes is governed by the                      *)
(*       MaxWaitSchemaAgreement setting in the configuration (default:     *)
(*       60s). AwaitSchemaAgreement returns an error in case schema        *)
(*       versions are not the same after the timeout specified in          *)
(*       MaxWaitSchemaAgreement elapses."                                  *)
(*  [S2] cluster.go, ClusterConfig.MaxWaitSchemaAgreement: "The maximum    *)
(*       amount of time to wait for schema agreement in a cluster after    *)
(*       receiving a schema change frame. (default: 60s)"                  *)
(*  [S3] Cassandra: system.peers.schema_version is null for a peer whose   *)
(*       schema the queried node does not know (not gossiped yet / gone);  *)
(*       rows lacking rpc_address, host_id, data_center, rack or tokens    *)
(*       are not usable peers (host_source.go isValidPeer; conn.go logs    *)
(*       "invalid peer or peer with empty schema_version" and goes on).    *)
(*       Such rows have no schema version to compare: they do not take     *)
(*       part in "the same".                                               *)
(*  [S4] context.Context convention: a wait given a context returns        *)
(*       ctx.Err() once the context is done.                               *)
(*                                                                         *)
(* The environment (cluster truth, answers, failures, the deadline, the    *)
(* caller's context) are separate nondeterministic actions.  Time is       *)
(* abstract: `expired` becomes TRUE at some moment; the driver reads it    *)
(* only where the code compares time.Now() with the deadline.              *)
(***************************************************************************)
EXTENDS Integers, Sequences, FiniteSets, TLC

CONSTANTS
  Vers,             \* schema version ids, e.g. {"a", "b"}
  Peers,            \* rows of system.peers of the polled node, e.g. {"p1", "p2"}
  MaxPolls,         \* bound: poll rounds of one wait
  MaxFail,          \* bound: poll queries that fail
  MaxEnv,           \* bound: changes of the cluster truth during the wait
  CountNullVersion, \* TRUE: driver model of gocql as it is - a peers row with a null schema_version is read as
                    \*       the zero uuid and counted as a version of its own (conn.go, finding X01-F1)
  Variant           \* "ok", or a deliberately wrong driver model that the model pass has to reject

VARIABLES
  kind,        \* "await": AwaitSchemaAgreement | "ddl": Exec of a schema-changing statement
  pc,          \* idle | ddl | check | peers | local | sleep | done
  res,         \* none | nil | disagree | ctx | ddlerr      (what the caller gets; "disagree" = the inconsistency error)
  local,       \* schema version of the polled node
  rows,        \* [Peers -> [kind : {"ok","invalid","nullver"}, ver : Vers]]   cluster truth as the polled node reports it
  seen,        \* driver: versions collected in the round in progress
  cur,         \* ghost: the round in progress as ANSWERED  [p, rows, l, lver]
  last,        \* ghost: the last finished round
  expired,     \* the deadline start+MaxWaitSchemaAgreement has passed
  cancelled,   \* the caller's context is done
  polls, fails, envs, afterCancel,  \* counters (bounds / properties)
  lateRounds   \* ghost: rounds begun although the loop test saw the deadline passed

vars == <<kind, pc, res, local, rows, seen, cur, last, expired, cancelled, polls, fails, envs, afterCancel, lateRounds>>

RowKinds == {"ok", "invalid", "nullver"}
NoRound == [p |-> "none", rows |-> [x \in Peers |-> [kind |-> "invalid", ver |-> CHOOSE v \in Vers : TRUE]], l |-> "none",
            lver |-> CHOOSE v \in Vers : TRUE]

-----------------------------------------------------------------------------
\* Property level: what one poll round shows, from the answers alone ([S1] + [S3]).
CountedVers(r) == {r.rows[p].ver : p \in {q \in DOMAIN r.rows : r.rows[q].kind = "ok"}}
                     \cup (IF r.l = "ok" THEN {r.lver} ELSE {})
RoundComplete(r) == r.p = "ok" /\ r.l = "ok"
RoundAgrees(r) == RoundComplete(r) /\ Cardinality(CountedVers(r)) <= 1

\* [S1] nil only after a round that showed agreement
AgreeSound == res = "nil" => RoundAgrees(last)
\* [S1] "will wait until ... are the same": the wait ends with nil at the round that shows agreement
AgreeComplete == RoundAgrees(last) => (pc = "done" /\ res = "nil")
\* [S1] the inconsistency error is for "not the same after the timeout ... elapses": never before
ErrOnlyLate == res = "disagree" => expired
\* [S4]
CtxOnlyCancelled == res = "ctx" => cancelled
CancelHonoured == afterCancel <= 1
\* [S1] "The maximum amount of time this takes is governed by the MaxWaitSchemaAgreement setting"
DeadlineHonoured == lateRounds = 0
\* [S2] a schema-changing statement returns after agreement was seen, after the deadline, or when its context ended
DdlWaits == (kind = "ddl" /\ pc = "done" /\ res # "ddlerr") =>
               (res = "nil" /\ RoundAgrees(last)) \/ (res = "disagree" /\ expired) \/ (res = "ctx" /\ cancelled)

-----------------------------------------------------------------------------
\* Driver model.
DriverVersOfRows(rw) ==
  {rw[p].ver : p \in {q \in Peers : rw[q].kind = "ok" \/ (Variant = "count_invalid" /\ rw[q].kind = "invalid")}}
    \cup (IF CountNullVersion /\ \E q \in Peers : rw[q].kind = "nullver" THEN {"zero-uuid"} ELSE {})

Init ==
  /\ kind \in {"await", "ddl"}
  /\ pc = "idle" /\ res = "none"
  /\ local \in Vers
  /\ rows \in [Peers -> [kind : RowKinds, ver : Vers]]
  /\ seen = {} /\ cur = NoRound /\ last = NoRound
  /\ expired \in BOOLEAN          \* TRUE: MaxWaitSchemaAgreement <= 0
  /\ cancelled = FALSE
  /\ polls = 0 /\ fails = 0 /\ envs = 0 /\ afterCancel = 0 /\ lateRounds = 0

Finish(r) == pc' = "done" /\ res' = r

Start ==
  /\ pc = "idle"
  /\ pc' = IF kind = "ddl" THEN "ddl" ELSE "check"
  /\ UNCHANGED <<kind, res, local, rows, seen, cur, last, expired, cancelled, polls, fails, envs, afterCancel, lateRounds>>

\* the node executes the statement: its own schema version changes at once, the peers follow later
NodeDdlApplied ==
  /\ pc = "ddl"
  /\ \E v \in Vers \ {local} : local' = v
  /\ pc' = "check"
  /\ UNCHANGED <<kind, res, rows, seen, cur, last, expired, cancelled, polls, fails, envs, afterCancel, lateRounds>>

NodeDdlRejected ==
  /\ pc = "ddl"
  /\ Finish("ddlerr")
  /\ UNCHANGED <<kind, local, rows, seen, cur, last, expired, cancelled, polls, fails, envs, afterCancel, lateRounds>>

\* for time.Now().Before(endDeadline)
Check ==
  /\ pc = "check"
  /\ IF expired /\ Variant # "no_deadline"
       THEN Finish("disagree")
       ELSE pc' = "peers" /\ res' = res
  /\ lateRounds' = IF expired /\ Variant = "no_deadline" THEN lateRounds + 1 ELSE lateRounds
  /\ UNCHANGED <<kind, local, rows, seen, cur, last, expired, cancelled, polls, fails, envs, afterCancel>>

\* SELECT * FROM system.peers on this connection; ok = rows as the node has them now
PollPeers(ans) ==
  /\ pc = "peers" /\ polls < MaxPolls
  /\ ans = "err" => (cancelled \/ fails < MaxFail)
  /\ polls' = polls + 1
  /\ afterCancel' = IF cancelled THEN afterCancel + 1 ELSE afterCancel
  /\ fails' = IF ans = "err" /\ ~cancelled THEN fails + 1 ELSE fails
  /\ cur' = [p |-> ans, rows |-> rows, l |-> "none", lver |-> local]
  /\ IF ans = "ok"
       THEN /\ seen' = DriverVersOfRows(rows)
            /\ pc' = "local" /\ last' = last /\ res' = res
       ELSE /\ seen' = {}
            /\ last' = cur'
            /\ IF Variant = "fail_is_agree" THEN Finish("nil") ELSE pc' = "sleep" /\ res' = res
  /\ UNCHANGED <<kind, local, rows, expired, cancelled, envs, lateRounds>>

\* SELECT schema_version FROM system.local
PollLocal(ans) ==
  /\ pc = "local"
  /\ ans = "err" => (cancelled \/ fails < MaxFail)
  /\ fails' = IF ans = "err" /\ ~cancelled THEN fails + 1 ELSE fails
  /\ LET r == [cur EXCEPT !.l = ans, !.lver = local]
         s == IF ans = "ok" THEN seen \cup {local} ELSE seen
     IN /\ cur' = r /\ last' = r /\ seen' = s
        /\ IF ans = "ok" /\ Cardinality(s) <= 1 THEN Finish("nil")
           ELSE IF ans = "err" /\ Variant = "fail_is_agree" THEN Finish("nil")
           ELSE IF Variant = "err_early" THEN Finish("disagree")
           ELSE pc' = "sleep" /\ res' = res
  /\ UNCHANGED <<kind, local, rows, expired, cancelled, polls, envs, afterCancel, lateRounds>>

\* select { case <-ctx.Done(): return ctx.Err(); case <-time.After(200ms): }
Sleep ==
  /\ pc = "sleep"
  /\ IF cancelled /\ Variant # "ignore_ctx" THEN Finish("ctx") ELSE pc' = "check" /\ res' = res
  /\ UNCHANGED <<kind, local, rows, seen, cur, last, expired, cancelled, polls, fails, envs, afterCancel, lateRounds>>

\* ---- environment
Expire == /\ ~expired /\ pc \notin {"idle", "done"} /\ expired' = TRUE
          /\ UNCHANGED <<kind, pc, res, local, rows, seen, cur, last, cancelled, polls, fails, envs, afterCancel, lateRounds>>
Cancel == /\ ~cancelled /\ pc \notin {"idle", "done"} /\ cancelled' = TRUE
          /\ UNCHANGED <<kind, pc, res, local, rows, seen, cur, last, expired, polls, fails, envs, afterCancel, lateRounds>>
\* a peer learns the polled node's version / a row becomes usable or unusable / somebody else changes the schema
EnvStep ==
  /\ envs < MaxEnv /\ pc \notin {"idle", "done"}
  /\ envs' = envs + 1
  /\ \/ \E p \in Peers : rows' = [rows EXCEPT ![p].ver = local] /\ rows' # rows /\ local' = local
     \/ \E p \in Peers, k \in RowKinds : rows' = [rows EXCEPT ![p].kind = k] /\ rows' # rows /\ local' = local
     \/ \E v \in Vers \ {local} : local' = v /\ rows' = rows
  /\ UNCHANGED <<kind, pc, res, seen, cur, last, expired, cancelled, polls, fails, afterCancel, lateRounds>>

Driver == Start \/ Check \/ (\E a \in {"ok", "err"} : PollPeers(a) \/ PollLocal(a)) \/ Sleep
Node == NodeDdlApplied \/ NodeDdlRejected
Next == Driver \/ Node \/ Expire \/ Cancel \/ EnvStep

Spec == Init /\ [][Next]_vars
\* liveness: the wait ends ([S1] "The maximum amount of time this takes is governed by MaxWaitSchemaAgreement").
\* The poll bound is an exploration bound, not part of the system: runs that hit it are not judged.
FairSpec == Spec /\ WF_vars(Driver) /\ WF_vars(Node) /\ WF_vars(Expire)
Terminates == <>(pc = "done" \/ polls = MaxPolls)

TypeOK ==
  /\ pc \in {"idle", "ddl", "check", "peers", "local", "sleep", "done"}
  /\ res \in {"none", "nil", "disagree", "ctx", "ddlerr"}
  /\ (pc = "done") = (res # "none")
=============================================================================
