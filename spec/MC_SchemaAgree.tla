--------------------------- MODULE MC_SchemaAgree ---------------------------
(* Model-checking instances of SchemaAgree.tla (X01, schema agreement). *)
EXTENDS SchemaAgree

\* every driver action occurs (vacuity guard; each must be reachable = TLC must violate "never")
Never_nil == res # "nil"
Never_disagree == res # "disagree"
Never_ctx == res # "ctx"
Never_ddlerr == res # "ddlerr"
Never_nullrow_agreement == ~(res = "nil" /\ \E p \in Peers : last.rows[p].kind = "nullver")
=============================================================================
