--------------------------- MODULE MC_SchemaAgree ---------------------------
(* Model-checking instances of SchemaAgree.tla (X01, schema agreement). *)
EXTENDS SchemaAgree

\* reachability (vacuity guard): TLC must VIOLATE each of these
Never_nil == A.res # "nil"
Never_disagree == A.res # "disagree"
Never_ctx == A.res # "ctx"
Never_ddlerr == A.res # "ddlerr"
Never_nullrow_agreement == ~(A.res = "nil" /\ \E p \in Peers : A.last.rows[p].kind = "nullver")
Never_invalidrow_agreement == ~(A.res = "nil" /\ \E p \in Peers : A.last.rows[p].kind = "invalid" /\ A.last.rows[p].ver # A.last.lver)
Never_failed_then_nil == ~(A.res = "nil" /\ A.fails > 0)
Never_ddl_nil == ~(A.res = "nil" /\ A.kind = "ddl")
=============================================================================
