--------------------------- MODULE MC_SchemaAgree ---------------------------
(* Model-checking instances of SchemaAgree.tla (X01, schema agreement). *)
EXTENDS SchemaAgree

\* reachability (vacuity guard): every situation below has to be met by the model passes.  Each worker prints a
\* situation the first time it meets it (TLC registers), the check collects the REACHED lines.
ASSUME \A i \in 1 .. 8 : TLCSet(i, 0)
Mark(i, c, name) == (c /\ TLCGet(i) = 0) => (PrintT(<<"REACHED", name>>) /\ TLCSet(i, 1))
ReachMarks ==
  /\ Mark(1, A.res = "nil", "nil")
  /\ Mark(2, A.res = "disagree", "disagree")
  /\ Mark(3, A.res = "ctx", "ctx")
  /\ Mark(4, A.res = "ddlerr", "ddlerr")
  /\ Mark(5, A.res = "nil" /\ \E p \in Peers : A.last.rows[p].kind = "nullver", "nullrow_agreement")
  /\ Mark(6, A.res = "nil" /\ \E p \in Peers : A.last.rows[p].kind = "invalid" /\ A.last.rows[p].ver # A.last.lver, "invalidrow_agreement")
  /\ Mark(7, A.res = "nil" /\ A.fails > 0, "failed_then_nil")
  /\ Mark(8, A.res = "nil" /\ A.kind = "ddl", "ddl_nil")
=============================================================================
