------------------------------ MODULE MC_Uuid ------------------------------
(***************************************************************************)
(* C19 case generators (spec -> code): one state per case, expected result *)
(* computed by Uuid.tla and printed as JSON.                               *)
(*   InitSub   : hex strings of length 0..40 with one character replaced   *)
(*               by one of a class alphabet (hyphen, near-hex, control,     *)
(*               white space, non-ASCII runes of 2/3/4 UTF-8 bytes whose    *)
(*               low byte or low bits collide with a hex digit or the       *)
(*               hyphen, lone bytes 128..255 = invalid UTF-8).              *)
(*   InitCanonSub : every position of the canonical form replaced likewise *)
(*   InitWide  : every code point 0..255 and every lone byte 128..255 in    *)
(*               the digit positions of both forms                         *)
(*   InitIns   : a character inserted at every position of 31/32/33 digits *)
(*   InitCanon : mutations of the canonical 8-4-4-4-12 form                *)
(*   InitV1    : TimeUUIDWith(t, clock, node) at timestamp field boundaries*)
(*   InitTime  : UUIDFromTime / MinTimeUUID / MaxTimeUUID at boundary times*)
(***************************************************************************)
EXTENDS Uuid, Json, IOUtils

VARIABLE c

EnvNat(name, dflt) == IF name \in DOMAIN IOEnv THEN atoi(IOEnv[name]) ELSE dflt
Shard == EnvNat("VF_SHARD", 0)
NShard == EnvNat("VF_NSHARD", 1)
Stride == EnvNat("VF_STRIDE", 1)
Seed == EnvNat("VF_SEED", 1)

\* "0123456789abcdefABCDEF"
HexChars == <<48, 49, 50, 51, 52, 53, 54, 55, 56, 57, 97, 98, 99, 100, 101, 102, 65, 66, 67, 68, 69, 70>>
Pat(i) == HexChars[((i * 7 + 3) % 22) + 1]
PatStr(n) == [i \in 1 .. n |-> Pat(i)]
\* ---- the character alphabet.  A code below 1114112 (0x110000) is a Unicode code point; the code
\* 1114112 + b stands for the single byte b (128..255) standing alone, i.e. invalid UTF-8.  Neither is
\* a hex digit or a hyphen for Uuid.tla, whatever its low byte or low bits look like.
Raw(b) == 1114112 + b
HexAndHyphen == <<48, 49, 50, 51, 52, 53, 54, 55, 56, 57, 97, 98, 99, 100, 101, 102, 65, 66, 67, 68, 69, 70, 45>>
Targets == <<48, 49, 57, 97, 102, 65, 70, 45>>                    \* '0' '1' '9' 'a' 'f' 'A' 'F' '-'
\* code points whose low byte / low 7 bits / digit value collide with an ASCII hex digit or the hyphen:
\*  +128 (U+00B0.., 2-byte UTF-8, low 7 bits), +256 (U+0130.., low byte), +1024 (Cyrillic block), +1536 (U+0630..,
\*  U+0666 = 'f' + 1536), +7680 and +8192 (3-byte), +65248 (fullwidth forms U+FF10.., U+FF41.., U+FF0D),
\*  +65280 (U+FF30.., low byte), +65536, +128512 and +1113856 (4-byte UTF-8, low byte)
Offsets == <<128, 1024, 1536, 7680, 8192, 65248, 65280, 65536, 128512, 1113856>>
Alphabet ==
  \* valid characters and near misses in ASCII
  <<45, 70, 102, 48, 57, 97, 65, 103, 71, 47, 58, 64, 96, 120, 88, 43, 123, 125, 95, 46, 44>>
  \* NUL, control characters and white space (ASCII, Latin-1, Unicode)
  \o <<0, 8, 9, 10, 11, 12, 13, 27, 32, 127, 133, 160, 8232, 12288, 65279>>
  \* other non-ASCII: e-acute, U+2010 HYPHEN, U+2212 MINUS, Arabic-Indic digits 0 and 9, U+FFFD, U+10FFFF
  \o <<233, 8208, 8722, 1632, 1641, 65533, 1114111>>
  \* low-byte collisions of every hex digit and the hyphen: U+0130..U+0139, U+0141.., U+0161.., U+012D
  \o [i \in 1 .. Len(HexAndHyphen) |-> HexAndHyphen[i] + 256]
  \* the other collision classes on representative targets
  \o [i \in 1 .. Len(Offsets) * Len(Targets) |->
        Targets[((i - 1) % Len(Targets)) + 1] + Offsets[((i - 1) \div Len(Targets)) + 1]]
  \* invalid UTF-8: a byte 128..255 alone - those whose low 7 bits are a hex digit / hyphen, and the extremes
  \o [i \in 1 .. Len(HexAndHyphen) |-> Raw(HexAndHyphen[i] + 128)]
  \o <<Raw(128), Raw(191), Raw(192), Raw(254), Raw(255)>>
NX == Len(Alphabet)

\* one pass over the string (the definitions are those of Uuid.tla: ParseClass, RejectReason, ParseValue)
ParseCase(s) ==
  LET d == HexDigits(s)
      other == \E i \in 1 .. Len(s) : ~IsHex(s[i]) /\ ~IsHyphen(s[i])
      cls == IF other \/ Len(d) # 32 THEN "reject" ELSE IF NoHyphens(s) \/ CanonicalHyphens(s) THEN "accept" ELSE "either"
      why == IF other THEN "nonhex" ELSE IF Len(d) < 32 THEN "short" ELSE IF Len(d) > 32 THEN "long" ELSE "none"
  IN [k |-> "parse", s |-> s, cls |-> cls, why |-> why,
      val |-> IF Len(d) = 32 THEN [i \in 1 .. 16 |-> 16 * HexVal(d[2 * i - 1]) + HexVal(d[2 * i])] ELSE <<>>]

\* every length 0..40, every position, every alphabet entry; lengths 32 (a replaced DIGIT of an otherwise
\* valid string: every digit position class) is always complete, the rest is sampled by Stride
InitSub ==
  c \in {x \in [n : 0 .. 40, p : 0 .. 40, a : 1 .. NX] :
           /\ (x.n + x.p + x.a) % NShard = Shard
           /\ x.p <= x.n
           /\ (x.p = 0 => x.a = 1)
           /\ (x.p = 0 \/ x.n = 32 \/ (x.n * 5 + x.p * 3 + x.a + Seed) % Stride = 0)}
SubStr(x) == [i \in 1 .. x.n |-> IF i = x.p THEN Alphabet[x.a] ELSE Pat(i)]
EmitSub == PrintT(<<"CASE", ToJson(ParseCase(SubStr(c)))>>)

InsAt(s, p, ch) == SubSeq(s, 1, p) \o <<ch>> \o SubSeq(s, p + 1, Len(s))
InitIns == c \in [n : 30 .. 34, p : 0 .. 34, ch : {45, 103, 48, 32}] /\ c.p <= c.n
EmitIns == PrintT(<<"CASE", ToJson(ParseCase(InsAt(PatStr(c.n), c.p, c.ch)))>>)

\* canonical text of the pattern bytes and its mutations
PatBytes == ParseValue(PatStr(32))
CanonS == Canon(PatBytes)
DelAt(s, p) == SubSeq(s, 1, p - 1) \o SubSeq(s, p + 1, Len(s))
SetAt(s, p, ch) == [i \in 1 .. Len(s) |-> IF i = p THEN ch ELSE s[i]]
Upper(s) == [i \in 1 .. Len(s) |-> IF s[i] \in 97 .. 102 THEN s[i] - 32 ELSE s[i]]
Mixed(s) == [i \in 1 .. Len(s) |-> IF s[i] \in 97 .. 102 /\ i % 2 = 0 THEN s[i] - 32 ELSE s[i]]
HyPos == <<9, 14, 19, 24>>
CanonCases ==
  <<CanonS, Upper(CanonS), Mixed(CanonS), PatStr(32), Upper(PatStr(32))>>
  \o [k \in 1 .. 4 |-> DelAt(CanonS, HyPos[k])]                              \* one hyphen missing
  \o [k \in 1 .. 4 |-> InsAt(DelAt(CanonS, HyPos[k]), HyPos[k] - 2, 45)]      \* hyphen one place early (inside a byte)
  \o [k \in 1 .. 4 |-> InsAt(DelAt(CanonS, HyPos[k]), HyPos[k], 45)]          \* hyphen one place late (inside a byte)
  \o [k \in 1 .. 4 |-> InsAt(DelAt(CanonS, HyPos[k]), HyPos[k] + 1, 45)]      \* two places late (between bytes)
  \o [k \in 1 .. 4 |-> InsAt(CanonS, HyPos[k], 45)]                           \* doubled hyphen
  \o [k \in 1 .. 4 |-> SetAt(CanonS, HyPos[k], 95)]                           \* '_' instead of '-'
  \o [k \in 1 .. 4 |-> SetAt(CanonS, HyPos[k], 32)]                           \* ' ' instead of '-'
  \o [k \in 1 .. 4 |-> SetAt(CanonS, HyPos[k], 48)]                           \* '0' instead of '-' (33 digits)
  \o << <<45>> \o CanonS, CanonS \o <<45>>, <<45>> \o PatStr(32), PatStr(32) \o <<45>>,
        <<123>> \o CanonS \o <<125>>,                                          \* {...}
        <<117, 114, 110, 58, 117, 117, 105, 100, 58>> \o CanonS,              \* urn:uuid:...
        <<32>> \o CanonS, CanonS \o <<32>>, CanonS \o <<10>>, <<48, 120>> \o PatStr(32),
        [i \in 1 .. 32 |-> 45], [i \in 1 .. 36 |-> 45], <<>>, <<45>>,
        CanonS \o CanonS, SubSeq(CanonS, 1, 35), CanonS \o <<48>>,
        [i \in 1 .. 63 |-> IF i % 2 = 0 THEN 45 ELSE Pat(i)] >>               \* a hyphen after every digit
\* every position of the canonical text (digits and hyphens) replaced by every alphabet entry
InitCanonSub == c \in {x \in [p : 1 .. 36, a : 1 .. NX] : (x.p + x.a) % NShard = Shard}
EmitCanonSub == PrintT(<<"CASE", ToJson(ParseCase(SetAt(CanonS, c.p, Alphabet[c.a])))>>)
\* ---- the whole byte range: every code point 0 .. 255 (all ASCII control characters, every ASCII
\* character one bit away from a hex digit - case folding, masking -, Latin-1) and every lone byte
\* 128 .. 255, in the digit positions of the 32-digit string (f = 1) and in every position of the
\* canonical form (f = 2).  Quick tier: the first and last byte's nibbles always, the other positions
\* sampled by WStride (rotated by the seed).
Wide == [i \in 1 .. 384 |-> IF i <= 256 THEN i - 1 ELSE Raw(i - 129)]
WStride == EnvNat("VF_WSTRIDE", 1)
InitWide ==
  c \in {x \in [f : 1 .. 2, p : 1 .. 36, a : 1 .. 384] :
           /\ (x.p + x.a) % NShard = Shard
           /\ (x.f = 1 => x.p <= 32)
           /\ (x.p \in {1, 2} \/ (x.f = 1 /\ x.p \in {31, 32}) \/ (x.f = 2 /\ x.p \in {35, 36})
               \/ (x.p * 7 + x.a + Seed) % WStride = 0)}
EmitWide == PrintT(<<"CASE", ToJson(ParseCase(SetAt(IF c.f = 1 THEN PatStr(32) ELSE CanonS, c.p, Wide[c.a])))>>)
ASSUME Wide[1] = 0 /\ Wide[256] = 255 /\ Wide[257] = Raw(128) /\ Wide[384] = Raw(255)
InitCanon == c \in [i : 1 .. Len(CanonCases)]
\* the one-pass ParseCase agrees with the definitions of Uuid.tla
ASSUME \A i \in 1 .. Len(CanonCases) :
         LET x == CanonCases[i] pc == ParseCase(x) IN
         /\ pc.cls = ParseClass(x) /\ pc.why = RejectReason(x)
         /\ (Len(HexDigits(x)) = 32 => pc.val = ParseValue(x))
ASSUME \A a \in 22 .. NX : ParseCase(SetAt(CanonS, 3, Alphabet[a])).cls = "reject"      \* everything beyond the ASCII entries
EmitCanon == PrintT(<<"CASE", ToJson(ParseCase(CanonCases[c.i]))>>)

\* ---------------------------------------------------------------- timestamps
Cls == {0, 1, 127, 128, 255}
Mask60(b) == [i \in 1 .. 8 |-> IF i = 1 THEN b[1] % 16 ELSE b[i]]
TVals ==
  { <<0, 0, 0, 0, 0, 0, 0, 0>>, <<0, 0, 0, 0, 0, 0, 0, 1>>,
    <<0, 0, 0, 0, 255, 255, 255, 255>>, <<0, 0, 0, 1, 0, 0, 0, 0>>, <<0, 0, 0, 1, 0, 0, 0, 1>>,       \* 2^32 -1, +0, +1
    <<0, 0, 255, 255, 255, 255, 255, 255>>, <<0, 1, 0, 0, 0, 0, 0, 0>>, <<0, 1, 0, 0, 0, 0, 0, 1>>,   \* 2^48 -1, +0, +1
    <<15, 255, 255, 255, 255, 255, 255, 255>>, <<15, 255, 255, 255, 255, 255, 255, 254>>,             \* 2^60 -1, -2
    <<1, 0, 0, 0, 0, 0, 0, 0>>, <<0, 255, 255, 255, 255, 255, 255, 255>>,                             \* 2^56, 2^56 - 1
    <<1, 178, 29, 210, 19, 129, 64, 0>>, <<1, 178, 29, 210, 19, 129, 63, 255>>, <<1, 178, 29, 210, 19, 129, 64, 1>>,
    <<1, 35, 69, 103, 137, 171, 205, 239>> }
  \cup { Mask60([i \in 1 .. 8 |-> IF i = pos THEN cl ELSE bg]) : pos \in 1 .. 8, cl \in Cls, bg \in {0, 255} }
Clocks == {0, 1, 127, 128, 255, 256, 8191, 8192, 16383}
Nodes == { <<0, 0, 0, 0, 0, 0>>, <<255, 255, 255, 255, 255, 255>>, <<128, 128, 128, 128, 128, 128>>,
           <<127, 127, 127, 127, 127, 127>>, <<1, 2, 3, 4, 5, 6>> }
\* nodes that are not 6 bytes long ("node ... up to 6 bytes"; the process's own node is the hardware address of an
\* interface, which has 8 or 20 octets on some link types) and clock sequences beyond the 14 bits that are used
OddNodes == { <<>>, <<9>>, <<1, 2, 3>>, <<1, 2, 3, 4, 5>>, <<1, 2, 3, 4, 5, 6, 7>>, <<255, 254, 253, 252, 251, 250, 249, 248>>,
              [i \in 1 .. 16 |-> 160 + i], [i \in 1 .. 17 |-> 90 + i], [i \in 1 .. 20 |-> 200 + i] }
OddClocks == {16384, 16385, 32767, 65535, 65536, 2147483647}
OddT == { <<0, 0, 0, 0, 0, 0, 0, 0>>, <<15, 255, 255, 255, 255, 255, 255, 255>>, <<1, 35, 69, 103, 137, 171, 205, 239>>,
          <<1, 178, 29, 210, 19, 129, 64, 0>> }
InitV1 == \/ c \in [t : TVals, clock : Clocks, node : Nodes]
          \/ c \in [t : OddT, clock : {0, 255, 8192, 16383}, node : OddNodes]
          \/ c \in [t : OddT, clock : OddClocks, node : {<<1, 2, 3, 4, 5, 6>>, <<>>, [i \in 1 .. 8 |-> 240 + i]}]
EmitV1 == LET tw == WordBE(c.t)
              u == V1(tw, c.clock, NodeField(c.node))
              tm == TimeOfTicks(tw) IN
  PrintT(<<"CASE", ToJson([k |-> "v1", t |-> c.t, clock |-> c.clock, node |-> c.node, u |-> u, str |-> Canon(u),
                           tsec |-> BytesBE(tm.sec), tns |-> tm.ns])>>)

\* ---------------------------------------------------------------- times
Dec(neg, d) == IF neg THEN NegW(WordOfDigits(d)) ELSE WordOfDigits(d)
SecVals ==
  { Dec(TRUE, <<1, 2, 2, 1, 9, 2, 9, 2, 8, 0, 0>>), Dec(TRUE, <<1, 2, 2, 1, 9, 2, 9, 2, 7, 9, 9>>),          \* 1582-10-15 +0, +1 s
    Dec(TRUE, <<2, 2, 0, 8, 9, 8, 8, 8, 0, 0>>),                                                            \* 1900-01-01
    Dec(TRUE, <<1>>), Dec(FALSE, <<0>>), Dec(FALSE, <<1>>),
    Dec(FALSE, <<2, 1, 4, 7, 4, 8, 3, 6, 4, 7>>), Dec(FALSE, <<2, 1, 4, 7, 4, 8, 3, 6, 4, 8>>),             \* 2^31 - 1, 2^31
    Dec(FALSE, <<4, 2, 9, 4, 9, 6, 7, 2, 9, 5>>), Dec(FALSE, <<4, 2, 9, 4, 9, 6, 7, 2, 9, 6>>),             \* 2^32 - 1, 2^32
    Dec(FALSE, <<1, 7, 5, 9, 3, 4, 1, 9, 1, 1>>),                                                           \* 2025
    Dec(FALSE, <<4, 1, 0, 2, 4, 4, 4, 8, 0, 0>>),                                                           \* 2100-01-01
    Dec(FALSE, <<1, 0, 3, 0, 7, 2, 8, 5, 7, 6, 5, 9>>), Dec(FALSE, <<1, 0, 3, 0, 7, 2, 8, 5, 7, 6, 6, 0>>) }  \* last second(s) of 5236
NsVals == {0, 1, 99, 100, 101, 999, 500000050, 684697500, 684697599, 999999899, 999999900, 999999999}
InitTime == c \in {x \in [sec : SecVals, ns : NsVals] : TimeInDomain(x.sec, x.ns)}
EmitTime == LET tw == Ticks(c.sec, c.ns) IN
  PrintT(<<"CASE", ToJson([k |-> "time", sec |-> BytesBE(c.sec), ns |-> c.ns, ts |-> BytesBE(tw),
                           head |-> SubSeq(V1(tw, 0, <<0, 0, 0, 0, 0, 0>>), 1, 8),
                           tsec |-> BytesBE(c.sec), tns |-> Trunc100(c.ns),
                           least |-> LeastV1(tw), greatest |-> GreatestV1(tw)])>>)

\* several families in one TLC process (the start-up of a TLC process costs more than the cases):
\* the case records of the families have different fields
Has(f) == f \in DOMAIN c
InitParse == InitSub \/ InitCanonSub \/ InitWide
EmitParse == IF Has("n") THEN EmitSub ELSE IF Has("f") THEN EmitWide ELSE EmitCanonSub
InitRest == InitIns \/ InitCanon \/ InitV1 \/ InitTime
EmitRest == IF Has("ch") THEN EmitIns ELSE IF Has("i") THEN EmitCanon ELSE IF Has("clock") THEN EmitV1 ELSE EmitTime

Next == UNCHANGED c
=============================================================================
