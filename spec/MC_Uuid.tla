------------------------------ MODULE MC_Uuid ------------------------------
(***************************************************************************)
(* C19 case generators (spec -> code): one state per case, expected result *)
(* computed by Uuid.tla and printed as JSON.                               *)
(*   InitSub   : hex strings of length 0..40 with one character replaced   *)
(*               by one of a class alphabet (hyphen, near-hex, non-ASCII). *)
(*   InitIns   : a character inserted at every position of 31/32/33 digits *)
(*   InitCanon : mutations of the canonical 8-4-4-4-12 form                *)
(*   InitV1    : TimeUUIDWith(t, clock, node) at timestamp field boundaries*)
(*   InitTime  : UUIDFromTime / MinTimeUUID / MaxTimeUUID at boundary times*)
(***************************************************************************)
EXTENDS Uuid, Json, IOUtils

VARIABLE c

EnvNat(name, dflt) == IF name \in DOMAIN IOEnv THEN atoi(IOEnv[name]) ELSE dflt
Shard == EnvNat("VF_SHARD", 0)
NShard == EnvNat("VF_NSHARD", 1)
Stride == EnvNat("VF_STRIDE", 1)
Seed == EnvNat("VF_SEED", 1)

\* "0123456789abcdefABCDEF"
HexChars == <<48, 49, 50, 51, 52, 53, 54, 55, 56, 57, 97, 98, 99, 100, 101, 102, 65, 66, 67, 68, 69, 70>>
Pat(i) == HexChars[((i * 7 + 3) % 22) + 1]
PatStr(n) == [i \in 1 .. n |-> Pat(i)]
\* '-', 'g', 'G', '/', ':', '@', '`', ' ', NUL, DEL, e-acute, fullwidth zero, unicode hyphen, 'F', 'f', '0', '9', 'a', 'A',
\* newline, '+', '{', 'x'
Alphabet == <<45, 103, 71, 47, 58, 64, 96, 32, 0, 127, 233, 65296, 8208, 70, 102, 48, 57, 97, 65, 10, 43, 123, 120>>
NX == Len(Alphabet)

ParseCase(s) == [k |-> "parse", s |-> s, cls |-> ParseClass(s), why |-> RejectReason(s),
                 val |-> IF Len(HexDigits(s)) = 32 THEN ParseValue(s) ELSE <<>>]

InitSub ==
  c \in {x \in [n : 0 .. 40, p : 0 .. 40, a : 1 .. NX] :
           /\ x.n % NShard = Shard
           /\ x.p <= x.n
           /\ (x.p = 0 => x.a = 1)
           /\ (x.p = 0 \/ x.n \in 31 .. 33 \/ (x.n * 5 + x.p * 3 + x.a + Seed) % Stride = 0)}
SubStr(x) == [i \in 1 .. x.n |-> IF i = x.p THEN Alphabet[x.a] ELSE Pat(i)]
EmitSub == PrintT(<<"CASE", ToJson(ParseCase(SubStr(c)))>>)

InsAt(s, p, ch) == SubSeq(s, 1, p) \o <<ch>> \o SubSeq(s, p + 1, Len(s))
InitIns == c \in [n : 30 .. 34, p : 0 .. 34, ch : {45, 103, 48, 32}] /\ c.p <= c.n
EmitIns == PrintT(<<"CASE", ToJson(ParseCase(InsAt(PatStr(c.n), c.p, c.ch)))>>)

\* canonical text of the pattern bytes and its mutations
PatBytes == ParseValue(PatStr(32))
CanonS == Canon(PatBytes)
DelAt(s, p) == SubSeq(s, 1, p - 1) \o SubSeq(s, p + 1, Len(s))
SetAt(s, p, ch) == [i \in 1 .. Len(s) |-> IF i = p THEN ch ELSE s[i]]
Upper(s) == [i \in 1 .. Len(s) |-> IF s[i] \in 97 .. 102 THEN s[i] - 32 ELSE s[i]]
Mixed(s) == [i \in 1 .. Len(s) |-> IF s[i] \in 97 .. 102 /\ i % 2 = 0 THEN s[i] - 32 ELSE s[i]]
HyPos == <<9, 14, 19, 24>>
CanonCases ==
  <<CanonS, Upper(CanonS), Mixed(CanonS), PatStr(32), Upper(PatStr(32))>>
  \o [k \in 1 .. 4 |-> DelAt(CanonS, HyPos[k])]                              \* one hyphen missing
  \o [k \in 1 .. 4 |-> InsAt(DelAt(CanonS, HyPos[k]), HyPos[k] - 2, 45)]      \* hyphen one place early (inside a byte)
  \o [k \in 1 .. 4 |-> InsAt(DelAt(CanonS, HyPos[k]), HyPos[k], 45)]          \* hyphen one place late (inside a byte)
  \o [k \in 1 .. 4 |-> InsAt(DelAt(CanonS, HyPos[k]), HyPos[k] + 1, 45)]      \* two places late (between bytes)
  \o [k \in 1 .. 4 |-> InsAt(CanonS, HyPos[k], 45)]                           \* doubled hyphen
  \o [k \in 1 .. 4 |-> SetAt(CanonS, HyPos[k], 95)]                           \* '_' instead of '-'
  \o [k \in 1 .. 4 |-> SetAt(CanonS, HyPos[k], 32)]                           \* ' ' instead of '-'
  \o [k \in 1 .. 4 |-> SetAt(CanonS, HyPos[k], 48)]                           \* '0' instead of '-' (33 digits)
  \o << <<45>> \o CanonS, CanonS \o <<45>>, <<45>> \o PatStr(32), PatStr(32) \o <<45>>,
        <<123>> \o CanonS \o <<125>>,                                          \* {...}
        <<117, 114, 110, 58, 117, 117, 105, 100, 58>> \o CanonS,              \* urn:uuid:...
        <<32>> \o CanonS, CanonS \o <<32>>, CanonS \o <<10>>, <<48, 120>> \o PatStr(32),
        [i \in 1 .. 32 |-> 45], [i \in 1 .. 36 |-> 45], <<>>, <<45>>,
        CanonS \o CanonS, SubSeq(CanonS, 1, 35), CanonS \o <<48>>,
        [i \in 1 .. 63 |-> IF i % 2 = 0 THEN 45 ELSE Pat(i)] >>               \* a hyphen after every digit
InitCanon == c \in [i : 1 .. Len(CanonCases)]
EmitCanon == PrintT(<<"CASE", ToJson(ParseCase(CanonCases[c.i]))>>)

\* ---------------------------------------------------------------- timestamps
Cls == {0, 1, 127, 128, 255}
Mask60(b) == [i \in 1 .. 8 |-> IF i = 1 THEN b[1] % 16 ELSE b[i]]
TVals ==
  { <<0, 0, 0, 0, 0, 0, 0, 0>>, <<0, 0, 0, 0, 0, 0, 0, 1>>,
    <<0, 0, 0, 0, 255, 255, 255, 255>>, <<0, 0, 0, 1, 0, 0, 0, 0>>, <<0, 0, 0, 1, 0, 0, 0, 1>>,       \* 2^32 -1, +0, +1
    <<0, 0, 255, 255, 255, 255, 255, 255>>, <<0, 1, 0, 0, 0, 0, 0, 0>>, <<0, 1, 0, 0, 0, 0, 0, 1>>,   \* 2^48 -1, +0, +1
    <<15, 255, 255, 255, 255, 255, 255, 255>>, <<15, 255, 255, 255, 255, 255, 255, 254>>,             \* 2^60 -1, -2
    <<1, 0, 0, 0, 0, 0, 0, 0>>, <<0, 255, 255, 255, 255, 255, 255, 255>>,                             \* 2^56, 2^56 - 1
    <<1, 178, 29, 210, 19, 129, 64, 0>>, <<1, 178, 29, 210, 19, 129, 63, 255>>, <<1, 178, 29, 210, 19, 129, 64, 1>>,
    <<1, 35, 69, 103, 137, 171, 205, 239>> }
  \cup { Mask60([i \in 1 .. 8 |-> IF i = pos THEN cl ELSE bg]) : pos \in 1 .. 8, cl \in Cls, bg \in {0, 255} }
Clocks == {0, 1, 127, 128, 255, 256, 8191, 8192, 16383}
Nodes == { <<0, 0, 0, 0, 0, 0>>, <<255, 255, 255, 255, 255, 255>>, <<128, 128, 128, 128, 128, 128>>,
           <<127, 127, 127, 127, 127, 127>>, <<1, 2, 3, 4, 5, 6>> }
InitV1 == c \in [t : TVals, clock : Clocks, node : Nodes]
EmitV1 == LET tw == WordBE(c.t)
              u == V1(tw, c.clock, c.node)
              tm == TimeOfTicks(tw) IN
  PrintT(<<"CASE", ToJson([k |-> "v1", t |-> c.t, clock |-> c.clock, node |-> c.node, u |-> u, str |-> Canon(u),
                           tsec |-> BytesBE(tm.sec), tns |-> tm.ns])>>)

\* ---------------------------------------------------------------- times
Dec(neg, d) == IF neg THEN NegW(WordOfDigits(d)) ELSE WordOfDigits(d)
SecVals ==
  { Dec(TRUE, <<1, 2, 2, 1, 9, 2, 9, 2, 8, 0, 0>>), Dec(TRUE, <<1, 2, 2, 1, 9, 2, 9, 2, 7, 9, 9>>),          \* 1582-10-15 +0, +1 s
    Dec(TRUE, <<2, 2, 0, 8, 9, 8, 8, 8, 0, 0>>),                                                            \* 1900-01-01
    Dec(TRUE, <<1>>), Dec(FALSE, <<0>>), Dec(FALSE, <<1>>),
    Dec(FALSE, <<2, 1, 4, 7, 4, 8, 3, 6, 4, 7>>), Dec(FALSE, <<2, 1, 4, 7, 4, 8, 3, 6, 4, 8>>),             \* 2^31 - 1, 2^31
    Dec(FALSE, <<4, 2, 9, 4, 9, 6, 7, 2, 9, 5>>), Dec(FALSE, <<4, 2, 9, 4, 9, 6, 7, 2, 9, 6>>),             \* 2^32 - 1, 2^32
    Dec(FALSE, <<1, 7, 5, 9, 3, 4, 1, 9, 1, 1>>),                                                           \* 2025
    Dec(FALSE, <<4, 1, 0, 2, 4, 4, 4, 8, 0, 0>>),                                                           \* 2100-01-01
    Dec(FALSE, <<1, 0, 3, 0, 7, 2, 8, 5, 7, 6, 5, 9>>), Dec(FALSE, <<1, 0, 3, 0, 7, 2, 8, 5, 7, 6, 6, 0>>) }  \* last second(s) of 5236
NsVals == {0, 1, 99, 100, 101, 999, 500000050, 684697500, 684697599, 999999899, 999999900, 999999999}
InitTime == c \in {x \in [sec : SecVals, ns : NsVals] : TimeInDomain(x.sec, x.ns)}
EmitTime == LET tw == Ticks(c.sec, c.ns) IN
  PrintT(<<"CASE", ToJson([k |-> "time", sec |-> BytesBE(c.sec), ns |-> c.ns, ts |-> BytesBE(tw),
                           head |-> SubSeq(V1(tw, 0, <<0, 0, 0, 0, 0, 0>>), 1, 8),
                           tsec |-> BytesBE(c.sec), tns |-> Trunc100(c.ns),
                           least |-> LeastV1(tw), greatest |-> GreatestV1(tw)])>>)

Next == UNCHANGED c
=============================================================================
