---------------------------- MODULE MC_Executor ----------------------------
(* Model-checking / behaviour-dump wrapper for Executor.tla.                 *)
EXTENDS Executor, Json, TLCExt

ScriptOuts == {"ok", "e_retry", "e_next", "e_ignore", "e_rethrow", "e_unknown"}
CoreOuts == {"ok", "e_retry", "e_next", "e_rethrow"}

HostSeqs(maxH, kinds) == UNION {[1 .. n -> kinds] : n \in 0 .. maxH}
PolNone == [kind |-> "none", n |-> 0, allow |-> {}, name |-> "none"]
PolBudget(n) == [kind |-> "budget", n |-> n, allow |-> {}, name |-> "simple"]
PolScript(S) == [kind |-> "script", n |-> 0, allow |-> S, name |-> "script"]

Cfgs(hostseqs, pols, outs, ks, idems, cancels) ==
  {[hosts |-> hs, pol |-> p, outs |-> outs, k |-> k, idem |-> i, cancel |-> cn, wire |-> FALSE] :
     hs \in hostseqs, p \in pols, k \in ks, i \in idems, cn \in cancels}

\* ---- exhaustive property configurations
\* quick: <= 3 hosts (usable or not), budgets 0..2 and no policy, both idempotence values; k <= 1 on
\* every host pattern, k = 2 on three of them; cancellation on two patterns with all outcome classes
\* hosts that are reported down once an attempt on them has ended (a same-host retry finds its host gone)
CfgOnce == Cfgs({<<"okonce">>, <<"okonce", "ok">>, <<"ok", "okonce">>, <<"okonce", "okonce">>}, {PolBudget(2), PolScript({1, 2})},
                ScriptOuts, {0}, BOOLEAN, {"none"})
Pols012 == {PolNone} \cup {PolBudget(n) : n \in 0 .. 2}
CfgQuick ==
  Cfgs(HostSeqs(3, {"ok", "noconn"}), Pols012, CoreOuts, {0, 1}, BOOLEAN, {"none"})
  \cup Cfgs({<<"ok", "ok">>, <<"ok", "noconn", "ok">>}, Pols012, CoreOuts, {2}, BOOLEAN, {"none"})
  \cup Cfgs({<<"ok", "ok", "ok">>}, {PolBudget(1)}, CoreOuts, {2}, {TRUE}, {"none"})
  \cup Cfgs({<<"ok", "ok">>}, {PolBudget(1), PolScript({2})}, ScriptOuts, {0, 1}, BOOLEAN, {"cancel", "deadline"})
  \cup Cfgs({<<"ok", "noconn", "ok">>}, {PolBudget(1)}, CoreOuts, {0, 1}, BOOLEAN, {"cancel", "deadline"})
  \cup CfgOnce
\* thorough: all outcome classes, non-monotone budgets, 4 hosts, cancellation everywhere
CfgThA == Cfgs(HostSeqs(3, {"ok", "noconn"}), Pols012 \cup {PolScript({2})},
               ScriptOuts, 0 .. 2, BOOLEAN, {"none"})
CfgThB == Cfgs({<<"ok", "ok", "ok", "ok">>}, {PolBudget(2), PolScript({1, 3})}, CoreOuts, {2}, {TRUE}, {"none"})
          \cup Cfgs({<<"ok", "noconn", "ok", "ok">>}, {PolBudget(2)}, CoreOuts, {2}, {TRUE}, {"none"})
CfgThC == Cfgs(HostSeqs(2, {"ok", "noconn"}) \cup {<<"ok", "ok", "ok">>}, {PolNone, PolBudget(1), PolBudget(2)},
               CoreOuts, 0 .. 2, BOOLEAN, {"cancel", "deadline"})
CfgThorough == CfgThA \cup CfgThB \cup CfgThC
\* the instance DESIGN.md measured: 4 hosts, budget 2, k = 2
CfgWitness == Cfgs({<<"ok", "ok", "ok", "ok">>}, {PolBudget(2)}, {"ok", "e_retry", "e_next"}, {2}, {TRUE}, {"none"})
\* the wrong variant "wait for a result only" must be refuted (liveness) on this instance
CfgStuck == Cfgs({<<"ok", "ok">>}, {PolNone}, {"ok"}, {1}, {TRUE}, {"cancel"})
\* gated rounds "the caller's context ends after every execution was launched and before any answer"
CfgCancelRounds == Cfgs({<<"ok", "ok">>}, {PolNone, PolBudget(1)}, {"ok"}, {1}, {TRUE}, {"cancel", "deadline"})
\* liveness (small)
CfgLive == Cfgs({<<>>, <<"ok">>, <<"noconn", "ok">>, <<"ok", "ok">>}, {PolNone, PolBudget(1)}, {"ok", "e_retry", "e_next"}, {0, 1}, BOOLEAN, {"none", "deadline"})

\* ---- behaviour dumps (KeepHist = TRUE): one line per complete behaviour
\* sequential: no speculation (k = 0 or not idempotent); deterministic up to the environment
CfgSeq ==
  Cfgs(HostSeqs(3, {"ok", "noconn"}), {PolNone} \cup {PolBudget(n) : n \in 0 .. 2} \cup {PolScript({2})}, ScriptOuts, {0}, BOOLEAN, {"none"})
  \cup Cfgs({<<"ok", "ok", "ok">>, <<"ok", "ok", "ok", "ok">>}, {PolBudget(3)}, CoreOuts, {0}, BOOLEAN, {"none"})
  \cup Cfgs(HostSeqs(2, {"ok", "down", "nopool"}), {PolBudget(1)}, CoreOuts, {1}, {FALSE}, {"none"})
  \cup CfgOnce
  \cup Cfgs({<<"ok", "ok", "ok">>}, {PolBudget(2)}, CoreOuts, {1, 2}, {FALSE}, {"none", "deadline"})
  \cup Cfgs({<<"ok", "ok">>, <<"noconn", "ok", "ok">>}, {PolNone, PolBudget(1), PolBudget(2)}, CoreOuts, {0}, BOOLEAN, {"cancel", "deadline"})
CfgSeqThorough ==
  CfgSeq
  \cup Cfgs(HostSeqs(4, {"ok", "noconn"}), {PolBudget(n) : n \in 0 .. 3} \cup {PolScript({1, 3})}, ScriptOuts, {0}, BOOLEAN, {"none"})
\* concurrent (simulation walks): idempotent, k >= 1
CfgConc ==
  Cfgs({<<"ok", "ok">>, <<"ok", "ok", "ok">>, <<"ok", "noconn", "ok", "ok">>, <<"ok", "ok", "ok", "ok">>},
       {PolNone, PolBudget(0), PolBudget(1), PolBudget(2), PolScript({2})}, ScriptOuts, {1, 2}, {TRUE}, {"none", "cancel", "deadline"})

\* concurrent, exhaustive (every GateAtomic behaviour of small instances)
CfgConcEx ==
  Cfgs({<<"ok", "ok">>, <<"ok", "noconn", "ok">>}, {PolNone, PolBudget(1)}, {"ok", "e_retry", "e_next"}, {1}, {TRUE}, {"none"})
  \cup Cfgs({<<"ok", "ok", "ok">>}, {PolBudget(0)}, {"ok", "e_next"}, {2}, {TRUE}, {"none"})
  \cup Cfgs({<<"ok", "ok">>}, {PolBudget(1)}, {"ok", "e_next"}, {1}, {TRUE}, {"cancel", "deadline"})

SeqOf(S) == LET RECURSIVE F(_) F(X) == IF X = {} THEN <<>> ELSE
              LET m == CHOOSE x \in X : \A y \in X : x <= y IN <<m>> \o F(X \ {m}) IN F(S)
CfgJson(c) == [hosts |-> c.hosts, polkind |-> c.pol.kind, poln |-> c.pol.n, allow |-> SeqOf(c.pol.allow),
               k |-> c.k, idem |-> c.idem, cancel |-> c.cancel]
EmitCase == Terminal => PrintT(<<"CASE", ToJson([cfg |-> CfgJson(cfg), hist |-> hist])>>)
=============================================================================
