CONSTANT Thorough = FALSE
CONSTANT Tier = "quick"
CONSTANT Part = 0
INIT MInit
NEXT MNext
INVARIANT EmitCase
CHECK_DEADLOCK FALSE
