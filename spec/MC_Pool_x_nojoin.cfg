SPECIFICATION SpecNoFair
CONSTANTS
  Size = 3
  Triggers = {"f1", "f2"}
  Spawned = {"h1"}
  Pickers = {}
  Defect_PickOnlyEmpty = FALSE
  Closers = {"k1"}
  MaxFail = 1
  MaxKill = 1
  Eager = FALSE
  CloseErr = FALSE
  Defect_LateCloseUnderLock = FALSE
  Defect_NoJoin = TRUE
  Defect_AddDeadConn = FALSE
  Mut = "none"
INVARIANTS TypeOK NoSelfDeadlock SizeBound OneFiller ClosedEmpty ReportedNotInPool NoStray NoLeakAfterClose
CHECK_DEADLOCK FALSE
