------------------------------- MODULE Uuid -------------------------------
(***************************************************************************)
(* C19 - UUIDs: reference definitions from RFC 4122 and Cassandra's        *)
(* TimeUUIDType, independent of the driver's code.                         *)
(*                                                                         *)
(*  - a UUID is a sequence of 16 bytes (network order, RFC 4122 4.1.2);    *)
(*  - a string is a sequence of Unicode code points;                       *)
(*  - a time is [sec |-> 64-bit word: seconds since 1970-01-01T00:00:00Z   *)
(*    (two's complement), ns |-> 0 .. 999999999];                          *)
(*  - a version-1 timestamp is a 64-bit word < 2^60: the count of 100 ns   *)
(*    intervals since 1582-10-15T00:00:00Z.                                *)
(***************************************************************************)
EXTENDS W64, FiniteSets, TLC

\* ------------------------------------------------------------------ text form
HexVal(c) == IF c \in 48 .. 57 THEN c - 48
             ELSE IF c \in 97 .. 102 THEN c - 87
             ELSE IF c \in 65 .. 70 THEN c - 55
             ELSE -1
IsHex(c) == HexVal(c) >= 0
IsHyphen(c) == c = 45
HexDigits(s) == SelectSeq(s, IsHex)
CanonPos == {9, 14, 19, 24}
\* hyphens exactly where the canonical 8-4-4-4-12 form has them
CanonicalHyphens(s) == Len(s) = 36 /\ \A i \in 1 .. 36 : IsHyphen(s[i]) <=> i \in CanonPos
NoHyphens(s) == \A i \in 1 .. Len(s) : ~IsHyphen(s[i])
\* The property: "parsing rejects every string that does not consist of exactly 32 hex digits
\* plus optional separating hyphens", and the printed form must parse back.
\*   "reject": some character is neither a hex digit nor a hyphen, or the number of hex digits is
\*             not 32 - every parser satisfying the property refuses it;
\*   "accept": 32 hex digits without hyphens, or in the canonical 8-4-4-4-12 grouping;
\*   "either": 32 hex digits with hyphens elsewhere (leading, trailing, doubled, inside a byte):
\*             the property text does not decide whether such hyphens are "separating"; a parser
\*             may take or refuse them, but if it takes them the value is that of the digits.
ParseClass(s) ==
  IF \E i \in 1 .. Len(s) : ~IsHex(s[i]) /\ ~IsHyphen(s[i]) THEN "reject"
  ELSE IF Len(HexDigits(s)) # 32 THEN "reject"
  ELSE IF NoHyphens(s) \/ CanonicalHyphens(s) THEN "accept"
  ELSE "either"
RejectReason(s) ==
  IF \E i \in 1 .. Len(s) : ~IsHex(s[i]) /\ ~IsHyphen(s[i]) THEN "nonhex"
  ELSE IF Len(HexDigits(s)) < 32 THEN "short"
  ELSE IF Len(HexDigits(s)) > 32 THEN "long" ELSE "none"
\* value of a string with exactly 32 hex digits
ParseValue(s) == LET d == HexDigits(s) IN [i \in 1 .. 16 |-> 16 * HexVal(d[2 * i - 1]) + HexVal(d[2 * i])]

HexChar(n) == IF n < 10 THEN 48 + n ELSE 87 + n                    \* lower case (RFC 4122 section 3)
\* canonical text: xxxxxxxx-xxxx-xxxx-xxxx-xxxxxxxxxxxx
Canon(u) ==
  LET nib(k) == IF k % 2 = 1 THEN u[(k + 1) \div 2] \div 16 ELSE u[k \div 2] % 16      \* k-th nibble, 1..32
      \* number of hyphens before text position i
      hy(i) == Cardinality({p \in CanonPos : p < i})
  IN [i \in 1 .. 36 |-> IF i \in CanonPos THEN 45 ELSE HexChar(nib(i - hy(i)))]

\* ------------------------------------------------------------------ fields (RFC 4122 4.1.2)
Version(u) == u[7] \div 16
IsRfcVariant(u) == u[9] \div 64 = 2                                   \* bits 10x
\* 60-bit timestamp: time_hi (12 bits, octets 6-7), time_mid (octets 4-5), time_low (octets 0-3)
TimestampW(u) == WordBE(<<u[7] % 16, u[8], u[5], u[6], u[1], u[2], u[3], u[4]>>)
ClockSeq(u) == (u[9] % 64) * 256 + u[10]
NodeOf(u) == SubSeq(u, 11, 16)
InTsDomain(tw) == tw[8] < 16                                           \* 0 <= t < 2^60
\* version-1 UUID of timestamp tw, clock sequence clock (0 .. 2^14-1) and 6-byte node
V1(tw, clock, node) ==
  LET be == BytesBE(tw) IN
  <<be[5], be[6], be[7], be[8], be[3], be[4], (be[1] % 16) + 16, be[2],
    ((clock \div 256) % 64) + 128, clock % 256>> \o node
\* the node field of a UUID built with a node of another length: its first octets ("up to 6 bytes"), zero filled
NodeField(node) == [i \in 1 .. 6 |-> IF i <= Len(node) THEN node[i] ELSE 0]
\* what holds of TimeUUIDWith(t, clock, node) whatever the node's length: the other fields are the ones asked for
V1Fields(u, tw, clock) == /\ Len(u) = 16 /\ Version(u) = 1 /\ IsRfcVariant(u)
                          /\ TimestampW(u) = tw /\ ClockSeq(u) = clock % 16384
IsV1(u) == Len(u) = 16 /\ Version(u) = 1 /\ IsRfcVariant(u)
IsV4(u) == Len(u) = 16 /\ Version(u) = 4 /\ IsRfcVariant(u)

\* ------------------------------------------------------------------ time
\* seconds between 1582-10-15 and 1970-01-01: 141427 days
EpochOffsetW == MulW(NatW(141427), NatW(86400))
TenMillionW == NatW(10000000)
Ticks(sec, ns) == AddW(MulW(AddW(sec, EpochOffsetW), TenMillionW), NatW(ns \div 100))
\* the time is representable: 0 <= ticks < 2^60 and no wrap-around happened on the way
TimeInDomain(sec, ns) ==
  LET s == AddW(sec, EpochOffsetW) IN
  /\ ns \in 0 .. 999999999
  /\ s[8] = 0 /\ s[7] = 0 /\ s[6] = 0 /\ s[5] < 64     \* 0 <= s < 2^38 (> 2^60 / 10^7): the product cannot wrap
  /\ InTsDomain(Ticks(sec, ns))
\* word from decimal digits
WordOfDigits(d) == LET RECURSIVE G(_, _)
                       G(i, acc) == IF i > Len(d) THEN acc ELSE G(i + 1, AddW(MulW(acc, NatW(10)), NatW(d[i])))
                   IN G(1, ZeroW)
RECURSIVE IntOfDigits(_, _, _)
IntOfDigits(d, i, acc) == IF i > Len(d) THEN acc ELSE IntOfDigits(d, i + 1, acc * 10 + d[i])
\* the instant a timestamp denotes
TimeOfTicks(tw) ==
  LET d == UnsignedDecW(tw)
      n == Len(d)
      qd == IF n > 7 THEN SubSeq(d, 1, n - 7) ELSE <<0>>
      rd == IF n > 7 THEN SubSeq(d, n - 6, n) ELSE d
  IN [sec |-> SubW(WordOfDigits(qd), EpochOffsetW), ns |-> IntOfDigits(rd, 1, 0) * 100]
Trunc100(ns) == (ns \div 100) * 100

\* ------------------------------------------------------------------ Cassandra's timeuuid order
\* TimeUUIDType.compare: the timestamps first, then octets 8..15 as SIGNED bytes, lexicographically
SB(b) == IF b >= 128 THEN b - 256 ELSE b
RECURSIVE SignedLexCmp(_, _, _)
SignedLexCmp(a, b, i) == IF i > Len(a) THEN 0
                         ELSE IF SB(a[i]) < SB(b[i]) THEN -1
                         ELSE IF SB(a[i]) > SB(b[i]) THEN 1
                         ELSE SignedLexCmp(a, b, i + 1)
CassCmp(a, b) == IF LtU(TimestampW(a), TimestampW(b)) THEN -1
                 ELSE IF LtU(TimestampW(b), TimestampW(a)) THEN 1
                 ELSE SignedLexCmp(SubSeq(a, 9, 16), SubSeq(b, 9, 16), 1)
CassLE(a, b) == CassCmp(a, b) <= 0
\* least / greatest RFC 4122 version-1 UUID of a timestamp: every octet of clock_seq and node
\* ranges independently (octet 8 over the RFC variant 10xxxxxx), so the extremes of the
\* lexicographic order are the octet-wise extremes of the signed order
LeastOf(S) == CHOOSE b \in S : \A x \in S : SB(b) <= SB(x)
GreatestOf(S) == CHOOSE b \in S : \A x \in S : SB(b) >= SB(x)
Octet8 == 128 .. 191
LeastTail == <<LeastOf(Octet8)>> \o [i \in 1 .. 7 |-> LeastOf(0 .. 255)]          \* constants: evaluated once
GreatestTail == <<GreatestOf(Octet8)>> \o [i \in 1 .. 7 |-> GreatestOf(0 .. 255)]
LeastV1(tw) == SubSeq(V1(tw, 0, <<0, 0, 0, 0, 0, 0>>), 1, 8) \o LeastTail
GreatestV1(tw) == SubSeq(V1(tw, 0, <<0, 0, 0, 0, 0, 0>>), 1, 8) \o GreatestTail
\* mn / mx bound every RFC 4122 v1 UUID of timestamp tw, and are themselves of that instant
BoundsInstant(mn, mx, tw) ==
  /\ Len(mn) = 16 /\ Len(mx) = 16
  /\ Version(mn) = 1 /\ Version(mx) = 1
  /\ TimestampW(mn) = tw /\ TimestampW(mx) = tw
  /\ CassLE(mn, LeastV1(tw)) /\ CassLE(GreatestV1(tw), mx)

\* ------------------------------------------------------------------ self-test
ASSUME UnsignedDecW(EpochOffsetW) = <<1, 2, 2, 1, 9, 2, 9, 2, 8, 0, 0>>
\* RFC 4122 / Cassandra documentation examples
\* the unix epoch as a v1 timestamp is 0x01B21DD213814000 (RFC 4122 appendix, gettimeofday offset)
ASSUME Ticks(ZeroW, 0) = WordBE(<<1, 178, 29, 210, 19, 129, 64, 0>>)
ASSUME TimeOfTicks(WordBE(<<1, 178, 29, 210, 19, 129, 64, 0>>)) = [sec |-> ZeroW, ns |-> 0]
ASSUME TimeOfTicks(ZeroW) = [sec |-> NegW(EpochOffsetW), ns |-> 0]
ASSUME TimeOfTicks(NatW(10000001)) = [sec |-> AddW(NegW(EpochOffsetW), OneW), ns |-> 100]
\* 2^60 - 1 ticks = 5236-03-31T21:21:00.6846975Z = unix 103072857660
ASSUME TimeOfTicks(WordBE(<<15, 255, 255, 255, 255, 255, 255, 255>>)) =
         [sec |-> WordOfDigits(<<1, 0, 3, 0, 7, 2, 8, 5, 7, 6, 6, 0>>), ns |-> 684697500]
ASSUME TimeInDomain(ZeroW, 0) /\ TimeInDomain(NegW(EpochOffsetW), 0) /\ ~TimeInDomain(NegW(AddW(EpochOffsetW, OneW)), 999999999)
ASSUME TimeInDomain(WordOfDigits(<<1, 0, 3, 0, 7, 2, 8, 5, 7, 6, 6, 0>>), 684697599)
       /\ ~TimeInDomain(WordOfDigits(<<1, 0, 3, 0, 7, 2, 8, 5, 7, 6, 6, 0>>), 684697600)
\* layout on a hand-made value: t = 0x0123456789ABCDEF has time_low 89ABCDEF, time_mid 4567, time_hi 123
ASSUME V1(WordBE(<<1, 35, 69, 103, 137, 171, 205, 239>>), 4660, <<1, 2, 3, 4, 5, 6>>) =
         <<137, 171, 205, 239, 69, 103, 17, 35, 146, 52, 1, 2, 3, 4, 5, 6>>        \* 89abcdef-4567-1123-9234-010203040506
ASSUME TimestampW(<<137, 171, 205, 239, 69, 103, 17, 35, 146, 52, 1, 2, 3, 4, 5, 6>>) = WordBE(<<1, 35, 69, 103, 137, 171, 205, 239>>)
ASSUME ClockSeq(<<137, 171, 205, 239, 69, 103, 17, 35, 146, 52, 1, 2, 3, 4, 5, 6>>) = 4660
ASSUME Canon(<<137, 171, 205, 239, 69, 103, 17, 35, 146, 52, 1, 2, 3, 4, 5, 6>>) =
         <<56, 57, 97, 98, 99, 100, 101, 102, 45, 52, 53, 54, 55, 45, 49, 49, 50, 51, 45, 57, 50, 51, 52, 45,
           48, 49, 48, 50, 48, 51, 48, 52, 48, 53, 48, 54>>
ASSUME ParseClass(Canon(<<137, 171, 205, 239, 69, 103, 17, 35, 146, 52, 1, 2, 3, 4, 5, 6>>)) = "accept"
ASSUME ParseValue(Canon(<<137, 171, 205, 239, 69, 103, 17, 35, 146, 52, 1, 2, 3, 4, 5, 6>>)) =
         <<137, 171, 205, 239, 69, 103, 17, 35, 146, 52, 1, 2, 3, 4, 5, 6>>
ASSUME ParseClass(<<>>) = "reject" /\ ParseClass(<<45>>) = "reject"
\* the extremes: signed order puts 0x80 first and 0x7f last; within the RFC variant 0x80 .. 0xbf
ASSUME LeastOf(Octet8) = 128 /\ GreatestOf(Octet8) = 191 /\ LeastOf(0 .. 255) = 128 /\ GreatestOf(0 .. 255) = 127
\* lemma (checked on a boundary alphabet): LeastV1 / GreatestV1 bound every RFC v1 UUID of the timestamp
ASSUME LET tw == WordBE(<<1, 35, 69, 103, 137, 171, 205, 239>>)
           A == {0, 127, 128, 255} IN
       \A c1 \in {0, 63, 32} : \A c2 \in A : \A n1 \in A : \A n6 \in {0, 127, 128} :
         LET x == V1(tw, c1 * 256 + c2, <<n1, 0, 255, 128, 127, n6>>) IN
         IsV1(x) /\ CassLE(LeastV1(tw), x) /\ CassLE(x, GreatestV1(tw))
=============================================================================
