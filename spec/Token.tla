------------------------------- MODULE Token -------------------------------
(***************************************************************************)
(* C09 - partition tokens as Cassandra computes them.                      *)
(*                                                                         *)
(* Reference definitions (not a transcription of the driver):              *)
(*  - Murmur3H1: org.apache.cassandra.utils.MurmurHash.hash3_x64_128 with  *)
(*    seed 0, first result word.  Java's `(long) key.get(i)` sign-extends  *)
(*    the tail bytes (the "signed-byte tail quirk"); blocks are read as    *)
(*    little-endian longs.                                                 *)
(*  - Murmur3Partitioner.getToken: normalize(h1): Long.MIN_VALUE is mapped *)
(*    to Long.MAX_VALUE (MIN_VALUE is the partitioner's MINIMUM token and  *)
(*    is never assigned to a key).                                         *)
(*  - RandomPartitioner.getToken: new BigInteger(md5(key)).abs(), i.e. the *)
(*    absolute value of the digest read as a signed 128-bit big-endian     *)
(*    integer.  The digest bytes are an input (crypto/md5 is trusted).     *)
(*  - ByteOrderedPartitioner: the token is the key, ordered by unsigned    *)
(*    lexicographic byte comparison.                                       *)
(*  - Routing key (CompositeType layout of the partition key): one column: *)
(*    the raw encoded value; several: for each component in partition-key  *)
(*    order <2-byte big-endian length> <bytes> <0x00>.                     *)
(*  - Token strings are decimal numerals; tokens are ordered as integers.  *)
(***************************************************************************)
EXTENDS W64, TLC

C1 == <<213, 83, 66, 17, 145, 123, 195, 135>>     \* 0x87c37b91114253d5
C2 == <<127, 147, 69, 39, 67, 173, 245, 76>>      \* 0x4cf5ad432745937f
F1 == <<205, 140, 85, 237, 215, 175, 81, 255>>    \* 0xff51afd7ed558ccd
F2 == <<83, 236, 133, 26, 254, 185, 206, 196>>    \* 0xc4ceb9fe1a85ec53
FiveW == <<5, 0, 0, 0, 0, 0, 0, 0>>
N1 == <<41, 231, 220, 82, 0, 0, 0, 0>>            \* 0x52dce729
N2 == <<181, 90, 73, 56, 0, 0, 0, 0>>             \* 0x38495ab5

Fmix(k) == LET a == XorW(k, Shr(k, 33))
               b == MulW(a, F1)
               c == XorW(b, Shr(b, 33))
               d == MulW(c, F2)
           IN XorW(d, Shr(d, 33))
MixK1(k1) == MulW(Rotl(MulW(k1, C1), 31), C2)
MixK2(k2) == MulW(Rotl(MulW(k2, C2), 33), C1)

\* (long) b  for a Java byte with unsigned value b, shifted left by 8*j bits
SExtShl(b, j) == [i \in 1 .. 8 |-> IF i = j + 1 THEN b ELSE IF i > j + 1 /\ b >= 128 THEN 255 ELSE 0]

\* both result words <<h1, h2>> of hash3_x64_128(data, seed 0) before the final h2 += h1
Murmur3Words(data) ==
  LET len == Len(data)
      nb == len \div 16
      RECURSIVE Body(_, _, _)
      Body(i, h1, h2) ==
        IF i = nb THEN <<h1, h2>>
        ELSE LET k1 == WordLE(SubSeq(data, i * 16 + 1, i * 16 + 8))
                 k2 == WordLE(SubSeq(data, i * 16 + 9, i * 16 + 16))
                 h1a == XorW(h1, MixK1(k1))
                 h1b == AddW(MulW(AddW(Rotl(h1a, 27), h2), FiveW), N1)
                 h2a == XorW(h2, MixK2(k2))
                 h2b == AddW(MulW(AddW(Rotl(h2a, 31), h1b), FiveW), N2)
             IN Body(i + 1, h1b, h2b)
      hb == Body(0, ZeroW, ZeroW)
      tl == len % 16
      tb(j) == data[nb * 16 + j + 1]                \* tail byte j = 0 .. tl-1
      RECURSIVE TK(_, _, _)
      \* xor of the sign-extended tail bytes j = lo .. hi, byte j at bit 8*(j-lo)
      TK(j, lo, acc) == IF j < lo THEN acc ELSE TK(j - 1, lo, XorW(acc, SExtShl(tb(j), j - lo)))
      k2t == IF tl > 8 THEN TK(tl - 1, 8, ZeroW) ELSE ZeroW
      k1t == IF tl > 0 THEN TK((IF tl > 8 THEN 8 ELSE tl) - 1, 0, ZeroW) ELSE ZeroW
      h2t == IF tl > 8 THEN XorW(hb[2], MixK2(k2t)) ELSE hb[2]
      h1t == IF tl > 0 THEN XorW(hb[1], MixK1(k1t)) ELSE hb[1]
      lw == NatW(len)
      h1x == XorW(h1t, lw)
      h2x == XorW(h2t, lw)
      h1y == AddW(h1x, h2x)
      h2y == AddW(h2x, h1y)
      h1z == Fmix(h1y)
      h2z == Fmix(h2y)
  IN <<AddW(h1z, h2z), h2z>>
Murmur3H1(data) == Murmur3Words(data)[1]

MinLongW == <<0, 0, 0, 0, 0, 0, 0, 128>>
MaxLongW == <<255, 255, 255, 255, 255, 255, 255, 127>>
NormalizeW(w) == IF w = MinLongW THEN MaxLongW ELSE w
\* token of a non-empty partition key under Murmur3Partitioner, as a word / as printed
Murmur3TokenW(key) == NormalizeW(Murmur3H1(key))
Murmur3TokenAscii(key) == AsciiOfSigned(SignedDecW(Murmur3TokenW(key)))
H1Ascii(key) == AsciiOfSigned(SignedDecW(Murmur3H1(key)))

\* RandomPartitioner: |signed 128-bit big-endian digest|, printed in decimal
RandomTokenDigits(md5) == DecOfBytes(AbsBytes(md5))
RandomTokenAscii(md5) == AsciiOfDigits(RandomTokenDigits(md5))

\* ByteOrderedPartitioner order: unsigned lexicographic, a proper prefix is smaller
RECURSIVE BytesLtFrom(_, _, _)
BytesLtFrom(a, b, i) ==
  IF i > Len(a) THEN i <= Len(b)
  ELSE IF i > Len(b) THEN FALSE
  ELSE IF a[i] # b[i] THEN a[i] < b[i]
  ELSE BytesLtFrom(a, b, i + 1)
BytesLt(a, b) == BytesLtFrom(a, b, 1)

\* ---------------------------------------------------------------- routing key
\* encodings of the few CQL types used to exercise the framing (value encodings are C12's subject)
Int32BE(n) == LET u == IF n < 0 THEN n + 2147483647 + 1 ELSE n        \* low 31 bits
                  top == u \div 16777216 + (IF n < 0 THEN 128 ELSE 0)
              IN <<top, (u \div 65536) % 256, (u \div 256) % 256, u % 256>>
Int64BEOfInt(n) == (IF n < 0 THEN <<255, 255, 255, 255>> ELSE <<0, 0, 0, 0>>) \o Int32BE(n)
\* a component: [t |-> type name, n |-> integer (int / bigint / boolean), b |-> bytes (blob/text/uuid/bigint8)]
EncComp(c) == CASE c.t = "int" -> Int32BE(c.n)
                [] c.t = "bigint" -> Int64BEOfInt(c.n)
                [] c.t = "boolean" -> <<IF c.n = 0 THEN 0 ELSE 1>>
                [] OTHER -> c.b                        \* blob, text (UTF-8 bytes), uuid, bigint8: as given
Len16BE(n) == <<n \div 256, n % 256>>
\* values: bound values; idx: for each partition-key column, in partition-key order, the 1-based
\* position of its bound value
RoutingKey(values, idx) ==
  IF Len(idx) = 1 THEN EncComp(values[idx[1]])
  ELSE LET RECURSIVE G(_, _)
           G(i, acc) == IF i > Len(idx) THEN acc
                        ELSE LET e == EncComp(values[idx[i]])
                             IN G(i + 1, acc \o Len16BE(Len(e)) \o e \o <<0>>)
       IN G(1, <<>>)

\* A statement need not bind every partition-key column: `WHERE tenant = ? AND name = 'bob'` binds one of
\* two, the other is a literal the driver never sees.  idx[i] = 0 says that the i-th partition-key column is
\* not bound by a marker.  The key cannot be known then: the driver must report NO routing key (empty, no
\* error) - a key made of the bound subset belongs to another partition.
PartiallyBound(idx) == \E i \in 1 .. Len(idx) : idx[i] = 0
RoutingKeyOf(values, idx) == IF PartiallyBound(idx) THEN <<>> ELSE RoutingKey(values, idx)

\* ---- a statement object that is used more than once
\* A Query is bound (Bind replaces ALL bound values), asked for its routing key, re-bound, asked again;
\* an explicit routing key (Query.RoutingKey) overrides the computed one until it is cleared.  The routing
\* key asked for is always that of the values bound AT THAT MOMENT.  steps: sequence of
\*   [op |-> "bind", vals |-> values] | [op |-> "route", b |-> bytes] | [op |-> "clear"] | [op |-> "get"]
\* (other fields ignored); result: the key required at each "get", in order.  (What an explicit key
\* becomes when the query is re-bound is not specified: scripts clear it first.)
QuerySeqExpected(steps, idx) ==
  LET RECURSIVE G(_, _, _, _, _)
      G(i, vals, ovr, has, acc) ==
        IF i > Len(steps) THEN acc
        ELSE LET st == steps[i] IN
             CASE st.op = "bind" -> G(i + 1, st.vals, ovr, has, acc)
               [] st.op = "route" -> G(i + 1, vals, st.b, TRUE, acc)
               [] st.op = "clear" -> G(i + 1, vals, <<>>, FALSE, acc)
               [] st.op = "get" -> G(i + 1, vals, ovr, has, Append(acc, IF has THEN ovr ELSE RoutingKey(vals, idx)))
  IN G(1, <<>>, <<>>, FALSE, <<>>)
\* A Batch is routed by its FIRST statement: [op |-> "add", vals |-> values, ix |-> key positions of that
\* statement] appends a statement; a batch without statements has no routing key (empty).
BatchSeqExpected(steps) ==
  LET RECURSIVE G(_, _, _, _)
      G(i, first, has, acc) ==
        IF i > Len(steps) THEN acc
        ELSE LET st == steps[i] IN
             CASE st.op = "add" -> IF has THEN G(i + 1, first, has, acc) ELSE G(i + 1, st, TRUE, acc)
               [] st.op = "get" -> G(i + 1, first, has, Append(acc, IF has THEN RoutingKey(first.vals, first.ix) ELSE <<>>))
  IN G(1, [op |-> "none"], FALSE, <<>>)
SeqExpected(obj, steps, idx) == IF obj = "batch" THEN BatchSeqExpected(steps) ELSE QuerySeqExpected(steps, idx)

\* ---------------------------------------------------------------- self-test
\* published vectors: MurmurHash series generated by the DataStax Java implementation
\* (internal/murmur/murmur_test.go), other drivers' examples, the Cassandra sign example.
AsciiDigitsKey(n) == [i \in 1 .. n |-> 48 + ((i - 1) % 10)]          \* "0123456789012..."
HexW(s) == WordBE(s)
ASSUME Murmur3H1(<<>>) = ZeroW
ASSUME Murmur3H1(AsciiDigitsKey(1)) = WordBE(<<42, 201, 222, 190, 213, 70, 163, 128>>)      \* 0x2ac9debed546a380
ASSUME Murmur3H1(AsciiDigitsKey(3)) = WordBE(<<206, 104, 246, 13, 124, 53, 59, 219>>)       \* 0xce68f60d7c353bdb
ASSUME Murmur3H1(AsciiDigitsKey(8)) = WordBE(<<130, 54, 3, 155, 115, 135, 53, 77>>)         \* 0x8236039b7387354d
ASSUME Murmur3H1(AsciiDigitsKey(9)) = WordBE(<<76, 30, 135, 81, 159, 231, 56, 186>>)        \* 0x4c1e87519fe738ba
ASSUME Murmur3H1(AsciiDigitsKey(13)) = WordBE(<<138, 41, 154, 143, 142, 14, 45, 167>>)      \* 0x8a299a8f8e0e2da7
ASSUME Murmur3H1(AsciiDigitsKey(15)) = WordBE(<<164, 178, 3, 187, 29, 144, 185, 163>>)      \* 0xa4b203bb1d90b9a3
ASSUME Murmur3H1(AsciiDigitsKey(16)) = WordBE(<<163, 41, 58, 214, 152, 236, 185, 154>>)     \* 0xa3293ad698ecb99a
ASSUME Murmur3H1(AsciiDigitsKey(19)) = WordBE(<<45, 3, 56, 193, 202, 135, 209, 50>>)        \* 0x2d0338c1ca87d132
\* "hello" -> 0xcbd8a7b341bd9b02
ASSUME Murmur3H1(<<104, 101, 108, 108, 111>>) = WordBE(<<203, 216, 167, 179, 65, 189, 155, 2>>)
\* "The quick brown fox jumps over the lazy dog." -> 0xcd99481f9ee902c9 (2 blocks + tail 12)
ASSUME Murmur3H1(<<84, 104, 101, 32, 113, 117, 105, 99, 107, 32, 98, 114, 111, 119, 110, 32, 102, 111, 120, 32,
                   106, 117, 109, 112, 115, 32, 111, 118, 101, 114, 32, 116, 104, 101, 32, 108, 97, 122, 121,
                   32, 100, 111, 103, 46>>) = WordBE(<<205, 153, 72, 31, 158, 233, 2, 201>>)
\* Cassandra sign example: 00104327529fb645dd00b883ec39ae448bb800000400066a6b00 -> -9223371632693506265
ASSUME H1Ascii(<<0, 16, 67, 39, 82, 159, 182, 69, 221, 0, 184, 131, 236, 57, 174, 68, 139, 184, 0, 0, 4, 0, 6,
                 106, 107, 0>>) = <<45, 57, 50, 50, 51, 51, 55, 49, 54, 51, 50, 54, 57, 51, 53, 48, 54, 50, 54, 53>>
\* a 16-byte key whose first hash word is Long.MIN_VALUE (found by inverting the one-block hash);
\* Cassandra assigns it Long.MAX_VALUE
MinTokenKey == <<223, 231, 111, 82, 2, 63, 173, 76, 130, 184, 97, 194, 198, 92, 122, 107>>
ASSUME Murmur3H1(MinTokenKey) = MinLongW /\ Murmur3TokenW(MinTokenKey) = MaxLongW
\* RandomPartitioner reference (python driver): md5("test") = 098f6bcd4621d373cade4e832627b4f6
\*   -> 12707736894140473154801792860916528374
ASSUME RandomTokenDigits(<<9, 143, 107, 205, 70, 33, 211, 115, 202, 222, 78, 131, 38, 39, 180, 246>>) =
       <<1, 2, 7, 0, 7, 7, 3, 6, 8, 9, 4, 1, 4, 0, 4, 7, 3, 1, 5, 4, 8, 0, 1, 7, 9, 2, 8, 6, 0, 9, 1, 6, 5, 2, 8, 3, 7, 4>>
\* BigInteger arithmetic identities: |-1| = 1, |-2^127| = 2^127 = 170141183460469231731687303715884105728
ASSUME RandomTokenDigits([i \in 1 .. 16 |-> 255]) = <<1>>
ASSUME RandomTokenDigits([i \in 1 .. 16 |-> IF i = 1 THEN 128 ELSE 0]) =
       <<1, 7, 0, 1, 4, 1, 1, 8, 3, 4, 6, 0, 4, 6, 9, 2, 3, 1, 7, 3, 1, 6, 8, 7, 3, 0, 3, 7, 1, 5, 8, 8, 4, 1, 0, 5, 7, 2, 8>>
ASSUME SignedDecW(MinLongW) = [neg |-> TRUE, dig |-> <<9, 2, 2, 3, 3, 7, 2, 0, 3, 6, 8, 5, 4, 7, 7, 5, 8, 0, 8>>]
ASSUME SignedDecW(MaxLongW) = [neg |-> FALSE, dig |-> <<9, 2, 2, 3, 3, 7, 2, 0, 3, 6, 8, 5, 4, 7, 7, 5, 8, 0, 7>>]
ASSUME Int32BE(-1) = <<255, 255, 255, 255>> /\ Int32BE(-2147483647 - 1) = <<128, 0, 0, 0>> /\ Int32BE(258) = <<0, 0, 1, 2>>
ASSUME RoutingKey(<<[t |-> "blob", n |-> 0, b |-> <<1, 2>>]>>, <<1>>) = <<1, 2>>
\* Cassandra CompositeType example: ('ab', 1:int) -> 0002 6162 00 0004 00000001 00
ASSUME RoutingKey(<<[t |-> "int", n |-> 1, b |-> <<>>], [t |-> "text", n |-> 0, b |-> <<97, 98>>]>>, <<2, 1>>) =
       <<0, 2, 97, 98, 0, 0, 4, 0, 0, 0, 1, 0>>
ASSUME LET A == <<[t |-> "blob", n |-> 0, b |-> <<1>>]>>
           B == <<[t |-> "blob", n |-> 0, b |-> <<2, 3>>]>>
           st(op, v, x) == [op |-> op, vals |-> v, b |-> x, ix |-> <<1>>] IN
       /\ QuerySeqExpected(<<st("bind", A, <<>>), st("get", <<>>, <<>>), st("bind", B, <<>>), st("get", <<>>, <<>>),
                             st("route", <<>>, <<9>>), st("get", <<>>, <<>>), st("clear", <<>>, <<>>), st("get", <<>>, <<>>)>>, <<1>>)
            = << <<1>>, <<2, 3>>, <<9>>, <<2, 3>> >>
       /\ BatchSeqExpected(<<st("get", <<>>, <<>>), st("add", A, <<>>), st("get", <<>>, <<>>), st("add", B, <<>>), st("get", <<>>, <<>>)>>)
            = << <<>>, <<1>>, <<1>> >>
ASSUME RoutingKeyOf(<<[t |-> "blob", n |-> 0, b |-> <<1, 2>>]>>, <<1, 0>>) = <<>>
       /\ RoutingKeyOf(<<[t |-> "blob", n |-> 0, b |-> <<1, 2>>]>>, <<1>>) = <<1, 2>>
=============================================================================
