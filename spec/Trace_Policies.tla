--------------------------- MODULE Trace_Policies ---------------------------
(***************************************************************************)
(* Vector validation for C11 (code -> spec).  Every record of VF_TRACE is  *)
(* a world (layout, policy, options, keyspace), a history of notifications *)
(* and, per query class, the host sequences the REAL policy objects        *)
(* offered for several successive picks (or the panic they raised).  TLC   *)
(* rebuilds the abstract cluster view from the history, takes the replicas *)
(* from the reference placement and evaluates the property predicates of   *)
(* Policies.tla on the real sequences.  One VIOL line per failing record;  *)
(* DRIFT lines where only the predicted round-robin order differs.         *)
(***************************************************************************)
EXTENDS Policies, Json, IOUtils

Log == ndJsonDeserialize(IOEnv.VF_TRACE)
NB == 64

VARIABLES l, b
vars == <<l, b>>
Init == l = 0 /\ b = 0
Next == \/ l = 0 /\ b = 0 /\ b' \in 1 .. NB /\ l' = 0
        \/ l = 0 /\ b > 0 /\ l' \in {k \in 1 .. Len(Log) : (k % NB) + 1 = b} /\ b' = b
Spec == Init /\ [][Next]_vars

RECURSIVE PicksBefore(_, _)
PicksBefore(groups, g) == IF g = 1 THEN 0 ELSE PicksBefore(groups, g - 1) + Len(groups[g - 1].picks)

\* the keyspace names (rf > 0) a datacenter none of the current ring members is in
NamesAbsentDc(w, s) ==
  w.strat = "nts" /\ \E dc \in DOMAIN KsRf(w) : KsRf(w)[dc] > 0 /\ ~\E h \in RangeOf(s.members) : w.dc[h] = dc

\* the replica list the policy's replica map holds for token q, judged against Cassandra's placement on
\* the current ring - ALL ring members, whether up or down: placement does not depend on liveness
StoredKinds(w, s, q, rep) ==
  LET pl == IF TokenAware(w, s, q) THEN Placement(w, s, q) ELSE <<>> IN
  IF pl = <<>> THEN {}
  ELSE LET ring == CurRing(w, s)
           p == PrimaryIndex(CurTokens(w, s), q)
           holds == IF w.strat = "simple" THEN SimpleOwnerHolds(w.rfn[1]) ELSE NtsOwnerHolds(ring, p, w.dc, KsRf(w))
       IN Failing(rep, pl, ring, p, holds)

\* first occurrences only
RECURSIVE Dedup(_)
Dedup(seq) == IF seq = <<>> THEN <<>>
              ELSE LET d == Dedup(SubSeq(seq, 1, Len(seq) - 1)) x == seq[Len(seq)] IN
                   IF x \in RangeOf(d) THEN d ELSE Append(d, x)
Dups(seq) == {seq[k] : k \in {j \in 1 .. Len(seq) : \E m \in 1 .. j - 1 : seq[m] = seq[j]}}

GroupVerdict(w0, s0, hist, groups, g) ==
  LET grp == groups[g]
      pr == ForKs(w0, s0, grp.ks)     \* the statement's keyspace: the session's or the second one
      w == pr[1]
      s == pr[2]
      cx == QCtx(w, s, grp.q)
      n == Len(grp.picks)
      base == s.npicks + PicksBefore(groups, g)
      amb == Ambiguous(w, s, grp.q)
      kinds0 == UNION {PickFailing(w, s, cx, grp.picks[i], grp.capped[i]) : i \in 1 .. n} \cup RotationFailing(w, s, cx, grp.picks)
      \* ambiguous corner (no placement known): accepted if the predicates hold under either reading
      kinds == IF kinds0 # {} /\ amb /\
                  (UNION {PickFailing(w, s, QCtxAlt(w, s, grp.q), grp.picks[i], grp.capped[i]) : i \in 1 .. n}) = {}
               THEN {} ELSE kinds0
      \* When the replica list the policy was handed by the placement code (C10) contains a host twice,
      \* failures are inherited from C10 exactly if the policy did the right thing relative to that
      \* list: the predicates hold for the de-duplicated real sequence against the de-duplicated list.
      realdup == ~SeqNoDup(grp.realrep)
      cx2 == QCtxR(w, s, grp.q, Dedup(grp.realrep))
      kinds2 == IF ~realdup THEN kinds
                ELSE UNION {PickFailing(w, s, cx2, Dedup(grp.picks[i]), grp.capped[i]) \cup
                            (IF Dups(grp.picks[i]) \subseteq Dups(grp.realrep) THEN {} ELSE {"duplicate-offer"})
                            : i \in 1 .. n}
      known == Known(s)
      \* (no order is predicted in the ambiguous corner)
      \* overlapped update calls ("par") leave the order inside the host lists open: no order predicted
      \* ("conc": calls made at the same moment from several goroutines)
      overlapped == \E k \in 1 .. Len(hist) : hist[k].op \in {"par", "conc"}
      drift == (IF ~amb /\ ~overlapped /\ \E i \in 1 .. n : Rest(cx, grp.picks[i]) # Rest(cx, Offer(w, s, cx, base + i)) THEN {"order"} ELSE {}) \cup
               (IF \E i \in 1 .. n : \E k \in 1 .. Len(grp.picks[i]) : grp.picks[i][k] # 0 /\ grp.picks[i][k] \notin known
                THEN {"offers-unknown-host"} ELSE {})
  IN [g |-> g, q |-> grp.q, ks |-> grp.ks, kinds |-> kinds, drift |-> drift,
      realdup |-> realdup, kinds2 |-> kinds2, realrep |-> grp.realrep,
      stored |-> IF realdup THEN {} ELSE StoredKinds(w, s, grp.q, grp.realrep),
      placement |-> IF cx.ta THEN Placement(w, s, grp.q) ELSE <<>>,
      emptymid |-> /\ w.pol = "rack" /\ w.nonlocal /\ cx.ta
                   /\ \A h \in RangeOf(cx.reps) : Tier(w, h) # 1
                   /\ \E h \in cx.far : Tier(w, h) = 2,
      ambiguous |-> amb,
      got |-> grp.picks, near |-> cx.near, far |-> cx.far, reps |-> cx.reps,
      predicted |-> [i \in 1 .. n |-> Offer(w, s, cx, base + i)]]

\* Interleaved group: several iterators alive at once, advanced alternately (the harness records each
\* iterator's OWN sequence).  The property speaks about the sequence offered for one query, whatever
\* other queries do meanwhile: the same predicates apply to every iterator's sequence.  Besides, the
\* replica list the policy holds for the token afterwards (an observation of its replica map, C10's
\* "hosts a token-aware policy offers first") must still be Cassandra's placement, owner first.
SeqKinds(w, s, q, seq, capped) ==
  LET k0 == PickFailing(w, s, QCtx(w, s, q), seq, capped) IN
  IF k0 # {} /\ Ambiguous(w, s, q) /\ PickFailing(w, s, QCtxAlt(w, s, q), seq, capped) = {} THEN {} ELSE k0
IlVerdict(w, s, il, g) ==
  LET grp == il[g]
      n == Len(grp.qs)
      per == [j \in 1 .. n |-> SeqKinds(w, s, grp.qs[j], grp.seqs[j], grp.capped[j])]
  IN [g |-> g, qs |-> grp.qs, sched |-> grp.sched, seqs |-> grp.seqs,
      kinds |-> UNION {per[j] : j \in 1 .. n},
      stored |-> StoredKinds(w, s, grp.qs[1], grp.rep1),
      rep0 |-> grp.rep0, rep1 |-> grp.rep1,
      placement |-> IF TokenAware(w, s, grp.qs[1]) THEN Placement(w, s, grp.qs[1]) ELSE <<>>,
      firstbad |-> LET bs == {j \in 1 .. n : per[j] # {}} IN IF bs = {} THEN 0 ELSE CHOOSE j \in bs : \A m \in bs : j <= m]

\* a node reported down while a plan is being consumed (it had not been offered yet) is not offered by the rest of the plan
MidOf(r) == IF "mid" \in DOMAIN r THEN r.mid ELSE <<>>
MidBad(r) == {[q |-> MidOf(r)[i].q, first |-> MidOf(r)[i].first, victim |-> MidOf(r)[i].victim, rest |-> MidOf(r)[i].rest] :
                i \in {j \in 1 .. Len(MidOf(r)) : \E k \in 1 .. Len(MidOf(r)[j].rest) : MidOf(r)[j].rest[k] = MidOf(r)[j].victim}}

Verdict(r) ==
  LET w == r.w
      upto == IF r.pat > 0 THEN r.pat ELSE Len(r.hist)
      s == StateAfter(w, r.hist, upto)
      gv == [g \in 1 .. Len(r.groups) |-> GroupVerdict(w, s, r.hist, r.groups, g)]
      iv == [g \in 1 .. Len(r.il) |-> IlVerdict(w, s, r.il, g)]
  IN [id |-> r.id, pclass |-> r.pclass, pat |-> r.pat, pgrp |-> r.pgrp, pil |-> r.pil, xov |-> r.xov,
      ilbad |-> {iv[g] : g \in {x \in 1 .. Len(r.il) : iv[x].kinds # {} \/ iv[x].stored # {}}},
      absentdc |-> NamesAbsentDc(w, s), emptyring |-> Len(CurRing(w, s)) = 0, midbad |-> MidBad(r),
      bad |-> {gv[g] : g \in {x \in 1 .. Len(r.groups) : gv[x].kinds # {} \/ gv[x].stored # {}}},
      drift |-> UNION {gv[g].drift : g \in 1 .. Len(r.groups)},
      driftsample |-> LET ds == {x \in 1 .. Len(r.groups) : gv[x].drift # {}} IN
                      IF ds = {} THEN <<>> ELSE <<gv[CHOOSE x \in ds : \A y \in ds : x <= y]>>]

WellFormed(r) == /\ Len(r.w.ring) = Len(r.w.tokens) /\ Len(r.w.dc) = Len(r.w.rack)
                 /\ \A k \in 1 .. Len(r.w.ring) : r.w.ring[k] \in 1 .. Len(r.w.dc)
                 /\ \A k \in 1 .. Len(r.w.tokens) - 1 : r.w.tokens[k] < r.w.tokens[k + 1]
                 /\ \A g \in 1 .. Len(r.groups) : Len(r.groups[g].picks) = Len(r.groups[g].capped)
                 /\ \A g \in 1 .. Len(r.il) : Len(r.il[g].qs) = Len(r.il[g].seqs) /\ Len(r.il[g].qs) = Len(r.il[g].capped)
                                              /\ Len(r.il[g].qs) >= 1

Report == l > 0 =>
  IF ~WellFormed(Log[l]) THEN PrintT(<<"MALFORMED", ToJson([id |-> Log[l].id])>>)
  ELSE LET v == Verdict(Log[l]) IN
       \* xov: calls that entered the NextHost function of one query while another call was inside it
       /\ (v.pclass # "none" \/ v.bad # {} \/ v.ilbad # {} \/ v.xov > 0 \/ v.midbad # {}) => PrintT(<<"VIOL", ToJson(v)>>)
       /\ (v.pclass = "none" /\ v.bad = {} /\ v.ilbad = {} /\ v.xov = 0 /\ v.midbad = {} /\ v.drift # {}) => PrintT(<<"DRIFT", ToJson(v)>>)
=============================================================================
