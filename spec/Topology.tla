------------------------------ MODULE Topology ------------------------------
(***************************************************************************)
(* Reference replica placement (property C10).                             *)
(*                                                                         *)
(* This module states what CASSANDRA does, not what the driver does:       *)
(*   - a ring is a sequence of <<token, node>> sorted by token; the owner  *)
(*     ("primary") of lookup token t is the node at the first ring token   *)
(*     >= t, wrapping to the first entry (range (previous, token]);        *)
(*   - SimpleStrategy: the next rf distinct nodes clockwise from there;    *)
(*   - NetworkTopologyStrategy: transcription of Cassandra 4.x             *)
(*     NetworkTopologyStrategy.calculateNaturalReplicas /                  *)
(*     DatacenterEndpoints: per datacenter rfLeft = min(rf, nodes in dc),  *)
(*     acceptableRackRepeats = rf - racks in dc; a node is added when its  *)
(*     rack is new for that dc, or while rack repeats are still            *)
(*     acceptable; a node is never added twice; datacenters the ring does  *)
(*     not contain, and datacenters with rf 0, take no part.               *)
(*                                                                         *)
(* Representation (shared with Gen_Topology, Trace_Topology, Policies):    *)
(*   ring   : sequence of node ids (naturals), one entry per ring token,   *)
(*            in token order                                               *)
(*   tokens : strictly increasing sequence of integers, same length        *)
(*   dcOf, rackOf : sequences indexed by node id (strings); a rack name is *)
(*            local to its datacenter                                      *)
(*   rf     : function datacenter name -> replication factor (Nat) for     *)
(*            NetworkTopologyStrategy (only the datacenters the keyspace   *)
(*            names are in its domain); a natural for SimpleStrategy       *)
(***************************************************************************)
EXTENDS Integers, Sequences, FiniteSets

RangeOf(s) == {s[k] : k \in 1 .. Len(s)}
Min2(a, b) == IF a < b THEN a ELSE b

\* index of the ring entry owning lookup token t: first token >= t, wrapping
PrimaryIndex(tokens, t) ==
  LET ge == {k \in 1 .. Len(tokens) : tokens[k] >= t}
  IN IF ge = {} THEN 1 ELSE CHOOSE k \in ge : \A m \in ge : k <= m

\* ---------- SimpleStrategy: next rf distinct nodes clockwise from position i
Simple(ring, i, rf) ==
  LET n == Len(ring)
      RECURSIVE W(_, _)
      W(j, acc) == IF j = n \/ Len(acc) >= rf THEN acc
                   ELSE LET h == ring[((i - 1 + j) % n) + 1] IN
                        IF h \in RangeOf(acc) THEN W(j + 1, acc) ELSE W(j + 1, Append(acc, h))
  IN W(0, <<>>)

\* ---------- NetworkTopologyStrategy.calculateNaturalReplicas from position i
NtsHostsIn(ring, dcOf, dc) == {h \in RangeOf(ring) : dcOf[h] = dc}
\* datacenters that take part: named by the keyspace with rf > 0 and present in the ring
NtsPart(ring, dcOf, rf) == {dc \in DOMAIN rf : rf[dc] > 0 /\ NtsHostsIn(ring, dcOf, dc) # {}}

Nts(ring, i, dcOf, rackOf, rf) ==
  LET n == Len(ring)
      hostsIn(dc) == NtsHostsIn(ring, dcOf, dc)
      racksIn(dc) == {rackOf[h] : h \in hostsIn(dc)}
      part == NtsPart(ring, dcOf, rf)
      st0 == [dc \in part |-> [left |-> Min2(rf[dc], Cardinality(hostsIn(dc))),
                               rep |-> rf[dc] - Cardinality(racksIn(dc)), racks |-> {}]]
      RECURSIVE Walk(_, _, _)
      Walk(j, st, acc) ==
        IF j = n \/ (\A dc \in part : st[dc].left = 0) THEN acc
        ELSE LET h == ring[((i - 1 + j) % n) + 1]
                 dc == dcOf[h] IN
             IF dc \notin part \/ st[dc].left = 0 \/ h \in RangeOf(acc) THEN Walk(j + 1, st, acc)
             ELSE IF rackOf[h] \notin st[dc].racks
                  THEN Walk(j + 1, [st EXCEPT ![dc].left = @ - 1, ![dc].racks = @ \cup {rackOf[h]}], Append(acc, h))
             ELSE IF st[dc].rep <= 0 THEN Walk(j + 1, st, acc)
             ELSE Walk(j + 1, [st EXCEPT ![dc].left = @ - 1, ![dc].rep = @ - 1], Append(acc, h))
  IN Walk(0, st0, <<>>)

\* ---------- the property predicates of C10 on an observed replica list `got`
\* for the ring position i, given the reference list `ref` for that position.
\* ownerHolds: the owner's datacenter holds replicas (NTS), resp. rf > 0 (Simple).
NoDuplicates(got) == \A a, b \in 1 .. Len(got) : a # b => got[a] # got[b]
SameSet(got, ref) == RangeOf(got) = RangeOf(ref)
PrimaryFirst(got, ring, i, ownerHolds) == ownerHolds => (Len(got) > 0 /\ got[1] = ring[i])
SizeBound(got, ring) == Len(got) <= Cardinality(RangeOf(ring))

SimpleOwnerHolds(rf) == rf > 0
NtsOwnerHolds(ring, i, dcOf, rf) == dcOf[ring[i]] \in NtsPart(ring, dcOf, rf)

\* the failing predicates, as a set of names (empty = the property holds for this list);
\* "same set" is reported as its two halves so that a different failure gets a different name
Failing(got, ref, ring, i, ownerHolds) ==
  (IF NoDuplicates(got) THEN {} ELSE {"duplicate-replica"}) \cup
  (IF RangeOf(ref) \subseteq RangeOf(got) THEN {} ELSE {"missing-replica"}) \cup
  (IF RangeOf(got) \subseteq RangeOf(ref) THEN {} ELSE {"foreign-replica"}) \cup
  (IF PrimaryFirst(got, ring, i, ownerHolds) THEN {} ELSE {"primary-not-first"}) \cup
  (IF SizeBound(got, ring) THEN {} ELSE {"size-bound"})

\* the reference satisfies its own property (checked as an invariant by the generator run)
RefSelfConsistent(ref, ring, i, ownerHolds) == Failing(ref, ref, ring, i, ownerHolds) = {}
=============================================================================
