SPECIFICATION WSpec
CONSTANTS
  WalkLen = 30
  Profiles = {"P1", "P2"}
  StmtSet = {"q0", "p0", "p2", "b2"}
  CopySetters <- Setters
  MaxSets = 5
  MaxLives = 3
  MaxExecs = 2
  WithBatch = TRUE
  PoolVariant = "none"
INVARIANTS EmitWalk
CHECK_DEADLOCK FALSE
