INIT InitRkPartial
NEXT Next
INVARIANT EmitRkPartial
CHECK_DEADLOCK FALSE
