SPECIFICATION Spec
CONSTANTS
  Ids = {"i1", "i2", "i3"}
  Addrs = {"a1", "a2", "a3"}
  Filt = {}
  DefectByAddr = FALSE
  MaxLen = 2
  WithBad = FALSE
  WithDup = FALSE
  WithSplit = FALSE
  C0peer = "a0"
  MaxLevel = 5
INVARIANTS TypeOK PropertyHolds
CHECK_DEADLOCK FALSE
