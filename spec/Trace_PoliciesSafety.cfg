SPECIFICATION Spec
INVARIANTS Report Busy
CHECK_DEADLOCK FALSE
