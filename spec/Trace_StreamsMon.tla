-------------------------- MODULE Trace_StreamsMon --------------------------
(***************************************************************************)
(* Evaluates the C08 property invariants on executions of the real         *)
(* allocator recorded under the gate scheduler (one line per atomic step,  *)
(* with the real bitmap and counter after the step).  Used for schedules   *)
(* on which the code did NOT follow Streams.tla step by step: the model's  *)
(* verdict does not carry over, so the property is evaluated on what the   *)
(* code really did.  Several schedules are concatenated ("init" lines).    *)
(***************************************************************************)
EXTENDS Integers, Sequences, FiniteSets, TLC, Json, IOUtils

Log == ndJsonDeserialize(IOEnv.VF_TRACE)
N == 128
ToSet(s) == {s[i] : i \in 1 .. Len(s)}
Thr == {"t1", "t2", "t3", "t4"}

VARIABLES l, held, cand, pcs, bad,
          relStarted,   \* ids for which a release has started since they were last acquired
          trued         \* ... and for which a Clear has reported true
vars == <<l, held, cand, pcs, bad, relStarted, trued>>

Init == /\ l = 1
        /\ held = [t \in Thr |-> {}]
        /\ cand = [t \in Thr |-> {}]
        /\ pcs = [t \in Thr |-> "idle"]
        /\ bad = "none"
        /\ relStarted = {} /\ trued = {}

Cur == Log[l]
Free(k) == ToSet(Log[k].free)

Reset == /\ Cur.op = "init"
         /\ held' = [t \in Thr |-> {}]
         /\ cand' = [t \in Thr |-> {}]
         /\ pcs' = [t \in Thr |-> "idle"]
         /\ relStarted' = {} /\ trued' = {}
         /\ bad' = IF Cur.inuse # N - Cardinality(Free(l)) - 1 THEN "CountExact" ELSE "none"

Step ==
  /\ Cur.op # "init"
  /\ LET t == Cur.t
         fr == Free(l)
         allHeld == UNION {held[u] : u \in Thr}
         \* a thread's ghost: ids free at every instant since its GetStream began
         cand1 == [u \in Thr |-> IF u = t /\ Cur.op = "get" THEN Free(l - 1) \cap fr ELSE cand[u] \cap fr]
         \* the hold ends when any release path starts (two paths may race on one id)
         held1 == IF Cur.op = "clear" THEN [u \in Thr |-> held[u] \ {Cur.id}] ELSE held
         rel1 == IF Cur.op = "clear" THEN relStarted \cup {Cur.id} ELSE relStarted
         ret == Cur.pc = "idle"
         pcs1 == [pcs EXCEPT ![t] = Cur.pc]
         v == CASE ret /\ Cur.rk = "get_ok" /\ Cur.rv \in UNION {held1[u] : u \in Thr} -> "Unique"
                [] ret /\ Cur.rk = "get_ok" /\ ~(Cur.rv \in 1 .. N - 1) -> "Range"
                [] ret /\ Cur.rk = "get_ok" /\ Cur.rv \in fr -> "HeldMarked"
                [] ret /\ Cur.rk = "get_fail" /\ cand1[t] # {} -> "NoFalseExhaustion"
                [] ret /\ Cur.rk = "clear_true" /\ Cur.rv \in trued -> "OneTrueRelease"
                [] (\A u \in Thr : pcs1[u] = "idle") /\ ~(rel1 \subseteq (trued \cup (IF ret /\ Cur.rk = "clear_true" THEN {Cur.rv} ELSE {}))) -> "ClearReports"
                [] 0 \in fr -> "Reserved"
                [] Cur.inuse < 0 -> "CountNonNeg"
                [] (\A u \in Thr : pcs1[u] = "idle") /\ Cur.inuse # N - Cardinality(fr) - 1 -> "CountExact"
                [] (UNION {held1[u] : u \in Thr}) \cap fr # {} -> "HeldMarked"
                [] OTHER -> "none"
     IN /\ held' = IF ret /\ Cur.rk = "get_ok" THEN [held1 EXCEPT ![t] = @ \cup {Cur.rv}] ELSE held1
        /\ cand' = cand1
        /\ pcs' = pcs1
        /\ relStarted' = IF ret /\ Cur.rk = "get_ok" THEN rel1 \ {Cur.rv} ELSE rel1
        /\ trued' = IF ret /\ Cur.rk = "clear_true" THEN trued \cup {Cur.rv}
                    ELSE IF ret /\ Cur.rk = "get_ok" THEN trued \ {Cur.rv} ELSE trued
        /\ bad' = v

Next == /\ l <= Len(Log)
        /\ (Reset \/ Step)
        /\ l' = l + 1
Spec == Init /\ [][Next]_vars

PropertyHolds == bad = "none"
Report == bad # "none" => PrintT(<<"MONVIOL", ToJson([kind |-> bad, line |-> l - 1, sched |-> Log[l - 1].sched, k |-> Log[l - 1].k])>>)
=============================================================================
