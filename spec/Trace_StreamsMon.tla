-------------------------- MODULE Trace_StreamsMon --------------------------
(***************************************************************************)
(* Evaluates the C08 property invariants on executions of the real         *)
(* allocator recorded under the gate scheduler (one line per atomic step,  *)
(* with the real bitmap and counter after the step).  Used for schedules   *)
(* on which the code did NOT follow Streams.tla step by step: the model's  *)
(* verdict does not carry over, so the property is evaluated on what the   *)
(* code really did.  Several schedules are concatenated ("init" lines).    *)
(***************************************************************************)
EXTENDS Integers, Sequences, FiniteSets, TLC, Json, IOUtils

Log == ndJsonDeserialize(IOEnv.VF_TRACE)
N == 128
ToSet(s) == {s[i] : i \in 1 .. Len(s)}
Thr == {"t1", "t2", "t3", "t4"}

VARIABLES l, held, cand, pcs, bad,
          acq,          \* id -> number of times its bit went from clear to set (effect of an acquisition)
          trues,        \* id -> number of Clear calls that returned true
          start         \* line of the "init" record of the current schedule
          
vars == <<l, held, cand, pcs, bad, acq, trues, start>>

Init == /\ l = 1
        /\ held = [t \in Thr |-> {}]
        /\ cand = [t \in Thr |-> {}]
        /\ pcs = [t \in Thr |-> "idle"]
        /\ bad = "none"
        /\ acq = <<>> /\ trues = <<>> /\ start = 1

Cur == Log[l]
Free(k) == ToSet(Log[k].free)

Reset == /\ Cur.op = "init"
         /\ held' = [t \in Thr |-> {}]
         /\ cand' = [t \in Thr |-> {}]
         /\ pcs' = [t \in Thr |-> "idle"]
         /\ acq' = <<>> /\ trues' = <<>> /\ start' = l
         /\ bad' = IF Cur.inuse # N - Cardinality(Free(l)) - 1 THEN "CountExact" ELSE "none"

Step ==
  /\ Cur.op # "init"
  /\ LET t == Cur.t
         fr == Free(l)
         ret == Cur.pc = "idle"
         allHeld == UNION {held[u] : u \in Thr}
         \* a thread's ghost: ids free at every instant since its GetStream began
         cand1 == [u \in Thr |-> IF u = t /\ Cur.op = "get" THEN Free(l - 1) \cap fr ELSE cand[u] \cap fr]
         \* the hold ends when any release path starts (two paths may race on one id)
         held1 == IF Cur.op = "clear" THEN [u \in Thr |-> held[u] \ {Cur.id}] ELSE held
         \* Returns are not linearization points, so releases are counted against EFFECTS: every
         \* Clear that reports true must correspond to one clear->set->clear cycle of the bit,
         \* which the per-step bitmaps show.
         Cnt(f, x) == IF x \in DOMAIN f THEN f[x] ELSE 0
         Inc(f, X) == [x \in DOMAIN f \cup X |-> Cnt(f, x) + (IF x \in X THEN 1 ELSE 0)]
         newlySet == Free(l - 1) \ fr
         acq1 == Inc(acq, newlySet)
         trues1 == IF ret /\ Cur.rk = "clear_true" THEN Inc(trues, {Cur.rv}) ELSE trues
         \* ids in use at the start of the log count as acquired once
         Base(x) == IF x \in Free(start) THEN 0 ELSE 1
         pcs1 == [pcs EXCEPT ![t] = Cur.pc]
         v == CASE ret /\ Cur.rk = "get_ok" /\ Cur.rv \in UNION {held1[u] : u \in Thr} -> "Unique"
                [] ret /\ Cur.rk = "get_ok" /\ ~(Cur.rv \in 1 .. N - 1) -> "Range"
                [] ret /\ Cur.rk = "get_ok" /\ Cur.rv \in fr -> "HeldMarked"
                [] ret /\ Cur.rk = "get_fail" /\ cand1[t] # {} -> "NoFalseExhaustion"
                [] \E x \in DOMAIN trues1 : trues1[x] > Cnt(acq1, x) + Base(x) -> "OneTrueRelease"
                [] (\A u \in Thr : pcs1[u] = "idle")
                   /\ \E x \in DOMAIN acq1 \cup DOMAIN trues1 :
                         Cnt(trues1, x) # Cnt(acq1, x) + Base(x) - (IF x \in fr THEN 0 ELSE 1) -> "ClearReports"
                [] 0 \in fr -> "Reserved"
                [] Cur.inuse < 0 -> "CountNonNeg"
                [] (\A u \in Thr : pcs1[u] = "idle") /\ Cur.inuse # N - Cardinality(fr) - 1 -> "CountExact"
                [] (UNION {held1[u] : u \in Thr}) \cap fr # {} -> "HeldMarked"
                [] OTHER -> "none"
     IN /\ held' = IF ret /\ Cur.rk = "get_ok" THEN [held1 EXCEPT ![t] = @ \cup {Cur.rv}] ELSE held1
        /\ cand' = cand1
        /\ pcs' = pcs1
        /\ acq' = acq1
        /\ trues' = trues1
        /\ start' = start
        /\ bad' = v

Next == /\ l <= Len(Log)
        /\ (Reset \/ Step)
        /\ l' = l + 1
Spec == Init /\ [][Next]_vars

PropertyHolds == bad = "none"
Report == bad # "none" => PrintT(<<"MONVIOL", ToJson([kind |-> bad, line |-> l - 1, sched |-> Log[l - 1].sched, k |-> Log[l - 1].k])>>)
=============================================================================
