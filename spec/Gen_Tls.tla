------------------------------ MODULE Gen_Tls ------------------------------
(***************************************************************************)
(* C20 spec -> code: every row of the TLS configuration space is ONE TLC   *)
(* state; an invariant prints the row with what the documentation requires *)
(* (TlsEffective) and the required outcome of a real handshake against     *)
(* each kind of server.  The same run checks that the documented table is  *)
(* a function and agrees with the wording of the property.                 *)
(***************************************************************************)
EXTENDS Handshake, TLC, Json

VARIABLE row
Init == row \in {r \in TlsRows : CanonicalRow(r)}
Next == UNCHANGED row
Spec == Init /\ [][Next]_row

Emit == PrintT(<<"ROW", ToJson([in |-> row, exp |-> TlsEffective(row), trust |-> Trust(row),
                                 hs |-> [k \in ServerKinds |-> HandshakeOK(row, k)]])>>)
TableOK == TableWellFormed
\* sanity of the reference itself: an explicit caller ServerName is always honoured; without
\* verification nothing constrains the name; a bad file is an error whatever the flags are
RefSane == LET e == TlsEffective(row)
           IN /\ (row.cfg /\ row.snset) => e.sn = "user"
              /\ (~e.verify /\ ~(row.cfg /\ row.snset)) => e.sn = "any"
              /\ (e.verify /\ ~(row.cfg /\ row.snset)) => e.sn = "host"
              /\ e.err = (row.ca \notin {"absent", "valid"} \/ row.kp \notin {"absent", "valid"})
              /\ (~row.cfg) => (e.verify = row.hv)
=============================================================================
