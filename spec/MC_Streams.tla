----------------------------- MODULE MC_Streams -----------------------------
(* Model-checking and edge-dump wrapper for Streams.tla.                     *)
EXTENDS Streams, Json, TLCExt

\* Every transition TLC generates, projected on the implementation-visible part
\* of the state, printed as one JSON object (used by the graph walk).
SetToSeq(S) == LET RECURSIVE F(_) F(X) == IF X = {} THEN <<>> ELSE
                 LET m == CHOOSE x \in X : \A y \in X : x <= y IN <<m>> \o F(X \ {m}) IN F(S)
Proj(u, o, n, p, l, k, h, pa, r) ==
  [used |-> SetToSeq(Ids \ u), offset |-> o, inuse |-> n,
   th |-> [t \in Threads |-> [pc |-> p[t], ops |-> k[t], id |-> l[t].id, pos |-> l[t].pos, j |-> l[t].j,
                              off |-> l[t].off, first |-> l[t].first,
                              snapfree |-> IF p[t] = "g_cas_word" THEN SetToSeq(IdsOfWord(l[t].pos) \ l[t].snap)
                                           ELSE IF p[t] = "c_cas_word" THEN SetToSeq(IdsOfWord(WordOf(l[t].id)) \ l[t].snap)
                                           ELSE <<>>,
                              held |-> SetToSeq(h[t]), past |-> SetToSeq(pa[t]),
                              rk |-> r[t].kind, rv |-> r[t].val]]]
EmitEdge ==
  PrintT(<<"EDGE", ToJson([from |-> Proj(used, offset, inuse, pc, loc, ops, held, past, res),
                           to |-> Proj(used', offset', inuse', pc', loc', ops', held', past', res')])>>)
EmitInit == PrintT(<<"INIT", ToJson(Proj(used, offset, inuse, pc, loc, ops, held, past, res))>>)
InitMark == ((\A t \in Threads : ops[t] = 0 /\ pc[t] = "idle") => EmitInit)

\* specification without fairness for the dump runs
SpecNoFair == Init /\ [][Next]_vars
=============================================================================
