CONSTANT Thorough = FALSE
CONSTANT Tier = "thorough"
CONSTANT Part = 0
INIT MInit
NEXT MRandNext
INVARIANT EmitCase
CHECK_DEADLOCK FALSE
