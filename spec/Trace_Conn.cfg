SPECIFICATION TSpec
CONSTANTS
  Req <- TraceReq
  Sid <- TraceSid
  HasTimer = TRUE
  AllowCancel = TRUE
  AllowBuildFail = TRUE
  AllowWriteFail = TRUE
  AllowSrvClose = TRUE
  AllowSilent = TRUE
  AllowExtClose = TRUE
  MaxUnsolicited = 100000
  MaxAnswers = 1
  HBReq <- TraceHB
  HBMaxFail = 5
  TimeoutLimit <- TraceTimeoutLimit
  Mut = "none"
INVARIANTS NotAccepted HBCloseJustified TimeoutCloseJustified NoMisroute NoReuseWhileOutstanding UniqueHold NoDupRefusal OutcomeAllowed ReleaseOnce Conservation NoLeak
CONSTRAINT Mark
CONSTRAINT DriftMark
POSTCONDITION PrintMark
CHECK_DEADLOCK FALSE
