SPECIFICATION GenSpec
CONSTANTS
  Vers = {"a", "b"}
  Peers = {"p1", "p2"}
  MaxPolls = 4
  MaxFail = 2
  MaxEnv = 2
  CountNullVersion = TRUE
  Variant = "ok"
  MaxCmds = 16
  Allow = {"Err", "Env", "Cancel", "Expire", "Zero", "Reject"}
INVARIANT EmitWalk
CHECK_DEADLOCK FALSE
