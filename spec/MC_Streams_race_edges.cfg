SPECIFICATION SpecNoFair
CONSTANTS
  Words = 2
  Bits = 64
  Threads = {"t1", "t2"}
  MaxOps = 2
  InitFree = {63, 64}
  InitOffset = 1
  DoubleClear = FALSE
  RaceClear = TRUE
ACTION_CONSTRAINT EmitEdge
INVARIANT InitMark
CHECK_DEADLOCK FALSE
