SPECIFICATION Spec
CONSTANTS
  MaxE = 3
  Configs <- CfgLive
  KeepHist = FALSE
  GateAtomic = FALSE
  NonIdemRetry = TRUE
  Defect_WaitResultsOnly = FALSE
VIEW View
INVARIANTS NonIdemNeverRetried
