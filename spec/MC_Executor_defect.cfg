SPECIFICATION Spec
CONSTANTS
  MaxE = 3
  Configs <- CfgLive
  KeepHist = FALSE
  GateAtomic = FALSE
  NonIdemRetry = TRUE
VIEW View
INVARIANTS NonIdemNeverRetried
