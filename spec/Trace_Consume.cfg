SPECIFICATION TSpec
CONSTANTS
  MaxPages = 2
  MaxRows = 2
  Variant = "ok"
INVARIANTS Report Finished
CHECK_DEADLOCK FALSE
