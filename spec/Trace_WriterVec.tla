--------------------------- MODULE Trace_WriterVec ---------------------------
(***************************************************************************)
(* Validates vectors recorded from the real writers (C07).  Each vector:   *)
(* frame sizes, the byte stream that reached the socket (one writer index  *)
(* per byte), the (n, err) reported to every writer, and - for the case    *)
(* replay - what a further write did after the first round.  The property  *)
(* clauses are evaluated on the recorded facts; for the sequential cases   *)
(* the results are also compared with the model's prediction.              *)
(***************************************************************************)
EXTENDS Integers, Sequences, FiniteSets, TLC, Json, IOUtils

Vecs == ndJsonDeserialize(IOEnv.VF_TRACE)
Sequential == IOEnv.VF_SEQUENTIAL = "1"

VARIABLES l, bad
vars == <<l, bad>>

Count(wire, w) == Cardinality({i \in 1 .. Len(wire) : wire[i] = w})
Runs(wire) == LET RECURSIVE R(_, _) R(i, acc) ==
                    IF i > Len(wire) THEN acc
                    ELSE IF acc # <<>> /\ acc[Len(acc)][1] = wire[i]
                         THEN R(i + 1, [acc EXCEPT ![Len(acc)] = <<wire[i], acc[Len(acc)][2] + 1>>])
                         ELSE R(i + 1, Append(acc, <<wire[i], 1>>))
              IN R(1, <<>>)

FrameLenOf(v, w) == IF w \in {9, 10} THEN 2 ELSE v.lens[w]

\* model prediction for writers served one after the other in index order by a socket
\* that accepts k bytes in total: [n, ok] per writer, nothing after a torn frame
Predict(v) ==
  LET RECURSIVE P(_, _, _, _) P(i, pos, torn, acc) ==
        IF i > Len(v.lens) THEN acc
        ELSE IF torn THEN P(i + 1, pos, torn, Append(acc, [n |-> 0, ok |-> FALSE]))
        ELSE LET room == IF v.k < 0 THEN v.lens[i] ELSE (IF v.k - pos > v.lens[i] THEN v.lens[i] ELSE (IF v.k - pos < 0 THEN 0 ELSE v.k - pos))
             IN P(i + 1, pos + room, 0 < room /\ room < v.lens[i], Append(acc, [n |-> room, ok |-> room = v.lens[i]]))
  IN P(1, 0, FALSE, <<>>)

Check(v) ==
  LET wire == IF Sequential THEN v.wire \o v.wire2 \o v.wire3 ELSE v.wire
      r == Runs(wire)
      nW == Len(v.lens)
      tornRound1 == \E i \in 1 .. Len(Runs(v.wire)) : Runs(v.wire)[i][2] < FrameLenOf(v, Runs(v.wire)[i][1])
  IN
  IF v.stuck = 1 THEN "WriterHang"
  ELSE IF \E i, j \in 1 .. Len(r) : i # j /\ r[i][1] = r[j][1] THEN "WholeFrames"            \* interleaved / repeated
  ELSE IF \E i \in 1 .. Len(r) : r[i][2] > FrameLenOf(v, r[i][1]) THEN "WholeFrames"
  ELSE IF \E i \in 1 .. Len(r) - 1 : r[i][2] < FrameLenOf(v, r[i][1]) THEN "NothingAfterPartial"  \* bytes follow a torn frame
  ELSE IF \E w \in 1 .. nW : v.res[w].err = "ctx" /\ v.res[w].n = 0 /\ Count(v.wire, w) > 0 THEN "NotStartedNoBytes"
  ELSE IF \E w \in 1 .. nW : v.res[w].n # Count(v.wire, w) THEN "CountExact"
  ELSE IF \E w \in 1 .. nW : v.res[w].err = "none" /\ v.res[w].n # v.lens[w] THEN "OkImpliesWhole"
  ELSE IF \E w \in 1 .. nW : v.res[w].n < v.lens[w] /\ v.res[w].err = "none" THEN "OkImpliesWhole"
  ELSE IF Sequential /\ tornRound1 /\ (Len(v.wire2) > 0 \/ v.res2.err = "none") THEN "NothingAfterPartial"
  ELSE IF Sequential /\ tornRound1 /\ (Len(v.wire3) > 0 \/ v.res3.err = "none") THEN "NothingAfterPartial"
  ELSE IF Sequential /\ ~tornRound1 /\ v.k < 0 /\ (v.res2.err # "none" \/ Len(v.wire2) # 2) THEN "SpuriousRefusal"
  ELSE IF Sequential /\ ~tornRound1 /\ v.k < 0 /\ (v.res3.err # "none" \/ Len(v.wire3) # 2) THEN "SpuriousRefusal"
  ELSE IF Sequential /\ (\E w \in 1 .. nW : v.res[w].n # Predict(v)[w].n \/ (v.res[w].err = "none") # Predict(v)[w].ok) THEN "ModelMismatch"
  ELSE "none"

Init == l = 1 /\ bad = "none"
Next == /\ l <= Len(Vecs)
        /\ bad' = Check(Vecs[l])
        /\ l' = l + 1
Spec == Init /\ [][Next]_vars
Report == bad # "none" => PrintT(<<"MONVIOL", ToJson([kind |-> bad, line |-> l - 1, id |-> Vecs[l - 1].id])>>)
=============================================================================
