---------------------------- MODULE ExecutorMon ----------------------------
(***************************************************************************)
(* Property C13 ("retries, idempotence and speculative execution follow    *)
(* the documented contract") as a deterministic monitor over the           *)
(* OBSERVABLE events of one query execution.  The same monitor is          *)
(*   - composed with the state machine Executor.tla (ghost variable g):    *)
(*     TLC proves that no behaviour of the model raises a violation key;   *)
(*   - stepped over NDJSON traces recorded from the real queryExecutor     *)
(*     (Trace_ExecutorMon.tla): a key raised there is a violation of the   *)
(*     property by the real code.                                          *)
(*                                                                         *)
(* Event vocabulary (record [ev, e, h, n, x, y]; e = execution, numbered   *)
(* in the order of their first event; h = host index in the sequence       *)
(* offered by the host selection policy, 0 = iterator exhausted):          *)
(*   pick   e h        e called the (shared) host iterator and got h       *)
(*   start  e h n x    e calls execute on a connection of h; n = identity  *)
(*                     of the attempt (10*e + i for e's i-th attempt);     *)
(*                     x = "sent" | "refused" (the context                 *)
(*                     was already cancelled: Conn.exec returns ctx.Err()  *)
(*                     before anything reaches the server)                 *)
(*   end    e h n x    that attempt returned; x = outcome class ("ok",     *)
(*                     "canceled" / "deadline" = the context's error, or   *)
(*                     an error class); the                                *)
(*                     attempt is added to the query's metrics (logged     *)
(*                     inside Query.attempt, atomically with the counter)  *)
(*   allow  e n x      RetryPolicy.Attempt(q) was asked while Attempts()=n *)
(*                     and answered x = "yes" | "no"                       *)
(*   decide e x y      RetryPolicy.GetRetryType(err of class y) = x in     *)
(*                     {"retry","next","ignore","rethrow","unknown"}       *)
(*   cancel x          the caller's context ends (environment): x =        *)
(*                     "cancel" (cancelled) | "deadline" (deadline expired)*)
(*   quiesce           harness knowledge: every live execution is parked   *)
(*                     at a gate and nothing happened for a long time      *)
(*   return n h x      executeQuery returned; n = identity of the attempt   *)
(*                     whose *Iter is returned (0: an Iter made by the     *)
(*                     executor, -1: not observable), h = identity of the  *)
(*                     attempt whose error OBJECT it carries (0: none / a  *)
(*                     sentinel), x = class                                *)
(*                                                                         *)
(* Scenario record c: hosts (sequence of "ok" | "down" | "nopool" |        *)
(* "noconn"), pol = [kind, n, allow], k (speculative attempts), idem, wire *)
(* (TRUE: end-to-end observation, "start" is logged by the node).          *)
(*   pol.kind = "none"   no retry policy                                   *)
(*            = "budget" SimpleRetryPolicy / ExponentialBackoffRetryPolicy *)
(*                       {NumRetries: n} ("number of times to retry a      *)
(*                       query") / DowngradingConsistencyRetryPolicy with  *)
(*                       n levels: a retry is allowed iff Attempts() <= n  *)
(*            = "script" arbitrary: allowed iff Attempts() \in allow       *)
(* The policy's decisions (GetRetryType) are INPUTS of the property.       *)
(***************************************************************************)
EXTENDS Integers, Sequences, FiniteSets

CONSTANT MaxE                    \* bound on the number of executions tracked
E == 1 .. MaxE

Ev(ev, e, h, n, x, y) == [ev |-> ev, e |-> e, h |-> h, n |-> n, x |-> x, y |-> y]
NoEv == Ev("none", 0, 0, 0, "", "")

SetMax(S) == IF S = {} THEN 0 ELSE CHOOSE a \in S : \A b \in S : b <= a

\* ---- what the documented policies allow
PolAllow(pol, n) ==
  CASE pol.kind = "budget" -> n <= pol.n
    [] pol.kind = "script" -> n \in pol.allow
    [] OTHER -> FALSE
\* the largest value of Attempts() at which a retry is still granted
PolBmax(pol) ==
  CASE pol.kind = "budget" -> pol.n
    [] pol.kind = "script" -> SetMax(pol.allow)
    [] OTHER -> 0

(***************************************************************************)
(* THE DOCUMENTED DECISIONS OF THE SHIPPED POLICIES (pol.name), at the     *)
(* granularity the executor distinguishes: "retried" (Retry or             *)
(* RetryNextHost) / "stop" (Ignore or Rethrow: queryExecutor.do returns    *)
(* the attempt's Iter for both) / "any" (the godoc says nothing).          *)
(* SimpleRetryPolicy, ExponentialBackoffRetryPolicy: the godoc documents   *)
(* the budget only (NumRetries) -> "any".                                  *)
(* DowngradingConsistencyRetryPolicy (godoc, policies.go):                 *)
(*   "On a read timeout: the operation is retried with the next provided   *)
(*    consistency level."                                       -> retried *)
(*   "On a write timeout: if the operation is an UNLOGGED_BATCH and at     *)
(*    least one replica acknowledged the write, the operation is retried   *)
(*    ... Furthermore, for other write types, if at least one replica      *)
(*    acknowledged the write, the timeout is ignored."                     *)
(*      UNLOGGED_BATCH, acknowledged -> retried; every other write type    *)
(*      (SIMPLE BATCH COUNTER CAS BATCH_LOG VIEW CDC) -> stop, acknowledged *)
(*      (ignored) or not (the godoc lists no retry for it).                *)
(*      UNLOGGED_BATCH, not acknowledged -> "any": the godoc lists no      *)
(*      retry, the repository's own TestDowngradingConsistencyRetryPolicy  *)
(*      expects Retry - ambiguous, not judged.                             *)
(*   "On an unavailable exception: if at least one replica is alive, the   *)
(*    operation is retried ..."        alive -> retried; none alive -> stop *)
(*   every other error: "any".                                             *)
(* Error classes as the harness names them: unavail_alive | unavail_dead | *)
(* read_timeout | read_timeout_data | wt_<type>_<recv|none>.               *)
(***************************************************************************)
WtOtherTypes == {"simple", "batch", "counter", "cas", "batchlog", "view", "cdc"}
WtOtherClasses == {"wt_" \o t \o "_" \o a : t \in WtOtherTypes, a \in {"recv", "none"}}
DocDecision(name, y) ==
  IF name # "downgrade" THEN "any"
  ELSE IF y \in {"read_timeout", "read_timeout_data", "unavail_alive", "wt_unlogged_recv"} THEN "retried"
  ELSE IF y \in {"unavail_dead"} \cup WtOtherClasses THEN "stop"
  ELSE "any"
DecisionClass(d) == IF d \in {"retry", "next"} THEN "retried" ELSE "stop"

SpecModeOf(c) == c.idem /\ c.k > 0
\* an attempt (or executeQuery itself) answering with the context's own error: context.Canceled
\* ("canceled") or context.DeadlineExceeded ("deadline", the caller's deadline expired)
CtxErrs == {"canceled", "deadline"}
IsErr(o) == o \notin ({"ok", "none"} \cup CtxErrs)
StopDecisions == {"ignore", "rethrow", "unknown"}

(***************************************************************************)
(* THE ADMISSIBLE NUMBER OF ATTEMPTS.  The property says "the number of    *)
(* times it reaches servers never exceeds what the policies allow".  The   *)
(* speculative policy allows 1 + k executions, each of which sends the     *)
(* query once without asking anybody.  Every further attempt needs a grant *)
(* RetryPolicy.Attempt(q) = true, and a budget policy grants while         *)
(* q.Attempts() <= B, where Attempts() is the number of COMPLETED attempts *)
(* of all executions (shared counter).  A grant is given at a moment when  *)
(* counter <= B; at that moment each OTHER started execution has at most   *)
(* one attempt in flight that the counter has not seen, so                 *)
(*        sent  <=  B + (number of executions started)                     *)
(* and TLC exhibits behaviours that reach it (all executions read          *)
(* Attempts() = B before any of them attempts again).  Without speculation *)
(* this is the familiar B + 1.  "B + 1" under speculation would be a false *)
(* alarm: it is violated by the model of the documented behaviour itself   *)
(* (MC_Executor_tempting.cfg).                                             *)
(***************************************************************************)
Allowed(c, nexecs) == PolBmax(c.pol) + nexecs

\* ---- monitor state
MonX0 == [natt |-> 0, prevh |-> 0, ord |-> 0, out |-> "none", lerr |-> 0, lerrx |-> "none",
          alw |-> "none", dec |-> "none", cand |-> -1, skipped |-> FALSE,
          comp |-> FALSE, ratt |-> 0, reord |-> 0, rx |-> "none", aft |-> FALSE, aftc |-> FALSE, hs |-> {}]
MonInit == [sent |-> 0, ends |-> 0, execs |-> {}, cancelled |-> FALSE, ret |-> FALSE, q |-> {}, viol |-> {},
            x |-> [e \in E |-> MonX0]]

\* a new execution shows up
NewExecKeys(m, e, c) ==
  IF e \in m.execs THEN {}
  ELSE (IF ~c.idem /\ m.execs # {} THEN {"speculative-non-idempotent"} ELSE {})
       \cup (IF c.idem /\ Cardinality(m.execs) + 1 > c.k + 1 THEN {"speculation-exceeds-policy"} ELSE {})

\* "okonce": a host that is usable when it is offered and is reported down once an attempt on it has ended
UsableKinds == {"ok", "okonce"}
Usable(c, h) == h >= 1 /\ h <= Len(c.hosts) /\ c.hosts[h] \in UsableKinds

StartKeys(m, r, e, h, x, c) ==
  LET retry == r.natt >= 1
      nex == Cardinality(m.execs \cup {e})
      sent1 == m.sent + (IF x = "sent" THEN 1 ELSE 0) IN
  \* "the caller gets exactly one result - the first to complete": once the caller has it the
  \* statement is over (executeQuery cancels the executions' context when it returns), and no
  \* further request may go out for it.  In-package a "sent" start is logged in the same critical
  \* section as the context check, so any one after the return event counts.  On the wire
  \* (c.wire: the event is logged by the NODE on receipt) a request may have been sent before
  \* the return and be seen after it; it is certainly sent after the return when the execution
  \* has another event after the return before it (each event of an execution causally
  \* precedes its next request).
  (IF x = "sent" /\ m.ret /\ (~c.wire \/ r.aft) THEN {"attempt-after-result"} ELSE {})
  \* "context cancellation stops further attempts": no request after the caller's context ended
  \* (cancel event; same in-package / on-the-wire reasoning as above).  This also covers a
  \* cancellation that lands BETWEEN two attempts (while the retry policy is consulted or sleeps).
  \cup (IF x = "sent" /\ m.cancelled /\ (~c.wire \/ r.aftc) THEN {"attempt-after-cancel"} ELSE {})
  \* one plan of the host selection policy is shared by all executions of a statement ("a retry
  \* goes to ... the next offered host"; the speculative execution "on a different node"): while
  \* an offered usable host is still untried, no execution attempts a host that ANOTHER execution
  \* of the statement has already attempted
  \cup (IF (\E f \in m.execs \ {e} : h \in m.x[f].hs)
         /\ (\E u \in 1 .. Len(c.hosts) : c.hosts[u] \in UsableKinds /\ \A f \in m.execs \cup {e} : u \notin m.x[f].hs /\ u # h)
        THEN {"host-reused-by-parallel-execution"} ELSE {})
  \* "a query not marked idempotent is ... as the documentation states, never retried"
  \cup (IF retry /\ ~c.idem THEN {"non-idempotent-retried"} ELSE {})
  \* "a query is sent once unless a retry policy ... says otherwise"
  \cup (IF retry /\ r.out = "ok" THEN {"retry-after-success"} ELSE {})
  \cup (IF retry /\ IsErr(r.out) /\ c.pol.kind = "none" THEN {"retry-without-policy"} ELSE {})
  \* "context cancellation stops further attempts"
  \cup (IF retry /\ r.out \in CtxErrs THEN {"attempt-after-cancel"} ELSE {})
  \* "never exceeds what the policies allow": the policy said no / the exact numeric bound
  \cup (IF retry /\ r.alw = "no" THEN {"attempts-exceed-budget"} ELSE {})
  \cup (IF sent1 > Allowed(c, nex) THEN {"attempts-exceed-budget"} ELSE {})
  \* "'rethrow' and 'ignore' stop retrying"
  \cup (IF retry /\ r.dec = "rethrow" THEN {"continued-after-rethrow"} ELSE {})
  \cup (IF retry /\ r.dec = "ignore" THEN {"continued-after-ignore"} ELSE {})
  \cup (IF retry /\ r.dec = "unknown" THEN {"continued-after-unknown-decision"} ELSE {})
  \* "a retry goes to the same host or the next offered host exactly as the decision says"
  \cup (IF retry /\ IsErr(r.out) /\ c.pol.kind # "none" /\ r.alw = "yes" /\ r.dec = "none"
        THEN {"retry-without-decision"} ELSE {})
  \cup (IF retry /\ r.dec = "retry" /\ h # r.prevh THEN {"retry-wrong-host"} ELSE {})
  \cup (IF retry /\ r.dec = "next" /\ (r.cand <= 0 \/ h # r.cand \/ r.skipped) THEN {"retry-wrong-host"} ELSE {})

ReturnKeys(m, n, h, x, c) ==
  LET done == {e \in m.execs : m.x[e].comp}
      \* "the first to complete": when the harness saw the system quiescent with completed
      \* executions, the result must be one of theirs
      cands == IF m.q # {} THEN m.q ELSE done
      \* n = -1: the observer could not see which *Iter came back (end-to-end level)
      SameIter(e) == n = -1 \/ m.x[e].ratt = n
      Match(e) == SameIter(e) /\ m.x[e].reord = h /\ m.x[e].rx = x
      \* the caller's context ended: executeQuery may answer with the context's error itself
      ctxret == m.cancelled /\ n \in {0, -1} /\ h = 0 /\ x \in CtxErrs IN
  (IF m.ret THEN {"multiple-results"} ELSE {})
  \cup (IF ctxret \/ \E e \in cands : Match(e) THEN {}
        \* right Iter (or both made by the executor) but not the last attempt's error
        ELSE IF \E e \in cands : SameIter(e) THEN {"last-error-swallowed"}
        ELSE {"wrong-result-returned"})

MonStep(m, evt, c) ==
  LET e == evt.e
      r == IF e \in E THEN m.x[e] ELSE MonX0
      SetX(m1, r1) == [m1 EXCEPT !.x[e] = r1]
      AddExec(m1, keys) == [m1 EXCEPT !.execs = @ \cup {e}, !.viol = @ \cup keys \cup NewExecKeys(m, e, c),
                                      !.x[e].aft = @ \/ (c.wire /\ m.ret),
                                      !.x[e].aftc = @ \/ (c.wire /\ m.cancelled)] IN
  CASE evt.ev = "pick" ->
         \* passing over a usable offered host is remembered; an exhausted iterator ends the
         \* execution with the last attempt's error (or "no connections" if there was none)
         LET sk == r.skipped \/ Usable(c, r.cand)
             r1 == IF evt.h = 0
                   THEN [r EXCEPT !.skipped = sk, !.cand = 0, !.comp = TRUE, !.ratt = 0, !.reord = r.lerr,
                                  !.rx = IF r.lerr # 0 THEN r.lerrx ELSE "noconn"]
                   ELSE [r EXCEPT !.skipped = sk, !.cand = evt.h, !.comp = FALSE,
                                  \* the host of a "retry" decision went down after its attempt: the retry goes to
                                  \* the next offered host
                                  !.dec = IF r.dec = "retry" /\ r.prevh >= 1 /\ r.prevh <= Len(c.hosts) /\ c.hosts[r.prevh] = "okonce"
                                          THEN "next" ELSE r.dec] IN
         AddExec(SetX(m, r1), {})
    [] evt.ev = "start" ->
         LET r1 == [r EXCEPT !.natt = r.natt + 1, !.prevh = evt.h, !.ord = evt.n, !.alw = "none", !.dec = "none",
                             !.cand = -1, !.skipped = FALSE, !.comp = FALSE, !.hs = r.hs \cup {evt.h}]
             m1 == [SetX(m, r1) EXCEPT !.sent = m.sent + (IF evt.x = "sent" THEN 1 ELSE 0)] IN
         AddExec(m1, StartKeys(m, r, e, evt.h, evt.x, c))
    [] evt.ev = "end" ->
         LET o == evt.x
             r1 == [r EXCEPT !.out = o, !.lerr = IF IsErr(o) THEN r.ord ELSE r.lerr,
                             !.lerrx = IF IsErr(o) THEN o ELSE r.lerrx,
                             \* a query not marked idempotent is complete after its only attempt
                             !.comp = (~IsErr(o) \/ c.pol.kind = "none" \/ ~c.idem),
                             !.ratt = r.ord, !.reord = IF IsErr(o) THEN r.ord ELSE 0, !.rx = o] IN
         AddExec([SetX(m, r1) EXCEPT !.ends = m.ends + 1], {})
    [] evt.ev = "allow" ->
         LET r1 == [r EXCEPT !.alw = evt.x, !.comp = (evt.x = "no" \/ ~c.idem)]
             \* the documented budget policies: NumRetries = number of times to retry
             keys == (IF c.pol.kind = "budget" /\ ((evt.x = "yes") # (evt.n <= c.pol.n))
                      THEN {"retry-budget-miscounted"} ELSE {})
                     \* what the policy consults: Attempts() "returns the number of times the query was
                     \* executed" (Query) / "the number of attempts made to execute the batch" (Batch);
                     \* every finished attempt is logged atomically with the real metrics update
                     \* (on the wire with concurrent executions the log points are not atomic with
                     \* the driver's counter: not evaluated there)
                     \cup (IF evt.n # m.ends /\ ~(c.wire /\ Cardinality(m.execs \cup {e}) > 1)
                          THEN {"attempts-miscounted"} ELSE {}) IN
         AddExec(SetX(m, r1), keys)
    [] evt.ev = "decide" ->
         LET stop == evt.x \in StopDecisions \/ ~c.idem
             r1 == IF evt.x = "unknown"
                   THEN [r EXCEPT !.dec = evt.x, !.comp = TRUE, !.ratt = 0, !.reord = 0, !.rx = "unknownretry"]
                   ELSE [r EXCEPT !.dec = evt.x, !.comp = stop] IN
         AddExec(SetX(m, r1), IF DocDecision(c.pol.name, evt.y) \notin {"any", DecisionClass(evt.x)}
                              THEN {"retry-decision-not-as-documented"} ELSE {})
    [] evt.ev = "cancel" -> [m EXCEPT !.cancelled = TRUE]
    [] evt.ev = "quiesce" -> [m EXCEPT !.q = {f \in m.execs : m.x[f].comp}]
    [] evt.ev = "return" -> [m EXCEPT !.ret = TRUE, !.viol = @ \cup ReturnKeys(m, evt.n, evt.h, evt.x, c)]
    [] OTHER -> m
=============================================================================
