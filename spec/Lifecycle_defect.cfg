SPECIFICATION Spec
CONSTANTS
  Closers = {"k1"}
  Requesters = {"r1"}
  MaxDebounce = 1
  MaxEvents = 0
  MaxProbeFail = 0
  MaxCtlFail = 0
  MaxAddHost = 0
  OnlyDebouncer = FALSE
  WithControl = FALSE
  Defect_StopHandshake = TRUE
  Defect_HeartbeatStart = FALSE
  Defect_LatePool = FALSE
  Defect_ReconnectWindow = FALSE
  Defect_EvStopUnderLock = FALSE
  Defect_EvSyncCallback = FALSE
  EvEager = FALSE
  Defect_CloseHoldsStateLock = FALSE
  Defect_QuitNonBlocking = FALSE
  Defect_ReconnectInline = FALSE
  Mut = "none"
INVARIANTS TypeOK NoPanic AllClosedAfterClose QueryAfterClose CancelAfterPools
