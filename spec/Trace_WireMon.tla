---------------------------- MODULE Trace_WireMon ----------------------------
(***************************************************************************)
(* C07 on a real connection: the byte stream the driver wrote after the    *)
(* handshake ("wire") must be a concatenation of complete request frames,  *)
(* each at most once and contiguous - the frames an independent encoder    *)
(* expects ("frame_exp", one per request that obtained a stream id) or an  *)
(* internal OPTIONS heartbeat - optionally followed by one incomplete      *)
(* frame, and then only if the connection was closed.  A request whose     *)
(* write was reported successful must be there as a whole.                 *)
(***************************************************************************)
EXTENDS Integers, Sequences, FiniteSets, TLC, Json, IOUtils

Log == ndJsonDeserialize(IOEnv.VF_TRACE)
WireRec == Log[1]
Wire == WireRec.bytes
Exps == {Log[i] : i \in 2 .. Len(Log)}

IsPrefixAt(b, i) == i + Len(b) - 1 <= Len(Wire) /\ \A j \in 1 .. Len(b) : Wire[i + j - 1] = b[j]
HeaderLen == IF WireRec.proto > 2 THEN 9 ELSE 8
\* an OPTIONS request frame with empty body (the connection's heartbeat)
IsOptionsAt(i) == /\ i + HeaderLen - 1 <= Len(Wire)
                  /\ Wire[i] = WireRec.proto
                  /\ Wire[i + HeaderLen - 5] = 5
                  /\ \A j \in 1 .. 4 : Wire[i + HeaderLen - 5 + j] = 0
\* the stream ends inside an OPTIONS frame (the heartbeat's write was cut)
TailIsPartialOptions(i) == /\ Len(Wire) - i + 1 < HeaderLen
                           /\ Wire[i] = WireRec.proto
                           /\ \A j \in 0 .. 4 : (i + HeaderLen - 5 + j <= Len(Wire)) => Wire[i + HeaderLen - 5 + j] = (IF j = 0 THEN 5 ELSE 0)
TailIsPrefixOf(b, i) == /\ Len(Wire) - i + 1 < Len(b)
                        /\ \A j \in 1 .. Len(Wire) - i + 1 : Wire[i + j - 1] = b[j]

RECURSIVE Walk(_, _)
Walk(i, matched) ==
  IF i > Len(Wire) THEN [verdict |-> "none", matched |-> matched, torn |-> FALSE]
  ELSE LET cands == {e \in Exps : e.req \notin matched /\ IsPrefixAt(e.bytes, i)} IN
       IF cands # {} THEN LET e == CHOOSE x \in cands : TRUE IN Walk(i + Len(e.bytes), matched \cup {e.req})
       ELSE IF IsOptionsAt(i) THEN Walk(i + HeaderLen, matched)
       ELSE IF TailIsPartialOptions(i) \/ \E e \in Exps : e.req \notin matched /\ TailIsPrefixOf(e.bytes, i)
            THEN [verdict |-> "none", matched |-> matched, torn |-> TRUE]
       ELSE [verdict |-> "WholeFrames", matched |-> matched, torn |-> FALSE]

Result == Walk(1, {})
Verdict ==
  IF Result.verdict # "none" THEN Result.verdict
  ELSE IF \E e \in Exps : e.wok = 1 /\ e.req \notin Result.matched THEN "OkImpliesWhole"
  ELSE IF \E e \in Exps : e.wok = -2 /\ e.req \in Result.matched THEN "NotStartedNoBytes"   \* wok -2: reported not started
  ELSE IF Result.torn /\ WireRec.closed = 0 THEN "PartialWithoutClose"
  ELSE "none"

VARIABLE done
Init == done = FALSE
Next == done' = TRUE
Spec == Init /\ [][Next]_done
Report == (~done /\ Verdict # "none") => PrintT(<<"MONVIOL", ToJson([kind |-> Verdict, line |-> 1])>>)
=============================================================================
