SPECIFICATION Spec
CONSTANTS
  Adders = {"a1", "a2", "a3"}
  Removers = {"r1", "r2"}
  NumConns = 2
  WithClose = TRUE
  Mut = "none"
INVARIANTS TypeOK HostBound NoOrphanPool AfterClose
PROPERTIES Settles
CHECK_DEADLOCK FALSE
