SPECIFICATION Spec
CONSTANTS
  Writers = {"a", "b", "c"}
  FrameLen <- Lens
  Coalesce = TRUE
  RefuseAfterTorn = FALSE
  AllowCancel = TRUE
  ArmBeforeRefuse = FALSE
  MaxFaults = 2
INVARIANTS WholeFrames NothingAfterPartial OkImpliesWhole NotStartedNoBytes CountExact
