-------------------------- MODULE Trace_SchemaMeta --------------------------
(***************************************************************************)
(* X01, code -> spec: evaluates executions of the real Session recorded by *)
(* harness/x01 (replays of TLC behaviours, free-running scenarios, events  *)
(* on the wire) against the properties of SchemaMeta.tla.                  *)
(*                                                                         *)
(* The log holds only OBSERVATIONS: calls and returns of                   *)
(* Session.KeyspaceMetadata / Query.GetRoutingKey (with what the returned  *)
(* metadata says about the fetch and the schema version of each of its     *)
(* parts), every answer the scripted node gave to a system_schema query    *)
(* or PREPARE, the changes the cluster made, begin / end of                *)
(* handleSchemaEvent, what the token-aware policy was handed, hosts down / *)
(* up, lookups in the prepared-statement cache for routed statements       *)
(* (= one computation of routing info each), removals from the routing     *)
(* info cache, and - in replays - the state observed at rest next to the   *)
(* state Gen_SchemaMeta computed.                                          *)
(*                                                                         *)
(* The monitor is deterministic: it folds the log into the ghost state the *)
(* properties need (SchemaMeta.tla: cleared, floor, nref/ngone, flights)   *)
(* and reports, per line,                                                  *)
(*   MONVIOL  - a property of SchemaMeta.tla is contradicted by what the   *)
(*              real code did,                                             *)
(*   MONDRIFT - the code left the behaviour TLC generated (no property     *)
(*              contradicted),                                             *)
(*   MONSKIP  - the scenario stalled (not evidence).                       *)
(***************************************************************************)
EXTENDS SchemaMeta, Json, IOUtils

Log == ndJsonDeserialize(IOEnv.VF_TRACE)

VARIABLES l, m, rep
tvars == <<S, l, m, rep>>

KS == {"k1", "k2"}
PartNames == <<"ks", "tb", "vw", "co", "fn", "ag", "ty">>
NoParts == [ks |-> 0, tb |-> 0, vw |-> 0, co |-> 0, fn |-> 0, ag |-> 0, ty |-> 0]
NoCall == [open |-> FALSE, t |-> "", k |-> "", s |-> "", floor |-> 0, line |-> 0, ws |-> 0]
ActorNames == {"c1", "c2", "c3", "c4"}

M0 == [scn |-> 0, mode |-> "", maxroute |-> 0,
       sv |-> [k \in KS |-> 1],
       handled |-> [k \in KS |-> 0],
       open |-> {},                          \* batches being handled: [n, frames, line, pols]
       calls |-> [x \in ActorNames |-> NoCall],
       fetch |-> [x \in {} |-> 0],           \* rid -> [k, parts, done, last]
       live |-> [k \in KS |-> "no"], liveLine |-> [k \in KS |-> 0],
       cFail |-> [k \in KS |-> 0], cAbsent |-> [k \in KS |-> 0], cNoTable |-> [k \in KS |-> 0],
       quietM |-> [k \in KS |-> 0],
       cPrep |-> [s \in Stmts |-> 0], quietR |-> [s \in Stmts |-> 0],
       isDown |-> FALSE, lastDown |-> 0,
       nrc |-> [s \in Stmts |-> 0], nre |-> [s \in Stmts |-> 0],   \* computations begun / entries removed, per statement
       ntab |-> [k \in KS |-> FALSE],       \* the latest fetch of the keyspace found no table t
       poisoned |-> [k \in KS |-> FALSE], poisonEnd |-> [k \in KS |-> 0],   \* a fetch whose tables query failed ran to its end: partial metadata is cached
       dead |-> FALSE]

Cur == Log[l]
MaxI(a, b) == IF a >= b THEN a ELSE b
SeqRange(q) == {q[i] : i \in 1 .. Len(q)}
FramesFor(b, k) == {i \in 1 .. Len(b.frames) : b.frames[i][1] = k}
KsFramesFor(b, k) == SelectSeq(b.frames, LAMBDA f : f[1] = k /\ f[3] = "keyspace")
HasFrame(b, k) == FramesFor(b, k) # {}
PartsOfLab(lab) == [ks |-> lab.ks, tb |-> lab.tb, vw |-> lab.vw, co |-> lab.co, fn |-> lab.fn, ag |-> lab.ag, ty |-> lab.ty]
MinPart(p) == LET vs == {p.ks, p.tb, p.vw, p.co, p.fn, p.ag, p.ty} IN CHOOSE v \in vs : \A w \in vs : v <= w
OpenOn(mm, k, except) == \E x \in ActorNames \ {except} : mm.calls[x].open /\ mm.calls[x].k = k
OpenRouteOn(mm, s, except) == \E x \in ActorNames \ {except} : mm.calls[x].open /\ mm.calls[x].t = "route" /\ mm.calls[x].s = s

\* [M3] the routing info a statement can legitimately have: the partition key of some version the keyspace has had
ValidIdx(s, upto) == {RoutingIdx(PK(v), Binds(s)) : v \in 1 .. upto}
IdxOf(r) == [i \in 1 .. Len(r.idx) |-> r.idx[i]]

Present(p) == {p[PartNames[i]] : i \in 1 .. Len(PartNames)} \ {0}
NoFetch == [k |-> "", parts |-> NoParts, done |-> FALSE, last |-> 0]
FetchOf(mm, rid) == IF rid \in DOMAIN mm.fetch THEN mm.fetch[rid] ELSE NoFetch
\* [M2] what a failed fetch produced is not kept (nor handed out): metadata comes from one complete fetch
FetchKind(f, k, p) ==
  IF f.k = k /\ f.done /\ f.parts = p THEN "ok"
  ELSE IF f.k = k /\ f.parts.tb = 0 /\ p.tb = 0 /\ f.parts.ks = p.ks THEN "schema-failed-tables-query-cached"
  ELSE "schema-result-not-a-complete-fetch"

V(kind, r, extra) == [kind |-> kind, scn |-> r.scn, line |-> l, ev |-> r.ev, x |-> r.x, k |-> r.k, s |-> r.s, detail |-> ToString(extra)]

\* <<next monitor state, set of violations, set of drift notes, set of skips>>
StepOf(r, mm) ==
  CASE r.ev = "init" ->
         <<[M0 EXCEPT !.scn = r.scn, !.mode = r.mode, !.maxroute = r.maxroute], {}, {}, {}>>
    [] r.ev = "chg" -> <<[mm EXCEPT !.sv[r.k] = r.v], {}, {}, {}>>
    [] r.ev = "ev_begin" ->
         LET fr == [i \in 1 .. Len(r.frames) |-> <<r.frames[i][1], r.frames[i][2], r.frames[i][3]>>]
             b == [n |-> r.n, frames |-> fr, line |-> l, pols |-> [k \in KS |-> 0], wire |-> r.mode = "wire"]
         IN <<[mm EXCEPT !.open = @ \cup {b},
                         !.live = [k \in KS |-> IF HasFrame(b, k) /\ @[k] = "yes" THEN "maybe" ELSE @[k]]], {}, {}, {}>>
    [] r.ev = "ev_end" ->
         LET bs == {b \in mm.open : b.n = r.n /\ ~b.wire}
             b == CHOOSE x \in bs : TRUE
             \* [M5] every keyspace-change frame makes the policy fetch the keyspace again
             missing == {k \in KS : Len(KsFramesFor(b, k)) > b.pols[k]}
         IN IF bs = {} THEN <<mm, {}, {V("trace-ev-end-without-begin", r, "")}, {}>>
            ELSE <<[mm EXCEPT !.open = @ \ {b},
                              !.handled = [k \in KS |-> LET vs == {b.frames[i][2] : i \in FramesFor(b, k)} IN
                                                         IF vs = {} THEN @[k] ELSE MaxI(@[k], CHOOSE v \in vs : \A w \in vs : v >= w)],
                              !.live = [k \in KS |-> IF HasFrame(b, k) /\ mm.liveLine[k] < b.line THEN "no" ELSE @[k]]],
                     {V("policy-not-refreshed-on-keyspace-event", r, k) : k \in missing}, {}, {}>>
    [] r.ev = "pol" ->
         LET bs == {b \in mm.open : Len(KsFramesFor(b, r.k)) > b.pols[r.k]}
             b == CHOOSE x \in bs : \A y \in bs : x.line <= y.line
             fl == KsFramesFor(b, r.k)[b.pols[r.k] + 1][2]
             p == PartsOfLab(r.lab)
             stale == r.lab.t = "ok" /\ \E x \in Present(p) : x < fl
             fk == IF r.lab.t = "ok" THEN FetchKind(FetchOf(mm, r.lab.rid), r.k, p) ELSE "ok"
             vf == IF fk # "ok" THEN {V(fk, r, <<r.lab.rid, p>>)} ELSE {}
         IN IF bs = {} THEN <<mm, vf, {}, {}>>      \* a fetch the policy makes for another reason (host added ...)
            ELSE <<[mm EXCEPT !.open = (@ \ {b}) \cup {[b EXCEPT !.pols[r.k] = @ + 1]}],
                   vf \cup (IF stale THEN {V("policy-stale-after-keyspace-event", r, <<fl, p>>)} ELSE {}), {}, {}>>
    [] r.ev = "call" ->
         LET ws == IF r.t = "route" /\ OpenRouteOn(mm, r.s, r.x) THEN mm.quietR[r.s]
                   ELSE IF r.t = "meta" /\ OpenOn(mm, r.k, r.x) THEN mm.quietM[r.k] ELSE l
             wsk == IF OpenOn(mm, r.k, r.x) THEN mm.quietM[r.k] ELSE l
         IN <<[mm EXCEPT !.calls[r.x] = [open |-> TRUE, t |-> r.t, k |-> r.k, s |-> r.s, floor |-> mm.handled[r.k], line |-> l,
                                          ws |-> IF ws <= wsk THEN ws ELSE wsk]], {}, {}, {}>>
    [] r.ev = "ret" /\ r.t = "meta" ->
         LET c == mm.calls[r.x]
             lab == r.lab
             p == PartsOfLab(lab)
             f == FetchOf(mm, lab.rid)
             causes == {mm.cFail[r.k], mm.cAbsent[r.k]}
             \* (a part that is missing altogether is the business of v2)
             v1 == IF lab.t = "ok" /\ \E x \in Present(p) : x < c.floor THEN {V("schema-stale-after-event", r, <<c.floor, p>>)} ELSE {}
             v2 == IF lab.t = "ok" /\ FetchKind(f, r.k, p) # "ok" THEN {V(FetchKind(f, r.k, p), r, <<lab.rid, p, f.parts>>)} ELSE {}
             v3 == IF lab.t = "nil" THEN {V("schema-nil-metadata-without-error", r, "")} ELSE {}
             v4 == IF lab.t \in {"err", "notexist"} /\ \A x \in causes : x < c.ws
                     THEN {V("schema-error-without-failed-fetch", r, lab.t)} ELSE {}
             \* [M1] an absent keyspace is reported as ErrKeyspaceDoesNotExist, and only an absent keyspace is
             v5 == IF lab.t = "err" /\ mm.cAbsent[r.k] >= c.ws /\ mm.cFail[r.k] < c.ws
                     THEN {V("schema-absent-keyspace-wrong-error", r, "")}
                   ELSE IF lab.t = "notexist" /\ mm.cAbsent[r.k] < c.ws /\ mm.cFail[r.k] >= c.ws
                     THEN {V("schema-failure-reported-as-missing-keyspace", r, "")} ELSE {}
             v6 == IF lab.t \in {"closed", "nokeyspace"} THEN {V("schema-unexpected-error", r, lab.t)} ELSE {}
             m1 == [mm EXCEPT !.calls[r.x] = NoCall]
         IN <<[m1 EXCEPT !.quietM[r.k] = IF OpenOn(m1, r.k, r.x) THEN @ ELSE l], v1 \cup v2 \cup v3 \cup v4 \cup v5 \cup v6, {}, {}>>
    [] r.ev = "ret" /\ r.t = "route" ->
         LET c == mm.calls[r.x]
             good == IF r.ans = "key" THEN IdxOf(r) # <<>> /\ IdxOf(r) \in ValidIdx(r.s, mm.sv[r.k])
                     ELSE IF r.ans = "nil" THEN <<>> \in ValidIdx(r.s, mm.sv[r.k]) ELSE TRUE
             justified == \/ mm.isDown \/ mm.lastDown >= c.ws
                          \/ mm.cPrep[r.s] >= c.ws
                          \/ mm.cFail[r.k] >= c.ws \/ mm.cAbsent[r.k] >= c.ws \/ mm.cNoTable[r.k] >= c.ws
                          \/ (r.err = "nometa" /\ mm.ntab[r.k])
             v1 == IF ~good THEN {V("routing-key-not-from-partition-key", r, <<r.ans, r.idx>>)} ELSE {}
             v2 == IF r.ans = "err" /\ ~justified
                     THEN {V(IF r.err = "noconn" THEN "routing-noconn-error-cached"
                             ELSE IF r.err = "nometa" /\ (mm.poisoned[r.k] \/ mm.poisonEnd[r.k] >= c.ws) THEN "schema-failed-tables-query-cached"
                             ELSE "routing-error-without-cause", r, r.err)} ELSE {}
             m1 == [mm EXCEPT !.calls[r.x] = NoCall]
         IN <<[m1 EXCEPT !.quietR[r.s] = IF OpenRouteOn(m1, r.s, r.x) THEN @ ELSE l,
                         !.quietM[r.k] = IF OpenOn(m1, r.k, r.x) THEN @ ELSE l], v1 \cup v2, {}, {}>>
    [] r.ev = "q_ans" /\ r.part = "ks" ->
         LET bad == r.ans # "ok"
             v1 == IF mm.live[r.k] = "yes" THEN {V("schema-refetch-while-cached", r, mm.liveLine[r.k])} ELSE {}
         IN <<[mm EXCEPT !.fetch = [x \in DOMAIN @ \cup {r.rid} |->
                                      IF x = r.rid THEN [k |-> r.k, parts |-> [NoParts EXCEPT !.ks = IF bad THEN 0 ELSE r.v],
                                                         done |-> FALSE, last |-> l] ELSE @[x]],
                         !.live[r.k] = "no", !.poisoned[r.k] = FALSE, !.poisonEnd[r.k] = IF mm.poisoned[r.k] THEN l ELSE @,
                         !.cFail[r.k] = IF r.ans = "fail" THEN l ELSE @,
                         !.cAbsent[r.k] = IF r.ans = "absent" THEN l ELSE @], v1, {}, {}>>
    [] r.ev = "q_ans" ->
         IF r.rid \notin DOMAIN mm.fetch THEN <<mm, {}, {V("trace-answer-without-fetch", r, r.part)}, {}>>
         ELSE
         LET f == mm.fetch[r.rid]
             \* a failing query is asked again by the control connection (retry policy): the last answer counts
             parts == IF r.part = "mv" \/ r.ans # "ok" THEN f.parts
                      ELSE [f.parts EXCEPT ![r.part] = r.v]
             done == r.part = "mv" /\ r.ans = "ok" /\ \A i \in 1 .. Len(PartNames) : parts[PartNames[i]] > 0
             busyEv == \E b \in mm.open : HasFrame(b, r.k)
         IN <<[mm EXCEPT !.fetch[r.rid] = [f EXCEPT !.parts = parts, !.done = done, !.last = l],
                         !.live[r.k] = IF done THEN (IF busyEv THEN "maybe" ELSE "yes") ELSE @,
                         !.liveLine[r.k] = IF done THEN l ELSE @,
                         !.poisoned[r.k] = IF r.part = "mv" /\ r.ans = "ok" /\ parts.tb = 0 THEN TRUE ELSE @,
                         !.cFail[r.k] = IF r.ans = "fail" THEN l ELSE @,
                         !.ntab[r.k] = IF r.part = "tb" /\ r.ans = "ok" THEN r.flag ELSE @,
                         !.cNoTable[r.k] = IF r.part = "tb" /\ r.ans = "ok" /\ r.flag THEN l ELSE @], {}, {}, {}>>
    [] r.ev = "p_ans" -> <<[mm EXCEPT !.cPrep[r.s] = IF r.ans = "fail" THEN l ELSE @], {}, {}, {}>>
    [] r.ev = "down" -> <<[mm EXCEPT !.isDown = TRUE, !.lastDown = l], {}, {}, {}>>
    [] r.ev = "up" -> <<[mm EXCEPT !.isDown = FALSE, !.lastDown = l], {}, {}, {}>>
    \* RouteSingleFlight of SchemaMeta.tla: a statement is computed again only after its entry left the cache.  The
    \* removal is logged under the cache mutex, the computation when it reaches the prepared-statement cache (later
    \* than its insertion), so the counts are compared, not the order.
    [] r.ev = "rk_comp" ->
         <<[mm EXCEPT !.nrc[r.s] = @ + 1],
           IF mm.nrc[r.s] + 1 > 1 + mm.nre[r.s] THEN {V("routing-recomputed-while-cached", r, <<mm.nrc[r.s] + 1, mm.nre[r.s]>>)} ELSE {}, {}, {}>>
    [] r.ev = "rk_evict" -> <<[mm EXCEPT !.nre[r.s] = @ + 1], {}, {}, {}>>
    [] r.ev \in {"obs", "fin"} ->
         LET n == IF "rlru" \in DOMAIN r.obs THEN Len(r.obs.rlru) ELSE 0
             v1 == IF n > mm.maxroute /\ mm.maxroute > 0 THEN {V("routing-cache-exceeds-max", r, n)} ELSE {}
             d1 == IF r.ev = "obs" /\ ~r.flag THEN {V("replay-left-the-model", r, [cmd |-> r.cmd, step |-> r.n, observed |-> r.obs, model |-> r.exp])} ELSE {}
         IN <<mm, v1, d1, {}>>
    [] r.ev = "wire" ->
         LET tgt == IF r.kind = "keyspace" THEN "keyspace" ELSE <<"table", "type", "function", "aggregate">>[r.n + 1]
         IN IF ~r.flag THEN <<mm, {}, {}, {V("wire-event-not-flushed", r, tgt)}>>
            ELSE <<mm, (IF r.ans = "stale" THEN {V("schema-event-not-applied-" \o tgt, r, r.v)} ELSE {})
                        \cup (IF r.err = "stale" THEN {V("policy-not-refreshed-on-keyspace-event", r, r.v)} ELSE {}), {}, {}>>
    [] r.ev = "hang" ->
         IF r.flag THEN <<mm, {V("schema-call-never-returns", r, r.s)}, {}, {}>> ELSE <<mm, {}, {}, {V("stall", r, r.s)}>>
    [] OTHER -> <<mm, {}, {}, {}>>

TInit == /\ l = 1 /\ m = M0 /\ rep = [viol |-> {}, drift |-> {}, skip |-> {}]
        /\ S = 0
TNext ==
  /\ l <= Len(Log)
  /\ LET st == StepOf(Cur, m) IN
       /\ m' = st[1]
       /\ rep' = [viol |-> st[2], drift |-> st[3], skip |-> st[4]]
  /\ l' = l + 1
  /\ S' = S
TSpec == TInit /\ [][TNext]_tvars

Report ==
  /\ \A v \in rep.viol : PrintT(<<"MONVIOL", ToJson(v)>>)
  /\ \A v \in rep.drift : PrintT(<<"MONDRIFT", ToJson(v)>>)
  /\ \A v \in rep.skip : PrintT(<<"MONSKIP", ToJson(v)>>)
  /\ (l = Len(Log) + 1) => PrintT(<<"MONDONE", l - 1>>)
=============================================================================
