SPECIFICATION FairSpec
CONSTANTS
  Keyspaces = {"k1"}
  MaxVer = 2
  AbsentVers = {2}
  NoTableVers = {}
  Plans <- PlansMeta2
  MaxFail = 1
  MaxDown = 0
  MaxRoute = 1
  PkFromPrepare = FALSE
  TakeAll = FALSE
  KsFailureIsNotExist = FALSE
  DefectNoConnCached = FALSE
  Variant = "ok"
INVARIANTS ReachMarks TypeOK NoStaleRead StaleHasPendingEvent FailedNotCached ErrorIsOwn NotExistOnlyIfAbsent SharedCache RouteFailedNotCached RouteSingleFlight RouteBounded RouteFromSchema
PROPERTY Terminates
CHECK_DEADLOCK FALSE
