INIT InitParse
NEXT Next
INVARIANT EmitParse
CHECK_DEADLOCK FALSE
