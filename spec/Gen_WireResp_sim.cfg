CONSTANT Thorough = FALSE
INIT InitSim
NEXT NextSim
INVARIANT EmitSim
CHECK_DEADLOCK FALSE
