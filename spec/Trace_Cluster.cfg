SPECIFICATION Spec
CONSTANTS
  Ids = {"i1", "i2", "i3", "i4"}
  Addrs = {"a1", "a2", "a3", "a4"}
  Filt = {}
  DefectByAddr = TRUE
  C0peer = "a0"
INVARIANT Report
CHECK_DEADLOCK FALSE
