SPECIFICATION Spec
CONSTANTS
  Keyspaces = {"k1"}
  MaxVer = 2
  AbsentVers = {}
  NoTableVers = {}
  Plans <- PlansRoute
  MaxFail = 1
  MaxDown = 1
  MaxRoute = 1
  PkFromPrepare = TRUE
  TakeAll = FALSE
  KsFailureIsNotExist = FALSE
  DefectNoConnCached = FALSE
  Variant = "ok"
INVARIANTS ReachMarks TypeOK NoStaleRead StaleHasPendingEvent FailedNotCached ErrorIsOwn NotExistOnlyIfAbsent SharedCache RouteFailedNotCached RouteSingleFlight RouteBounded RouteFromSchema
CHECK_DEADLOCK FALSE
