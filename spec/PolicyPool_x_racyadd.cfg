SPECIFICATION Spec
CONSTANTS
  Adders = {"a1", "a2", "a3"}
  Removers = {"r1", "r2"}
  NumConns = 2
  WithClose = TRUE
  Mut = "racyadd"
INVARIANTS TypeOK HostBound NoOrphanPool AfterClose

CHECK_DEADLOCK FALSE
