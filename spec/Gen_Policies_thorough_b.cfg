SPECIFICATION Spec
CONSTANTS
  MaxLen = 4
  MaxNodes = 4
  MaxVnodes = 2
  NDcs = 2
  NRacks = 2
  KsIdx = {1, 4, 9}
  TailLen = 0
  Variants = TRUE
  Ks2 = 0
  ExtraKs = {4}
INVARIANTS CheckAndEmit
CHECK_DEADLOCK FALSE
