SPECIFICATION Spec
CONSTANTS
  Words = 2
  Bits = 64
  Threads = {"t1"}
  MaxOps = 7
  InitFree = {63, 64, 127}
  InitOffset = 1
  DoubleClear = TRUE
  RaceClear = FALSE
INVARIANTS TypeOK Unique HeldMarked Range Reserved CountNonNeg CountExact AvailableExact NoFalseExhaustion
PROPERTIES DoubleClearHarmless Terminates
