SPECIFICATION TSpec
CONSTANTS
  Profiles = {"P1", "P2"}
  StmtSet = {"q0", "p0", "p2", "b2"}
  CopySetters <- Setters
  MaxSets = 1000
  MaxLives = 6
  MaxExecs = 1000
  WithBatch = TRUE
  PoolVariant = "none"
INVARIANTS Report Finished
CHECK_DEADLOCK FALSE
