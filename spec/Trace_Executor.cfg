SPECIFICATION TSpec
CONSTANTS
  MaxE = 4
  Configs = {}
  KeepHist = FALSE
  GateAtomic = FALSE
  NonIdemRetry = TRUE
  Defect_WaitResultsOnly = FALSE
CHECK_DEADLOCK FALSE
