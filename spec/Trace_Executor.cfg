SPECIFICATION TSpec
CONSTANTS
  MaxE = 4
  Configs = {}
  KeepHist = FALSE
  GateAtomic = FALSE
  NonIdemRetry = TRUE
CHECK_DEADLOCK FALSE
