CONSTANT Tier = "thorough"
INIT VInit
NEXT VNext
INVARIANT EmitCase
CHECK_DEADLOCK FALSE
