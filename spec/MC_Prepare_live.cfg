\* Liveness: finitely many UNPREPARED answers / failures => every query returns ("live_two").
SPECIFICATION FairSpec
CONSTANTS
  Execs = {"e1", "e2"}
  Arity <- MCArity
  MaxLRU = 1
  MaxForget = 2
  MaxFail = 1
  Cancellable = {"e2"}
  MaxReprepare = 3
  UniqueIds = TRUE
  Plans <- PlansSmall
INVARIANTS Bounded PreparedOnce FailedNotCached FailedReported ExecAttribution ArityChecked Justified NoStuck
PROPERTY Terminates
CHECK_DEADLOCK FALSE
