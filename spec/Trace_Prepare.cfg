SPECIFICATION TSpec
CONSTANTS
  Execs = {}
  Arity <- TArity
  MaxLRU = 1000000
  MaxForget = 1000000
  MaxFail = 1000000
  Cancellable <- TCanc
  MaxReprepare = 1000000
  UniqueIds = TRUE
  Plans = {}
INVARIANTS Report Finished
CHECK_DEADLOCK FALSE
