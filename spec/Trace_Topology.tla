--------------------------- MODULE Trace_Topology ---------------------------
(***************************************************************************)
(* Vector validation for C10 (code -> spec): every record of VF_TRACE is a *)
(* ring + layout + keyspace together with what the REAL driver returned    *)
(* (its replica map, the replica list of several lookup tokens, or the     *)
(* panic it raised).  TLC evaluates the property predicates of             *)
(* Topology.tla on the real output against the reference placement and     *)
(* prints one VIOL line per record that fails any of them.                 *)
(* One state per record (bucketed so that the workers share the file).     *)
(***************************************************************************)
EXTENDS Topology, TLC, Json, IOUtils

Log == ndJsonDeserialize(IOEnv.VF_TRACE)
NB == 64

VARIABLES l, b
vars == <<l, b>>
Init == l = 0 /\ b = 0
Next == \/ l = 0 /\ b = 0 /\ b' \in 1 .. NB /\ l' = 0
        \/ l = 0 /\ b > 0 /\ l' \in {k \in 1 .. Len(Log) : (k % NB) + 1 = b} /\ b' = b
Spec == Init /\ [][Next]_vars

Rec == Log[l]

RfFun(r) == [dc \in RangeOf(r.rfdc) |-> r.rfn[CHOOSE j \in 1 .. Len(r.rfdc) : r.rfdc[j] = dc]]
Ref(r, i) == IF r.strat = "simple" THEN Simple(r.ring, i, r.rfn[1]) ELSE Nts(r.ring, i, r.dc, r.rack, RfFun(r))
OwnerHolds(r, i) == IF r.strat = "simple" THEN SimpleOwnerHolds(r.rfn[1]) ELSE NtsOwnerHolds(r.ring, i, r.dc, RfFun(r))
\* the keyspace names (with rf > 0) a datacenter no ring node is in
NamesAbsentDc(r) == r.strat = "nts" /\ \E dc \in DOMAIN RfFun(r) : RfFun(r)[dc] > 0 /\ NtsHostsIn(r.ring, r.dc, dc) = {}

PosOf(r, t) == {i \in 1 .. Len(r.tokens) : r.tokens[i] = t}
\* failing predicates of one replica-map entry / one lookup
EntryFail(r, e) == IF PosOf(r, e.t) = {} THEN {"foreign-token"}
                   ELSE LET i == CHOOSE k \in PosOf(r, e.t) : TRUE IN Failing(e.hosts, Ref(r, i), r.ring, i, OwnerHolds(r, i))
LookFail(r, e) == LET p == PrimaryIndex(r.tokens, e.t) IN Failing(e.hosts, Ref(r, p), r.ring, p, OwnerHolds(r, p))

WellFormed(r) == /\ Len(r.ring) = Len(r.tokens) /\ Len(r.ring) > 0
                 /\ \A k \in 1 .. Len(r.tokens) - 1 : r.tokens[k] < r.tokens[k + 1]
                 /\ \A k \in 1 .. Len(r.ring) : r.ring[k] \in 1 .. Len(r.dc)
                 /\ Len(r.dc) = Len(r.rack)

\* After an update that could not be carried out (fault) the policy either knows nothing about the
\* keyspace's replicas (empty lookup) or - when only the metadata lookup failed while the highest-
\* numbered node left - the placement on the CURRENT ring.  The replica lists of the old ring / the old
\* replication setting are stale.
Reduced(r) ==
  LET ix == SelectSeq([k \in 1 .. Len(r.ring) |-> k], LAMBDA k : r.ring[k] # Len(r.dc))
  IN [r EXCEPT !.ring = [j \in 1 .. Len(ix) |-> r.ring[ix[j]]], !.tokens = [j \in 1 .. Len(ix) |-> r.tokens[ix[j]]]]
Look3Fail(r, e) ==
  \* "remove": the highest-numbered node left and everything was healthy: the placement on the reduced
  \* ring is required (the node that left owns and replicates nothing any more)
  IF r.fault = "remove" THEN (IF LookFail(Reduced(r), e) = {} THEN {} ELSE {"stale-replica-map"})
  ELSE IF e.hosts = <<>> THEN {}
  ELSE IF r.fault = "fetch-remove" /\ LookFail(Reduced(r), e) = {} THEN {}
  ELSE {"stale-replica-map"}

Verdict(r) ==
  LET mapKinds == UNION {EntryFail(r, r.map[k]) : k \in 1 .. Len(r.map)}
      badLook == {k \in 1 .. Len(r.look) : LookFail(r, r.look[k]) # {}}
      lookKinds == UNION {LookFail(r, r.look[k]) : k \in badLook}
      badMap == {k \in 1 .. Len(r.map) : EntryFail(r, r.map[k]) # {}}
      sample == IF badLook # {} THEN LET k == CHOOSE x \in badLook : \A y \in badLook : x <= y
                                         p == PrimaryIndex(r.tokens, r.look[k].t) IN
                                     [t |-> r.look[k].t, got |-> r.look[k].hosts, ref |-> Ref(r, p), pos |-> p]
                ELSE IF badMap # {} THEN LET k == CHOOSE x \in badMap : \A y \in badMap : x <= y
                                             ps == PosOf(r, r.map[k].t)
                                             p == IF ps = {} THEN 1 ELSE CHOOSE x \in ps : TRUE IN
                                     [t |-> r.map[k].t, got |-> r.map[k].hosts, ref |-> Ref(r, p), pos |-> p]
                ELSE [t |-> 0, got |-> <<>>, ref |-> <<>>, pos |-> 0]
      \* the replica map a real token aware policy holds after queries were routed through it (map2 /
      \* look2, empty when the case was not run through a policy): the same predicates - the replicas
      \* associated with a token do not depend on the queries routed before
      map2Kinds == UNION {EntryFail(r, r.map2[k]) : k \in 1 .. Len(r.map2)}
      look2Kinds == UNION {LookFail(r, r.look2[k]) : k \in 1 .. Len(r.look2)}
      bad2 == {k \in 1 .. Len(r.look2) : LookFail(r, r.look2[k]) # {}}
      sample2 == IF bad2 = {} THEN [t |-> 0, got |-> <<>>, ref |-> <<>>, pos |-> 0]
                 ELSE LET k == CHOOSE x \in bad2 : \A y \in bad2 : x <= y
                          p == PrimaryIndex(r.tokens, r.look2[k].t) IN
                      [t |-> r.look2[k].t, got |-> r.look2[k].hosts, ref |-> Ref(r, p), pos |-> p]
  IN [id |-> r.id, part |-> r.part, strat |-> r.strat, pclass |-> r.pclass, absentdc |-> NamesAbsentDc(r),
      map2kinds |-> map2Kinds, look2kinds |-> look2Kinds, sample2 |-> sample2,
      look3kinds |-> UNION {Look3Fail(r, r.look3[k]) : k \in 1 .. Len(r.look3)}, fault |-> r.fault,
      mapkinds |-> mapKinds, lookkinds |-> lookKinds,
      nbadlook |-> Cardinality(badLook), nlook |-> Len(r.look), sample |-> sample]

Holds(v) == v.pclass = "none" /\ v.mapkinds = {} /\ v.lookkinds = {} /\ v.map2kinds = {} /\ v.look2kinds = {} /\ v.look3kinds = {}

Report == l > 0 =>
            IF ~WellFormed(Rec) THEN PrintT(<<"MALFORMED", ToJson([id |-> Rec.id])>>)
            ELSE LET v == Verdict(Rec) IN (~Holds(v) => PrintT(<<"VIOL", ToJson(v)>>))
=============================================================================
