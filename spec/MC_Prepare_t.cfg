SPECIFICATION Spec
CONSTANTS
  Execs = {"e1", "e2", "e3"}
  Arity <- MCArity
  MaxLRU = 2
  MaxForget = 2
  MaxFail = 1
  Cancellable = {"e2"}
  UniqueIds = TRUE
  Plans <- PlansAll
INVARIANTS Bounded PreparedOnce FailedNotCached FailedReported ExecAttribution ArityChecked Justified NoStuck
CHECK_DEADLOCK FALSE
