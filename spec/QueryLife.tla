----------------------------- MODULE QueryLife -----------------------------
(***************************************************************************)
(* X02, part 2: the life of Query and Batch values - creation with the     *)
(* session's defaults, the setters, WithContext copies, execution (what    *)
(* reaches the wire, what the observers and tracers are told, what         *)
(* Attempts() counts), Release and the query pool.                         *)
(*                                                                         *)
(* Two layers.                                                             *)
(*  1. Handle level (what the caller sees; written from the godoc):        *)
(*     state L, calls c, En / Res / Aft / Proj as in Consume.tla.  It is   *)
(*     deterministic: the same operators generate the graph that is        *)
(*     replayed on the real code and judge recorded executions.            *)
(*  2. Pool design: Query objects are recycled (Session.Query takes one    *)
(*     from a pool, Release puts it back).  mem / pool / obj model the     *)
(*     physical objects; the invariant FreshAndOwn says that what a live   *)
(*     handle's object holds is exactly the handle-level configuration -   *)
(*     nothing of a released query (values, consistency, page state,       *)
(*     context, idempotence, routing key, custom payload, timestamp ...)   *)
(*     shows up in the next Session.Query, whichever object the pool       *)
(*     hands out.                                                          *)
(***************************************************************************)
EXTENDS Integers, Sequences, FiniteSets, TLC

CONSTANTS Profiles,     \* subset of {"P1", "P2"}: the ClusterConfig the session was made from
          StmtSet,      \* subset of Stmts: the statements Session.Query is called with
          CopySetters,  \* subset of Setters: what is called on a WithContext copy (bounds the instance only)
          MaxSets,      \* setter calls per life of the query handle (q and its copy together) / per batch
          MaxLives,     \* Session.Query calls
          MaxExecs,     \* executions per life
          WithBatch,    \* batches are part of the instance
          PoolVariant   \* "ok" | wrong designs of the pool (vacuity check); "none" = handle level only

-----------------------------------------------------------------------------
(* Session defaults.  P1 = what gocql.NewCluster gives; P2 = everything    *)
(* different.  rt = 1: the retry policy "attempt again on the same host    *)
(* while Attempts() <= 1"; skipmeta: ClusterConfig.DisableSkipMetadata is  *)
(* false; trace: Session.SetTrace(tracer S); obs: ClusterConfig.           *)
(* QueryObserver / BatchObserver = S.                                      *)
Profile(p) ==
  IF p = "P1" THEN [cons |-> 4, psize |-> 5000, serial |-> 0, ts |-> TRUE, idem |-> FALSE, rt |-> 0, skipmeta |-> TRUE,
                    trace |-> "none", obs |-> "none"]
  ELSE [cons |-> 1, psize |-> 7, serial |-> 8, ts |-> FALSE, idem |-> TRUE, rt |-> 1, skipmeta |-> FALSE,
        trace |-> "S", obs |-> "S"]

\* statements: q = sent as QUERY, p = prepared (PREPARE + EXECUTE); 0 / 2 = bind markers.  (Values given to a
\* statement that is not prepared - anything that does not start with SELECT / INSERT / UPDATE / DELETE / BATCH - are
\* not decided by the documentation: no such statement here.)
\* b2 = built with Session.Bind: "The binding callback allows the application to define which query argument values
\* will be marshalled as part of the query execution" - the callback answers 5, 6; Values() has nothing to show.
Stmts == {"q0", "p0", "p2", "b2"}
Prepared(s) == s \in {"p0", "p2", "b2"}
InitVals(s) == IF s = "p2" THEN <<1, 2>> ELSE <<>>
WireVals(C) == IF C.stmt = "b2" THEN <<5, 6>> ELSE C.vals
BindVals == <<7, 8>>

(* What a Query value is configured to.                                    *)
Zero == [stmt |-> "", vals |-> <<>>, cons |-> 0, psize |-> 0, serial |-> 0, tson |-> FALSE, tsval |-> 0, idem |-> FALSE,
         pstate |-> 0, payload |-> FALSE, trace |-> "none", noskip |-> FALSE, ctx |-> "bg", rkey |-> FALSE, obs |-> "none",
         rt |-> 0]

\* Session.Query: "generates a new query object" with the defaults of the session: Consistency "If no consistency
\* level have been set, the default consistency level of the cluster is used", ClusterConfig.PageSize "Default page
\* size to use for created sessions", SerialConsistency, DefaultTimestamp "Sends a client side timestamp for all
\* requests", DefaultIdempotence "Default idempotence for queries", RetryPolicy "Default retry policy to use for
\* queries", Session.SetTrace "sets the default tracer for this session", QueryObserver.
Fresh(D, s) == [Zero EXCEPT !.stmt = s, !.vals = InitVals(s), !.cons = D.cons, !.psize = D.psize, !.serial = D.serial,
                            !.tson = D.ts, !.idem = D.idem, !.trace = D.trace, !.obs = D.obs, !.rt = D.rt]

Setters == {"cons", "psize", "serial", "tsoff", "tson", "tsval", "idemT", "idemF", "pstate", "payload", "trace",
            "noskip", "rkey", "obs", "rt", "bind"}
SetEn(C, a) ==
  CASE a = "bind" -> Len(C.vals) = 2 /\ C.pstate = 0     \* Bind "can also be used to rebind new query arguments"
    [] a = "tson" -> C.tsval = 0                          \* after WithTimestamp the value to send is not decided
    [] OTHER -> TRUE
Apply(C, a) ==
  CASE a = "cons" -> [C EXCEPT !.cons = 10]               \* Consistency(LocalOne)
    [] a = "psize" -> [C EXCEPT !.psize = 3]              \* PageSize(3)
    [] a = "serial" -> [C EXCEPT !.serial = 9]            \* SerialConsistency(LocalSerial)
    [] a = "tsoff" -> [C EXCEPT !.tson = FALSE]           \* DefaultTimestamp(false)
    [] a = "tson" -> [C EXCEPT !.tson = TRUE]             \* DefaultTimestamp(true)
    [] a = "tsval" -> [C EXCEPT !.tson = TRUE, !.tsval = 12345]   \* WithTimestamp(12345) "will enable the with default
                                                                  \* timestamp flag ... also allows to define value"
    [] a = "idemT" -> [C EXCEPT !.idem = TRUE]
    [] a = "idemF" -> [C EXCEPT !.idem = FALSE]
    [] a = "pstate" -> [C EXCEPT !.pstate = 1]            \* PageState(s1)
    [] a = "payload" -> [C EXCEPT !.payload = TRUE]       \* CustomPayload({k: v})
    [] a = "trace" -> [C EXCEPT !.trace = "Q"]            \* Trace(tracer Q)
    [] a = "noskip" -> [C EXCEPT !.noskip = TRUE]         \* NoSkipMetadata()
    [] a = "rkey" -> [C EXCEPT !.rkey = TRUE]             \* RoutingKey(rk)
    [] a = "obs" -> [C EXCEPT !.obs = "Q"]                \* Observer(observer Q)
    [] a = "rt" -> [C EXCEPT !.rt = 1]                    \* RetryPolicy(policy)
    [] a = "bind" -> [C EXCEPT !.vals = BindVals]         \* Bind(7, 8)

(* Batches.                                                                *)
\* entry kinds: s = statement without arguments, p = statement with two arguments, b = statement with a binding
\* callback (Batch.Bind)
EntryVals(k) == IF k = "p" THEN <<1, 2>> ELSE IF k = "b" THEN <<5, 6>> ELSE <<>>
BZero == [btype |-> 0, entries |-> <<>>, fill |-> 0, idem |-> FALSE, cons |-> 0, serial |-> 0, tson |-> FALSE, tsval |-> 0,
          payload |-> FALSE, trace |-> "none", obs |-> "none", rt |-> 0, ctx |-> "bg"]
BTypes == [logged |-> 0, unlogged |-> 1, counter |-> 2]
\* Session.NewBatch "creates a new batch operation using defaults defined in the cluster";
\* gocql.NewBatch "creates a new batch operation without defaults from the cluster"
BFresh(D, t, raw) == IF raw THEN [BZero EXCEPT !.btype = t]
                     ELSE [BZero EXCEPT !.btype = t, !.cons = D.cons, !.serial = D.serial, !.tson = D.ts, !.trace = D.trace,
                                        !.obs = D.obs, !.rt = D.rt]
BSetters == {"cons", "serial", "tsoff", "tson", "tsval", "payload", "trace", "obs", "ctxdead", "idem"}
BApply(B, a) ==
  CASE a = "cons" -> [B EXCEPT !.cons = 10]
    [] a = "serial" -> [B EXCEPT !.serial = 9]
    [] a = "tsoff" -> [B EXCEPT !.tson = FALSE]
    [] a = "tson" -> [B EXCEPT !.tson = TRUE]
    [] a = "tsval" -> [B EXCEPT !.tson = TRUE, !.tsval = 12345]
    [] a = "payload" -> [B EXCEPT !.payload = TRUE]
    [] a = "trace" -> [B EXCEPT !.trace = "Q"]
    [] a = "obs" -> [B EXCEPT !.obs = "Q"]
    [] a = "ctxdead" -> [B EXCEPT !.ctx = "dead"]         \* b = b.WithContext(cancelled context)
    [] a = "idem" -> [B EXCEPT !.idem = TRUE]             \* every entry so far is marked BatchEntry.Idempotent
BatchMax == 65535        \* BatchSizeMaximum "is the maximum number of statements a batch operation can have"
BSize(B) == IF B.fill > 0 THEN B.fill ELSE Len(B.entries)
\* a batch is idempotent when every entry is (entries added by Query / Bind are not until marked)
BIdem(B) == B.idem \/ BSize(B) = 0

-----------------------------------------------------------------------------
(* Handle-level state.                                                     *)
(*   q   the value Session.Query returned     c   its WithContext copy     *)
(*   b   a batch                                                           *)
(*   att[k]   Attempts() of the metrics the k-th Session.Query created     *)
(*            (a WithContext copy is shallow: it shares them); -1 =        *)
(*            not decided any more                                         *)
NoH == [st |-> "none", cfg |-> Zero, met |-> 0, execs |-> 0]
NoB == [st |-> "none", cfg |-> BZero, att |-> 0, sets |-> 0, execs |-> 0]
L0(p) == [prof |-> p, q |-> NoH, c |-> NoH, b |-> NoB, att |-> [k \in 1 .. MaxLives |-> 0], lives |-> 0, sets |-> 0]
D(L) == Profile(L.prof)

Call(op, h, a) == [op |-> op, h |-> h, a |-> a]
Envs == {"ok", "err", "err1"}
Calls ==
  {Call("New", "q", s) : s \in StmtSet} \cup
  {Call("Set", "q", a) : a \in Setters} \cup {Call("Set", "c", a) : a \in CopySetters} \cup
  {Call("WithCtx", "q", a) : a \in {"live", "dead"}} \cup
  {Call("Exec", h, e) : h \in {"q", "c"}, e \in Envs} \cup
  {Call("Release", h, "-") : h \in {"q", "c"}} \cup
  (IF WithBatch THEN
     {Call("NewBatch", "b", t) : t \in {"logged", "unlogged", "counter", "raw"}} \cup
     {Call("BAdd", "b", k) : k \in {"s", "p", "b"}} \cup
     {Call("Fill", "b", a) : a \in {"max", "over"}} \cup
     {Call("BSet", "b", a) : a \in BSetters} \cup
     {Call("ExecB", "b", e) : e \in {"ok", "err"}}
   ELSE {})

H(L, h) == IF h = "q" THEN L.q ELSE L.c
Idem(C) == C.idem
\* requests one execution causes: the policy retries on the same host while Attempts() <= 1
NAtt(C, env, att0) == IF env = "ok" THEN 1 ELSE IF C.rt = 1 /\ att0 = 0 THEN 2 ELSE 1

En(L, c) ==
  CASE c.op = "New" -> L.q.st # "live" /\ L.c.st # "live" /\ L.lives < MaxLives
    [] c.op = "Set" -> H(L, c.h).st = "live" /\ L.sets < MaxSets /\ SetEn(H(L, c.h).cfg, c.a)
    [] c.op = "WithCtx" -> L.q.st = "live" /\ L.c.st = "none"
    [] c.op = "Exec" ->
         LET X == H(L, c.h) IN
         /\ X.st = "live" /\ X.execs < MaxExecs
         /\ (X.cfg.ctx = "dead" => c.a = "ok")
         \* a failing attempt with a retry policy: decided for idempotent queries whose attempt count is known
         \* (doc.go / Query.Idempotent: "Non-idempotent query won't be retried" is C13's open finding)
         /\ (c.a # "ok" /\ X.cfg.rt = 1 => Idem(X.cfg) /\ L.att[X.met] >= 0)
    [] c.op = "Release" -> H(L, c.h).st = "live"
    [] c.op = "NewBatch" -> L.b.st = "none"
    [] c.op = "BAdd" -> L.b.st = "live" /\ L.b.cfg.fill = 0 /\ Len(L.b.cfg.entries) < 2
    [] c.op = "Fill" -> L.b.st = "live" /\ L.b.cfg.fill = 0 /\ \A i \in 1 .. Len(L.b.cfg.entries) : L.b.cfg.entries[i] = "s"
    [] c.op = "BSet" -> L.b.st = "live" /\ L.b.sets < MaxSets /\ (c.a = "tson" => L.b.cfg.tsval = 0) /\ L.b.cfg.fill = 0
    [] c.op = "ExecB" -> /\ L.b.st = "live" /\ L.b.execs < MaxExecs
                         /\ (c.a = "err" => /\ L.b.cfg.ctx # "dead" /\ BSize(L.b.cfg) <= BatchMax
                                            /\ (L.b.cfg.rt = 1 => BIdem(L.b.cfg) /\ L.b.att >= 0))
    [] OTHER -> FALSE

-----------------------------------------------------------------------------
(* What an execution must cause.                                           *)
\* the request as the node must see it (CQL native protocol v4, sections 4.1.4 QUERY, 4.1.6 EXECUTE, 4.1.7 BATCH):
\*   skip     skip_metadata flag: only for prepared statements, unless the session or the query switched it off
\*            (NoSkipMetadata: "the driver does not send skip_metadata")
\*   psize / pstate / serial: 0 = the flag is not set
\*   ts       off | now (flag set, the driver's clock) | val (flag set, the caller's value)
\*   tracing  header flag 0x02 ("Trace enables tracing of this query")     payload  header flag 0x04 + the map
NoWire == [op |-> "", stmt |-> "", vals |-> <<>>, cons |-> 0, skip |-> FALSE, psize |-> 0, pstate |-> 0, serial |-> 0,
           ts |-> "off", tracing |-> FALSE, payload |-> FALSE, btype |-> -1, n |-> 0, kinds |-> <<>>, counts |-> <<>>]
Ts(C) == IF ~C.tson THEN "off" ELSE IF C.tsval # 0 THEN "val" ELSE "now"
Wire(Df, C) ==
  [NoWire EXCEPT !.op = IF Prepared(C.stmt) THEN "EXECUTE" ELSE "QUERY", !.stmt = C.stmt, !.vals = WireVals(C), !.cons = C.cons,
                 !.skip = Prepared(C.stmt) /\ Df.skipmeta /\ ~C.noskip, !.psize = C.psize, !.pstate = C.pstate,
                 !.serial = C.serial, !.ts = Ts(C), !.tracing = C.trace # "none", !.payload = C.payload]
Small(B) == B.fill = 0
BWire(B) ==
  [NoWire EXCEPT !.op = "BATCH", !.cons = B.cons, !.serial = B.serial, !.ts = Ts(B), !.tracing = B.trace # "none",
                 !.payload = B.payload, !.btype = B.btype, !.n = BSize(B),
                 !.kinds = IF Small(B) THEN [i \in 1 .. Len(B.entries) |-> IF B.entries[i] = "s" THEN "s" ELSE "p"] ELSE <<>>,
                 !.counts = IF Small(B) THEN [i \in 1 .. Len(B.entries) |-> Len(EntryVals(B.entries[i]))] ELSE <<>>]

\* one observer call.  ObservedQuery: Statement, Values "holds a slice of bound values for the query", Rows "the number
\* of rows in the current iter", Host "the host that performed the query", Err "the error in the query ... selects
\* with no match return nil error", Attempt "The first attempt is number zero and any retries have non-zero attempt
\* number" (reported relative to the first attempt of the execution).  ObservedBatch: Statements, Values; "Unlike
\* QueryObserver.ObserveQuery it does no reporting on rows read".  The values of a binding callback are not decided
\* (reported as empty).
ObsCall(who, stmts, vals, rows, err, k) == [who |-> who, stmts |-> stmts, vals |-> vals, rows |-> rows, err |-> err, att |-> k, host |-> TRUE]
\* the node's behaviour during one execution: ok | err (every request is answered with an ERROR) | err1 (the first one)
AttErr(env, k, n) == IF env = "err" \/ (env = "err1" /\ k = 1) THEN "server" ELSE "none"

\* first: ObservedQuery.Attempt / ObservedBatch.Attempt of the first observer call ("The first attempt is number zero");
\* decided (>= 0) for the first execution of a value only - the calls carry the index relative to it
NoRes == [ret |-> "-", reqs |-> <<>>, calls |-> <<>>, first |-> -1, tracer |-> "none", traced |-> 0, att |-> 0, lat |-> TRUE, judge |-> "none"]

\* Query.Exec / Iter: "ObserveQuery gets called on every query to cassandra"; Query.Attempts "returns the number of
\* times the query was executed"; Latency "the average amount of nanoseconds per attempt" (the node holds every answer
\* back for a known time: lat = the average is at least that long); WithContext "queries will be canceled and return
\* once the context is canceled": with a context that is cancelled already no QUERY / EXECUTE may be sent.
ExecRes(L, h, env) ==
  LET X == H(L, h) C == X.cfg a0 == L.att[X.met] n == NAtt(C, env, a0) IN
  IF C.ctx = "dead" THEN [NoRes EXCEPT !.ret = "canceled", !.att = -1, !.judge = "ret+reqs"]
  ELSE [NoRes EXCEPT
          !.ret = AttErr(env, n, n),
          !.reqs = [k \in 1 .. n |-> Wire(D(L), C)],
          !.calls = IF C.obs = "none" THEN <<>>
                    ELSE [k \in 1 .. n |-> ObsCall(C.obs, <<C.stmt>>, <<C.vals>>, IF AttErr(env, k, n) = "none" THEN 1 ELSE 0,
                                                   AttErr(env, k, n), k - 1)],
          !.first = IF C.obs # "none" /\ a0 = 0 THEN 0 ELSE -1,
          !.tracer = C.trace, !.traced = IF C.trace = "none" THEN 0 ELSE n,
          !.att = IF a0 < 0 THEN -1 ELSE a0 + n, !.judge = "all"]

\* ExecuteBatch: more than BatchSizeMaximum statements -> ErrTooManyStmts and nothing is sent.
ExecBRes(L, env) ==
  LET B == L.b.cfg n == NAtt(B, env, L.b.att) IN
  IF BSize(B) > BatchMax THEN [NoRes EXCEPT !.ret = "toomany", !.att = L.b.att, !.judge = "all"]
  ELSE IF B.ctx = "dead" THEN [NoRes EXCEPT !.ret = "canceled", !.att = -1, !.judge = "ret+reqs"]
  ELSE [NoRes EXCEPT
          !.ret = AttErr(env, n, n),
          !.reqs = [k \in 1 .. n |-> BWire(B)],
          !.calls = IF B.obs = "none" THEN <<>>
                    ELSE [k \in 1 .. n |-> ObsCall(B.obs, IF Small(B) THEN B.entries ELSE <<>>,
                                                   IF Small(B) THEN [i \in 1 .. Len(B.entries) |->
                                                                       IF B.entries[i] = "b" THEN <<>> ELSE EntryVals(B.entries[i])]
                                                   ELSE <<>>,
                                                   0, AttErr(env, k, n), k - 1)],
          !.first = IF B.obs # "none" /\ L.b.att = 0 THEN 0 ELSE -1,
          !.tracer = B.trace, !.traced = IF B.trace = "none" THEN 0 ELSE n,
          !.att = IF L.b.att < 0 THEN -1 ELSE L.b.att + n, !.judge = "all"]

Res(L, c) == CASE c.op = "Exec" -> ExecRes(L, c.h, c.a)
               [] c.op = "ExecB" -> ExecBRes(L, c.a)
               [] OTHER -> NoRes

SetH(L, h, X) == IF h = "q" THEN [L EXCEPT !.q = X] ELSE [L EXCEPT !.c = X]
Aft(L, c) ==
  CASE c.op = "New" -> [L EXCEPT !.q = [st |-> "live", cfg |-> Fresh(D(L), c.a), met |-> L.lives + 1, execs |-> 0],
                                 !.c = NoH, !.lives = @ + 1, !.sets = 0]
    [] c.op = "Set" -> LET X == H(L, c.h) IN [SetH(L, c.h, [X EXCEPT !.cfg = Apply(X.cfg, c.a)]) EXCEPT !.sets = @ + 1]
    \* WithContext "returns a shallow copy of q with its context set to ctx"
    [] c.op = "WithCtx" -> [L EXCEPT !.c = [L.q EXCEPT !.cfg = [L.q.cfg EXCEPT !.ctx = c.a], !.execs = 0]]
    [] c.op = "Exec" -> LET X == H(L, c.h) r == ExecRes(L, c.h, c.a) IN
                        [SetH(L, c.h, [X EXCEPT !.execs = @ + 1]) EXCEPT !.att[X.met] = r.att]
    \* Release "releases a query back into a pool of queries. Released Queries cannot be reused."
    [] c.op = "Release" -> SetH(L, c.h, [H(L, c.h) EXCEPT !.st = "released"])
    [] c.op = "NewBatch" -> [L EXCEPT !.b = [st |-> "live", cfg |-> BFresh(D(L), IF c.a = "raw" THEN 0 ELSE BTypes[c.a], c.a = "raw"),
                                            att |-> 0, sets |-> 0, execs |-> 0]]
    [] c.op = "BAdd" -> [L EXCEPT !.b.cfg.entries = Append(@, c.a), !.b.cfg.idem = FALSE]
    [] c.op = "Fill" -> [L EXCEPT !.b.cfg.fill = IF c.a = "max" THEN BatchMax ELSE BatchMax + 1, !.b.cfg.idem = FALSE]
    [] c.op = "BSet" -> [L EXCEPT !.b.cfg = BApply(@, c.a), !.b.sets = @ + 1]
    [] c.op = "ExecB" -> [L EXCEPT !.b.execs = @ + 1, !.b.att = ExecBRes(L, c.a).att]

\* what the getters of the live handles show: Statement(), Values(), GetConsistency(), IsIdempotent(), Context(),
\* Attempts() (-1: not decided), GetRoutingKey() when one was set; Batch: Size(), GetConsistency(), Attempts()
QView(L, X) == IF X.st # "live" THEN [live |-> FALSE, stmt |-> "", vals |-> <<>>, cons |-> 0, idem |-> FALSE, ctx |-> "bg", att |-> 0, rkey |-> FALSE]
               ELSE [live |-> TRUE, stmt |-> X.cfg.stmt, vals |-> X.cfg.vals, cons |-> X.cfg.cons, idem |-> X.cfg.idem,
                     ctx |-> X.cfg.ctx, att |-> L.att[X.met], rkey |-> X.cfg.rkey]
BView(L) == IF L.b.st # "live" THEN [live |-> FALSE, size |-> 0, cons |-> 0, att |-> 0]
            ELSE [live |-> TRUE, size |-> BSize(L.b.cfg), cons |-> L.b.cfg.cons, att |-> L.b.att]
Proj(L) == [q |-> QView(L, L.q), c |-> QView(L, L.c), b |-> BView(L)]

-----------------------------------------------------------------------------
(* The model.  last = the last call and its demanded result.  Pool design: *)
(*   mem[o]  what physical Query object o holds     pool  objects in the   *)
(*   pool     obj[h]  the object behind a handle     nobj  objects so far  *)
VARIABLES L, last, mem, pool, obj, nobj
vars == <<L, last, mem, pool, obj, nobj>>
Objs == 1 .. (2 * MaxLives)

\* Session.Query on object o: the statement, the values and the session's defaults are written; every other field is
\* whatever the object holds
Assign(M, Df, s) == [M EXCEPT !.stmt = s, !.vals = InitVals(s), !.cons = Df.cons, !.psize = Df.psize, !.serial = Df.serial,
                              !.tson = Df.ts, !.idem = Df.idem, !.trace = Df.trace, !.obs = Df.obs, !.rt = Df.rt]
\* Release: the object is cleared and pooled
Cleared(M) == CASE PoolVariant = "no-reset" -> M
                [] PoolVariant = "partial-reset" -> [Zero EXCEPT !.pstate = M.pstate, !.tsval = M.tsval]
                [] OTHER -> Zero

Init == /\ L \in {L0(p) : p \in Profiles}
        /\ last = [call |-> Call("-", "-", "-"), res |-> NoRes]
        /\ mem = [o \in Objs |-> Zero] /\ pool = {} /\ obj = [q |-> 0, c |-> 0] /\ nobj = 0

PoolStep(c) ==
  IF PoolVariant = "none" THEN UNCHANGED <<mem, pool, obj, nobj>>
  ELSE CASE c.op = "New" ->
              \E o \in pool \cup {nobj + 1} :
                 /\ mem' = [mem EXCEPT ![o] = Assign(mem[o], D(L), c.a)]
                 /\ pool' = pool \ {o}
                 /\ obj' = [obj EXCEPT !.q = o, !.c = 0]
                 /\ nobj' = IF o = nobj + 1 THEN nobj + 1 ELSE nobj
         [] c.op = "Set" -> /\ mem' = [mem EXCEPT ![obj[c.h]] = Apply(@, c.a)]
                            /\ UNCHANGED <<pool, obj, nobj>>
         [] c.op = "WithCtx" ->
              IF PoolVariant = "withctx-aliases"      \* wrong: the "copy" is the query itself
              THEN /\ mem' = [mem EXCEPT ![obj.q] = [@ EXCEPT !.ctx = c.a]]
                   /\ obj' = [obj EXCEPT !.c = obj.q] /\ UNCHANGED <<pool, nobj>>
              ELSE /\ mem' = [mem EXCEPT ![nobj + 1] = [mem[obj.q] EXCEPT !.ctx = c.a]]
                   /\ obj' = [obj EXCEPT !.c = nobj + 1] /\ nobj' = nobj + 1 /\ UNCHANGED pool
         [] c.op = "Release" ->
              /\ mem' = [mem EXCEPT ![obj[c.h]] = Cleared(@)]
              /\ pool' = pool \cup {obj[c.h]}
              /\ UNCHANGED <<obj, nobj>>
         [] OTHER -> UNCHANGED <<mem, pool, obj, nobj>>

Do(c) == /\ En(L, c)
         /\ L' = Aft(L, c)
         /\ last' = [call |-> c, res |-> Res(L, c)]
         /\ PoolStep(c)
Next == \E c \in Calls : Do(c)
Spec == Init /\ [][Next]_vars

-----------------------------------------------------------------------------
(* Properties.                                                             *)
TypeOK == /\ L.q.st \in {"none", "live", "released"} /\ L.c.st \in {"none", "live", "released"}
          /\ last.res.ret \in {"-", "none", "server", "canceled", "toomany"}

\* Pool design: the object behind a live handle holds exactly the handle's configuration - a new query is
\* the session's defaults and nothing else, whatever was released before and whichever object the pool hands out;
\* and no object is behind two live handles or in the pool while a handle lives on it.
FreshAndOwn ==
  PoolVariant # "none" =>
    /\ (L.q.st = "live" => mem[obj.q] = L.q.cfg)
    /\ (L.c.st = "live" => mem[obj.c] = L.c.cfg)
    /\ (L.q.st = "live" /\ L.c.st = "live" => obj.q # obj.c)
    /\ (L.q.st = "live" => obj.q \notin pool)
    /\ (L.c.st = "live" => obj.c \notin pool)

\* a query built by Session.Query is the session's defaults (handle level; independent of what lived before)
NewIsDefaults == last.call.op = "New" => L.q.cfg = Fresh(D(L), last.call.a)

\* every request of an execution is the same request (retries send the same thing), one observer call per request
OnePerAttempt == last.call.op \in {"Exec", "ExecB"} /\ last.res.judge = "all" =>
                   /\ (last.res.calls # <<>> => Len(last.res.calls) = Len(last.res.reqs))
                   /\ \A i \in 1 .. Len(last.res.reqs) : last.res.reqs[i] = last.res.reqs[1]
                   /\ (last.res.tracer # "none" => last.res.traced = Len(last.res.reqs))

\* nothing is sent for a batch that is too big or with a dead context
NothingSent == last.res.ret \in {"toomany", "canceled"} => last.res.reqs = <<>>

\* the wire shows what the setters said, not a default: after Consistency(LocalOne) every request carries 10, etc.
SettersReachWire ==
  last.call.op = "Exec" /\ last.res.reqs # <<>> =>
    LET w == last.res.reqs[1] X == H(L, last.call.h) IN
    /\ w.cons = X.cfg.cons /\ w.psize = X.cfg.psize /\ w.serial = X.cfg.serial /\ w.pstate = X.cfg.pstate
    /\ w.vals = WireVals(X.cfg) /\ (w.ts = "off" <=> ~X.cfg.tson) /\ (w.ts = "val" => X.cfg.tsval = 12345)
    /\ (w.tracing <=> X.cfg.trace # "none") /\ (w.payload <=> X.cfg.payload)
    /\ (X.cfg.noskip => ~w.skip)

\* Attempts() counts the requests sent for this query (while decided)
AttemptsCount == [][(last'.call.op = "Exec" /\ last'.res.judge = "all" /\ last'.res.att >= 0) =>
                      last'.res.att = L.att[H(L, last'.call.h).met] + Len(last'.res.reqs)]_vars
=============================================================================
