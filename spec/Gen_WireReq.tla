----------------------------- MODULE Gen_WireReq -----------------------------
(***************************************************************************)
(* C03, spec -> code: enumerates the cross product of request kinds,       *)
(* protocol versions, optional-parameter subsets, value shapes, header     *)
(* options and stream ids as ONE TLC STATE PER CASE.  For each case TLC    *)
(* prints the logical request and, when the request is expressible in the  *)
(* version and its encoding is unique, the bytes the reference encoder of  *)
(* WireReq.tla produces.  The harness feeds every case to the real frame   *)
(* builders.                                                               *)
(* Model pass (RoundTrip): on every expressible case the reference decoder *)
(* recovers the logical request from the reference encoder's bytes, in     *)
(* both v5 EXECUTE layouts; a one-byte corruption of the frame is never    *)
(* accepted as the same request (Sensitive).                               *)
(***************************************************************************)
EXTENDS WireReq, TLC, Json, IOUtils

CONSTANT Tier            \* "quick" | "thorough"

Vers == LET s == IF "VF_GEN_VER" \in DOMAIN IOEnv THEN IOEnv.VF_GEN_VER ELSE "" IN
        CASE s = "1" -> {1} [] s = "2" -> {2} [] s = "3" -> {3} [] s = "4" -> {4} [] s = "5" -> {5} [] OTHER -> 1 .. 5

Opt0 == [cmark |-> <<197>>, mid |-> FALSE]

(* ---- building blocks of logical requests ---- *)
V(b)      == [k |-> "val",   b |-> b,    named |-> 0, name |-> <<>>]
VNull     == [k |-> "null",  b |-> <<>>, named |-> 0, name |-> <<>>]
VUnset    == [k |-> "unset", b |-> <<>>, named |-> 0, name |-> <<>>]
Nm(v, n)  == [v EXCEPT !.named = 1, !.name = n]
Shapes == <<
  << V(<<1>>) >>,                                          \* 1  one value
  << V(<<0, 0, 0, 42>>), V(<<255>>) >>,                    \* 2  two values
  << VNull >>,                                             \* 3  null
  << VUnset >>,                                            \* 4  unset (v4+)
  << V(<<7>>), VNull, VUnset >>,                           \* 5  value, null, unset
  << Nm(V(<<1>>), <<97>>), Nm(V(<<2, 3>>), <<98, 99>>) >>, \* 6  all named
  << Nm(VUnset, <<120>>), Nm(VNull, <<121>>) >>,           \* 7  named unset / null
  << Nm(V(<<1>>), <<97>>), V(<<2>>) >>,                    \* 8  mixed, first named
  << V(<<1>>), Nm(V(<<2>>), <<98>>) >>,                    \* 9  mixed, first positional
  << V(<<>>) >>                                            \* 10 empty value (not null)
>>
NShapes == Len(Shapes)

Base == [id |-> 0, v |-> 1, stream |-> 1, comp |-> 0, trace |-> 0, kind |-> "", smap |-> <<>>, slist |-> <<>>,
         tok |-> [nul |-> 0, b |-> <<>>], stmt |-> <<>>, pid |-> <<>>, ks |-> <<>>, cons |-> 0, skipmeta |-> 0,
         values |-> <<>>, pagesize |-> 0, pstate |-> <<>>, serial |-> 0,
         ts |-> [set |-> 0, now |-> 0, b |-> <<0, 0, 0, 0, 0, 0, 0, 0>>], payload |-> <<>>, btype |-> 0, stmts |-> <<>>]

\* header options: 1 plain, 2 tracing, 3 payload, 4 tracing+payload, 5 compression, 6 all three
Hdr(L, h) == [L EXCEPT !.trace = IF h \in {2, 4, 6} THEN 1 ELSE 0,
                       !.comp = IF h \in {5, 6} THEN 1 ELSE 0,
                       !.payload = IF h \in {3, 4, 6} THEN << [k |-> <<107>>, v |-> [nul |-> 0, b |-> <<1, 2>>]] >> ELSE <<>>]
StreamsOf(v) == IF v <= 2 THEN <<1, 127>> ELSE <<1, 127, 128, 32767>>

\* optional parameters of QUERY / EXECUTE as bits of `sub`
\*   1 values  2 skip-metadata  4 page size  8 paging state  16 serial  32 timestamp  64 keyspace
PagesOf == <<1, 255, 256, 5000, 65536, 2147483647>>
MkQE(kind, v, sub, shape, h, si, alt) ==
  Hdr([Base EXCEPT
     !.kind = kind, !.v = v, !.stream = StreamsOf(v)[si],
     !.stmt = IF kind = "QUERY" THEN <<83, 69, 76, 69, 67, 84, 32, 63>> ELSE <<>>,
     !.pid = IF kind = "EXECUTE" THEN <<222, 173, 190, 239>> ELSE <<>>,
     !.cons = IF alt = 0 THEN 1 ELSE 6,
     !.values = IF Bit(sub, 1) THEN Shapes[shape] ELSE <<>>,
     !.skipmeta = IF Bit(sub, 2) THEN 1 ELSE 0,
     \* without the page-size option the caller may still have said "no paging" with a value <= 0
     !.pagesize = IF Bit(sub, 4) THEN PagesOf[1 + (alt % Len(PagesOf))]
                  ELSE CASE alt % 3 = 1 -> -1 [] alt % 3 = 2 -> (-2147483647) - 1 [] OTHER -> 0,
     !.pstate = IF Bit(sub, 8) THEN (IF alt % 2 = 0 THEN <<0, 16, 255>> ELSE <<9>>) ELSE <<>>,
     !.serial = IF Bit(sub, 16) THEN (IF alt % 2 = 0 THEN 8 ELSE 9) ELSE 0,
     !.ts = IF Bit(sub, 32) THEN [set |-> 1, now |-> 0, b |-> IF alt % 2 = 0 THEN <<0, 5, 209, 78, 154, 59, 128, 1>>
                                                                              ELSE <<255, 255, 255, 255, 255, 255, 255, 254>>]
            ELSE Base.ts,
     !.ks = IF Bit(sub, 64) THEN <<107, 115>> ELSE <<>>], h)

\* BATCH: sub bits 16 serial, 32 timestamp; entry configurations
Entries == <<
  <<>>,
  << [prep |-> 0, stmt |-> <<73, 78, 83>>, pid |-> <<>>, values |-> <<>>] >>,
  << [prep |-> 1, stmt |-> <<>>, pid |-> <<1, 2, 3, 4>>, values |-> << V(<<5>>) >>] >>,
  << [prep |-> 0, stmt |-> <<85>>, pid |-> <<>>, values |-> <<>>],
     [prep |-> 1, stmt |-> <<>>, pid |-> <<9>>, values |-> << V(<<1, 2>>), VNull >>] >>,
  << [prep |-> 1, stmt |-> <<>>, pid |-> <<9>>, values |-> << VUnset, V(<<>>) >>] >>,
  << [prep |-> 1, stmt |-> <<>>, pid |-> <<9>>, values |-> << Nm(V(<<1>>), <<97>>) >>] >>,
  << [prep |-> 0, stmt |-> <<85>>, pid |-> <<>>, values |-> << V(<<3>>) >>] >>
>>
MkBatch(v, sub, bt, ec, h, si) ==
  Hdr([Base EXCEPT
     !.kind = "BATCH", !.v = v, !.stream = StreamsOf(v)[si], !.btype = bt, !.cons = 4, !.stmts = Entries[ec],
     !.serial = IF Bit(sub, 16) THEN 9 ELSE 0,
     !.ts = IF Bit(sub, 32) THEN [set |-> 1, now |-> 0, b |-> <<0, 0, 0, 0, 0, 0, 1, 0>>] ELSE Base.ts], h)

MkPrepare(v, ks, h, si) ==
  Hdr([Base EXCEPT !.kind = "PREPARE", !.v = v, !.stream = StreamsOf(v)[si], !.stmt = <<83, 69, 76>>,
                   !.ks = IF ks = 1 THEN <<107, 115, 49>> ELSE <<>>], h)
SMaps == << <<>>, << [k |-> <<67, 81, 76>>, v |-> <<51, 46, 48>>] >>,
            << [k |-> <<67, 81, 76>>, v |-> <<51>>], [k |-> <<67, 79, 77, 80>>, v |-> <<108, 122, 52>>], [k |-> <<68>>, v |-> <<>>] >> >>
SLists == << <<>>, << <<83, 67>> >>, << <<84, 79, 80>>, <<83, 84>>, <<83, 67, 72>> >> >>
Toks == << [nul |-> 1, b |-> <<>>], [nul |-> 0, b |-> <<>>], [nul |-> 0, b |-> <<0, 99, 0, 112>>] >>
MkSimple(kind, v, x, comp, si) ==
  [Base EXCEPT !.kind = kind, !.v = v, !.stream = StreamsOf(v)[si], !.comp = comp,
               !.smap = IF kind = "STARTUP" THEN SMaps[x] ELSE <<>>,
               !.slist = IF kind = "REGISTER" THEN SLists[x] ELSE <<>>,
               !.tok = IF kind = "AUTH_RESPONSE" THEN Toks[x] ELSE Base.tok]

(* ---- the case space ---- *)
NS(v) == Len(StreamsOf(v))
\* a compact case tuple is the TLC state
QECases ==
  IF Tier = "thorough"
  THEN {<<k, v, sub, sh, h, si>> : k \in {"QUERY", "EXECUTE"}, v \in Vers, sub \in 0 .. 127, sh \in 1 .. NShapes,
                                    h \in 1 .. 6, si \in 1 .. 4}
  ELSE {<<k, v, sub, 1 + ((sub + v) % NShapes), 1 + ((sub \div 2 + v) % 6), 1 + (sub % 4)>> :
           k \in {"QUERY", "EXECUTE"}, v \in Vers, sub \in 0 .. 127}
       \cup {<<k, v, sub, sh, 1 + (sh % 6), 1 + (sh % 4)>> : k \in {"QUERY", "EXECUTE"}, v \in Vers, sub \in {1, 127}, sh \in 1 .. NShapes}
       \cup {<<k, v, sub, 2, h, si>> : k \in {"QUERY", "EXECUTE"}, v \in Vers, sub \in {0, 127}, h \in 1 .. 6, si \in 1 .. 4}
QEValid(c) == c[6] <= NS(c[2]) /\ (Bit(c[3], 1) \/ c[4] = 1 \/ Tier # "thorough")
BatchCases ==
  IF Tier = "thorough"
  THEN {<<"BATCH", v, sub, bt, ec, h, si>> : v \in Vers, sub \in {0, 16, 32, 48}, bt \in 0 .. 2, ec \in 1 .. Len(Entries),
                                              h \in 1 .. 6, si \in 1 .. 4}
  ELSE {<<"BATCH", v, sub, (ec + v) % 3, ec, 1 + ((ec + sub \div 16) % 6), 1 + ((ec + v) % 4)>> :
           v \in Vers, sub \in {0, 16, 32, 48}, ec \in 1 .. Len(Entries)}
PrepCases == {<<"PREPARE", v, ks, h, si>> : v \in Vers, ks \in {0, 1}, h \in 1 .. 6, si \in 1 .. 4}
SimpleCases == {<<k, v, x, comp, si>> : k \in {"STARTUP", "REGISTER", "AUTH_RESPONSE"}, v \in Vers, x \in 1 .. 3,
                                         comp \in {0, 1}, si \in 1 .. 4}
               \cup {<<"OPTIONS", v, 1, comp, si>> : v \in Vers, comp \in {0, 1}, si \in 1 .. 4}

Valid(c) ==
  CASE c[1] \in {"QUERY", "EXECUTE"} -> QEValid(c)
    [] c[1] = "BATCH" -> c[7] <= NS(c[2])
    [] OTHER -> c[5] <= NS(c[2])
AllCases == {c \in QECases \cup BatchCases \cup PrepCases \cup SimpleCases : Valid(c)}

Mk(c) ==
  CASE c[1] \in {"QUERY", "EXECUTE"} -> MkQE(c[1], c[2], c[3], c[4], c[5], c[6], (c[3] + c[4] + c[5]) % 7)
    [] c[1] = "BATCH" -> MkBatch(c[2], c[3], c[4], c[5], c[6], c[7])
    [] c[1] = "PREPARE" -> MkPrepare(c[2], c[3], c[4], c[5])
    [] OTHER -> MkSimple(c[1], c[2], c[3], c[4], c[5])

VARIABLE case
Init == case \in AllCases
Next == UNCHANGED case
Spec == Init /\ [][Next]_case

Expressible(L) == Inexpressible(L, L.v) = {}
\* the encoding is unique unless a map has several entries (order is free)
Unique(L) == Len(L.smap) <= 1 /\ Len(L.payload) <= 1
Expected(L) == IF Expressible(L) /\ Unique(L) THEN EncodeRequest(L, L.v, Opt0) ELSE <<>>

Emit == LET L == Mk(case) IN
        PrintT(<<"CASE", ToJson(L @@ [exp |-> Expected(L), inx |-> IF Expressible(L) THEN 0 ELSE 1])>>)

\* ---- model pass: decoder and encoder agree with each other on every expressible case
Rec(L, bytes) == L @@ [bytes |-> bytes, err |-> ""]
RoundTrip ==
  LET L == Mk(case) IN
  Expressible(L) =>
    /\ Verdict(Rec(L, EncodeRequest(L, L.v, Opt0)), Opt0).class = "ok"
    /\ (L.kind = "EXECUTE" /\ L.v = 5) =>
          Verdict(Rec(L, EncodeRequest(L, L.v, [Opt0 EXCEPT !.mid = TRUE])), Opt0).layout = "v5-execute-with-result-metadata-id"
\* ... and the decoder is not indifferent: truncating the frame, appending a byte, changing the
\* version, opcode or length byte, or the last byte of the body (unless it belongs to a negative
\* [bytes] length, all of which mean null) never yields "ok"
Sensitive ==
  LET L == Mk(case)
      b == EncodeRequest(L, L.v, Opt0)
      n == Len(b)
      hs == HeaderSize(L.v)
      Flip(i) == [b EXCEPT ![i] = (@ + 1) % 256]
      muts == {SubSeq(b, 1, n - 1), b \o <<0>>} \cup {Flip(i) : i \in {1, hs - 4, hs}}
              \cup (IF n > hs /\ b[n] # 255 THEN {Flip(n)} ELSE {})
  IN (Expressible(L) /\ L.ts.now = 0) =>
       \A m \in muts : Verdict(Rec(L, m), Opt0).class \in {"malformed", "mismatch"}
=============================================================================
