CONSTANT Thorough = FALSE
CONSTANT Tier = "thorough"
CONSTANT Part = 5
INIT MInit
NEXT MNext
INVARIANT EmitCase
CHECK_DEADLOCK FALSE
