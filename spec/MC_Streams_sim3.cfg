SPECIFICATION SpecNoFair
CONSTANTS
  Words = 2
  Bits = 64
  Threads = {"t1", "t2", "t3"}
  MaxOps = 3
  InitFree = {63, 64, 127}
  InitOffset = 1
  DoubleClear = FALSE
  RaceClear = FALSE
ACTION_CONSTRAINT EmitEdge
INVARIANT InitMark
CHECK_DEADLOCK FALSE
