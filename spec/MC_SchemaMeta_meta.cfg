SPECIFICATION Spec
CONSTANTS
  Keyspaces = {"k1"}
  MaxVer = 3
  AbsentVers = {2}
  NoTableVers = {}
  Plans <- PlansMeta2
  MaxFail = 1
  MaxDown = 0
  MaxRoute = 1
  PkFromPrepare = FALSE
  TakeAll = FALSE
  KsFailureIsNotExist = FALSE
  DefectNoConnCached = FALSE
  Variant = "ok"
INVARIANTS ReachMarks TypeOK NoStaleRead StaleHasPendingEvent FailedNotCached ErrorIsOwn NotExistOnlyIfAbsent SharedCache RouteFailedNotCached RouteSingleFlight RouteBounded RouteFromSchema
CHECK_DEADLOCK FALSE
