------------------------------- MODULE Cluster -------------------------------
(***************************************************************************)
(* C16 - the driver's picture of the cluster follows what the cluster      *)
(* reports.                                                                *)
(*                                                                         *)
(* Three parts:                                                            *)
(*  truth  what the control node reports: the peer rows (system.peers);    *)
(*         the control node itself (i0 at a0) is always reported by        *)
(*         system.local.                                                   *)
(*  g      the PROPERTY state ("ghost"): what the session has to know      *)
(*         after the history so far (want), which nodes it has to be       *)
(*         connected to / must not offer (att), which addresses answer     *)
(*         (reach), whether a control connection can exist (ctl), at which *)
(*         addresses one host id took over from another (moved; only used  *)
(*         to name the class of a violation).  It is computed from the     *)
(*         history alone, never from the driver.                           *)
(*  d      the driver: ring (hosts by id, id by address, ordered list),    *)
(*         pool ids, policy ids, hosts marked down.  Steps are atomic up   *)
(*         to quiescence (pools filled or given up).                       *)
(*                                                                         *)
(* Viol(o, g) is the set of property clauses a driver state o contradicts  *)
(* in property state g; the invariant of the model is Viol = {} and the    *)
(* same operator is evaluated by Trace_Cluster.tla on every state recorded *)
(* from the real Session.                                                  *)
(***************************************************************************)
EXTENDS Integers, Sequences, FiniteSets, TLC

CONSTANTS Ids,          \* peer host ids
          Addrs,        \* peer addresses
          Filt,         \* addresses the host filter rejects
          DefectByAddr, \* TRUE: removing a host deletes the address entry even when it
                        \* names another host (ring.go removeHost; finding F1)
          C0peer        \* node-to-node (broadcast) address of the control node: "a0" or "b0"

C0id == "i0"
C0addr == "a0"
NoId == "none"
ZeroId == "00000000-0000-0000-0000-000000000000"
AllAddrs == Addrs \cup {C0addr}
\* A node has the address clients connect to (rpc_address; the pools dial it, the host filter
\* sees it) and the address the nodes use among themselves (peer / broadcast_address; events
\* name it, the driver's by-address index is keyed by it).  They are equal, or - multi-homed
\* node - the node-to-node address of the node at aK is bK, where nothing answers.
Priv(a) == CASE a = "a0" -> "b0" [] a = "a1" -> "b1" [] a = "a2" -> "b2" [] a = "a3" -> "b3" [] a = "a4" -> "b4" [] OTHER -> a
EventAddrs == AllAddrs \cup {Priv(a) : a \in AllAddrs}
HA(r) == [addr |-> r.addr, n2n |-> r.peer]
RefreshBound == 2       \* refreshes a single burst of events may cause

Range(s) == {s[k] : k \in 1 .. Len(s)}
EmptyFn == [x \in {} |-> NoId]
Without(f, k) == [x \in DOMAIN f \ {k} |-> f[x]]
Put(f, k, v) == [x \in DOMAIN f \cup {k} |-> IF x = k THEN v ELSE f[x]]
RemoveSeq(s, x) == SelectSeq(s, LAMBDA y : y # x)
TheOne(S) == CHOOSE x \in S : TRUE

(***************************************************************************)
(* What the cluster reports                                                *)
(***************************************************************************)
LocalRow == [id |-> C0id, addr |-> C0addr, peer |-> C0peer, inv |-> "ok"]
\* valid peer rows the filter accepts, in the order reported, after the local node
Reported(rows, filt) == <<LocalRow>> \o SelectSeq(rows, LAMBDA r : r.inv = "ok" /\ r.addr \notin filt)
RepIds(rep) == {rep[k].id : k \in 1 .. Len(rep)}
HasDupIds(rep) == \E j, k \in 1 .. Len(rep) : j # k /\ rep[j].id = rep[k].id

(***************************************************************************)
(* The driver                                                              *)
(***************************************************************************)
EmptyD == [hosts |-> EmptyFn, byAddr |-> EmptyFn, hlist |-> <<>>, pool |-> {}, pol |-> {}, down |-> {}]

AddrHolder(d, a) == IF a \in DOMAIN d.byAddr /\ d.byAddr[a] \in DOMAIN d.hosts THEN d.byAddr[a] ELSE NoId

\* a node is found down (DOWN event, or its pool could not connect): the host the
\* address index names is marked down and leaves the pool and the policy
NodeDown(d, a) ==
  LET i == AddrHolder(d, a) IN
  IF i = NoId THEN d
  ELSE [d EXCEPT !.down = @ \cup {i}, !.pool = @ \ {i}, !.pol = @ \ {i}]

\* connect to host i (pool fill) and announce it to the policy; a pool that cannot connect
\* reports its host's connect address as down (looked up in the index like any address)
StartFill(d, i, reach) ==
  LET a == d.hosts[i].addr IN
  IF a \in reach
    THEN [d EXCEPT !.pool = @ \cup {i}, !.pol = @ \cup {i}, !.down = @ \ {i}]
    \* (pol = the hosts the policy offers: the policies list the host again after the failed fill,
    \*  but their query plans leave out a host that is marked down)
    ELSE LET d1 == NodeDown([d EXCEPT !.pool = @ \cup {i}], a) IN IF i \in d1.down THEN d1 ELSE [d1 EXCEPT !.pol = @ \cup {i}]

RemoveHost(d, i) ==
  LET a == d.hosts[i].n2n
      ba == IF a \in DOMAIN d.byAddr /\ (DefectByAddr \/ d.byAddr[a] = i) THEN Without(d.byAddr, a) ELSE d.byAddr
  IN [hosts |-> Without(d.hosts, i), byAddr |-> ba, hlist |-> RemoveSeq(d.hlist, i),
      pool |-> d.pool \ {i}, pol |-> d.pol \ {i}, down |-> d.down \ {i}]

AddHost(d, i, ha, reach) ==
  StartFill([d EXCEPT !.hosts = Put(@, i, ha), !.byAddr = Put(@, ha.n2n, i), !.hlist = Append(@, i)], i, reach)

\* the refresh, host by host: add if missing, keep if unchanged, replace when the address
\* changed; afterwards every host that was not reported is removed
RECURSIVE ApplyRows(_, _, _, _)
ApplyRows(d, rep, reach, k) ==
  IF k > Len(rep) THEN d
  ELSE LET r == rep[k]
           d1 == IF r.id \notin DOMAIN d.hosts THEN AddHost(d, r.id, HA(r), reach)
                 ELSE IF d.hosts[r.id] = HA(r) THEN d
                 ELSE AddHost(RemoveHost(d, r.id), r.id, HA(r), reach)
       IN ApplyRows(d1, rep, reach, k + 1)

RECURSIVE RemoveAll(_, _)
RemoveAll(d, S) == IF S = {} THEN d ELSE LET i == TheOne(S) IN RemoveAll(RemoveHost(d, i), S \ {i})

ApplyRefresh(d, rows, filt, reach) ==
  LET rep == Reported(rows, filt)
  IN RemoveAll(ApplyRows(d, rep, reach, 1), DOMAIN d.hosts \ RepIds(rep))

FreshSession(rows, filt, reach) == ApplyRefresh(EmptyD, rows, filt, reach)

\* one batch of events as the event debouncer hands it over: status events are
\* coalesced per address (the last one counts); any topology event, and UP for an
\* address the ring does not know, asks for one (debounced) refresh
IsTopo(e) == e.kind \in {"NEW_NODE", "REMOVED_NODE"}
StatusAddrs(evs) == {evs[k].addr : k \in {j \in 1 .. Len(evs) : ~IsTopo(evs[j])}}
LastStatus(evs, a) ==
  LET ks == {k \in 1 .. Len(evs) : ~IsTopo(evs[k]) /\ evs[k].addr = a}
  IN evs[CHOOSE k \in ks : \A j \in ks : j <= k].kind

RECURSIVE ApplyStatuses(_, _, _, _)
ApplyStatuses(d, evs, S, reach) ==
  IF S = {} THEN d
  ELSE LET a == TheOne(S)
           d1 == IF LastStatus(evs, a) = "DOWN" THEN NodeDown(d, a)
                 ELSE IF AddrHolder(d, a) = NoId THEN d
                 ELSE StartFill(d, AddrHolder(d, a), reach)
       IN ApplyStatuses(d1, evs, S \ {a}, reach)

BatchNeedsRefresh(d, evs) ==
  \/ \E k \in 1 .. Len(evs) : IsTopo(evs[k])
  \/ \E a \in StatusAddrs(evs) : LastStatus(evs, a) = "UP" /\ AddrHolder(d, a) = NoId

\* the node at connect address a stops answering and cuts its connections: the pools that dial
\* it give up and report that address as down
NodeFailD(d, a) == IF \E i \in d.pool \cap DOMAIN d.hosts : d.hosts[i].addr = a THEN NodeDown(d, a) ELSE d

(***************************************************************************)
(* The property state                                                      *)
(***************************************************************************)
\* want[i] = the [addr, n2n] host i may have (one, unless the cluster reported i twice)
WantOf(rep) == [i \in RepIds(rep) |-> {HA(rep[k]) : k \in {j \in 1 .. Len(rep) : rep[j].id = i}}]

\* rows the session has to ignore (used only to name the class of a violation)
BadPairs(rows) == {<<rows[k].id, rows[k].addr>> : k \in {j \in 1 .. Len(rows) : rows[j].inv # "ok"}}
FilteredPairs(rows, filt) == {<<rows[k].id, rows[k].addr>> : k \in {j \in 1 .. Len(rows) : rows[j].inv = "ok" /\ rows[j].addr \in filt}}

GhostInit(rows, filt) ==
  LET rep == Reported(rows, filt) w == WantOf(rep)
  IN [want |-> w,
      att |-> [i \in DOMAIN w |-> IF Cardinality(w[i]) = 1 THEN "must" ELSE "free"],
      reach |-> AllAddrs, ctl |-> TRUE,
      bad |-> BadPairs(rows), filtered |-> FilteredPairs(rows, filt),
      dup |-> HasDupIds(rep),
      moved |-> {}]

\* a successful refresh: a node that is new or came back under another address has to
\* be connected to (if it answers); for the others nothing changes
GhostRefresh(g, rows, filt) ==
  LET rep == Reported(rows, filt) w == WantOf(rep)
  IN [g EXCEPT
       !.want = w,
       !.att = [i \in DOMAIN w |->
                  IF Cardinality(w[i]) # 1 THEN "free"
                  ELSE IF i \in DOMAIN g.want /\ g.want[i] = w[i] THEN g.att[i]
                  \* reported twice before: the session may already be at this address
                  ELSE IF i \in DOMAIN g.want /\ w[i] \subseteq g.want[i] THEN "free"
                  ELSE IF TheOne(w[i]).addr \in g.reach THEN "must" ELSE "free"],
       !.bad = BadPairs(rows), !.filtered = FilteredPairs(rows, filt),
       !.dup = HasDupIds(rep)]

\* hosts an event naming address a is about / hosts that are dialed at a
KnownAt(g, a) == {i \in DOMAIN g.want : \E h \in g.want[i] : h.n2n = a}
DialedAt(g, a) == {i \in DOMAIN g.want : \E h \in g.want[i] : h.addr = a}

RECURSIVE GhostStatuses(_, _, _)
GhostStatuses(g, evs, S) ==
  IF S = {} THEN g
  ELSE LET a == TheOne(S)
           st == LastStatus(evs, a)
           g1 == [g EXCEPT !.att = [i \in DOMAIN g.att |->
                     IF i \notin KnownAt(g, a) THEN g.att[i]
                     ELSE IF Cardinality(g.want[i]) # 1 THEN "free"
                     ELSE IF st = "DOWN" THEN "mustnot"
                     ELSE IF TheOne(g.want[i]).addr \in g.reach THEN "must"
                     \* reported up but not answering: "not offered until it is connected again" goes on
                     ELSE IF g.att[i] = "mustnot" THEN "mustnot" ELSE "free"]]
       IN GhostStatuses(g1, evs, S \ {a})

\* A batch that holds status events and causes a refresh: the property does not say which is
\* applied first, so a host the refresh adds or moves to an address named by a status event of
\* the same batch may be connected or down (gOld: before the batch, gNew: after statuses + refresh).
BatchRelax(gOld, gNew, evs) ==
  [gNew EXCEPT !.att = [i \in DOMAIN gNew.att |->
     IF (\E a \in StatusAddrs(evs) : \E h \in gNew.want[i] : h.n2n = a) /\ ~(i \in DOMAIN gOld.want /\ gOld.want[i] = gNew.want[i])
       THEN "free" ELSE gNew.att[i]]]

GhostNeedsRefresh(g, evs) ==
  \/ \E k \in 1 .. Len(evs) : IsTopo(evs[k])
  \/ \E a \in StatusAddrs(evs) : LastStatus(evs, a) = "UP" /\ KnownAt(g, a) = {}

GhostNodeFail(g, a) ==
  [g EXCEPT !.reach = @ \ {a},
            !.att = [i \in DOMAIN g.att |-> IF i \in DialedAt(g, a) /\ g.att[i] # "mustnot" THEN "free" ELSE g.att[i]],
            !.ctl = IF a = C0addr THEN FALSE ELSE @]

\* the control connection is (re-)established: the control node is connected to again
GhostControlBack(g) == [g EXCEPT !.ctl = TRUE, !.att = [i \in DOMAIN g.att |-> IF i = C0id THEN "must" ELSE g.att[i]]]

(***************************************************************************)
(* The property, as a function of an observed driver state                 *)
(*   o.hosts  id -> [addr, n2n] (ring contents)                            *)
(*   o.byid   id -> [addr, n2n] (lookup by id)                             *)
(*   o.byAddr address -> id   (lookup by address, every known address      *)
(*            probed: connect, node-to-node, preferred, listen; "none" =   *)
(*            the lookup said found and handed out no host)                *)
(*   o.hlist  sequence of ids (ordered list)                               *)
(*   o.poolA  id -> address of the pool's host                             *)
(*   o.polE   set of [id, addr] the policy holds                           *)
(*   o.down   ids marked down;  o.served  addresses that received queries  *)
(*   o.refreshes, o.panic                                                  *)
(***************************************************************************)
Sfx(g) == IF g.dup THEN "-dup-id-rows" ELSE ""

Viol(o, g) ==
  LET H == DOMAIN o.hosts
      W == DOMAIN g.want
      Must == {i \in W \cap H : g.att[i] = "must" /\ o.hosts[i] \in g.want[i]}
      MustNot == {i \in W \cap H : g.att[i] = "mustnot" /\ o.hosts[i] \in g.want[i]}
      Others(i) == {j \in H \ {i} : o.hosts[j].addr = o.hosts[i].addr}
      \* the ring does not hold the reported nodes
      ringV ==
        {"ring-missing-host" \o Sfx(g) : i \in W \ H}
        \cup {IF i = ZeroId THEN "ring-invalid-peer-accepted-null-host-id"
              ELSE IF g.dup THEN "ring-stale-host-dup-id-rows"
              ELSE IF <<i, o.hosts[i].addr>> \in g.bad THEN "ring-invalid-peer-accepted"
              ELSE IF <<i, o.hosts[i].addr>> \in g.filtered THEN "ring-filtered-host-accepted"
              ELSE "ring-stale-host" \o Sfx(g) : i \in H \ W}
        \cup {"ring-stale-address" \o Sfx(g) : i \in {j \in H \cap W : o.hosts[j] \notin g.want[j]}}
      restV ==
        (IF o.byid # o.hosts THEN {"ring-byid-inconsistent"} ELSE {})
        \* every host of the ring is found under its node-to-node address ...
        \cup {IF o.hosts[i].n2n \in g.moved THEN "ring-byaddr-lost-after-id-replacement" ELSE "ring-byaddr-missing"
                : i \in {j \in H : o.hosts[j].n2n \notin DOMAIN o.byAddr}}
        \* ... and whatever address the lookup knows names a host of the ring (the one lookup by
        \* id returns) that has this address
        \cup {"ring-byaddr-stale" : a \in {b \in DOMAIN o.byAddr : o.byAddr[b] \notin H
                                                 \/ (o.byAddr[b] \in H /\ b \notin {o.hosts[o.byAddr[b]].n2n, o.hosts[o.byAddr[b]].addr})
                                                 \/ (o.byAddr[b] \in H /\ o.hosts[o.byAddr[b]].n2n # b /\ \E j \in H : o.hosts[j].n2n = b)}}
        \cup (IF Len(o.hlist) # Cardinality(H) \/ Range(o.hlist) # H THEN {"ring-hostlist"} ELSE {})
        \cup {"pool-stale-host" : i \in DOMAIN o.poolA \ H}
        \cup {"pool-stale-address" : i \in {j \in DOMAIN o.poolA \cap H : o.poolA[j] # o.hosts[j].addr}}
        \cup {"pool-missing-host" : i \in Must \ DOMAIN o.poolA}
        \cup {"policy-stale-host" : e \in {x \in o.polE : x.id \notin H}}
        \cup {"policy-stale-address" : e \in {x \in o.polE : x.id \in H /\ x.addr # o.hosts[x.id].addr}}
        \cup {IF o.hosts[i].addr \in g.moved THEN "policy-missing-host-after-id-replacement" ELSE "policy-missing-host"
                : i \in {j \in Must : ~\E x \in o.polE : x.id = j}}
        \cup {"connected-host-marked-down" : i \in Must \cap o.down}
        \cup {"down-host-offered" : i \in {j \in MustNot : \E x \in o.polE : x.id = j}}
        \cup {"down-host-served" : i \in {j \in MustNot : Others(j) = {} /\ o.hosts[j].addr \in o.served}}
        \cup {"down-host-marked-up" : i \in MustNot \ o.down}
        \cup (IF o.refreshes > RefreshBound THEN {"refresh-storm"} ELSE {})
  IN \* a panic is reported alone; a wrong ring content is reported without what follows from it
     IF o.panic # "" THEN {"panic"}
     \* a refresh was asked for and can never return: the goroutine that performs the refreshes is
     \* itself waiting for a refresh (reported by the harness from the goroutines' stacks)
     ELSE IF o.stuck # "" THEN {"refresh-never-returns"}
     \* the policy was told "host up" (offer it) for a host whose node did not answer during the whole step
     ELSE IF \E i \in o.upcalls \cap H : o.hosts[i].addr \notin g.reach THEN {"unreachable-host-announced-up"}
     ELSE IF ringV # {} THEN ringV ELSE restV

\* the observation a model state corresponds to
ObsOf(dd, nref) ==
  [hosts |-> dd.hosts, byid |-> dd.hosts, byAddr |-> dd.byAddr, hlist |-> dd.hlist,
   poolA |-> [i \in dd.pool \cap DOMAIN dd.hosts |-> dd.hosts[i].addr],
   polE |-> {[id |-> i, addr |-> dd.hosts[i].addr] : i \in dd.pol \cap DOMAIN dd.hosts},
   down |-> dd.down, served |-> {dd.hosts[i].addr : i \in (dd.pool \cap dd.pol) \ dd.down},
   refreshes |-> nref, panic |-> "", stuck |-> "", upcalls |-> {}]

(***************************************************************************)
(* The state machine                                                       *)
(***************************************************************************)
VARIABLES truth, g, d, nref
vars == <<truth, g, d, nref>>

\* bad / filtered / dup / moved only name the class of a violation (Trace_Cluster keeps them);
\* the state machine does not carry them, which keeps its state space small
Plain(gg) == [gg EXCEPT !.bad = {}, !.filtered = {}, !.dup = FALSE, !.moved = {}]

InitWith(rows) ==
  /\ truth = rows
  /\ g = Plain(GhostInit(rows, Filt))
  /\ d = FreshSession(rows, Filt, AllAddrs)
  /\ nref = 0

\* addresses (of either kind) at which a host now lives that another id held in the previous picture
AddrsOf(S) == {h.addr : h \in S} \cup {h.n2n : h \in S}
MovedAddrs(gOld, gNew) ==
  {a \in EventAddrs : \E i \in DOMAIN gNew.want : a \in AddrsOf(gNew.want[i]) /\ \E j \in DOMAIN gOld.want \ {i} : a \in AddrsOf(gOld.want[j])}

RefreshOK(fail) == g.ctl /\ fail = "none"

\* the refresh both sides perform when one is due
DoRefreshG(gg, rows, filt) == LET g1 == GhostRefresh(gg, rows, filt) IN [g1 EXCEPT !.moved = @ \cup MovedAddrs(gg, g1)]

Refresh(rows, fail) ==
  /\ truth' = rows
  /\ IF RefreshOK(fail)
       THEN /\ g' = Plain(DoRefreshG(g, rows, Filt))
            /\ d' = ApplyRefresh(d, rows, Filt, g.reach)
       ELSE UNCHANGED <<g, d>>
  /\ nref' = IF g.ctl /\ fail # "local" THEN 1 ELSE 0

Events(rows, evs) ==
  /\ g.ctl
  /\ truth' = rows
  /\ LET g1 == GhostStatuses(g, evs, StatusAddrs(evs))
         d1 == ApplyStatuses(d, evs, StatusAddrs(evs), g.reach)
         r == BatchNeedsRefresh(d, evs)
     IN /\ g' = IF GhostNeedsRefresh(g, evs) \/ r THEN Plain(BatchRelax(g, DoRefreshG(g1, rows, Filt), evs)) ELSE g1
        /\ d' = IF r THEN ApplyRefresh(d1, rows, Filt, g.reach) ELSE d1
        /\ nref' = IF r THEN 1 ELSE 0

NodeFail(rows, a) ==
  /\ a \in g.reach
  /\ truth' = rows
  /\ g' = GhostNodeFail(g, a)
  /\ d' = NodeFailD(d, a)
  /\ nref' = 0

NodeRecover(rows, a) ==
  /\ a \notin g.reach
  /\ truth' = rows
  /\ IF a = C0addr
       THEN \* the control connection comes back: control node connected, ring refreshed
            LET g1 == GhostControlBack([g EXCEPT !.reach = @ \cup {a}])
                d1 == StartFill(d, C0id, g.reach \cup {a})
            IN /\ g' = Plain(DoRefreshG(g1, rows, Filt))
               /\ d' = ApplyRefresh(d1, rows, Filt, g.reach \cup {a})
               /\ nref' = 1
       ELSE /\ g' = [g EXCEPT !.reach = @ \cup {a}]
            /\ UNCHANGED d
            /\ nref' = 0

\* The control node answers again, but the session has not re-established its control connection
\* yet (that happens with the next beat of its heartbeat): nothing changes for it - a refresh in this
\* state fails like any refresh without control connection and has to RETURN - ...
Heal(rows) ==
  /\ C0addr \notin g.reach /\ ~g.ctl
  /\ truth' = rows
  /\ g' = [g EXCEPT !.reach = @ \cup {C0addr}]
  /\ UNCHANGED d
  /\ nref' = 0

\* ... and then the control connection is re-established: control node connected, ring refreshed
Reconnect(rows) ==
  /\ C0addr \in g.reach /\ ~g.ctl
  /\ truth' = rows
  /\ g' = Plain(DoRefreshG(GhostControlBack(g), rows, Filt))
  /\ d' = ApplyRefresh(StartFill(d, C0id, g.reach), rows, Filt, g.reach)
  /\ nref' = 1

\* the control connection is cut while the control node keeps answering
ControlLost(rows) ==
  /\ g.ctl
  /\ truth' = rows
  /\ g' = Plain(DoRefreshG(GhostControlBack(g), rows, Filt))
  /\ d' = ApplyRefresh(StartFill(d, C0id, g.reach), rows, Filt, g.reach)
  /\ nref' = 1

\* the keyspace metadata becomes (un)available and the cluster announces a schema change of the
\* session keyspace (the driver drops its cached metadata): what the session has to know about
\* the nodes does not change, and neither does the driver's picture
SchemaChange(rows) ==
  /\ g.ctl
  /\ truth' = rows
  /\ UNCHANGED <<g, d>>
  /\ nref' = 0

PropertyHolds == Viol(ObsOf(d, nref), g) = {}

TypeOK ==
  /\ DOMAIN d.hosts \subseteq Ids \cup {C0id}
  /\ \A i \in DOMAIN d.hosts : d.hosts[i].addr \in AllAddrs /\ d.hosts[i].n2n \in EventAddrs
  /\ d.pool \subseteq DOMAIN d.hosts /\ d.pol \subseteq DOMAIN d.hosts /\ d.down \subseteq DOMAIN d.hosts
  /\ nref \in 0 .. 1
=============================================================================
