----------------------------- MODULE Trace_Auth -----------------------------
(***************************************************************************)
(* C20 code -> spec: the start of real connections of real sessions,       *)
(* recorded at the scripted node (every frame it read from the driver,     *)
(* every answer it gave) and at the harness (configuration, result of      *)
(* NewSession), is stepped through and the credential-disclosure rules of  *)
(* Handshake.tla are evaluated at every step.                              *)
(*  ev = "case"   id kind allowed user pass     client configuration       *)
(*  ev = "conn"   id c                          a new connection           *)
(*  ev = "srv"    id c what class               the node answers: ready |  *)
(*                authenticate(class) | success | challenge | error | other*)
(*  ev = "cli"    id c op token leak            a frame the node read; op  *)
(*                opcode, token = AUTH_RESPONSE body value, leak = the     *)
(*                body contains the password bytes                         *)
(*  ev = "result" id session err crash          NewSession returned        *)
(* Violations (kinds not starting with "drift-") contradict property C20;  *)
(* "drift-" kinds only say that the driver left the modelled protocol.     *)
(***************************************************************************)
EXTENDS Handshake, TLC, Json, IOUtils

Log == ndJsonDeserialize(IOEnv.VF_TRACE)

VARIABLES l, cs, st, cok, bad
vars == <<l, cs, st, cok, bad>>

NoCase == [kind |-> "none", allowed |-> {}, user |-> <<>>, pass |-> <<>>]
Fresh == [class |-> "", demanded |-> FALSE, success |-> FALSE, ready |-> FALSE, nresp |-> 0]

Init == l = 1 /\ cs = NoCase /\ st = Fresh /\ cok = [demanded |-> FALSE, established |-> FALSE] /\ bad = <<>>

chk(c, k) == IF c THEN <<>> ELSE <<k>>
May == MaySendCredentials(cs.kind, cs.allowed, st.class)
Established == st.ready \/ st.success

Step(e) ==
  CASE e.ev = "case" ->
         /\ cs' = [kind |-> e.kind, allowed |-> ToSet(e.allowed), user |-> e.user, pass |-> e.pass]
         /\ st' = Fresh /\ cok' = [demanded |-> FALSE, established |-> FALSE] /\ bad' = <<>>
    [] e.ev = "conn" ->
         /\ st' = Fresh /\ UNCHANGED <<cs, cok>> /\ bad' = <<>>
    [] e.ev = "srv" ->
         /\ st' = CASE e.what = "authenticate" -> [st EXCEPT !.class = e.class, !.demanded = TRUE]
                    [] e.what = "success" -> [st EXCEPT !.success = st.demanded /\ st.nresp > 0]
                    [] e.what = "ready" -> [st EXCEPT !.ready = ~st.demanded]
                    [] OTHER -> st
         /\ cok' = [demanded |-> cok.demanded \/ e.what = "authenticate",
                    established |-> cok.established \/ (e.what = "success" /\ st.demanded /\ st.nresp > 0)
                                                      \/ (e.what = "ready" /\ ~st.demanded)]
         /\ UNCHANGED cs /\ bad' = <<>>
    [] e.ev = "cli" ->
         /\ st' = IF e.op = OpAuthResponse THEN [st EXCEPT !.nresp = @ + 1] ELSE st
         /\ UNCHANGED <<cs, cok>>
         /\ bad' = IF e.op = OpAuthResponse
                   THEN chk(st.demanded, "drift-auth-response-unsolicited")
                        \o chk(~st.demanded \/ May, "credentials-to-unapproved-class")
                        \o chk(st.nresp > 0 \/ ~May \/ FirstTokenOK(cs.user, cs.pass, e.token), "token-not-sasl-plain")
                   ELSE chk(~e.leak \/ (st.demanded /\ May), "credential-leak")
                        \o chk(~(cs.kind = "none" /\ st.demanded), "unauthenticated-use")
                        \o chk(~st.demanded \/ Established \/ cs.kind = "none", "drift-request-before-auth-success")
    [] e.ev = "result" ->
         /\ UNCHANGED <<cs, st, cok>>
         /\ bad' = chk(~(cs.kind = "none" /\ cok.demanded /\ (e.session \/ (e.err = "" /\ ~e.crash))), "unauthenticated-session")
                   \o chk(~(cs.kind # "none" /\ e.session /\ ~cok.established), "drift-session-without-success")
    [] OTHER -> UNCHANGED <<cs, st, cok>> /\ bad' = <<"drift-unknown-event">>

Next == /\ l <= Len(Log)
        /\ l' = l + 1
        /\ Step(Log[l])
Spec == Init /\ [][Next]_vars

Report == bad # <<>> => PrintT(<<"MONVIOL", ToJson([line |-> l - 1, id |-> Log[l - 1].id, kinds |-> bad,
                                                      class |-> st.class, kind |-> cs.kind])>>)
=============================================================================
