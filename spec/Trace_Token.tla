----------------------------- MODULE Trace_Token -----------------------------
(***************************************************************************)
(* C09 code -> spec: vectors recorded from the real code (one JSON object  *)
(* per line) are stepped through; each record's outputs are compared with  *)
(* what Token.tla requires.  A mismatch prints a BAD line (with the value  *)
(* the specification requires); the run itself never fails on a mismatch,  *)
(* so every record of the file is evaluated.                               *)
(*  k = "h1"   key, out            murmur.Murmur3H1(key) printed in decimal*)
(*  k = "m3"   key, out, out2      murmur3Partitioner.Hash(key).String()   *)
(*  k = "rnd"  key, md5, out, out2 randomPartitioner.Hash(key).String(),   *)
(*                                 md5 = crypto/md5 digest of key (trusted)*)
(*  out = the value right after the call; out2 = the SAME returned object  *)
(*  (token / routing-key slice), still held by the caller, read again      *)
(*  after further keys and tokens for other inputs were produced - both    *)
(*  must be what the specification requires.                               *)
(*  k = "ord"  a, b, sa, less      orderedPartitioner: Hash(a).Less(Hash(b)) *)
(*                                 (sa = Hash(a).String() bytes: drift only)*)
(*  k = "rk"   vals, idx, out, out2, err   createRoutingKey / GetRoutingKey *)
(*  k = "rkseq" obj, idx, steps, outs, outs2, err   a script on ONE Query /  *)
(*                                 Batch value (Bind / RoutingKey / Batch.Query*)
(*                                 / GetRoutingKey); outs = the key at each  *)
(*                                 "get", outs2 = the same slices re-read at *)
(*                                 the end of the script and later           *)
(*  k = "cmp"  p, a, b, ra, less   p.ParseString(a).Less(p.ParseString(b)) *)
(*                                 (ra = ParseString(a).String(): drift)   *)
(*  k = "cmpk" p, a, key, md5, ak, ka   Parse(a).Less(Hash(key)) and       *)
(*                                 Hash(key).Less(Parse(a))                *)
(* ASCII strings are sequences of character codes.                         *)
(***************************************************************************)
EXTENDS Token, Json, IOUtils

Log == ndJsonDeserialize(IOEnv.VF_TRACE)

VARIABLES l, res
vars == <<l, res>>

B(x) == IF x THEN <<1>> ELSE <<0>>
\* verdict: ok, and the value the specification requires (as a sequence of integers)
V(ok, exp) == [ok |-> ok, exp |-> exp, drift |-> ""]
\* the property is met, but an output it does not speak about differs from the reference
D(v, same, what) == IF v.ok /\ ~same THEN [v EXCEPT !.drift = what] ELSE v

KeyTokAscii(p, key, md5) == IF p = "m3" THEN Murmur3TokenAscii(key) ELSE RandomTokenAscii(md5)

Verdict(r) ==
  IF r.panic # "" THEN V(FALSE, <<-2>>) ELSE
  CASE r.k = "h1" -> LET e == H1Ascii(r.key) IN V(r.out = e, e)
    [] r.k = "m3" -> LET e == Murmur3TokenAscii(r.key) IN V(r.out = e /\ r.out2 = e, e)
    [] r.k = "rnd" -> LET e == RandomTokenAscii(r.md5) IN V(r.out = e /\ r.out2 = e, e)
    [] r.k = "ord" -> LET e == BytesLt(r.a, r.b) IN D(V(r.less = e, B(e)), r.sa = r.a, "orderedToken.String() is not the key")
    [] r.k = "rk" -> LET e == RoutingKeyOf(r.vals, r.idx) IN V(r.err = "" /\ r.out = e /\ r.out2 = e, e)
    [] r.k = "rkseq" -> LET e == SeqExpected(r.obj, r.steps, r.idx) IN V(r.err = "" /\ r.outs = e /\ r.outs2 = e, e)
    [] r.k = "cmp" -> LET e == DecLt(r.a, r.b) IN
                      D(V(IsCanonDec(r.a) /\ IsCanonDec(r.b) => r.less = e, B(e)), IsCanonDec(r.a) => r.ra = r.a,
                        "ParseString(s).String() is not s")
    [] r.k = "cmpk" -> LET t == KeyTokAscii(r.p, r.key, r.md5)
                           e1 == DecLt(r.a, t)
                           e2 == DecLt(t, r.a)
                       IN V(IsCanonDec(r.a) => (r.ak = e1 /\ r.ka = e2), B(e1) \o B(e2))
    [] OTHER -> V(FALSE, <<-1>>)

Init == l = 1 /\ res = V(TRUE, <<>>)
Next == /\ l <= Len(Log)
        /\ l' = l + 1
        /\ res' = Verdict(Log[l])
Spec == Init /\ [][Next]_vars

Report == /\ (~res.ok => PrintT(<<"BAD", ToJson([line |-> l - 1, exp |-> res.exp])>>))
          /\ (res.drift # "" => PrintT(<<"DRIFT", ToJson([line |-> l - 1, what |-> res.drift])>>))
=============================================================================
