SPECIFICATION SpecDump
CONSTANTS
  MaxE = 3
  Configs <- CfgConc
  KeepHist = TRUE
  GateAtomic = TRUE
  NonIdemRetry = FALSE
INVARIANTS NoViolation EmitCase
