---------------------------- MODULE Gen_WireResp ----------------------------
(***************************************************************************)
(* Case generators for C04.  One TLC state per case: the state is a small  *)
(* parameter record p, the case (logical response, its frame bytes, the    *)
(* scan plan) is computed from p in the invariant that prints it.          *)
(*   Init/Next        BFS, the systematic families                        *)
(*   InitSim/NextSim  -simulate: random growth of deeper type trees        *)
(***************************************************************************)
EXTENDS WireResp, Json

CONSTANT Thorough     \* BOOLEAN: larger pools
VARIABLE p

TraceId == <<0, 17, 34, 51, 68, 85, 102, 119, 136, 153, 170, 187, 204, 221, 238, 255>>
WarnPool == << <<S_warn_one>>, <<S_warn_one, S_w2>>, <<>> >>
PayPool == << <<[k |-> S_key1, null |-> FALSE, b |-> <<1, 2, 255>>]>>,
              <<[k |-> S_key1, null |-> TRUE, b |-> <<>>], [k |-> S_key2, null |-> FALSE, b |-> <<>>]>>,
              <<>> >>
HFs(v) == IF v >= 4 THEN 0 .. 7 ELSE {0, 1}            \* bit0 tracing, bit1 warning (v4+), bit2 payload (v4+)
Streams(v) == IF v >= 3 THEN <<0, 1, 300, 32767>> ELSE <<0, 1, 127>>

Env(kind, v, hf, stream, var, b) ==
  LET w == (hf \div 2) % 2 = 1
      py == (hf \div 4) % 2 = 1
  IN [kind |-> kind, v |-> v, stream |-> stream,
      tracing |-> hf % 2 = 1, traceid |-> IF hf % 2 = 1 THEN TraceId ELSE <<>>,
      warn |-> w, warnings |-> IF w THEN WarnPool[(var % 3) + 1] ELSE <<>>,
      pay |-> py, payload |-> IF py THEN PayPool[((var \div 3) % 3) + 1] ELSE <<>>,
      b |-> b]
Out(l, typed, plan, prep) == [logical |-> l, bytes |-> Frame(l), typed |-> typed, plan |-> plan, prep |-> prep]
NoPlan == <<>>

\* ------------------------------------------------------------------ SIMPLE
SimpleVar(v) ==
  << [kind |-> "READY", b |-> [x |-> 0]],
     [kind |-> "AUTHENTICATE", b |-> [class |-> S_PasswordAuthenticator]],
     [kind |-> "AUTHENTICATE", b |-> [class |-> S_com_example_Auth]],
     [kind |-> "SUPPORTED", b |-> [opts |-> <<>>]],
     [kind |-> "SUPPORTED", b |-> [opts |-> <<[k |-> S_COMPRESSION, vals |-> <<S_snappy, S_lz4>>],
                                             [k |-> S_CQL_VERSION, vals |-> <<S_3_4_5>>]>>]],
     [kind |-> "SUPPORTED", b |-> [opts |-> <<[k |-> S_COMPRESSION, vals |-> <<>>],
                                             [k |-> S_CQL_VERSION, vals |-> <<S_3_0_0, S_3_4_5>>],
                                             [k |-> S_PROTOCOL_VERSIONS, vals |-> <<S_4_v4, S_5_v5_beta>>]>>]],
     [kind |-> "RESULT_VOID", b |-> [x |-> 0]],
     [kind |-> "RESULT_KEYSPACE", b |-> [ks |-> S_ks1]],
     [kind |-> "RESULT_KEYSPACE", b |-> [ks |-> S_hello_utf8]] >> \o
  (IF v >= 2 THEN
   << [kind |-> "AUTH_CHALLENGE", b |-> Null],
      [kind |-> "AUTH_CHALLENGE", b |-> Some(<<>>)],
      [kind |-> "AUTH_CHALLENGE", b |-> Some(<<0, 1, 254, 255>>)],
      [kind |-> "AUTH_SUCCESS", b |-> Null],
      [kind |-> "AUTH_SUCCESS", b |-> Some(<<>>)],
      [kind |-> "AUTH_SUCCESS", b |-> Some(<<115, 0, 255>>)] >>
   ELSE <<>>)
SimpleParams ==
  {q \in [fam : {"SIMPLE"}, v : 1 .. 5, i : 1 .. 15, hf : 0 .. 7, st : 1 .. 4] :
     /\ q.i <= Len(SimpleVar(q.v)) /\ q.hf \in HFs(q.v) /\ q.st <= Len(Streams(q.v))
     /\ Thorough \/ q.st = ((q.i + q.hf) % Len(Streams(q.v))) + 1}
SimpleCase(q) ==
  LET sv == SimpleVar(q.v)[q.i]
  IN Out(Env(sv.kind, q.v, q.hf, Streams(q.v)[q.st], q.i + q.hf, sv.b), FALSE, NoPlan, <<>>)

\* ------------------------------------------------------------------ ERROR
ErrCodes(v) == {0, 10, 256, 4096, 4097, 4098, 4099, 4352, 4608, 8192, 8448, 8704, 8960, 9216, 9472}
               \cup (IF v >= 4 THEN {4864, 5120, 5376} ELSE {}) \cup (IF v >= 5 THEN {5632, 5888} ELSE {})
AllErrCodes == ErrCodes(5)
ErrBase(code, msg) == [code |-> code, msg |-> msg, cl |-> 0, n1 |-> 0, n2 |-> 0, n3 |-> 0, flag |-> 0,
                       s1 |-> <<>>, s2 |-> <<>>, list |-> <<>>, id |-> <<>>, rmap |-> <<>>]
Addr4 == <<10, 0, 0, 1>>
Addr4b == <<192, 168, 255, 7>>
Addr6 == <<32, 1, 13, 184, 0, 0, 0, 0, 0, 0, 0, 0, 0, 0, 0, 1>>
RMapPool == << <<>>, <<[addr |-> Addr4, code |-> 0]>>, <<[addr |-> Addr4, code |-> 1], [addr |-> Addr6, code |-> 65535]>> >>
ErrBody3(v, code, k) ==   \* k \in 0 .. 2
  LET base == ErrBase(code, <<S_err, S_unavailable_cafe, S_empty>>[k + 1])
      cl == <<1, 4, 10>>[k + 1]
      n1 == <<0, 1, 2147483647>>[k + 1]
      n2 == <<1, 3, 65536>>[k + 1]
      nf == <<0, 1, 5>>[k + 1]
      rm == RMapPool[k + 1]
      wt == <<S_SIMPLE, S_BATCH_LOG, S_UNLOGGED_BATCH>>[k + 1]
      clr == [base EXCEPT !.cl = cl, !.n1 = n1, !.n2 = n2]
      fail == IF v >= 5 THEN [clr EXCEPT !.rmap = rm, !.n3 = Len(rm)] ELSE [clr EXCEPT !.n3 = nf]
  IN CASE code \in {4096, 5888} -> clr
       [] code = 4352 -> [clr EXCEPT !.s1 = wt]
       [] code = 4608 -> [clr EXCEPT !.flag = <<0, 1, 1>>[k + 1]]
       [] code = 4864 -> [fail EXCEPT !.flag = <<1, 0, 1>>[k + 1]]
       [] code = 5376 -> [fail EXCEPT !.s1 = wt]
       [] code = 5120 -> [base EXCEPT !.s1 = S_ks1, !.s2 = S_fn, !.list = << <<>>, <<S_int>>, <<S_int, S_list_int>> >>[k + 1]]
       [] code = 9216 -> [base EXCEPT !.s1 = S_ks1, !.s2 = <<S_tbl, S_empty, S_t1>>[k + 1]]
       [] code = 9472 -> [base EXCEPT !.id = << <<171, 205>>, TraceId, <<0>> >>[k + 1]]
       [] OTHER -> base
ErrParams ==
  {q \in [fam : {"ERROR"}, v : 1 .. 5, code : AllErrCodes, k : 0 .. 2, hf : 0 .. 7] :
     /\ q.code \in ErrCodes(q.v) /\ q.hf \in HFs(q.v)
     /\ Thorough \/ q.v < 4 \/ q.hf \in {0, 1, 7, (q.k * 2) + 2}}
ErrCase(q) == Out(Env("ERROR", q.v, q.hf, Streams(q.v)[(q.k % 3) + 1], q.k + q.hf, ErrBody3(q.v, q.code, q.k)), FALSE, NoPlan, <<>>)

\* ------------------------------------------------------------------ SCHEMA CHANGE (result and event), EVENTs
Targets(v) == IF v <= 2 THEN <<"KEYSPACE", "TABLE">> ELSE IF v = 3 THEN <<"KEYSPACE", "TABLE", "TYPE">>
              ELSE <<"KEYSPACE", "TABLE", "TYPE", "FUNCTION", "AGGREGATE">>
Changes == <<S_CREATED, S_UPDATED, S_DROPPED>>
ArgPool == << <<>>, <<S_int>>, <<S_text, S_list_int>> >>
SchemaParams ==
  {q \in [fam : {"SCHEMA"}, ev : BOOLEAN, v : 1 .. 5, ch : 1 .. 3, tg : 1 .. 5, ar : 1 .. 3, hf : {0, 1, 7}] :
     /\ q.tg <= Len(Targets(q.v)) /\ q.hf \in HFs(q.v)
     /\ q.ar = 1 \/ Targets(q.v)[q.tg] \in {"FUNCTION", "AGGREGATE"}
     /\ ~q.ev \/ q.hf = 0}
SchemaCase(q) ==
  LET tg == Targets(q.v)[q.tg]
      b == [change |-> Changes[q.ch], target |-> tg, ks |-> S_ks1,
            name |-> CASE tg = "KEYSPACE" -> <<>> [] tg = "TABLE" -> S_tbl [] tg = "TYPE" -> S_udt1
                       [] tg = "FUNCTION" -> S_fn [] tg = "AGGREGATE" -> S_agg,
            args |-> IF tg \in {"FUNCTION", "AGGREGATE"} THEN ArgPool[q.ar] ELSE <<>>]
  IN Out(Env(IF q.ev THEN "EVENT_SCHEMA" ELSE "RESULT_SCHEMA", q.v, q.hf, IF q.ev THEN -1 ELSE 1, q.ch + q.ar, b), FALSE, NoPlan, <<>>)

EventVar(v) == << [kind |-> "EVENT_TOPOLOGY", change |-> S_NEW_NODE], [kind |-> "EVENT_TOPOLOGY", change |-> S_REMOVED_NODE],
                  [kind |-> "EVENT_STATUS", change |-> S_UP], [kind |-> "EVENT_STATUS", change |-> S_DOWN] >>
               \o (IF v >= 3 THEN << [kind |-> "EVENT_TOPOLOGY", change |-> S_MOVED_NODE] >> ELSE <<>>)
Addrs == <<Addr4, Addr4b, Addr6>>
Ports == <<9042, 0, 65535>>
EventParams == {q \in [fam : {"EVENT"}, v : 1 .. 5, i : 1 .. 5, a : 1 .. 3, po : 1 .. 3] :
                  q.i <= Len(EventVar(q.v)) /\ (Thorough \/ q.po = ((q.i + q.a) % 3) + 1)}
EventCase(q) == LET e == EventVar(q.v)[q.i]
                IN Out(Env(e.kind, q.v, 0, -1, 0, [change |-> e.change, addr |-> Addrs[q.a], port |-> Ports[q.po]]), FALSE, NoPlan, <<>>)

\* ------------------------------------------------------------------ type trees
RECURSIVE SortedSeq(_)
SortedSeq(S) == IF S = {} THEN <<>> ELSE LET m == CHOOSE x \in S : \A y \in S : x <= y IN <<m>> \o SortedSeq(S \ {m})
NativeIds(v) == {1, 2, 3, 4, 5, 6, 7, 8, 9, 11, 12, 13, 14, 15, 16} \cup (IF v <= 2 THEN {10} ELSE {})
                \cup (IF v >= 4 THEN {17, 18, 19, 20} ELSE {}) \cup (IF v >= 5 THEN {21} ELSE {})
Pairs(A, B) == [n \in 1 .. Len(A) * Len(B) |-> <<A[((n - 1) \div Len(B)) + 1], B[((n - 1) % Len(B)) + 1]>>]
TInt == Ty(9)
TText == Ty(13)
TBool == Ty(4)
TBlob == Ty(3)
TMy == TyCustom(S_com_example_MyType)
Udt(fn, ft) == TyUDT(S_ks1, S_udt1, fn, ft)
L1 == IF Thorough THEN <<TInt, TText, TBlob, TMy, Ty(12), TBool, Ty(2), Ty(16)>> ELSE <<TInt, TText, TBlob, TMy>>
L1s == <<TInt, TText, TMy>>
D1(v) == <<TyList(TInt), TySet(TText), TyMap(TInt, TText)>> \o
         (IF v >= 3 THEN <<TyTuple(<<TInt, TText>>), Udt(<<S_f1>>, <<TInt>>), TyTuple(<<>>), Udt(<<>>, <<>>)>> ELSE <<>>)
TypePoolOf(v) ==
  LET nat == Map(SortedSeq(NativeIds(v)), Ty)
      cus == <<TMy, TyCustom(S_marshal_Int32Type), TyCustom(S_marshal_UTF8Type), TyCustom(S_marshal_DynamicComposite), TyCustom(<<>>)>>
      d1 == D1(v)
      pm == Pairs(L1s, L1)
      depth1 == Map(L1, TyList) \o Map(L1, TySet) \o [n \in 1 .. Len(pm) |-> TyMap(pm[n][1], pm[n][2])]
      depth1c == IF v < 3 THEN <<>>
                 ELSE [n \in 1 .. Len(L1) |-> TyTuple(<<L1[n]>>)] \o [n \in 1 .. Len(pm) |-> TyTuple(<<pm[n][1], pm[n][2]>>)]
                      \o <<TyTuple(<<TInt, TText, TBlob>>), Udt(<<>>, <<>>)>>
                      \o [n \in 1 .. Len(L1) |-> Udt(<<S_f1>>, <<L1[n]>>)]
                      \o [n \in 1 .. Len(pm) |-> Udt(<<S_f1, S_f2>>, <<pm[n][1], pm[n][2]>>)]
      depth2 == Map(d1, TyList) \o Map(d1, TySet)
                \o [n \in 1 .. Len(d1) |-> TyMap(TInt, d1[n])] \o [n \in 1 .. Len(d1) |-> TyMap(d1[n], TText)]
      pd == Pairs(d1, d1)
      depth2c == IF v < 3 THEN <<>>
                 ELSE [n \in 1 .. Len(d1) |-> TyTuple(<<TInt, d1[n]>>)] \o [n \in 1 .. Len(d1) |-> TyTuple(<<d1[n], TText>>)]
                      \o [n \in 1 .. Len(d1) |-> Udt(<<S_f1, S_f2>>, <<d1[n], TInt>>)]
                      \o (IF Thorough THEN [n \in 1 .. Len(pd) |-> TyTuple(<<pd[n][1], pd[n][2]>>)]
                                           \o [n \in 1 .. Len(pd) |-> TyMap(pd[n][1], pd[n][2])]
                                           \o [n \in 1 .. Len(pd) |-> Udt(<<S_f1, S_f2>>, <<pd[n][1], pd[n][2]>>)]
                          ELSE <<>>)
  IN nat \o cus \o depth1 \o depth1c \o depth2 \o depth2c
TypePool == [v \in 1 .. 5 |-> TypePoolOf(v)]
MaxTypePool == Len(TypePool[5])

OpaquePool == << <<1>>, <<>>, <<0, 255, 128, 7>> >>
\* the cell of a column of type t when nothing typed is compared: opaque bytes; for a tuple
\* column a real tuple of opaque elements (the second one null) because it is split per element
OpaqueCellFor(t, k) ==
  IF t.id = T_Tuple /\ Len(t.args) > 0
  THEN IF k % 3 = 2 THEN CNullTuple([j \in 1 .. Len(t.args) |-> CNullOpaque])
       ELSE CTuple([j \in 1 .. Len(t.args) |-> IF j = 2 THEN CNullOpaque ELSE COpaque(OpaquePool[((k + j) % 3) + 1])])
  ELSE IF k % 3 = 2 THEN CNullOpaque ELSE COpaque(OpaquePool[(k % 3) + 1])
RawPlanFor(t) == IF t.id = T_Tuple /\ Len(t.args) > 0 THEN [kind |-> "tuple", elems |-> [j \in 1 .. Len(t.args) |-> "raw"]]
                 ELSE [kind |-> "raw", elems |-> <<>>]
\* a top-level tuple with no element cannot be a column (CQL has no empty tuple type): nested only
ColumnOk(t) == ~(t.id = T_Tuple /\ Len(t.args) = 0)

ColNames == <<S_a, S_b, S_c, S_col>>
MkCols(types, global) ==
  [i \in 1 .. Len(types) |-> [ks |-> IF global \/ i = 1 THEN S_ks1 ELSE S_ks2, table |-> IF global \/ i = 1 THEN S_t1 ELSE S_t2,
                              name |-> ColNames[i], type |-> types[i]]]
MkMeta(types, global, more, nometa) ==
  [global |-> global, more |-> more, nometa |-> nometa, paging |-> IF more THEN <<0, 255, 128>> ELSE <<>>,
   gks |-> IF global THEN S_ks1 ELSE <<>>, gtable |-> IF global THEN S_t1 ELSE <<>>, cols |-> MkCols(types, global)]
\* the PREPARED response a server would have given for a statement with these result columns
PrepFor(v, types, global) ==
  Frame(Env("RESULT_PREPARED", v, 0, 0, 0,
            [id |-> <<7, 7, v>>, pk |-> <<>>, req |-> MkMeta(<<>>, FALSE, FALSE, FALSE), res |-> MkMeta(types, global, FALSE, FALSE)]))

TypeParams == {q \in [fam : {"TYPES"}, v : 1 .. 5, t : 1 .. MaxTypePool, g : BOOLEAN] :
                 q.t <= Len(TypePool[q.v]) /\ ColumnOk(TypePool[q.v][q.t])}
TypeCase(q) ==
  LET t == TypePool[q.v][q.t]
      rows == [r \in 1 .. 2 |-> <<OpaqueCellFor(t, q.t + r)>>]
  IN Out(Env("RESULT_ROWS", q.v, 0, Streams(q.v)[(q.t % 3) + 1], 0, [meta |-> MkMeta(<<t>>, q.g, FALSE, FALSE), rows |-> rows]),
         FALSE, <<RawPlanFor(t)>>, PrepFor(q.v, <<t>>, q.g))

\* ------------------------------------------------------------------ ROWS: metadata flags x columns x rows x nulls, typed cells
IntPool == <<0, 1, -1, 2147483647, -2147483647 - 1, 258>>
TextPool == <<S_hello, S_empty, S_hello_utf8, S_a>>
ListPool == << <<1>>, <<>>, <<1, -2, 300>> >>
TTup == TyTuple(<<TInt, TText>>)
KindType(k) == <<TInt, TText, TBool, TyList(TInt), TTup, TBlob, TySet(TInt)>>[k]
KindPlan(k) == << [kind |-> "int", elems |-> <<>>], [kind |-> "text", elems |-> <<>>], [kind |-> "bool", elems |-> <<>>],
                  [kind |-> "list_int", elems |-> <<>>], [kind |-> "tuple", elems |-> <<"int", "text">>],
                  [kind |-> "raw", elems |-> <<>>], [kind |-> "list_int", elems |-> <<>>] >>[k]
KindTyped(k) == k # 6
IsNullAt(np, r, c) == CASE np = 0 -> FALSE [] np = 1 -> TRUE [] np = 2 -> (r + c) % 2 = 0 [] np = 3 -> (r + c) % 2 = 1
KindCell(v, k, r, c, np) ==
  LET n == r * 2 + c + np
      nul == IsNullAt(np, r, c)
  IN CASE k = 1 -> IF nul THEN CNullInt ELSE CInt(IntPool[(n % 6) + 1])
       [] k = 2 -> IF nul THEN CNullText ELSE CText(TextPool[(n % 4) + 1])
       [] k = 3 -> IF nul THEN CNullBool ELSE CBool(n % 2 = 0)
       [] k \in {4, 7} -> IF nul THEN CNullList ELSE CListInt(v, ListPool[(n % 3) + 1])
       [] k = 5 -> IF nul THEN CNullTuple(<<CNullInt, CNullText>>)
                   ELSE CTuple(<<IF np = 3 THEN CNullInt ELSE CInt(IntPool[(n % 6) + 1]),
                                 IF np = 2 THEN CNullText ELSE CText(TextPool[(n % 4) + 1])>>)
       [] k = 6 -> IF nul THEN CNullOpaque ELSE COpaque(OpaquePool[(n % 3) + 1])
ColSets == << <<>>, <<1>>, <<2>>, <<3>>, <<4>>, <<5>>, <<6>>, <<1, 2>>, <<5, 1>>, <<2, 5>>, <<4, 3>>, <<6, 1>>, <<5, 5>>, <<7, 2>>, <<1, 2, 3>> >>
NeedsV3(cs) == \E i \in 1 .. Len(cs) : cs[i] = 5
RowsHF(v, h) == CASE h = 0 -> 0 [] h = 1 -> 1 [] h = 2 -> IF v >= 4 THEN 7 ELSE 1 [] h = 3 -> IF v >= 4 THEN 6 ELSE 0
RowsParams ==
  {q \in [fam : {"ROWS"}, v : 1 .. 5, g : BOOLEAN, m : BOOLEAN, n : BOOLEAN, cs : 1 .. Len(ColSets), nr : 0 .. 2, np : 0 .. 3, h : 0 .. 3] :
     /\ q.v >= 2 \/ (~q.m /\ ~q.n)                       \* paging and skipped metadata exist from v2
     /\ q.v >= 3 \/ ~NeedsV3(ColSets[q.cs])
     /\ q.v >= 4 \/ q.h <= 1
     /\ (q.nr = 0 \/ Len(ColSets[q.cs]) = 0) => q.np = 0
     /\ Thorough \/ q.h = (q.cs + q.nr + q.np + (IF q.g THEN 1 ELSE 0)) % (IF q.v >= 4 THEN 4 ELSE 2)
     /\ Thorough \/ q.np \in {0, (q.cs % 3) + 1} }
RowsCase(q) ==
  LET cs == ColSets[q.cs]
      types == Map(cs, KindType)
      rows == [r \in 1 .. q.nr |-> [c \in 1 .. Len(cs) |-> KindCell(q.v, cs[c], r, c, q.np)]]
      typed == \A i \in 1 .. Len(cs) : KindTyped(cs[i])
  IN Out(Env("RESULT_ROWS", q.v, RowsHF(q.v, q.h), Streams(q.v)[((q.cs + q.nr) % 3) + 1], q.cs + q.np,
             [meta |-> MkMeta(types, q.g, q.m, q.n), rows |-> rows]),
         typed, Map(cs, KindPlan), PrepFor(q.v, types, q.g))

\* ------------------------------------------------------------------ MULTI: 2-3 rows of slice-/map-/string-valued cells whose sizes
\* shrink, stay equal or grow from row to row, every row with its own contents: what one row
\* shows must not depend on the rows read after it (destinations reused by the consumers)
MKindType(k) == CASE k = 1 -> TInt [] k = 2 -> TText [] k = 4 -> TyList(TInt) [] k = 7 -> TySet(TInt)
                  [] k = 8 -> TBlob [] k = 9 -> TyMap(TInt, TInt)
MKindPlan(k) == [kind |-> CASE k = 1 -> "int" [] k = 2 -> "text" [] k \in {4, 7} -> "list_int" [] k = 8 -> "blob" [] k = 9 -> "map_int_int",
                 elems |-> <<>>]
MultiSets == << <<8>>, <<2>>, <<4>>, <<7>>, <<9>>, <<1, 8>>, <<8, 4>>, <<8, 8>>, <<9, 2>>, <<2, 7, 8>> >>
\* size of the value in row r (1..3): 0 shrinking 8,4,2; 1 equal; 2 growing; 3 shrinking with a null in
\* row 2 of the first column; 4 null first, then shrinking
MultiSize(sp, r) == CASE sp \in {0, 3} -> <<8, 4, 2>>[r] [] sp = 1 -> 4 [] sp = 2 -> <<2, 4, 8>>[r] [] sp = 4 -> <<0, 8, 4>>[r]
MultiNull(sp, r, c) == (sp = 3 /\ r = 2 /\ c = 1) \/ (sp = 4 /\ r = 1)
MultiCell(v, k, r, c, sp) ==
  LET sz == MultiSize(sp, r)
      nul == MultiNull(sp, r, c)
      ch == 64 + r + 3 * (c - 1)                       \* 'A','B','C' in column 1, 'D','E','F' in column 2, ...
      n == sz \div 2
      ints == [j \in 1 .. n |-> r * 100 + c * 10 + j]
      keys == [j \in 1 .. n |-> j]
  IN CASE k = 1 -> CInt(r)
       [] k = 2 -> IF nul THEN CNullText ELSE CText([j \in 1 .. sz |-> ch])
       [] k \in {4, 7} -> IF nul THEN CNullList ELSE CListInt(v, ints)
       [] k = 8 -> IF nul THEN CNullBlob ELSE CBlob([j \in 1 .. sz |-> ch])
       [] k = 9 -> IF nul THEN CNullMap ELSE CMapIntInt(v, keys, ints)
MultiParams ==
  {q \in [fam : {"MULTI"}, v : 1 .. 5, cs : 1 .. Len(MultiSets), nr : 2 .. 3, sp : 0 .. 4, g : BOOLEAN, n : BOOLEAN] :
     /\ q.v >= 2 \/ ~q.n
     /\ Thorough \/ q.g = ((q.cs + q.sp) % 2 = 0)}
MultiCase(q) ==
  LET cs == MultiSets[q.cs]
      rows == [r \in 1 .. q.nr |-> [c \in 1 .. Len(cs) |-> MultiCell(q.v, cs[c], r, c, q.sp)]]
      types == Map(cs, MKindType)
  IN Out(Env("RESULT_ROWS", q.v, 0, 1, 0, [meta |-> MkMeta(types, q.g, FALSE, q.n), rows |-> rows]),
         TRUE, Map(cs, MKindPlan), PrepFor(q.v, types, q.g))

\* ------------------------------------------------------------------ UDT: a UDT (int, text, int) at top level and nested in list / set /
\* map / tuple, scanned into every destination shape the documentation allows: map, UDTUnmarshaler,
\* structs by cql tag and by field name - complete ones and ones that lack the leading, the middle,
\* the trailing field, or all but one.  Values: fewer fields than the type, a null field, all fields, null.
S_Fa == <<70, 97>>
S_Fb == <<70, 98>>
S_Fc == <<70, 99>>
S_f3 == <<102, 51>>
UShapes == << [shape |-> "map", byname |-> FALSE, vis |-> <<1, 2, 3>>, raw |-> FALSE],
              [shape |-> "udtu", byname |-> FALSE, vis |-> <<1, 2, 3>>, raw |-> TRUE],
              [shape |-> "tfull", byname |-> FALSE, vis |-> <<1, 2, 3>>, raw |-> FALSE],
              [shape |-> "tnolead", byname |-> FALSE, vis |-> <<2, 3>>, raw |-> FALSE],
              [shape |-> "tnomid", byname |-> FALSE, vis |-> <<1, 3>>, raw |-> FALSE],
              [shape |-> "tnotrail", byname |-> FALSE, vis |-> <<1, 2>>, raw |-> FALSE],
              [shape |-> "tonlylast", byname |-> FALSE, vis |-> <<3>>, raw |-> FALSE],
              [shape |-> "tonlymid", byname |-> FALSE, vis |-> <<2>>, raw |-> FALSE],
              [shape |-> "nfull", byname |-> TRUE, vis |-> <<1, 2, 3>>, raw |-> FALSE],
              [shape |-> "nnolead", byname |-> TRUE, vis |-> <<2, 3>>, raw |-> FALSE],
              [shape |-> "nnomid", byname |-> TRUE, vis |-> <<1, 3>>, raw |-> FALSE],
              [shape |-> "nnotrail", byname |-> TRUE, vis |-> <<1, 2>>, raw |-> FALSE],
              [shape |-> "nonlylast", byname |-> TRUE, vis |-> <<3>>, raw |-> FALSE] >>
UKinds == <<"int", "text", "int">>
UNames(sh) == IF sh.byname THEN <<"Fa", "Fb", "Fc">> ELSE <<"f1", "f2", "f3">>
UWire(sh) == IF sh.byname THEN <<S_Fa, S_Fb, S_Fc>> ELSE <<S_f1, S_f2, S_f3>>
UType(sh) == Udt(UWire(sh), <<TInt, TText, TInt>>)
\* the four values: i = 1 two fields only, 2 null middle field, 3 complete, 4 null
UVal(sh, i, salt) ==
  LET nm == UNames(sh) IN
  CASE i = 1 -> CUdt(nm, UKinds, <<CInt(11 + salt), CText(<<97, 98>>)>>, sh.vis, sh.raw)
    [] i = 2 -> CUdt(nm, UKinds, <<CInt(-2 - salt), CNullText, CInt(23 + salt)>>, sh.vis, sh.raw)
    [] i = 3 -> CUdt(nm, UKinds, <<CInt(31 + salt), CText(<<67>>), CInt(2147483647)>>, sh.vis, sh.raw)
    [] i = 4 -> CNullUdt(nm, UKinds, sh.vis, sh.raw)
UPositions == <<"top", "list", "map", "tuple", "set">>
UColType(sh, pos) == CASE pos = "top" -> UType(sh) [] pos = "list" -> TyList(UType(sh)) [] pos = "set" -> TySet(UType(sh))
                       [] pos = "map" -> TyMap(TInt, UType(sh)) [] pos = "tuple" -> TyTuple(<<TInt, UType(sh)>>)
UPlan(sh, pos) ==
  [kind |-> CASE pos = "top" -> "udt" [] pos \in {"list", "set"} -> "list_udt" [] pos = "map" -> "map_int_udt" [] pos = "tuple" -> "tuple",
   elems |-> IF pos = "tuple" THEN <<"int", "udt">> ELSE <<>>, shape |-> sh.shape,
   fields |-> [i \in 1 .. 3 |-> [name |-> UNames(sh)[i], kind |-> UKinds[i]]]]
URows(sh, pos) ==
  CASE pos = "top" -> [r \in 1 .. 4 |-> <<UVal(sh, r, 0)>>]
    [] pos \in {"list", "set"} -> << <<CListOf(<<UVal(sh, 1, 0), UVal(sh, 2, 0)>>)>>, <<CListOf(<<UVal(sh, 3, 1), UVal(sh, 4, 0), UVal(sh, 2, 5)>>)>>,
                                     <<CNullList>>, <<CListOf(<<>>)>> >>
    [] pos = "map" -> << <<CMapIntOf(<<1, 2>>, <<UVal(sh, 1, 0), UVal(sh, 3, 0)>>)>>, <<CMapIntOf(<<5, 7>>, <<UVal(sh, 2, 3), UVal(sh, 4, 0)>>)>>, <<CNullMap>> >>
    [] pos = "tuple" -> [r \in 1 .. 4 |-> <<CTuple(<<CInt(r), UVal(sh, r, r)>>)>>]
UdtParams == {q \in [fam : {"UDT"}, v : 3 .. 5, pos : 1 .. 5, sh : 1 .. Len(UShapes), n : BOOLEAN, g : BOOLEAN] :
                /\ Thorough \/ (q.pos <= 4 /\ q.g = ((q.sh + q.pos) % 2 = 0)) }
UdtCase(q) ==
  LET sh == UShapes[q.sh]
      pos == UPositions[q.pos]
      types == <<UColType(sh, pos)>>
  IN Out(Env("RESULT_ROWS", q.v, 0, 1, 0, [meta |-> MkMeta(types, q.g, FALSE, q.n), rows |-> URows(sh, pos)]),
         TRUE, <<UPlan(sh, pos)>>, PrepFor(q.v, types, q.g))

\* ------------------------------------------------------------------ BIG: collection cells at the limits of the v1/v2 [short] framing (an
\* element of 32768..65535 bytes, 32768 or more elements), the same cells on v3+, a second column and
\* a second row behind them (a mis-read length shifts everything that follows)
BigBlob(n, ch) == [j \in 1 .. n |-> IF j = 1 THEN ch ELSE IF j = n THEN ch + 1 ELSE ch + 2]
BigVariants == <<"list_elem", "map_elem", "list_count", "set_max">>
BigType(bv) == CASE bv = "list_elem" -> TyList(TBlob) [] bv = "map_elem" -> TyMap(TInt, TBlob)
                 [] bv = "list_count" -> TyList(TInt) [] bv = "set_max" -> TySet(TBlob)
BigPlan(bv) == [kind |-> CASE bv \in {"list_elem", "set_max"} -> "list_blob" [] bv = "map_elem" -> "map_int_blob" [] bv = "list_count" -> "list_int",
                elems |-> <<>>]
BigCell(v, bv, r) ==
  CASE bv = "list_elem" -> IF r = 1 THEN CListBlob(v, <<<<1, 2, 3>>, BigBlob(40000, 65), <<9, 9>>>>) ELSE CListBlob(v, <<<<7>>, <<>>>>)
    [] bv = "map_elem" -> IF r = 1 THEN CMapIntBlob(v, <<1, 2>>, <<BigBlob(32768, 70), <<5, 6>>>>) ELSE CMapIntBlob(v, <<3>>, <<<<8>>>>)
    [] bv = "list_count" -> IF r = 1 THEN CListIntBig(v, [j \in 1 .. 32768 |-> j - 5]) ELSE CListInt(v, <<4, 5>>)
    [] bv = "set_max" -> IF r = 1 THEN CListBlob(v, <<BigBlob(65535, 80)>>) ELSE CListBlob(v, <<BigBlob(32767, 90), <<1>>>>)
BigParams == {q \in [fam : {"BIG"}, v : 1 .. 4, bv : 1 .. 4, n : BOOLEAN] :
                /\ q.v >= 2 \/ ~q.n
                /\ Thorough \/ (q.v <= 2 /\ q.n = (q.v = 2)) \/ (q.v = 3 /\ q.bv = 1 /\ ~q.n)}
BigCase(q) ==
  LET bv == BigVariants[q.bv]
      types == <<BigType(bv), TInt>>
      rows == [r \in 1 .. 2 |-> <<BigCell(q.v, bv, r), CInt(100 + r)>>]
  IN Out(Env("RESULT_ROWS", q.v, 0, 1, 0, [meta |-> MkMeta(types, TRUE, FALSE, q.n), rows |-> rows]),
         TRUE, <<BigPlan(bv), [kind |-> "int", elems |-> <<>>]>>, PrepFor(q.v, types, TRUE))

\* ------------------------------------------------------------------ SCALAR: every scalar type with the boundary values of its encoding
\* (protocol section "data types": fixed-width two's complement integers, IEEE bit patterns, timestamp
\* = signed ms since the epoch, date = UNSIGNED days with 2^31 = 1970-01-01 (so pre-epoch days are
\* below 2^31), time = ns since midnight, uuid 16 bytes, inet 4|16 bytes, varint minimal two's
\* complement, decimal = [int] scale + varint, duration = three zig-zag vints).  r is the value in
\* the notation the harness prints Go values in: integers in decimal, floats as their bit pattern,
\* time.Time as ms since the epoch (tm:), uuid bytes (u:), text (t:), big numbers as printed (s:).
ScalarTab == <<
  [kind |-> "bigint", tid |-> 2, vmin |-> 1, vals |-> <<
      [b |-> <<0, 0, 0, 0, 0, 0, 0, 0>>, r |-> "0"],
      [b |-> <<0, 0, 0, 0, 0, 0, 0, 1>>, r |-> "1"],
      [b |-> <<255, 255, 255, 255, 255, 255, 255, 255>>, r |-> "-1"],
      [b |-> <<127, 255, 255, 255, 255, 255, 255, 255>>, r |-> "9223372036854775807"],
      [b |-> <<128, 0, 0, 0, 0, 0, 0, 0>>, r |-> "-9223372036854775808"],
      [b |-> <<0, 0, 0, 0, 128, 0, 0, 0>>, r |-> "2147483648"],
      [b |-> <<255, 255, 255, 255, 127, 255, 255, 255>>, r |-> "-2147483649"],
      [b |-> <<0, 0, 0, 0, 0, 0, 0, 255>>, r |-> "255"] >>],
  [kind |-> "bigint", tid |-> 5, vmin |-> 1, vals |-> <<
      [b |-> <<0, 0, 0, 0, 0, 0, 0, 0>>, r |-> "0"],
      [b |-> <<0, 0, 0, 0, 0, 0, 0, 1>>, r |-> "1"],
      [b |-> <<255, 255, 255, 255, 255, 255, 255, 255>>, r |-> "-1"],
      [b |-> <<127, 255, 255, 255, 255, 255, 255, 255>>, r |-> "9223372036854775807"],
      [b |-> <<128, 0, 0, 0, 0, 0, 0, 0>>, r |-> "-9223372036854775808"] >>],
  [kind |-> "smallint", tid |-> 19, vmin |-> 4, vals |-> <<
      [b |-> <<0, 0>>, r |-> "0"],
      [b |-> <<0, 1>>, r |-> "1"],
      [b |-> <<255, 255>>, r |-> "-1"],
      [b |-> <<127, 255>>, r |-> "32767"],
      [b |-> <<128, 0>>, r |-> "-32768"],
      [b |-> <<0, 255>>, r |-> "255"] >>],
  [kind |-> "tinyint", tid |-> 20, vmin |-> 4, vals |-> <<
      [b |-> <<0>>, r |-> "0"],
      [b |-> <<1>>, r |-> "1"],
      [b |-> <<255>>, r |-> "-1"],
      [b |-> <<127>>, r |-> "127"],
      [b |-> <<128>>, r |-> "-128"] >>],
  [kind |-> "float", tid |-> 8, vmin |-> 1, vals |-> <<
      [b |-> <<0, 0, 0, 0>>, r |-> "f32:0"],
      [b |-> <<128, 0, 0, 0>>, r |-> "f32:2147483648"],
      [b |-> <<63, 128, 0, 0>>, r |-> "f32:1065353216"],
      [b |-> <<127, 128, 0, 0>>, r |-> "f32:2139095040"],
      [b |-> <<255, 128, 0, 0>>, r |-> "f32:4286578688"],
      [b |-> <<127, 192, 0, 0>>, r |-> "f32:2143289344"],
      [b |-> <<0, 0, 0, 1>>, r |-> "f32:1"],
      [b |-> <<127, 127, 255, 255>>, r |-> "f32:2139095039"],
      [b |-> <<192, 73, 15, 219>>, r |-> "f32:3226013659"] >>],
  [kind |-> "double", tid |-> 7, vmin |-> 1, vals |-> <<
      [b |-> <<0, 0, 0, 0, 0, 0, 0, 0>>, r |-> "f64:0"],
      [b |-> <<128, 0, 0, 0, 0, 0, 0, 0>>, r |-> "f64:9223372036854775808"],
      [b |-> <<63, 240, 0, 0, 0, 0, 0, 0>>, r |-> "f64:4607182418800017408"],
      [b |-> <<127, 240, 0, 0, 0, 0, 0, 0>>, r |-> "f64:9218868437227405312"],
      [b |-> <<255, 240, 0, 0, 0, 0, 0, 0>>, r |-> "f64:18442240474082181120"],
      [b |-> <<127, 248, 0, 0, 0, 0, 0, 1>>, r |-> "f64:9221120237041090561"],
      [b |-> <<0, 0, 0, 0, 0, 0, 0, 1>>, r |-> "f64:1"],
      [b |-> <<127, 239, 255, 255, 255, 255, 255, 255>>, r |-> "f64:9218868437227405311"],
      [b |-> <<192, 9, 33, 251, 84, 68, 45, 24>>, r |-> "f64:13837628693406821656"] >>],
  [kind |-> "timestamp", tid |-> 11, vmin |-> 1, vals |-> <<
      [b |-> <<0, 0, 0, 0, 0, 0, 0, 0>>, r |-> "tm:0"],
      [b |-> <<255, 255, 255, 255, 255, 255, 255, 255>>, r |-> "tm:-1"],
      [b |-> <<0, 0, 0, 0, 0, 0, 0, 1>>, r |-> "tm:1"],
      [b |-> <<255, 255, 255, 255, 250, 217, 164, 0>>, r |-> "tm:-86400000"],
      [b |-> <<0, 0, 1, 139, 207, 229, 104, 123>>, r |-> "tm:1700000000123"],
      [b |-> <<255, 255, 253, 253, 174, 1, 220, 0>>, r |-> "tm:-2208988800000"],
      [b |-> <<0, 32, 0, 0, 0, 0, 0, 0>>, r |-> "tm:9007199254740992"],
      [b |-> <<255, 224, 0, 0, 0, 0, 0, 0>>, r |-> "tm:-9007199254740992"] >>],
  [kind |-> "date", tid |-> 17, vmin |-> 4, vals |-> <<
      [b |-> <<128, 0, 0, 0>>, r |-> "tm:0"],
      [b |-> <<127, 255, 255, 255>>, r |-> "tm:-86400000"],
      [b |-> <<128, 0, 0, 1>>, r |-> "tm:86400000"],
      [b |-> <<0, 0, 0, 0>>, r |-> "tm:-185542587187200000"],
      [b |-> <<255, 255, 255, 255>>, r |-> "tm:185542587100800000"],
      [b |-> <<127, 255, 156, 33>>, r |-> "tm:-2208988800000"],
      [b |-> <<127, 253, 215, 141>>, r |-> "tm:-12219292800000"],
      [b |-> <<128, 0, 74, 56>>, r |-> "tm:1641600000000"],
      [b |-> <<0, 0, 0, 1>>, r |-> "tm:-185542587100800000"],
      [b |-> <<127, 255, 254, 147>>, r |-> "tm:-31536000000"] >>],
  [kind |-> "time", tid |-> 18, vmin |-> 4, vals |-> <<
      [b |-> <<0, 0, 0, 0, 0, 0, 0, 0>>, r |-> "0"],
      [b |-> <<0, 0, 0, 0, 0, 0, 0, 1>>, r |-> "1"],
      [b |-> <<0, 0, 78, 148, 145, 78, 255, 255>>, r |-> "86399999999999"],
      [b |-> <<0, 0, 3, 70, 48, 184, 160, 0>>, r |-> "3600000000000"] >>],
  [kind |-> "uuid", tid |-> 12, vmin |-> 1, vals |-> <<
      [b |-> <<0, 0, 0, 0, 0, 0, 0, 0, 0, 0, 0, 0, 0, 0, 0, 0>>, r |-> "u:0,0,0,0,0,0,0,0,0,0,0,0,0,0,0,0"],
      [b |-> <<255, 255, 255, 255, 255, 255, 255, 255, 255, 255, 255, 255, 255, 255, 255, 255>>, r |-> "u:255,255,255,255,255,255,255,255,255,255,255,255,255,255,255,255"],
      [b |-> <<18, 52, 86, 120, 154, 188, 77, 239, 128, 1, 2, 3, 4, 5, 6, 7>>, r |-> "u:18,52,86,120,154,188,77,239,128,1,2,3,4,5,6,7"] >>],
  [kind |-> "uuid", tid |-> 15, vmin |-> 1, vals |-> <<
      [b |-> <<0, 0, 0, 0, 0, 0, 16, 0, 128, 0, 0, 0, 0, 0, 0, 0>>, r |-> "u:0,0,0,0,0,0,16,0,128,0,0,0,0,0,0,0"],
      [b |-> <<255, 255, 255, 255, 255, 255, 31, 255, 191, 255, 1, 2, 3, 4, 5, 6>>, r |-> "u:255,255,255,255,255,255,31,255,191,255,1,2,3,4,5,6"] >>],
  [kind |-> "inet", tid |-> 16, vmin |-> 1, vals |-> <<
      [b |-> <<10, 0, 0, 1>>, r |-> "t:49,48,46,48,46,48,46,49"],
      [b |-> <<255, 255, 255, 255>>, r |-> "t:50,53,53,46,50,53,53,46,50,53,53,46,50,53,53"],
      [b |-> <<32, 1, 13, 184, 0, 0, 0, 0, 0, 0, 0, 0, 0, 0, 0, 1>>, r |-> "t:50,48,48,49,58,100,98,56,58,58,49"],
      [b |-> <<0, 0, 0, 0, 0, 0, 0, 0, 0, 0, 0, 0, 0, 0, 0, 1>>, r |-> "t:58,58,49"] >>],
  [kind |-> "varint", tid |-> 14, vmin |-> 1, vals |-> <<
      [b |-> <<0>>, r |-> "s:0"],
      [b |-> <<1>>, r |-> "s:1"],
      [b |-> <<255>>, r |-> "s:-1"],
      [b |-> <<127>>, r |-> "s:127"],
      [b |-> <<0, 128>>, r |-> "s:128"],
      [b |-> <<128>>, r |-> "s:-128"],
      [b |-> <<255, 127>>, r |-> "s:-129"],
      [b |-> <<0, 128, 0, 0, 0, 0, 0, 0, 0>>, r |-> "s:9223372036854775808"],
      [b |-> <<255, 127, 255, 255, 255, 255, 255, 255, 255>>, r |-> "s:-9223372036854775809"],
      [b |-> <<1, 0, 0, 0, 0, 0, 0, 0, 0>>, r |-> "s:18446744073709551616"],
      [b |-> <<12, 159, 44, 156, 208, 70, 116, 237, 234, 64, 0, 0, 0>>, r |-> "s:1000000000000000000000000000000"] >>],
  [kind |-> "decimal", tid |-> 6, vmin |-> 1, vals |-> <<
      [b |-> <<0, 0, 0, 0, 0>>, r |-> "s:0"],
      [b |-> <<0, 0, 0, 2, 123>>, r |-> "s:1.23"],
      [b |-> <<0, 0, 0, 0, 255>>, r |-> "s:-1"],
      [b |-> <<0, 0, 0, 3, 0, 128, 0, 0, 0, 0, 0, 0, 0>>, r |-> "s:9223372036854775.808"],
      [b |-> <<0, 0, 0, 1, 255, 127>>, r |-> "s:-12.9"],
      [b |-> <<0, 0, 0, 5, 5>>, r |-> "s:0.00005"] >>],
  [kind |-> "duration", tid |-> 21, vmin |-> 5, vals |-> <<
      [b |-> <<0, 0, 0>>, r |-> "dur:0/0/0"],
      [b |-> <<2, 4, 6>>, r |-> "dur:1/2/3"],
      [b |-> <<1, 1, 1>>, r |-> "dur:-1/-1/-1"],
      [b |-> <<128, 128, 0, 2>>, r |-> "dur:64/0/1"] >>] >>

ScalarParams == {q \in [fam : {"SCALAR"}, v : 1 .. 5, e : 1 .. Len(ScalarTab), n : BOOLEAN] :
                   /\ q.v >= ScalarTab[q.e].vmin /\ (q.v >= 2 \/ ~q.n)
                   /\ Thorough \/ q.n = ((q.v + q.e) % 2 = 0)}
ScalarCase(q) ==
  LET e == ScalarTab[q.e]
      types == <<Ty(e.tid), TInt>>
      rows == [r \in 1 .. Len(e.vals) |-> <<Cell(FALSE, e.vals[r].b, e.vals[r].r, e.vals[r].r, <<>>), CInt(r)>>]
  IN Out(Env("RESULT_ROWS", q.v, 0, 1, 0, [meta |-> MkMeta(types, TRUE, FALSE, q.n), rows |-> rows]),
         TRUE, <<[kind |-> e.kind, elems |-> <<>>], [kind |-> "int", elems |-> <<>>]>>, PrepFor(q.v, types, TRUE))

\* ------------------------------------------------------------------ PREPARED
ReqTypes(v) == << <<>>, <<TInt>>, <<TInt, TText>>, <<TyList(TText), TMy>> >> \o
               (IF v >= 3 THEN << <<TTup>>, <<Udt(<<S_f1, S_f2>>, <<TInt, TTup>>), TInt>> >> ELSE <<>>)
ResTypes(v) == ReqTypes(v)
PkPool == << <<>>, <<0>>, <<1, 0>> >>
IdPool == << TraceId, <<9>>, <<>> >>
PrepParams ==
  {q \in [fam : {"PREP"}, v : 1 .. 5, id : 1 .. 3, rq : 1 .. 6, rg : BOOLEAN, pk : 1 .. 3, rs : 0 .. 6, sg : BOOLEAN, hf : {0, 1, 7, 6}] :
     /\ q.rq <= Len(ReqTypes(q.v)) /\ q.rs <= Len(ResTypes(q.v)) /\ q.hf \in HFs(q.v)
     /\ q.v >= 4 \/ q.pk = 1
     /\ \A i \in 1 .. Len(PkPool[q.pk]) : PkPool[q.pk][i] < Len(ReqTypes(q.v)[q.rq])
     /\ q.v >= 2 \/ (q.rs = 0 /\ ~q.sg)                  \* v1 has no result metadata
     /\ q.rs = 0 => ~q.sg
     /\ Thorough \/ (q.id = ((q.rq + q.rs) % 3) + 1 /\ (q.v < 4 \/ q.hf = <<0, 1, 7, 6>>[((q.rq + q.rs + q.pk) % 4) + 1])) }
PrepCase(q) ==
  LET req == MkMeta(ReqTypes(q.v)[q.rq], q.rg, FALSE, FALSE)
      \* rs = 0: a statement that returns no rows: no_metadata flag, no columns
      res == IF q.rs = 0 THEN MkMeta(<<>>, FALSE, FALSE, TRUE) ELSE MkMeta(ResTypes(q.v)[q.rs], q.sg, FALSE, FALSE)
  IN Out(Env("RESULT_PREPARED", q.v, q.hf, Streams(q.v)[(q.rq % 3) + 1], q.rq + q.pk,
             [id |-> IdPool[q.id], pk |-> PkPool[q.pk], req |-> req, res |-> res]), FALSE, NoPlan, <<>>)

\* ------------------------------------------------------------------ BFS generator
Families == <<"SIMPLE", "ERROR", "SCHEMA", "EVENT", "TYPES", "ROWS", "PREP">>
Init == \/ p \in SimpleParams \/ p \in ErrParams \/ p \in SchemaParams \/ p \in EventParams
        \/ p \in TypeParams \/ p \in RowsParams \/ p \in PrepParams \/ p \in MultiParams \/ p \in UdtParams \/ p \in BigParams \/ p \in ScalarParams
Next == UNCHANGED p
Case(q) == CASE q.fam = "SIMPLE" -> SimpleCase(q) [] q.fam = "ERROR" -> ErrCase(q) [] q.fam = "SCHEMA" -> SchemaCase(q)
             [] q.fam = "EVENT" -> EventCase(q) [] q.fam = "TYPES" -> TypeCase(q) [] q.fam = "ROWS" -> RowsCase(q)
             [] q.fam = "PREP" -> PrepCase(q) [] q.fam = "MULTI" -> MultiCase(q) [] q.fam = "UDT" -> UdtCase(q) [] q.fam = "BIG" -> BigCase(q) [] q.fam = "SCALAR" -> ScalarCase(q)
Emit == PrintT("CASE " \o ToJson([fam |-> p.fam] @@ Case(p)))

\* ------------------------------------------------------------------ -simulate: random deeper trees
\* state: [fam, v, g, m, n, types (1..3 column types), k (a counter that varies the cells)]
Leaf(i) == <<TInt, TText, TBlob, TMy, Ty(12), TBool, Ty(2), TyCustom(S_marshal_Int32Type)>>[i]
Wrap(op, t, lf) ==
  CASE op = 1 -> TyList(t) [] op = 2 -> TySet(t) [] op = 3 -> TyMap(lf, t) [] op = 4 -> TyMap(t, lf)
    [] op = 5 -> TyTuple(<<t>>) [] op = 6 -> TyTuple(<<lf, t>>) [] op = 7 -> TyTuple(<<t, lf, t>>)
    [] op = 8 -> Udt(<<S_f1>>, <<t>>) [] op = 9 -> Udt(<<S_f1, S_f2>>, <<lf, t>>) [] op = 10 -> TyTuple(<<t, TyTuple(<<>>)>>)
InitSim == p \in [fam : {"DEEP"}, v : 3 .. 5, g : BOOLEAN, m : BOOLEAN, n : {FALSE}, types : {<<TInt>>, <<TText, TMy>>}, k : {0}]
NextSim ==
  \/ \E i \in 1 .. Len(p.types), op \in 1 .. 10, lf \in 1 .. 8 :
       p' = [p EXCEPT !.types[i] = Wrap(op, @, Leaf(lf)), !.k = (@ + op + lf) % 7]
  \/ \E lf \in 1 .. 8 : Len(p.types) < 3 /\ p' = [p EXCEPT !.types = Append(@, Leaf(lf)), !.k = (@ + 1) % 7]
  \/ p' = [p EXCEPT !.n = ~@]
  \/ p' = [p EXCEPT !.g = ~@]
DeepCase(q) ==
  LET rows == [r \in 1 .. (q.k % 3) |-> [c \in 1 .. Len(q.types) |-> OpaqueCellFor(q.types[c], q.k + r + c)]]
  IN Out(Env("RESULT_ROWS", q.v, IF q.v >= 4 THEN <<0, 1, 2, 4, 7, 6, 3>>[q.k + 1] ELSE 0, 5, q.k,
             [meta |-> MkMeta(q.types, q.g, q.m, q.n), rows |-> rows]),
         FALSE, Map(q.types, RawPlanFor), PrepFor(q.v, q.types, q.g))
EmitSim == PrintT("CASE " \o ToJson([fam |-> p.fam] @@ DeepCase(p)))
=============================================================================
