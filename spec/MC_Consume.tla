----------------------------- MODULE MC_Consume -----------------------------
(* Model-checking and edge-dump wrapper for Consume.tla (X02).              *)
EXTENDS Consume, Json, TLCExt

\* every transition of the abstract machine: source state, call, demanded result, successor state and the
\* demanded getter values of the successor (graph walk replayed on the real code)
EmitEdge ==
  PrintT(<<"EDGE", ToJson([from |-> S, call |-> last'.call, ret |-> last'.ret, to |-> S', proj |-> Proj(S')])>>)
EmitInit == PrintT(<<"INIT", ToJson(S)>>)
InitMark == (S.mode = "fresh" => EmitInit)

=============================================================================
