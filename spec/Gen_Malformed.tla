---------------------------- MODULE Gen_Malformed ----------------------------
(***************************************************************************)
(* Property C05, input family 1 (and 3): structure-aware malformation of   *)
(* the well-formed response frames of the C04 family.                      *)
(*                                                                         *)
(* WireResp.tla (the reference encoder, bound to the code by C04) yields   *)
(* the bytes of a logical response but not where its fields are.  This     *)
(* module contains a thin ANNOTATED variant of that encoder: `AFrame(l)`   *)
(* is the frame as a sequence of segments [k, f, b, n] - kind (raw | len | *)
(* cnt | code | flags | name), a field label, the bytes, and the logical   *)
(* value of a length / count / code field.  For every base case TLC checks *)
(* Bytes(AFrame(l)) = Frame(l) (Assert in MkBase), so the annotated        *)
(* variant cannot drift from WireResp.tla.                                 *)
(*                                                                         *)
(* States: depth 1 = one state per well-formed base frame (bytes + field   *)
(* table), depth 2 = ONE STATE PER CASE: the base frame itself             *)
(* ("wellformed", calibrates the allocation bound), every truncation       *)
(* offset (of the byte stream, and of the body with the header's length    *)
(* field following), every length / count field replaced by -1, 0, n-1,    *)
(* n+1, 2^15, 2^21, 2^31-1, every code (version, opcode, result kind,      *)
(* error code, type id, consistency) replaced by out-of-range values and   *)
(* by the other valid ones, every enumeration string (event type, change,  *)
(* schema target) made unknown, header / metadata flag bits toggled (flags *)
(* that announce absent prefixes, compression without a compressor), the   *)
(* header's body length larger / smaller than the body.                    *)
(*                                                                         *)
(* The oracle is observational (spec/Trace_Malformed.tla): the allowed     *)
(* results are {error, value, closed}; "crash" is not in the relation.     *)
(***************************************************************************)
EXTENDS Gen_WireResp

CONSTANTS Tier,      \* "quick" | "thorough"
          Part       \* 0 = everything selected by the tier; 1..5 = only protocol version Part

\* ------------------------------------------------------------------ annotated segments
Seg(k, f, b, n) == [k |-> k, f |-> f, b |-> b, n |-> n]
SgR(f, b) == IF Len(b) = 0 THEN <<>> ELSE <<Seg("raw", f, b, 0)>>
SgL1(f, n) == <<Seg("len", f, <<n % 256>>, n)>>
SgL2(f, n) == <<Seg("len", f, Short(n), n)>>
SgL4(f, n) == <<Seg("len", f, Int32(n), n)>>
SgC2(f, n) == <<Seg("cnt", f, Short(n), n)>>
SgC4(f, n) == <<Seg("cnt", f, Int32(n), n)>>
SgK1(f, n) == <<Seg("code", f, <<n % 256>>, n)>>
SgK2(f, n) == <<Seg("code", f, Short(n), n)>>
SgK4(f, n) == <<Seg("code", f, Int32(n), n)>>
SgF1(f, n) == <<Seg("flags", f, <<n % 256>>, n)>>
SgF4(f, n) == <<Seg("flags", f, Int32(n), n)>>

AString(f, s) == SgL2(f \o ".len", Len(s)) \o SgR(f, s)
\* a [string] whose content is one of an enumeration the protocol defines
AName(f, s) == SgL2(f \o ".len", Len(s)) \o (IF Len(s) = 0 THEN <<>> ELSE <<Seg("name", f, s, 0)>>)
AStringList(f, l) == SgC2(f \o ".count", Len(l)) \o Flat([i \in 1 .. Len(l) |-> AString(f \o ".item", l[i])])
ABytes(f, o) == IF o.null THEN SgL4(f \o ".len", -1) ELSE SgL4(f \o ".len", Len(o.b)) \o SgR(f, o.b)
AShortBytes(f, b) == SgL2(f \o ".len", Len(b)) \o SgR(f, b)
AMultiEntry(e) == AString("multimap.key", e.k) \o AStringList("multimap.values", e.vals)
AStringMultimap(m) == SgC2("multimap.count", Len(m)) \o Flat(Map(m, AMultiEntry))
ABytesEntry(e) == AString("payload.key", e.k) \o ABytes("payload.value", e)
ABytesMap(m) == SgC2("payload.count", Len(m)) \o Flat(Map(m, ABytesEntry))
AInetAddr(a) == SgL1("inet.size", Len(a)) \o SgR("inet.addr", a)
AInet(a, port) == AInetAddr(a) \o SgR("inet.port", Int32(port))

RECURSIVE AType(_)
AType(t) ==
  SgK2("type.id", t.id) \o
  CASE t.id = T_Custom -> AString("type.custom", t.custom)
    [] t.id \in {T_List, T_Set} -> AType(t.args[1])
    [] t.id = T_Map -> AType(t.args[1]) \o AType(t.args[2])
    [] t.id = T_UDT -> AString("type.udt.ks", t.ks) \o AString("type.udt.name", t.name) \o SgC2("type.udt.count", Len(t.args)) \o
                       Flat([i \in 1 .. Len(t.args) |-> AString("type.udt.field", t.fnames[i]) \o AType(t.args[i])])
    [] t.id = T_Tuple -> SgC2("type.tuple.count", Len(t.args)) \o Flat([i \in 1 .. Len(t.args) |-> AType(t.args[i])])
    [] OTHER -> <<>>

AColSpec(c, global) == (IF global THEN <<>> ELSE AString("col.ks", c.ks) \o AString("col.table", c.table)) \o
                       AString("col.name", c.name) \o AType(c.type)
AColSpecs(m) ==
  IF m.nometa THEN <<>>
  ELSE (IF m.global THEN AString("meta.gks", m.gks) \o AString("meta.gtable", m.gtable) ELSE <<>>) \o
       Flat([i \in 1 .. Len(m.cols) |-> AColSpec(m.cols[i], m.global)])
ARowsMeta(pfx, m) == SgF4(pfx \o ".flags", MFlags(m)) \o SgC4(pfx \o ".colcount", Len(m.cols)) \o
                     (IF m.more THEN ABytes(pfx \o ".paging", Some(m.paging)) ELSE <<>>) \o AColSpecs(m)
APrepMeta(v, m, pk) ==
  SgF4("prepmeta.flags", MFlags(m)) \o SgC4("prepmeta.colcount", Len(m.cols)) \o
  (IF v >= 4 THEN SgC4("prepmeta.pkcount", Len(pk)) \o Flat([i \in 1 .. Len(pk) |-> SgR("prepmeta.pkindex", Short(pk[i]))]) ELSE <<>>) \o
  AColSpecs(m)
ARow(r) == Flat([i \in 1 .. Len(r) |-> ABytes("rows.cell", r[i])])
ARowsBody(b) == ARowsMeta("rowsmeta", b.meta) \o SgC4("rows.rowcount", Len(b.rows)) \o Flat(Map(b.rows, ARow))
APreparedBody(v, b) == AShortBytes("prepared.id", b.id) \o APrepMeta(v, b.req, b.pk) \o
                       (IF v >= 2 THEN ARowsMeta("resmeta", b.res) ELSE <<>>)

AReason(r) == AInetAddr(r.addr) \o SgR("error.reason.code", Short(r.code))
AReasonMap(rm) == SgC4("error.reasonmap.count", Len(rm)) \o Flat(Map(rm, AReason))
AClN(e) == SgK2("error.cl", e.cl) \o SgR("error.n", Int32(e.n1) \o Int32(e.n2))
AErrRest(v, e) ==
  CASE e.code = 4096 -> AClN(e)
    [] e.code = 4352 -> AClN(e) \o AString("error.writetype", e.s1)
    [] e.code = 4608 -> AClN(e) \o SgR("error.flag", <<e.flag>>)
    [] e.code = 4864 -> AClN(e) \o (IF v >= 5 THEN AReasonMap(e.rmap) ELSE SgR("error.numfailures", Int32(e.n3))) \o SgR("error.flag", <<e.flag>>)
    [] e.code = 5120 -> AString("error.ks", e.s1) \o AString("error.function", e.s2) \o AStringList("error.argtypes", e.list)
    [] e.code = 5376 -> AClN(e) \o (IF v >= 5 THEN AReasonMap(e.rmap) ELSE SgR("error.numfailures", Int32(e.n3))) \o AString("error.writetype", e.s1)
    [] e.code = 5632 -> <<>>
    [] e.code = 5888 -> AClN(e)
    [] e.code = 9216 -> AString("error.ks", e.s1) \o AString("error.table", e.s2)
    [] e.code = 9472 -> AShortBytes("error.unprepared.id", e.id)
    [] OTHER -> <<>>
AErrBody(v, e) == SgK4("error.code", e.code) \o AString("error.msg", e.msg) \o AErrRest(v, e)

TargetStr(tg) == CASE tg = "KEYSPACE" -> S_KEYSPACE [] tg = "TABLE" -> S_TABLE [] tg = "TYPE" -> S_TYPE
                   [] tg = "FUNCTION" -> S_FUNCTION [] tg = "AGGREGATE" -> S_AGGREGATE
ASchemaBody(v, s) ==
  IF v <= 2 THEN AName("schema.change", s.change) \o AString("schema.ks", s.ks) \o
                 AString("schema.table", IF s.target = "KEYSPACE" THEN <<>> ELSE s.name)
  ELSE AName("schema.change", s.change) \o AName("schema.target", TargetStr(s.target)) \o AString("schema.ks", s.ks) \o
       CASE s.target = "KEYSPACE" -> <<>>
         [] s.target \in {"TABLE", "TYPE"} -> AString("schema.name", s.name)
         [] s.target \in {"FUNCTION", "AGGREGATE"} -> AString("schema.name", s.name) \o AStringList("schema.args", s.args)

ABody(l) ==
  LET b == l.b IN
  CASE l.kind = "READY" -> <<>>
    [] l.kind = "AUTHENTICATE" -> AString("authenticate.class", b.class)
    [] l.kind \in {"AUTH_CHALLENGE", "AUTH_SUCCESS"} -> ABytes("auth.token", b)
    [] l.kind = "SUPPORTED" -> AStringMultimap(b.opts)
    [] l.kind = "ERROR" -> AErrBody(l.v, b)
    [] l.kind = "RESULT_VOID" -> SgK4("result.kind", 1)
    [] l.kind = "RESULT_ROWS" -> SgK4("result.kind", 2) \o ARowsBody(b)
    [] l.kind = "RESULT_KEYSPACE" -> SgK4("result.kind", 3) \o AString("keyspace.name", b.ks)
    [] l.kind = "RESULT_PREPARED" -> SgK4("result.kind", 4) \o APreparedBody(l.v, b)
    [] l.kind = "RESULT_SCHEMA" -> SgK4("result.kind", 5) \o ASchemaBody(l.v, b)
    [] l.kind = "EVENT_TOPOLOGY" -> AName("event.type", S_TOPOLOGY_CHANGE) \o AName("event.change", b.change) \o AInet(b.addr, b.port)
    [] l.kind = "EVENT_STATUS" -> AName("event.type", S_STATUS_CHANGE) \o AName("event.change", b.change) \o AInet(b.addr, b.port)
    [] l.kind = "EVENT_SCHEMA" -> AName("event.type", S_SCHEMA_CHANGE) \o ASchemaBody(l.v, b)

APrefix(l) == (IF l.tracing THEN SgR("prefix.traceid", l.traceid) ELSE <<>>) \o
              (IF l.warn THEN AStringList("prefix.warnings", l.warnings) ELSE <<>>) \o
              (IF l.pay THEN ABytesMap(l.payload) ELSE <<>>)

Bytes(segs) == Flat([i \in 1 .. Len(segs) |-> segs[i].b])
AHeader(v, flags, stream, op, len) ==
  SgK1("header.version", 128 + v) \o SgF1("header.flags", flags) \o
  SgR("header.stream", IF v >= 3 THEN Short(stream) ELSE <<stream % 256>>) \o SgK1("header.opcode", op) \o SgL4("header.length", len)
AFrame(l) == LET body == APrefix(l) \o ABody(l)
             IN AHeader(l.v, HFlags(l), l.stream, Opcode(l.kind), Len(Bytes(body))) \o body

\* ------------------------------------------------------------------ the field table of a frame
RECURSIVE FieldsFrom(_, _, _)
FieldsFrom(segs, i, off) ==
  IF i > Len(segs) THEN <<>>
  ELSE (IF segs[i].k = "raw" THEN <<>>
        ELSE <<[k |-> segs[i].k, f |-> segs[i].f, off |-> off, w |-> Len(segs[i].b), n |-> segs[i].n]>>)
       \o FieldsFrom(segs, i + 1, off + Len(segs[i].b))

\* ------------------------------------------------------------------ the base set
\* quick: a boundary subset - every response kind (every error code, schema target, event type)
\* in every protocol version that has it, each flag-announced prefix, a few rows / prepared shapes;
\* thorough: the whole systematic C04 family (Gen_WireResp with Thorough = FALSE).
QuickTypeIdx(v) == IF v >= 3 THEN {9, 16, 21, 22, 26, 30, 45, 54, 60, 66, 70} ELSE {9, 16, 21, 22, 26, 30}
PickQuick(q) ==
  CASE q.fam = "SIMPLE" -> q.hf = 0 \/ (q.hf = 7 /\ q.i \in {1, 5, 7})
    [] q.fam = "ERROR" -> q.k = 1 /\ q.hf = 0 /\ (q.v \in {2, 4, 5} \/ q.code \in {0, 4096, 9472})
    [] q.fam = "SCHEMA" -> q.ch = 1 /\ q.hf = 0 /\ q.ar \in {1, 3}
    [] q.fam = "EVENT" -> q.a = 1 \/ (q.a = 3 /\ q.i = 1)
    [] q.fam = "TYPES" -> q.v \in {2, 4} /\ q.g /\ q.t \in QuickTypeIdx(q.v)
    [] q.fam = "ROWS" -> /\ q.v \in {1, 2, 4} /\ q.cs \in {1, 2, 5, 8, 9, 15} /\ q.nr \in {0, 2}
                         /\ q.g = (q.cs % 2 = 0) /\ q.m = (q.cs = 8) /\ ~q.n
    [] q.fam = "PREP" -> /\ q.v \in {1, 2, 4, 5} /\ q.rq \in {1, 3, 6} /\ q.rs \in {0, 2} /\ q.rg /\ ~q.sg
                         /\ (q.pk = 1 \/ q.rq = 3)
Selected(q) == (Part = 0 \/ q.v = Part) /\ (Tier = "thorough" \/ PickQuick(q))

VOne(l) == l.v
ErrCodeOf(l) == IF l.kind = "ERROR" THEN l.b.code ELSE 0
NCols(l) == IF l.kind = "RESULT_ROWS" THEN Len(l.b.meta.cols) ELSE -1

Blank == [t |-> "", fam |-> "", kind |-> "", v |-> 0, code |-> 0, ncols |-> -1, stream |-> FALSE, mk |-> "", f |-> "", off |-> 0, val |-> 0,
          bytes |-> <<>>, hs |-> 0, fields |-> <<>>]
MkBase(q) ==
  LET l == Case(q).logical
      segs == AFrame(l)
      bytes == Bytes(segs)
  IN IF Assert(bytes = Frame(l), <<"annotated encoder disagrees with WireResp.Frame for", q>>)
     THEN [Blank EXCEPT !.t = "base", !.fam = q.fam, !.kind = l.kind, !.v = l.v, !.code = ErrCodeOf(l), !.ncols = NCols(l),
                        \* truncations of the byte stream itself only on the boundary subset
                        !.stream = PickQuick(q),
                        !.bytes = bytes, !.hs = IF l.v >= 3 THEN 9 ELSE 8, !.fields = FieldsFrom(segs, 1, 0)]
     ELSE Blank

\* ------------------------------------------------------------------ mutations
Enc(w, val) == CASE w = 1 -> <<val % 256>> [] w = 2 -> Short(val) [] w = 4 -> Int32(val)
Replace(bytes, off, w, nb) == SubSeq(bytes, 1, off) \o nb \o SubSeq(bytes, off + w + 1, Len(bytes))
Toggle(n, bit) == IF (n \div bit) % 2 = 1 THEN n - bit ELSE n + bit
MaxFrame == 268435456   \* 256 MiB, the protocol's frame size limit

\* big: the frame is one of the few on which the header may announce a body of megabytes that
\* never comes (the driver allocates the announced size before reading; the kind of body is
\* irrelevant to that and zeroing 256 MiB per case is slow)
\* huge: 2^31-1 in a COUNT field ends the child process wherever the driver allocates by it; every
\* count field of every base frame gets 2^21 (measured, no death), 2^31-1 those of the boundary subset
LenVals(fd, big, huge) ==
  LET n == fd.n IN
  (CASE fd.w = 4 -> IF fd.f = "header.length"
                    THEN {-1, 0, n - 1, n + 1, n + 100, 32768, MaxFrame + 1, 2147483647} \cup (IF big THEN {2097152, MaxFrame} ELSE {})
                    ELSE {-1, 0, n - 1, n + 1, 32768, 2097152} \cup (IF huge \/ fd.k = "len" THEN {2147483647} ELSE {})
     [] fd.w = 2 -> {65535, 0, n - 1, n + 1, 32768, 32767} \cap (0 .. 65535)
     [] fd.w = 1 -> {0, n - 1, n + 1, 4, 16, 255} \cap (0 .. 255)) \ {n}
CodeVals(fd, thorough) ==
  LET n == fd.n IN
  (CASE fd.f = "header.version" -> {128, 134, 255, 0, n - 128} \cup 129 .. 133
     [] fd.f = "header.opcode" -> 0 .. 17 \cup {127, 255}
     [] fd.f = "result.kind" -> {-1, 0, 1, 2, 3, 4, 5, 6, 2147483647}
     [] fd.f = "error.code" -> {1, 4100, 9728, -1, 2147483647} \cup (IF thorough THEN AllErrCodes ELSE {0, 4096, 4864, 5376, 9472})
     [] fd.f = "type.id" -> {0, 23, 31, 32, 33, 34, 35, 47, 48, 49, 50, 65535} \cup (IF thorough THEN 1 .. 22 ELSE {9, 13})
     [] fd.f = "error.cl" -> {11, 65535}
     [] OTHER -> {}) \ {n}
FlagVals(fd) ==
  IF fd.w = 1 THEN ({Toggle(fd.n, b) : b \in {1, 2, 4, 8, 16, 128}} \cup {255, 14, 15}) \ {fd.n}
  ELSE ({Toggle(fd.n, b) : b \in {1, 2, 4, 8}} \cup {-1}) \ {fd.n}

\* m = [mk, f, off, val]: the label of a case
FieldMuts(s, thorough) ==
  UNION {LET fd == s.fields[i] IN
         CASE fd.k \in {"len", "cnt"} -> {[mk |-> fd.k, f |-> fd.f, off |-> fd.off, w |-> fd.w, val |-> x] : x \in LenVals(fd, s.kind \in {"READY", "SUPPORTED"}, s.stream)}
           [] fd.k = "code" -> {[mk |-> "code", f |-> fd.f, off |-> fd.off, w |-> fd.w, val |-> x] : x \in CodeVals(fd, thorough)}
           [] fd.k = "flags" -> {[mk |-> "flags", f |-> fd.f, off |-> fd.off, w |-> fd.w, val |-> x] : x \in FlagVals(fd)}
           [] fd.k = "name" -> {[mk |-> "name", f |-> fd.f, off |-> fd.off, w |-> 1, val |-> 88]}
         : i \in 1 .. Len(s.fields)}
LengthField(s) == CHOOSE i \in 1 .. Len(s.fields) : s.fields[i].f = "header.length"
ApplyField(s, m) == [s EXCEPT !.t = "case", !.mk = m.mk, !.f = m.f, !.off = m.off, !.val = m.val, !.fields = <<>>,
                              !.bytes = Replace(s.bytes, m.off, m.w, Enc(m.w, m.val))]
\* the byte stream ends after t bytes (the header still announces the whole body)
TruncStream(s, t) == [s EXCEPT !.t = "case", !.mk = "trunc-stream", !.f = "", !.off = t, !.val = 0, !.fields = <<>>,
                               !.bytes = SubSeq(s.bytes, 1, t)]
\* the body ends after t bytes of the frame and the header says so: a fully received body
\* shorter than its own content claims
TruncBody(s, t) ==
  LET lf == s.fields[LengthField(s)]
  IN [s EXCEPT !.t = "case", !.mk = "trunc-body", !.f = "", !.off = t, !.val = 0, !.fields = <<>>,
               !.bytes = Replace(SubSeq(s.bytes, 1, t), lf.off, 4, Int32(t - s.hs))]
WellFormed(s) == [s EXCEPT !.t = "case", !.mk = "wellformed", !.fields = <<>>]

\* ------------------------------------------------------------------ nested type descriptors
\* A column type that nests d constructors and then ends: every tuple / UDT level announces 65535
\* elements ([short], so no single count is "huge") of which only the first is present.
BombUnit(k) == CASE k = "tuple" -> Short(49) \o Short(65535)
                 [] k = "udt" -> Short(48) \o Short(0) \o Short(0) \o Short(65535) \o Short(0)
                 [] k = "list" -> Short(32)
                 [] k = "map" -> Short(33) \o Short(9)
RECURSIVE Rep(_, _)
Rep(u, d) == IF d = 0 THEN <<>> ELSE u \o Rep(u, d - 1)
BombFrame(k, d) ==
  LET b == Int32(2) \o Int32(0) \o Int32(1) \o WString(S_ks1) \o WString(S_t1) \o WString(S_a) \o Rep(BombUnit(k), d)
  IN Header(4, 0, 1, 8, Len(b)) \o b
BombDepths == IF Tier = "thorough" THEN {1, 4, 16, 64, 256, 1024} ELSE {1, 16, 128}
BombCase(k, d) == [Blank EXCEPT !.t = "case", !.fam = "TYPENEST", !.kind = "RESULT_ROWS", !.v = 4, !.ncols = 1, !.mk = "nest-" \o k,
                                !.f = "type.nesting", !.val = d, !.bytes = BombFrame(k, d)]

\* (one disjunct per family: the parameter records of different families have different shapes)
MInit == \/ \E q \in SimpleParams : Selected(q) /\ p = MkBase(q)
         \/ \E q \in ErrParams : Selected(q) /\ p = MkBase(q)
         \/ \E q \in SchemaParams : Selected(q) /\ p = MkBase(q)
         \/ \E q \in EventParams : Selected(q) /\ p = MkBase(q)
         \/ \E q \in TypeParams : Selected(q) /\ p = MkBase(q)
         \/ \E q \in RowsParams : Selected(q) /\ p = MkBase(q)
         \/ \E q \in PrepParams : Selected(q) /\ p = MkBase(q)
         \/ \E k \in {"tuple", "udt", "list", "map"}, d \in BombDepths : Part \in {0, 4} /\ p = BombCase(k, d)
MNext ==
  /\ p.t = "base"
  /\ \/ p' = WellFormed(p)
     \/ \E m \in FieldMuts(p, Tier = "thorough") : p' = ApplyField(p, m)
     \/ \E t \in p.hs .. Len(p.bytes) - 1 : p' = TruncBody(p, t)
     \/ \E t \in 0 .. Len(p.bytes) - 1 : p.stream /\ p' = TruncStream(p, t)

\* ------------------------------------------------------------------ -simulate: seeded random damage ("arbitrary mutations and random bytes")
\* one walk = one base frame and one random case: a byte overwritten, two bytes overwritten, the
\* same with the body cut at a random offset, or the whole body replaced by random bytes (the
\* header keeps version and opcode and announces the new length)
RandBytes(n) == [i \in 1 .. n |-> RandomElement(0 .. 255)]
RandCase(s) ==
  LET L == Len(s.bytes)
      o1 == RandomElement(0 .. L - 1)
      o2 == RandomElement(0 .. L - 1)
      b1 == RandomElement(0 .. 255)
      b2 == RandomElement({0, 1, 127, 128, 254, 255})
      mode == RandomElement(1 .. 4)
      one == Replace(s.bytes, o1, 1, <<b1>>)
      two == Replace(one, o2, 1, <<b2>>)
      lf == s.fields[LengthField(s)]
      cut == RandomElement(s.hs .. L)
      n == RandomElement(0 .. 48)
      bytes == CASE mode = 1 -> one
                 [] mode = 2 -> two
                 [] mode = 3 -> Replace(SubSeq(two, 1, cut), lf.off, 4, Int32(cut - s.hs))
                 [] mode = 4 -> Replace(SubSeq(s.bytes, 1, s.hs), lf.off, 4, Int32(n)) \o RandBytes(n)
  IN [s EXCEPT !.t = "case", !.mk = "random", !.f = "", !.off = o1, !.val = mode, !.fields = <<>>, !.bytes = bytes]
MRandNext == p.t = "base" /\ p' = RandCase(p)

EmitCase ==
  p.t = "case" =>
    PrintT("CASE " \o ToJson([fam |-> p.fam, kind |-> p.kind, v |-> p.v, code |-> p.code, ncols |-> p.ncols,
                              mk |-> p.mk, f |-> p.f, off |-> p.off, val |-> p.val, bytes |-> p.bytes]))
=============================================================================
