SPECIFICATION Spec
CONSTANTS
  Threads = {t1, t2, t3}
  K = 2
  MaxCalls = 5
  MaxTick = 1
  Atomic = TRUE
INVARIANT Distinct
INVARIANT Counted
CHECK_DEADLOCK FALSE
