SPECIFICATION FairSpec
CONSTANTS
  MaxPages = 2
  MaxRows = 2
  Variant = "ok"
PROPERTY IterationEnds
CHECK_DEADLOCK FALSE
