-------------------------------- MODULE Conn --------------------------------
(***************************************************************************)
(* One connection of the driver (conn.go): requests multiplexed over       *)
(* stream ids, the receive loop, closeWithError run by whoever detects a   *)
(* failure, and the node at the other end of a FIFO byte pipe.             *)
(*                                                                         *)
(* One action per critical section / channel operation of the code:        *)
(*   exec:   Start, Alloc/NoStreams, AddCall, Build(ok|fail), UndoDel,     *)
(*           Write(ok | not started | failed), the four-way wait           *)
(*           (rendezvous / timer / context / connection), PostResp         *)
(*   recv:   RecvHeader (frame | read error), RecvLookup, RecvBody,        *)
(*           RecvDeliver / RecvAbandon / RecvDropOnCtx                     *)
(*   closeWithError (per thread): CloseBegin, CloseDeliver / CloseSkip,    *)
(*           CloseCancel, CloseSock                                        *)
(*   node:   SrvRecv, SrvAnswer (any order), SrvSilent, SrvClose,          *)
(*           SrvUnsolicited                                                *)
(*   heartBeat (conn.go:626): HBTick (timer), its OPTIONS request run by   *)
(*           the same exec actions as any caller's, HBEval (the answer     *)
(*           judged), HBGiveUp (too many failures / unknown answer: this   *)
(*           thread runs closeWithError), HBExit (connection context done) *)
(*   handleTimeout (conn.go:798): with TimeoutLimit > 0 the caller whose   *)
(*           timer fires past the limit runs closeWithError itself         *)
(* Properties: C01 (NoMisroute, NoReuseWhileOutstanding) and C06           *)
(* (OutcomeOnce, ReleaseOnce, NoLeak, Conservation, RequestEnds,           *)
(* CloseReturns, no deadlock).                                             *)
(***************************************************************************)
EXTENDS Integers, FiniteSets, Sequences, TLC

CONSTANTS Req,            \* request identifiers (callers)
          Sid,            \* usable stream ids
          HasTimer,       \* c.timeout > 0
          AllowCancel,    \* callers' contexts may be cancelled
          AllowBuildFail, \* buildFrame may fail
          AllowWriteFail, \* the socket write may fail (wholly or partially)
          AllowSrvClose,  \* the node may close the connection
          AllowSilent,    \* the node may never answer a request
          AllowExtClose,  \* Conn.Close() may be called from outside
          MaxUnsolicited, \* frames the node sends on streams nobody asked on
          MaxAnswers,     \* responses the node sends per request (1; 2 = duplicate answer)
          HBReq,          \* request identifiers the heartbeat uses (subset of Req; {} = no heartbeat)
          HBMaxFail,      \* consecutive heartbeat failures tolerated (5 in the code)
          TimeoutLimit,   \* the package variable TimeoutLimit (0 = timeouts never close the connection)
          Mut             \* "none", or the name of a deliberately wrong variant (self-test of the properties)

None == "none"
NoSid == 0          \* "no stream id" (Sid is a set of positive integers)
Closers == Req \cup {"rcv", "ext", "hb"}

VARIABLES
  inuse,      \* stream ids marked in use in the allocator
  calls,      \* [Sid -> Req \cup {None}]: c.calls (protected by c.mu)
  closed,     \* c.closed
  pc,         \* per request: where exec is
  sid,        \* per request: its stream id (None before allocation)
  toClosed,   \* per request: call.timeout closed
  resp,       \* per request: what exec received on call.resp: [kind, origin]
  out,        \* per request: final outcome [kind, origin]
  written,    \* per request: "no" | "partial" | "full"
  released,   \* per request: number of times its stream was released
  consumed,   \* per request: the receiver finished handling a response on its stream
  c2s,        \* frames in flight to the node: Seq([sid, req])
  pending,    \* requests the node has received and not yet dealt with
  answers,    \* per request: responses sent so far
  s2c,        \* responses in flight to the driver: Seq([sid, origin])
  unsol,      \* unsolicited frames sent so far
  srvClosed,  \* the node closed its end
  rpc,        \* receiver: "hdr" | "lookup" | "body" | "deliver" | "stopped"
  rhead,      \* receiver: header in hand [sid, origin]
  rcall,      \* receiver: call found by the lookup (a request) or None
  rerr,       \* receiver: body read error in hand ("none" | "other")
  cpc,        \* per closer thread: "none" | "begin" | "deliver" | "cancel" | "sock" | "done"
  cerr,       \* per closer thread: closing with an error?
  cq,         \* per closer thread: calls still to be notified
  connCtxDone,\* c.ctx cancelled
  sockClosed, \* c.conn closed
  hbpc,       \* heartbeat: "off" | "sleep" | "exec" | "giveup" | "closing" | "stopped"
  hbfail,     \* heartbeat: consecutive failures
  hbreq       \* heartbeat: the request it is running (None between beats)

vars == <<inuse, calls, closed, pc, sid, toClosed, resp, out, written, released, consumed,
          c2s, pending, answers, s2c, unsol, srvClosed, rpc, rhead, rcall, rerr,
          cpc, cerr, cq, connCtxDone, sockClosed, hbpc, hbfail, hbreq>>
hbvars == <<hbpc, hbfail, hbreq>>

NoOut == [kind |-> None, origin |-> None]
O(k) == [kind |-> k, origin |-> None]
NoHead == [sid |-> NoSid, origin |-> None]

Init ==
  /\ inuse = {} /\ calls = [s \in Sid |-> None] /\ closed = FALSE
  /\ pc = [r \in Req |-> "idle"] /\ sid = [r \in Req |-> NoSid]
  /\ toClosed = [r \in Req |-> FALSE] /\ resp = [r \in Req |-> NoOut]
  /\ out = [r \in Req |-> NoOut] /\ written = [r \in Req |-> "no"]
  /\ released = [r \in Req |-> 0] /\ consumed = [r \in Req |-> FALSE]
  /\ c2s = <<>> /\ pending = {} /\ answers = [r \in Req |-> 0] /\ s2c = <<>> /\ unsol = 0
  /\ srvClosed = FALSE
  /\ rpc = "hdr" /\ rhead = NoHead /\ rcall = None /\ rerr = "none"
  /\ cpc = [t \in Closers |-> "none"] /\ cerr = [t \in Closers |-> FALSE]
  /\ cq = [t \in Closers |-> {}]
  /\ connCtxDone = FALSE /\ sockClosed = FALSE
  /\ hbpc = (IF HBReq = {} THEN "off" ELSE "sleep") /\ hbfail = 0 /\ hbreq = None

-----------------------------------------------------------------------------
(* exec *)

Finish(r, o) == /\ out' = [out EXCEPT ![r] = o]
                /\ pc' = [pc EXCEPT ![r] = "done"]

\* conn.go:1030-1032: the caller's context is checked first
Start(r) ==
  /\ pc[r] = "idle"
  /\ (r \in HBReq => hbpc = "exec" /\ hbreq = r)     \* the heartbeat's requests start when it says so
  /\ \/ /\ pc' = [pc EXCEPT ![r] = "alloc"] /\ UNCHANGED out
     \/ /\ AllowCancel /\ r \notin HBReq /\ Finish(r, O("ctx"))      \* (context.Background() never ends)
  /\ UNCHANGED <<inuse, calls, closed, sid, toClosed, resp, written, released, consumed, c2s, pending,
                 answers, s2c, unsol, srvClosed, rpc, rhead, rcall, rerr, cpc, cerr, cq, connCtxDone, sockClosed>>

\* conn.go:1035: any free id (Streams.tla refines this atomic step)
Alloc(r, s) ==
  /\ pc[r] = "alloc" /\ s \in Sid \ inuse
  /\ inuse' = inuse \cup {s}
  /\ sid' = [sid EXCEPT ![r] = s]
  /\ pc' = [pc EXCEPT ![r] = "addcall"]
  /\ UNCHANGED <<calls, closed, toClosed, resp, out, written, released, consumed, c2s, pending,
                 answers, s2c, unsol, srvClosed, rpc, rhead, rcall, rerr, cpc, cerr, cq, connCtxDone, sockClosed>>

NoStreams(r) ==
  /\ pc[r] = "alloc" /\ inuse = Sid
  /\ Finish(r, O("nostreams"))
  /\ UNCHANGED <<inuse, calls, closed, sid, toClosed, resp, written, released, consumed, c2s, pending,
                 answers, s2c, unsol, srvClosed, rpc, rhead, rcall, rerr, cpc, cerr, cq, connCtxDone, sockClosed>>

\* conn.go:1014-1027 under c.mu
AddCall(r) ==
  /\ pc[r] = "addcall"
  /\ IF closed THEN Finish(r, O("closed")) /\ UNCHANGED calls
     ELSE IF calls[sid[r]] # None THEN Finish(r, O("dup")) /\ UNCHANGED calls
     ELSE /\ calls' = [calls EXCEPT ![sid[r]] = r]
          /\ pc' = [pc EXCEPT ![r] = "build"] /\ UNCHANGED out
  /\ UNCHANGED <<inuse, closed, sid, toClosed, resp, written, released, consumed, c2s, pending,
                 answers, s2c, unsol, srvClosed, rpc, rhead, rcall, rerr, cpc, cerr, cq, connCtxDone, sockClosed>>

BuildOk(r) ==
  /\ pc[r] = "build"
  /\ pc' = [pc EXCEPT ![r] = "write"]
  /\ UNCHANGED <<inuse, calls, closed, sid, toClosed, resp, out, written, released, consumed, c2s, pending,
                 answers, s2c, unsol, srvClosed, rpc, rhead, rcall, rerr, cpc, cerr, cq, connCtxDone, sockClosed>>

\* conn.go:1072-1075: close(call.timeout) first
BuildFail(r) ==
  /\ pc[r] = "build" /\ AllowBuildFail
  /\ toClosed' = [toClosed EXCEPT ![r] = TRUE]
  /\ resp' = [resp EXCEPT ![r] = O("builderr")]
  /\ pc' = [pc EXCEPT ![r] = "undo_del"]
  /\ UNCHANGED <<inuse, calls, closed, sid, out, written, released, consumed, c2s, pending,
                 answers, s2c, unsol, srvClosed, rpc, rhead, rcall, rerr, cpc, cerr, cq, connCtxDone, sockClosed>>

\* conn.go:1078-1082 / 1098-1102 under c.mu
UndoDel(r) ==
  /\ pc[r] = "undo_del"
  /\ calls' = IF closed THEN calls ELSE [calls EXCEPT ![sid[r]] = None]
  /\ pc' = [pc EXCEPT ![r] = "undo_rel"]
  /\ UNCHANGED <<inuse, closed, sid, toClosed, resp, out, written, released, consumed, c2s, pending,
                 answers, s2c, unsol, srvClosed, rpc, rhead, rcall, rerr, cpc, cerr, cq, connCtxDone, sockClosed>>

Release(r) == /\ inuse' = inuse \ {sid[r]}
              /\ released' = [released EXCEPT ![r] = @ + 1]

\* conn.go:1085 / 1105: releaseStream, then return the error
UndoRel(r) ==
  /\ pc[r] = "undo_rel"
  /\ Release(r)
  /\ Finish(r, resp[r])
  /\ UNCHANGED <<calls, closed, sid, toClosed, resp, written, consumed, c2s, pending,
                 answers, s2c, unsol, srvClosed, rpc, rhead, rcall, rerr, cpc, cerr, cq, connCtxDone, sockClosed>>

\* conn.go:1089: the whole frame reaches the socket
WriteOk(r) ==
  /\ pc[r] = "write" /\ ~sockClosed
  /\ c2s' = Append(c2s, [sid |-> sid[r], req |-> r])
  /\ written' = [written EXCEPT ![r] = "full"]
  /\ pc' = [pc EXCEPT ![r] = "wait"]
  /\ UNCHANGED <<inuse, calls, closed, sid, toClosed, resp, out, released, consumed, pending,
                 answers, s2c, unsol, srvClosed, rpc, rhead, rcall, rerr, cpc, cerr, cq, connCtxDone, sockClosed>>

\* conn.go:1094-1105: context ended before the write began (n = 0)
WriteNotStarted(r) ==
  /\ pc[r] = "write" /\ AllowCancel /\ r \notin HBReq
  /\ toClosed' = [toClosed EXCEPT ![r] = TRUE]
  /\ resp' = [resp EXCEPT ![r] = O("ctx")]
  /\ pc' = [pc EXCEPT ![r] = "undo_del"]
  /\ UNCHANGED <<inuse, calls, closed, sid, out, written, released, consumed, c2s, pending,
                 answers, s2c, unsol, srvClosed, rpc, rhead, rcall, rerr, cpc, cerr, cq, connCtxDone, sockClosed>>

\* conn.go:1094, 1112: the write failed (possibly after some bytes): close(call.timeout),
\* then this caller runs closeWithError(err)
WriteFail(r, part) ==
  /\ pc[r] = "write" /\ (AllowWriteFail \/ sockClosed)
  /\ part \in {"no", "partial"}
  /\ toClosed' = [toClosed EXCEPT ![r] = TRUE]
  /\ written' = [written EXCEPT ![r] = part]
  /\ resp' = [resp EXCEPT ![r] = O("writeerr")]
  /\ pc' = [pc EXCEPT ![r] = "closing"]
  /\ cpc' = [cpc EXCEPT ![r] = "begin"]
  /\ cerr' = [cerr EXCEPT ![r] = TRUE]
  /\ UNCHANGED <<inuse, calls, closed, sid, out, released, consumed, c2s, pending,
                 answers, s2c, unsol, srvClosed, rpc, rhead, rcall, rerr, cq, connCtxDone, sockClosed>>

\* the caller's closeWithError returned
WriteFailReturn(r) ==
  /\ pc[r] = "closing" /\ cpc[r] = "done"
  /\ Finish(r, resp[r])
  /\ UNCHANGED <<inuse, calls, closed, sid, toClosed, resp, written, released, consumed, c2s, pending,
                 answers, s2c, unsol, srvClosed, rpc, rhead, rcall, rerr, cpc, cerr, cq, connCtxDone, sockClosed>>

\* conn.go:1166-1175: the three give-up arms of the wait; each closes call.timeout, none releases
\* timeouts counted so far on this connection (c.timeouts; only counted when TimeoutLimit > 0)
TimedOut == {x \in Req : out[x].kind = "timeout" \/ (pc[x] = "closing" /\ resp[x].kind = "timeout")}
GiveUp(r, why) ==
  /\ pc[r] = "wait"
  /\ \/ why = "timeout" /\ HasTimer
     \/ why = "ctx" /\ AllowCancel /\ r \notin HBReq
     \/ why = "closed" /\ connCtxDone
  /\ toClosed' = IF Mut = "giveup_keeps_timeout_open" /\ why = "ctx" THEN toClosed
                 ELSE [toClosed EXCEPT ![r] = TRUE]
  /\ IF why = "timeout" /\ TimeoutLimit > 0 /\ Cardinality(TimedOut) + 1 > TimeoutLimit
        /\ Mut # "timeout_limit_ignored"
     THEN \* conn.go:798 handleTimeout: this caller runs closeWithError(ErrTooManyTimeouts), then returns
          /\ resp' = [resp EXCEPT ![r] = O("timeout")]
          /\ pc' = [pc EXCEPT ![r] = "closing"]
          /\ cpc' = [cpc EXCEPT ![r] = "begin"]
          /\ cerr' = [cerr EXCEPT ![r] = TRUE]
          /\ UNCHANGED out
     ELSE Finish(r, O(why)) /\ UNCHANGED <<resp, cpc, cerr>>
  /\ IF Mut = "release_on_giveup" THEN Release(r) ELSE UNCHANGED <<inuse, released>>
  /\ UNCHANGED <<calls, closed, sid, written, consumed, c2s, pending,
                 answers, s2c, unsol, srvClosed, rpc, rhead, rcall, rerr, cq, connCtxDone, sockClosed>>

\* conn.go:1141-1165 after the rendezvous: release (or not) and return
PostResp(r) ==
  /\ pc[r] = "gotresp"
  /\ IF resp[r].kind = "resp" \/ ~closed
     THEN Release(r)
     ELSE UNCHANGED <<inuse, released>>       \* error handed over by a closer: stream stays taken
  /\ Finish(r, resp[r])
  /\ UNCHANGED <<calls, closed, sid, toClosed, resp, written, consumed, c2s, pending,
                 answers, s2c, unsol, srvClosed, rpc, rhead, rcall, rerr, cpc, cerr, cq, connCtxDone, sockClosed>>

-----------------------------------------------------------------------------
(* the rendezvous on call.resp: one joint step of sender and exec *)

Rendezvous(r, what) ==
  /\ pc[r] = "wait"
  /\ toClosed' = [toClosed EXCEPT ![r] = TRUE]     \* conn.go:1142, first statement of the arm
  /\ resp' = [resp EXCEPT ![r] = what]
  /\ pc' = [pc EXCEPT ![r] = "gotresp"]

-----------------------------------------------------------------------------
(* closeWithError, run by thread t *)

BecomeCloser(t, withErr) ==
  /\ cpc' = [cpc EXCEPT ![t] = "begin"]
  /\ cerr' = [cerr EXCEPT ![t] = withErr]

\* conn.go:530-547 under c.mu
CloseBegin(t) ==
  /\ cpc[t] = "begin"
  /\ IF closed
     THEN /\ cpc' = [cpc EXCEPT ![t] = "done"] /\ UNCHANGED <<closed, calls, cq>>
     ELSE /\ closed' = TRUE
          /\ IF cerr[t]
             THEN /\ cq' = [cq EXCEPT ![t] = {calls[s] : s \in Sid} \ {None}]
                  /\ calls' = [s \in Sid |-> None]
             ELSE UNCHANGED <<cq, calls>>
          /\ cpc' = [cpc EXCEPT ![t] = "deliver"]
  /\ UNCHANGED <<inuse, pc, sid, toClosed, resp, out, written, released, consumed, c2s, pending,
                 answers, s2c, unsol, srvClosed, rpc, rhead, rcall, rerr, cerr, connCtxDone, sockClosed>>

\* conn.go:549-554: hand the error to a waiting caller ...
CloseDeliver(t, r) ==
  /\ cpc[t] = "deliver" /\ r \in cq[t]
  /\ Rendezvous(r, O("closed"))
  /\ cq' = [cq EXCEPT ![t] = @ \ {r}]
  /\ UNCHANGED <<inuse, calls, closed, sid, out, written, released, consumed, c2s, pending,
                 answers, s2c, unsol, srvClosed, rpc, rhead, rcall, rerr, cpc, cerr, connCtxDone, sockClosed>>

\* ... or skip a caller that has already given up
CloseSkip(t, r) ==
  /\ cpc[t] = "deliver" /\ r \in cq[t] /\ toClosed[r] /\ Mut # "closer_never_skips"
  /\ cq' = [cq EXCEPT ![t] = @ \ {r}]
  /\ UNCHANGED <<inuse, calls, closed, pc, sid, toClosed, resp, out, written, released, consumed, c2s, pending,
                 answers, s2c, unsol, srvClosed, rpc, rhead, rcall, rerr, cpc, cerr, connCtxDone, sockClosed>>

CloseCancel(t) ==
  /\ cpc[t] = "deliver" /\ cq[t] = {}
  /\ connCtxDone' = TRUE
  /\ cpc' = [cpc EXCEPT ![t] = "sock"]
  /\ UNCHANGED <<inuse, calls, closed, pc, sid, toClosed, resp, out, written, released, consumed, c2s, pending,
                 answers, s2c, unsol, srvClosed, rpc, rhead, rcall, rerr, cerr, cq, sockClosed>>

CloseSock(t) ==
  /\ cpc[t] = "sock"
  /\ sockClosed' = TRUE
  /\ cpc' = [cpc EXCEPT ![t] = "done"]
  /\ UNCHANGED <<inuse, calls, closed, pc, sid, toClosed, resp, out, written, released, consumed, c2s, pending,
                 answers, s2c, unsol, srvClosed, rpc, rhead, rcall, rerr, cerr, cq, connCtxDone>>

ExtClose ==
  /\ AllowExtClose /\ cpc["ext"] = "none"
  /\ BecomeCloser("ext", FALSE)
  /\ UNCHANGED <<inuse, calls, closed, pc, sid, toClosed, resp, out, written, released, consumed, c2s, pending,
                 answers, s2c, unsol, srvClosed, rpc, rhead, rcall, rerr, cq, connCtxDone, sockClosed>>

-----------------------------------------------------------------------------
(* recv *)

\* conn.go:673: a header arrives ...
RecvHeader ==
  /\ rpc = "hdr" /\ ~sockClosed /\ s2c # <<>>
  /\ rhead' = Head(s2c)
  /\ s2c' = Tail(s2c)
  /\ rpc' = "lookup"
  /\ UNCHANGED <<inuse, calls, closed, pc, sid, toClosed, resp, out, written, released, consumed, c2s, pending,
                 answers, unsol, srvClosed, rcall, rerr, cpc, cerr, cq, connCtxDone, sockClosed>>

\* ... or the read fails (EOF after the node closed, or our own socket was closed):
\* serve() leaves its loop and runs closeWithError(err)
RecvReadErr ==
  /\ rpc = "hdr" /\ (sockClosed \/ (srvClosed /\ s2c = <<>>))
  /\ rpc' = "stopped"
  /\ BecomeCloser("rcv", TRUE)
  /\ UNCHANGED <<inuse, calls, closed, pc, sid, toClosed, resp, out, written, released, consumed, c2s, pending,
                 answers, s2c, unsol, srvClosed, rhead, rcall, rerr, cq, connCtxDone, sockClosed>>

\* conn.go:720-727 under c.mu
RecvLookup ==
  /\ rpc = "lookup"
  /\ IF closed
     THEN /\ rpc' = "stopped" /\ BecomeCloser("rcv", TRUE)
          /\ UNCHANGED <<calls, rcall, rhead, consumed>>
     ELSE /\ calls' = [calls EXCEPT ![rhead.sid] = None]
          /\ IF calls[rhead.sid] = None
             THEN /\ rpc' = "hdr" /\ rhead' = NoHead /\ UNCHANGED rcall      \* discard
             ELSE /\ rpc' = "body" /\ rcall' = calls[rhead.sid] /\ UNCHANGED rhead
          /\ UNCHANGED <<cpc, cerr, consumed>>
  /\ UNCHANGED <<inuse, closed, pc, sid, toClosed, resp, out, written, released, c2s, pending,
                 answers, s2c, unsol, srvClosed, rerr, cq, connCtxDone, sockClosed>>

\* conn.go:737-744
RecvBody(kind) ==
  /\ rpc = "body"
  /\ \/ kind = "ok" /\ rpc' = "deliver" /\ rerr' = "none" /\ UNCHANGED <<cpc, cerr>>
     \/ kind = "other" /\ AllowSrvClose /\ rpc' = "deliver" /\ rerr' = "other" /\ UNCHANGED <<cpc, cerr>>
     \/ kind = "net" /\ (srvClosed \/ sockClosed) /\ rpc' = "stopped" /\ UNCHANGED rerr
                     /\ BecomeCloser("rcv", TRUE)
  /\ UNCHANGED <<inuse, calls, closed, pc, sid, toClosed, resp, out, written, released, consumed, c2s, pending,
                 answers, s2c, unsol, srvClosed, rhead, rcall, cq, connCtxDone, sockClosed>>

RecvReset == /\ rpc' = "hdr" /\ rhead' = NoHead /\ rcall' = None /\ rerr' = "none"

\* conn.go:749: hand the response to the caller
RecvDeliver ==
  /\ rpc = "deliver"
  /\ Rendezvous(rcall, IF rerr = "none" THEN [kind |-> "resp", origin |-> rhead.origin] ELSE O("frameerr"))
  /\ consumed' = [consumed EXCEPT ![rcall] = TRUE]
  /\ RecvReset
  /\ UNCHANGED <<inuse, calls, closed, sid, out, written, released, c2s, pending,
                 answers, s2c, unsol, srvClosed, cpc, cerr, cq, connCtxDone, sockClosed>>

\* conn.go:750-751: the caller gave up: the receiver releases the stream
RecvAbandon ==
  /\ rpc = "deliver" /\ toClosed[rcall]
  /\ Release(rcall)
  /\ consumed' = [consumed EXCEPT ![rcall] = TRUE]
  /\ RecvReset
  /\ UNCHANGED <<calls, closed, pc, sid, toClosed, resp, out, written, c2s, pending,
                 answers, s2c, unsol, srvClosed, cpc, cerr, cq, connCtxDone, sockClosed>>

\* conn.go:752: the connection context ended
RecvDropOnCtx ==
  /\ rpc = "deliver" /\ connCtxDone
  /\ RecvReset
  /\ UNCHANGED <<inuse, calls, closed, pc, sid, toClosed, resp, out, written, released, consumed, c2s, pending,
                 answers, s2c, unsol, srvClosed, cpc, cerr, cq, connCtxDone, sockClosed>>

-----------------------------------------------------------------------------
(* the node *)

SrvRecv ==
  /\ c2s # <<>>
  /\ pending' = pending \cup {Head(c2s)}
  /\ c2s' = Tail(c2s)
  /\ UNCHANGED <<inuse, calls, closed, pc, sid, toClosed, resp, out, written, released, consumed,
                 answers, s2c, unsol, srvClosed, rpc, rhead, rcall, rerr, cpc, cerr, cq, connCtxDone, sockClosed>>

SrvAnswer(p) ==
  /\ p \in pending /\ ~srvClosed
  /\ s2c' = Append(s2c, [sid |-> p.sid, origin |-> p.req])
  /\ answers' = [answers EXCEPT ![p.req] = @ + 1]
  /\ pending' = IF answers[p.req] + 1 >= MaxAnswers THEN pending \ {p} ELSE pending
  /\ UNCHANGED <<inuse, calls, closed, pc, sid, toClosed, resp, out, written, released, consumed, c2s,
                 unsol, srvClosed, rpc, rhead, rcall, rerr, cpc, cerr, cq, connCtxDone, sockClosed>>

SrvSilent(p) ==
  /\ AllowSilent /\ p \in pending
  /\ pending' = pending \ {p}
  /\ UNCHANGED <<inuse, calls, closed, pc, sid, toClosed, resp, out, written, released, consumed, c2s,
                 answers, s2c, unsol, srvClosed, rpc, rhead, rcall, rerr, cpc, cerr, cq, connCtxDone, sockClosed>>

SrvUnsolicited(s) ==
  /\ unsol < MaxUnsolicited /\ ~srvClosed /\ s \in Sid
  /\ unsol' = unsol + 1
  /\ s2c' = Append(s2c, [sid |-> s, origin |-> None])
  /\ UNCHANGED <<inuse, calls, closed, pc, sid, toClosed, resp, out, written, released, consumed, c2s, pending,
                 answers, srvClosed, rpc, rhead, rcall, rerr, cpc, cerr, cq, connCtxDone, sockClosed>>

SrvClose ==
  /\ AllowSrvClose /\ ~srvClosed
  /\ srvClosed' = TRUE
  /\ UNCHANGED <<inuse, calls, closed, pc, sid, toClosed, resp, out, written, released, consumed, c2s, pending,
                 answers, s2c, unsol, rpc, rhead, rcall, rerr, cpc, cerr, cq, connCtxDone, sockClosed>>

-----------------------------------------------------------------------------
(* heartBeat (conn.go:626-675).  Its OPTIONS request is an ordinary request: the exec      *)
(* actions above run it; these actions are the loop around it.                             *)

nonhb == <<inuse, calls, closed, pc, sid, toClosed, resp, out, written, released, consumed, c2s, pending,
           answers, s2c, unsol, srvClosed, rpc, rhead, rcall, rerr, cq, connCtxDone, sockClosed>>

\* the timer fired: the next request starts
HBTick(r) ==
  /\ hbpc = "sleep" /\ r \in HBReq /\ pc[r] = "idle"
  /\ hbpc' = "exec" /\ hbreq' = r
  /\ UNCHANGED <<nonhb, cpc, cerr, hbfail>>

\* ctx.Done() in the select
HBExit ==
  /\ hbpc = "sleep" /\ connCtxDone /\ Mut # "hb_ignores_close"
  /\ hbpc' = "stopped"
  /\ UNCHANGED <<nonhb, cpc, cerr, hbfail, hbreq>>

\* exec returned: judge the outcome. kind: what the answer turned out to be (the node's choice)
HBEval(kind) ==
  /\ hbpc = "exec" /\ hbreq # None /\ pc[hbreq] = "done"
  /\ LET ok == out[hbreq].kind = "resp"
         f == CASE ~ok -> hbfail + 1
                [] kind = "supported" -> 0
                [] kind = "errframe" -> hbfail
                [] kind = "parsefail" -> hbfail + 1
                [] OTHER -> hbfail
     IN /\ kind \in {"supported", "errframe", "parsefail", "unknown"}
        /\ (~ok => kind = "supported")              \* (kind is irrelevant then: one transition only)
        /\ hbfail' = f
        /\ hbpc' = IF (ok /\ kind = "unknown") \/ f > HBMaxFail THEN "giveup" ELSE "sleep"
  /\ hbreq' = None
  /\ UNCHANGED <<nonhb, cpc, cerr>>

\* failures > 5, or an answer that is neither SUPPORTED nor ERROR: this thread closes the connection
HBGiveUp ==
  /\ hbpc = "giveup"
  /\ hbpc' = "closing"
  /\ BecomeCloser("hb", TRUE)
  /\ UNCHANGED <<nonhb, hbfail, hbreq>>

HBClosed ==
  /\ hbpc = "closing" /\ cpc["hb"] = "done"
  /\ hbpc' = "stopped"
  /\ UNCHANGED <<nonhb, cpc, cerr, hbfail, hbreq>>

HBStep == \/ \E r \in HBReq : HBTick(r)
          \/ HBExit \/ HBGiveUp \/ HBClosed
          \/ \E k \in {"supported", "errframe", "parsefail", "unknown"} : HBEval(k)

-----------------------------------------------------------------------------
DriverStep ==
  \/ \E r \in Req : \/ Start(r) \/ NoStreams(r) \/ AddCall(r) \/ BuildOk(r) \/ BuildFail(r)
                    \/ UndoDel(r) \/ UndoRel(r) \/ WriteOk(r) \/ WriteNotStarted(r)
                    \/ WriteFail(r, "no") \/ WriteFail(r, "partial") \/ WriteFailReturn(r)
                    \/ GiveUp(r, "timeout") \/ GiveUp(r, "ctx") \/ GiveUp(r, "closed") \/ PostResp(r)
                    \/ \E s \in Sid : Alloc(r, s)
  \/ \E t \in Closers : \/ CloseBegin(t) \/ CloseCancel(t) \/ CloseSock(t)
                        \/ \E r \in Req : CloseDeliver(t, r) \/ CloseSkip(t, r)
  \/ RecvHeader \/ RecvReadErr \/ RecvLookup \/ RecvBody("ok") \/ RecvBody("other") \/ RecvBody("net")
  \/ RecvDeliver \/ RecvAbandon \/ RecvDropOnCtx

EnvStep ==
  \/ ExtClose \/ SrvRecv \/ SrvClose
  \/ \E p \in pending : SrvAnswer(p) \/ SrvSilent(p)
  \/ \E s \in Sid : SrvUnsolicited(s)

AllDone == \A r \in Req : pc[r] = "done" \/ (r \in HBReq /\ pc[r] = "idle")
Terminal == AllDone /\ UNCHANGED vars
Next == (DriverStep /\ UNCHANGED hbvars) \/ (EnvStep /\ UNCHANGED hbvars) \/ HBStep \/ Terminal

ReqProgress(r) ==
  \/ NoStreams(r) \/ AddCall(r) \/ BuildOk(r) \/ BuildFail(r) \/ UndoDel(r) \/ UndoRel(r)
  \/ WriteOk(r) \/ WriteNotStarted(r) \/ WriteFail(r, "no") \/ WriteFail(r, "partial") \/ WriteFailReturn(r)
  \/ GiveUp(r, "timeout") \/ GiveUp(r, "ctx") \/ GiveUp(r, "closed") \/ PostResp(r)
  \/ \E s \in Sid : Alloc(r, s)
CloserStep(t) == \/ CloseBegin(t) \/ CloseCancel(t) \/ CloseSock(t)
                 \/ \E r \in Req : CloseDeliver(t, r) \/ CloseSkip(t, r)
RecvStep == \/ RecvHeader \/ RecvReadErr \/ RecvLookup \/ RecvBody("ok") \/ RecvBody("other") \/ RecvBody("net")
            \/ RecvDeliver \/ RecvAbandon \/ RecvDropOnCtx

\* every thread of the driver keeps taking steps while it can; the environment is obliged
\* to nothing (it may stay silent for ever)
Fairness == /\ \A r \in Req : WF_vars(ReqProgress(r) /\ UNCHANGED hbvars)
            /\ \A r \in HBReq : WF_vars(Start(r) /\ UNCHANGED hbvars)   \* (callers may never call; the heartbeat does)
            /\ \A t \in Closers : WF_vars(CloserStep(t) /\ UNCHANGED hbvars)
            /\ WF_vars(RecvStep /\ UNCHANGED hbvars)
            /\ WF_vars(HBStep)

Spec == Init /\ [][Next]_vars /\ Fairness
SpecSafety == Init /\ [][Next]_vars

-----------------------------------------------------------------------------
(* Properties *)

Holds(r) == sid[r] # NoSid /\ released[r] = 0 /\ pc[r] # "alloc"

\* frames of request o that may still produce (or be) a response on the wire
InFlight == {<<c2s[i].sid, c2s[i].req>> : i \in 1 .. Len(c2s)}
            \cup {<<p.sid, p.req>> : p \in pending}
            \cup {<<s2c[i].sid, s2c[i].origin>> : i \in 1 .. Len(s2c)}
            \cup (IF rhead.sid # NoSid THEN {<<rhead.sid, rhead.origin>>} ELSE {})

\* C01: a response goes to the request that caused it
NoMisroute == \A r \in Req :
  /\ (out[r].kind = "resp" => out[r].origin = r)
  /\ (resp[r].kind = "resp" => resp[r].origin = r)

\* C01: an id with a response possibly outstanding is held by nobody else
NoReuseWhileOutstanding ==
  sockClosed \/ \A f \in InFlight : \A r \in Req :
     (f[2] # None /\ Holds(r) /\ sid[r] = f[1] /\ pc[r] \notin {"idle", "alloc"}) => r = f[2]

\* no two requests hold the same id
UniqueHold == \A r1, r2 \in Req : (r1 # r2 /\ Holds(r1) /\ Holds(r2)) => sid[r1] # sid[r2]

\* the duplicate-registration refusal is never needed
NoDupRefusal == \A r \in Req : out[r].kind # "dup"

\* C06: allowed outcomes only
OutcomeAllowed == \A r \in Req : out[r].kind \in
  {None, "resp", "frameerr", "timeout", "ctx", "closed", "nostreams", "builderr", "writeerr"}

\* C06: exactly one outcome (action property)
OutcomeOnce == [][\A r \in Req : out[r].kind # None => out'[r] = out[r]]_vars

\* C06: released at most once, and the allocator agrees with who holds what
ReleaseOnce == \A r \in Req : released[r] <= 1
Conservation == inuse = {sid[r] : r \in {x \in Req : Holds(x)}}

\* C06: once the response was consumed, or the frame never written, the id is returned
\* (while the connection is open)
NoLeak == \A r \in Req :
  (pc[r] = "done" /\ ~closed /\ sid[r] # NoSid /\ out[r].kind \notin {"closed", "dup"}
     /\ (written[r] = "no" \/ consumed[r]))
  => released[r] = 1

\* a closed connection never delivers a normal response afterwards... (not required)

TypeOK == /\ inuse \subseteq Sid
          /\ \A r \in Req : released[r] \in 0 .. 2
          /\ hbpc \in {"off", "sleep", "exec", "giveup", "closing", "stopped"}
          /\ hbfail \in 0 .. HBMaxFail + 1

\* the heartbeat closes the connection only for the two documented reasons (conn.go:633, 668)
HBCloseJustified == cpc["hb"] # "none" => hbpc \in {"closing", "stopped"}
\* TimeoutLimit (conn.go:177): "how many timeouts we will allow to occur before the connection is closed":
\* a caller closes the connection for timeouts only past the limit, and 0 disables it
TimeoutCloseJustified == \A r \in Req :
  (pc[r] = "closing" /\ resp[r].kind = "timeout") => (TimeoutLimit > 0 /\ Cardinality(TimedOut) > TimeoutLimit)

\* C06 liveness
RequestEnds == \A r \in Req : (pc[r] # "idle") ~> (pc[r] = "done")
CloseReturns == \A t \in Closers : (cpc[t] = "begin") ~> (cpc[t] = "done")
CloseUnblocks == closed ~> (\A r \in Req : pc[r] \in {"idle", "done"})
\* the heartbeat goroutine ends once the connection is closed
HBStops == connCtxDone ~> (hbpc \in {"off", "stopped"})
\* past the limit the connection does get closed
TimeoutLimitCloses == (TimeoutLimit > 0 /\ Cardinality(TimedOut) > TimeoutLimit) ~> closed
=============================================================================
