SPECIFICATION Spec
CONSTANT Alg = "lz4"
INVARIANTS RefAgrees CorruptRejected Emit
CHECK_DEADLOCK FALSE
