SPECIFICATION Spec
CONSTANT Alg = "lz4"
INVARIANTS RefAgrees CorruptRejected HugeRejected Emit
CHECK_DEADLOCK FALSE
