CONSTANT Tier = "quick"
INIT VInit
NEXT VNext
INVARIANT EmitCase
CHECK_DEADLOCK FALSE
