------------------------------ MODULE Consume ------------------------------
(***************************************************************************)
(* X02, part 1: what a caller sees when it CONSUMES the result of a query  *)
(* or batch through gocql's API - Iter (Scan, MapScan, SliceMap, RowData,  *)
(* Close and the getters), Scanner (Next, Scan, Err), the one-shot helpers *)
(* (Query.Exec / Scan / MapScan / ScanCAS / MapScanCAS, ExecuteBatch /     *)
(* ExecuteBatchCAS / MapExecuteBatchCAS).  The order in which pages are    *)
(* asked for is C15's (Paging.tla); here the server side is reduced to a   *)
(* scenario (what the node answers) and the machine is the consumer's.     *)
(*                                                                         *)
(* The module is written from the godoc of the methods (quoted at the      *)
(* operators) and the CQL protocol, not from session.go.  Where the        *)
(* documentation is silent the call is NOT ENABLED in that state (it is    *)
(* neither generated nor judged), or the projection is marked unspecified. *)
(*                                                                         *)
(* Layout: one state record S; for every API call c the three operators    *)
(*   En(S, c)    the documentation says what the call does in this state   *)
(*   Res(S, c)   what the call must return                                 *)
(*   Aft(S, c)   the abstract state afterwards                             *)
(* so that the same definitions drive the model (Next), the edge dump      *)
(* (graph walk replayed on the real code) and the monitor of recorded      *)
(* executions (Trace_Consume).                                             *)
(***************************************************************************)
EXTENDS Integers, Sequences, FiniteSets, TLC

CONSTANTS MaxPages,     \* pages of a rows result: 1 .. MaxPages
          MaxRows,      \* rows per page: 0 .. MaxRows
          Variant       \* "ok" = the specification; other values = deliberately wrong designs (vacuity check)

-----------------------------------------------------------------------------
(* Scenarios: what the scripted node answers.                              *)
(*   via     "query" (Session.Query) | "batch" (Session.NewBatch)          *)
(*   shape   "rows"  a rows result with the columns a:int, b:text          *)
(*           "void"  a void result                                         *)
(*           "cas"   the result of a conditional statement: one column     *)
(*                   [applied] = true, or [applied] = false followed by    *)
(*                   the existing values a, b (Cassandra's LWT result)     *)
(*   pages   rows per page (void: <<0>>)                                   *)
(*   fail    0, or the page whose request the node answers with an ERROR   *)
(*           (1 = the very first request)                                  *)

RECURSIVE SeqsUpTo(_, _)
SeqsUpTo(n, m) == IF n = 0 THEN {<<>>} ELSE
  LET R == SeqsUpTo(n - 1, m) IN R \cup {Append(s, x) : s \in {r \in R : Len(r) = n - 1}, x \in 0 .. m}
PageSeqs == {s \in SeqsUpTo(MaxPages, MaxRows) : Len(s) >= 1}

Scn(via, shape, pages, fail, applied) ==
  [via |-> via, shape |-> shape, pages |-> pages, fail |-> fail, applied |-> applied]

Scenarios ==
  {Scn("query", "rows", p, f, FALSE) : p \in PageSeqs, f \in 0 .. MaxPages} \cup
  {Scn("query", "void", <<0>>, f, FALSE) : f \in 0 .. 1} \cup
  {Scn("query", "cas", <<1>>, f, ap) : f \in 0 .. 1, ap \in BOOLEAN} \cup
  {Scn("batch", "void", <<0>>, f, FALSE) : f \in 0 .. 1} \cup
  {Scn("batch", "cas", <<1>>, f, TRUE) : f \in 0 .. 1} \cup
  {Scn("batch", "cas", <<n>>, f, FALSE) : n \in 1 .. 2, f \in 0 .. 1}
WellFormed(scn) == scn.fail <= Len(scn.pages)
AllScenarios == {s \in Scenarios : WellFormed(s)}

Cols(scn) == CASE scn.shape = "rows" -> <<"a", "b">>
               [] scn.shape = "void" -> <<>>
               [] scn.shape = "cas" -> IF scn.applied THEN <<"[applied]">> ELSE <<"[applied]", "a", "b">>
NC(scn) == Len(Cols(scn))
\* the values of row i of page p, one per column (booleans as 1 / 0, text as the number it spells)
RowVals(scn, p, i) ==
  CASE scn.shape = "rows" -> <<10 * p + i, 100 + 10 * p + i>>
    [] scn.shape = "cas" -> IF scn.applied THEN <<1>> ELSE <<0, 10 * p + i, 100 + 10 * p + i>>
    [] OTHER -> <<>>

\* every row of the result in order, up to the page that fails
RECURSIVE RowsFrom(_, _, _)
RowsFrom(scn, p, i) ==
  IF p > Len(scn.pages) \/ scn.fail = p THEN <<>>
  ELSE IF i > scn.pages[p] THEN RowsFrom(scn, p + 1, 1)
  ELSE <<RowVals(scn, p, i)>> \o RowsFrom(scn, p, i + 1)
AllRows(scn) == RowsFrom(scn, 1, 1)
Fails(scn) == scn.fail > 0

-----------------------------------------------------------------------------
(* Calls.  v = how the destinations are given:                             *)
(*   ok    one destination of a fitting type per column                    *)
(*   nil1  nil in place of the first destination ("Use nil as a dest value *)
(*         to skip the corresponding column", Iter.Scan)                   *)
(*   few   one destination less than columns     many  one more            *)
(*   bad   the last destination has a type the column cannot be            *)
(*         unmarshalled into                                               *)
Vs == {"ok", "nil1", "few", "many", "bad"}
Call(op, v) == [op |-> op, v |-> v]
\* the map-based calls: ok = a fresh empty map, bad = the map holds, under the name of the last column, a pointer
\* of a type the column cannot be unmarshalled into ("You can also pass pointers in the map", Iter.MapScan)
Ops0 == {"Iter", "Exec", "ExecBatch", "SliceMap", "RowData", "Close", "Scanner", "Next", "Err"}
OpsV == {"QScan", "ScanCAS", "ExecBatchCAS", "Scan", "SScan"}
OpsM == {"QMapScan", "MapScanCAS", "MapExecBatchCAS", "MapScan"}
Calls == {Call(op, "-") : op \in Ops0} \cup {Call(op, v) : op \in OpsV, v \in Vs} \cup
         {Call(op, v) : op \in OpsM, v \in {"ok", "bad"}}

\* Results: one record shape for every call (fields a call does not have stay at their defaults).
\*   b     "t" / "f": the boolean a row-yielding call returned; "-" none
\*   err   "none" | "notfound" (ErrNotFound) | "server" (the node's ERROR) | "error" (any other error)
\*   ap    "t" / "f" / "-": the applied flag of the CAS helpers
\*   keys  map keys (column order) / RowData.Columns
\*   vals  destination values afterwards (-1 = untouched), only when the call delivered a row
\*   rows  SliceMap
NoRet == [b |-> "-", err |-> "none", ap |-> "-", keys |-> <<>>, vals |-> <<>>, rows |-> <<>>]

\* destination values after a row r was scanned with variant v
Dest(r, v) == IF v = "nil1" /\ Len(r) >= 1 THEN <<-1>> \o Tail(r) ELSE r

-----------------------------------------------------------------------------
(* State.                                                                  *)
(*   mode   fresh: statement built, not executed | iter | scanner | end    *)
(*   page, pos   current page, rows of it already handed out               *)
(*   err    none | server | error : the error the iteration ran into       *)
(*   closed Iter.Close was called                                          *)
(*   fin    a row-yielding call has reported the end of the result         *)
(*   valid  scanner: "yes" a row is staged by Next | "no" | "unknown"      *)
(*   cur    scanner: the staged row                                        *)
Init0(scn) == [scn |-> scn, mode |-> "fresh", page |-> 0, pos |-> 0, err |-> "none", closed |-> FALSE,
               fin |-> FALSE, valid |-> "no", cur |-> <<0, 0>>]

\* where the next row is, seen from (p, pos): a row, the end, or a page whose fetch fails
RECURSIVE Seek(_, _, _)
Seek(scn, p, pos) ==
  IF pos < scn.pages[p] THEN [k |-> "row", p |-> p, i |-> pos + 1]
  ELSE IF p < Len(scn.pages)
       THEN IF scn.fail = p + 1 THEN [k |-> "fail", p |-> p + 1, i |-> 0] ELSE Seek(scn, p + 1, 0)
       ELSE [k |-> "end", p |-> p, i |-> 0]

RowInPage(S) == S.page >= 1 /\ S.pos < S.scn.pages[S.page]

\* the iterator right after the first request was answered
Opened(S) == IF S.scn.fail = 1 THEN [S EXCEPT !.mode = "iter", !.err = "server"]
             ELSE [S EXCEPT !.mode = "iter", !.page = 1]

\* One row-yielding step (Iter.Scan / MapScan / Scanner.Next): <<kind, state afterwards, row values>>
\* "Scan consumes the next row of the iterator ... Scan might send additional queries to the database to
\*  retrieve the next set of rows if paging was enabled.  Scan returns true if the row was successfully
\*  unmarshaled or false if the end of the result set was reached or if an error occurred."
Step(S) ==
  IF S.err # "none" THEN [k |-> "err", S |-> S, r |-> <<>>]
  ELSE LET t == Seek(S.scn, S.page, S.pos) IN
    CASE t.k = "row" -> [k |-> "row", S |-> [S EXCEPT !.page = t.p, !.pos = t.i], r |-> RowVals(S.scn, t.p, t.i)]
      [] t.k = "end" -> [k |-> "end", S |-> [S EXCEPT !.page = t.p, !.pos = S.scn.pages[t.p], !.fin = TRUE], r |-> <<>>]
      [] t.k = "fail" -> [k |-> "fail", S |-> [S EXCEPT !.err = "server", !.fin = TRUE], r |-> <<>>]

\* all remaining rows (SliceMap): <<rows, state afterwards>>
RECURSIVE Drain(_)
Drain(S) == LET s == Step(S) IN
  IF s.k = "row" THEN LET d == Drain(s.S) IN [rows |-> <<s.r>> \o d.rows, S |-> d.S]
  ELSE [rows |-> <<>>, S |-> s.S]

FirstPageHasRow(scn) == scn.pages[1] >= 1
\* "If no rows were selected, ErrNotFound is returned": decided for a result that has rows in its first page
\* or no further page at all (an empty first page followed by others is not what the sentence describes)
OneShotDecided(scn) == scn.fail = 1 \/ FirstPageHasRow(scn) \/ Len(scn.pages) = 1

-----------------------------------------------------------------------------
En(S, c) ==
  LET scn == S.scn IN
  CASE S.mode = "fresh" ->
         \/ scn.via = "query" /\ c.op \in {"Iter", "Exec"}
         \/ scn.via = "query" /\ scn.shape \in {"rows", "void"} /\ c.op \in {"QScan", "QMapScan"}
            /\ OneShotDecided(scn)
            /\ (c.v \in {"few", "many", "bad", "nil1"} => scn.fail # 1 /\ FirstPageHasRow(scn))
            /\ (c.op = "QMapScan" => c.v \in {"ok", "bad"})
         \/ scn.via = "query" /\ scn.shape = "cas" /\ c.op = "MapScanCAS"
            /\ (c.v = "bad" => ~scn.applied /\ scn.fail = 0)
         \/ scn.via = "query" /\ scn.shape = "cas" /\ c.op = "ScanCAS"
            /\ (scn.applied => c.v = "ok")          \* applied: nothing is scanned into dest; dest shape undecided
         \/ scn.via = "batch" /\ c.op = "ExecBatch"
         \/ scn.via = "batch" /\ scn.shape = "cas" /\ c.op = "MapExecBatchCAS"
            /\ (c.v = "bad" => ~scn.applied /\ scn.fail = 0)
         \/ scn.via = "batch" /\ scn.shape = "cas" /\ c.op = "ExecBatchCAS"
            /\ c.v \in (IF scn.applied THEN {"ok"} ELSE {"ok", "nil1"})
    [] S.mode = "iter" /\ S.closed -> c.op = "Close"
    [] S.mode = "iter" /\ ~S.closed ->
         \/ c.op \in {"SliceMap", "RowData", "Close", "Scanner"}
         \/ c.op = "MapScan" /\ c.v = "ok"
         \/ c.op = "MapScan" /\ c.v = "bad" /\ S.err = "none" /\ RowInPage(S)
         \/ c.op = "Scan" /\ c.v = "ok"
         \/ c.op = "Scan" /\ c.v = "nil1" /\ NC(scn) >= 1
         \* wrong destinations: decided only when the row they are given for is in the current page
         \/ c.op = "Scan" /\ c.v \in {"few", "many", "bad"} /\ S.err = "none" /\ RowInPage(S)
    [] S.mode = "scanner" ->
         \/ c.op \in {"Next", "Err"}
         \/ c.op = "SScan" /\ S.valid = "no" /\ c.v = "ok"
         \/ c.op = "SScan" /\ S.valid = "yes"
    [] OTHER -> FALSE

\* -------- one-shot helpers
\* Query.Scan / Query.MapScan: "executes the query, copies the columns of the first selected row into the values
\* pointed at by dest and discards the rest. If no rows were selected, ErrNotFound is returned."
QScanRes(scn, v, asMap) ==
  IF scn.fail = 1 THEN [NoRet EXCEPT !.err = "server"]
  ELSE IF ~FirstPageHasRow(scn) THEN [NoRet EXCEPT !.err = IF Variant = "notfound-missing" THEN "none" ELSE "notfound"]
  ELSE IF v \in {"few", "many", "bad"} THEN [NoRet EXCEPT !.err = "error"]
  ELSE [NoRet EXCEPT !.vals = Dest(RowVals(scn, 1, 1), v), !.keys = IF asMap THEN Cols(scn) ELSE <<>>]

\* ScanCAS: "executes a lightweight transaction ... If the transaction fails because the existing values did
\* not match, the previous values will be stored in dest."  (applied bool, err error)
\* The [applied] column is reported through the return value and is not one of the caller's destinations.
CASRes(scn, v, asMap) ==
  IF scn.fail = 1 THEN [NoRet EXCEPT !.err = "server", !.ap = "f"]
  ELSE IF scn.applied THEN [NoRet EXCEPT !.ap = "t"]
  ELSE IF v \in {"few", "many", "bad"} THEN [NoRet EXCEPT !.err = "error", !.ap = "f"]
  ELSE LET r == RowVals(scn, 1, 1) IN
       IF Variant = "cas-keeps-applied"
       THEN [NoRet EXCEPT !.ap = "f", !.vals = Dest(r, v), !.keys = IF asMap THEN Cols(scn) ELSE <<>>]
       ELSE [NoRet EXCEPT !.ap = "f", !.vals = Dest(Tail(r), v), !.keys = IF asMap THEN Tail(Cols(scn)) ELSE <<>>]

\* ExecuteBatchCAS: "executes a batch operation and returns true if successful and an iterator (to scan
\* additional rows if more than one conditional statement) was sent. Further scans on the interator must also
\* remember to include the applied boolean as the first argument to *Iter.Scan"
\* The iterator that comes back stands after the first row.
AfterBatchCAS(S) == IF S.scn.fail = 1 THEN [S EXCEPT !.mode = "end", !.err = "server"]
                    ELSE [S EXCEPT !.mode = "iter", !.page = 1, !.pos = 1]

-----------------------------------------------------------------------------
Res(S, c) ==
  LET scn == S.scn IN
  CASE c.op = "Iter" -> NoRet
    [] c.op \in {"Exec", "ExecBatch"} -> [NoRet EXCEPT !.err = IF scn.fail = 1 THEN "server" ELSE "none"]
    [] c.op = "QScan" -> QScanRes(scn, c.v, FALSE)
    [] c.op = "QMapScan" -> QScanRes(scn, c.v, TRUE)
    [] c.op \in {"ScanCAS", "ExecBatchCAS"} -> CASRes(scn, c.v, FALSE)
    [] c.op \in {"MapScanCAS", "MapExecBatchCAS"} -> CASRes(scn, c.v, TRUE)
    \* -------- Iter
    [] c.op \in {"Scan", "MapScan"} ->
         LET s == Step(S) IN
         IF s.k # "row" THEN [NoRet EXCEPT !.b = "f"]
         ELSE IF c.v \in {"few", "many", "bad"} THEN [NoRet EXCEPT !.b = "f"]
         ELSE [NoRet EXCEPT !.b = "t", !.vals = Dest(s.r, c.v), !.keys = IF c.op = "MapScan" THEN Cols(scn) ELSE <<>>]
    \* SliceMap "returns the data from the query in the form of []map[string]interface{}" (..., error)
    [] c.op = "SliceMap" ->
         LET d == Drain(S) IN
         IF d.S.err # "none" THEN [NoRet EXCEPT !.err = d.S.err]
         ELSE [NoRet EXCEPT !.rows = d.rows, !.keys = IF d.rows = <<>> THEN <<>> ELSE Cols(scn)]
    [] c.op = "RowData" -> IF S.err # "none" THEN [NoRet EXCEPT !.err = S.err] ELSE [NoRet EXCEPT !.keys = Cols(scn)]
    \* "Close closes the iterator and returns any errors that happened during the query or the iteration."
    [] c.op = "Close" -> [NoRet EXCEPT !.err = IF Variant = "close-clears" /\ S.closed THEN "none" ELSE S.err]
    [] c.op = "Scanner" -> NoRet
    \* -------- Scanner
    \* Next "advances the row pointer to point at the next row ... returns true if there is a row which is
    \*  available to be scanned into with Scan."
    [] c.op = "Next" -> [NoRet EXCEPT !.b = IF Step(S).k = "row" THEN "t" ELSE "f"]
    \* Scan "copies the current row's columns into dest. If the length of dest does not equal the number of
    \*  columns returned in the row an error is returned. If an error is encountered when unmarshalling a column
    \*  into the value in dest an error is returned and the row is invalidated until the next call to Next.
    \*  Next must be called before calling Scan, if it is not an error is returned."
    [] c.op = "SScan" ->
         IF S.valid # "yes" THEN [NoRet EXCEPT !.err = "error"]
         ELSE IF c.v \in {"few", "many", "bad"} THEN [NoRet EXCEPT !.err = "error"]
         ELSE [NoRet EXCEPT !.vals = Dest(RowVals(scn, S.cur[1], S.cur[2]), c.v)]
    \* Err "returns the if there was one during iteration that resulted in iteration being unable to complete."
    [] c.op = "Err" -> [NoRet EXCEPT !.err = S.err]

Aft(S, c) ==
  LET scn == S.scn IN
  CASE c.op = "Iter" -> Opened(S)
    [] c.op \in {"Exec", "ExecBatch", "QScan", "QMapScan", "ScanCAS", "MapScanCAS"} -> [S EXCEPT !.mode = "end"]
    \* an error: nothing says whether an iterator comes back
    [] c.op \in {"ExecBatchCAS", "MapExecBatchCAS"} -> IF c.v = "bad" THEN [S EXCEPT !.mode = "end"] ELSE AfterBatchCAS(S)
    [] c.op \in {"Scan", "MapScan"} ->
         LET s == Step(S) IN
         IF s.k = "row" /\ c.v \in {"few", "many", "bad"}
         THEN IF Variant = "scan-error-not-sticky" THEN s.S ELSE [S EXCEPT !.err = "error", !.fin = TRUE]
         ELSE s.S
    [] c.op = "SliceMap" -> Drain(S).S
    [] c.op = "RowData" -> S
    [] c.op = "Close" -> [S EXCEPT !.closed = TRUE]
    [] c.op = "Scanner" -> [S EXCEPT !.mode = "scanner"]
    [] c.op = "Next" ->
         LET s == Step(S) IN
         IF s.k = "row" THEN [s.S EXCEPT !.valid = "yes", !.cur = <<s.S.page, s.S.pos>>]
         ELSE [s.S EXCEPT !.valid = "no"]
    [] c.op = "SScan" ->
         IF S.valid # "yes" THEN S
         ELSE IF c.v \in {"few", "many"} THEN [S EXCEPT !.valid = "unknown"]   \* nothing says whether the row survives
         ELSE IF Variant = "scanner-row-twice" /\ c.v \in {"ok", "nil1"} THEN S
         ELSE [S EXCEPT !.valid = "no"]
    [] c.op = "Err" -> [S EXCEPT !.mode = "end"]

-----------------------------------------------------------------------------
(* What the getters of an open, healthy iterator must show.                *)
(*   NumRows "returns the number of rows in this pagination, it will       *)
(*           update when new pages are fetched"                            *)
(*   Columns "returns the name and type of the selected columns"           *)
(*   PageState "return the current paging state for a query which can be   *)
(*           used for subsequent queries to resume paging this point"      *)
(*           (token k = the state the node sent with page k, 0 = none)     *)
(*   WillSwitchPage "detects if iterator reached end of current page and   *)
(*           the next page is available"                                   *)
(*   Warnings / GetCustomPayload: those of the response the current page   *)
(*           came in (the node labels every response with its page number) *)
(*   Host   "returns the host which the query was sent to"                 *)
Specified(S) == S.mode = "iter" /\ ~S.closed /\ S.err = "none"
Proj(S) ==
  IF ~Specified(S) THEN [spec |-> FALSE, nrows |-> 0, cols |-> <<>>, pstate |-> 0, wsp |-> FALSE, warn |-> 0, pay |-> 0, host |-> FALSE]
  ELSE [spec |-> TRUE, nrows |-> S.scn.pages[S.page], cols |-> Cols(S.scn),
        pstate |-> IF S.page < Len(S.scn.pages) THEN S.page ELSE 0,
        wsp |-> S.pos >= S.scn.pages[S.page] /\ S.page < Len(S.scn.pages),
        warn |-> S.page, pay |-> S.page, host |-> TRUE]

-----------------------------------------------------------------------------
(* The model: any scenario, any enabled call.  H is history kept only to   *)
(* state the properties independently of Res/Aft.                          *)
VARIABLES S, last, H
vars == <<S, last, H>>

H0 == [rows |-> <<>>,        \* rows handed to the caller so far (as destination-independent row values)
       ferr |-> "none",      \* the first error the iteration ran into
       cret |-> "unset",     \* what the first Close returned
       fin |-> FALSE,        \* a row-yielding call has returned false
       staged |-> FALSE]     \* scanner: the last scanner call was a Next that returned true

RowYielding(c) == c.op \in {"Scan", "MapScan", "Next", "SliceMap"}
Delivered(St, c, r) ==        \* rows a call hands over (Scanner: offers with Next)
  CASE c.op \in {"Scan", "MapScan", "Next"} /\ r.b = "t" -> <<Step(St).r>>    \* Next: the row is offered
    [] c.op = "SliceMap" -> r.rows
    [] c.op \in {"ExecBatchCAS", "MapExecBatchCAS"} /\ St.scn.fail = 0 -> <<RowVals(St.scn, 1, 1)>>
    [] OTHER -> <<>>
NewErr(St, St2) == IF St.err = "none" /\ St2.err # "none" THEN St2.err ELSE "none"

HNext(h, St, c, r, St2) ==
  [rows |-> h.rows \o Delivered(St, c, r),
   ferr |-> IF h.ferr = "none" THEN NewErr(St, St2) ELSE h.ferr,
   cret |-> IF c.op = "Close" /\ h.cret = "unset" THEN r.err ELSE h.cret,
   fin |-> h.fin \/ (RowYielding(c) /\ c.op # "SliceMap" /\ r.b = "f") \/ c.op = "SliceMap",
   staged |-> c.op = "Next" /\ r.b = "t"]

Init == /\ S \in {Init0(s) : s \in AllScenarios}
        /\ last = [call |-> Call("-", "-"), ret |-> NoRet]
        /\ H = H0

Do(c) == /\ En(S, c)
         /\ S' = Aft(S, c)
         /\ last' = [call |-> c, ret |-> Res(S, c)]
         /\ H' = HNext(H, S, c, Res(S, c), Aft(S, c))
Next == \E c \in Calls : Do(c)
Spec == Init /\ [][Next]_vars

\* a caller that keeps asking for rows is told the end (or an error) after finitely many calls: `for iter.Scan(...) {}`
\* and `for scanner.Next() {}` terminate ("Scan returns ... false if the end of the result set was reached or if an
\* error occurred")
FairSpec == Spec /\ WF_vars(Do(Call("Scan", "ok"))) /\ WF_vars(Do(Call("Next", "-")))
IterationEnds == [](S.mode \in {"iter", "scanner"} => <>(H.fin \/ S.closed \/ S.mode = "end"))

\* the same graph without the history (edge dump: the abstract state only)
DoS(c) == /\ En(S, c)
          /\ S' = Aft(S, c)
          /\ last' = [call |-> c, ret |-> Res(S, c)]
          /\ UNCHANGED H
SpecEdges == Init /\ [][\E c \in Calls : DoS(c)]_vars

-----------------------------------------------------------------------------
(* Properties (what a user of the driver relies on).                       *)
IsPrefix(a, b) == Len(a) <= Len(b) /\ \A i \in 1 .. Len(a) : a[i] = b[i]

TypeOK == /\ S.mode \in {"fresh", "iter", "scanner", "end"}
          /\ S.err \in {"none", "server", "error"}
          /\ last.ret.err \in {"none", "notfound", "server", "error"}

\* every row is handed over at most once, in the order the node sent them, whatever mix of Scan / MapScan /
\* SliceMap / Scanner the caller uses on one iterator
RowsInOrderOnce == IsPrefix(H.rows, AllRows(S.scn))

\* an iteration that ended without error has handed over every row
CompleteWhenNoError ==
  (S.mode \in {"iter", "scanner"} /\ H.fin /\ S.err = "none") => H.rows = AllRows(S.scn)

\* "Close should be called afterwards to retrieve any potential errors": an error stays until it is collected
StickyError == [][S.err # "none" => S'.err = S.err]_vars

\* once a row-yielding call has said "no more rows" (end or error) no later call yields a row
FinalIsFinal == [][(H.fin /\ RowYielding(last'.call)) =>
                     (last'.ret.b # "t" /\ last'.ret.rows = <<>>)]_vars

\* Close returns the first error of the query / iteration, every time it is called
CloseReturnsFirstError == [][last'.call.op = "Close" =>
                              /\ last'.ret.err = H.ferr
                              /\ (H.cret # "unset" => last'.ret.err = H.cret)]_vars
\* Scanner.Err likewise
ErrReturnsFirstError == [][last'.call.op = "Err" => last'.ret.err = H.ferr]_vars

\* a row-yielding call fails exactly when there is an error or no row, and the failure of a fetch is not
\* mistaken for the end of the result: after the iteration stopped short of AllRows, Close / Err report it
ErrorNotMaskedAsEnd ==
  (S.mode \in {"iter", "scanner"} /\ H.fin /\ Len(H.rows) < Len(AllRows(S.scn)) /\ Fails(S.scn)) => S.err # "none"

\* Scanner: "Next must be called before every call to Scan"
ScannerNeedsNext == [][(last'.call.op = "SScan" /\ last'.ret.err = "none") => H.staged]_vars

\* Query.Scan / MapScan: exactly the first row, or ErrNotFound, or the node's error
OneShotScan ==
  (last.call.op \in {"QScan", "QMapScan"}) =>
     LET scn == S.scn r == last.ret IN
     /\ (scn.fail = 1 <=> r.err = "server")
     /\ (scn.fail # 1 /\ ~FirstPageHasRow(scn) <=> r.err = "notfound")
     /\ (r.err = "none" => r.vals = Dest(RowVals(scn, 1, 1), last.call.v))

\* CAS helpers: applied is what the node said; not applied => the existing values, without the [applied] column
CASReportsApplied ==
  (last.call.op \in {"ScanCAS", "MapScanCAS", "ExecBatchCAS", "MapExecBatchCAS"}) =>
     LET scn == S.scn r == last.ret IN
     /\ (r.ap = "t" <=> scn.fail = 0 /\ scn.applied)
     /\ (r.err = "none" /\ r.ap = "f" => r.vals = Dest(Tail(RowVals(scn, 1, 1)), last.call.v))
     /\ ~("[applied]" \in {r.keys[i] : i \in 1 .. Len(r.keys)})

\* Exec / ExecuteBatch: the node's error or nil
ExecReportsError ==
  (last.call.op \in {"Exec", "ExecBatch"}) => (last.ret.err = "server" <=> S.scn.fail = 1)
=============================================================================
