------------------------------- MODULE Writer -------------------------------
(***************************************************************************)
(* The write side of a connection (conn.go): deadlineContextWriter (a      *)
(* semaphore around SetWriteDeadline/Write) and writeCoalescer (writers    *)
(* enqueue, one flusher writes the batch with net.Buffers.WriteTo and      *)
(* attributes the byte count to the writers), with a socket that may       *)
(* accept only a prefix of what it is given.  After a failed write the     *)
(* caller (exec) runs closeWithError, which closes `quit`; that is a       *)
(* separate, later step - the window in between is what property C07's     *)
(* last clause is about.                                                   *)
(*                                                                         *)
(* RefuseAfterTorn = TRUE : the writer remembers a torn frame and refuses  *)
(*                          every later write (the repaired protocol)      *)
(*                 = FALSE: a later writer may still write in the window   *)
(*                                                                         *)
(* The coalescer's flusher (conn.go writeFlusherImpl) is modelled at its   *)
(* own grain: a request is either refused on receipt (torn) or appended    *)
(* and the timer armed; the timer firing flushes whatever was collected    *)
(* and `broken` becomes the result of THAT flush.  ArmBeforeRefuse = TRUE  *)
(* is the wrong variant in which a refused request still arms the timer:   *)
(* the empty flush that follows clears `broken` (TLC must refute it).      *)
(***************************************************************************)
EXTENDS Integers, Sequences, FiniteSets, TLC

CONSTANTS Writers,          \* writer (request) identifiers
          FrameLen,         \* [Writers -> 1..n] frame sizes
          Coalesce,         \* TRUE: writeCoalescer, FALSE: deadlineContextWriter
          RefuseAfterTorn,  \* see above
          AllowCancel,      \* a writer's context may end before its write starts
          ArmBeforeRefuse,  \* wrong variant of the flusher (see above); FALSE = the code
          MaxFaults         \* socket write failures the environment may inject

None == "none"

VARIABLES pc,        \* per writer: "idle" | "waiting" | "holding" | "queued" | "failed" | "done"
          res,       \* per writer: result [n, err] of writeContext
          sem,       \* direct mode: holder of the semaphore or None
          batch,     \* coalescer: writers whose buffers the flusher has taken (sequence)
          wire,      \* bytes on the socket: sequence of writer ids (one entry per byte)
          torn,      \* the writer has seen a frame cut short (`broken` # nil)
          armed,     \* coalescer: the flush timer is running
          quit,      \* connection closed (closeWithError ran)
          faults     \* failures injected so far

vars == <<pc, res, sem, batch, wire, torn, armed, quit, faults>>

NoRes == [n |-> -1, err |-> None]

Init == /\ pc = [w \in Writers |-> "idle"]
        /\ res = [w \in Writers |-> NoRes]
        /\ sem = None /\ batch = <<>> /\ wire = <<>> /\ torn = FALSE /\ armed = FALSE /\ quit = FALSE /\ faults = 0

Bytes(w, k) == [i \in 1 .. k |-> w]
Return(w, n, e) == /\ res' = [res EXCEPT ![w] = [n |-> n, err |-> e]]
                   /\ pc' = [pc EXCEPT ![w] = IF e \in {None, "ctx", "closed", "torn"} THEN "done" ELSE "failed"]

\* ---- both modes: the select at the start of writeContext
Begin(w) ==
  /\ pc[w] = "idle"
  /\ \/ /\ AllowCancel /\ Return(w, 0, "ctx")                    \* ctx.Done() won
        /\ UNCHANGED <<sem, batch, armed>>
     \/ /\ quit /\ Return(w, 0, "closed")                         \* quit won
        /\ UNCHANGED <<sem, batch, armed>>
     \/ /\ ~Coalesce /\ sem = None                                \* semaphore acquired
        /\ sem' = w /\ pc' = [pc EXCEPT ![w] = "holding"] /\ UNCHANGED <<res, batch, armed>>
     \/ /\ Coalesce /\ ~quit                                      \* handed to the flusher (conn.go:993)
        /\ IF RefuseAfterTorn /\ torn
           THEN /\ Return(w, 0, "torn") /\ UNCHANGED batch          \* refused on receipt, timer left alone
                /\ armed' = (armed \/ ArmBeforeRefuse)
           ELSE /\ batch' = Append(batch, w) /\ pc' = [pc EXCEPT ![w] = "queued"] /\ UNCHANGED res
                /\ armed' = TRUE                                  \* "start timer on first write"
        /\ UNCHANGED sem
  /\ UNCHANGED <<wire, torn, quit, faults>>

\* ---- direct mode: Write under the semaphore; the socket takes k <= len bytes
DirectWrite(w, k) ==
  /\ ~Coalesce /\ pc[w] = "holding" /\ sem = w
  /\ k \in 0 .. FrameLen[w]
  /\ sem' = None
  /\ IF RefuseAfterTorn /\ torn
     THEN Return(w, 0, "torn") /\ UNCHANGED <<wire, torn, faults>>
     ELSE /\ (k < FrameLen[w] => faults < MaxFaults)
          /\ wire' = wire \o Bytes(w, k)
          /\ faults' = IF k < FrameLen[w] THEN faults + 1 ELSE faults
          /\ torn' = (torn \/ (0 < k /\ k < FrameLen[w]))
          /\ Return(w, k, IF k = FrameLen[w] THEN None ELSE "io")
  /\ UNCHANGED <<batch, armed, quit>>

\* ---- coalescer: the flusher writes the whole batch; the socket takes k bytes of it
Sum(seq) == LET RECURSIVE S(_) S(i) == IF i > Len(seq) THEN 0 ELSE FrameLen[seq[i]] + S(i + 1) IN S(1)
Prefix(seq, n) == SubSeq(seq, 1, n)

\* attribution loop of flush (conn.go:992-1008): writer i gets min(len_i, what is left)
Attr(seq, k, i) == LET before == Sum(Prefix(seq, i - 1))
                       left == IF k > before THEN k - before ELSE 0
                   IN IF left >= FrameLen[seq[i]] THEN FrameLen[seq[i]] ELSE left

BatchBytes(seq, k) ==
  LET RECURSIVE B(_, _) B(i, left) ==
        IF i > Len(seq) \/ left = 0 THEN <<>>
        ELSE LET n == IF left >= FrameLen[seq[i]] THEN FrameLen[seq[i]] ELSE left
             IN Bytes(seq[i], n) \o B(i + 1, left - n)
  IN B(1, k)

\* the timer fired (conn.go:1017): everything collected is written, `broken` = the result of this flush
Flush(k) ==
  /\ Coalesce /\ armed /\ ~quit
  /\ armed' = FALSE
  /\ k \in 0 .. Sum(batch)
  /\ IF batch = <<>>
     THEN /\ torn' = FALSE                    \* flush(nil, nil) reports nothing torn
          /\ UNCHANGED <<res, pc, wire, faults>>
     ELSE /\ (k < Sum(batch) => faults < MaxFaults)
          /\ wire' = wire \o BatchBytes(batch, k)
          /\ faults' = IF k < Sum(batch) THEN faults + 1 ELSE faults
          /\ torn' = (\E i \in 1 .. Len(batch) : 0 < Attr(batch, k, i) /\ Attr(batch, k, i) < FrameLen[batch[i]])
          /\ res' = [w \in Writers |->
                       IF \E i \in 1 .. Len(batch) : batch[i] = w
                       THEN LET i == CHOOSE j \in 1 .. Len(batch) : batch[j] = w
                                n == Attr(batch, k, i)
                            IN [n |-> n, err |-> IF n = FrameLen[w] THEN None ELSE "io"]
                       ELSE res[w]]
          /\ pc' = [w \in Writers |->
                       IF \E i \in 1 .. Len(batch) : batch[i] = w
                       THEN (IF Attr(batch, k, CHOOSE j \in 1 .. Len(batch) : batch[j] = w) = FrameLen[w] THEN "done" ELSE "failed")
                       ELSE pc[w]]
  /\ batch' = <<>>
  /\ UNCHANGED <<sem, quit>>

\* the flusher's quit arm: everybody queued is told io.EOF, nothing is written
FlusherQuit ==
  /\ Coalesce /\ quit /\ batch # <<>>
  /\ res' = [w \in Writers |-> IF \E i \in 1 .. Len(batch) : batch[i] = w THEN [n |-> 0, err |-> "closed"] ELSE res[w]]
  /\ pc' = [w \in Writers |-> IF \E i \in 1 .. Len(batch) : batch[i] = w THEN "done" ELSE pc[w]]
  /\ batch' = <<>>
  /\ UNCHANGED <<sem, wire, torn, armed, quit, faults>>

\* exec after a failed write (conn.go:1094-1112): closeWithError closes `quit`
CallerClose(w) ==
  /\ pc[w] = "failed"
  /\ quit' = TRUE
  /\ pc' = [pc EXCEPT ![w] = "done"]
  /\ UNCHANGED <<res, sem, batch, wire, torn, armed, faults>>

Next == \/ \E w \in Writers : Begin(w) \/ CallerClose(w) \/ \E k \in 0 .. FrameLen[w] : DirectWrite(w, k)
        \/ \E k \in 0 .. Sum(batch) : Flush(k)
        \/ FlusherQuit
        \/ ((\A w \in Writers : pc[w] = "done") /\ UNCHANGED vars)

Spec == Init /\ [][Next]_vars

-----------------------------------------------------------------------------
(* Properties (C07) on the byte stream *)

\* maximal runs of equal writer ids: <<w, count>>
Runs == LET RECURSIVE R(_, _) R(i, acc) ==
              IF i > Len(wire) THEN acc
              ELSE IF acc # <<>> /\ acc[Len(acc)][1] = wire[i]
                   THEN R(i + 1, [acc EXCEPT ![Len(acc)] = <<wire[i], acc[Len(acc)][2] + 1>>])
                   ELSE R(i + 1, Append(acc, <<wire[i], 1>>))
        IN R(1, <<>>)

\* each frame appears at most once and contiguously; only the last may be incomplete
WholeFrames ==
  LET r == Runs IN
  /\ \A i, j \in 1 .. Len(r) : i # j => r[i][1] # r[j][1]
  /\ \A i \in 1 .. Len(r) : r[i][2] <= FrameLen[r[i][1]]
  /\ \A i \in 1 .. Len(r) - 1 : r[i][2] = FrameLen[r[i][1]]

\* ... and an incomplete frame is last and the connection is then closed
NothingAfterPartial ==
  LET r == Runs IN \A i \in 1 .. Len(r) : r[i][2] < FrameLen[r[i][1]] => i = Len(r)

OkImpliesWhole ==
  \A w \in Writers : (res[w].err = None /\ res[w].n >= 0) =>
     (res[w].n = FrameLen[w] /\ \E i \in 1 .. Len(Runs) : Runs[i] = <<w, FrameLen[w]>>)

NotStartedNoBytes ==
  \A w \in Writers : res[w].err \in {"ctx", "closed", "torn"} => \A i \in 1 .. Len(wire) : wire[i] # w

\* the count reported to a writer is the number of its bytes on the wire
CountExact ==
  \A w \in Writers : res[w].n >= 0 => res[w].n = Cardinality({i \in 1 .. Len(wire) : wire[i] = w})
=============================================================================
