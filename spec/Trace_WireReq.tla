---------------------------- MODULE Trace_WireReq ----------------------------
(***************************************************************************)
(* C03, code -> spec: validates vectors recorded from the real frame       *)
(* builders (NDJSON: logical request, protocol version, bytes produced or  *)
(* the refusal) against the reference decoder of WireReq.tla, one vector   *)
(* per step.  Prints VFVERDICT for every vector that is not plainly "ok"   *)
(* and a VFTALLY at the end.  Records with a field `sum` are run-length    *)
(* summaries of the 65535/65536 boundary.                                  *)
(***************************************************************************)
EXTENDS WireReq, TLC, Json, IOUtils

Log == ndJsonDeserialize(IOEnv.VF_TRACE)
Opt == [cmark |-> <<197>>, mid |-> FALSE]

VARIABLES l, tally
vars == <<l, tally>>

Classes == {"ok", "refused", "downgraded", "refused-expressible", "malformed", "mismatch"}
IsSummary(rec) == "sum" \in DOMAIN rec

VerdictOf(rec) ==
  IF IsSummary(rec)
  THEN LET c == SummaryVerdict(rec) IN
       [class |-> IF c \in {"malformed-count", "mismatch-count"} THEN (IF c = "malformed-count" THEN "malformed" ELSE "mismatch") ELSE c,
        why |-> IF c \in {"malformed-count", "mismatch-count"} THEN "count-field-differs-from-entries-present" ELSE "", layout |-> ""]
  ELSE Verdict(rec, Opt)

Init == l = 1 /\ tally = [c \in Classes |-> 0]
Next == /\ l <= Len(Log)
        /\ LET v == VerdictOf(Log[l]) IN
           /\ tally' = [tally EXCEPT ![v.class] = @ + 1]
           /\ (v.class # "ok" \/ v.layout # "") =>
                PrintT(<<"VFVERDICT", ToJson([id |-> Log[l].id, class |-> v.class, why |-> v.why, layout |-> v.layout])>>)
           /\ (IsSummary(Log[l]) /\ Log[l].bytes # <<>>) =>
                \* corroboration that does not depend on the harness's reader: the whole frame
                \* through the reference decoder (cheap when the count field wrapped to 0 or 1)
                LET d == DecodeRequest(Log[l].bytes, Log[l].v, Opt) IN
                PrintT(<<"VFDIRECT", ToJson([id |-> Log[l].id, ok |-> d.ok, why |-> d.why])>>)
        /\ l' = l + 1
Spec == Init /\ [][Next]_vars

Done == l = Len(Log) + 1 => PrintT(<<"VFTALLY", ToJson([n |-> Len(Log), tally |-> tally])>>)
=============================================================================
