------------------------------ MODULE WireResp ------------------------------
(***************************************************************************)
(* Reference ENCODER for the response side of the CQL native protocol,     *)
(* written from native_protocol_v1.spec .. native_protocol_v5.spec         *)
(* (sections "frame header", "notations", "RESULT", "EVENT", "ERROR        *)
(* codes", "[option]" type descriptors) - not from the driver's sources.   *)
(* Property C04: whatever a well-formed response frame says is what the    *)
(* driver reports.  `Frame(l)` is the byte string of the logical response  *)
(* `l`; `ExpView(l, mode)` is what an application must then see.           *)
(*                                                                         *)
(* Conventions.  Strings are sequences of bytes (UTF-8), so protocol       *)
(* strings, blobs and ids have one sort and compare exactly.  Optional     *)
(* [bytes] are records [null, b].  Maps are sequences of entries with      *)
(* distinct keys in ascending byte order (the harness sorts what it gets   *)
(* from Go maps the same way).                                             *)
(*                                                                         *)
(* v5 is the protocol "as implemented" by the driver under test (v5-beta   *)
(* without the later additions): legacy frame format (no v5 segments /     *)
(* CRC), PREPARED without <result_metadata_id>, Rows metadata without the  *)
(* Metadata_changed flag, WRITE_TIMEOUT without <contentions> (the         *)
(* generator never emits write type "CAS" in v5).  Read/Write_failure use  *)
(* the v5 <reasonmap>.                                                     *)
(***************************************************************************)
EXTENDS Integers, Sequences, FiniteSets, TLC

\* ------------------------------------------------------------------ strings used on the wire
S_TOPOLOGY_CHANGE == <<84, 79, 80, 79, 76, 79, 71, 89, 95, 67, 72, 65, 78, 71, 69>>
S_STATUS_CHANGE == <<83, 84, 65, 84, 85, 83, 95, 67, 72, 65, 78, 71, 69>>
S_SCHEMA_CHANGE == <<83, 67, 72, 69, 77, 65, 95, 67, 72, 65, 78, 71, 69>>
S_NEW_NODE == <<78, 69, 87, 95, 78, 79, 68, 69>>
S_REMOVED_NODE == <<82, 69, 77, 79, 86, 69, 68, 95, 78, 79, 68, 69>>
S_MOVED_NODE == <<77, 79, 86, 69, 68, 95, 78, 79, 68, 69>>
S_UP == <<85, 80>>
S_DOWN == <<68, 79, 87, 78>>
S_CREATED == <<67, 82, 69, 65, 84, 69, 68>>
S_UPDATED == <<85, 80, 68, 65, 84, 69, 68>>
S_DROPPED == <<68, 82, 79, 80, 80, 69, 68>>
S_KEYSPACE == <<75, 69, 89, 83, 80, 65, 67, 69>>
S_TABLE == <<84, 65, 66, 76, 69>>
S_TYPE == <<84, 89, 80, 69>>
S_FUNCTION == <<70, 85, 78, 67, 84, 73, 79, 78>>
S_AGGREGATE == <<65, 71, 71, 82, 69, 71, 65, 84, 69>>
S_SIMPLE == <<83, 73, 77, 80, 76, 69>>
S_BATCH == <<66, 65, 84, 67, 72>>
S_UNLOGGED_BATCH == <<85, 78, 76, 79, 71, 71, 69, 68, 95, 66, 65, 84, 67, 72>>
S_COUNTER == <<67, 79, 85, 78, 84, 69, 82>>
S_BATCH_LOG == <<66, 65, 84, 67, 72, 95, 76, 79, 71>>
S_CAS == <<67, 65, 83>>
S_CQL_VERSION == <<67, 81, 76, 95, 86, 69, 82, 83, 73, 79, 78>>
S_COMPRESSION == <<67, 79, 77, 80, 82, 69, 83, 83, 73, 79, 78>>
S_PROTOCOL_VERSIONS == <<80, 82, 79, 84, 79, 67, 79, 76, 95, 86, 69, 82, 83, 73, 79, 78, 83>>
S_3_4_5 == <<51, 46, 52, 46, 53>>
S_3_0_0 == <<51, 46, 48, 46, 48>>
S_snappy == <<115, 110, 97, 112, 112, 121>>
S_lz4 == <<108, 122, 52>>
S_4_v4 == <<52, 47, 118, 52>>
S_5_v5_beta == <<53, 47, 118, 53, 45, 98, 101, 116, 97>>
S_ks == <<107, 115>>
S_ks1 == <<107, 115, 49>>
S_ks2 == <<107, 115, 50>>
S_tbl == <<116, 98, 108>>
S_t1 == <<116, 49>>
S_t2 == <<116, 50>>
S_a == <<97>>
S_b == <<98>>
S_c == <<99>>
S_col == <<99, 111, 108>>
S_f1 == <<102, 49>>
S_f2 == <<102, 50>>
S_udt1 == <<117, 100, 116, 49>>
S_empty == <<>>
S_PasswordAuthenticator == <<111, 114, 103, 46, 97, 112, 97, 99, 104, 101, 46, 99, 97, 115, 115, 97, 110, 100, 114, 97, 46, 97, 117, 116, 104, 46, 80, 97, 115, 115, 119, 111, 114, 100, 65, 117, 116, 104, 101, 110, 116, 105, 99, 97, 116, 111, 114>>
S_com_example_Auth == <<99, 111, 109, 46, 101, 120, 97, 109, 112, 108, 101, 46, 65, 117, 116, 104>>
S_marshal_Int32Type == <<111, 114, 103, 46, 97, 112, 97, 99, 104, 101, 46, 99, 97, 115, 115, 97, 110, 100, 114, 97, 46, 100, 98, 46, 109, 97, 114, 115, 104, 97, 108, 46, 73, 110, 116, 51, 50, 84, 121, 112, 101>>
S_marshal_UTF8Type == <<111, 114, 103, 46, 97, 112, 97, 99, 104, 101, 46, 99, 97, 115, 115, 97, 110, 100, 114, 97, 46, 100, 98, 46, 109, 97, 114, 115, 104, 97, 108, 46, 85, 84, 70, 56, 84, 121, 112, 101>>
S_com_example_MyType == <<99, 111, 109, 46, 101, 120, 97, 109, 112, 108, 101, 46, 77, 121, 84, 121, 112, 101>>
S_marshal_DynamicComposite == <<111, 114, 103, 46, 97, 112, 97, 99, 104, 101, 46, 99, 97, 115, 115, 97, 110, 100, 114, 97, 46, 100, 98, 46, 109, 97, 114, 115, 104, 97, 108, 46, 68, 121, 110, 97, 109, 105, 99, 67, 111, 109, 112, 111, 115, 105, 116, 101, 84, 121, 112, 101, 40, 97, 61, 62, 111, 114, 103, 46, 97, 112, 97, 99, 104, 101, 46, 99, 97, 115, 115, 97, 110, 100, 114, 97, 46, 100, 98, 46, 109, 97, 114, 115, 104, 97, 108, 46, 66, 121, 116, 101, 115, 84, 121, 112, 101, 41>>
S_err == <<101, 114, 114>>
S_unavailable_cafe == <<117, 110, 97, 118, 97, 105, 108, 97, 98, 108, 101, 58, 32, 99, 97, 102, 195, 169>>   \* "unavailable: café"
S_int == <<105, 110, 116>>
S_text == <<116, 101, 120, 116>>
S_fn == <<102, 110>>
S_agg == <<97, 103, 103>>
S_list_int == <<108, 105, 115, 116, 60, 105, 110, 116, 62>>
S_warn_one == <<119, 97, 114, 110, 32, 111, 110, 101>>
S_w2 == <<119, 50>>
S_key1 == <<107, 101, 121, 49>>
S_key2 == <<107, 101, 121, 50>>
S_hello == <<104, 101, 108, 108, 111>>
S_hello_utf8 == <<104, 195, 169, 108, 108, 111>>

\* ------------------------------------------------------------------ notations (protocol section 3)
Short(n) == <<(n \div 256) % 256, n % 256>>                                     \* [short]; also the 2-byte stream id (two's complement)
Int32(n) == <<(n \div 16777216) % 256, (n \div 65536) % 256, (n \div 256) % 256, n % 256>>   \* [int], two's complement (\div floors)

RECURSIVE Flat(_)
Flat(ss) == IF Len(ss) = 0 THEN <<>> ELSE Head(ss) \o Flat(Tail(ss))
Map(s, F(_)) == [i \in 1 .. Len(s) |-> F(s[i])]

WString(s) == Short(Len(s)) \o s                                                \* [string]
WStringList(l) == Short(Len(l)) \o Flat(Map(l, WString))                        \* [string list]
WBytes(o) == IF o.null THEN Int32(-1) ELSE Int32(Len(o.b)) \o o.b               \* [bytes], length < 0 = null
WShortBytes(b) == Short(Len(b)) \o b                                            \* [short bytes]
WMultiEntry(e) == WString(e.k) \o WStringList(e.vals)
WStringMultimap(m) == Short(Len(m)) \o Flat(Map(m, WMultiEntry))                \* [string multimap]
WBytesEntry(e) == WString(e.k) \o WBytes(e)
WBytesMap(m) == Short(Len(m)) \o Flat(Map(m, WBytesEntry))                      \* [bytes map]
WInetAddr(a) == <<Len(a)>> \o a                                                 \* [inetaddr]: size byte, address
WInet(a, port) == WInetAddr(a) \o Int32(port)                                   \* [inet]: address then [int] port
Some(b) == [null |-> FALSE, b |-> b]
Null == [null |-> TRUE, b |-> <<>>]

\* ------------------------------------------------------------------ [option] type descriptors
\* A type is a record [id, custom, ks, name, fnames, args] (one shape for every node so that
\* trees compare without sort trouble): id as in the protocol's option table; custom = class
\* name for id 0; ks/name/fnames for a UDT; args = element types (list/set: 1, map: key and
\* value, tuple: n, UDT: one per field).
T_Custom == 0
T_List == 32
T_Map == 33
T_Set == 34
T_UDT == 48
T_Tuple == 49
Ty(id) == [id |-> id, custom |-> <<>>, ks |-> <<>>, name |-> <<>>, fnames |-> <<>>, args |-> <<>>]
TyCustom(class) == [Ty(T_Custom) EXCEPT !.custom = class]
TyList(e) == [Ty(T_List) EXCEPT !.args = <<e>>]
TySet(e) == [Ty(T_Set) EXCEPT !.args = <<e>>]
TyMap(k, v) == [Ty(T_Map) EXCEPT !.args = <<k, v>>]
TyTuple(es) == [Ty(T_Tuple) EXCEPT !.args = es]
TyUDT(ks, name, fnames, ftypes) == [Ty(T_UDT) EXCEPT !.ks = ks, !.name = name, !.fnames = fnames, !.args = ftypes]

RECURSIVE WType(_)
WType(t) ==
  Short(t.id) \o
  CASE t.id = T_Custom -> WString(t.custom)
    [] t.id \in {T_List, T_Set} -> WType(t.args[1])
    [] t.id = T_Map -> WType(t.args[1]) \o WType(t.args[2])
    [] t.id = T_UDT -> WString(t.ks) \o WString(t.name) \o Short(Len(t.args)) \o
                       Flat([i \in 1 .. Len(t.args) |-> WString(t.fnames[i]) \o WType(t.args[i])])
    [] t.id = T_Tuple -> Short(Len(t.args)) \o Flat([i \in 1 .. Len(t.args) |-> WType(t.args[i])])
    [] OTHER -> <<>>

\* ------------------------------------------------------------------ result metadata
\* M = [global, more, nometa : BOOLEAN, paging : bytes, gks, gtable : string,
\*      cols : Seq([ks, table, name : string, type])].  With `global` every column's
\* ks/table equal gks/gtable.  With `nometa` the column count is still sent, the specs are not.
F_GLOBAL == 1
F_MORE == 2
F_NOMETA == 4
MFlags(m) == (IF m.global THEN F_GLOBAL ELSE 0) + (IF m.more THEN F_MORE ELSE 0) + (IF m.nometa THEN F_NOMETA ELSE 0)
WColSpec(c, global) == (IF global THEN <<>> ELSE WString(c.ks) \o WString(c.table)) \o WString(c.name) \o WType(c.type)
WColSpecs(m) ==
  IF m.nometa THEN <<>>
  ELSE (IF m.global THEN WString(m.gks) \o WString(m.gtable) ELSE <<>>) \o
       Flat([i \in 1 .. Len(m.cols) |-> WColSpec(m.cols[i], m.global)])
\* Rows metadata: <flags><columns_count>[<paging_state>][<global_table_spec>?<col_spec_1>...]
WRowsMeta(m) == Int32(MFlags(m)) \o Int32(Len(m.cols)) \o (IF m.more THEN WBytes(Some(m.paging)) ELSE <<>>) \o WColSpecs(m)
\* Prepared metadata: <flags><columns_count>[v4+: <pk_count><pk_index>*][<global_table_spec>?<col_spec_1>...]
WPrepMeta(v, m, pk) ==
  Int32(MFlags(m)) \o Int32(Len(m.cols)) \o
  (IF v >= 4 THEN Int32(Len(pk)) \o Flat(Map(pk, Short)) ELSE <<>>) \o WColSpecs(m)

\* rows content: each cell a [bytes]; a cell is a record with at least [null, b]
WRow(r) == Flat(Map(r, WBytes))
WRowsContent(rows) == Flat(Map(rows, WRow))

\* ------------------------------------------------------------------ a tiny value encoder (only what the row consumers need;
\* byte-exact value encodings are property C12's business).  A cell carries the wire bytes, its
\* rendering when scanned into a pointer destination (rp: null stays "null") and into a
\* destination the driver allocates itself (rz: null is the documented zero value), and for a
\* tuple the cells of its elements (a tuple column is scanned into one destination per element).
RECURSIVE JoinInts(_)
JoinInts(xs) == IF Len(xs) = 0 THEN "" ELSE IF Len(xs) = 1 THEN ToString(xs[1]) ELSE ToString(xs[1]) \o "," \o JoinInts(Tail(xs))
Cell(null, b, rp, rz, elems) == [null |-> null, b |-> b, rp |-> rp, rz |-> rz, elems |-> elems]
COpaque(b) == Cell(FALSE, b, "", "", <<>>)
CNullOpaque == Cell(TRUE, <<>>, "", "", <<>>)
CInt(n) == Cell(FALSE, Int32(n), ToString(n), ToString(n), <<>>)
CNullInt == Cell(TRUE, <<>>, "null", "0", <<>>)
CText(s) == Cell(FALSE, s, "t:" \o JoinInts(s), "t:" \o JoinInts(s), <<>>)
CNullText == Cell(TRUE, <<>>, "null", "t:", <<>>)
CBool(x) == Cell(FALSE, <<IF x THEN 1 ELSE 0>>, IF x THEN "true" ELSE "false", IF x THEN "true" ELSE "false", <<>>)
CNullBool == Cell(TRUE, <<>>, "null", "false", <<>>)
\* list<int>: v3+ [int] count and [int]-prefixed elements, v1/v2 [short] count and [short]-prefixed elements
\* long values are shown in digest form on both sides: length, first and last element
ListR(xs) == IF Len(xs) > 64 THEN "[#" \o ToString(Len(xs)) \o "/" \o ToString(xs[1]) \o "/" \o ToString(xs[Len(xs)]) \o "]"
             ELSE "[" \o JoinInts(xs) \o "]"
BlobR(bs) == IF Len(bs) > 64 THEN "b#" \o ToString(Len(bs)) \o "/" \o ToString(bs[1]) \o "/" \o ToString(bs[Len(bs)])
             ELSE "b:" \o JoinInts(bs)
CListInt(v, xs) ==
  LET r == ListR(xs)
      item(x) == IF v >= 3 THEN Int32(4) \o Int32(x) ELSE Short(4) \o Int32(x)
  IN Cell(FALSE, (IF v >= 3 THEN Int32(Len(xs)) ELSE Short(Len(xs))) \o Flat(Map(xs, item)), r, r, <<>>)
CNullList == Cell(TRUE, <<>>, "null", "[]", <<>>)
\* blob: the bytes as they are.  A []byte destination cannot tell null from empty (both are
\* rendered "b:"); the raw consumers compare the null-ness of every cell exactly.
CBlob(bs) == Cell(FALSE, bs, "b:" \o JoinInts(bs), "b:" \o JoinInts(bs), <<>>)
CNullBlob == Cell(TRUE, <<>>, "b:", "b:", <<>>)
\* map<int,int> (keys ascending): count, then per entry key and value, each length-prefixed
\* ([int] count/lengths from v3, [short] before)
RECURSIVE JoinPairs(_, _)
JoinPairs(ks, vs) == IF Len(ks) = 0 THEN ""
                     ELSE ToString(ks[1]) \o ":" \o ToString(vs[1]) \o (IF Len(ks) = 1 THEN "" ELSE "," \o JoinPairs(Tail(ks), Tail(vs)))
CMapIntInt(v, ks, vs) ==
  LET r == "{" \o JoinPairs(ks, vs) \o "}"
      len(n) == IF v >= 3 THEN Int32(n) ELSE Short(n)
  IN Cell(FALSE, len(Len(ks)) \o Flat([i \in 1 .. Len(ks) |-> len(4) \o Int32(ks[i]) \o len(4) \o Int32(vs[i])]), r, r, <<>>)
CNullMap == Cell(TRUE, <<>>, "null", "{}", <<>>)
\* UDT values: the fields as successive [bytes]; a value may carry fewer fields than the type has
\* (the missing trailing ones count as null).  names/kinds describe the type's fields, fs are the
\* field cells sent.  A Go destination shows the fields in `vis` (a struct that lacks a field simply
\* does not get it; a map or a UDTUnmarshaler sees all of them); null/missing fields read as the
\* zero value, except for a UDTUnmarshaler (raw), which is handed the bytes of each field as sent.
ZeroOf(kind) == IF kind = "int" THEN "0" ELSE "t:"
RawOf(c) == IF c.null THEN "null" ELSE "b:" \o JoinInts(c.b)
RECURSIVE JoinStrs(_)
JoinStrs(ss) == IF Len(ss) = 0 THEN "" ELSE IF Len(ss) = 1 THEN ss[1] ELSE ss[1] \o "," \o JoinStrs(Tail(ss))
UdtRender(names, kinds, fs, isnull, vis, raw) ==
  LET val(i) == IF isnull \/ i > Len(fs) THEN (IF raw THEN "null" ELSE ZeroOf(kinds[i]))
                ELSE IF raw THEN RawOf(fs[i]) ELSE fs[i].rz
  IN "{" \o JoinStrs([j \in 1 .. Len(vis) |-> names[vis[j]] \o "=" \o val(vis[j])]) \o "}"
AllOf(names) == [i \in 1 .. Len(names) |-> i]
CUdt(names, kinds, fs, vis, raw) ==
  Cell(FALSE, Flat(Map(fs, WBytes)), UdtRender(names, kinds, fs, FALSE, vis, raw), UdtRender(names, kinds, fs, FALSE, AllOf(names), FALSE), <<>>)
CNullUdt(names, kinds, vis, raw) ==
  Cell(TRUE, <<>>, UdtRender(names, kinds, <<>>, TRUE, vis, raw), UdtRender(names, kinds, <<>>, TRUE, AllOf(names), FALSE), <<>>)
\* collections of arbitrary element cells (v3+ framing; UDTs exist from v3)
RpOf(c) == c.rp
RzOf(c) == c.rz
CListOf(es) == Cell(FALSE, Int32(Len(es)) \o Flat(Map(es, WBytes)), "[" \o JoinStrs(Map(es, RpOf)) \o "]", "[" \o JoinStrs(Map(es, RzOf)) \o "]", <<>>)
CMapIntOf(ks, es) ==
  Cell(FALSE, Int32(Len(ks)) \o Flat([i \in 1 .. Len(ks) |-> Int32(4) \o Int32(ks[i]) \o WBytes(es[i])]),
       "{" \o JoinStrs([i \in 1 .. Len(ks) |-> ToString(ks[i]) \o ":" \o es[i].rp]) \o "}",
       "{" \o JoinStrs([i \in 1 .. Len(ks) |-> ToString(ks[i]) \o ":" \o es[i].rz]) \o "}", <<>>)
\* big collections.  The [short] counts and lengths of v1/v2 are unsigned (up to 65535).
CLen(v, n) == IF v >= 3 THEN Int32(n) ELSE Short(n)
\* list<int> with many elements, built without recursion (6 resp. 8 bytes per element)
CListIntBig(v, xs) ==
  LET w == IF v >= 3 THEN 8 ELSE 6
      pre == IF v >= 3 THEN Int32(4) ELSE Short(4)
      body == [i \in 1 .. Len(xs) * w |-> LET j == ((i - 1) \div w) + 1
                                                o == ((i - 1) % w) + 1
                                            IN IF o <= w - 4 THEN pre[o] ELSE Int32(xs[j])[o - (w - 4)]]
  IN Cell(FALSE, CLen(v, Len(xs)) \o body, ListR(xs), ListR(xs), <<>>)
\* list<blob> / set<blob>: es are byte strings
CListBlob(v, es) ==
  LET item(e) == CLen(v, Len(e)) \o e
      r == "[" \o JoinStrs(Map(es, BlobR)) \o "]"
  IN Cell(FALSE, CLen(v, Len(es)) \o Flat(Map(es, item)), r, r, <<>>)
\* map<int,blob>, keys ascending
CMapIntBlob(v, ks, es) ==
  LET r == "{" \o JoinStrs([i \in 1 .. Len(ks) |-> ToString(ks[i]) \o ":" \o BlobR(es[i])]) \o "}"
  IN Cell(FALSE, CLen(v, Len(ks)) \o Flat([i \in 1 .. Len(ks) |-> CLen(v, 4) \o Int32(ks[i]) \o CLen(v, Len(es[i])) \o es[i]]), r, r, <<>>)
\* tuple: the concatenation of its elements as [bytes]
CTuple(es) == Cell(FALSE, Flat(Map(es, WBytes)), "", "", es)
CNullTuple(nullelems) == Cell(TRUE, <<>>, "", "", nullelems)

\* ------------------------------------------------------------------ frames
\* header flags
HF_COMPRESS == 1
HF_TRACING == 2
HF_PAYLOAD == 4
HF_WARNING == 8
HFlags(l) == (IF l.tracing THEN HF_TRACING ELSE 0) + (IF l.pay THEN HF_PAYLOAD ELSE 0) + (IF l.warn THEN HF_WARNING ELSE 0)
Opcode(kind) ==
  CASE kind = "ERROR" -> 0 [] kind = "READY" -> 2 [] kind = "AUTHENTICATE" -> 3 [] kind = "SUPPORTED" -> 6
    [] kind \in {"RESULT_VOID", "RESULT_ROWS", "RESULT_KEYSPACE", "RESULT_PREPARED", "RESULT_SCHEMA"} -> 8
    [] kind \in {"EVENT_TOPOLOGY", "EVENT_STATUS", "EVENT_SCHEMA"} -> 12
    [] kind = "AUTH_CHALLENGE" -> 14 [] kind = "AUTH_SUCCESS" -> 16
\* <version|0x80><flags><stream: 1 byte in v1/v2, 2 bytes from v3><opcode><length>
Header(v, flags, stream, op, len) ==
  <<128 + v, flags>> \o (IF v >= 3 THEN Short(stream) ELSE <<stream % 256>>) \o <<op>> \o Int32(len)

\* flag-announced prefixes, in the order the specification gives: tracing id [uuid], then
\* warnings [string list] (v4+), then custom payload [bytes map] (v4+)
Prefix(l) == (IF l.tracing THEN l.traceid ELSE <<>>) \o
             (IF l.warn THEN WStringList(l.warnings) ELSE <<>>) \o
             (IF l.pay THEN WBytesMap(l.payload) ELSE <<>>)

\* ERROR: <code [int]><message [string]> and the code-specific rest.  The body record e carries
\* a superset of fields: cl, n1, n2, n3, flag, s1, s2, list, id, rmap (unused ones at defaults).
WReason(r) == WInetAddr(r.addr) \o Short(r.code)
WReasonMap(rm) == Int32(Len(rm)) \o Flat(Map(rm, WReason))
ErrRest(v, e) ==
  CASE e.code = 4096 -> Short(e.cl) \o Int32(e.n1) \o Int32(e.n2)                       \* 0x1000 Unavailable <cl><required><alive>
    [] e.code = 4352 -> Short(e.cl) \o Int32(e.n1) \o Int32(e.n2) \o WString(e.s1)      \* 0x1100 Write_timeout <cl><received><blockfor><writeType>
    [] e.code = 4608 -> Short(e.cl) \o Int32(e.n1) \o Int32(e.n2) \o <<e.flag>>         \* 0x1200 Read_timeout <cl><received><blockfor><data_present>
    [] e.code = 4864 -> Short(e.cl) \o Int32(e.n1) \o Int32(e.n2) \o                    \* 0x1300 Read_failure (v4: <numfailures>, v5: <reasonmap>) <data_present>
                        (IF v >= 5 THEN WReasonMap(e.rmap) ELSE Int32(e.n3)) \o <<e.flag>>
    [] e.code = 5120 -> WString(e.s1) \o WString(e.s2) \o WStringList(e.list)           \* 0x1400 Function_failure <keyspace><function><arg_types>
    [] e.code = 5376 -> Short(e.cl) \o Int32(e.n1) \o Int32(e.n2) \o                    \* 0x1500 Write_failure (v4: <numfailures>, v5: <reasonmap>) <write_type>
                        (IF v >= 5 THEN WReasonMap(e.rmap) ELSE Int32(e.n3)) \o WString(e.s1)
    [] e.code = 5632 -> <<>>                                                            \* 0x1600 CDC_WRITE_FAILURE: nothing more
    [] e.code = 5888 -> Short(e.cl) \o Int32(e.n1) \o Int32(e.n2)                       \* 0x1700 CAS_WRITE_UNKNOWN <cl><received><blockfor>
    [] e.code = 9216 -> WString(e.s1) \o WString(e.s2)                                  \* 0x2400 Already_exists <ks><table>
    [] e.code = 9472 -> WShortBytes(e.id)                                               \* 0x2500 Unprepared <id>
    [] OTHER -> <<>>  \* 0x0000 0x000A 0x0100 0x1001 0x1002 0x1003 0x2000 0x2100 0x2200 0x2300
ErrBody(v, e) == Int32(e.code) \o WString(e.msg) \o ErrRest(v, e)

\* schema change (RESULT kind 5 and EVENT "SCHEMA_CHANGE"):
\*   v1/v2: <change><keyspace><table>, table empty for a keyspace change
\*   v3+  : <change_type><target><options>; KEYSPACE: <ks>; TABLE/TYPE: <ks><name>;
\*          v4+ FUNCTION/AGGREGATE: <ks><name><arg types [string list]>
SchemaBody(v, s) ==
  IF v <= 2 THEN WString(s.change) \o WString(s.ks) \o WString(IF s.target = "KEYSPACE" THEN <<>> ELSE s.name)
  ELSE WString(s.change) \o
       CASE s.target = "KEYSPACE" -> WString(S_KEYSPACE) \o WString(s.ks)
         [] s.target = "TABLE" -> WString(S_TABLE) \o WString(s.ks) \o WString(s.name)
         [] s.target = "TYPE" -> WString(S_TYPE) \o WString(s.ks) \o WString(s.name)
         [] s.target = "FUNCTION" -> WString(S_FUNCTION) \o WString(s.ks) \o WString(s.name) \o WStringList(s.args)
         [] s.target = "AGGREGATE" -> WString(S_AGGREGATE) \o WString(s.ks) \o WString(s.name) \o WStringList(s.args)

RowsBody(b) == WRowsMeta(b.meta) \o Int32(Len(b.rows)) \o WRowsContent(b.rows)
\* RESULT Prepared: <id [short bytes]><metadata>, from v2 also <result_metadata>.  v5 "as
\* implemented": no <result_metadata_id> (see the module comment).
PreparedBody(v, b) == WShortBytes(b.id) \o WPrepMeta(v, b.req, b.pk) \o (IF v >= 2 THEN WRowsMeta(b.res) ELSE <<>>)

Body(l) ==
  LET b == l.b IN
  CASE l.kind = "READY" -> <<>>
    [] l.kind = "AUTHENTICATE" -> WString(b.class)
    [] l.kind \in {"AUTH_CHALLENGE", "AUTH_SUCCESS"} -> WBytes(b)
    [] l.kind = "SUPPORTED" -> WStringMultimap(b.opts)
    [] l.kind = "ERROR" -> ErrBody(l.v, b)
    [] l.kind = "RESULT_VOID" -> Int32(1)
    [] l.kind = "RESULT_ROWS" -> Int32(2) \o RowsBody(b)
    [] l.kind = "RESULT_KEYSPACE" -> Int32(3) \o WString(b.ks)
    [] l.kind = "RESULT_PREPARED" -> Int32(4) \o PreparedBody(l.v, b)
    [] l.kind = "RESULT_SCHEMA" -> Int32(5) \o SchemaBody(l.v, b)
    [] l.kind = "EVENT_TOPOLOGY" -> WString(S_TOPOLOGY_CHANGE) \o WString(b.change) \o WInet(b.addr, b.port)
    [] l.kind = "EVENT_STATUS" -> WString(S_STATUS_CHANGE) \o WString(b.change) \o WInet(b.addr, b.port)
    [] l.kind = "EVENT_SCHEMA" -> WString(S_SCHEMA_CHANGE) \o SchemaBody(l.v, b)

FullBody(l) == Prefix(l) \o Body(l)
Frame(l) == LET body == FullBody(l) IN Header(l.v, HFlags(l), l.stream, Opcode(l.kind), Len(body)) \o body

\* ------------------------------------------------------------------ what the application must see
ErrType(code) ==
  CASE code = 4096 -> "RequestErrUnavailable" [] code = 4352 -> "RequestErrWriteTimeout"
    [] code = 4608 -> "RequestErrReadTimeout" [] code = 4864 -> "RequestErrReadFailure"
    [] code = 5120 -> "RequestErrFunctionFailure" [] code = 5376 -> "RequestErrWriteFailure"
    [] code = 5632 -> "RequestErrCDCWriteFailure" [] code = 5888 -> "RequestErrCASWriteUnknown"
    [] code = 9216 -> "RequestErrAlreadyExists" [] code = 9472 -> "RequestErrUnprepared"
    [] OTHER -> "plain"

MetaView(m, pkv) ==
  [flags |-> MFlags(m), colcount |-> Len(m.cols), paging |-> IF m.more THEN m.paging ELSE <<>>,
   cols |-> IF m.nometa THEN <<>> ELSE m.cols]

\* consumers of the rows.  A raw destination (an Unmarshaler) is handed the bytes of a cell as
\* they are; a tuple column takes one destination per element.
RawCell(c) == [null |-> c.null, b |-> c.b]
RawRow(r) == Flat([i \in 1 .. Len(r) |-> IF Len(r[i].elems) > 0 THEN Map(r[i].elems, RawCell) ELSE <<RawCell(r[i])>>])
PtrRow(r) == Flat([i \in 1 .. Len(r) |-> IF Len(r[i].elems) > 0 THEN [j \in 1 .. Len(r[i].elems) |-> r[i].elems[j].rp] ELSE <<r[i].rp>>])
TupleColumnName(name, j) == name \o <<91, 48 + j, 93>>      \* "name[j]", j < 10
NamedRow(cols, r) ==
  Flat([i \in 1 .. Len(r) |-> IF Len(r[i].elems) > 0
                              THEN [j \in 1 .. Len(r[i].elems) |-> [k |-> TupleColumnName(cols[i].name, j - 1), v |-> r[i].elems[j].rz]]
                              ELSE <<[k |-> cols[i].name, v |-> r[i].rz]>>])
RECURSIVE BytesLess(_, _)
BytesLess(x, y) == IF Len(y) = 0 THEN FALSE ELSE IF Len(x) = 0 THEN TRUE
                   ELSE IF x[1] # y[1] THEN x[1] < y[1] ELSE BytesLess(Tail(x), Tail(y))
RECURSIVE SortByKey(_)
SortByKey(es) ==
  IF Len(es) <= 1 THEN es
  ELSE LET m == CHOOSE i \in 1 .. Len(es) : \A j \in 1 .. Len(es) : ~BytesLess(es[j].k, es[i].k)
       IN <<es[m]>> \o SortByKey([j \in 1 .. Len(es) - 1 |-> IF j < m THEN es[j] ELSE es[j + 1]])

Consumer(run, rows) == [run |-> run, err |-> "", rem |-> 0, rows |-> IF run THEN rows ELSE <<>>]
\* cols: the columns the consumers work with (from the frame, or from the prepared statement
\* when the metadata was skipped); typed: every column is of a kind with a typed destination
RowsConsumers(cols, rows, known, typed) ==
  [c_rawscan |-> Consumer(known, Map(rows, RawRow)),
   c_rawscanner |-> Consumer(known, Map(rows, RawRow)),
   c_ptrscan |-> Consumer(known /\ typed, Map(rows, PtrRow)),
   c_ptrscanner |-> Consumer(known /\ typed, Map(rows, PtrRow)),
   \* fresh destinations for every row, all of them looked at only after the whole result was read
   c_keepscan |-> Consumer(known /\ typed, Map(rows, PtrRow)),
   c_mapscan |-> Consumer(known /\ typed, [i \in 1 .. Len(rows) |-> SortByKey(NamedRow(cols, rows[i]))]),
   c_slicemap |-> Consumer(known /\ typed, [i \in 1 .. Len(rows) |-> SortByKey(NamedRow(cols, rows[i]))])]

ErrView(v, e) ==
  [etype |-> ErrType(e.code), code |-> e.code, msg |-> e.msg, cl |-> e.cl, n1 |-> e.n1, n2 |-> e.n2, n3 |-> e.n3,
   flag |-> e.flag, s1 |-> e.s1, s2 |-> e.s2, list |-> e.list, id |-> e.id, rmap |-> e.rmap]

SchemaView(v, s) == [target |-> s.target, change |-> s.change, ks |-> s.ks,
                     name |-> IF s.target = "KEYSPACE" THEN <<>> ELSE s.name,
                     args |-> IF s.target \in {"FUNCTION", "AGGREGATE"} THEN s.args ELSE <<>>]

ViewKind(kind) ==
  CASE kind = "READY" -> "ready" [] kind = "AUTHENTICATE" -> "authenticate" [] kind = "AUTH_CHALLENGE" -> "auth_challenge"
    [] kind = "AUTH_SUCCESS" -> "auth_success" [] kind = "SUPPORTED" -> "supported" [] kind = "ERROR" -> "error"
    [] kind = "RESULT_VOID" -> "void" [] kind = "RESULT_ROWS" -> "rows" [] kind = "RESULT_KEYSPACE" -> "set_keyspace"
    [] kind = "RESULT_PREPARED" -> "prepared" [] kind \in {"RESULT_SCHEMA", "EVENT_SCHEMA"} -> "schema_change"
    [] kind = "EVENT_TOPOLOGY" -> "topology_change" [] kind = "EVENT_STATUS" -> "status_change"

\* the kind-specific part.  sess: the response went through a live session that prepared the
\* statement first (the columns are then known even when the frame omits them) and only the
\* public Iter API is observed (flags / column count are not visible: -1).
FView(l, typed, sess) ==
  LET b == l.b IN
  CASE l.kind \in {"READY", "RESULT_VOID"} -> [x |-> 0]
    [] l.kind = "AUTHENTICATE" -> [class |-> b.class]
    [] l.kind \in {"AUTH_CHALLENGE", "AUTH_SUCCESS"} -> [null |-> b.null, token |-> b.b]
    [] l.kind = "SUPPORTED" -> [opts |-> b.opts]
    [] l.kind = "ERROR" -> ErrView(l.v, b)
    [] l.kind = "RESULT_KEYSPACE" -> [ks |-> b.ks]
    [] l.kind \in {"RESULT_SCHEMA", "EVENT_SCHEMA"} -> SchemaView(l.v, b)
    [] l.kind \in {"EVENT_TOPOLOGY", "EVENT_STATUS"} -> [change |-> b.change, addr |-> b.addr, port |-> b.port]
    [] l.kind = "RESULT_PREPARED" ->
         \* through the public API (QueryInfo) only the id, the columns and the pk indexes are visible
         LET mv(m) == IF sess THEN [flags |-> -1, colcount |-> -1, paging |-> <<>>, cols |-> IF m.nometa THEN <<>> ELSE m.cols]
                      ELSE MetaView(m, 0)
             none == [flags |-> IF sess THEN -1 ELSE 0, colcount |-> IF sess THEN -1 ELSE 0, paging |-> <<>>, cols |-> <<>>]
         IN [id |-> b.id, pk |-> IF l.v >= 4 THEN b.pk ELSE <<>>,
             req |-> mv(b.req), gks |-> IF b.req.global /\ ~sess THEN b.req.gks ELSE <<>>,
             gtable |-> IF b.req.global /\ ~sess THEN b.req.gtable ELSE <<>>,
             res |-> IF l.v >= 2 THEN mv(b.res) ELSE none]
    [] l.kind = "RESULT_ROWS" ->
         LET known == sess \/ ~b.meta.nometa
             mv == MetaView(b.meta, 0)
         IN [flags |-> IF sess THEN -1 ELSE mv.flags, colcount |-> IF sess THEN -1 ELSE mv.colcount,
             paging |-> mv.paging, cols |-> IF known THEN b.meta.cols ELSE <<>>, nrows |-> Len(b.rows)]
            @@ RowsConsumers(b.meta.cols, b.rows, known, typed)

\* the whole view.  comp: the body travelled compressed (flag 0x01 set by whoever compressed
\* it; the frame length is then the compressed length, not decided here).  sess: observed
\* through a live session (stream id chosen by the driver).  api: only what the public API
\* hands out is observed (the PREPARED response through QueryInfo): no header, no prefixes.
\* iterapi: a result that is not rows (void, set-keyspace, schema change) as Query.Iter() of a
\* live session shows it: an iterator without columns and rows - and with the frame's warnings,
\* custom payload and trace id.
ExpView(l, typed, comp, sess, api, iterapi) ==
  [panic |-> "", perr |-> "",
   \* the header is only observable at framer level (through a session it is the driver's private state)
   hv |-> IF sess THEN 0 ELSE l.v, hresp |-> ~sess,
   hflags |-> IF sess THEN 0 ELSE HFlags(l) + (IF comp THEN HF_COMPRESS ELSE 0),
   hstream |-> IF sess THEN 0 ELSE l.stream, hop |-> IF sess THEN 0 ELSE Opcode(l.kind),
   hlen |-> IF sess THEN 0 ELSE IF comp THEN -1 ELSE Len(FullBody(l)),
   rem0 |-> IF sess THEN -1 ELSE IF l.kind = "RESULT_ROWS" THEN Len(WRowsContent(l.b.rows)) ELSE 0,
   trace |-> IF l.tracing THEN l.traceid ELSE <<>>,
   warnings |-> IF l.warn /\ ~api THEN l.warnings ELSE <<>>,
   payload |-> IF l.pay /\ ~api THEN l.payload ELSE <<>>,
   kind |-> IF iterapi THEN "iter" ELSE ViewKind(l.kind),
   f |-> IF iterapi THEN [ncols |-> 0, nrows |-> 0, paging |-> <<>>] ELSE FView(l, typed, sess)]

\* A custom type whose class is one of Cassandra's own marshal classes may be reported either as
\* the custom type it was sent as or as the native type the class denotes.
ClassNative(class) == CASE class = S_marshal_Int32Type -> 9 [] class = S_marshal_UTF8Type -> 13 [] OTHER -> 0
RECURSIVE TypeAgrees(_, _)
TypeAgrees(seen, sent) ==
  /\ DOMAIN seen = DOMAIN sent
  /\ seen.id = sent.id \/ (sent.id = T_Custom /\ ClassNative(sent.custom) # 0 /\ seen.id = ClassNative(sent.custom))
  /\ seen.custom = sent.custom /\ seen.ks = sent.ks /\ seen.name = sent.name /\ seen.fnames = sent.fnames
  /\ Len(seen.args) = Len(sent.args)
  /\ \A i \in 1 .. Len(sent.args) : TypeAgrees(seen.args[i], sent.args[i])
ColsAgree(seen, sent) ==
  /\ Len(seen) = Len(sent)
  /\ \A i \in 1 .. Len(sent) : /\ seen[i].ks = sent[i].ks /\ seen[i].table = sent[i].table
                                /\ seen[i].name = sent[i].name /\ TypeAgrees(seen[i].type, sent[i].type)
=============================================================================
