SPECIFICATION Spec
INVARIANTS TableOK RefSane Emit
CHECK_DEADLOCK FALSE
