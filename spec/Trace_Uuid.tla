----------------------------- MODULE Trace_Uuid -----------------------------
(***************************************************************************)
(* C19 code -> spec: observations of the real UUID API (one JSON object    *)
(* per line) judged record by record against Uuid.tla.  A record the       *)
(* property forbids prints a BAD line; a record that satisfies the         *)
(* property but differs from the reference in an unrequired detail prints  *)
(* a DRIFT line.  Strings are sequences of code points, 64-bit integers    *)
(* are 8 big-endian bytes.                                                 *)
(*  parse    via, pre, s, ok, u       ParseUUID(s) / UnmarshalText /       *)
(*                                    UnmarshalJSON / json.Unmarshal into a *)
(*                                    destination that held pre; u = the    *)
(*                                    destination afterwards.  The result   *)
(*                                    of parsing is a function of s alone.  *)
(*  print    u, s, backok, back, tback, jback   u.String(), ParseUUID back; *)
(*                                    MarshalText/UnmarshalText and JSON    *)
(*                                    round trips into used destinations;   *)
(*                                    s2, mt2, js2, tback2, jback2: the     *)
(*                                    printed texts still HELD, read again  *)
(*                                    after other UUIDs were printed        *)
(*  v1       t, clock, node, u, str, ver, varietf, ts, tsec, tns, clk, nd  *)
(*                                    TimeUUIDWith(t, clock, node) + getters*)
(*  fromtime sec, ns, u, ver, varietf, ts, tsec, tns    UUIDFromTime(time) *)
(*  now      u, ver, varietf, lo, hi  TimeUUID() between two clock readings*)
(*  rand     u, ver, varietf          RandomUUID()                         *)
(*  minmax   sec, ns, mn, mx          MinTimeUUID(time), MaxTimeUUID(time) *)
(***************************************************************************)
EXTENDS Uuid, Json, IOUtils

Log == ndJsonDeserialize(IOEnv.VF_TRACE)

VARIABLES l, res
vars == <<l, res>>

\* verdict: ok (property), why (first failed clause), drift (unrequired difference)
V(ok, why) == [ok |-> ok, why |-> why, drift |-> ""]
First(clauses) ==      \* clauses: sequence of <<name, BOOLEAN>>; the first false one
  LET bad == SelectSeq(clauses, LAMBDA p : ~p[2]) IN
  IF bad = <<>> THEN V(TRUE, "") ELSE V(FALSE, bad[1][1])

LeS(a, b) == ~LtS(b, a)
\* the text t is one that parsing must not refuse and that denotes u
TextIs(t, u) == ParseClass(t) # "reject" /\ ParseValue(t) = u

Verdict(r) ==
  IF r.panic # "" THEN V(FALSE, "panic") ELSE
  CASE r.k = "parse" ->
         LET cls == ParseClass(r.s) IN
         CASE cls = "reject" -> V(~r.ok, "accepts-" \o RejectReason(r.s))
           [] cls = "accept" -> First(<< <<"rejects-wellformed", r.ok>>, <<"value", r.ok => r.u = ParseValue(r.s)>> >>)
           [] OTHER -> V(r.ok => r.u = ParseValue(r.s), "value")
    [] r.k = "print" ->
         LET v == First(<< <<"print-not-parseable", ParseClass(r.s) # "reject">>,
                           <<"print-other-value", ParseClass(r.s) # "reject" => ParseValue(r.s) = r.u>>,
                           <<"print-parse-rejected", r.backok>>,
                           <<"print-parse-roundtrip", r.back = r.u>>,
                           <<"marshaltext-unmarshaltext-roundtrip", r.tbackok /\ r.tback = r.u>>,
                           <<"marshaljson-unmarshaljson-roundtrip", r.jbackok /\ r.jback = r.u>>,
                           <<"marshaltext-other-value", TextIs(r.mt, r.u)>>,
                           \* the caller still holds what was printed while other UUIDs are printed
                           <<"string-changed-while-held", r.s2 = r.s>>,
                           <<"marshaltext-changed-while-held", TextIs(r.mt2, r.u) /\ r.tback2ok /\ r.tback2 = r.u>>,
                           <<"marshaljson-changed-while-held", r.js2 = r.js /\ r.jback2ok /\ r.jback2 = r.u>> >>)
         IN IF v.ok /\ r.s # Canon(r.u) THEN [v EXCEPT !.drift = "String() is not the canonical lower-case 8-4-4-4-12 form"] ELSE v
    [] r.k = "v1" ->
         LET tw == WordBE(r.t)
             tm == TimeOfTicks(tw) IN
         LET v ==
         \* a 6-byte node: the whole layout; any other length (placement / truncation of the node is not specified):
         \* version, variant, timestamp and clock sequence are still the ones asked for
         First(<< <<"v1-layout", IF Len(r.node) = 6 THEN r.u = V1(tw, r.clock, r.node) ELSE V1Fields(r.u, tw, r.clock)>>,
                  <<"v1-version", Len(r.u) = 16 /\ Version(r.u) = 1 /\ r.ver = 1>>,
                  <<"v1-variant", Len(r.u) = 16 /\ IsRfcVariant(r.u) /\ r.varietf>>,
                  <<"v1-timestamp", WordBE(r.ts) = tw>>,
                  <<"v1-time", WordBE(r.tsec) = tm.sec /\ r.tns = tm.ns>> >>)
         IN IF v.ok /\ (r.clk # r.clock % 16384 \/ (Len(r.node) = 6 /\ r.nd # r.node))
            THEN [v EXCEPT !.drift = "Clock() / Node() do not return the clock sequence / node the UUID was built with"] ELSE v
    [] r.k = "fromtime" ->
         LET sec == WordBE(r.sec)
             tw == Ticks(sec, r.ns) IN
         IF ~TimeInDomain(sec, r.ns) THEN V(TRUE, "")
         ELSE First(<< <<"fromtime-version", Len(r.u) = 16 /\ Version(r.u) = 1 /\ r.ver = 1>>,
                       <<"fromtime-variant", IsRfcVariant(r.u) /\ r.varietf>>,
                       <<"fromtime-layout", SubSeq(r.u, 1, 8) = SubSeq(V1(tw, 0, <<0, 0, 0, 0, 0, 0>>), 1, 8)>>,
                       <<"fromtime-timestamp", WordBE(r.ts) = tw>>,
                       <<"fromtime-time", WordBE(r.tsec) = sec /\ r.tns = Trunc100(r.ns)>> >>)
    [] r.k = "now" ->
         First(<< <<"now-version", Len(r.u) = 16 /\ Version(r.u) = 1 /\ r.ver = 1>>,
                  <<"now-variant", IsRfcVariant(r.u) /\ r.varietf>>,
                  <<"now-time", LET tm == TimeOfTicks(TimestampW(r.u)) IN LeS(WordBE(r.lo), tm.sec) /\ LeS(tm.sec, WordBE(r.hi))>> >>)
    [] r.k = "rand" ->
         First(<< <<"random-version", Len(r.u) = 16 /\ Version(r.u) = 4 /\ r.ver = 4>>,
                  <<"random-variant", IsRfcVariant(r.u) /\ r.varietf>> >>)
    [] r.k = "minmax" ->
         LET sec == WordBE(r.sec)
             tw == Ticks(sec, r.ns) IN
         IF ~TimeInDomain(sec, r.ns) THEN V(TRUE, "")
         ELSE First(<< <<"minmax-shape", Len(r.mn) = 16 /\ Len(r.mx) = 16 /\ Version(r.mn) = 1 /\ Version(r.mx) = 1>>,
                       <<"minmax-instant", TimestampW(r.mn) = tw /\ TimestampW(r.mx) = tw>>,
                       <<"min-not-lower-bound", CassLE(r.mn, LeastV1(tw))>>,
                       <<"max-not-upper-bound", CassLE(GreatestV1(tw), r.mx)>> >>)
    [] OTHER -> V(FALSE, "unknown-kind")

Init == l = 1 /\ res = V(TRUE, "")
Next == /\ l <= Len(Log)
        /\ l' = l + 1
        /\ res' = Verdict(Log[l])
Spec == Init /\ [][Next]_vars

Report == /\ (~res.ok => PrintT(<<"BAD", ToJson([line |-> l - 1, why |-> res.why])>>))
          /\ (res.drift # "" => PrintT(<<"DRIFT", ToJson([line |-> l - 1, what |-> res.drift])>>))
=============================================================================
