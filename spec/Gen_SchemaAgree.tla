--------------------------- MODULE Gen_SchemaAgree ---------------------------
(***************************************************************************)
(* X01, spec -> code: behaviours of SchemaAgree.tla as COMMANDS for the    *)
(* harness.  The scripted node holds every request of the wait (the        *)
(* schema-changing statement, each system.peers / system.local poll) and   *)
(* answers on command; between commands the driver takes its own steps     *)
(* (Start, Check, SendPeers, Sleep) until it waits for the node again or   *)
(* has returned - that state is recorded with the command.                 *)
(*   Ddl(applied v | rejected)   AnsPeers(ok|err)   AnsLocal(ok|err)       *)
(*   Env(rows, local)  - the cluster truth changes while a request is held *)
(*   Cancel            - the caller's context is cancelled while a poll is *)
(*                       outstanding                                       *)
(*   Expire            - the harness lets MaxWaitSchemaAgreement pass      *)
(*                       while the node holds a request                    *)
(***************************************************************************)
EXTENDS SchemaAgree, Json

CONSTANTS MaxCmds,
          Allow    \* commands this family of behaviours may use (steers -simulate): subset of
                   \* {"Zero", "Reject", "Err", "Env", "Cancel", "Expire"}

VARIABLES hist, init
gvars == <<A, hist, init>>

IntStep(T) ==
  IF StartEn(T) THEN Start(T)
  ELSE IF CheckEn(T) THEN Check(T)
  ELSE IF SendPeersEn(T) THEN SendPeers(T)
  ELSE IF SleepEn(T) THEN Sleep(T)
  ELSE T
RECURSIVE Settle(_)
Settle(T) == LET U == IntStep(T) IN IF U = T THEN T ELSE Settle(U)

\* Peers are strings; an order on them for printing: by the number of peers that precede in the CHOOSE order
Ord == CHOOSE f \in [1 .. Cardinality(Peers) -> Peers] : \A i, j \in 1 .. Cardinality(Peers) : i # j => f[i] # f[j]
RowsOut(rw) == [i \in 1 .. Cardinality(Peers) |-> <<rw[Ord[i]].kind, rw[Ord[i]].ver>>]

Obs(T) == [pc |-> T.pc, res |-> T.res, polls |-> T.polls, agreed |-> RoundAgrees(T.last)]
C(a, ans, v, rows, local) == [a |-> a, ans |-> ans, v |-> v, rows |-> rows, local |-> local]

GenInit ==
  /\ \E kind \in {"await", "ddl"}, local \in Vers, rows \in [Peers -> [kind : RowKinds, ver : Vers]], ex \in BOOLEAN :
        /\ (ex => "Zero" \in Allow)
        /\ A = Settle(InitState(kind, local, rows, ex))
        /\ init = [kind |-> kind, local |-> local, rows |-> RowsOut(rows), zero |-> ex, o |-> Obs(A)]
  /\ hist = <<>>

Waiting(T) == T.pc \in {"ddl", "peers", "local"}

GenStep ==
  /\ Len(hist) < MaxCmds /\ A.pc # "done"
  /\ \/ \E ans \in {"applied", "rejected"}, v \in Vers :
          /\ NodeDdlEn(A, ans, v) /\ (ans = "rejected" => "Reject" \in Allow)
          /\ A' = Settle(NodeDdl(A, ans, v))
          /\ hist' = Append(hist, [c |-> C("Ddl", ans, v, RowsOut(A.rows), A'.local), o |-> Obs(A')])
     \/ \E ans \in {"ok", "err"} :
          /\ AnsPeersEn(A, ans) /\ (ans = "err" => "Err" \in Allow)
          /\ A' = Settle(AnsPeers(A, ans))
          /\ hist' = Append(hist, [c |-> C("AnsPeers", ans, "", RowsOut(A.rows), A.local), o |-> Obs(A')])
     \/ \E ans \in {"ok", "err"} :
          /\ AnsLocalEn(A, ans) /\ (ans = "err" => "Err" \in Allow)
          /\ A' = Settle(AnsLocal(A, ans))
          /\ hist' = Append(hist, [c |-> C("AnsLocal", ans, "", RowsOut(A.rows), A.local), o |-> Obs(A')])
     \/ /\ Waiting(A) /\ "Env" \in Allow
        /\ \E c \in EnvChoices(A) :
             /\ EnvEn(A, c[1], c[2])
             /\ A' = Env(A, c[1], c[2])
             /\ hist' = Append(hist, [c |-> C("Env", "", "", RowsOut(c[1]), c[2]), o |-> Obs(A')])
     \* the poll that is outstanding when the context ends fails at once (conn.exec selects on ctx.Done()); the
     \* node's answer, still held, is never looked at
     \/ /\ A.pc \in {"peers", "local"} /\ CancelEn(A) /\ "Cancel" \in Allow
        /\ A' = Settle(IF A.pc = "peers" THEN AnsPeers(Cancel(A), "err") ELSE AnsLocal(Cancel(A), "err"))
        /\ hist' = Append(hist, [c |-> C("Cancel", "", "", RowsOut(A.rows), A.local), o |-> Obs(A')])
     \/ /\ A.pc \in {"peers", "local"} /\ ExpireEn(A) /\ "Expire" \in Allow
        /\ A' = Expire(A)
        /\ hist' = Append(hist, [c |-> C("Expire", "", "", RowsOut(A.rows), A.local), o |-> Obs(A')])
  /\ init' = init

GenSpec == GenInit /\ [][GenStep]_gvars

\* -simulate: print the behaviour where the wait has ended
EmitWalk == (A.pc = "done" /\ A.polls <= MaxPolls) =>
              PrintT(<<"AWALK", ToJson([init |-> init, steps |-> hist, expired |-> A.expired, cancelled |-> A.cancelled])>>)
=============================================================================
