------------------------------- MODULE BigNum -------------------------------
(***************************************************************************)
(* Arbitrary-size integers for TLC (whose own integers are 32-bit).        *)
(*                                                                         *)
(* A number is a record [neg |-> BOOLEAN, m |-> <<b1, ..., bn>>] : sign    *)
(* and magnitude, the magnitude as big-endian base-256 limbs without       *)
(* leading zero limb; zero is [neg |-> FALSE, m |-> <<>>].  The record is  *)
(* JSON friendly ({"neg":false,"m":[1,0]} = 256) and maps onto Go's        *)
(* big.Int.SetBytes / Bytes / Sign without any arithmetic in the harness.  *)
(*                                                                         *)
(* Provided: compare, add, subtract, multiply / floor-divide by a small    *)
(* number, powers of two, bit length, fixed-width and minimal-length two's *)
(* complement in both directions, decimal digits in both directions.       *)
(* The ASSUMEs at the end test every operator against known constants;     *)
(* TLC evaluates them on start-up of every run that uses the module.       *)
(***************************************************************************)
EXTENDS Integers, Sequences, TLC

Byte == 0 .. 255
BnErr == <<-1>>            \* error sentinel of byte-sequence sort

\* ------------------------------------------------------------ magnitudes
Zeros(n) == [i \in 1 .. n |-> 0]
MStrip(m) ==
  LET RECURSIVE S(_)
      S(i) == IF i > Len(m) THEN <<>> ELSE IF m[i] = 0 THEN S(i + 1) ELSE SubSeq(m, i, Len(m))
  IN S(1)
\* i-th least significant limb (i = 0 is the last element), 0 beyond the top
MLimb(m, i) == IF i < Len(m) THEN m[Len(m) - i] ELSE 0
MPad(m, n) == IF Len(m) >= n THEN m ELSE Zeros(n - Len(m)) \o m
MCmp(a, b) ==             \* -1, 0, 1; both stripped
  IF Len(a) # Len(b) THEN (IF Len(a) < Len(b) THEN -1 ELSE 1)
  ELSE LET RECURSIVE C(_)
           C(i) == IF i > Len(a) THEN 0 ELSE IF a[i] = b[i] THEN C(i + 1) ELSE IF a[i] < b[i] THEN -1 ELSE 1
       IN C(1)
MAdd(a, b) ==
  LET n == (IF Len(a) > Len(b) THEN Len(a) ELSE Len(b)) + 1
      RECURSIVE G(_, _, _)
      G(i, c, acc) == IF i = n THEN acc
                      ELSE LET v == MLimb(a, i) + MLimb(b, i) + c IN G(i + 1, v \div 256, <<v % 256>> \o acc)
  IN MStrip(G(0, 0, <<>>))
MSub(a, b) ==             \* requires a >= b
  LET n == Len(a)
      RECURSIVE G(_, _, _)
      G(i, br, acc) == IF i = n THEN acc
                       ELSE LET v == MLimb(a, i) - MLimb(b, i) - br
                            IN IF v < 0 THEN G(i + 1, 1, <<v + 256>> \o acc) ELSE G(i + 1, 0, <<v>> \o acc)
  IN MStrip(G(0, 0, <<>>))
MMulSmall(a, k) ==        \* 0 <= k < 2^23
  LET n == Len(a) + 3
      RECURSIVE G(_, _, _)
      G(i, c, acc) == IF i = n THEN acc
                      ELSE LET v == MLimb(a, i) * k + c IN G(i + 1, v \div 256, <<v % 256>> \o acc)
  IN MStrip(G(0, 0, <<>>))
MDivModSmall(a, d) ==     \* 0 < d < 2^23 ; <<quotient magnitude, remainder (TLC integer)>>
  LET RECURSIVE G(_, _, _)
      G(i, r, acc) == IF i > Len(a) THEN <<MStrip(acc), r>>
                      ELSE LET v == r * 256 + a[i] IN G(i + 1, v % d, Append(acc, v \div d))
  IN G(1, 0, <<>>)
BitsOfByte(b) == IF b >= 128 THEN 8 ELSE IF b >= 64 THEN 7 ELSE IF b >= 32 THEN 6 ELSE IF b >= 16 THEN 5
                 ELSE IF b >= 8 THEN 4 ELSE IF b >= 4 THEN 3 ELSE IF b >= 2 THEN 2 ELSE IF b >= 1 THEN 1 ELSE 0
MBitLen(m) == IF m = <<>> THEN 0 ELSE 8 * (Len(m) - 1) + BitsOfByte(m[1])
P2(n) == CASE n = 0 -> 1 [] n = 1 -> 2 [] n = 2 -> 4 [] n = 3 -> 8 [] n = 4 -> 16 [] n = 5 -> 32 [] n = 6 -> 64 [] n = 7 -> 128 [] n = 8 -> 256
MPow2(n) == <<P2(n % 8)>> \o Zeros(n \div 8)

\* ------------------------------------------------------------ signed numbers
Mk(neg, m) == LET s == MStrip(m) IN [neg |-> neg /\ s # <<>>, m |-> s]
BZero == [neg |-> FALSE, m |-> <<>>]
IsBig(x) == /\ DOMAIN x = {"neg", "m"}
            /\ x.neg \in BOOLEAN
            /\ \A i \in 1 .. Len(x.m) : x.m[i] \in Byte
            /\ (x.m # <<>> => x.m[1] # 0)
            /\ (x.m = <<>> => ~x.neg)
FromInt(n) ==             \* any TLC integer except -2^31
  LET a == IF n < 0 THEN -n ELSE n
      RECURSIVE G(_, _)
      G(v, acc) == IF v = 0 THEN acc ELSE G(v \div 256, <<v % 256>> \o acc)
  IN [neg |-> n < 0, m |-> G(a, <<>>)]
ToInt(x) ==               \* only for |x| < 2^31
  LET RECURSIVE G(_, _)
      G(i, acc) == IF i > Len(x.m) THEN acc ELSE G(i + 1, acc * 256 + x.m[i])
  IN IF x.neg THEN -G(1, 0) ELSE G(1, 0)
BNeg(x) == Mk(~x.neg, x.m)
BAbs(x) == [neg |-> FALSE, m |-> x.m]
BCmp(x, y) == IF x.neg # y.neg THEN (IF x.neg THEN -1 ELSE 1)
              ELSE IF x.neg THEN MCmp(y.m, x.m) ELSE MCmp(x.m, y.m)
BLt(x, y) == BCmp(x, y) < 0
BLe(x, y) == BCmp(x, y) <= 0
BAdd(x, y) == IF x.neg = y.neg THEN Mk(x.neg, MAdd(x.m, y.m))
              ELSE IF MCmp(x.m, y.m) >= 0 THEN Mk(x.neg, MSub(x.m, y.m))
              ELSE Mk(y.neg, MSub(y.m, x.m))
BSub(x, y) == BAdd(x, BNeg(y))
BMulSmall(x, k) == IF k < 0 THEN Mk(~x.neg, MMulSmall(x.m, -k)) ELSE Mk(x.neg, MMulSmall(x.m, k))
Pow2(n) == [neg |-> FALSE, m |-> MPow2(n)]
One == FromInt(1)
\* floor division and modulus by a small positive number (result of Mod is a TLC integer in 0..d-1)
BFloorDiv(x, d) ==
  LET qr == MDivModSmall(x.m, d)
  IN IF ~x.neg THEN Mk(FALSE, qr[1])
     ELSE IF qr[2] = 0 THEN Mk(TRUE, qr[1]) ELSE Mk(TRUE, MAdd(qr[1], <<1>>))
BFloorMod(x, d) ==
  LET r == MDivModSmall(x.m, d)[2] IN IF ~x.neg \/ r = 0 THEN r ELSE d - r
\* truncating division (toward zero) - what Go's "/" does; used only to describe defects
BTruncDiv(x, d) == Mk(x.neg, MDivModSmall(x.m, d)[1])

\* ------------------------------------------------------------ ranges
\* -2^(bits-1) <= x < 2^(bits-1)
FitsS(x, bits) == IF x.neg THEN MCmp(x.m, MPow2(bits - 1)) <= 0 ELSE MCmp(x.m, MPow2(bits - 1)) < 0
\* 0 <= x < 2^bits
FitsU(x, bits) == ~x.neg /\ MCmp(x.m, MPow2(bits)) < 0

\* ------------------------------------------------------------ two's complement
\* exactly w bytes, BnErr when out of range
TC(x, w) ==
  IF ~FitsS(x, 8 * w) THEN BnErr
  ELSE IF ~x.neg THEN MPad(x.m, w)
  ELSE MPad(MSub(MPow2(8 * w), x.m), w)
\* unsigned, exactly w bytes
UBytes(x, w) == IF ~FitsU(x, 8 * w) THEN BnErr ELSE MPad(x.m, w)
\* number of bytes of the minimal two's-complement form (at least 1)
MinLen(x) ==
  IF x.m = <<>> THEN 1
  ELSE IF ~x.neg THEN (IF x.m[1] >= 128 THEN Len(x.m) + 1 ELSE Len(x.m))
  ELSE IF x.m[1] < 128 \/ (x.m[1] = 128 /\ \A i \in 2 .. Len(x.m) : x.m[i] = 0) THEN Len(x.m)
  ELSE Len(x.m) + 1
MinTC(x) == TC(x, MinLen(x))
\* value of a two's-complement byte string of any length (empty = 0)
FromTC(b) ==
  IF b = <<>> THEN BZero
  ELSE IF b[1] < 128 THEN Mk(FALSE, b)
  ELSE Mk(TRUE, MSub(MPow2(8 * Len(b)), MStrip(b)))
FromU(b) == Mk(FALSE, b)
\* TRUE iff b is the shortest two's-complement form of its value
IsMinimalTC(b) == b # <<>> /\ (Len(b) = 1 \/ ~((b[1] = 0 /\ b[2] < 128) \/ (b[1] = 255 /\ b[2] >= 128)))

\* ------------------------------------------------------------ decimal
ToDec(x) ==               \* digits of |x|, most significant first, <<0>> for zero
  LET RECURSIVE G(_, _)
      G(m, acc) == IF m = <<>> THEN acc ELSE LET qr == MDivModSmall(m, 10) IN G(qr[1], <<qr[2]>> \o acc)
  IN IF x.m = <<>> THEN <<0>> ELSE G(x.m, <<>>)
FromDec(neg, ds) ==
  LET RECURSIVE G(_, _)
      G(i, m) == IF i > Len(ds) THEN m ELSE G(i + 1, MAdd(MMulSmall(m, 10), MStrip(<<ds[i]>>)))
  IN Mk(neg, G(1, <<>>))
DecStr(x) ==
  LET ds == ToDec(x)
      RECURSIVE G(_)
      G(i) == IF i > Len(ds) THEN "" ELSE ToString(ds[i]) \o G(i + 1)
  IN (IF x.neg THEN "-" ELSE "") \o G(1)

\* ------------------------------------------------------------ self tests
ASSUME FromInt(0) = BZero /\ FromInt(255).m = <<255>> /\ FromInt(256).m = <<1, 0>> /\ FromInt(-1) = [neg |-> TRUE, m |-> <<1>>]
ASSUME ToInt(FromInt(-2147483647)) = -2147483647 /\ ToInt(FromInt(65536)) = 65536
ASSUME IsBig(Pow2(64)) /\ Pow2(64).m = <<1, 0, 0, 0, 0, 0, 0, 0, 0>> /\ Pow2(7).m = <<128>>
ASSUME ToDec(Pow2(64)) = <<1, 8, 4, 4, 6, 7, 4, 4, 0, 7, 3, 7, 0, 9, 5, 5, 1, 6, 1, 6>>
ASSUME DecStr(BSub(Pow2(63), One)) = "9223372036854775807" /\ DecStr(BNeg(Pow2(63))) = "-9223372036854775808"
ASSUME DecStr(Pow2(128)) = "340282366920938463463374607431768211456"
ASSUME FromDec(TRUE, <<1, 2, 8>>) = FromInt(-128) /\ FromDec(FALSE, ToDec(Pow2(100))) = Pow2(100) /\ FromDec(FALSE, <<0, 0>>) = BZero
ASSUME BAdd(FromInt(255), One) = FromInt(256) /\ BAdd(FromInt(-256), One) = FromInt(-255) /\ BAdd(FromInt(5), FromInt(-5)) = BZero
ASSUME BSub(Pow2(64), One).m = <<255, 255, 255, 255, 255, 255, 255, 255>> /\ BSub(FromInt(3), FromInt(10)) = FromInt(-7)
ASSUME BMulSmall(FromInt(86400), 1000) = FromInt(86400000) /\ BMulSmall(FromInt(-3), 7) = FromInt(-21) /\ BMulSmall(FromInt(3), -7) = FromInt(-21)
ASSUME BMulSmall(Pow2(62), 2) = Pow2(63) /\ BMulSmall(BZero, 9) = BZero
ASSUME BFloorDiv(FromInt(-1), 1000) = FromInt(-1) /\ BFloorDiv(FromInt(-1000), 1000) = FromInt(-1) /\ BFloorDiv(FromInt(-1001), 1000) = FromInt(-2)
ASSUME BFloorDiv(FromInt(999), 1000) = BZero /\ BFloorDiv(FromInt(86400), 86400) = One /\ BTruncDiv(FromInt(-1), 1000) = BZero
ASSUME BFloorMod(FromInt(-1), 1000) = 999 /\ BFloorMod(FromInt(-1000), 1000) = 0 /\ BFloorMod(FromInt(1001), 1000) = 1
ASSUME BFloorDiv(Pow2(70), 4096) = Pow2(58)
ASSUME BCmp(FromInt(-2), FromInt(-1)) = -1 /\ BCmp(FromInt(-1), FromInt(1)) = -1 /\ BCmp(Pow2(64), Pow2(63)) = 1 /\ BCmp(FromInt(7), FromInt(7)) = 0
ASSUME FitsS(FromInt(127), 8) /\ ~FitsS(FromInt(128), 8) /\ FitsS(FromInt(-128), 8) /\ ~FitsS(FromInt(-129), 8)
ASSUME FitsS(BNeg(Pow2(63)), 64) /\ ~FitsS(Pow2(63), 64) /\ FitsU(BSub(Pow2(64), One), 64) /\ ~FitsU(Pow2(64), 64) /\ ~FitsU(FromInt(-1), 8)
ASSUME TC(FromInt(5), 8) = <<0, 0, 0, 0, 0, 0, 0, 5>> /\ TC(FromInt(-1), 4) = <<255, 255, 255, 255>> /\ TC(FromInt(-128), 1) = <<128>>
ASSUME TC(FromInt(128), 1) = BnErr /\ TC(FromInt(-32768), 2) = <<128, 0>> /\ TC(FromInt(-32769), 2) = BnErr /\ TC(BZero, 2) = <<0, 0>>
ASSUME TC(BNeg(Pow2(63)), 8) = <<128, 0, 0, 0, 0, 0, 0, 0>> /\ TC(Pow2(63), 8) = BnErr
ASSUME MinTC(BZero) = <<0>> /\ MinTC(FromInt(127)) = <<127>> /\ MinTC(FromInt(128)) = <<0, 128>> /\ MinTC(FromInt(-128)) = <<128>>
ASSUME MinTC(FromInt(-129)) = <<255, 127>> /\ MinTC(FromInt(255)) = <<0, 255>> /\ MinTC(FromInt(-256)) = <<255, 0>> /\ MinTC(FromInt(-1)) = <<255>>
ASSUME MinTC(FromInt(32767)) = <<127, 255>> /\ MinTC(FromInt(32768)) = <<0, 128, 0>> /\ MinTC(FromInt(-32768)) = <<128, 0>> /\ MinTC(FromInt(-32769)) = <<255, 127, 255>>
ASSUME MinTC(Pow2(63)) = <<0, 128, 0, 0, 0, 0, 0, 0, 0>> /\ MinTC(BNeg(Pow2(63))) = <<128, 0, 0, 0, 0, 0, 0, 0>>
ASSUME MinTC(BSub(Pow2(64), One)) = <<0, 255, 255, 255, 255, 255, 255, 255, 255>>
ASSUME \A n \in {-70000, -32769, -32768, -257, -256, -255, -129, -128, -127, -1, 0, 1, 127, 128, 255, 256, 32767, 32768, 65535, 65536, 8388607, 8388608} :
         /\ FromTC(MinTC(FromInt(n))) = FromInt(n)
         /\ IsMinimalTC(MinTC(FromInt(n)))
         /\ FromTC(TC(FromInt(n), 5)) = FromInt(n)
ASSUME FromTC(<<>>) = BZero /\ FromTC(<<255>>) = FromInt(-1) /\ FromTC(<<0, 255>>) = FromInt(255) /\ FromTC(<<255, 255, 127>>) = FromInt(-129)
ASSUME ~IsMinimalTC(<<0, 5>>) /\ ~IsMinimalTC(<<255, 128>>) /\ IsMinimalTC(<<0, 128>>) /\ IsMinimalTC(<<255, 127>>) /\ ~IsMinimalTC(<<>>)
ASSUME UBytes(BSub(Pow2(32), One), 4) = <<255, 255, 255, 255>> /\ UBytes(Pow2(32), 4) = BnErr /\ UBytes(Pow2(31), 4) = <<128, 0, 0, 0>>
ASSUME MBitLen(<<>>) = 0 /\ MBitLen(<<1>>) = 1 /\ MBitLen(<<128>>) = 8 /\ MBitLen(<<1, 0>>) = 9 /\ MBitLen(Pow2(63).m) = 64
=============================================================================
