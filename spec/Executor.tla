------------------------------ MODULE Executor ------------------------------
(***************************************************************************)
(* Query execution as property C13 and the documentation (doc.go "Retries  *)
(* and speculative execution", policies.go, query_executor.go comments)    *)
(* describe it, structured like queryExecutor so that traces of the real   *)
(* code can be bound: one action per decision point of                     *)
(*   executeQuery / speculate / run / do   (query_executor.go 65-204).     *)
(*                                                                         *)
(* A scenario (variable cfg, chosen in Init, constant afterwards):         *)
(*   hosts   the sequence the host selection policy offers, each "ok" or   *)
(*           ("okonce": usable until an attempt on it has ended, then down) or *)
(*           unusable ("down", "nopool" = no pool for the host, "noconn" = *)
(*           the pool has no connection): unusable hosts are passed over   *)
(*           and nothing reaches a server;                                 *)
(*   pol     the retry policy (see ExecutorMon): Attempt() as a budget     *)
(*           over the shared counter of completed attempts, GetRetryType   *)
(*           as a decision per error;                                      *)
(*   outs    the outcomes an attempt may have; the per-attempt outcome     *)
(*           script is chosen by the environment when the attempt ends, so *)
(*           every script is covered;                                      *)
(*   k       SpeculativeExecutionPolicy.Attempts(); idem; cancel: how the  *)
(*           environment may end the caller's context ("none", "cancel" =  *)
(*           cancellation, "deadline" = the deadline expires, "any").      *)
(*                                                                         *)
(* Each execution (the main one and up to k speculative ones - only when   *)
(* the query is idempotent) is a copy of the `do` loop.  Shared: the host  *)
(* iterator, the attempts counter (Query.Attempts()), the results channel  *)
(* (capacity 1), the context.  The documented contract for queries NOT     *)
(* marked idempotent: one execution, never retried (doc.go: "Non-idempotent*)
(* queries are not eligible for retrying nor speculative execution";       *)
(* Query.IsIdempotent: "Non-idempotent query won't be retried").  With the *)
(* constant NonIdemRetry = TRUE the model ALSO admits what the code does    *)
(* (it asks the retry policy and retries): TLC then exhibits the violation  *)
(* (MC_Executor_defect.cfg), and trace conformance uses this setting so     *)
(* that the known deviation is reported by the monitor only.                *)
(*                                                                         *)
(* Every visible action emits one event of ExecutorMon's vocabulary; the   *)
(* property monitor runs along as ghost variable g.  Deliver and Recv (the *)
(* channel send in run() and the receive in speculate/executeQuery) cannot *)
(* be observed and are silent.                                             *)
(***************************************************************************)
EXTENDS ExecutorMon, TLC

CONSTANTS Configs,       \* set of scenarios explored
          KeepHist,      \* TRUE: keep the observable history (behaviour dumps)
          GateAtomic,    \* TRUE: only behaviours the gate scheduler can force (see below)
          NonIdemRetry,  \* TRUE: non-idempotent queries MAY also be retried (the code as it is)
          Defect_WaitResultsOnly \* TRUE: a WRONG variant TLC must refute (MC_Executor_stuck.cfg): after
                         \* the last speculative execution was launched executeQuery waits for a
                         \* result only and no longer for the context

VARIABLES cfg,        \* the scenario
          ex,         \* per execution: pc and locals of its `do` loop
          ipos,       \* shared host iterator: hosts handed out so far
          cnt,        \* shared counter: Query.Attempts()
          started,    \* attempts started so far
          spawned,    \* executions started by executeQuery (go q.run / the direct call of do)
          launched,   \* executions that have made their first host iterator call
          chan,       \* results channel (capacity 1): a result or NoRes
          ret,        \* what executeQuery is about to return / has returned
          cancelled,  \* the caller's context: "no" | "cancel" (cancelled) | "deadline" (expired)
          returned,   \* executeQuery has returned to the caller
          g,          \* ghost: property monitor
          hist,       \* ghost: observable history (if KeepHist)
          last        \* the event emitted by the latest visible step

vars == <<cfg, ex, ipos, cnt, started, spawned, launched, chan, ret, cancelled, returned, g, hist, last>>

NoRes == [att |-> -1, eord |-> -1, x |-> "none"]
Res(att, eord, x) == [att |-> att, eord |-> eord, x |-> x]
Ex0 == [pc |-> "idle", cur |-> 0, ord |-> 0, i |-> 0, ref |-> FALSE, out |-> "none", lerr |-> 0, lerrx |-> "none", res |-> NoRes]

\* decisions a policy may take for an error class: scripted classes carry their decision in
\* the name; for every other class the decision is the policy's business (an input)
Decisions == {"retry", "next", "ignore", "rethrow", "unknown"}
DecisionsFor(o) ==
  CASE o = "e_retry" -> {"retry"} [] o = "e_next" -> {"next"} [] o = "e_ignore" -> {"ignore"}
    [] o = "e_rethrow" -> {"rethrow"} [] o = "e_unknown" -> {"unknown"} [] OTHER -> Decisions

InitWith(c) ==
  /\ cfg = c
  /\ ex = [e \in E |-> Ex0]
  /\ ipos = 0 /\ cnt = 0 /\ started = 0 /\ spawned = 1 /\ launched = 0
  /\ chan = NoRes /\ ret = NoRes
  /\ cancelled = "no" /\ returned = FALSE
  /\ g = MonInit /\ hist = <<>> /\ last = NoEv

Init == \E c \in Configs : InitWith(c)

SpecMode == SpecModeOf(cfg)
\* the context an execution runs under: the caller's, and in speculative mode a child that
\* executeQuery cancels when it returns (defer cancel())
CtxDead == cancelled # "no" \/ (SpecMode /\ ret # NoRes)
\* the error a dead context reports: the caller's (Canceled / DeadlineExceeded), or Canceled of
\* the child context that executeQuery cancels on return - whichever happened (first)
CtxErrSet == (IF cancelled = "cancel" THEN {"canceled"} ELSE IF cancelled = "deadline" THEN {"deadline"} ELSE {})
             \cup (IF SpecMode /\ ret # NoRes THEN {"canceled"} ELSE {})

Emit(evt) ==
  /\ last' = evt
  /\ g' = MonStep(g, evt, cfg)
  /\ hist' = IF KeepHist THEN Append(hist, evt) ELSE hist

\* the *Iter of the execution's latest attempt (query_executor.go: `return iter`)
ThisRes(r) == Res(r.ord, IF IsErr(r.out) THEN r.ord ELSE 0, r.out)
Finish(e, r, res) == ex' = [ex EXCEPT ![e] = [r EXCEPT !.pc = "done", !.res = res]]

\* hostIter(): the next offered host; unusable hosts are passed over (lines 137-152); an
\* exhausted iterator ends the loop with the last error, or ErrNoConnections (191-195)
DoPick(e) ==
  LET r == ex[e]
      h == IF ipos < Len(cfg.hosts) THEN ipos + 1 ELSE 0 IN
  /\ ipos' = IF h = 0 THEN ipos ELSE h
  /\ IF h = 0
     THEN Finish(e, [r EXCEPT !.cur = 0], IF r.lerr # 0 THEN Res(0, r.lerr, r.lerrx) ELSE Res(0, 0, "noconn"))
     ELSE ex' = [ex EXCEPT ![e] = [r EXCEPT !.cur = h, !.pc = IF cfg.hosts[h] \in UsableKinds THEN "ready" ELSE "pick"]]
  /\ Emit(Ev("pick", e, h, 0, "", ""))

\* executeQuery starts the main execution at once (spawned = 1 initially) and a speculative one
\* on every tick of the policy's timer - only for idempotent queries with k > 0, at most k of
\* them, and only while it has not got a result (silent: `go q.run(...)`)
Spawn ==
  /\ SpecMode /\ spawned < cfg.k + 1 /\ ret = NoRes
  /\ spawned' = spawned + 1
  /\ UNCHANGED <<cfg, ex, ipos, cnt, started, launched, chan, ret, cancelled, returned, g, hist, last>>

\* the first action of an execution is its first call of the host iterator; executions are
\* numbered in the order of these calls
Launch(e) ==
  /\ e = launched + 1 /\ e <= spawned
  /\ launched' = e
  /\ DoPick(e)
  /\ UNCHANGED <<cfg, cnt, started, spawned, chan, ret, cancelled, returned>>

Pick(e) ==
  /\ ex[e].pc = "pick"
  /\ DoPick(e)
  /\ UNCHANGED <<cfg, cnt, started, spawned, launched, chan, ret, cancelled, returned>>

\* identity of an attempt: the i-th attempt of execution e (no global order in the state)
Aid(e, i) == 10 * e + i

\* execute(ctx, conn) is called; a cancelled context is refused by the connection
Start(e) ==
  /\ ex[e].pc = "ready"
  /\ started' = started + 1
  /\ ex' = [ex EXCEPT ![e] = [@ EXCEPT !.pc = "run", !.i = @ + 1, !.ord = Aid(e, ex[e].i + 1), !.ref = CtxDead]]
  /\ Emit(Ev("start", e, ex[e].cur, Aid(e, ex[e].i + 1), IF CtxDead THEN "refused" ELSE "sent", ""))
  /\ UNCHANGED <<cfg, ipos, cnt, spawned, launched, chan, ret, cancelled, returned>>

\* the attempt returns (the environment's choice of outcome) and qry.attempt() adds it to the
\* shared counter; then success, a context error, or the absence of a retry policy end the
\* execution with this attempt's Iter (lines 154-171).  A query that is not marked idempotent
\* is never retried: its execution ends with its only attempt (with NonIdemRetry the model also
\* admits asking the policy, see Decide).  One step: the harness logs the outcome inside
\* Query.attempt, atomically with the counter.
End(e, o) ==
  LET r == [ex[e] EXCEPT !.out = o] IN
  /\ ex[e].pc = "run"
  /\ o \in (IF ex[e].ref THEN CtxErrSet ELSE cfg.outs \cup CtxErrSet)
  /\ cnt' = cnt + 1
  /\ \/ /\ ~IsErr(o) \/ cfg.pol.kind = "none" \/ ~cfg.idem
        /\ Finish(e, r, ThisRes(r))
     \/ /\ IsErr(o) /\ cfg.pol.kind # "none" /\ (cfg.idem \/ NonIdemRetry)
        /\ ex' = [ex EXCEPT ![e] = [r EXCEPT !.pc = "pol"]]
  /\ Emit(Ev("end", e, ex[e].cur, ex[e].ord, o, ""))
  /\ UNCHANGED <<cfg, ipos, started, spawned, launched, chan, ret, cancelled, returned>>

\* rt.Attempt(qry): the budget over the shared counter
Allow(e) ==
  LET r == ex[e]
      yes == PolAllow(cfg.pol, cnt) IN
  /\ r.pc = "pol"
  /\ IF yes
     THEN ex' = [ex EXCEPT ![e] = [r EXCEPT !.pc = "dec", !.lerr = r.ord, !.lerrx = r.out]]
     ELSE Finish(e, r, ThisRes(r))
  /\ Emit(Ev("allow", e, 0, cnt, IF yes THEN "yes" ELSE "no", ""))
  /\ UNCHANGED <<cfg, ipos, cnt, started, spawned, launched, chan, ret, cancelled, returned>>

\* rt.GetRetryType(err): same host / next offered host / stop.  (Reached for a query that is
\* not marked idempotent only with NonIdemRetry = TRUE, which admits every behaviour: stopping
\* after the attempt, asking the policy and stopping, and - the code as it is - retrying.)
Decide(e, d) ==
  LET r == ex[e]
      mayRetry == cfg.idem \/ NonIdemRetry
      \* NonIdemRetry tolerates both behaviours for non-idempotent queries (trace conformance)
      mayStop == d \in StopDecisions \/ ~cfg.idem IN
  /\ r.pc = "dec"
  /\ d \in DecisionsFor(r.out)
  /\ \/ /\ d = "retry" /\ mayRetry
        \* `continue` re-enters the loop: the same host is looked at again (lines 136-152) - a host that went down
        \* after the attempt ("okonce") is passed over like any unusable host and the next offered host is asked for
        /\ ex' = [ex EXCEPT ![e] = [r EXCEPT !.pc = IF cfg.hosts[r.cur] = "okonce" THEN "pick" ELSE "ready"]]
     \/ /\ d = "next" /\ mayRetry
        /\ ex' = [ex EXCEPT ![e] = [r EXCEPT !.pc = "pick"]]
     \/ /\ mayStop
        /\ IF d = "unknown" THEN Finish(e, r, Res(0, 0, "unknownretry")) ELSE Finish(e, r, ThisRes(r))
  /\ Emit(Ev("decide", e, 0, 0, d, r.out))
  /\ UNCHANGED <<cfg, ipos, cnt, started, spawned, launched, chan, ret, cancelled, returned>>

\* environment: the caller's context ends - it is cancelled, or its deadline expires - at any
\* time (also after executeQuery has picked its result or has returned: executions may still be
\* running then).  Attempts in flight may then return the context's error (context.Canceled /
\* context.DeadlineExceeded).  Behaviour dumps leave out an ending nobody can observe any more.
CancelForms == CASE cfg.cancel = "cancel" -> {"cancel"} [] cfg.cancel = "deadline" -> {"deadline"}
                 [] cfg.cancel = "any" -> {"cancel", "deadline"} [] OTHER -> {}
Cancel(form) ==
  /\ form \in CancelForms /\ cancelled = "no"
  /\ GateAtomic => (~returned \/ \E e \in E : ex[e].pc \notin {"idle", "fin"})
  /\ cancelled' = form
  /\ Emit(Ev("cancel", 0, 0, 0, form, ""))
  /\ UNCHANGED <<cfg, ex, ipos, cnt, started, spawned, launched, chan, ret, returned>>

\* run(): `select { case results <- iter: case <-ctx.Done(): }` (silent)
Deliver(e) ==
  /\ SpecMode /\ ex[e].pc = "done"
  /\ \/ chan = NoRes /\ ret = NoRes /\ chan' = ex[e].res
     \/ CtxDead /\ chan' = chan
  /\ ex' = [ex EXCEPT ![e].pc = "fin"]
  /\ UNCHANGED <<cfg, ipos, cnt, started, spawned, launched, ret, cancelled, returned, g, hist, last>>

\* executeQuery obtains its result (silent): `do` returned (no speculation), or the first
\* result sent on the channel, or - in speculative mode - the caller's context ended
Recv ==
  /\ ret = NoRes
  /\ \/ ~SpecMode /\ ex[1].pc = "done" /\ ret' = ex[1].res
        /\ ex' = [ex EXCEPT ![1].pc = "fin"] /\ chan' = chan
     \/ SpecMode /\ chan # NoRes /\ ret' = chan /\ chan' = NoRes /\ ex' = ex
     \* both selects of executeQuery (the one in speculate's loop and the final one) have the
     \* context's arm.  run() offers its result by `select { results <- / <-ctx.Done() }` (Deliver),
     \* so once the context is done every execution may drop its result: without this arm in the
     \* final select executeQuery never returns (Defect_WaitResultsOnly violates Terminates).
     \/ SpecMode /\ cancelled # "no" /\ chan' = chan /\ ex' = ex
        /\ (Defect_WaitResultsOnly => spawned < cfg.k + 1)
        /\ ret' = Res(0, 0, IF cancelled = "deadline" THEN "deadline" ELSE "canceled")
  /\ UNCHANGED <<cfg, ipos, cnt, started, spawned, launched, cancelled, returned, g, hist, last>>

Return ==
  /\ ret # NoRes /\ ~returned
  /\ returned' = TRUE
  /\ Emit(Ev("return", 0, ret.eord, ret.att, ret.x, ""))
  /\ UNCHANGED <<cfg, ex, ipos, cnt, started, spawned, launched, chan, ret, cancelled>>

Terminal == returned /\ \A e \in E : ex[e].pc \in {"idle", "fin"}

(***************************************************************************)
(* GateAtomic: the harness parks the real goroutines at execute (entry and *)
(* exit = Query.attempt), RetryPolicy.Attempt and GetRetryType; host        *)
(* iterator calls, the channel send and executeQuery's receive/return are  *)
(* not gated and follow the step that leads to them at once.  Restricting  *)
(* the model to such behaviours loses nothing observable (those steps      *)
(* commute with the other executions' local steps) and makes every dumped  *)
(* behaviour replayable on the real code.                                  *)
(***************************************************************************)
Urgent ==
  \/ launched < spawned
  \/ \E e \in E : ex[e].pc \in {"pick", "done"}
  \/ ret = NoRes /\ SpecMode /\ (chan # NoRes \/ cancelled # "no")
  \/ ret # NoRes /\ ~returned

UrgentNext ==
  \/ \E e \in E : Launch(e) \/ Pick(e) \/ Deliver(e)
  \/ Recv \/ Return

VisibleNext ==
  \/ \E e \in E : Launch(e) \/ Pick(e) \/ Start(e) \/ Allow(e)
  \/ \E e \in E, o \in cfg.outs \cup CtxErrs : End(e, o)
  \/ \E e \in E, d \in Decisions : Decide(e, d)
  \/ (\E form \in {"cancel", "deadline"} : Cancel(form)) \/ Return
SilentNext == Spawn \/ Recv \/ \E e \in E : Deliver(e)

Next ==
  \/ (IF GateAtomic /\ Urgent THEN UrgentNext ELSE (VisibleNext \/ SilentNext))
  \/ Terminal /\ UNCHANGED vars

Spec == Init /\ [][Next]_vars
\* for behaviour dumps: a complete behaviour ends (no stuttering at the end)
NextDump == IF GateAtomic /\ Urgent THEN UrgentNext ELSE (VisibleNext \/ SilentNext)
SpecDump == Init /\ [][NextDump]_vars
FairSpec == Spec /\ WF_vars(Next)

-----------------------------------------------------------------------------
(* The property, clause by clause (keys raised by the monitor), and the same   *)
(* clauses stated directly on the model state as a cross-check of the monitor. *)
NoViolation == g.viol = {}
AttemptsWithinPolicies == "attempts-exceed-budget" \notin g.viol
RetryHostAsDecided == "retry-wrong-host" \notin g.viol /\ "retry-without-decision" \notin g.viol
RethrowIgnoreStop == g.viol \cap {"continued-after-rethrow", "continued-after-ignore",
                                  "continued-after-unknown-decision"} = {}
NothingAfterCancel == "attempt-after-cancel" \notin g.viol
NonIdemOneExecution == "speculative-non-idempotent" \notin g.viol
NonIdemNeverRetried == "non-idempotent-retried" \notin g.viol
OneResultFirstLastError == g.viol \cap {"wrong-result-returned", "last-error-swallowed", "multiple-results"} = {}

Sent == g.sent
\* the exact bound (see ExecutorMon!Allowed) ...
DirectBound == Sent <= PolBmax(cfg.pol) + launched
\* ... which is budget + 1 without speculation
DirectBoundSequential == ~SpecMode => started <= PolBmax(cfg.pol) + 1
DirectNonIdem == ~cfg.idem => launched <= 1 /\ (NonIdemRetry \/ started <= 1)
DirectSpeculation == launched <= spawned /\ spawned <= 1 + (IF cfg.idem THEN cfg.k ELSE 0)
\* an execution that observed the cancellation attempts nothing more: it is finished
DirectCancel == \A e \in E : ex[e].out \in CtxErrs => ex[e].pc \in {"done", "fin"}
\* the result handed to the caller is a finished execution's result
DirectResult == ret # NoRes =>
  \/ SpecMode /\ cancelled # "no" /\ ret.att = 0 /\ ret.eord = 0 /\ ret.x \in CtxErrs
  \/ \E e \in E : ex[e].pc \in {"done", "fin"} /\ ex[e].res = ret

\* witnesses (expected to be VIOLATED: the bound is reached; budget+1 is too tight)
TemptingBound == Sent <= PolBmax(cfg.pol) + 1
BoundNotReached == ~(launched = 3 /\ PolBmax(cfg.pol) = 2 /\ Sent = PolBmax(cfg.pol) + launched)

Terminates == <>returned

\* model-checking view: the latest event and the history are not part of the state
View == <<cfg, ex, ipos, cnt, started, spawned, launched, chan, ret, cancelled, returned, g>>
=============================================================================
