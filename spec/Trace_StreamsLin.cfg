SPECIFICATION Spec
INVARIANT NotAccepted
CONSTRAINT Mark
POSTCONDITION PrintMark
CHECK_DEADLOCK FALSE
