SPECIFICATION Spec
CONSTANTS
  Threads = {t1, t2, t3}
  K = 3
  MaxCalls = 3
  MaxTick = 1
  Atomic = FALSE
INVARIANT Distinct
INVARIANT Counted
CHECK_DEADLOCK FALSE
