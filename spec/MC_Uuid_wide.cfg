INIT InitWide
NEXT Next
INVARIANT EmitWide
CHECK_DEADLOCK FALSE
