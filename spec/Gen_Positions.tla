---------------------------- MODULE Gen_Positions ----------------------------
(***************************************************************************)
(* Property C05, input family 5: well-formed frames of a kind not expected *)
(* at that point of the conversation.                                      *)
(*                                                                         *)
(* The conversation of one session with one node, as the native protocol   *)
(* (v4 sections 2, 4.1, 4.2) and the driver's documented life cycle lay it *)
(* out:                                                                    *)
(*   control connection:  OPTIONS -> STARTUP -> [AUTHENTICATE /            *)
(*        AUTH_RESPONSE {AUTH_CHALLENGE / AUTH_RESPONSE}] -> READY ->       *)
(*        QUERY system.local -> REGISTER -> QUERY system.local / peers     *)
(*   pool connection:     OPTIONS -> STARTUP -> [auth] -> [USE keyspace]   *)
(*   then, in any order:  QUERY, PREPARE -> EXECUTE, BATCH (with and       *)
(*        without a PREPARE of its own), the heartbeat OPTIONS of a pool   *)
(*        connection, of the control connection and of the control         *)
(*        connection's own monitor, and frames nobody asked for: on        *)
(*        stream -1 (events), on stream 0, on an unused stream.            *)
(* `pc` is the request the driver is waiting on.  The node's legitimate    *)
(* answer moves the conversation on (Legit); composed with it is "the node *)
(* may answer any request with any well-formed frame kind" (Adversary):    *)
(* a terminal state per (configuration, position, kind) - the case.  The   *)
(* frames are those of the C04 family (WireResp.tla), protocol 4, plus a   *)
(* few malformed ones (Gen_Malformed's mutations) at the position where    *)
(* the confirmed crashers belong, so that they meet the driver's real      *)
(* goroutines.  Oracle: spec/Trace_Malformed.tla.                          *)
(*                                                                         *)
(* Round 2.  (1) The frame-level malformations of Gen_Malformed (header    *)
(* version / flags / opcode / length, compression without a compressor,    *)
(* body cut at field boundaries, counts and lengths off) are also          *)
(* delivered as the ANSWER to each request kind on the live connection, so *)
(* that Conn.recv / Conn.exec and the goroutine of the caller see them.    *)
(* (2) Multi-step positions: the second page of a paged result, the        *)
(* PREPARE a driver sends again after UNPREPARED and the EXECUTE after it, *)
(* a second answer on a stream already answered, an answer that arrives    *)
(* after the caller gave up - each with any well-formed frame, in          *)
(* particular rows / prepared metadata that differ from the first step.    *)
(* (3) A concurrent position: two callers execute the same prepared        *)
(* statement; the first EXECUTE is answered UNPREPARED, and while the      *)
(* driver's new PREPARE is unanswered the second EXECUTE gets any frame.   *)
(***************************************************************************)
EXTENDS Gen_Malformed      \* (brings Gen_WireResp, the annotated encoder and its mutations; CONSTANTS Tier, Part; VARIABLE p)

PV == 4     \* protocol version of the live sessions

\* the configuration dimension: ClusterConfig as the application may set it
\*   noschema / nostatus / notopology : Events.DisableSchemaEvents / DisableNodeStatusEvents / DisableTopologyEvents (REGISTER
\*        names the other two kinds);   noevents : all three (no REGISTER is sent at all)
\*   nolookup : DisableInitialHostLookup (no ring refresh);   ignorepeer : IgnorePeerAddr
\*   nocontrol : no control connection (the pool connection is the only one)
\*   snappy : a compressor is configured and negotiated
\* A node - or a proxy, or another cluster behind the same address - need not know any of it: it may still push every kind
\* of EVENT on stream -1 and answer anything.
Cfgs == {"plain", "auth", "chain", "keyspace", "tokenaware", "noschema", "nostatus", "notopology", "noevents", "nolookup", "ignorepeer",
         "nocontrol", "snappy"}
\* positions that exist (or differ) only in a non-plain configuration
CfgSpecific(cfg) ==
  CASE cfg = "auth" -> {"ctl.startup", "ctl.auth_response", "pool.startup", "pool.auth_response"}
    [] cfg = "chain" -> {"ctl.auth_response", "ctl.auth_response2", "pool.auth_response2"}
    [] cfg = "keyspace" -> {"pool.use"}
    \* a token-aware host selection policy asks the PREPARED answer for the routing key before the request is sent
    [] cfg = "tokenaware" -> {"app.prepare", "app.batch_prepare", "app.execute"}
    [] cfg \in {"noschema", "nostatus", "notopology"} -> {"ctl.register", "unsolicited.event", "unsolicited.stream0"}
    [] cfg = "noevents" -> {"ctl.query_local", "ctl.refresh_local", "unsolicited.event", "unsolicited.stream0"}
    [] cfg = "nolookup" -> {"ctl.register", "pool.options", "app.query", "unsolicited.event"}
    [] cfg = "ignorepeer" -> {"ctl.refresh_peers", "unsolicited.event"}
    \* (nocontrol is the driver's unexported test-only switch: what needs Session.control - schema / node event handlers, the
    \* keyspace metadata behind a routing key - is not exercised with it: a nil control connection is not the network's doing)
    [] cfg = "nocontrol" -> {"pool.options", "pool.startup", "pool.heartbeat", "app.execute", "unsolicited.stream0"}
    [] cfg = "snappy" -> {"ctl.options", "ctl.startup", "pool.startup", "app.query", "app.execute", "unsolicited.event"}
    [] OTHER -> {}

\* the request outstanding at a position
Req(pos) ==
  CASE pos \in {"ctl.options", "pool.options", "pool.heartbeat", "ctl.conn_heartbeat", "ctl.heartbeat"} -> "OPTIONS"
    [] pos \in {"ctl.startup", "pool.startup"} -> "STARTUP"
    [] pos \in {"ctl.auth_response", "ctl.auth_response2", "pool.auth_response", "pool.auth_response2"} -> "AUTH_RESPONSE"
    [] pos = "ctl.register" -> "REGISTER"
    [] pos \in {"ctl.query_local", "ctl.refresh_local", "ctl.refresh_peers", "pool.use", "app.query"} -> "QUERY"
    [] pos \in {"app.prepare", "app.batch_prepare"} -> "PREPARE"
    [] pos \in {"app.execute", "app.execute2", "app.page1", "app.page2", "conc.execute1", "conc.execute2"} -> "EXECUTE"
    [] pos = "app.prepare2" -> "PREPARE"
    [] pos = "app.batch" -> "BATCH"
    [] OTHER -> "NONE"     \* unsolicited.*
\* what the protocol allows as an answer (section 4.1: "the server will respond by ...")
Results == {"RESULT_VOID", "RESULT_ROWS", "RESULT_KEYSPACE", "RESULT_PREPARED", "RESULT_SCHEMA"}
Expected(req) ==
  CASE req = "OPTIONS" -> {"SUPPORTED", "ERROR"}
    [] req = "STARTUP" -> {"READY", "AUTHENTICATE", "ERROR"}
    [] req = "AUTH_RESPONSE" -> {"AUTH_CHALLENGE", "AUTH_SUCCESS", "ERROR"}
    [] req = "REGISTER" -> {"READY", "ERROR"}
    [] req \in {"QUERY", "EXECUTE", "BATCH"} -> Results \cup {"ERROR"}
    [] req = "PREPARE" -> {"RESULT_PREPARED", "ERROR"}
    [] req = "NONE" -> {"EVENT_TOPOLOGY", "EVENT_STATUS", "EVENT_SCHEMA"}

\* ------------------------------------------------------------------ the conversation (legitimate answers)
AuthCfg(cfg) == cfg \in {"auth", "chain"}
\* Legit(cfg, pos) = set of <<answer kind, next position>>
Legit(cfg, pos) ==
  CASE pos = "ctl.options" -> {<<"SUPPORTED", "ctl.startup">>}
    [] pos = "ctl.startup" -> IF AuthCfg(cfg) THEN {<<"AUTHENTICATE", "ctl.auth_response">>} ELSE {<<"READY", "ctl.query_local">>}
    [] pos = "ctl.auth_response" -> IF cfg = "chain" THEN {<<"AUTH_CHALLENGE", "ctl.auth_response2">>} ELSE {<<"AUTH_SUCCESS", "ctl.query_local">>}
    [] pos = "ctl.auth_response2" -> {<<"AUTH_SUCCESS", "ctl.query_local">>}
    [] pos = "ctl.query_local" -> {<<"RESULT_ROWS", IF cfg = "noevents" THEN "ctl.refresh_local" ELSE "ctl.register">>}
    [] pos = "ctl.register" -> {<<"READY", IF cfg = "nolookup" THEN "pool.options" ELSE "ctl.refresh_local">>}
    [] pos = "ctl.refresh_local" -> {<<"RESULT_ROWS", "ctl.refresh_peers">>}
    [] pos = "ctl.refresh_peers" -> {<<"RESULT_ROWS", "pool.options">>}
    [] pos = "pool.options" -> {<<"SUPPORTED", "pool.startup">>}
    [] pos = "pool.startup" -> IF AuthCfg(cfg) THEN {<<"AUTHENTICATE", "pool.auth_response">>}
                               ELSE {<<"READY", IF cfg = "keyspace" THEN "pool.use" ELSE "idle">>}
    [] pos = "pool.auth_response" -> IF cfg = "chain" THEN {<<"AUTH_CHALLENGE", "pool.auth_response2">>} ELSE {<<"AUTH_SUCCESS", "idle">>}
    [] pos = "pool.auth_response2" -> {<<"AUTH_SUCCESS", "idle">>}
    [] pos = "pool.use" -> {<<"RESULT_KEYSPACE", "idle">>}
    [] pos = "app.prepare" -> {<<"RESULT_PREPARED", "app.execute">>, <<"RESULT_PREPARED", "app.page1">>, <<"RESULT_PREPARED", "conc.execute1">>}
    [] pos = "app.execute" -> {<<"ERROR", "app.prepare2">>}                    \* UNPREPARED: the driver prepares again
    [] pos = "app.prepare2" -> {<<"RESULT_PREPARED", "app.execute2">>}
    [] pos = "app.page1" -> {<<"RESULT_ROWS", "app.page2">>}                   \* has_more_pages: the driver asks for the next page
    [] pos = "conc.execute1" -> {<<"ERROR", "conc.execute2">>}                 \* UNPREPARED for the first of two callers
    [] pos = "app.batch_prepare" -> {<<"RESULT_PREPARED", "app.batch">>}
    [] OTHER -> {}     \* the other requests end where they started: the session is idle again
\* what may happen next in an established, idle session
FromIdle == {"app.query", "app.prepare", "app.batch", "app.batch_prepare", "pool.heartbeat", "ctl.conn_heartbeat", "ctl.heartbeat",
             "unsolicited.event", "unsolicited.stream0", "unsolicited.unused_stream",
             \* a second frame on the stream of a request that has been answered / whose caller has given up
             "app.query.second_answer", "app.execute.second_answer", "app.query.late_answer"}
\* steps that only lead somewhere (the same request kind is attacked at another position)
Passage == {"app.page1", "conc.execute1"}

\* ------------------------------------------------------------------ the frames the adversary answers with
Mk(kind, b) == Frame(Env(kind, PV, 0, 0, 0, b))
Col(name, t) == [ks |-> S_ks1, table |-> S_t1, name |-> name, type |-> t]
RowsInt == [meta |-> MkMeta(<<TInt>>, TRUE, FALSE, FALSE), rows |-> <<<<CInt(7)>>, <<CInt(-1)>>>>]
RowsTwo == [meta |-> MkMeta(<<TText, TyList(TInt)>>, FALSE, FALSE, FALSE), rows |-> <<<<CText(S_hello), CListInt(PV, <<1, 2>>)>>>>]
Tup3 == TyTuple(<<TInt, TInt, TInt>>)
RowsTuple3 == [meta |-> MkMeta(<<Tup3>>, TRUE, FALSE, FALSE), rows |-> <<<<CTuple(<<CInt(1), CInt(2), CInt(3)>>)>>>>]
RowsIntTuple == [meta |-> MkMeta(<<TInt, TyTuple(<<TInt, TText>>)>>, TRUE, FALSE, FALSE), rows |-> <<<<CInt(5), CTuple(<<CInt(1), CText(S_a)>>)>>>>]
RowsNoCols == [meta |-> MkMeta(<<>>, FALSE, FALSE, FALSE), rows |-> <<>>]
RowsMore == [meta |-> MkMeta(<<TInt>>, TRUE, TRUE, FALSE), rows |-> <<<<CInt(8)>>>>]
Prepared(nbind) == [id |-> <<9, 9>>, pk |-> <<>>, req |-> MkMeta([i \in 1 .. nbind |-> TInt], TRUE, FALSE, FALSE), res |-> MkMeta(<<TInt>>, TRUE, FALSE, FALSE)]
\* partition-key indexes (v4+ <pk_index>) that do not fit the bind markers: beyond the columns described; beyond the one
\* value the application binds (two markers described, the key is the second)
PreparedPkBeyondColumns == [Prepared(1) EXCEPT !.pk = <<5>>]
PreparedPkHuge == [Prepared(1) EXCEPT !.pk = <<0, 65535>>]
PreparedPkSecondOfTwo == [Prepared(2) EXCEPT !.pk = <<1>>]
\* lightweight-transaction results: the first column is the boolean "[applied]" - or is not
N_applied == <<91, 97, 112, 112, 108, 105, 101, 100, 93>>
CasMeta(cols) == [global |-> TRUE, more |-> FALSE, nometa |-> FALSE, paging |-> <<>>, gks |-> S_ks1, gtable |-> S_t1,
                  cols |-> [j \in 1 .. Len(cols) |-> [ks |-> S_ks1, table |-> S_t1, name |-> cols[j].n, type |-> cols[j].t]]]
CasApplied == [meta |-> CasMeta(<<[n |-> N_applied, t |-> TBool]>>), rows |-> <<<<CBool(TRUE)>>>>]
CasNotApplied == [meta |-> CasMeta(<<[n |-> N_applied, t |-> TBool], [n |-> S_a, t |-> TInt]>>), rows |-> <<<<CBool(FALSE), CInt(7)>>>>]
CasAppliedIsInt == [meta |-> CasMeta(<<[n |-> N_applied, t |-> TInt], [n |-> S_a, t |-> TInt]>>), rows |-> <<<<CInt(1), CInt(7)>>>>]
CasAppliedNull == [meta |-> CasMeta(<<[n |-> N_applied, t |-> TBool], [n |-> S_a, t |-> TInt]>>), rows |-> <<<<CNullBool, CNullInt>>>>]
CasAppliedNotFirst == [meta |-> CasMeta(<<[n |-> S_a, t |-> TInt], [n |-> N_applied, t |-> TBool]>>), rows |-> <<<<CInt(7), CBool(TRUE)>>>>]
CasNoRows == [meta |-> CasMeta(<<[n |-> N_applied, t |-> TBool]>>), rows |-> <<>>]
\* one bind marker announced, its specification skipped (the no_metadata flag is defined for every metadata block)
PreparedNoMeta == [Prepared(1) EXCEPT !.req = MkMeta(<<TInt>>, FALSE, FALSE, TRUE)]
\* two bind markers, the second a tuple<int, text>
PreparedTupleBind == [Prepared(2) EXCEPT !.req = MkMeta(<<TInt, TyTuple(<<TInt, TText>>)>>, TRUE, FALSE, FALSE)]
SchemaTable == [change |-> S_CREATED, target |-> "TABLE", ks |-> S_ks1, name |-> S_tbl, args |-> <<>>]
Ev(change) == [change |-> change, addr |-> <<10, 0, 0, 1>>, port |-> 9042]
Ev2(change) == [change |-> change, addr |-> <<10, 0, 0, 9>>, port |-> 9042]
Err(code, msg) == ErrBase(code, msg)
Unavailable == [ErrBase(4096, S_err) EXCEPT !.cl = 1, !.n1 = 3, !.n2 = 1]
Unprepared == [ErrBase(9472, S_err) EXCEPT !.id = <<9, 9>>]

\* variants: name -> [kind, bytes]
Variant(n, kind, bytes) == [n |-> n, kind |-> kind, bytes |-> bytes]
WellFormedVariants == <<
  Variant("READY", "READY", Mk("READY", [x |-> 0])),
  Variant("AUTHENTICATE", "AUTHENTICATE", Mk("AUTHENTICATE", [class |-> S_PasswordAuthenticator])),
  Variant("AUTH_CHALLENGE", "AUTH_CHALLENGE", Mk("AUTH_CHALLENGE", Some(<<1, 2, 3>>))),
  Variant("AUTH_SUCCESS", "AUTH_SUCCESS", Mk("AUTH_SUCCESS", Null)),
  Variant("SUPPORTED", "SUPPORTED", Mk("SUPPORTED", [opts |-> <<[k |-> S_COMPRESSION, vals |-> <<S_snappy>>], [k |-> S_CQL_VERSION, vals |-> <<S_3_4_5>>]>>])),
  Variant("ERROR_SERVER", "ERROR", Mk("ERROR", Err(0, S_err))),
  Variant("ERROR_PROTOCOL", "ERROR", Mk("ERROR", Err(10, S_err))),
  Variant("ERROR_CREDENTIALS", "ERROR", Mk("ERROR", Err(256, S_err))),
  Variant("ERROR_UNAVAILABLE", "ERROR", Mk("ERROR", Unavailable)),
  Variant("ERROR_UNPREPARED", "ERROR", Mk("ERROR", Unprepared)),
  Variant("RESULT_VOID", "RESULT_VOID", Mk("RESULT_VOID", [x |-> 0])),
  Variant("RESULT_ROWS", "RESULT_ROWS", Mk("RESULT_ROWS", RowsInt)),
  Variant("RESULT_ROWS_2COL", "RESULT_ROWS", Mk("RESULT_ROWS", RowsTwo)),
  Variant("RESULT_ROWS_TUPLE3", "RESULT_ROWS", Mk("RESULT_ROWS", RowsTuple3)),
  Variant("RESULT_ROWS_INT_TUPLE", "RESULT_ROWS", Mk("RESULT_ROWS", RowsIntTuple)),
  Variant("RESULT_ROWS_NOCOLS", "RESULT_ROWS", Mk("RESULT_ROWS", RowsNoCols)),
  Variant("RESULT_ROWS_MORE_PAGES", "RESULT_ROWS", Mk("RESULT_ROWS", RowsMore)),
  Variant("RESULT_KEYSPACE", "RESULT_KEYSPACE", Mk("RESULT_KEYSPACE", [ks |-> S_ks1])),
  Variant("RESULT_PREPARED", "RESULT_PREPARED", Mk("RESULT_PREPARED", Prepared(1))),
  Variant("RESULT_PREPARED_2BIND", "RESULT_PREPARED", Mk("RESULT_PREPARED", Prepared(2))),
  Variant("RESULT_PREPARED_BIND_NOMETA", "RESULT_PREPARED", Mk("RESULT_PREPARED", PreparedNoMeta)),
  Variant("RESULT_PREPARED_TUPLE_BIND", "RESULT_PREPARED", Mk("RESULT_PREPARED", PreparedTupleBind)),
  Variant("RESULT_PREPARED_PK_BEYOND_COLUMNS", "RESULT_PREPARED", Mk("RESULT_PREPARED", PreparedPkBeyondColumns)),
  Variant("RESULT_PREPARED_PK_65535", "RESULT_PREPARED", Mk("RESULT_PREPARED", PreparedPkHuge)),
  Variant("RESULT_PREPARED_PK_SECOND_OF_TWO", "RESULT_PREPARED", Mk("RESULT_PREPARED", PreparedPkSecondOfTwo)),
  Variant("RESULT_ROWS_CAS_APPLIED", "RESULT_ROWS", Mk("RESULT_ROWS", CasApplied)),
  Variant("RESULT_ROWS_CAS_NOT_APPLIED", "RESULT_ROWS", Mk("RESULT_ROWS", CasNotApplied)),
  Variant("RESULT_ROWS_CAS_APPLIED_IS_INT", "RESULT_ROWS", Mk("RESULT_ROWS", CasAppliedIsInt)),
  Variant("RESULT_ROWS_CAS_APPLIED_NULL", "RESULT_ROWS", Mk("RESULT_ROWS", CasAppliedNull)),
  Variant("RESULT_ROWS_CAS_APPLIED_NOT_FIRST", "RESULT_ROWS", Mk("RESULT_ROWS", CasAppliedNotFirst)),
  Variant("RESULT_ROWS_CAS_NO_ROWS", "RESULT_ROWS", Mk("RESULT_ROWS", CasNoRows)),
  Variant("RESULT_SCHEMA", "RESULT_SCHEMA", Mk("RESULT_SCHEMA", SchemaTable)),
  Variant("EVENT_TOPOLOGY_NEW", "EVENT_TOPOLOGY", Mk("EVENT_TOPOLOGY", Ev2(S_NEW_NODE))),
  Variant("EVENT_TOPOLOGY_REMOVED", "EVENT_TOPOLOGY", Mk("EVENT_TOPOLOGY", Ev(S_REMOVED_NODE))),
  Variant("EVENT_STATUS_UP", "EVENT_STATUS", Mk("EVENT_STATUS", Ev2(S_UP))),
  Variant("EVENT_STATUS_DOWN", "EVENT_STATUS", Mk("EVENT_STATUS", Ev(S_DOWN))),
  Variant("EVENT_SCHEMA", "EVENT_SCHEMA", Mk("EVENT_SCHEMA", SchemaTable)),
  Variant("EVENT_TOPOLOGY_MOVED", "EVENT_TOPOLOGY", Mk("EVENT_TOPOLOGY", Ev(S_MOVED_NODE))),
  Variant("EVENT_STATUS_UP_V6_PORT0", "EVENT_STATUS", Mk("EVENT_STATUS", [change |-> S_UP, addr |-> Addr6, port |-> 0])),
  Variant("EVENT_SCHEMA_KEYSPACE_DROPPED", "EVENT_SCHEMA", Mk("EVENT_SCHEMA", [SchemaTable EXCEPT !.change = S_DROPPED, !.target = "KEYSPACE", !.name = <<>>])) >>

\* malformed frames at the positions they belong to (same mutations as Gen_Malformed: one
\* length / count field replaced, or the body cut and the header's length adjusted)
ReplaceAt(bytes, off, nb) == SubSeq(bytes, 1, off) \o nb \o SubSeq(bytes, off + Len(nb) + 1, Len(bytes))
CutBody(bytes, t) == ReplaceAt(SubSeq(bytes, 1, t), 5, Int32(t - 9))
EvTopo == Mk("EVENT_TOPOLOGY", Ev2(S_NEW_NODE))
\* PREPARED v4: header 9, kind 4, id [short bytes] 2+2, flags 4, colcount 4, pkcount at 9+4+4+8 = 25
PrepPkOff == 25
RowsCountOff(bytes) == Len(bytes) - 4 - (2 * 8)      \* RowsInt: two rows of one 4-byte int cell: [int] len + 4 bytes each
Malformed == <<
  \* the [inet] announces 4 address bytes, the body ends after 2 of them
  [n |-> "MAL_EVENT_SHORT_INET", kind |-> "EVENT_TOPOLOGY", bytes |-> CutBody(EvTopo, Len(EvTopo) - 6), at |-> {"unsolicited.event", "unsolicited.stream0"}],
  [n |-> "MAL_PREPARED_NEGATIVE_PKCOUNT", kind |-> "RESULT_PREPARED", bytes |-> ReplaceAt(Mk("RESULT_PREPARED", Prepared(1)), PrepPkOff, Int32(-1)),
   at |-> {"app.prepare", "app.batch_prepare", "unsolicited.stream0"}],
  \* the row count says 3, the body holds 2 rows
  [n |-> "MAL_ROWS_SHORT", kind |-> "RESULT_ROWS", bytes |-> ReplaceAt(Mk("RESULT_ROWS", RowsInt), RowsCountOff(Mk("RESULT_ROWS", RowsInt)), Int32(3)),
   at |-> {"app.query", "app.execute", "ctl.query_local", "ctl.refresh_peers"}] >>

\* ------------------------------------------------------------------ rows of the system tables with ONE column off
\* What system.local / system.peers answer (the columns the driver reads: host_source.go), a row that
\* describes a sane node, and for every column in turn: its type replaced by int, its value null, empty,
\* a single byte 0xFF; plus a native_port column.  These answer the control connection's queries.
N_peer == <<112, 101, 101, 114>>
N_data_center == <<100, 97, 116, 97, 95, 99, 101, 110, 116, 101, 114>>
N_rack == <<114, 97, 99, 107>>
N_host_id == <<104, 111, 115, 116, 95, 105, 100>>
N_release_version == <<114, 101, 108, 101, 97, 115, 101, 95, 118, 101, 114, 115, 105, 111, 110>>
N_rpc_address == <<114, 112, 99, 95, 97, 100, 100, 114, 101, 115, 115>>
N_tokens == <<116, 111, 107, 101, 110, 115>>
N_schema_version == <<115, 99, 104, 101, 109, 97, 95, 118, 101, 114, 115, 105, 111, 110>>
N_broadcast_address == <<98, 114, 111, 97, 100, 99, 97, 115, 116, 95, 97, 100, 100, 114, 101, 115, 115>>
N_key == <<107, 101, 121>>
N_partitioner == <<112, 97, 114, 116, 105, 116, 105, 111, 110, 101, 114>>
N_cluster_name == <<99, 108, 117, 115, 116, 101, 114, 95, 110, 97, 109, 101>>
N_native_port == <<110, 97, 116, 105, 118, 101, 95, 112, 111, 114, 116>>
N_system == <<115, 121, 115, 116, 101, 109>>
N_peers == <<112, 101, 101, 114, 115>>
N_dc1 == <<100, 99, 49>>
N_r1 == <<114, 49>>
N_3_11_4 == <<51, 46, 49, 49, 46, 52>>
N_local == <<108, 111, 99, 97, 108>>
N_vf == <<118, 102>>
N_1000 == <<49, 48, 48, 48>>
N_Murmur3 == <<111, 114, 103, 46, 97, 112, 97, 99, 104, 101, 46, 99, 97, 115, 115, 97, 110, 100, 114, 97, 46, 100, 104, 116, 46, 77, 117, 114, 109, 117, 114, 51, 80, 97, 114, 116, 105, 116, 105, 111, 110, 101, 114>>
U16x == <<17, 17, 17, 17, 17, 17, 17, 17, 17, 17, 17, 17, 17, 17, 17, 17>>
HostUuid == <<0, 0, 0, 0, 0, 0, 0, 0, 0, 0, 0, 0, 0, 0, 0, 2>>
TokenSet == Int32(1) \o Int32(4) \o N_1000          \* set<varchar> {"1000"}, protocol >= 3 framing
SysCols == <<
  [n |-> N_key, t |-> Ty(13), v |-> N_local], [n |-> N_cluster_name, t |-> Ty(13), v |-> N_vf],
  [n |-> N_peer, t |-> Ty(16), v |-> <<10, 0, 0, 2>>], [n |-> N_data_center, t |-> Ty(13), v |-> N_dc1], [n |-> N_rack, t |-> Ty(13), v |-> N_r1],
  [n |-> N_host_id, t |-> Ty(12), v |-> HostUuid], [n |-> N_release_version, t |-> Ty(13), v |-> N_3_11_4],
  [n |-> N_partitioner, t |-> Ty(13), v |-> N_Murmur3], [n |-> N_rpc_address, t |-> Ty(16), v |-> <<10, 0, 0, 2>>],
  [n |-> N_broadcast_address, t |-> Ty(16), v |-> <<10, 0, 0, 2>>], [n |-> N_tokens, t |-> TySet(Ty(13)), v |-> TokenSet],
  [n |-> N_schema_version, t |-> Ty(12), v |-> U16x] >>
SysAlterations == <<"as-int", "null", "empty", "one-byte", "plus-native-port">>
SysCol(c, k) == CASE k = "as-int" -> [c EXCEPT !.t = TInt, !.v = <<0, 0, 0, 7>>] [] OTHER -> c
SysCell(c, k) == CASE k = "null" -> CNullOpaque [] k = "empty" -> COpaque(<<>>) [] k = "one-byte" -> COpaque(<<255>>)
                   [] k = "as-int" -> COpaque(<<0, 0, 0, 7>>) [] OTHER -> COpaque(c.v)
SysFrame(i, k) ==
  LET extra == IF k = "plus-native-port" THEN <<[n |-> N_native_port, t |-> TInt, v |-> Int32(i * 1000)]>> ELSE <<>>
      cs == [j \in 1 .. Len(SysCols) |-> IF j = i /\ k # "plus-native-port" THEN SysCol(SysCols[j], k) ELSE SysCols[j]] \o extra
      meta == [global |-> TRUE, more |-> FALSE, nometa |-> FALSE, paging |-> <<>>, gks |-> N_system, gtable |-> N_peers,
               cols |-> [j \in 1 .. Len(cs) |-> [ks |-> N_system, table |-> N_peers, name |-> cs[j].n, type |-> cs[j].t]]]
      row == [j \in 1 .. Len(cs) |-> IF j = i /\ k # "plus-native-port" THEN SysCell(cs[j], k) ELSE COpaque(cs[j].v)]
  IN Mk("RESULT_ROWS", [meta |-> meta, rows |-> <<row>>])
SysPositions == {"ctl.query_local", "ctl.refresh_local", "ctl.refresh_peers"}
\* (plus-native-port only once per value: i = 1 (port 1000), 2 (2000))
SysWanted(i, k) == k # "plus-native-port" \/ i <= 2

\* ------------------------------------------------------------------ Gen_Malformed's mutations as live answers
\* the answer the protocol lets the driver expect at a position (as a logical record)
L(kind, b) == Env(kind, PV, 0, 0, 0, b)
SaneSysRow == [meta |-> [global |-> TRUE, more |-> FALSE, nometa |-> FALSE, paging |-> <<>>, gks |-> N_system, gtable |-> N_peers,
                         cols |-> [j \in 1 .. Len(SysCols) |-> [ks |-> N_system, table |-> N_peers, name |-> SysCols[j].n, type |-> SysCols[j].t]]],
               rows |-> <<[j \in 1 .. Len(SysCols) |-> COpaque(SysCols[j].v)]>>]
ExpectedAnswer(pos) ==
  CASE pos \in {"ctl.options", "pool.options", "pool.heartbeat", "ctl.conn_heartbeat", "ctl.heartbeat"} -> L("SUPPORTED", [opts |-> <<[k |-> S_CQL_VERSION, vals |-> <<S_3_4_5>>]>>])
    [] pos \in {"ctl.startup", "pool.startup", "ctl.register"} -> L("READY", [x |-> 0])
    [] pos \in {"ctl.query_local", "ctl.refresh_local", "ctl.refresh_peers"} -> L("RESULT_ROWS", SaneSysRow)
    [] pos \in {"app.query", "app.batch"} -> L("RESULT_VOID", [x |-> 0])
    [] pos \in {"app.prepare", "app.batch_prepare", "app.prepare2"} -> L("RESULT_PREPARED", Prepared(1))
    [] pos \in {"app.execute", "app.execute2", "app.page2", "conc.execute2"} -> L("RESULT_ROWS", RowsInt)
    [] OTHER -> L("READY", [x |-> 0])
MutPositionsQuick == {"pool.startup", "ctl.query_local", "ctl.register", "app.query", "app.prepare", "app.execute", "app.batch",
                      "app.page2", "pool.heartbeat", "ctl.heartbeat"}
MutPositions == IF Tier = "thorough"
                THEN MutPositionsQuick \cup {"ctl.options", "ctl.startup", "pool.options", "ctl.refresh_local", "ctl.refresh_peers", "ctl.conn_heartbeat",
                                             "app.batch_prepare", "app.prepare2", "app.execute2", "conc.execute2"}
                ELSE MutPositionsQuick
LiveBase(l) == LET segs == AFrame(l)
               IN [Blank EXCEPT !.t = "base", !.kind = l.kind, !.v = l.v, !.bytes = Bytes(segs), !.hs = 9, !.fields = FieldsFrom(segs, 1, 0)]
\* every mutation of a header field; of the body fields the small and the [short]-sized values (the
\* megabyte-sized ones are the framer-level family's: no address-space limit on the live children)
BodyToo(b) == Tier = "thorough" \/ Len(b.fields) <= 40          \* (quick: a long frame gets the header mutations only)
LiveMuts(b) == {m \in FieldMuts(b, FALSE) : m.off < b.hs \/ (BodyToo(b) /\ m.mk \in {"len", "cnt", "code", "flags", "name"} /\ (m.val \in -2 .. 64 \/ m.val \in {88, 32767, 32768, 65535}))}
\* the body cut at every field boundary (the header says so)
LiveCuts(b) == {b.fields[i].off : i \in {j \in 1 .. Len(b.fields) : BodyToo(b) \/ j % 8 = 0}} \cap (b.hs .. Len(b.bytes) - 1)
MutName(m) == "MUT_" \o m.mk \o "_" \o m.f \o "_" \o ToString(m.val)

\* the PREPARED answer's bind-marker metadata as a product: flags (global table spec / no_metadata) x announced column count x
\* partition-key indexes (none, the first, the last, both, one past the count).  With no_metadata the count is announced and no
\* marker is described.  These answer the PREPAREs (positions whose request is PREPARE).
PkChoices(k) == {<<>>, <<0>>, <<k - 1>>, <<0, k - 1>>, <<k>>}
PrepProduct ==
  {[k |-> k, nometa |-> nm, global |-> g, pk |-> pk] : k \in 1 .. 3, nm \in BOOLEAN, g \in BOOLEAN, pk \in PkChoices(3)} 
PrepProductOK(x) == x.pk \in PkChoices(x.k) /\ (x.nometa => ~x.global)
PrepOf(x) == [Prepared(1) EXCEPT !.req = MkMeta([i \in 1 .. x.k |-> TInt], x.global, FALSE, x.nometa), !.pk = x.pk]
RECURSIVE PkName(_)
PkName(pk) == IF Len(pk) = 0 THEN "" ELSE "_" \o ToString(pk[1]) \o PkName(Tail(pk))
PrepName(x) == "PREPARED_" \o ToString(x.k) \o "COL" \o (IF x.nometa THEN "_NOMETA" ELSE "") \o (IF x.global THEN "_GLOBAL" ELSE "") \o "_PK" \o PkName(x.pk)

Kinds == {WellFormedVariants[i].kind : i \in 1 .. Len(WellFormedVariants)}

\* ------------------------------------------------------------------ states
Run(cfg, pos) == [t |-> "run", cfg |-> cfg, pos |-> pos, req |-> Req(pos), variant |-> "", kind |-> "", expected |-> FALSE, bytes |-> <<>>]
CaseOf(st, n, kind, bytes) == [st EXCEPT !.t = "case", !.variant = n, !.kind = kind, !.expected = kind \in Expected(st.req), !.bytes = bytes]
\* (nocontrol: in BOTH tiers only the positions that cannot reach Session.control)
Wanted(cfg, pos) == IF cfg = "nocontrol" THEN pos \in CfgSpecific(cfg)
                    ELSE Tier = "thorough" \/ cfg = "plain" \/ pos \in CfgSpecific(cfg)

PInit == \E cfg \in Cfgs : p = Run(cfg, IF cfg = "nocontrol" THEN "pool.options" ELSE "ctl.options")
PNext ==
  /\ p.t = "run"
  /\ \/ \E a \in Legit(p.cfg, p.pos) : p' = Run(p.cfg, a[2])                  \* the node answers as the protocol says
     \/ p.pos = "idle" /\ \E q \in FromIdle : p' = Run(p.cfg, q)             \* the session goes on
     \/ /\ p.pos \in MutPositions /\ p.cfg \in {"plain", "snappy"}             \* the node answers with a malformed frame
        /\ LET b == LiveBase(ExpectedAnswer(p.pos))
           IN \/ \E m \in LiveMuts(b) : /\ (p.cfg = "plain" \/ m.f = "header.flags")  \* (with a compressor: the header flags)
                                         /\ p' = CaseOf(p, MutName(m), b.kind, ApplyField(b, m).bytes)
              \/ \E t \in LiveCuts(b) : (p.cfg = "plain") /\ p' = CaseOf(p, "MUT_trunc-body_" \o ToString(t), b.kind, TruncBody(b, t).bytes)
     \/ /\ p.pos # "idle" /\ p.pos \notin Passage /\ Wanted(p.cfg, p.pos)       \* the node answers with any kind
        /\ \/ \E i \in 1 .. Len(WellFormedVariants) :
                p' = CaseOf(p, WellFormedVariants[i].n, WellFormedVariants[i].kind, WellFormedVariants[i].bytes)
           \/ \E x \in PrepProduct :
                /\ p.req = "PREPARE" /\ PrepProductOK(x)
                /\ p' = CaseOf(p, PrepName(x), "RESULT_PREPARED", Mk("RESULT_PREPARED", PrepOf(x)))
           \/ \E i \in 1 .. Len(Malformed) :
                p.pos \in Malformed[i].at /\ p' = CaseOf(p, Malformed[i].n, Malformed[i].kind, Malformed[i].bytes)
           \/ \E i \in 1 .. Len(SysCols), k \in 1 .. Len(SysAlterations) :
                /\ p.pos \in SysPositions /\ p.cfg = "plain" /\ SysWanted(i, SysAlterations[k])
                /\ p' = CaseOf(p, "SYSROW_" \o ToString(i) \o "_" \o SysAlterations[k], "RESULT_ROWS", SysFrame(i, SysAlterations[k]))

\* every position is reachable and every (position, kind) pair is generated (checked on the cases by the check)
EmitLive ==
  p.t = "case" =>
    PrintT("CASE " \o ToJson([cfg |-> p.cfg, pos |-> p.pos, req |-> p.req, variant |-> p.variant, kind |-> p.kind,
                              expected |-> p.expected, bytes |-> p.bytes]))
=============================================================================
