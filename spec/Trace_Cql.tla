------------------------------ MODULE Trace_Cql ------------------------------
(***************************************************************************)
(* Code -> spec (binding D(ii)) for C12 / C02: validates vectors recorded  *)
(* from the real Marshal / Unmarshal on seeded random inputs.  One record: *)
(*   [n, T, p, K, gv, res |-> [st, b], decs |-> <<[K, st, gv], ...>>]     *)
(* res is what Marshal returned for the Go value (K, gv); each dec is what *)
(* Unmarshal of those real bytes gave in a target of kind K.               *)
(* For every record the specification decides                              *)
(*   enc:  "ok" | "unclaimed" (pair not in the documented table) |         *)
(*         "enc-bytes" (not the encoding of the value) | "enc-accepted"    *)
(*         (bytes for a value the column cannot hold) | "enc-panic" |      *)
(*         "refused" (error on a documented, encodable value: drift)       *)
(*   decs: "ok" | "noclaim" | "rt-value" | "rt-error" | "rt-panic"         *)
(* Real bytes are accepted when they re-encode to themselves under the     *)
(* reference decoder / encoder and denote the same column value, with Go   *)
(* map iteration order and the two forms of an IPv4-mapped address         *)
(* abstracted (Canon).                                                     *)
(***************************************************************************)
EXTENDS Cql, Json, IOUtils

Log == ndJsonDeserialize(IOEnv.VF_TRACE)

VARIABLE l
Init == l = 1
Next == l <= Len(Log) /\ l' = l + 1
Spec == Init /\ [][Next]_l

Verdict(rec) ==
  LET T == rec.T
      K == rec.K
      res == [st |-> rec.res.st, b |-> rec.res.b]
      claimed == Claimed(T, K)
      cv == IF claimed THEN Src(T, K, rec.gv) ELSE VErr
      spec == Enc(T, cv, rec.p)
      back == Dec(T, res, rec.p)
      conforms == res = spec \/ (~IsErr(back) /\ Enc(T, back, rec.p) = res /\ Canon(T, back) = Canon(T, cv))
      enc == IF ~claimed THEN "unclaimed"
             ELSE IF spec.st = "err" THEN (IF res.st \in {"ok", "null"} THEN "enc-accepted" ELSE "ok")
             ELSE IF res.st = "err" THEN (IF AnyRefusable(T, K, rec.gv) THEN "ok" ELSE "refused")
             ELSE IF res.st = "panic" THEN "enc-panic"
             ELSE IF conforms THEN "ok" ELSE "enc-bytes"
      DecV(d) ==
        IF ~claimed \/ spec.st = "err" \/ res.st \notin {"ok", "null"} THEN "noclaim"
        ELSE LET exp == ConvOutTop(T, cv, d.K) IN
             IF IsErr(exp) THEN "noclaim"
             ELSE IF d.st = "ok" THEN (IF CanonK(T, d.K, d.gv) = CanonK(T, d.K, exp) THEN "ok" ELSE "rt-value")
             ELSE IF d.st = "err" THEN (IF OutMayErr(T, cv, d.K) THEN "ok" ELSE "rt-error")
             ELSE "rt-panic"
      decs == [i \in 1 .. Len(rec.decs) |-> DecV(rec.decs[i])]
      bad == enc \notin {"ok", "unclaimed"} \/ \E i \in 1 .. Len(decs) : decs[i] \notin {"ok", "noclaim"}
  IN [n |-> rec.n, enc |-> enc, decs |-> decs, conforms |-> claimed /\ spec.st # "err" /\ conforms,
      spec |-> IF bad THEN spec ELSE RErr,
      exps |-> IF bad /\ claimed THEN [i \in 1 .. Len(rec.decs) |-> ConvOutTop(T, cv, rec.decs[i].K)] ELSE <<>>]

Report == l <= Len(Log) => PrintT(<<"VEC", ToJson(Verdict(Log[l]))>>)
=============================================================================
