SPECIFICATION Spec
CONSTANTS
  Size = 3
  Triggers = {"f1", "f2", "f3"}
  Spawned = {"h1"}
  Pickers = {}
  Defect_PickOnlyEmpty = FALSE
  Closers = {"k1"}
  MaxFail = 2
  MaxKill = 1
  Eager = FALSE
  CloseErr = TRUE
  Defect_LateCloseUnderLock = FALSE
  Defect_NoJoin = FALSE
  Defect_AddDeadConn = FALSE
  Mut = "none"
INVARIANTS TypeOK NoSelfDeadlock FillJoin SizeBound OneFiller ClosedEmpty ReportedNotInPool NoStray NoLeakAfterClose PoolConnsAlive
PROPERTIES FillEnds AllClosedEventually CloseReturns PoolRefilled
CHECK_DEADLOCK FALSE
