SPECIFICATION Spec
CONSTANTS
  Size = 3
  Triggers = {"f1", "f2", "f3"}
  Spawned = {"h1", "h2"}
  Closers = {"k1", "k2"}
  MaxFail = 2
  MaxKill = 2
  Eager = FALSE
  Defect_AddDeadConn = FALSE
  Mut = "none"
INVARIANTS TypeOK SizeBound OneFiller ClosedEmpty ReportedNotInPool NoStray NoLeakAfterClose PoolConnsAlive
PROPERTIES FillEnds AllClosedEventually CloseReturns
CHECK_DEADLOCK FALSE
