------------------------------- MODULE Gen_Cql -------------------------------
(***************************************************************************)
(* Case generator for C12 / C02 (binding D(i), spec -> code): one TLC      *)
(* state per case.  A case is (CQL type, protocol version, Go kind, Go     *)
(* value); the invariant prints it together with everything the           *)
(* specification expects of the real code:                                 *)
(*   conv     "ok"  the column type has an encoding for the value          *)
(*            "err" it has none - Marshal must refuse                      *)
(*   alts     the acceptable encodings (more than one only for Go maps,    *)
(*            whose iteration order is free, and IPv4-mapped addresses)    *)
(*   ref      an error is an accepted outcome by ruling                    *)
(*   targets  documented decode targets that can represent the value, with *)
(*            the value each must hold after Unmarshal                     *)
(* Sharded over processes: VF_SHARD / VF_NSHARDS select every n-th case.   *)
(***************************************************************************)
EXTENDS Cql, Json, IOUtils, SequencesExt

CONSTANT Thorough          \* BOOLEAN: larger alphabets, protocols 1-5, all named kinds

VARIABLE idx
vars == <<idx>>

B(n) == FromInt(n)
P(n) == Pow2(n)
Txt(b) == VBytes(b)
Case(fam, T, p, K, gv) == [fam |-> fam, T |-> T, p |-> p, K |-> K, gv |-> gv]

\* ------------------------------------------------------------ alphabets
Edges(k) == {BSub(P(k), One), P(k), BNeg(P(k)), BSub(BNeg(P(k)), One)}
IntAlphabet ==
  {B(0), B(1), B(-1)} \cup UNION {Edges(k) : k \in {7, 15, 23, 31, 39, 47, 55, 63, 71, 127}}
  \cup UNION {{BSub(P(k), One), P(k)} : k \in {8, 16, 32, 64, 128}} \cup {BNeg(P(64)), BNeg(P(128))}
  \cup (IF Thorough THEN UNION {Edges(k) : k \in {8, 16, 24, 32, 40, 48, 56, 64, 72, 79, 87, 95, 103, 111, 119, 128}} \cup
                         {BAdd(P(k), One) : k \in {7, 15, 31, 63}} \cup {B(2), B(-2), B(100), B(-100), B(1000000007), FromDec(FALSE, <<1>> \o Zeros(30)), FromDec(TRUE, <<9, 9, 9, 9, 9, 9, 9, 9, 9, 9, 9, 9, 9, 9, 9, 9, 9, 9, 9, 9, 9, 9>>)} ELSE {})
NamedUsed == IF Thorough THEN NamedIntKinds ELSE {"nint64", "nuint8", "nuint32"}
IntSrcKinds == IntKinds \cup NamedUsed \cup {"bigint", "string"}
IntColTypes == {"tinyint", "smallint", "int", "bigint", "counter", "varint"}

F32 == {<<0, 0, 0, 0>>, <<128, 0, 0, 0>>, <<63, 128, 0, 0>>, <<191, 128, 0, 0>>, <<127, 128, 0, 0>>, <<255, 128, 0, 0>>,
        <<127, 192, 0, 0>>, <<127, 192, 0, 1>>, <<255, 193, 35, 69>>, <<127, 128, 0, 1>>, <<0, 0, 0, 1>>, <<127, 127, 255, 255>>, <<0, 128, 0, 0>>}
F64 == {<<0, 0, 0, 0, 0, 0, 0, 0>>, <<128, 0, 0, 0, 0, 0, 0, 0>>, <<63, 240, 0, 0, 0, 0, 0, 0>>, <<191, 240, 0, 0, 0, 0, 0, 0>>,
        <<127, 240, 0, 0, 0, 0, 0, 0>>, <<255, 240, 0, 0, 0, 0, 0, 0>>, <<127, 248, 0, 0, 0, 0, 0, 0>>, <<127, 248, 0, 0, 0, 0, 0, 1>>,
        <<255, 248, 18, 52, 86, 120, 154, 188>>, <<127, 240, 0, 0, 0, 0, 0, 1>>, <<0, 0, 0, 0, 0, 0, 0, 1>>, <<127, 239, 255, 255, 255, 255, 255, 255>>,
        <<63, 185, 153, 153, 153, 153, 153, 154>>}
TextAlphabet == {<<>>, <<97>>, <<0>>, <<195, 169>>, <<240, 159, 152, 128, 32, 97>>, <<127, 32, 9, 10>>, [i \in 1 .. 70 |-> 64 + (i % 26)]}
BlobAlphabet == TextAlphabet \cup {<<0, 127, 128, 255>>, <<255>>}
DecScales == {B(0), B(1), B(-1), B(2), BSub(P(31), One), BNeg(P(31))}
DecUnscaled == {B(0), B(1), B(-1), B(127), B(128), B(-128), B(-129), P(63), BSub(P(64), One), BNeg(P(64)), P(127), B(1000000007)}
DayMs == 86400000
\* instants (ms since the epoch) around midnight boundaries on both sides of 1970
InstantAlphabet == {B(10800000), B(-10800000), B(75600000), B(-75600000), B(0), B(1), B(-1), B(999), B(-999), B(-1000), B(43200000), B(-43200000), B(86399999), B(86400000), B(-86399999), B(-86400000), B(-86400001),
                    BMulSmall(BMulSmall(B(11016), 86400), 1000), BMulSmall(BMulSmall(B(-719161), 86400), 1000), BAdd(BMulSmall(BMulSmall(B(-141428), 86400), 1000), B(1)),
                    P(40), BNeg(P(40)), BSub(BNeg(P(40)), One), BSub(P(53), One), BNeg(P(53))}
MsOfDays(d) == BMulSmall(BMulSmall(d, 86400), 1000)
DateExtremesMs == {MsOfDays(BNeg(P(31))), BAdd(MsOfDays(BSub(P(31), One)), B(86399999))}
DayAlphabet == {B(0), B(1), B(-1), B(11016), B(-719161), B(2932896), B(-141428), B(18628)}    \* 0001-01-02 .. 9999-12-31 (0001-01-01T00:00Z is Go's zero time.Time)
NsAlphabet == {B(0), B(1), B(-1), BSub(BMulSmall(BMulSmall(B(86400), 1000000), 1000), One), B(1000000000), BSub(P(63), One), BNeg(P(63))}
VintEdges == {B(0), B(1), B(-1)} \cup UNION {{BSub(P(k), One), P(k), BNeg(P(k)), BSub(BNeg(P(k)), One)} : k \in {6, 13, 20, 27, 34, 41, 48, 55, 62}}
             \cup {BSub(P(63), One), BNeg(P(63)), BSub(P(31), One), BNeg(P(31))}
I32Edges == {x \in VintEdges : FitsS(x, 32)}
Uuids == {Zeros(16), <<254, 220, 186, 152, 118, 84, 17, 50, 128, 1, 2, 3, 4, 5, 6, 7>>, <<1, 35, 69, 103, 137, 171, 77, 239, 191, 1, 35, 69, 103, 137, 171, 205>>, [i \in 1 .. 16 |-> 255]}
IPs == {<<0, 0, 0, 0>>, <<127, 0, 0, 1>>, <<255, 255, 255, 255>>, <<10, 1, 2, 3>>, Zeros(16), Zeros(15) \o <<1>>,
        <<32, 1, 13, 184, 0, 0, 0, 0, 0, 0, 0, 0, 0, 0, 0, 1>>, <<0, 0, 0, 0, 0, 0, 0, 0, 0, 0, 255, 255, 1, 2, 3, 4>>, [i \in 1 .. 16 |-> 255],
        <<254, 128, 0, 0, 0, 0, 0, 0, 2, 0, 94, 255, 254, 0, 83, 1>>}

\* ------------------------------------------------------------ scalar families
ScalarP == 4
\* quick tier: counter (the same column encoding as bigint) only from the 64-bit and arbitrary-size kinds
IntCases == {Case("int", NT(t), ScalarP, KK(g), VInt(x)) : <<t, g, x>> \in {y \in IntColTypes \X IntSrcKinds \X IntAlphabet :
               /\ Supported(y[1], y[2]) /\ FitsKind(y[2], y[3])
               /\ (Thorough \/ y[1] # "counter" \/ y[2] \in {"int64", "uint64", "bigint", "string", "nint64"})}}
TextCases == {Case("text", NT(t), ScalarP, KK(g), Txt(b)) : <<t, g, b>> \in {y \in TextTypes \X {"string", "bytes"} \X BlobAlphabet : y[1] = "blob" \/ y[3] \in TextAlphabet}}
BoolCases == {Case("bool", NT("boolean"), ScalarP, KK("bool"), VBool(b)) : b \in BOOLEAN}
FloatCases == {Case("float", NT("float"), ScalarP, KK("float32"), VBytes(b)) : b \in F32} \cup {Case("float", NT("double"), ScalarP, KK("float64"), VBytes(b)) : b \in F64}
DecCases == {Case("decimal", NT("decimal"), ScalarP, KK("dec"), VDec(s, u)) : s \in DecScales, u \in DecUnscaled}
TimeCases == {Case("time", NT("time"), ScalarP, KK(g), VInt(x)) : g \in {"int64", "nint64", "gdur"}, x \in NsAlphabet}
TimestampCases ==
  {Case("timestamp", NT("timestamp"), ScalarP, KK(g), VInt(x)) : g \in {"int64", "nint64"}, x \in InstantAlphabet \cup {BSub(P(63), One), BNeg(P(63))}}
  \cup {Case("timestamp", NT("timestamp"), ScalarP, KK(g), VInt(x)) : g \in {"time"} \cup ZoneTimeKinds, x \in InstantAlphabet}
  \cup {Case("timestamp", NT("timestamp"), ScalarP, KK(g), VEmpty) : g \in {"time"} \cup ZoneTimeKinds}
DateCases ==
  {Case("date", NT("date"), ScalarP, KK(g), VInt(x)) : g \in {"int64", "time"} \cup ZoneTimeKinds, x \in InstantAlphabet \cup DateExtremesMs}
  \cup {Case("date", NT("date"), ScalarP, KK("string"), VInt(d)) : d \in DayAlphabet}
  \cup {Case("date", NT("date"), ScalarP, KK(g), VEmpty) : g \in {"time", "string"} \cup ZoneTimeKinds}
DurationCases ==
  {Case("duration", NT("duration"), ScalarP, KK(g), VInt(x)) : g \in {"int64", "nint64", "gdur"}, x \in VintEdges}
  \cup {Case("duration", NT("duration"), ScalarP, KK("string"), VInt(x)) : x \in VintEdges \ {BNeg(P(63))}}
  \cup {Case("duration", NT("duration"), ScalarP, KK("cdur"), VDur(x, BZero, BZero)) : x \in I32Edges}
  \cup {Case("duration", NT("duration"), ScalarP, KK("cdur"), VDur(BZero, x, BZero)) : x \in I32Edges}
  \cup {Case("duration", NT("duration"), ScalarP, KK("cdur"), VDur(BZero, BZero, x)) : x \in VintEdges}
  \cup {Case("duration", NT("duration"), ScalarP, KK("cdur"), VDur(a, b, c)) : <<a, b, c>> \in {<<B(1), B(2), B(3)>>, <<B(-1), B(-2), B(-3)>>, <<BSub(P(31), One), BSub(P(31), One), BSub(P(63), One)>>, <<BNeg(P(31)), BNeg(P(31)), BNeg(P(63))>>, <<B(14), B(64), B(8192)>>}}
UuidCases ==
  {Case("uuid", NT(t), ScalarP, KK(g), VBytes(b)) : t \in UuidTypes, g \in {"uuid", "arr16", "bytes", "string"}, b \in Uuids}
  \cup {Case("uuid", NT("uuid"), ScalarP, KK("bytes"), VBytes(b)) : b \in {Zeros(15), Zeros(17), <<1>>}}
InetCases == {Case("inet", NT("inet"), ScalarP, KK(g), VBytes(b)) : g \in {"ip", "string"}, b \in IPs}

NatKind(t) == CASE t = "tinyint" -> "int8" [] t = "smallint" -> "int16" [] t = "int" -> "int32" [] t \in {"bigint", "counter"} -> "int64"
            [] t = "varint" -> "bigint" [] t \in {"text", "ascii", "varchar"} -> "string" [] t = "blob" -> "bytes" [] t = "boolean" -> "bool"
            [] t = "float" -> "float32" [] t = "double" -> "float64" [] t = "decimal" -> "dec" [] t = "time" -> "gdur" [] t = "timestamp" -> "time"
            [] t \in UuidTypes -> "uuid" [] t = "inet" -> "ip" [] t = "date" -> "time" [] t = "duration" -> "cdur"
ScalarTypes == IntColTypes \cup TextTypes \cup UuidTypes \cup {"boolean", "float", "double", "decimal", "time", "timestamp", "inet", "date", "duration"}
\* null / nil pointers / pointer chains at top level
NullCases ==
  {Case("null", NT("int"), ScalarP, KPtr(KK(g)), VNull) : g \in UserKinds}           \* nil pointer to a user Marshaler type: null
  \cup {Case("null", NT("int"), ScalarP, KPtr(KPtr(KK(g))), VNull) : g \in UserKinds}
  \cup {Case("ptr", NT("int"), ScalarP, KPtr(KK(g)), VI(x)) : g \in UserKinds, x \in {0, -7, 2147483647}}
  \cup {Case("ptr", NT("int"), ScalarP, KPtr(KPtr(KK(g))), VI(5)) : g \in UserKinds}
  \cup {Case("int", NT("int"), ScalarP, KK("um_v"), VInt(x)) : x \in {z \in IntAlphabet : FitsS(z, 32)}}
  \cup {Case("null", NT(t), ScalarP, KK("nil"), VNull) : t \in ScalarTypes}
  \cup {Case("null", NT(t), ScalarP, KPtr(KK(NatKind(t))), VNull) : t \in ScalarTypes}
  \cup {Case("null", NT(t), ScalarP, KPtr(KPtr(KK(NatKind(t)))), VNull) : t \in {"int", "text", "varint"}}
PtrCases ==
  {Case("ptr", NT("int"), ScalarP, K, VI(-7)) : K \in {KPtr(KK("int32")), KPtr(KPtr(KK("int64"))), KPtr(KK("nint16"))}}
  \cup {Case("ptr", NT("tinyint"), ScalarP, KPtr(KK("uint8")), VI(200)), Case("ptr", NT("bigint"), ScalarP, KPtr(KK("bigint")), VI(5)),
        Case("ptr", NT("varint"), ScalarP, KPtr(KK("bigint")), VInt(P(64))), Case("ptr", NT("text"), ScalarP, KPtr(KK("string")), Txt(<<>>)),
        Case("ptr", NT("blob"), ScalarP, KPtr(KK("bytes")), Txt(<<>>)), Case("ptr", NT("timestamp"), ScalarP, KPtr(KK("time")), VI(-1)),
        Case("ptr", NT("date"), ScalarP, KPtr(KK("time")), VI(-43200000)), Case("ptr", NT("date"), ScalarP, KPtr(KK("time_p9")), VI(75600000)),
        Case("ptr", NT("date"), ScalarP, KPtr(KK("time_m5")), VI(-75600000)), Case("ptr", NT("timestamp"), ScalarP, KPtr(KK("time_m5")), VI(10800000)), Case("ptr", NT("date"), ScalarP, KPtr(KK("time")), VI(43200000)),
        Case("ptr", NT("duration"), ScalarP, KPtr(KK("cdur")), VDur(B(1), B(2), B(3))), Case("ptr", NT("decimal"), ScalarP, KPtr(KK("dec")), VDec(B(2), B(-129))),
        Case("ptr", NT("boolean"), ScalarP, KPtr(KK("bool")), VBool(FALSE)), Case("ptr", NT("double"), ScalarP, KPtr(KK("float64")), VBytes(<<128, 0, 0, 0, 0, 0, 0, 0>>)),
        Case("ptr", NT("inet"), ScalarP, KPtr(KK("ip")), VBytes(<<127, 0, 0, 1>>)), Case("ptr", NT("uuid"), ScalarP, KPtr(KK("uuid")), VBytes(Zeros(16)))}
\* the scalar families once more under the [short] framing protocol (scalar encodings do not depend on it)
ScalarV2 == {Case("v2", NT("int"), 2, KK("int32"), VI(-2)), Case("v2", NT("varint"), 2, KK("bigint"), VInt(P(64))), Case("v2", NT("text"), 2, KK("string"), Txt(<<97>>)),
             Case("v2", NT("timestamp"), 2, KK("time"), VI(-1)), Case("v2", NT("bigint"), 1, KK("int64"), VI(-1)), Case("v2", NT("date"), 5, KK("string"), VI(0)),
             Case("v2", NT("smallint"), 3, KK("int16"), VI(-32768))}

Pat(k) == [j \in 1 .. k |-> (j - 1) % 251]
\* ------------------------------------------------------------ nested families
I(n) == VI(n)
L(es) == VList(es)
Tu(es) == VTuple(es)
S(b) == Txt(b)
i32 == KK("int32")
str == KK("string")
TInt == NT("int")
TText == NT("text")
\* valid under both framings: no null inside list / set / map, no tuple / UDT
NestedBoth == {
  <<TList(TInt), KSlice(i32), L(<<>>)>>, <<TList(TInt), KSlice(i32), L(<<I(0)>>)>>,
  <<TList(TInt), KSlice(i32), L(<<VInt(BNeg(P(31))), I(-1), VInt(BSub(P(31), One))>>)>>,
  <<TList(TInt), KSlice(i32), VNull>>, <<TList(TInt), KArray(i32, 2), L(<<I(1), I(2)>>)>>, <<TList(TInt), KArray(i32, 0), L(<<>>)>>,
  <<TList(TInt), KSlice(KK("int64")), L(<<I(1), VInt(P(31))>>)>>, <<TList(TInt), KSlice(KPtr(i32)), L(<<I(5), I(-5)>>)>>,
  <<TList(TInt), KSlice(str), L(<<I(7), I(-1)>>)>>, <<TList(TInt), KPtr(KSlice(i32)), L(<<I(9)>>)>>, <<TList(TInt), KPtr(KSlice(i32)), VNull>>,
  <<TList(TText), KSlice(str), L(<<S(<<>>), S(<<97>>), S(<<195, 169>>)>>)>>, <<TList(NT("blob")), KSlice(KK("bytes")), L(<<S(<<>>), S(<<0, 255>>)>>)>>,
  <<TList(NT("varint")), KSlice(KK("bigint")), L(<<VInt(P(64)), I(-129), I(0)>>)>>, <<TList(NT("varint")), KSlice(KPtr(KK("bigint"))), L(<<I(128)>>)>>,
  <<TList(NT("varint")), KSlice(KK("int64")), L(<<I(-32769), I(32768)>>)>>,
  <<TSet(TInt), KSetMap(i32), L(<<>>)>>, <<TSet(TInt), KSetMap(i32), L(<<I(5)>>)>>, <<TSet(TInt), KSetMap(i32), L(<<I(1), I(2), I(3)>>)>>,
  <<TSet(TInt), KSlice(i32), L(<<I(3), I(1)>>)>>, <<TSet(TText), KSetMap(str), L(<<S(<<98>>), S(<<>>)>>)>>, <<TSet(TText), KSlice(str), L(<<S(<<98>>), S(<<97>>)>>)>>,
  <<TSet(NT("uuid")), KSlice(KK("uuid")), L(<<VBytes(Zeros(16)), VBytes([i \in 1 .. 16 |-> 255])>>)>>, <<TSet(NT("tinyint")), KSlice(KK("int8")), L(<<I(-128), I(127)>>)>>,
  <<TSet(TInt), KSetMap(i32), VNull>>,
  <<TMap(TText, TInt), KMap(str, i32), VMap(<<>>)>>, <<TMap(TText, TInt), KMap(str, i32), VMap(<<KV(S(<<97>>), I(1))>>)>>,
  <<TMap(TText, TInt), KMap(str, i32), VMap(<<KV(S(<<97>>), I(1)), KV(S(<<98>>), I(-1)), KV(S(<<>>), I(0))>>)>>, <<TMap(TText, TInt), KMap(str, i32), VNull>>,
  <<TMap(TInt, TText), KMap(i32, str), VMap(<<KV(I(-1), S(<<>>)), KV(I(0), S(<<120>>))>>)>>,
  <<TMap(NT("bigint"), NT("double")), KMap(KK("int64"), KK("float64")), VMap(<<KV(VInt(BNeg(P(63))), VBytes(<<127, 248, 0, 0, 0, 0, 0, 1>>))>>)>>,
  <<TMap(TText, TList(TInt)), KMap(str, KSlice(i32)), VMap(<<KV(S(<<107>>), L(<<I(1), I(2)>>)), KV(S(<<101>>), L(<<>>))>>)>>,
  <<TMap(TText, TMap(TText, TInt)), KMap(str, KMap(str, i32)), VMap(<<KV(S(<<111>>), VMap(<<KV(S(<<105>>), I(1))>>))>>)>>,
  <<TMap(TText, TSet(TInt)), KMap(str, KSetMap(i32)), VMap(<<KV(S(<<115>>), L(<<I(1), I(2)>>))>>)>>,
  <<TList(TList(TInt)), KSlice(KSlice(i32)), L(<<L(<<>>), L(<<I(1)>>), L(<<I(2), I(3)>>)>>)>>,
  <<TList(TSet(TText)), KSlice(KSetMap(str)), L(<<L(<<S(<<97>>), S(<<98>>)>>)>>)>>,
  <<TList(TMap(TText, NT("bigint"))), KSlice(KMap(str, KK("int64"))), L(<<VMap(<<KV(S(<<97>>), I(-1))>>), VMap(<<>>)>>)>>,
  <<TSet(TList(TInt)), KSlice(KSlice(i32)), L(<<L(<<I(1)>>), L(<<>>)>>)>>,
  <<TList(NT("timestamp")), KSlice(KK("time")), L(<<I(0), I(-1), VEmpty>>)>>, <<TList(NT("boolean")), KSlice(KK("bool")), L(<<VBool(TRUE), VBool(FALSE)>>)>>,
  <<TList(NT("double")), KSlice(KK("float64")), L(<<VBytes(<<127, 248, 0, 0, 0, 0, 0, 1>>), VBytes(<<128, 0, 0, 0, 0, 0, 0, 0>>)>>)>>,
  <<TList(NT("inet")), KSlice(KK("ip")), L(<<VBytes(<<127, 0, 0, 1>>), VBytes(Zeros(15) \o <<1>>)>>)>>,
  <<TList(NT("date")), KSlice(str), L(<<I(0), I(-1)>>)>>, <<TList(NT("date")), KSlice(KK("time")), L(<<I(43200000), I(86400000)>>)>>,
  <<TList(NT("decimal")), KSlice(KK("dec")), L(<<VDec(B(2), B(-129)), VDec(B(0), B(0))>>)>>,
  <<TList(NT("duration")), KSlice(KK("cdur")), L(<<VDur(B(1), B(2), B(3)), VDur(B(0), B(0), B(64))>>)>>,
  <<TList(NT("time")), KSlice(KK("gdur")), L(<<I(0), I(1)>>)>>, <<TList(NT("smallint")), KSlice(KK("uint16")), L(<<I(32767)>>)>>,
  \* elements / keys / values of 32768 bytes: the [short] length of protocol <= 2 is unsigned
  <<TList(NT("blob")), KSlice(KK("bytes")), L(<<S(Pat(32768)), S(<<1>>)>>)>>, <<TSet(TText), KSlice(str), L(<<S(Pat(40000))>>)>>,
  <<TMap(TText, NT("blob")), KMap(str, KK("bytes")), VMap(<<KV(S(Pat(32768)), S(Pat(32769)))>>)>>,
  \* known-defect leaves inside collections (DESIGN section 9)
  <<TList(NT("bigint")), KSlice(KK("bigint")), L(<<I(5)>>)>>, <<TList(NT("date")), KSlice(KK("time")), L(<<I(-43200000)>>)>>,
  <<TMap(TText, NT("duration")), KMap(str, KK("nint64")), VMap(<<KV(S(<<97>>), I(5))>>)>>, <<TSet(NT("tinyint")), KSlice(KK("uint8")), L(<<I(200)>>)>>
}
U2 == TUdt(<<TInt, TText>>)
T2 == TTuple(<<TInt, TText>>)
\* [int] framing only (protocol >= 3): nulls inside collections, tuples, UDTs
NestedV3 == {
  <<TList(TInt), KSlice(KPtr(i32)), L(<<I(1), VNull, I(0)>>)>>, <<TList(TText), KSlice(KPtr(str)), L(<<S(<<>>), VNull>>)>>,
  <<TMap(TText, TInt), KMap(str, KPtr(i32)), VMap(<<KV(S(<<97>>), VNull), KV(S(<<98>>), I(0))>>)>>, <<TSet(TInt), KSlice(KPtr(i32)), L(<<VNull>>)>>,
  <<TList(TList(TInt)), KSlice(KSlice(KPtr(i32))), L(<<L(<<VNull>>), L(<<>>)>>)>>,
  <<T2, KIfaces(<<i32, str>>), Tu(<<I(1), S(<<97>>)>>)>>, <<T2, KIfaces(<<KK("nil"), str>>), Tu(<<VNull, S(<<>>)>>)>>,
  <<T2, KIfaces(<<KPtr(i32), str>>), Tu(<<VNull, S(<<97>>)>>)>>, <<T2, KIfaces(<<KPtr(i32), KPtr(str)>>), Tu(<<I(-1), VNull>>)>>,
  <<T2, KIfaces(<<KPtr(i32), KPtr(str)>>), Tu(<<I(0), S(<<>>)>>)>>,
  <<T2, KStruct(<<i32, str>>), Tu(<<I(-2), S(<<98>>)>>)>>, <<T2, KStruct(<<KPtr(i32), KPtr(str)>>), Tu(<<VNull, S(<<>>)>>)>>,
  <<T2, KStruct(<<KPtr(i32), KPtr(str)>>), Tu(<<I(0), VNull>>)>>, <<T2, KPtr(KStruct(<<i32, str>>)), Tu(<<I(3), S(<<99>>)>>)>>,
  <<TTuple(<<TInt, TInt>>), KSlice(i32), Tu(<<I(1), I(2)>>)>>, <<TTuple(<<TInt, TInt>>), KArray(i32, 2), Tu(<<I(-1), I(0)>>)>>,
  <<TTuple(<<TInt, TInt>>), KSlice(KPtr(i32)), Tu(<<VNull, I(2)>>)>>, <<TTuple(<<TInt>>), KIfaces(<<KK("int64")>>), Tu(<<VInt(P(31))>>)>>,
  <<TTuple(<<NT("varint"), NT("blob"), NT("boolean")>>), KIfaces(<<KK("bigint"), KK("bytes"), KK("bool")>>), Tu(<<VInt(BNeg(P(64))), S(<<>>), VBool(TRUE)>>)>>,
  <<TTuple(<<TList(TInt), TMap(TText, TInt)>>), KStruct(<<KSlice(i32), KMap(str, i32)>>), Tu(<<L(<<I(1)>>), VMap(<<KV(S(<<97>>), I(1))>>)>>)>>,
  <<TTuple(<<TList(TInt), TMap(TText, TInt)>>), KStruct(<<KSlice(i32), KMap(str, i32)>>), Tu(<<L(<<>>), VMap(<<>>)>>)>>,
  <<TTuple(<<T2, TInt>>), KStruct(<<KStruct(<<i32, str>>), i32>>), Tu(<<Tu(<<I(1), S(<<97>>)>>), I(2)>>)>>,
  <<TTuple(<<T2, TInt>>), KStruct(<<KPtr(KStruct(<<i32, str>>)), i32>>), Tu(<<VNull, I(2)>>)>>,
  <<TList(T2), KSlice(KStruct(<<i32, str>>)), L(<<Tu(<<I(1), S(<<97>>)>>), Tu(<<I(2), S(<<>>)>>)>>)>>,
  <<TList(T2), KSlice(KIfaces(<<i32, KK("nil")>>)), L(<<Tu(<<I(1), VNull>>)>>)>>,
  <<TMap(TText, T2), KMap(str, KStruct(<<KPtr(i32), str>>)), VMap(<<KV(S(<<107>>), Tu(<<VNull, S(<<118>>)>>))>>)>>,
  <<U2, KStruct(<<i32, str>>), Tu(<<I(1), S(<<97>>)>>)>>, <<U2, KStruct(<<KPtr(i32), KPtr(str)>>), Tu(<<VNull, S(<<>>)>>)>>,
  <<U2, KStruct(<<KPtr(i32), KPtr(str)>>), Tu(<<I(0), VNull>>)>>, <<U2, KPtr(KStruct(<<i32, str>>)), Tu(<<I(1), S(<<97>>)>>)>>,
  <<U2, KUdtMap(<<i32, str>>), Tu(<<I(-1), S(<<>>)>>)>>, <<U2, KUdtMap(<<i32, str>>), Tu(<<I(1), [k |-> "absent"]>>)>>,
  <<U2, KUdtMap(<<KK("nil"), str>>), Tu(<<VNull, S(<<97>>)>>)>>, <<U2, KUdtMap(<<KPtr(i32), str>>), Tu(<<VNull, S(<<97>>)>>)>>,
  <<TUdt(<<TList(TInt), TUdt(<<TInt>>)>>), KStruct(<<KSlice(i32), KStruct(<<i32>>)>>), Tu(<<L(<<I(1), I(2)>>), Tu(<<I(3)>>)>>)>>,
  <<TUdt(<<TList(TInt), TUdt(<<TInt>>)>>), KUdtMap(<<KSlice(i32), KUdtMap(<<i32>>)>>), Tu(<<L(<<>>), Tu(<<I(3)>>)>>)>>,
  <<TList(U2), KSlice(KStruct(<<i32, str>>)), L(<<Tu(<<I(1), S(<<97>>)>>)>>)>>, <<TMap(TText, U2), KMap(str, KStruct(<<i32, KPtr(str)>>)), VMap(<<KV(S(<<107>>), Tu(<<I(1), VNull>>))>>)>>,
  <<TUdt(<<T2, NT("timestamp")>>), KStruct(<<KStruct(<<i32, str>>), KK("time")>>), Tu(<<Tu(<<I(1), S(<<97>>)>>), VEmpty>>)>>,
  \* map / slice / pointer fields of a UDT struct (destinations that a decode must replace, not merge into)
  <<TUdt(<<TMap(TText, TInt), TList(TText), TInt>>), KStruct(<<KMap(str, i32), KSlice(str), KPtr(i32)>>), Tu(<<VMap(<<KV(S(<<99>>), I(3))>>), L(<<S(<<122>>)>>), I(7)>>)>>,
  <<TUdt(<<TMap(TText, TInt), TList(TText), TInt>>), KStruct(<<KMap(str, i32), KSlice(str), KPtr(i32)>>), Tu(<<VMap(<<>>), L(<<>>), VNull>>)>>,
  <<TUdt(<<TMap(TText, TInt), TList(TText), TInt>>), KUdtMap(<<KMap(str, i32), KSlice(str), KPtr(i32)>>), Tu(<<VMap(<<KV(S(<<97>>), I(1)), KV(S(<<98>>), I(2))>>), L(<<S(<<>>)>>), VNull>>)>>,
  \* three-field UDTs with distinguishable fields (a decoder that loses its place shows), alone and nested
  <<TUdt(<<TInt, TText, NT("bigint")>>), KStruct(<<i32, str, KK("int64")>>), Tu(<<I(11), S(<<98, 98>>), I(33)>>)>>,
  <<TUdt(<<TInt, TInt, TInt>>), KStruct(<<i32, i32, i32>>), Tu(<<I(1), I(2), I(3)>>)>>,
  <<TUdt(<<TText, TInt, TText>>), KStruct(<<KPtr(str), KPtr(i32), KPtr(str)>>), Tu(<<VNull, I(2), S(<<99>>)>>)>>,
  <<TList(TUdt(<<TInt, TInt, TText>>)), KSlice(KStruct(<<i32, i32, str>>)), L(<<Tu(<<I(1), I(2), S(<<97>>)>>), Tu(<<I(4), I(5), S(<<>>)>>)>>)>>,
  <<TMap(TText, TUdt(<<TInt, TText>>)), KMap(str, KStruct(<<i32, str>>)), VMap(<<KV(S(<<107>>), Tu(<<I(7), S(<<118>>)>>))>>)>>,
  <<TSet(TUdt(<<TInt, TInt>>)), KSlice(KStruct(<<i32, i32>>)), L(<<Tu(<<I(1), I(2)>>)>>)>>,
  <<TTuple(<<TUdt(<<TInt, TText>>), TInt>>), KIfaces(<<KStruct(<<i32, str>>), i32>>), Tu(<<Tu(<<I(1), S(<<97>>)>>), I(9)>>)>>,
  <<TUdt(<<TUdt(<<TInt, TText>>), TInt>>), KStruct(<<KStruct(<<i32, str>>), i32>>), Tu(<<Tu(<<I(1), S(<<97>>)>>), I(9)>>)>>,
  \* nil pointers to user Marshaler types as elements / fields: null
  <<TList(TInt), KSlice(KPtr(KK("um_p"))), L(<<I(5), VNull>>)>>, <<TMap(TText, TInt), KMap(str, KPtr(KK("um_p"))), VMap(<<KV(S(<<97>>), VNull), KV(S(<<98>>), I(1))>>)>>,
  <<T2, KIfaces(<<KPtr(KK("um_p")), str>>), Tu(<<VNull, S(<<97>>)>>)>>, <<T2, KIfaces(<<KPtr(KK("um_v")), KPtr(str)>>), Tu(<<VNull, VNull>>)>>,
  <<T2, KStruct(<<KPtr(KK("um_p")), str>>), Tu(<<VNull, S(<<>>)>>)>>, <<T2, KStruct(<<KPtr(KK("um_v")), str>>), Tu(<<I(3), S(<<>>)>>)>>,
  <<U2, KStruct(<<KPtr(KK("um_p")), KPtr(str)>>), Tu(<<VNull, S(<<97>>)>>)>>, <<U2, KUdtMap(<<KPtr(KK("um_v")), str>>), Tu(<<VNull, S(<<97>>)>>)>>,
  <<U2, KStruct(<<KPtr(KK("um_p")), str>>), Tu(<<I(-1), S(<<97>>)>>)>>,
  \* UDT values with null trailing fields (also decoded from the short form that leaves them out)
  <<TUdt(<<TInt, TText, NT("bigint")>>), KStruct(<<KPtr(i32), KPtr(str), KPtr(KK("int64"))>>), Tu(<<I(1), VNull, VNull>>)>>,
  <<TUdt(<<TInt, TText, NT("bigint")>>), KStruct(<<KPtr(i32), KPtr(str), KPtr(KK("int64"))>>), Tu(<<I(2), S(<<98>>), VNull>>)>>,
  <<TUdt(<<TInt, TText, NT("bigint")>>), KStruct(<<KPtr(i32), KPtr(str), KPtr(KK("int64"))>>), Tu(<<VNull, VNull, VNull>>)>>,
  <<TUdt(<<TInt, TList(TInt), TMap(TText, TInt)>>), KUdtMap(<<i32, KSlice(i32), KMap(str, i32)>>), Tu(<<I(1), [k |-> "absent"], [k |-> "absent"]>>)>>,
  <<TList(TUdt(<<TInt, TInt, TText>>)), KSlice(KStruct(<<i32, KPtr(i32), KPtr(str)>>)), L(<<Tu(<<I(1), I(2), S(<<97>>)>>), Tu(<<I(4), VNull, VNull>>)>>)>>,
  <<TMap(TText, TUdt(<<TInt, TText>>)), KMap(str, KStruct(<<i32, KPtr(str)>>)), VMap(<<KV(S(<<107>>), Tu(<<I(7), VNull>>))>>)>>,
  <<TTuple(<<TUdt(<<TInt, TText>>), TInt>>), KIfaces(<<KStruct(<<i32, KPtr(str)>>), i32>>), Tu(<<Tu(<<I(1), VNull>>), I(9)>>)>>,
  <<TUdt(<<TUdt(<<TInt, TText>>), TInt>>), KStruct(<<KStruct(<<i32, KPtr(str)>>), KPtr(i32)>>), Tu(<<Tu(<<I(1), VNull>>), VNull>>)>>,
  \* known-defect leaves inside tuples
  <<TTuple(<<NT("bigint"), TInt>>), KIfaces(<<KK("bigint"), i32>>), Tu(<<I(5), I(1)>>)>>
}
ProtosShort == IF Thorough THEN {1, 2} ELSE {2}
ProtosInt == IF Thorough THEN {3, 4, 5} ELSE {4}
NestedCases == {Case("nested", x[1], p, x[2], x[3]) : x \in NestedBoth, p \in ProtosShort \cup ProtosInt}
               \cup {Case("nested3", x[1], p, x[2], x[3]) : x \in NestedV3, p \in ProtosInt}

\* ------------------------------------------------------------ every scalar leaf wrapped in every container form
\* leaves <<type, kind, value>>; chosen so that the column can hold the value (the scalar families above
\* cover the refusals) - recursion is about framing, null / empty / zero and element conversion
LeafsQuick == {
  <<TInt, i32, I(-1)>>, <<TInt, KK("int64"), VInt(BSub(P(31), One))>>, <<TInt, KK("string"), I(-2147483647)>>, <<NT("tinyint"), KK("int8"), I(-128)>>,
  <<NT("smallint"), KK("nint16"), I(32767)>>, <<NT("bigint"), KK("int64"), VInt(BNeg(P(63)))>>, <<NT("bigint"), KK("string"), I(5)>>,
  <<NT("counter"), KK("uint32"), VInt(BSub(P(32), One))>>, <<NT("varint"), KK("bigint"), VInt(P(64))>>, <<NT("varint"), KK("int64"), I(-129)>>,
  <<NT("varint"), KK("uint64"), VInt(BSub(P(64), One))>>, <<NT("varint"), KK("nint16"), I(128)>>,
  <<TText, str, S(<<>>)>>, <<TText, str, S(<<195, 169>>)>>, <<NT("ascii"), KK("bytes"), S(<<97>>)>>, <<NT("blob"), KK("bytes"), S(<<>>)>>, <<NT("blob"), KK("bytes"), S(<<0, 255>>)>>,
  <<NT("boolean"), KK("bool"), VBool(FALSE)>>, <<NT("float"), KK("float32"), VBytes(<<127, 192, 0, 1>>)>>, <<NT("double"), KK("float64"), VBytes(<<128, 0, 0, 0, 0, 0, 0, 0>>)>>,
  <<NT("decimal"), KK("dec"), VDec(B(-1), B(-129))>>, <<NT("time"), KK("gdur"), I(1)>>, <<NT("time"), KK("int64"), I(0)>>,
  <<NT("timestamp"), KK("time"), I(-1)>>, <<NT("timestamp"), KK("time"), VEmpty>>, <<NT("timestamp"), KK("int64"), I(-1000)>>,
  <<NT("date"), KK("time"), I(43200000)>>, <<NT("date"), KK("time_p9"), I(75600000)>>, <<NT("date"), KK("time_m5"), I(-75600000)>>, <<NT("timestamp"), KK("time_p9"), I(-1)>>, <<NT("date"), str, I(-1)>>, <<NT("date"), KK("int64"), I(86400000)>>, <<NT("date"), str, VEmpty>>,
  <<NT("duration"), KK("cdur"), VDur(B(-1), B(64), B(8192))>>, <<NT("duration"), KK("gdur"), I(64)>>,
  <<NT("uuid"), KK("uuid"), VBytes(Zeros(16))>>, <<NT("uuid"), str, VBytes([i \in 1 .. 16 |-> 255])>>, <<NT("timeuuid"), KK("arr16"), VBytes(<<254, 220, 186, 152, 118, 84, 17, 50, 128, 1, 2, 3, 4, 5, 6, 7>>)>>,
  <<NT("inet"), KK("ip"), VBytes(<<127, 0, 0, 1>>)>>, <<NT("inet"), KK("ip"), VBytes(<<0, 0, 0, 0, 0, 0, 0, 0, 0, 0, 255, 255, 10, 0, 0, 1>>)>>,
  <<NT("inet"), str, VBytes(<<0, 0, 0, 0, 0, 0, 0, 0, 0, 0, 255, 255, 192, 168, 0, 1>>)>>, <<TInt, KK("um_v"), I(-7)>>, <<TInt, KPtr(KK("um_p")), I(9)>>, <<NT("inet"), KK("ip"), VBytes(Zeros(15) \o <<1>>)>>, <<NT("inet"), str, VBytes(<<10, 1, 2, 3>>)>>
}
IntLeafs ==
  {<<NT(y[1]), KK(y[2]), VInt(y[3])>> :
     y \in {z \in IntColTypes \X IntSrcKinds \X {B(0), B(-1), B(127), B(-128), B(255), B(32767), BSub(P(31), One), BNeg(P(31)), BSub(P(63), One), BNeg(P(63)), P(64), B(-129)} :
              /\ Supported(z[1], z[2]) /\ FitsKind(z[2], z[3])
              /\ (z[1] = "varint" \/ FitsS(z[3], 8 * Width(z[1])))
              /\ ~(z[1] \in {"bigint", "counter"} /\ z[2] = "bigint")}}      \* that pair has its own (failing) cases above
Leafs == IF Thorough THEN LeafsQuick \cup IntLeafs ELSE LeafsQuick
HashableKind(K) == K.g \notin {"bytes", "bigint", "ip", "dec", "float32", "float64"}
WrapBoth(x) ==
  LET T == x[1] K == x[2] v == x[3] IN
  {<<TList(T), KSlice(K), L(<<v>>)>>, <<TMap(TText, T), KMap(str, K), VMap(<<KV(S(<<107>>), v)>>)>>, <<TList(TList(T)), KSlice(KSlice(K)), L(<<L(<<v>>), L(<<>>)>>)>>}
  \cup (IF HashableKind(K) THEN {<<TMap(T, TText), KMap(K, str), VMap(<<KV(v, S(<<120>>))>>)>>, <<TSet(T), KSetMap(K), L(<<v>>)>>} ELSE {<<TSet(T), KSlice(K), L(<<v>>)>>})
  \cup (IF Thorough THEN {<<TList(T), KSlice(K), L(<<v, v>>)>>, <<TList(T), KArray(K, 1), L(<<v>>)>>, <<TMap(TText, TList(T)), KMap(str, KSlice(K)), VMap(<<KV(S(<<>>), L(<<v>>))>>)>>,
                           <<TSet(TList(T)), KSlice(KSlice(K)), L(<<L(<<v, v>>)>>)>>} ELSE {})
WrapV3(x) ==
  LET T == x[1] K == x[2] v == x[3] IN
  {<<TList(T), KSlice(KPtr(K)), L(<<v, VNull>>)>>, <<TTuple(<<T, TInt>>), KIfaces(<<K, i32>>), Tu(<<v, I(1)>>)>>, <<TTuple(<<T, T>>), KIfaces(<<KK("nil"), KPtr(K)>>), Tu(<<VNull, v>>)>>,
   <<TUdt(<<T, TText>>), KStruct(<<K, str>>), Tu(<<v, S(<<>>)>>)>>, <<TUdt(<<TInt, T>>), KStruct(<<KPtr(i32), KPtr(K)>>), Tu(<<I(0), VNull>>)>>,
   <<TUdt(<<T>>), KUdtMap(<<K>>), Tu(<<v>>)>>}
  \cup (IF Thorough THEN {<<TTuple(<<T>>), KStruct(<<K>>), Tu(<<v>>)>>, <<TTuple(<<TList(T), T>>), KStruct(<<KSlice(K), KPtr(K)>>), Tu(<<L(<<v>>), VNull>>)>>,
                           <<TList(TTuple(<<T>>)), KSlice(KIfaces(<<K>>)), L(<<Tu(<<v>>)>>)>>, <<TList(TUdt(<<T>>)), KSlice(KStruct(<<K>>)), L(<<Tu(<<v>>)>>)>>,
                           <<TMap(TText, TUdt(<<T, T>>)), KMap(str, KStruct(<<KPtr(K), K>>)), VMap(<<KV(S(<<117>>), Tu(<<VNull, v>>))>>)>>,
                           <<TUdt(<<TTuple(<<T>>), TList(T)>>), KStruct(<<KIfaces(<<K>>), KSlice(K)>>), Tu(<<Tu(<<v>>), L(<<>>)>>)>>} ELSE {})
WrapCases == {Case("wrap", x[1], p, x[2], x[3]) : x \in UNION {WrapBoth(lf) : lf \in Leafs}, p \in ProtosShort \cup ProtosInt}
             \cup {Case("wrap3", x[1], p, x[2], x[3]) : x \in UNION {WrapV3(lf) : lf \in Leafs}, p \in ProtosInt}

CaseSet == IntCases \cup TextCases \cup BoolCases \cup FloatCases \cup DecCases \cup TimeCases \cup TimestampCases \cup DateCases
           \cup DurationCases \cup UuidCases \cup InetCases \cup NullCases \cup PtrCases \cup ScalarV2 \cup NestedCases \cup WrapCases
Cases == SetToSeq(CaseSet)

\* ------------------------------------------------------------ decode targets offered for a type
\* Unmarshal into a struct / slice for a *tuple* assigns values of the type helpers.go:goType chooses for the
\* element (int for int, string for inet, ...); other documented field types are offered only through the
\* source's own kind (round trip into the same Go type).
GoNatKind(t) == IF t = "int" THEN "int" ELSE IF t = "inet" THEN "string" ELSE NatKind(t)
RECURSIVE HasNatural(_)
HasNatural(T) ==
  LET t == T.t IN
  IF t \in {"list", "set"} THEN HasNatural(T.e)
  ELSE IF t = "map" THEN HasNatural(T.kt) /\ HasNatural(T.vt)
  ELSE IF t \in {"tuple", "udt"} THEN FALSE
  ELSE t \notin {"varint", "decimal"}
RECURSIVE TKn(_)
TKn(T) ==
  LET t == T.t IN
  IF t \in {"list", "set"} THEN KSlice(TKn(T.e))
  ELSE IF t = "map" THEN KMap(TKn(T.kt), TKn(T.vt))
  ELSE KK(GoNatKind(t))
TupleNatural(T) == \A i \in 1 .. Len(T.es) : HasNatural(T.es[i])
\* Go map keys must be comparable: no []byte, big.Int, net.IP, inf.Dec
KeyKind(t) == IF t = "varint" THEN "int64" ELSE IF t \in {"inet", "blob"} THEN "string" ELSE NatKind(t)
RECURSIVE ValidK(_)
ValidK(K) ==
  LET g == K.g IN
  IF g \in {"ptr", "slice", "array"} THEN ValidK(K.e)
  ELSE IF g = "setmap" THEN K.e.g \notin {"bytes", "bigint", "ip", "dec", "slice", "map", "setmap", "ifaces", "udtmap"} /\ ValidK(K.e)
  ELSE IF g = "map" THEN K.kk.g \notin {"bytes", "bigint", "ip", "dec", "slice", "map", "setmap", "ifaces", "udtmap"} /\ ValidK(K.kk) /\ ValidK(K.vk)
  ELSE IF g \in {"struct", "ifaces", "udtmap", "pstruct"} THEN \A i \in 1 .. Len(K.es) : ValidK(K.es[i])
  ELSE TRUE
RECURSIVE TK(_, _)
TK(T, mode) ==
  LET t == T.t IN
  IF t \in {"list", "set"} THEN KSlice(TK(T.e, mode))
  ELSE IF t = "map" THEN KMap(IF T.kt.t \in ScalarTypes THEN KK(KeyKind(T.kt.t)) ELSE TK(T.kt, 1), TK(T.vt, mode))
  ELSE IF t = "udt" THEN
       \* mode 3: a struct that lacks the FIRST field of the UDT (matched by field name), wherever a UDT is nested
       (IF mode = 3 /\ Len(T.es) >= 2
        THEN KPStruct([j \in 1 .. Len(T.es) - 1 |-> TK(T.es[j + 1], 1)], [j \in 1 .. Len(T.es) - 1 |-> j + 1], TRUE)
        ELSE KStruct([i \in 1 .. Len(T.es) |-> TK(T.es[i], mode)]))
  ELSE IF t = "tuple" THEN
       (IF TupleNatural(T) THEN KStruct([i \in 1 .. Len(T.es) |-> IF mode = 2 THEN KPtr(TKn(T.es[i])) ELSE TKn(T.es[i])])
        ELSE KIfaces([i \in 1 .. Len(T.es) |-> TK(T.es[i], mode)]))
  ELSE IF mode = 2 THEN KPtr(KK(NatKind(t))) ELSE KK(NatKind(t))
\* every non-empty subset of 1..n in every order
SubPerms(n) == UNION {{f \in [1 .. k -> 1 .. n] : \A i, j \in 1 .. k : i # j => f[i] # f[j]} : k \in 1 .. n}
\* struct targets declaring any subset of the UDT's fields in any order, matched by cql tag / by field name
PartialStructs(T) ==
  IF Len(T.es) > 3 THEN {}
  ELSE {KPStruct([j \in 1 .. Len(f) |-> TK(T.es[f[j]], 1)], f, FALSE) : f \in SubPerms(Len(T.es))}
       \cup {KPStruct([j \in 1 .. Len(f) |-> TK(T.es[f[j]], 2)], f, TRUE) : f \in SubPerms(Len(T.es))}
ScalarKinds(t) == {g \in IntKinds \cup NamedUsed \cup UserKinds \cup {"bigint", "string", "bytes", "bool", "float32", "float64", "dec", "gdur", "time", "uuid", "arr16", "ip", "cdur"} : Target(t, g)}
Cand(T, cv) ==
  LET t == T.t IN
  IF t \in {"list", "set"} THEN
       {TK(T, 1), TK(T, 2), TK(T, 3), KPtr(TK(T, 1))} \cup (IF cv.k = "list" THEN {KArray(TK(T.e, 1), Len(cv.es))} ELSE {})
  ELSE IF t = "map" THEN {TK(T, 1), TK(T, 2), TK(T, 3), KPtr(TK(T, 1))}
  ELSE IF t = "udt" THEN {TK(T, 1), TK(T, 2), TK(T, 3), KPtr(TK(T, 3)), KStruct([i \in 1 .. Len(T.es) |-> TK(T.es[i], 3)])} \cup PartialStructs(T)
  ELSE IF t = "tuple" THEN
       {TK(T, 1), TK(T, 2), TK(T, 3), KIfaces([i \in 1 .. Len(T.es) |-> TK(T.es[i], 1)]), KIfaces([i \in 1 .. Len(T.es) |-> TK(T.es[i], 2)]),
        KIfaces([i \in 1 .. Len(T.es) |-> TK(T.es[i], 3)])}
       \cup (IF TupleNatural(T) /\ \A i \in 1 .. Len(T.es) : T.es[i] = T.es[1]
            THEN {KSlice(TKn(T.es[1])), KSlice(KPtr(TKn(T.es[1]))), KArray(TKn(T.es[1]), Len(T.es))} ELSE {})
  ELSE {KK(g) : g \in ScalarKinds(t)} \cup {KPtr(KK(NatKind(t)))} \cup (IF t \in IntColTypes THEN {KPtr(KK("int64")), KPtr(KK("bigint")), KPtr(KK("string"))} ELSE {})

Strip(K) == IF K.g = "ptr" THEN K.e ELSE K
\* the encoding r of a boolean / of a list or set of non-null booleans with every true written as another non-zero byte
BoolAlt(T, r, p) ==
  IF r.st # "ok" THEN r
  ELSE IF T.t = "boolean" THEN (IF r.b = <<1>> THEN ROk(<<255>>) ELSE r)
  ELSE IF T.t \in {"list", "set"} /\ T.e.t = "boolean" /\ Len(r.b) >= SizeWidth(p) /\ (Len(r.b) - SizeWidth(p)) % (SizeWidth(p) + 1) = 0
  THEN LET H == SizeWidth(p) IN
       ROk([i \in 1 .. Len(r.b) |-> IF i > H /\ (i - H) % (H + 1) = 0 /\ r.b[i] = 1 THEN 2 + (i % 2) * 126 ELSE r.b[i]])
  ELSE r
Expect(i) ==
  LET c == Cases[i]
      alts == SrcAlts(c.T, c.K, c.gv)
      encs == {Enc(c.T, a, c.p) : a \in alts}
      conv == IF VErr \in alts \/ RErr \in encs THEN "err" ELSE "ok"
      cv == Src(c.T, c.K, c.gv)
      cands == {k \in Cand(c.T, cv) : ValidK(k)} \cup {c.K}
      ambiguousNil == c.gv.k = "null" /\ c.K.g \in {"slice", "map", "setmap"}
      tg == IF ambiguousNil THEN {}
            ELSE IF conv = "ok"
            THEN {[K |-> K, exp |-> ConvOutTop(c.T, cv, K), mayerr |-> OutMayErr(c.T, cv, K)] : K \in {k \in cands : ~IsErr(ConvOutTop(c.T, cv, k))}}
            ELSE IF c.T.t \in FixedIntTypes /\ Strip(Strip(c.K)).g \in AllIntKinds \cup {"bigint", "string"} /\ c.gv.k = "int"
            \* the column cannot hold the value: should Marshal succeed all the same, no documented target
            \* that can represent the value may silently read something else (C02)
            THEN {[K |-> K, exp |-> c.gv, mayerr |-> TRUE] : K \in {KK(g) : g \in {h \in ScalarKinds(c.T.t) : FitsKind(h, BigOf(c.gv))}}}
            ELSE {}
  IN [id |-> i, fam |-> c.fam, T |-> c.T, p |-> c.p, K |-> c.K, gv |-> c.gv,
      dec |-> IF c.gv.k = "int" THEN DecStr(BigOf(c.gv)) ELSE "",
      claimed |-> Claimed(c.T, c.K), conv |-> conv, ref |-> AnyRefusable(c.T, c.K, c.gv),
      spec |-> IF conv = "ok" THEN Enc(c.T, cv, c.p) ELSE RErr,
      \* a second conformant encoding of the same value: trailing null fields of UDT values absent (RErr: there is none)
      \* ... or booleans that are true written with another non-zero byte ("a value of 0 denotes false, any other value
      \* denotes true"): boolean columns and lists / sets of booleans without null elements
      spec2 |-> IF conv = "ok" /\ EncShort(c.T, cv, c.p) # Enc(c.T, cv, c.p) THEN EncShort(c.T, cv, c.p)
                ELSE IF conv = "ok" /\ BoolAlt(c.T, Enc(c.T, cv, c.p), c.p) # Enc(c.T, cv, c.p) THEN BoolAlt(c.T, Enc(c.T, cv, c.p), c.p)
                ELSE RErr,
      alts |-> IF conv = "ok" THEN encs ELSE {},
      targets |-> tg]

\* ------------------------------------------------------------ the [short] framing limits (big values)
\* Values with an element / key / value of 65535, 65536, 70000 bytes or with 65535 / 65536 elements are described,
\* not built: TLC states whether the framing can carry them (SizeEncodable), the total length of the encoding and
\* its first bytes; the harness builds the Go value from the same description (element byte j = j mod 251,
\* element i of a counted list = i mod 100, set / map keys 0 .. n-1, map values i mod 100, small element "ab",
\* key 7 / value 1), and reports refusal, total length, prefix and a summary of the round trip.
BigForms == {"list-elem", "set-elem", "map-key", "map-val", "list-count", "set-count", "map-count"}
BigSet ==
  {[form |-> f, p |-> p, size |-> s, count |-> IF f = "list-elem" THEN 2 ELSE 1] :
     f \in {"list-elem", "set-elem", "map-key", "map-val"}, p \in ProtosShort \cup ProtosInt, s \in {32767, 32768, 40000, 65535, 65536, 70000}}
  \cup {[form |-> f, p |-> p, size |-> IF f = "list-count" THEN 1 ELSE 4, count |-> n] :
     f \in {"list-count", "set-count", "map-count"}, p \in ProtosShort \cup ProtosInt, n \in {32767, 32768, 65535, 65536}}
Bigs == SetToSeq(BigSet)
BigExpect(i) ==
  LET d == Bigs[i]
      p == d.p
      s == d.size
      n == d.count
      H == SizeWidth(p)
      f == d.form
      ok == IF f \in {"list-elem", "set-elem", "map-key", "map-val"} THEN SizeEncodable(s, p) ELSE SizeEncodable(n, p)
      total == CASE f = "list-elem" -> H + (H + s) + (H + 2)
                 [] f = "set-elem" -> H + (H + s)
                 [] f = "map-key" -> H + (H + s) + (H + 4)
                 [] f = "map-val" -> H + (H + 4) + (H + s)
                 [] f = "list-count" -> H + n * (H + 1)
                 [] f = "set-count" -> H + n * (H + 4)
                 [] f = "map-count" -> H + n * ((H + 4) + (H + 1))
      small == Enc(TList(NT("tinyint")), VList(<<VI(0), VI(1), VI(2)>>), p).b
      prefix == CASE f = "list-elem" -> LenBytes(2, p) \o LenBytes(s, p) \o Pat(8)
                  [] f \in {"set-elem", "map-key"} -> LenBytes(1, p) \o LenBytes(s, p) \o Pat(8)
                  [] f = "map-val" -> LenBytes(1, p) \o LenBytes(4, p) \o <<0, 0, 0, 7>> \o LenBytes(s, p) \o Pat(4)
                  [] f = "list-count" -> LenBytes(n, p) \o SubSeq(small, H + 1, Len(small))
                  [] OTHER -> LenBytes(n, p)
  IN [id |-> i, form |-> f, p |-> p, size |-> s, count |-> n, refuse |-> ~ok,
      total |-> IF ok THEN total ELSE 0, prefix |-> IF ok THEN prefix ELSE <<>>]

NShards == atoi(IOEnv.VF_NSHARDS)
Shard == atoi(IOEnv.VF_SHARD)
Init == idx \in {i \in 1 .. Len(Cases) + Len(Bigs) : i % NShards = Shard}
Next == UNCHANGED vars
Spec == Init /\ [][Next]_vars
Emit == IF idx <= Len(Cases) THEN PrintT(<<"CASE", ToJson(Expect(idx))>>) ELSE PrintT(<<"BIG", ToJson(BigExpect(idx - Len(Cases)))>>)
=============================================================================
