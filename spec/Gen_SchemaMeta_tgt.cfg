SPECIFICATION GenSpec
CONSTANTS
  Keyspaces = {"k1"}
  MaxVer = 2
  AbsentVers = {}
  NoTableVers = {}
  Plans <- PlansMeta2
  MaxFail = 0
  MaxDown = 0
  MaxRoute = 1
  PkFromPrepare = FALSE
  TakeAll = TRUE
  KsFailureIsNotExist = TRUE
  DefectNoConnCached = TRUE
  Variant = "ok"
  MaxCmds = 12
  Target = "torn-snapshot"
INVARIANT NeverTarget
CHECK_DEADLOCK FALSE
