SPECIFICATION Spec
CONSTANTS
  MaxFrames = 3
  MaxLen = 3
INVARIANT Emit
CHECK_DEADLOCK FALSE
