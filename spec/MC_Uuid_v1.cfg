INIT InitV1
NEXT Next
INVARIANT EmitV1
CHECK_DEADLOCK FALSE
