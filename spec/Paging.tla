------------------------------- MODULE Paging -------------------------------
(***************************************************************************)
(* C15 - paged iteration yields every row exactly once, in order, and then *)
(* stops.                                                                  *)
(*                                                                         *)
(* Three layers, all used by TLC:                                          *)
(*                                                                         *)
(*  1. SCENARIO: what the (honest) node holds and what the caller asked    *)
(*     for: a result as a sequence of pages (row counts, 0 allowed         *)
(*     anywhere), an optional failing page, the prefetch threshold, the    *)
(*     consumer API, automatic paging or a caller-supplied page state.     *)
(*     Page k answers with the paging-state token k, the last page with    *)
(*     none (0); a request carrying token t is served page t+1.            *)
(*                                                                         *)
(*  2. PROPERTY: pure functions of the scenario giving what properties.    *)
(*     jsonl C15 demands (rows to deliver, the request chain, how the      *)
(*     iteration must end) and verdict operators that compare an           *)
(*     OBSERVATION (requests seen by the node, rows handed to the caller,  *)
(*     the way the iteration ended) with them.  Nothing here depends on    *)
(*     how the driver is built.                                            *)
(*                                                                         *)
(*  3. DESIGN: the driver's paging machine (Iter / nextIter): a consumer   *)
(*     that takes rows, a prefetch goroutine started once the position     *)
(*     passes the threshold, both funnelled through a once-only fetch,     *)
(*     the node answering, the page switch.  TLC explores every            *)
(*     interleaving of consumer, prefetch goroutine and node for every     *)
(*     bounded scenario and evaluates the verdict operators in every       *)
(*     state.  The actions are written as successor-set functions of a     *)
(*     state record so that Trace_Paging.tla can replay recorded           *)
(*     executions of the real driver through the very same definitions.    *)
(***************************************************************************)
EXTENDS Integers, Sequences, FiniteSets

CONSTANTS MaxPages,        \* pages per result: 1 .. MaxPages
          MaxRows,         \* rows per page: 0 .. MaxRows
          Quarters,        \* prefetch thresholds p = q/4, q \in Quarters \subseteq {0,1,2,3,4}
          Kinds,           \* consumer APIs, subset of {"Scan","Scanner","MapScan","SliceMap"}
          ManualQuarters,  \* thresholds combined with a caller-supplied page state ({} = no such scenarios)
          Plans            \* execution plans of ONE Query value: a sequence with one entry per execution
                           \* (q.Iter() called again on the same *Query), -1 = consume to the end,
                           \* m >= 0 = stop asking for rows after m rows and Close (<<-1>>: a single iteration)

ScanKinds == {"Scan", "MapScan", "SliceMap"}   \* APIs built on Iter.Scan (the only place that prefetches)

Max2(a, b) == IF a >= b THEN a ELSE b
LastOf(sq) == sq[Len(sq)]
IsPrefix(a, b) == Len(a) <= Len(b) /\ \A i \in 1 .. Len(a) : a[i] = b[i]

-----------------------------------------------------------------------------
(* 1. Scenarios                                                            *)

RECURSIVE ShapesOf(_)
ShapesOf(n) == IF n = 0 THEN {<<>>} ELSE {Append(sh, r) : sh \in ShapesOf(n - 1), r \in 0 .. MaxRows}
AllShapes == UNION {ShapesOf(n) : n \in 1 .. MaxPages}

\* A scenario is chosen by quantification (TLC would otherwise build, sort and keep the whole set of
\* scenario records before doing anything else, in every run that extends this module).
\*  - automatic paging from the beginning; any page (or none: 0) answers with an error
\*  - caller-supplied page state: token `start` (0 = the empty state: from the beginning); the one
\*    page it asks for fails or not
\*  - the same Query value is executed Len(plan) times; every execution is an iteration of the
\*    same scenario (executing a Query does not change what the caller put into it)
IsAutoScenario(sc, sh) ==
  \E q \in Quarters, k \in Kinds, f \in 0 .. Len(sh), pl \in Plans :
     sc = [pages |-> sh, q |-> q, kind |-> k, fail |-> f, mode |-> "auto", start |-> 0, plan |-> pl]
IsManualScenario(sc, sh) ==
  \E q \in ManualQuarters, k \in Kinds, st \in 0 .. Len(sh) - 1, pl \in Plans : \E f \in {0, st + 1} :
     sc = [pages |-> sh, q |-> q, kind |-> k, fail |-> f, mode |-> "manual", start |-> st, plan |-> pl]

NPages(c) == Len(c.pages)
NextTok(c, k) == IF k < NPages(c) THEN k ELSE 0      \* paging state returned with page k (0: last page)
PageOfTok(t) == t + 1                                \* the page an honest node serves for token t
RowsOf(c, k) == [i \in 1 .. c.pages[k] |-> <<k, i>>]
RECURSIVE Concat(_, _, _)
Concat(c, a, b) == IF a > b THEN <<>> ELSE RowsOf(c, a) \o Concat(c, a + 1, b)

-----------------------------------------------------------------------------
(* 2. What the property demands, as functions of the scenario              *)

FirstPage(c) == c.start + 1
\* the last page the iteration has to reach: automatic paging runs to the page that says
\* it is last; with a caller-supplied state exactly one page is fetched
LastWanted(c) == IF c.mode = "manual" THEN FirstPage(c) ELSE NPages(c)
FailHit(c) == c.fail >= FirstPage(c) /\ c.fail <= LastWanted(c)
\* How a page fails: the node answers its request with an error - or (scenarios with the field fkind = "lost":
\* queries pinned to one connection, Conn.query) that connection is lost before the page is asked for: the
\* request is never made, the fetch fails all the same, and nobody else is asked with this node's paging state
Lost(c) == "fkind" \in DOMAIN c /\ c.fkind = "lost"
LastAsked(c) == IF FailHit(c) THEN (IF Lost(c) THEN c.fail - 1 ELSE c.fail) ELSE LastWanted(c)

\* the request for page p carries the token page p-1 returned (the caller's for the first)
ExpReqs(c) == [j \in 1 .. LastAsked(c) - FirstPage(c) + 1 |-> FirstPage(c) + j - 2]
\* rows of every page before the failing one / of every page
ExpRows(c) == Concat(c, FirstPage(c), IF FailHit(c) THEN c.fail - 1 ELSE LastWanted(c))
ExpEnd(c) == IF FailHit(c) THEN "error" ELSE "normal"
ExpErr(c) == IF FailHit(c) THEN c.fail ELSE 0
ExpExposed(c) == NextTok(c, FirstPage(c))            \* what Iter.PageState() must show (manual mode)
\* SliceMap returns (nil, err) on a failed iteration: no rows reach the caller
ExpDelivered(c) == IF FailHit(c) /\ c.kind = "SliceMap" THEN <<>> ELSE ExpRows(c)

\* Execution e of the plan: the caller stops after StopOf rows (SliceMap cannot stop: it is one call).
\* It never gets that far when fewer rows are deliverable: then the execution runs to its end.
StopOf(c, e) == IF c.kind = "SliceMap" THEN -1 ELSE c.plan[e]
\* ... or when Query.Iter() itself fails (the first request): Close reports that error
RunsToEnd(c, e) == \/ StopOf(c, e) = -1 \/ Len(ExpRows(c)) < StopOf(c, e)
                   \/ FailHit(c) /\ c.fail = FirstPage(c)
\* what execution e must show: like a fresh iteration - entirely, or its first StopOf rows
ExpExecRows(c, e) == IF RunsToEnd(c, e) THEN ExpDelivered(c) ELSE SubSeq(ExpRows(c), 1, StopOf(c, e))
ExpExecEnd(c, e) == IF RunsToEnd(c, e) THEN ExpEnd(c) ELSE "abandoned"

(* An observation o: reqs  - tokens of the page requests in the order the node received them
                    tmpls - for each request everything but the paging state (statement or
                            prepared id, values, page size, consistency, flags) as one value
                    rows  - <<page, index>> of the rows handed to the caller, in order
                    ended - "no" | "normal" | "error" | "panic";  err - failing page surfaced (0 none,
                            -1 an error that is not the node's);  exposed - token shown by
                            Iter.PageState() at the end;  qtok - paging state found in the caller's
                            Query value afterwards (-2: not looked at)                          *)

FirstBad(obs, exp) ==
  IF IsPrefix(obs, exp) THEN 0
  ELSE CHOOSE j \in 1 .. Len(obs) : /\ (j > Len(exp) \/ obs[j] # exp[j])
                                    /\ \A i \in 1 .. j - 1 : i <= Len(exp) /\ obs[i] = exp[i]

\* "every row of every page exactly once and in server order" (holds at every instant)
RowVerdict(c, o) ==
  LET exp == ExpRows(c)
      j == FirstBad(o.rows, exp) IN
  IF j = 0 THEN "none"
  ELSE IF \E i \in 1 .. j - 1 : o.rows[i] = o.rows[j] THEN "row-duplicated"
  ELSE IF j > Len(exp) THEN "row-beyond-end"
  ELSE IF \E i \in j + 1 .. Len(exp) : exp[i] = o.rows[j] THEN "row-skipped"
  ELSE "row-unexpected"

\* "requests each following page with exactly the paging state the previous page carried,
\*  requests no page after the one that says it is last" (=> each page requested once);
\*  "with a caller-supplied page state the driver fetches exactly one page"
ReqVerdict(c, o) ==
  LET exp == ExpReqs(c)
      j == FirstBad(o.reqs, exp) IN
  IF j = 0 THEN "none"
  \* a negative token: not a paging state this node issued to this iteration (undecodable, another iteration's,
  \* another node's) - never what "the previous page carried"
  ELSE IF \E i \in 1 .. Len(o.reqs) : o.reqs[i] < 0 THEN "request-state-wrong"
  ELSE IF \E i \in 1 .. j - 1 : o.reqs[i] = o.reqs[j] THEN "page-requested-twice"
  ELSE IF j > Len(exp) THEN (IF c.mode = "manual" THEN "manual-extra-request"
                             ELSE IF FailHit(c) THEN "request-after-failed-fetch"
                             ELSE "request-after-last")
  ELSE "request-state-wrong"

\* "... and otherwise the same statement, values and options"
TmplVerdict(c, o) ==
  IF \E j \in 2 .. Len(o.tmpls) : o.tmpls[j] # o.tmpls[1] THEN "request-altered" ELSE "none"

\* "surfaces a failed page fetch as the iteration's error rather than as an early normal
\*  end"; a normal end only after every row; "... and exposes the next state"
EndVerdict(c, o) ==
  CASE o.ended = "no" -> "none"
    [] o.ended = "panic" -> "iteration-panicked"      \* the iterator API panicked in the caller's goroutine
    [] o.ended = "normal" ->
         IF FailHit(c) /\ \E j \in 1 .. Len(o.reqs) : o.reqs[j] = c.fail - 1
           THEN "fetch-error-as-normal-end"
         ELSE IF IsPrefix(o.rows, ExpRows(c)) /\ (FailHit(c) \/ o.rows # ExpRows(c))
           THEN "early-normal-end"
         \* no row is missing, but only because the pages never asked for happen to be empty
         ELSE IF IsPrefix(o.reqs, ExpReqs(c)) /\ o.reqs # ExpReqs(c) THEN "normal-end-before-last-page"
         ELSE IF c.mode = "manual" /\ o.exposed # ExpExposed(c) THEN "manual-next-state-wrong"
         ELSE "none"
    [] OTHER ->
         IF ~FailHit(c) THEN "spurious-error"
         ELSE IF o.err # c.fail THEN "error-not-identified"
         ELSE IF IsPrefix(o.rows, ExpDelivered(c)) /\ o.rows # ExpDelivered(c) THEN "rows-short-before-error"
         ELSE "none"

\* executing a Query leaves the page state the caller put into it alone (what the caller can see of it
\* is the next execution of the same value - judged by the verdicts above; the field itself is internal)
QueryVerdict(c, o) == IF o.qtok \notin {-2, c.start} THEN "query-page-state-changed" ELSE "none"

\* a row the caller was handed stays what it was: rows kept by the caller (the maps of SliceMap / MapScan)
\* and read again after the iteration still hold their own content (o.changed = how many do not)
HeldVerdict(c, o) == IF o.changed > 0 THEN "row-changed-after-delivery" ELSE "none"

\* Verdict kinds that do not contradict the property statement (it does not say whether a
\* failed page may be asked for again, in which words the failure is reported, or how many of
\* the rows already received must be handed over before the failure): reported as drift.
DriftKinds == {"request-after-failed-fetch", "error-not-identified", "rows-short-before-error",
               "query-page-state-changed"}

Verdicts(c, o) ==
  {RowVerdict(c, o), ReqVerdict(c, o), TmplVerdict(c, o), EndVerdict(c, o), QueryVerdict(c, o),
   HeldVerdict(c, o)} \ {"none"}

-----------------------------------------------------------------------------
(* 3. The driver's paging machine                                          *)
(*                                                                         *)
(* s.cur   page the iterator holds (0: none yet - Query.Iter() performs    *)
(*         the first request exactly like a page switch)                   *)
(* s.pos   rows of s.cur consumed                                          *)
(* s.nx    "none" | "armed" | "fetching" | "fetched" | "error": the lazily *)
(*         fetched next page (nextIter + its sync.Once)                    *)
(* s.nxp   page the node answered with (valid in fetched / error)          *)
(* s.async the prefetch goroutine has been started (nextIter.oncea)        *)
(* s.exec  which execution of the plan this is; s.st = "abandoned": the     *)
(*         caller stopped asking for rows (a started prefetch still runs)  *)

ExecState(e) ==
  [st |-> "run", exec |-> e, cur |-> 0, pos |-> 0, nx |-> "armed", nxp |-> 0, async |-> FALSE,
   reqs |-> <<>>, rows |-> <<>>, err |-> 0, exposed |-> 0]
InitState(c) == ExecState(1)

NRows(c, k) == IF k = 0 THEN 0 ELSE c.pages[k]
TokOfCur(c, s) == IF s.cur = 0 THEN c.start ELSE NextTok(c, s.cur)
\* conn.go: pos = int((1-p) * numRows), at least 1
Trig(c, n) == Max2(1, ((4 - c.q) * n) \div 4)

\* the caller has had its StopOf rows and calls nothing but Close any more (Query.Iter() itself - the first
\* request and taking over its answer, cur = 0 - is one call of the caller's and always completes)
Stopped(c, s) == s.cur > 0 /\ StopOf(c, s.exec) >= 0 /\ Len(s.rows) >= StopOf(c, s.exec)

\* Iter.Scan, about to read row pos+1, finds the position at or past the trigger
TrigEnabled(c, s) ==
  /\ s.st = "run" /\ ~Stopped(c, s) /\ c.kind \in ScanKinds /\ s.nx = "armed" /\ ~s.async
  /\ s.pos < NRows(c, s.cur) /\ s.pos >= Trig(c, NRows(c, s.cur))

PrefetchTriggerF(c, s) == IF TrigEnabled(c, s) THEN {[s EXCEPT !.async = TRUE]} ELSE {}

\* the same Scan call then reads the row (so it cannot pass an enabled trigger)
ConsumeRowF(c, s) ==
  IF s.st = "run" /\ ~Stopped(c, s) /\ s.pos < NRows(c, s.cur) /\ ~TrigEnabled(c, s)
  THEN {[s EXCEPT !.pos = @ + 1, !.rows = Append(@, <<s.cur, s.pos + 1>>)]}
  ELSE {}

\* nextIter.fetch through sync.Once: by the prefetch goroutine, or by the consumer that has
\* exhausted the page.  The request is a copy of the first one with the page's token.
FetchOnceF(c, s) ==
  IF /\ s.nx = "armed"
     /\ \/ s.st \in {"run", "abandoned"} /\ s.async
        \/ s.st = "run" /\ ~Stopped(c, s) /\ s.pos >= NRows(c, s.cur)
  THEN IF Lost(c) /\ PageOfTok(TokOfCur(c, s)) = c.fail
       THEN {[s EXCEPT !.nx = "error", !.nxp = c.fail]}     \* the pinned connection is gone: no request, the fetch fails
       ELSE {[s EXCEPT !.nx = "fetching",
                       !.reqs = Append(@, [tok |-> TokOfCur(c, s),
                                           tmpl |-> IF Len(s.reqs) = 0 THEN "Q" ELSE s.reqs[1].tmpl])]}
  ELSE {}

\* the node serves the page the token names, or fails it
NodePageF(c, s) ==
  IF s.nx = "fetching"
  THEN LET p == PageOfTok(LastOf(s.reqs).tok) IN
       {[s EXCEPT !.nx = IF c.fail = p THEN "error" ELSE "fetched", !.nxp = p]}
  ELSE {}

\* the consumer, past the last row of its page, takes over the fetched page - or its error
SwitchPageF(c, s) ==
  IF s.st = "run" /\ ~Stopped(c, s) /\ s.pos >= NRows(c, s.cur) /\ s.nx \in {"fetched", "error"}
  THEN IF s.nx = "fetched"
       THEN {[s EXCEPT !.cur = s.nxp, !.pos = 0, !.async = FALSE, !.nxp = 0,
                       !.nx = IF c.mode = "auto" /\ NextTok(c, s.nxp) # 0 THEN "armed" ELSE "none",
                       !.exposed = NextTok(c, s.nxp)]}
       ELSE {[s EXCEPT !.st = "failed", !.err = s.nxp, !.nx = "none"]}
  ELSE {}

EndF(c, s) ==
  IF s.st = "run" /\ ~Stopped(c, s) /\ s.pos >= NRows(c, s.cur) /\ s.nx = "none"
  THEN {[s EXCEPT !.st = "done"]} ELSE {}

\* the caller stops: Iter.Close() on the page it holds (no error: that page was delivered)
AbandonF(c, s) == IF s.st = "run" /\ Stopped(c, s) THEN {[s EXCEPT !.st = "abandoned"]} ELSE {}

\* q.Iter() again on the same Query value: a fresh iterator; nothing of the previous execution is in the
\* Query (an unfinished prefetch of an abandoned iterator belongs to that iterator and is dropped here)
ReexecF(c, s) ==
  IF s.st # "run" /\ s.exec < Len(c.plan) THEN {ExecState(s.exec + 1)} ELSE {}

Obs(s) ==
  [reqs |-> [j \in 1 .. Len(s.reqs) |-> s.reqs[j].tok],
   tmpls |-> [j \in 1 .. Len(s.reqs) |-> s.reqs[j].tmpl],
   rows |-> s.rows,
   ended |-> CASE s.st \in {"run", "abandoned"} -> "no" [] s.st = "done" -> "normal" [] OTHER -> "error",
   err |-> s.err, exposed |-> s.exposed, qtok |-> -2, changed |-> 0]

VARIABLES scen, state
vars == <<scen, state>>

PickScenario == \E sh \in AllShapes : IsAutoScenario(scen, sh) \/ IsManualScenario(scen, sh)
Init == PickScenario /\ state = InitState(scen)

ConsumeRow == state' \in ConsumeRowF(scen, state) /\ UNCHANGED scen
PrefetchTrigger == state' \in PrefetchTriggerF(scen, state) /\ UNCHANGED scen
FetchOnce == state' \in FetchOnceF(scen, state) /\ UNCHANGED scen
NodePage == state' \in NodePageF(scen, state) /\ UNCHANGED scen
SwitchPage == state' \in SwitchPageF(scen, state) /\ UNCHANGED scen
End == state' \in EndF(scen, state) /\ UNCHANGED scen
Abandon == state' \in AbandonF(scen, state) /\ UNCHANGED scen
Reexec == state' \in ReexecF(scen, state) /\ UNCHANGED scen

Next == ConsumeRow \/ PrefetchTrigger \/ FetchOnce \/ NodePage \/ SwitchPage \/ End \/ Abandon \/ Reexec
Spec == Init /\ [][Next]_vars
FairSpec == Spec /\ WF_vars(Next)

TypeOK ==
  /\ state.st \in {"run", "done", "failed", "abandoned"} /\ state.exec \in 1 .. Len(scen.plan) /\ state.cur \in 0 .. NPages(scen) /\ state.pos \in 0 .. NRows(scen, state.cur)
  /\ state.nx \in {"none", "armed", "fetching", "fetched", "error"} /\ state.async \in BOOLEAN

\* the property, evaluated in every reachable state of every scenario
RowsExactlyOnceInOrder == RowVerdict(scen, Obs(state)) = "none"
RequestChain == ReqVerdict(scen, Obs(state)) = "none"
RequestsIdentical == TmplVerdict(scen, Obs(state)) = "none"
EndsAsDemanded == EndVerdict(scen, Obs(state)) = "none"
\* a finished iteration shows exactly the closed-form expectations used by the generator
FinalMatchesExpectation ==
  /\ state.st \in {"done", "failed"} =>
        /\ RunsToEnd(scen, state.exec)
        /\ Obs(state).reqs = ExpReqs(scen) /\ state.rows = ExpRows(scen)
        /\ Obs(state).ended = ExpEnd(scen) /\ state.err = ExpErr(scen)
        /\ (scen.mode = "manual" /\ state.st = "done" => state.exposed = ExpExposed(scen))
  /\ state.st = "abandoned" =>
        /\ ~RunsToEnd(scen, state.exec)
        /\ state.rows = ExpExecRows(scen, state.exec) /\ ExpExecEnd(scen, state.exec) = "abandoned"
\* never two fetches of one page in flight, no fetch once the iteration is over
OnceOnly == state.st \in {"done", "failed"} => state.nx = "none"
\* "and then stops"
Terminates == <>(state.st # "run" /\ state.exec = Len(scen.plan))
=============================================================================
