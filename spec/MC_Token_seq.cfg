INIT InitSeq
NEXT Next
INVARIANT EmitSeq
CHECK_DEADLOCK FALSE
