INIT InitRk
NEXT Next
INVARIANT EmitRk
CHECK_DEADLOCK FALSE
