SPECIFICATION HSpec
CONSTANTS
  AuthKinds <- MCKinds
  AllowedLists <- MCAllowedLists
  ServerClasses <- MCServerClasses
  MaxChallenges = 2
INVARIANTS AuthTypeOK OnlyApproved PlainFirst NoneIsRefused NothingAfterUnapproved SessionIsAuthenticated EmitCase EmitCreds
CHECK_DEADLOCK FALSE
