SPECIFICATION Spec
CONSTANTS
  Ids = {"i1", "i2", "i3"}
  Addrs = {"a1", "a2", "a3"}
  Filt = {}
  DefectByAddr = TRUE
  MaxLen = 2
  WithBad = FALSE
  WithDup = FALSE
  GenDepth = 2
  Sim = FALSE
  Mixed = TRUE
INVARIANT Emit
CHECK_DEADLOCK FALSE
