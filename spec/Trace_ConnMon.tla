---------------------------- MODULE Trace_ConnMon ----------------------------
(***************************************************************************)
(* Evaluates the C01 / C06 property invariants (the ones of Conn.tla that  *)
(* are observable without trusting the implementation's internal state) on *)
(* an execution of a real connection: events of callers (call / ret), of   *)
(* the scripted node (n_recv / n_send, logged after receiving resp. before *)
(* sending), of the stream observer, the release hook, and the allocator   *)
(* sample at quiescence.  Deterministic: one state per log line.           *)
(***************************************************************************)
EXTENDS Integers, Sequences, FiniteSets, TLC, Json, IOUtils

Log == ndJsonDeserialize(IOEnv.VF_TRACE)

VARIABLES l,          \* next line
          outst,      \* frames the node received and has not answered: set of <<stream, tok>>
          called,     \* requests called and not yet returned
          returned,   \* requests that returned
          rel,        \* request -> number of releases of its stream
          obsEnd,     \* requests whose stream observer saw finished/abandoned
          obsStart,   \* requests whose stream observer saw "started"
          errClosed,  \* the connection was closed with an error (closeWithError(err), err # nil)
          ansFly,     \* stream ids on which the node has sent an answer the receiver has not yet matched to a call
          mustResp,   \* requests whose response the receiver had in hand before their caller began to wait
                      \* (and nothing else ended them): they must get it
          bad
vars == <<l, outst, called, returned, rel, obsEnd, obsStart, errClosed, ansFly, mustResp, bad>>

\* "verr": the request's own answer arrived with another protocol version in its header and was refused (the harness
\* reports it only for requests the node answered that way, anything else with that error is "garbled"); in Conn.tla this
\* is the outcome "resp" (the frame was handed to its own caller, who releases the stream) - NoLeak / ReleaseOnce / observer
\* verdicts apply to it like to any other answered request
Allowed == {"resp", "verr", "frameerr", "timeout", "ctx", "closed", "nostreams", "builderr", "writeerr"}
OK == "none"

Init == /\ l = 1 /\ outst = {} /\ called = {} /\ returned = {} /\ rel = <<>> /\ obsEnd = {} /\ mustResp = {} /\ ansFly = {} /\ obsStart = {} /\ errClosed = FALSE /\ bad = OK

Cur == Log[l]
RelOf(r) == IF r \in DOMAIN rel THEN rel[r] ELSE 0

Step ==
  LET e == Cur IN
  CASE e.ev = "call" ->
         /\ called' = called \cup {e.req}
         /\ bad' = IF e.req \in called \cup returned THEN "HarnessDuplicateCall" ELSE OK
         /\ UNCHANGED <<outst, returned, rel, obsEnd, mustResp, ansFly, obsStart, errClosed>>
    [] e.ev = "ret" ->
         /\ called' = called \ {e.req}
         /\ returned' = returned \cup {e.req}
         /\ bad' = IF e.req \in returned THEN "OutcomeOnce"
                   ELSE IF e.outcome = "garbled" THEN "NoMisroute"      \* handed something that is not its response
                   ELSE IF e.outcome \notin Allowed THEN "OutcomeAllowed"
                   ELSE IF e.outcome = "resp" /\ e.echo # e.tok THEN "NoMisroute"
                   ELSE IF e.req \in mustResp /\ e.outcome # "resp" THEN "ResponseReaches"
                   ELSE OK
         /\ UNCHANGED <<outst, rel, obsEnd, mustResp, ansFly, obsStart, errClosed>>
    [] e.ev = "n_recv" ->
         \* the node sees a stream id again although an earlier request on it is unanswered
         /\ bad' = IF \E o \in outst : o[1] = e.stream THEN "NoReuseWhileOutstanding" ELSE OK
         /\ outst' = outst \cup {<<e.stream, e.tok>>}
         /\ UNCHANGED <<called, returned, rel, obsEnd, mustResp, ansFly, obsStart, errClosed>>
    [] e.ev = "n_send" ->
         /\ outst' = outst \ {<<e.stream, e.tok>>}
         /\ ansFly' = ansFly \cup {e.stream}
         /\ bad' = OK
         /\ UNCHANGED <<called, returned, rel, obsEnd, mustResp, obsStart, errClosed>>
    [] e.ev = "r_lookup" ->
         \* the receiver matched a frame on this stream to a registered call
         /\ ansFly' = IF e.req # 0 THEN ansFly \ {e.stream} ELSE ansFly
         /\ bad' = OK
         /\ UNCHANGED <<outst, called, returned, rel, obsEnd, mustResp, obsStart, errClosed>>
    [] e.ev = "r_discard" ->
         \* "received response for stream which has no handler": fine for a frame nobody asked for, but the
         \* answer to a request that was written (the node only answers what it received) belongs to a call
         \* that is registered until the answer or the connection's end
         /\ bad' = IF e.stream \in ansFly THEN "ResponseReaches" ELSE OK
         /\ ansFly' = ansFly \ {e.stream}
         /\ UNCHANGED <<outst, called, returned, rel, obsEnd, mustResp, obsStart, errClosed>>
    [] e.ev = "x_release" ->
         /\ rel' = [r \in DOMAIN rel \cup {e.req} |-> IF r = e.req THEN RelOf(r) + 1 ELSE rel[r]]
         /\ bad' = IF RelOf(e.req) >= 1 THEN "ReleaseOnce" ELSE OK
         /\ UNCHANGED <<outst, called, returned, obsEnd, mustResp, ansFly, obsStart, errClosed>>
    [] e.ev = "x_del" ->
         \* exec unregisters the call of a request that was never written (conn.go: "release the stream after we remove
         \* the call from c.calls"): an id that went back to the allocator while its call was still registered can be
         \* handed to another request while it is in use (Conn.tla UniqueHold / Conservation)
         /\ bad' = IF RelOf(e.req) >= 1 THEN "UniqueHold" ELSE OK
         /\ UNCHANGED <<outst, called, returned, rel, obsEnd, mustResp, ansFly, obsStart, errClosed>>
    [] e.ev \in {"obs_finished", "obs_abandoned"} ->
         /\ obsEnd' = obsEnd \cup {e.req}
         /\ bad' = IF e.req # 0 /\ e.req \in obsEnd THEN "ObserverOnce" ELSE OK
         /\ UNCHANGED <<outst, called, returned, rel, mustResp, ansFly, obsStart, errClosed>>
    [] e.ev = "avail" ->
         \* connection open and quiet: every id is available except those of requests whose
         \* answer never came
         /\ bad' = IF e.closed = 0 /\ e.avail # e.cap - Cardinality({o[1] : o \in outst})
                   THEN (IF e.avail < e.cap - Cardinality({o[1] : o \in outst}) THEN "NoLeak" ELSE "Conservation")
                   ELSE OK
         /\ UNCHANGED <<outst, called, returned, rel, obsEnd, mustResp, ansFly, obsStart, errClosed>>
    [] e.ev = "env_expect_resp" ->
         /\ mustResp' = mustResp \cup {e.req}
         /\ bad' = OK
         /\ UNCHANGED <<outst, called, returned, rel, obsEnd, ansFly, obsStart, errClosed>>
    [] e.ev = "obs_started" ->
         /\ obsStart' = IF e.req > 0 THEN obsStart \cup {e.req} ELSE obsStart
         /\ bad' = OK
         /\ UNCHANGED <<outst, called, returned, rel, obsEnd, mustResp, ansFly, errClosed>>
    [] e.ev = "c_begin" ->
         /\ errClosed' = (errClosed \/ e.what # "none")
         /\ bad' = OK
         /\ UNCHANGED <<outst, called, returned, rel, obsEnd, mustResp, ansFly, obsStart>>
    [] e.ev = "env_early_timeout" ->
         \* a timeout outcome before the configured Timeout can have elapsed
         /\ bad' = "TimeoutHonoured"
         /\ UNCHANGED <<outst, called, returned, rel, obsEnd, mustResp, ansFly, obsStart, errClosed>>
    [] e.ev = "env_stuck" ->
         /\ bad' = IF e.what = "close" THEN "CloseReturns" ELSE "RequestEnds"
         /\ UNCHANGED <<outst, called, returned, rel, obsEnd, mustResp, ansFly, obsStart, errClosed>>
    [] e.ev = "end" ->
         \* StreamObserver: "exactly one of Finished / Abandoned per Started": once the connection was closed
         \* with an error every started stream has been finished or abandoned
         /\ bad' = IF called # {} THEN "RequestEnds"
                   ELSE IF errClosed /\ (obsStart \ obsEnd) # {} THEN "ObserverEnds" ELSE OK
         /\ UNCHANGED <<outst, called, returned, rel, obsEnd, mustResp, ansFly, obsStart, errClosed>>
    [] OTHER -> /\ bad' = OK /\ UNCHANGED <<outst, called, returned, rel, obsEnd, mustResp, ansFly, obsStart, errClosed>>

Next == l <= Len(Log) /\ Step /\ l' = l + 1
Spec == Init /\ [][Next]_vars

Report == bad # OK => PrintT(<<"MONVIOL", ToJson([kind |-> bad, line |-> l - 1, seq |-> Log[l - 1].seq])>>)
=============================================================================
