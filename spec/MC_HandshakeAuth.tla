-------------------------- MODULE MC_HandshakeAuth --------------------------
(***************************************************************************)
(* C20: model pass of the authentication machine and case generator.       *)
(* Every maximal behaviour of the machine (client configuration x class    *)
(* announced by the server x everything the server may answer afterwards)  *)
(* ends in exactly one state with pc = "done"; that state is printed as a  *)
(* CASE with the outcome and the client frames the machine requires.  The  *)
(* credential alphabet is printed once (CRED) with the SASL PLAIN token    *)
(* the specification requires for each pair.                               *)
(***************************************************************************)
EXTENDS HandshakeAuth, TLC, Json

PA == "org.apache.cassandra.auth.PasswordAuthenticator"
Custom1 == {"com.example.auth.CustomAuthenticator"}
Custom2 == {"com.example.auth.CustomAuthenticator", PA}
Custom3 == {"com.scylladb.auth.TransitionalAuthenticator"}   \* a caller list REPLACES the default
MCAllowedLists == {{}, Custom1, Custom2, Custom3}
NearMisses == {
  "",
  "PasswordAuthenticator",
  "org.apache.cassandra.auth.PasswordAuthenticato",
  "org.apache.cassandra.auth.PasswordAuthenticatorX",
  "org.apache.cassandra.auth.PasswordAuthenticator ",
  " org.apache.cassandra.auth.PasswordAuthenticator",
  "org.apache.cassandra.auth.passwordauthenticator",
  "ORG.APACHE.CASSANDRA.AUTH.PASSWORDAUTHENTICATOR",
  "org.apache.cassandra.auth.AllowAllAuthenticator",
  "org.apache.cassandra.auth.PasswordAuthenticator,com.example.auth.CustomAuthenticator",
  "com.example.auth.CustomAuthenticator2",
  "com.example.auth.customauthenticator",
  "com.evil.auth.CredentialCollector",
  "*" }
MCServerClasses == DefaultApproved \cup Custom1 \cup NearMisses
MCKinds == {"none", "pw", "chain"}

SetToSeq(S) == LET RECURSIVE F(_) F(X) == IF X = {} THEN <<>> ELSE LET m == CHOOSE x \in X : TRUE IN <<m>> \o F(X \ {m}) IN F(S)

EmitCase == pc = "done" =>
  PrintT(<<"CASE", ToJson([kind |-> kind, allowed |-> SetToSeq(allowed), class |-> class, script |-> script,
                           sent |-> sent, outcome |-> outcome,
                           approved |-> (class # NoClass /\ class \in Approved(allowed))])>>)

\* credential alphabet (bytes): empty, ASCII, UTF-8 non-ASCII, bytes that are not UTF-8, a value
\* longer than 255 bytes, separators that a sloppy encoder would mangle
Long == [i \in 1 .. 300 |-> ((i * 7) % 250) + 1]
Users == {<<>>, <<99, 97, 115, 115>>, <<195, 188, 98, 101, 114, 45, 117, 115, 101, 114>>, <<255, 254, 128>>, <<117, 58, 32, 120>>}
Passes == {<<>>, <<115, 51, 99, 114, 51, 116, 33>>, <<208, 191, 208, 176, 209, 128, 208, 190, 208, 187, 209, 140>>,
           <<240, 159, 148, 145, 255, 0 + 1>>, Long, <<32, 32, 32, 32>>}
EmitCreds == (pc = "startup_sent" /\ kind = "none") =>
  \A u \in Users, p \in Passes : PrintT(<<"CRED", ToJson([user |-> u, pass |-> p, token |-> PlainToken(u, p)])>>)
=============================================================================
