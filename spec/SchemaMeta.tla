---------------------------- MODULE SchemaMeta ----------------------------
(***************************************************************************)
(* X01, part 2 - the session's schema metadata cache, the schema-change    *)
(* event stream that invalidates it, and the routing-key-info cache that   *)
(* is computed from it (token-aware routing).                              *)
(*                                                                         *)
(*   metadata.go  schemaDescriber.getSchema / refreshSchema / clearSchema  *)
(*   events.go    handleSchemaEvent, handleKeyspaceChange (clear, wait for *)
(*                agreement, policy.KeyspaceChanged -> KeyspaceMetadata)   *)
(*   session.go   Session.KeyspaceMetadata, Session.routingKeyInfo +       *)
(*                routingKeyInfoLRU, Query.GetRoutingKey                   *)
(*                                                                         *)
(* What users are told (quoted by the properties):                         *)
(*  [M1] session.go KeyspaceMetadata: "returns the schema metadata for the *)
(*       keyspace specified. Returns an error if the keyspace does not     *)
(*       exist." ; README: "An API to access the schema metadata of a      *)
(*       given keyspace"                                                   *)
(*  [M2] metadata.go: "creates a session bound schema describer which will *)
(*       query and cache keyspace metadata"; getSchema "returns the cached *)
(*       KeyspaceMetadata held by the describer"; clearSchema "clears the  *)
(*       already cached keyspace metadata" - called for every schema       *)
(*       change event the cluster sends for that keyspace (events.go).     *)
(*       Hence: once the event for a change has been handled, nobody is    *)
(*       served metadata older than that change; one cache is shared by    *)
(*       all callers (no second fetch while an entry is valid); what a     *)
(*       failed fetch produced is not kept.                                *)
(*  [M3] session.go Query.GetRoutingKey: "the routing key will be          *)
(*       constructed if possible using the keyspace's schema and the query *)
(*       info for this query statement. If the routing key cannot be       *)
(*       determined then nil will be returned with no error. On any error  *)
(*       condition, an error description will be returned."                *)
(*       doc.go: "The driver can route queries to nodes that hold data     *)
(*       replicas based on partition key"; "The driver can only use        *)
(*       token-aware routing for queries where all partition key columns   *)
(*       are query parameters."                                            *)
(*       session.go routingKeyInfo: the three "don't cache this error"     *)
(*       sites: an error is the answer to the calls it happened under, not *)
(*       to later ones.                                                    *)
(*  [M4] cluster.go MaxRoutingKeyInfo: "Sets the maximum cache size for    *)
(*       query info about statements for each session."                    *)
(*  [M5] policies.go tokenAwareHostPolicy.KeyspaceChanged/updateReplicas:  *)
(*       the replica map of a keyspace is recomputed from                  *)
(*       KeyspaceMetadata(keyspace) when the cluster reports a change of   *)
(*       that keyspace.                                                    *)
(*                                                                         *)
(* The whole state is ONE record and every action is a pair XxxEn / Xxx    *)
(* (enabling condition, successor as a function) so that the generator     *)
(* (Gen_SchemaMeta) and the trace specification (Trace_SchemaMeta) compose *)
(* the same operators.                                                     *)
(*                                                                         *)
(* One action per critical section / observable step:                      *)
(*   ActStart    a caller enters KeyspaceMetadata / GetRoutingKey          *)
(*   GLock       getSchema: lock, hit -> return | miss -> refresh begins   *)
(*   GAnsKs      node answers system_schema.keyspaces (ok/absent/failure)  *)
(*   GAnsTb      node answers the remaining system_schema queries; store;  *)
(*               unlock                                                    *)
(*   ActMetaRet  KeyspaceMetadata returns                                  *)
(*   SrvChange   the cluster changes a keyspace and emits the event        *)
(*   EvTake      the event debouncer hands a batch to handleSchemaEvent    *)
(*   EvClear     clearSchema(keyspace) (one critical section)              *)
(*   EvAgree     handleKeyspaceChange: control.awaitSchemaAgreement        *)
(*   EvPolicy    policy.KeyspaceChanged -> KeyspaceMetadata (actor "pol")  *)
(*   RLookup     routingKeyInfo: lock, Get (hit: join the flight) | Add    *)
(*   RConn       getConn (nil when no host is up)                          *)
(*   RPrepAns    PREPARE answered (ok/failure), RPrepHit: statement known  *)
(*   RMeta       nested KeyspaceMetadata returned: table lookup, indexes   *)
(*   RPub        deferred wg.Done: the flight is published, the call ends  *)
(*   RWake       a waiter of the flight returns                            *)
(*   HostsDown / HostsUp                                                   *)
(***************************************************************************)
EXTENDS Integers, Sequences, FiniteSets, TLC

CONSTANTS
  Keyspaces,
  MaxVer,            \* keyspace versions 1 .. MaxVer
  AbsentVers,        \* versions at which the keyspace does not exist
  NoTableVers,       \* versions at which the table the statements use does not exist
  Plans,             \* set of [actor -> Seq(op)], op = [t |-> "meta", k |-> ks] | [t |-> "route", s |-> stmt]
  MaxFail,           \* bound: failing node answers
  MaxDown,           \* bound: times all hosts are down
  MaxRoute,          \* ClusterConfig.MaxRoutingKeyInfo
  PkFromPrepare,     \* TRUE: protocol >= 4, the PREPARE answer names the partition key binds
  TakeAll,           \* TRUE: a batch is everything queued; FALSE: also any prefix
  KsFailureIsNotExist,\* TRUE: driver model of gocql as it is - a FAILED keyspaces query is reported as ErrKeyspaceDoesNotExist
  DefectNoConnCached,\* TRUE: driver model of gocql as it is - the "no connection available" error stays in the cache
  Variant            \* "ok", or a deliberately wrong driver model

VARIABLE S
vars == <<S>>

Pol == "pol"     \* pseudo-actor: the event goroutine inside policy.KeyspaceChanged
NoSnap == [ks |-> 0, tb |-> 0]
NoRes == [t |-> "none", ks |-> 0, tb |-> 0]
NoOut == [t |-> "none", ks |-> 0, tb |-> 0, idx |-> <<>>]
Range(q) == {q[i] : i \in 1 .. Len(q)}
Without(q, x) == SelectSeq(q, LAMBDA y : y # x)
MaxOf(a, b) == IF a >= b THEN a ELSE b
MinOf(a, b) == IF a <= b THEN a ELSE b

\* ---- the schema the scripted cluster serves: table t of a keyspace at version v has partition key PK(v)
PK(v) == IF v % 2 = 1 THEN <<"a">> ELSE <<"b", "a">>
\* statements (all on table t): keyspace and bind markers in order
StmtKs(s) == IF s = "s3" THEN "k2" ELSE "k1"
Binds(s) == CASE s = "s1" -> <<"a", "b">> [] s = "s2" -> <<"a">> [] OTHER -> <<"b", "a">>
Stmts == {"s1", "s2", "s3"}
FirstIdx(q, x) == IF x \in Range(q) THEN CHOOSE i \in 1 .. Len(q) : q[i] = x /\ \A j \in 1 .. i - 1 : q[j] # x ELSE 0
\* [M3] positions (0-based, as GetRoutingKey uses them) of the partition key columns among the binds, in partition
\* key order; <<>> = "cannot be determined" (a partition key column is not a query parameter)
RoutingIdx(pk, binds) ==
  IF \A i \in 1 .. Len(pk) : FirstIdx(binds, pk[i]) > 0 THEN [i \in 1 .. Len(pk) |-> FirstIdx(binds, pk[i]) - 1] ELSE <<>>

-----------------------------------------------------------------------------
ActorsOf(p) == DOMAIN p
InitState(p) ==
  [plan |-> p,
   sv |-> [k \in Keyspaces |-> 1],
   evq |-> <<>>,                 \* events emitted by the cluster, not yet given to handleSchemaEvent
   batch |-> <<>>,               \* frames handleSchemaEvent is working on (head = current)
   epc |-> "idle",               \* idle | clear | agree | policy
   mu |-> "",                    \* schemaDescriber.mu holder
   cache |-> [k \in Keyspaces |-> NoSnap],
   g |-> [x \in ActorsOf(p) \cup {Pol} |-> [pc |-> "idle", k |-> "", tmp |-> 0, res |-> NoRes, floor |-> 0, own |-> FALSE, abs |-> FALSE]],
   a |-> [x \in ActorsOf(p) |-> [idx |-> 1, pc |-> "ready", cur |-> 0, out |-> NoOut, nout |-> 0, rfloor |-> 0]],
   rlru |-> <<>>, rent |-> [x \in {} |-> 0], rfl |-> <<>>,
   up |-> TRUE,
   known |-> [s \in Stmts |-> FALSE],   \* the session's prepared-statement cache has the statement (C14)
   pver |-> [s \in Stmts |-> 0],        \* ... prepared when the keyspace was at this version
   npol |-> 0, polres |-> NoRes,          \* ghost: what policy.KeyspaceChanged was given
   cleared |-> [k \in Keyspaces |-> 0],   \* ghost: newest version whose event has been applied (clearSchema done)
   nref |-> [k \in Keyspaces |-> 0],      \* ghost: refreshes begun
   ngone |-> [k \in Keyspaces |-> 0],     \* ghost: entries removed by clearSchema + refreshes that failed
   nrcomp |-> [s \in Stmts |-> 0], nrrem |-> [s \in Stmts |-> 0],
   fails |-> 0, downs |-> 0]

Init == \E p \in Plans : S = InitState(p)

Op(T, x) == T.plan[x][T.a[x].idx]
HasOp(T, x) == T.a[x].idx <= Len(T.plan[x])

-----------------------------------------------------------------------------
\* getSchema (metadata.go), run by a caller, by a router (nested) or by the event goroutine (Pol)
GWant(T, x, k, fl) == [T EXCEPT !.g[x] = [pc |-> "want", k |-> k, tmp |-> 0, res |-> NoRes, floor |-> fl, own |-> FALSE, abs |-> FALSE]]

GLockEn(T, x) == T.g[x].pc = "want" /\ T.mu = ""
GLock(T, x) ==
  LET k == T.g[x].k IN
  IF T.cache[k] # NoSnap /\ Variant # "never_cache"
    THEN [T EXCEPT !.g[x].pc = "done", !.g[x].res = [t |-> "ok", ks |-> T.cache[k].ks, tb |-> T.cache[k].tb]]
    ELSE [T EXCEPT !.mu = IF Variant = "refresh_unlocked" THEN "" ELSE x,
                   !.g[x].pc = "r_ks", !.g[x].own = TRUE, !.nref[k] = @ + 1]

Unlock(T, x) == IF T.mu = x THEN [T EXCEPT !.mu = ""] ELSE T

GAnsKsEn(T, x, ans) == T.g[x].pc = "r_ks" /\ (ans = "fail" => T.fails < MaxFail)
GAnsKs(T, x, ans) ==
  LET k == T.g[x].k
      v == T.sv[k] IN
  IF ans = "fail" THEN
    [Unlock(T, x) EXCEPT !.g[x].pc = "done", !.g[x].res = [t |-> IF KsFailureIsNotExist THEN "notexist" ELSE "err", ks |-> 0, tb |-> 0],
                         !.fails = @ + 1, !.ngone[k] = @ + 1]
  ELSE IF v \in AbsentVers THEN
    [Unlock(T, x) EXCEPT !.g[x].pc = "done", !.g[x].res = [t |-> "notexist", ks |-> 0, tb |-> 0], !.g[x].abs = TRUE, !.ngone[k] = @ + 1]
  ELSE [T EXCEPT !.g[x].pc = "r_tb", !.g[x].tmp = v]

GAnsTbEn(T, x, ans) == T.g[x].pc = "r_tb" /\ (ans = "fail" => T.fails < MaxFail)
GAnsTb(T, x, ans) ==
  LET k == T.g[x].k
      snap == [ks |-> T.g[x].tmp, tb |-> T.sv[k]] IN
  IF ans = "fail" THEN
    LET T1 == IF Variant = "cache_partial" THEN [T EXCEPT !.cache[k] = [ks |-> T.g[x].tmp, tb |-> 0]] ELSE T IN
    [Unlock(T1, x) EXCEPT !.g[x].pc = "done", !.g[x].res = [t |-> "err", ks |-> 0, tb |-> 0], !.fails = @ + 1, !.ngone[k] = @ + 1]
  ELSE [Unlock(T, x) EXCEPT !.cache[k] = snap, !.g[x].pc = "done", !.g[x].res = [t |-> "ok", ks |-> snap.ks, tb |-> snap.tb]]

-----------------------------------------------------------------------------
\* callers
ActStartEn(T, x) == T.a[x].pc = "ready" /\ HasOp(T, x)
ActStart(T, x) ==
  LET o == Op(T, x) IN
  IF o.t = "meta" THEN [GWant(T, x, o.k, T.cleared[o.k]) EXCEPT !.a[x].pc = "meta"]
  ELSE [T EXCEPT !.a[x].pc = "r_lookup", !.a[x].rfloor = T.cleared[StmtKs(o.s)]]

Finish(T, x, out) == [T EXCEPT !.a[x].pc = "ready", !.a[x].idx = @ + 1, !.a[x].out = out, !.a[x].nout = @ + 1, !.a[x].cur = 0,
                               !.g[x].pc = "idle"]

ActMetaRetEn(T, x) == T.a[x].pc = "meta" /\ T.g[x].pc = "done"
ActMetaRet(T, x) == Finish(T, x, [t |-> T.g[x].res.t, ks |-> T.g[x].res.ks, tb |-> T.g[x].res.tb, idx |-> <<>>])

-----------------------------------------------------------------------------
\* the cluster and its event stream
SrvChangeEn(T, k) == T.sv[k] < MaxVer
SrvChange(T, k, kind) ==
  [T EXCEPT !.sv[k] = @ + 1, !.evq = Append(@, [k |-> k, v |-> T.sv[k] + 1, kind |-> kind])]

\* an event is lost (control connection down, debouncer buffer full ...): only in the wrong variant
LoseEventEn(T) == Variant = "lose_event" /\ T.evq # <<>>
LoseEvent(T) == [T EXCEPT !.evq = Tail(@)]

EvTakeEn(T, n) == T.batch = <<>> /\ T.epc = "idle" /\ n \in 1 .. Len(T.evq) /\ (TakeAll => n = Len(T.evq))
EvTake(T, n) == [T EXCEPT !.batch = SubSeq(T.evq, 1, n), !.evq = SubSeq(T.evq, n + 1, Len(T.evq)), !.epc = "clear"]

EvPop(T) ==
  LET b == Tail(T.batch) IN [T EXCEPT !.batch = b, !.epc = IF b = <<>> THEN "idle" ELSE "clear"]

EvClearEn(T) == T.epc = "clear" /\ (T.mu = "" \/ Variant = "clear_unlocked")
EvClear(T) ==
  LET e == Head(T.batch)
      skip == Variant = "no_clear_on_table" /\ e.kind = "table"
      T1 == IF skip THEN T
            ELSE [T EXCEPT !.cache[e.k] = NoSnap, !.ngone[e.k] = IF T.cache[e.k] # NoSnap THEN @ + 1 ELSE @,
                           !.cleared[e.k] = MaxOf(@, e.v)]
      T2 == IF skip THEN [T1 EXCEPT !.cleared[e.k] = MaxOf(@, e.v)] ELSE T1
  IN IF e.kind = "keyspace" THEN [T2 EXCEPT !.epc = "agree"] ELSE EvPop(T2)

EvAgreeEn(T) == T.epc = "agree"
EvAgree(T) == [GWant(T, Pol, Head(T.batch).k, Head(T.batch).v) EXCEPT !.epc = "policy"]

EvPolicyEn(T) == T.epc = "policy" /\ T.g[Pol].pc = "done"
EvPolicy(T) == EvPop([T EXCEPT !.g[Pol].pc = "idle", !.npol = @ + 1, !.polres = T.g[Pol].res])

-----------------------------------------------------------------------------
\* routingKeyInfo (session.go)
FlightOut(fl) ==
  IF fl.st = "fail" THEN [t |-> "err", ks |-> 0, tb |-> fl.ver, idx |-> <<>>]
  ELSE IF fl.val = <<>> THEN [t |-> "nil", ks |-> 0, tb |-> fl.ver, idx |-> <<>>]
  ELSE [t |-> "key", ks |-> 0, tb |-> fl.ver, idx |-> fl.val]

RDrop(T, s) ==   \* routingKeyInfoCache.Remove(stmt): whatever entry the statement has now
  IF s \in DOMAIN T.rent
    THEN [T EXCEPT !.rlru = Without(@, s), !.rent = [y \in DOMAIN T.rent \ {s} |-> T.rent[y]], !.nrrem[s] = @ + 1]
    ELSE T

RLookupEn(T, x) == T.a[x].pc = "r_lookup"
RLookup(T, x) ==
  LET s == Op(T, x).s IN
  IF s \in DOMAIN T.rent /\ Variant # "route_never_cache" THEN
    [T EXCEPT !.rlru = <<s>> \o Without(@, s), !.a[x].cur = T.rent[s], !.a[x].pc = "r_wait"]
  ELSE
    LET f == Len(T.rfl) + 1
        l1 == <<s>> \o Without(T.rlru, s)
        over == Len(l1) > MaxRoute
        victim == l1[Len(l1)]
        l2 == IF over THEN SubSeq(l1, 1, Len(l1) - 1) ELSE l1
    IN [T EXCEPT !.rlru = l2,
                 !.rent = [y \in Range(l2) |-> IF y = s THEN f ELSE T.rent[y]],
                 !.rfl = Append(@, [s |-> s, by |-> x, st |-> "run", val |-> <<>>, ver |-> 0, pub |-> FALSE, floor |-> T.a[x].rfloor]),
                 !.nrrem = IF over /\ victim # s THEN [@ EXCEPT ![victim] = @ + 1] ELSE @,
                 !.nrcomp[s] = @ + 1,
                 !.a[x].cur = f, !.a[x].pc = "r_conn"]

RConnEn(T, x) == T.a[x].pc = "r_conn"
RConn(T, x) ==
  IF T.up THEN [T EXCEPT !.a[x].pc = "r_prep"]
  ELSE LET T1 == [T EXCEPT !.rfl[T.a[x].cur].st = "fail", !.a[x].pc = "r_pub"]
       IN IF DefectNoConnCached THEN T1 ELSE RDrop(T1, Op(T, x).s)

\* conn.prepareStatement: the PREPARE goes through the session's prepared-statement cache (C14): it is on the wire
\* only while the statement is unknown there, and callers that ask meanwhile share that one PREPARE and its outcome.
RPrep1(T, x, ans) ==
  LET s == Op(T, x).s
      f == T.a[x].cur
      k == StmtKs(s)
      pv == T.pver[s] IN     \* the prepared metadata the session holds is as old as its PREPARE
  IF ans = "fail" THEN
    LET T1 == IF Variant = "route_cache_failure" THEN T ELSE RDrop(T, s) IN
    [T1 EXCEPT !.rfl[f].st = "fail", !.a[x].pc = "r_pub"]
  \* protocol 4: the PREPARE answer names the bind positions of the partition key when all of them are bound;
  \* otherwise (and with older protocols) the table's metadata is consulted
  ELSE IF PkFromPrepare /\ RoutingIdx(PK(pv), Binds(s)) # <<>> THEN
    [T EXCEPT !.rfl[f].st = "ok", !.rfl[f].val = RoutingIdx(PK(pv), Binds(s)), !.rfl[f].ver = pv, !.a[x].pc = "r_pub"]
  ELSE [GWant(T, x, k, T.a[x].rfloor) EXCEPT !.a[x].pc = "r_meta"]

InPrep(T, s) == {x \in ActorsOf(T.plan) : T.a[x].pc = "r_prep" /\ Op(T, x).s = s}
RECURSIVE RPrepAll(_, _, _)
RPrepAll(T, X, ans) == IF X = {} THEN T ELSE LET x == CHOOSE y \in X : TRUE IN RPrepAll(RPrep1(T, x, ans), X \ {x}, ans)

\* the node answers the PREPARE of statement s
RPrepAnsEn(T, s, ans) == ~T.known[s] /\ InPrep(T, s) # {} /\ (ans = "fail" => T.fails < MaxFail)
RPrepAns(T, s, ans) ==
  LET T0 == IF ans = "ok" THEN [T EXCEPT !.pver[s] = T.sv[StmtKs(s)]] ELSE T
      T1 == RPrepAll(T0, InPrep(T, s), ans) IN
  IF ans = "ok" THEN [T1 EXCEPT !.known[s] = TRUE] ELSE [T1 EXCEPT !.fails = @ + 1]
\* the statement is in the prepared-statement cache already
RPrepHitEn(T, x) == T.a[x].pc = "r_prep" /\ T.known[Op(T, x).s]
RPrepHit(T, x) == RPrep1(T, x, "ok")

RMetaEn(T, x) == T.a[x].pc = "r_meta" /\ T.g[x].pc = "done"
RMeta(T, x) ==
  LET s == Op(T, x).s
      f == T.a[x].cur
      r == T.g[x].res
      T0 == [T EXCEPT !.g[x].pc = "idle"] IN
  IF r.t # "ok" \/ r.tb \in NoTableVers THEN
    [RDrop(T0, s) EXCEPT !.rfl[f].st = "fail", !.rfl[f].ver = r.tb, !.a[x].pc = "r_pub"]
  ELSE [T0 EXCEPT !.rfl[f].st = "ok", !.rfl[f].val = RoutingIdx(PK(r.tb), Binds(s)), !.rfl[f].ver = r.tb, !.a[x].pc = "r_pub"]

RPubEn(T, x) == T.a[x].pc = "r_pub"
RPub(T, x) == LET f == T.a[x].cur IN Finish([T EXCEPT !.rfl[f].pub = TRUE], x, FlightOut(T.rfl[f]))

RWakeEn(T, x) == T.a[x].pc = "r_wait" /\ T.rfl[T.a[x].cur].pub
RWake(T, x) == Finish(T, x, FlightOut(T.rfl[T.a[x].cur]))

HostsDownEn(T) == T.up /\ T.downs < MaxDown
HostsDown(T) == [T EXCEPT !.up = FALSE, !.downs = @ + 1]
HostsUpEn(T) == ~T.up
HostsUp(T) == [T EXCEPT !.up = TRUE]

-----------------------------------------------------------------------------
Actors == ActorsOf(S.plan)
Gs == Actors \cup {Pol}

DriverNext ==
  \/ \E x \in Gs : GLockEn(S, x) /\ S' = GLock(S, x)
  \/ \E x \in Actors : \/ ActStartEn(S, x) /\ S' = ActStart(S, x)
                       \/ ActMetaRetEn(S, x) /\ S' = ActMetaRet(S, x)
                       \/ RLookupEn(S, x) /\ S' = RLookup(S, x)
                       \/ RConnEn(S, x) /\ S' = RConn(S, x)
                       \/ RPrepHitEn(S, x) /\ S' = RPrepHit(S, x)
                       \/ RMetaEn(S, x) /\ S' = RMeta(S, x)
                       \/ RPubEn(S, x) /\ S' = RPub(S, x)
                       \/ RWakeEn(S, x) /\ S' = RWake(S, x)
  \/ \E n \in 1 .. Len(S.evq) : EvTakeEn(S, n) /\ S' = EvTake(S, n)
  \/ EvClearEn(S) /\ S' = EvClear(S)
  \/ EvAgreeEn(S) /\ S' = EvAgree(S)
  \/ EvPolicyEn(S) /\ S' = EvPolicy(S)

NodeOk ==
  \/ \E x \in Gs : \/ GAnsKsEn(S, x, "ok") /\ S' = GAnsKs(S, x, "ok")
                   \/ GAnsTbEn(S, x, "ok") /\ S' = GAnsTb(S, x, "ok")
  \/ \E s \in Stmts : RPrepAnsEn(S, s, "ok") /\ S' = RPrepAns(S, s, "ok")

NodeFail ==
  \/ \E x \in Gs : \/ GAnsKsEn(S, x, "fail") /\ S' = GAnsKs(S, x, "fail")
                   \/ GAnsTbEn(S, x, "fail") /\ S' = GAnsTb(S, x, "fail")
  \/ \E s \in Stmts : RPrepAnsEn(S, s, "fail") /\ S' = RPrepAns(S, s, "fail")

EnvNext ==
  \/ \E k \in Keyspaces, kind \in {"table", "keyspace"} : SrvChangeEn(S, k) /\ S' = SrvChange(S, k, kind)
  \/ HostsDownEn(S) /\ S' = HostsDown(S)
  \/ HostsUpEn(S) /\ S' = HostsUp(S)
  \/ LoseEventEn(S) /\ S' = LoseEvent(S)

Next == DriverNext \/ NodeOk \/ NodeFail \/ EnvNext
Spec == Init /\ [][Next]_vars
FairSpec == Spec /\ WF_vars(DriverNext) /\ WF_vars(NodeOk) /\ WF_vars(HostsUpEn(S) /\ S' = HostsUp(S))

-----------------------------------------------------------------------------
\* Properties.

\* events for keyspace k that have not been applied yet (queued, or in the batch and not yet cleared)
Pending(T, k) ==
  {T.evq[i].v : i \in {j \in 1 .. Len(T.evq) : T.evq[j].k = k}}
    \cup {T.batch[i].v : i \in {j \in 1 .. Len(T.batch) : T.batch[j].k = k /\ (j > 1 \/ T.epc = "clear")}}

\* [M2] once the event for a change has been handled nobody is served metadata older than that change
NoStaleRead ==
  \A x \in DOMAIN S.g : (S.g[x].pc = "done" /\ S.g[x].res.t = "ok") =>
                            (S.g[x].res.ks >= S.g[x].floor /\ S.g[x].res.tb >= S.g[x].floor)
\* ... which rests on: an entry older than the cluster's state has its invalidation still under way
StaleHasPendingEvent ==
  \A k \in Keyspaces : (S.cache[k] # NoSnap /\ MinOf(S.cache[k].ks, S.cache[k].tb) < S.sv[k]) =>
                          \E v \in Pending(S, k) : v > MinOf(S.cache[k].ks, S.cache[k].tb)
\* [M2] what a failed fetch produced is not kept; [M1] an absent keyspace is an error, not an entry
FailedNotCached ==
  \A k \in Keyspaces : S.cache[k] # NoSnap => (S.cache[k].ks >= 1 /\ S.cache[k].tb >= 1 /\ S.cache[k].ks \notin AbsentVers)
ErrorIsOwn ==
  \A x \in DOMAIN S.g : (S.g[x].pc = "done" /\ S.g[x].res.t \in {"err", "notexist"}) => S.g[x].own
\* [M1] "Returns an error if the keyspace does not exist": ErrKeyspaceDoesNotExist says that the cluster has no such keyspace
NotExistOnlyIfAbsent ==
  \A x \in DOMAIN S.g : (S.g[x].pc = "done" /\ S.g[x].res.t = "notexist") => S.g[x].abs
\* [M2] one cache shared by all callers: a keyspace is fetched again only after its entry was dropped or a fetch failed
SharedCache == \A k \in Keyspaces : S.nref[k] <= 1 + S.ngone[k]

\* [M3] an error is the answer to the calls it happened under: a failed computation whose call has returned
\* has left the cache
RouteFailedNotCached ==
  \A s \in DOMAIN S.rent : ~(S.rfl[S.rent[s]].st = "fail" /\ S.rfl[S.rent[s]].pub)
\* inflight de-duplication: a statement is computed again only after its entry was removed / evicted
RouteSingleFlight == \A s \in Stmts : S.nrcomp[s] <= 1 + S.nrrem[s]
\* [M4]
RouteBounded == Len(S.rlru) <= MaxRoute /\ DOMAIN S.rent = Range(S.rlru)
\* [M3] the routing info is what the partition key of the table (at a version not older than the events handled when
\* the computation began) and the statement's binds give; "cannot be determined" = nil without error
\* (with protocol 4 the partition key positions come with the PREPARE answer and are as old as the prepared statement:
\* the freshness half is about the metadata path)
RouteFromSchema ==
  \A i \in 1 .. Len(S.rfl) : S.rfl[i].st = "ok" =>
     /\ S.rfl[i].val = RoutingIdx(PK(S.rfl[i].ver), Binds(S.rfl[i].s))
     /\ (~PkFromPrepare \/ S.rfl[i].val = <<>>) => S.rfl[i].ver >= S.rfl[i].floor
\* NOT guaranteed (documented lack of invalidation, expected to be violated): what a call returns is not older than
\* the events handled when THAT CALL began
RouteFreshPerCall ==
  \A x \in ActorsOf(S.plan) : (S.a[x].out.t \in {"key", "nil"} /\ S.a[x].pc = "ready") => S.a[x].out.tb >= S.a[x].rfloor

Quiet(T) == T.evq = <<>> /\ T.batch = <<>>
AllFresh(T) == \A k \in Keyspaces : T.cache[k] = NoSnap \/ T.cache[k] = [ks |-> T.sv[k], tb |-> T.sv[k]]
AllDone(T) == \A x \in ActorsOf(T.plan) : ~HasOp(T, x)
\* liveness: every call returns and the cache ends up without stale entries
Terminates == <>[](AllDone(S) /\ Quiet(S) /\ AllFresh(S))

TypeOK ==
  /\ S.mu \in {""} \cup DOMAIN S.g
  /\ S.epc \in {"idle", "clear", "agree", "policy"}
  /\ (S.batch = <<>>) = (S.epc = "idle")
=============================================================================
