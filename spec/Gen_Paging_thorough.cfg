SPECIFICATION GenSpec
CONSTANTS
  MaxPages = 4
  MaxRows = 3
  Quarters = {0, 1, 2, 4}
  Kinds = {"Scan", "Scanner", "MapScan", "SliceMap"}
  ManualQuarters = {1}
  Plans <- GenPlans
  AllVariants = TRUE
  MultiEvery = 1
  MultiPlans = 2
  OptEvery = 1
  ConcEvery = 4
  Conc = 8
  PinEvery = 2
INVARIANT Emit
CHECK_DEADLOCK FALSE
