SPECIFICATION PSpec
CONSTANTS
  MaxE = 1
CHECK_DEADLOCK FALSE
