SPECIFICATION Spec
CONSTANTS
  Ids = {"i1", "i2"}
  Addrs = {"a1", "a2", "a3"}
  Filt = {}
  DefectByAddr = FALSE
  MaxLen = 2
  WithBad = FALSE
  WithDup = FALSE
  WithSplit = TRUE
  C0peer = "b0"
  MaxLevel = 4
INVARIANTS TypeOK PropertyHolds
CHECK_DEADLOCK FALSE
