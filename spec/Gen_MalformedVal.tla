--------------------------- MODULE Gen_MalformedVal ---------------------------
(***************************************************************************)
(* Property C05, input family 2: (type, bytes) pairs for Unmarshal.        *)
(*                                                                         *)
(* For every CQL type (all scalars; list / set / map / tuple / UDT nested  *)
(* to depth 2; both collection framings: [short] counts and lengths of     *)
(* protocol <= 2, [int] of protocol >= 3) a well-formed value is encoded   *)
(* from the protocol specification (section 6 "data types": collections    *)
(* are a count followed by length-prefixed elements, tuples and UDTs a     *)
(* sequence of [bytes]) as ANNOTATED segments, so that every length and    *)
(* count field is known.  States: depth 1 = one per well-formed value,     *)
(* depth 2 = one per case: the value itself, every truncation, one byte    *)
(* too many, every count / length replaced by -1, -2, 0, n-1, n+1, 2^15,   *)
(* 2^21, 2^31-1, a scalar's first byte set to 0x80 / 0xFF.                 *)
(* Oracle: spec/Trace_Malformed.tla (value | error; never a crash).        *)
(***************************************************************************)
EXTENDS WireResp, Json

CONSTANT Tier      \* "quick" | "thorough"
VARIABLE p

Seg(k, f, b, n) == [k |-> k, f |-> f, b |-> b, n |-> n]
SgR(f, b) == IF Len(b) = 0 THEN <<>> ELSE <<Seg("raw", f, b, 0)>>
Bytes(segs) == Flat([i \in 1 .. Len(segs) |-> segs[i].b])
\* collection framing: pv <= 2 [short], else [int]
Num(pv, n) == IF pv <= 2 THEN Short(n) ELSE Int32(n)
Cnt(pv, f, n) == <<Seg("cnt", f, Num(pv, n), n)>>
Ln(pv, f, n) == <<Seg("len", f, Num(pv, n), n)>>
Ln4(f, n) == <<Seg("len", f, Int32(n), n)>>

\* ------------------------------------------------------------------ sample scalar values (k varies them)
U16 == <<0, 17, 34, 51, 68, 85, 102, 119, 136, 153, 170, 187, 204, 221, 238, 255>>
TU16 == <<0, 17, 34, 51, 68, 85, 17, 119, 136, 153, 170, 187, 204, 221, 238, 255>>   \* version nibble 1
Scalar(id, k) ==
  CASE id \in {1, 10, 13} -> IF k % 2 = 0 THEN <<104, 195, 169>> ELSE <<97>>          \* ascii / text / varchar
    [] id \in {2, 5, 11, 18} -> IF k % 2 = 0 THEN <<0, 0, 0, 0, 0, 0, 1, 2>> ELSE <<255, 255, 255, 255, 255, 255, 255, 254>>  \* bigint counter timestamp time
    [] id = 3 -> <<0, 255, 7>>                                                          \* blob
    [] id = 4 -> <<1>>                                                                  \* boolean
    [] id = 6 -> IF k % 2 = 0 THEN <<0, 0, 0, 2, 1, 0>> ELSE <<255, 255, 255, 254, 128>> \* decimal: scale [int], unscaled varint
    [] id = 7 -> <<64, 9, 33, 251, 84, 68, 45, 24>>                                     \* double
    [] id \in {8, 9, 17} -> IF k % 2 = 0 THEN <<0, 0, 1, 7>> ELSE <<128, 0, 0, 0>>      \* float int date
    [] id = 12 -> U16
    [] id = 14 -> IF k % 2 = 0 THEN <<1, 0>> ELSE <<255, 127, 0, 0, 0, 0, 0, 0, 0, 1>>  \* varint
    [] id = 15 -> TU16
    [] id = 16 -> IF k % 2 = 0 THEN <<10, 0, 0, 1>> ELSE <<32, 1, 13, 184, 0, 0, 0, 0, 0, 0, 0, 0, 0, 0, 0, 1>>  \* inet
    [] id = 19 -> <<1, 2>>                                                              \* smallint
    [] id = 20 -> <<127>>                                                               \* tinyint
    [] id = 21 -> IF k % 2 = 0 THEN <<2, 4, 6>> ELSE <<129, 0, 192, 0, 1, 240, 0, 0, 0, 1>>  \* duration: three vints
    [] id = 0 -> <<1, 2, 3>>                                                            \* custom: opaque
    [] OTHER -> <<>>

\* ------------------------------------------------------------------ annotated value encoder
NElems(k) == <<2, 0, 1, 3>>[(k % 4) + 1]
RECURSIVE AVal(_, _, _)
AElem(t, pv, k, f, nullable) ==
  IF nullable /\ k % 5 = 4 THEN Ln(pv, f \o ".len", -1)
  ELSE LET inner == AVal(t, pv, k) IN Ln(pv, f \o ".len", Len(Bytes(inner))) \o inner
AField(t, pv, k, f) ==
  IF k % 5 = 3 THEN Ln4(f \o ".len", -1)
  ELSE LET inner == AVal(t, pv, k) IN Ln4(f \o ".len", Len(Bytes(inner))) \o inner
AVal(t, pv, k) ==
  CASE t.id \in {T_List, T_Set} ->
         LET n == NElems(k) IN Cnt(pv, "collection.count", n) \o Flat([i \in 1 .. n |-> AElem(t.args[1], pv, k + i, "collection.elem", pv > 2)])
    [] t.id = T_Map ->
         LET n == NElems(k)
         IN Cnt(pv, "map.count", n) \o Flat([i \in 1 .. n |-> AElem(t.args[1], pv, k + i, "map.key", FALSE) \o AElem(t.args[2], pv, k + i + 1, "map.value", pv > 2)])
    [] t.id = T_Tuple -> Flat([i \in 1 .. Len(t.args) |-> AField(t.args[i], pv, k + i, "tuple.field")])
    [] t.id = T_UDT -> Flat([i \in 1 .. Len(t.args) |-> AField(t.args[i], pv, k + i, "udt.field")])
    [] OTHER -> SgR("scalar", Scalar(t.id, k))

RECURSIVE FieldsFrom(_, _, _)
FieldsFrom(segs, i, off) ==
  IF i > Len(segs) THEN <<>>
  ELSE (IF segs[i].k = "raw" THEN <<>>
        ELSE <<[k |-> segs[i].k, f |-> segs[i].f, off |-> off, w |-> Len(segs[i].b), n |-> segs[i].n]>>)
       \o FieldsFrom(segs, i + 1, off + Len(segs[i].b))

\* ------------------------------------------------------------------ type names (labels only)
ScalarName(id) ==
  CASE id = 0 -> "custom" [] id = 1 -> "ascii" [] id = 2 -> "bigint" [] id = 3 -> "blob" [] id = 4 -> "boolean" [] id = 5 -> "counter"
    [] id = 6 -> "decimal" [] id = 7 -> "double" [] id = 8 -> "float" [] id = 9 -> "int" [] id = 10 -> "text" [] id = 11 -> "timestamp"
    [] id = 12 -> "uuid" [] id = 13 -> "varchar" [] id = 14 -> "varint" [] id = 15 -> "timeuuid" [] id = 16 -> "inet" [] id = 17 -> "date"
    [] id = 18 -> "time" [] id = 19 -> "smallint" [] id = 20 -> "tinyint" [] id = 21 -> "duration" [] OTHER -> "unknown"
RECURSIVE TName(_), JoinNames(_)
JoinNames(ts) == IF Len(ts) = 0 THEN "" ELSE IF Len(ts) = 1 THEN TName(ts[1])
                 ELSE TName(ts[1]) \o "," \o JoinNames(Tail(ts))
TName(t) ==
  CASE t.id = T_List -> "list<" \o TName(t.args[1]) \o ">"
    [] t.id = T_Set -> "set<" \o TName(t.args[1]) \o ">"
    [] t.id = T_Map -> "map<" \o TName(t.args[1]) \o "," \o TName(t.args[2]) \o ">"
    [] t.id = T_Tuple -> "tuple<" \o JoinNames(t.args) \o ">"
    [] t.id = T_UDT -> "udt<" \o JoinNames(t.args) \o ">"
    [] OTHER -> ScalarName(t.id)
\* the shape alone (what a root cause depends on): the outermost constructor
Shape(t) == CASE t.id = T_List -> "list" [] t.id = T_Set -> "set" [] t.id = T_Map -> "map" [] t.id = T_Tuple -> "tuple"
              [] t.id = T_UDT -> "udt" [] OTHER -> ScalarName(t.id)

\* ------------------------------------------------------------------ the type pool
ScalarIds == <<1, 2, 3, 4, 5, 6, 7, 8, 9, 11, 12, 13, 14, 15, 16, 17, 18, 19, 20, 21, 10, 0>>
TInt == Ty(9)
TText == Ty(13)
TUuid == Ty(12)
TBig == Ty(2)
Udt(fn, ft) == TyUDT(S_ks1, S_udt1, fn, ft)
ElemQ == <<TInt, TText, TUuid>>
ElemT == <<TInt, TText, TUuid, TBig, Ty(16), Ty(3), Ty(4), Ty(14), Ty(6), Ty(21), Ty(17)>>
Elems == IF Tier = "thorough" THEN ElemT ELSE ElemQ
D1Of(es) ==
  [i \in 1 .. Len(es) |-> TyList(es[i])] \o [i \in 1 .. Len(es) |-> TySet(es[i])] \o
  [i \in 1 .. Len(es) |-> TyMap(TInt, es[i])] \o [i \in 1 .. Len(es) |-> TyMap(es[i], TText)] \o
  [i \in 1 .. Len(es) |-> TyTuple(<<TInt, es[i]>>)] \o [i \in 1 .. Len(es) |-> Udt(<<S_f1, S_f2>>, <<es[i], TInt>>)] \o
  <<TyTuple(<<TInt>>), TyTuple(<<TText, TInt, TUuid>>), TyTuple(<<>>), Udt(<<S_f1>>, <<TText>>), Udt(<<>>, <<>>)>>
D1 == D1Of(Elems)
Inner == <<TyList(TInt), TySet(TText), TyMap(TInt, TText), TyTuple(<<TInt, TText>>), Udt(<<S_f1, S_f2>>, <<TInt, TText>>)>>
D2 == [i \in 1 .. Len(Inner) |-> TyList(Inner[i])] \o [i \in 1 .. Len(Inner) |-> TySet(Inner[i])] \o
      [i \in 1 .. Len(Inner) |-> TyMap(TInt, Inner[i])] \o [i \in 1 .. Len(Inner) |-> TyMap(Inner[i], TInt)] \o
      [i \in 1 .. Len(Inner) |-> TyTuple(<<TInt, Inner[i]>>)] \o [i \in 1 .. Len(Inner) |-> TyTuple(<<Inner[i], TText>>)] \o
      [i \in 1 .. Len(Inner) |-> Udt(<<S_f1, S_f2>>, <<Inner[i], TInt>>)] \o [i \in 1 .. Len(Inner) |-> Udt(<<S_f1, S_f2>>, <<TText, Inner[i]>>)]
Pool == [i \in 1 .. Len(ScalarIds) |-> Ty(ScalarIds[i])] \o D1 \o D2
IsScalar(t) == t.id \notin {T_List, T_Set, T_Map, T_Tuple, T_UDT}
RECURSIVE HasCollection(_)
HasCollection(t) == t.id \in {T_List, T_Set, T_Map} \/ \E i \in 1 .. Len(t.args) : HasCollection(t.args[i])

\* ------------------------------------------------------------------ states
Blank == [t |-> "", ty |-> Ty(0), tname |-> "", shape |-> "", pv |-> 0, var |-> 0, mk |-> "", f |-> "", off |-> 0, val |-> 0,
          bytes |-> <<>>, fields |-> <<>>]
Variants(t) == IF IsScalar(t) THEN {0, 1} ELSE IF Tier = "thorough" THEN 0 .. 5 ELSE {0, 1, 2}
\* the [short] framing exists only where a collection is involved
Protos(t) == IF HasCollection(t) THEN {2, 4} ELSE {4}
MkBase(i, pv, k) ==
  LET t == Pool[i]
      segs == AVal(t, pv, k)
  IN [Blank EXCEPT !.t = "base", !.ty = t, !.tname = TName(t), !.shape = Shape(t), !.pv = pv, !.var = k,
                   !.bytes = Bytes(segs), !.fields = FieldsFrom(segs, 1, 0)]

Enc(w, val) == CASE w = 1 -> <<val % 256>> [] w = 2 -> Short(val) [] w = 4 -> Int32(val)
Replace(bytes, off, w, nb) == SubSeq(bytes, 1, off) \o nb \o SubSeq(bytes, off + w + 1, Len(bytes))
\* (huge: 2^31-1 ends the child process on the unrepaired tree; it is asked of one variant per type and framing)
LenVals(fd, huge) ==
  LET n == fd.n IN
  (CASE fd.w = 4 -> {-1, -2, 0, n - 1, n + 1, 32768, 2097152} \cup (IF huge THEN {2147483647} ELSE {})
     [] fd.w = 2 -> {65535, 65534, 0, n - 1, n + 1, 32768, 32767} \cap (0 .. 65535)) \ {n}
FieldMuts(s) ==
  UNION {LET fd == s.fields[i]
         IN {[mk |-> fd.k, f |-> fd.f, off |-> fd.off, w |-> fd.w, val |-> x] : x \in LenVals(fd, s.var = 0)}
         : i \in 1 .. Len(s.fields)}
Case(s, mk, f, off, val, bytes) == [s EXCEPT !.t = "case", !.mk = mk, !.f = f, !.off = off, !.val = val, !.bytes = bytes, !.fields = <<>>]

VInit == \E i \in 1 .. Len(Pool) : \E pv \in Protos(Pool[i]) : \E k \in Variants(Pool[i]) : p = MkBase(i, pv, k)
VNext ==
  /\ p.t = "base"
  /\ \/ p' = Case(p, "wellformed", "", 0, 0, p.bytes)
     \/ \E m \in FieldMuts(p) : p' = Case(p, m.mk, m.f, m.off, m.val, Replace(p.bytes, m.off, m.w, Enc(m.w, m.val)))
     \/ \E t \in 0 .. Len(p.bytes) - 1 : p' = Case(p, "trunc", "", t, 0, SubSeq(p.bytes, 1, t))
     \/ p' = Case(p, "extend", "", Len(p.bytes), 0, p.bytes \o <<0>>)
     \/ \E b \in {128, 255} : /\ Len(p.bytes) > 0 /\ p.bytes[1] # b /\ IsScalar(p.ty)
                              /\ p' = Case(p, "byte0", "scalar", 0, b, Replace(p.bytes, 0, 1, <<b>>))

EmitCase ==
  p.t = "case" =>
    PrintT("CASE " \o ToJson([tname |-> p.tname, shape |-> p.shape, proto |-> p.pv, var |-> p.var, type |-> p.ty,
                              mk |-> p.mk, f |-> p.f, off |-> p.off, val |-> p.val, bytes |-> p.bytes]))
=============================================================================
