INIT InitSub
NEXT Next
INVARIANT EmitSub
CHECK_DEADLOCK FALSE
