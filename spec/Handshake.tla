----------------------------- MODULE Handshake -----------------------------
(***************************************************************************)
(* C20 - TLS verification and credential disclosure.                       *)
(*                                                                         *)
(* Part 1 (TLS table).  What the DOCUMENTATION promises about the TLS      *)
(* configuration the driver dials with, as a function of SslOptions and    *)
(* the address of the host being dialled.  Sources: the table in doc.go    *)
(* (section "Transport layer security") repeated on type SslOptions, the   *)
(* comments on CertPath / KeyPath / CaPath, and the text of property C20.  *)
(* Nothing here is taken from setupTLSConfig / tlsConfigForAddr.           *)
(*                                                                         *)
(* Part 2 (authentication machine).  The start of a CQL connection         *)
(* (OPTIONS, STARTUP, AUTHENTICATE, AUTH_RESPONSE, AUTH_CHALLENGE,         *)
(* AUTH_SUCCESS - native protocol v4 section 4.1/4.2) with a client that   *)
(* is configured with no authenticator or with password credentials and a  *)
(* list of approved authenticator classes, against a server that may       *)
(* answer anything.  The properties are stated as predicates over what the *)
(* client SENT, so the same predicates are evaluated on the model          *)
(* (MC_Handshake) and on traces recorded from the driver (Trace_Auth).     *)
(***************************************************************************)
EXTENDS Integers, Sequences, FiniteSets

--------------------------------------------------------------------------------
(* Part 1: TLS table *)

HostForms == {"name", "ipv4", "ipv6"}
\* CA file named by SslOptions.CaPath: not named, a PEM certificate, a path that does not exist,
\* a directory, a file that holds no PEM certificate
CaKinds == {"absent", "valid", "missing", "dir", "garbage"}
\* SslOptions.CertPath / KeyPath: both empty, a matching pair, only one of the two named, files
\* that do not exist, files without PEM content, a certificate with somebody else's key
KpKinds == {"absent", "valid", "certOnly", "keyOnly", "missing", "garbage", "mismatch"}

\* doc.go, "SslOptions and Config.InsecureSkipVerify interact as follows" - the six rows, verbatim:
\*   Config.InsecureSkipVerify | EnableHostVerification | Result
DocTable == {
  <<"nil",   FALSE, "do not verify host">>,
  <<"nil",   TRUE,  "verify host">>,
  <<"false", FALSE, "verify host">>,
  <<"true",  FALSE, "do not verify host">>,
  <<"false", TRUE,  "verify host">>,
  <<"true",  TRUE,  "verify host">> }

DocColumn(cfg, insecure) == IF ~cfg THEN "nil" ELSE IF insecure THEN "true" ELSE "false"
DocRows(cfg, insecure, hv) == {r \in DocTable : r[1] = DocColumn(cfg, insecure) /\ r[2] = hv}
DocVerify(cfg, insecure, hv) == (CHOOSE r \in DocRows(cfg, insecure, hv) : TRUE)[3] = "verify host"

\* the same rule in the words of the property: "no user config: only if host verification is
\* enabled; user config: unless it sets InsecureSkipVerify without host verification enabled"
TextVerify(cfg, insecure, hv) == IF ~cfg THEN hv ELSE ~(insecure /\ ~hv)

\* The documentation is a function and both formulations agree (checked by the model pass).
TableWellFormed ==
  \A cfg \in BOOLEAN, insecure \in BOOLEAN, hv \in BOOLEAN :
      /\ Cardinality(DocRows(cfg, insecure, hv)) = 1
      /\ DocVerify(cfg, insecure, hv) = TextVerify(cfg, insecure, hv)

\* A row of the configuration space.  cfg: SslOptions.Config present; insecure / snset: its
\* InsecureSkipVerify / whether it names a ServerName (both meaningless, and FALSE, without cfg);
\* hv: EnableHostVerification; host: the form of the host being dialled; ca, kp as above.
\* uroots: the caller's Config carries RootCAs of its own (a pool holding the test CA).
TlsRows ==
  {[cfg |-> c, insecure |-> i, snset |-> s, uroots |-> u, hv |-> h, host |-> f, ca |-> a, kp |-> k] :
      c \in BOOLEAN, i \in BOOLEAN, s \in BOOLEAN, u \in BOOLEAN, h \in BOOLEAN,
      f \in HostForms, a \in CaKinds, k \in KpKinds}
CanonicalRow(r) == r.cfg \/ (~r.insecure /\ ~r.snset /\ ~r.uroots)
\* the test CA is among the roots the row configures
Trust(r) == r.ca = "valid" \/ r.uroots

CaBad(ca) == ca \in {"missing", "dir", "garbage"}
KpBad(kp) == kp \in {"certOnly", "keyOnly", "missing", "garbage", "mismatch"}

(* What the documentation requires for a row:                                          *)
(*   err    - session setup must fail: "Unreadable or unparsable CA or key-pair files  *)
(*            are reported as errors instead of silently connecting without them";     *)
(*            "both fields must be omitted to avoid using a client certificate".       *)
(*   verify - the configuration used for the handshake verifies certificate and host.  *)
(*   sn     - which server name it verifies against: "user" = the caller's ServerName, *)
(*            "host" = the name of the host being dialled, "any" = not constrained     *)
(*            (nothing is verified).                                                   *)
(*   The caller's own tls.Config is never modified (all rows).                         *)
TlsEffective(r) ==
  LET v == DocVerify(r.cfg, r.insecure, r.hv)
  IN [err |-> CaBad(r.ca) \/ KpBad(r.kp),
      verify |-> v,
      sn |-> IF r.cfg /\ r.snset THEN "user" ELSE IF v THEN "host" ELSE "any"]

(* Spellings of a host name as a tls.Config.ServerName that denote that host and      *)
(* nothing else: the name itself; for an IPv6 literal also the bracketed form         *)
(* (RFC 3986 host syntax), which crypto/tls and crypto/x509 document as equivalent    *)
(* ("IP addresses can be written in square brackets").  Never a port.                 *)
NameForms(form, h) == IF form = "ipv6" THEN {h, "[" \o h \o "]"} ELSE {h}

(* Outcome of a real handshake against a server presenting                            *)
(*   "hostcert": a certificate for the dialled host's name, signed by the test CA;    *)
(*   "usercert": a certificate for the caller's ServerName, signed by the test CA;    *)
(*   "wrongca" : a certificate for every name, signed by an unrelated CA.             *)
(* Trust(r): the test CA is among the roots the row configures (CaPath valid, or the  *)
(* caller's own RootCAs); otherwise the system roots apply, which do not hold it.     *)
(* crypto/tls and crypto/x509 are trusted for the rest.                               *)
(*   "addrcert": a certificate for the ADDRESS the host's name resolves to and nothing   *)
(*               else, signed by the test CA.  "hostcert" names the host exactly as it   *)
(*               is known (a DNS name only for hosts given by name - no IP SAN; the IP   *)
(*               only for hosts given as literals), so for a host given by NAME the two  *)
(*               differ: verifying "the name of the host being dialled" accepts hostcert *)
(*               and refuses addrcert; for hosts given as literals they coincide.        *)
ServerKinds == {"hostcert", "usercert", "wrongca", "addrcert"}
HandshakeOK(r, server) ==
  LET e == TlsEffective(r)
  IN IF ~e.verify THEN TRUE
     ELSE /\ Trust(r)
          /\ \/ e.sn = "user" /\ server = "usercert"
             \/ e.sn = "host" /\ server = "hostcert"
             \/ e.sn = "host" /\ server = "addrcert" /\ r.host # "name"

--------------------------------------------------------------------------------
(* Part 2: authentication machine *)

\* The built-in list of approved authenticator classes (conn.go, defaultApprovedAuthenticators -
\* the property refers to it as "the built-in default"; it is data, not logic).
DefaultApproved == {
  "org.apache.cassandra.auth.PasswordAuthenticator",
  "com.instaclustr.cassandra.auth.SharedSecretAuthenticator",
  "com.datastax.bdp.cassandra.auth.DseAuthenticator",
  "io.aiven.cassandra.auth.AivenAuthenticator",
  "com.ericsson.bss.cassandra.ecaudit.auth.AuditPasswordAuthenticator",
  "com.amazon.helenus.auth.HelenusAuthenticator",
  "com.ericsson.bss.cassandra.ecaudit.auth.AuditAuthenticator",
  "com.scylladb.auth.SaslauthdAuthenticator",
  "com.scylladb.auth.TransitionalAuthenticator",
  "com.instaclustr.cassandra.auth.InstaclustrPasswordAuthenticator" }

\* "the caller's, or the built-in default": an empty caller list means the default list.
Approved(allowed) == IF allowed = {} THEN DefaultApproved ELSE allowed

\* SASL PLAIN (RFC 4616) with an empty authorization identity: NUL authcid NUL passwd
PlainToken(user, pass) == <<0>> \o user \o <<0>> \o pass

ToSet(s) == {s[i] : i \in 1 .. Len(s)}

(* Predicates over one connection's history.  frames: what the client sent after the  *)
(* server's AUTHENTICATE(class), each [op, token]; kind: "none" | "pw" (password      *)
(* credentials user/pass with the approved list `allowed`) | "chain" (a caller-       *)
(* supplied multi-step authenticator whose first answer is the password token).       *)
OpAuthResponse == 15

\* credentials are sent only in reply to an approved class, and only if configured
MaySendCredentials(kind, allowed, class) == kind # "none" /\ class \in Approved(allowed)
\* the first answer to AUTHENTICATE carries exactly the PLAIN token
FirstTokenOK(user, pass, token) == token = PlainToken(user, pass)

=============================================================================
