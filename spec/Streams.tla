------------------------------ MODULE Streams ------------------------------
(***************************************************************************)
(* The per-connection stream-id allocator (internal/streams/streams.go) at *)
(* the granularity of its atomic operations.  One action = one atomic      *)
(* load / compare-and-swap / add, followed by the thread-local computation *)
(* up to the next atomic operation, so model steps correspond one to one   *)
(* to the yield points ("verif" hooks) in the code.                        *)
(*                                                                         *)
(* Ids are 0 .. Words*Bits-1; id = word*Bits + bit.  Id 0 is reserved.     *)
(* `used` is the bitmap (set of ids whose bit is 1).  Ids outside InitFree *)
(* are in use from the start and never released (environment), which lets  *)
(* the real word size (64) and both real capacities be used: only free ids *)
(* contribute states.                                                      *)
(***************************************************************************)
EXTENDS Integers, FiniteSets, Sequences, TLC

CONSTANTS Words,          \* number of 64-bit words in the bitmap (2 or 512 in the code)
          Bits,           \* bits per word (64 in the code)
          Threads,        \* set of thread identifiers
          MaxOps,         \* operations (GetStream / Clear) per thread
          InitFree,       \* ids that are free initially
          InitOffset,     \* initial value of the rotating word offset
          DoubleClear,    \* TRUE: a thread may Clear an id it has already released
          RaceClear       \* TRUE: a thread may Clear an id ANOTHER thread holds or is releasing (two
                          \* release paths racing on one id); no GetStream starts after the first Clear

N == Words * Bits
Ids == 0 .. N - 1
WordOf(id) == id \div Bits
IdsOfWord(w) == (w * Bits) .. (w * Bits + Bits - 1)

VARIABLES used,      \* bitmap: set of ids marked in use
          offset,    \* the shared rotating offset
          inuse,     \* the shared in-use counter (excludes the reserved id 0)
          pc,        \* per thread: next atomic operation ("idle" between calls)
          loc,       \* per thread locals: [off, i, pos, snap, j, id]
          ops,       \* per thread: operations started so far
          held,      \* per thread: ids returned by GetStream and not yet passed to Clear
          past,      \* per thread: ids passed to Clear (candidates for a double Clear)
          res,       \* per thread: result of the last finished call
          freeAll    \* ghost, per thread: ids free ever since its current GetStream began

vars == <<used, offset, inuse, pc, loc, ops, held, past, res, freeAll>>

NoRes == [kind |-> "none", val |-> -1]
Loc0 == [off |-> 0, i |-> 0, pos |-> 0, snap |-> {}, j |-> 0, id |-> 0, first |-> FALSE]

Init ==
  /\ used = Ids \ InitFree
  /\ offset = InitOffset
  /\ inuse = Cardinality(Ids \ InitFree) - 1
  /\ pc = [t \in Threads |-> "idle"]
  /\ loc = [t \in Threads |-> Loc0]
  /\ ops = [t \in Threads |-> 0]
  /\ held = [t \in Threads |-> {}]
  /\ past = [t \in Threads |-> {}]
  /\ res = [t \in Threads |-> NoRes]
  /\ freeAll = [t \in Threads |-> {}]

WordSnap(w) == used \cap IdsOfWord(w)

\* ids a thread's step newly marks in use disappear from every thread's ghost set
Mark(id) == freeAll' = [u \in Threads |-> freeAll[u] \ {id}]

(* Thread-local scan of snapshot `snap` of word `pos` starting at bit `j0`:   *)
(* next CAS candidate in this word, else the next word, else failure.         *)
ScanFrom(t, l, snap, j0) ==
  LET cand == {j \in j0 .. Bits - 1 : (l.pos * Bits + j) \notin snap} IN
  IF cand # {}
  THEN /\ pc' = [pc EXCEPT ![t] = "g_cas_word"]
       /\ loc' = [loc EXCEPT ![t] = [l EXCEPT !.snap = snap,
                                              !.j = CHOOSE j \in cand : \A k \in cand : j <= k]]
       /\ UNCHANGED <<res, held>>
  ELSE IF l.i + 1 < Words
  THEN /\ pc' = [pc EXCEPT ![t] = "g_load_word"]
       /\ loc' = [loc EXCEPT ![t] = [l EXCEPT !.i = l.i + 1,
                                              !.pos = (l.i + 1 + l.off) % Words, !.snap = {}, !.j = 0]]
       /\ UNCHANGED <<res, held>>
  ELSE /\ pc' = [pc EXCEPT ![t] = "idle"]
       /\ loc' = [loc EXCEPT ![t] = Loc0]
       /\ res' = [res EXCEPT ![t] = [kind |-> "get_fail", val |-> 0]]
       /\ UNCHANGED held

NoClearYet == \A u \in Threads : past[u] = {}

StartGet(t) ==
  /\ pc[t] = "idle" /\ ops[t] < MaxOps
  /\ (RaceClear => NoClearYet)
  /\ pc' = [pc EXCEPT ![t] = "g_load_offset"]
  /\ ops' = [ops EXCEPT ![t] = @ + 1]
  /\ freeAll' = [freeAll EXCEPT ![t] = Ids \ used]
  /\ loc' = [loc EXCEPT ![t] = Loc0]
  /\ res' = [res EXCEPT ![t] = NoRes]
  /\ UNCHANGED <<used, offset, inuse, held, past>>

GLoadOffset(t) ==
  /\ pc[t] = "g_load_offset"
  /\ loc' = [loc EXCEPT ![t].off = offset]
  /\ pc' = [pc EXCEPT ![t] = "g_cas_offset"]
  /\ UNCHANGED <<used, offset, inuse, ops, held, past, res, freeAll>>

GCasOffset(t) ==
  /\ pc[t] = "g_cas_offset"
  /\ IF offset = loc[t].off
     THEN LET o == (loc[t].off + 1) % Words IN
          /\ offset' = o
          /\ loc' = [loc EXCEPT ![t] = [Loc0 EXCEPT !.off = o, !.i = 0, !.pos = o]]
          /\ pc' = [pc EXCEPT ![t] = "g_load_word"]
     ELSE /\ pc' = [pc EXCEPT ![t] = "g_load_offset"]
          /\ UNCHANGED <<offset, loc>>
  /\ UNCHANGED <<used, inuse, ops, held, past, res, freeAll>>

GLoadWord(t) ==
  /\ pc[t] = "g_load_word"
  /\ LET l == loc[t]
         snap == WordSnap(l.pos) IN
     \* a full word is skipped; otherwise scan from bit 0
     ScanFrom(t, l, snap, IF snap = IdsOfWord(l.pos) THEN Bits ELSE 0)
  /\ UNCHANGED <<used, offset, inuse, ops, past, freeAll>>

GCasWord(t) ==
  /\ pc[t] = "g_cas_word"
  /\ LET l == loc[t]
         id == l.pos * Bits + l.j IN
     IF WordSnap(l.pos) = l.snap
     THEN /\ used' = used \cup {id}
          /\ Mark(id)
          /\ loc' = [loc EXCEPT ![t].id = id]
          /\ pc' = [pc EXCEPT ![t] = "g_add_inuse"]
     ELSE /\ pc' = [pc EXCEPT ![t] = "g_reload_word"]
          /\ UNCHANGED <<used, loc, freeAll>>
  /\ UNCHANGED <<offset, inuse, ops, held, past, res>>

GReloadWord(t) ==
  /\ pc[t] = "g_reload_word"
  /\ LET l == loc[t] IN ScanFrom(t, l, WordSnap(l.pos), l.j)
  /\ UNCHANGED <<used, offset, inuse, ops, past, freeAll>>

GAddInuse(t) ==
  /\ pc[t] = "g_add_inuse"
  /\ inuse' = inuse + 1
  /\ held' = [held EXCEPT ![t] = @ \cup {loc[t].id}]
  /\ res' = [res EXCEPT ![t] = [kind |-> "get_ok", val |-> loc[t].id]]
  /\ pc' = [pc EXCEPT ![t] = "idle"]
  /\ loc' = [loc EXCEPT ![t] = Loc0]
  /\ UNCHANGED <<used, offset, ops, past, freeAll>>

StartClear(t, id) ==
  /\ pc[t] = "idle" /\ ops[t] < MaxOps
  \* under RaceClear every GetStream has finished before the first Clear starts (otherwise a
  \* repeated Clear could hit an id somebody re-acquired, which is the caller's error)
  /\ (RaceClear => \A u \in Threads : pc[u] \in {"idle", "c_load_word", "c_cas_word", "c_reload_word", "c_dec_inuse"})
  /\ \/ id \in held[t]
     \/ DoubleClear /\ id \in past[t]
     \/ RaceClear /\ \E u \in Threads : id \in held[u] \cup past[u]
  /\ pc' = [pc EXCEPT ![t] = "c_load_word"]
  /\ ops' = [ops EXCEPT ![t] = @ + 1]
  \* the logical hold ends when any release path starts (under RaceClear several paths may)
  /\ held' = [u \in Threads |-> IF u = t \/ RaceClear THEN held[u] \ {id} ELSE held[u]]
  /\ past' = [past EXCEPT ![t] = @ \cup {id}]
  /\ loc' = [loc EXCEPT ![t] = [Loc0 EXCEPT !.id = id, !.first = (id \in held[t] /\ ~RaceClear)]]
  /\ res' = [res EXCEPT ![t] = NoRes]
  /\ UNCHANGED <<used, offset, inuse, freeAll>>

ClearFalse(t) ==
  /\ pc' = [pc EXCEPT ![t] = "idle"]
  /\ res' = [res EXCEPT ![t] = [kind |-> "clear_false", val |-> loc[t].id]]
  /\ loc' = [loc EXCEPT ![t] = Loc0]

CLoad(t, here) ==
  /\ pc[t] = here
  /\ LET id == loc[t].id
         snap == WordSnap(WordOf(id)) IN
     IF id \notin snap
     THEN ClearFalse(t)
     ELSE /\ loc' = [loc EXCEPT ![t].snap = snap]
          /\ pc' = [pc EXCEPT ![t] = "c_cas_word"]
          /\ UNCHANGED res
  /\ UNCHANGED <<used, offset, inuse, ops, held, past, freeAll>>

CLoadWord(t) == CLoad(t, "c_load_word")
CReloadWord(t) == CLoad(t, "c_reload_word")

CCasWord(t) ==
  /\ pc[t] = "c_cas_word"
  /\ LET id == loc[t].id IN
     IF WordSnap(WordOf(id)) = loc[t].snap
     THEN /\ used' = used \ {id}
          /\ pc' = [pc EXCEPT ![t] = "c_dec_inuse"]
     ELSE /\ pc' = [pc EXCEPT ![t] = "c_reload_word"]
          /\ UNCHANGED used
  /\ UNCHANGED <<offset, inuse, loc, ops, held, past, res, freeAll>>

CDecInuse(t) ==
  /\ pc[t] = "c_dec_inuse"
  /\ inuse' = inuse - 1
  /\ res' = [res EXCEPT ![t] = [kind |-> "clear_true", val |-> loc[t].id]]
  /\ pc' = [pc EXCEPT ![t] = "idle"]
  /\ loc' = [loc EXCEPT ![t] = Loc0]
  /\ UNCHANGED <<used, offset, ops, held, past, freeAll>>

Step(t) ==
  \/ StartGet(t) \/ GLoadOffset(t) \/ GCasOffset(t) \/ GLoadWord(t) \/ GCasWord(t)
  \/ GReloadWord(t) \/ GAddInuse(t)
  \/ \E id \in Ids : StartClear(t, id)
  \/ CLoadWord(t) \/ CReloadWord(t) \/ CCasWord(t) \/ CDecInuse(t)

Done == \A t \in Threads : pc[t] = "idle" /\ ops[t] = MaxOps
Next == (\E t \in Threads : Step(t)) \/ (Done /\ UNCHANGED vars)

Spec == Init /\ [][Next]_vars /\ \A t \in Threads : WF_vars(Step(t))

-----------------------------------------------------------------------------
(* Ownership: from the successful CAS of GetStream until the successful CAS of  *)
(* Clear (the linearization points).                                            *)
Owned(t) == held[t]
            \cup (IF pc[t] = "g_add_inuse" THEN {loc[t].id} ELSE {})
            \cup (IF pc[t] \in {"c_load_word", "c_cas_word", "c_reload_word"} /\ loc[t].first
                  THEN {loc[t].id} ELSE {})

TypeOK ==
  /\ used \subseteq Ids /\ offset \in 0 .. Words - 1 /\ inuse \in Int
  /\ \A t \in Threads : held[t] \subseteq Ids

\* no id is handed out while it is handed out
Unique == \A t, u \in Threads : t # u => Owned(t) \cap Owned(u) = {}

\* every id handed out is marked in the bitmap (an unmarked held id could be handed out again)
HeldMarked == \A t \in Threads : Owned(t) \subseteq used

\* never the reserved id, never out of range
Range == \A t \in Threads : res[t].kind = "get_ok" => res[t].val \in 1 .. N - 1

Reserved == 0 \in used

\* the counter never goes negative and is exact when nothing is in progress
CountNonNeg == inuse >= 0
Quiescent == \A t \in Threads : pc[t] = "idle"
CountExact == Quiescent => inuse = Cardinality(used) - 1
\* Available() = N - inuse - 1 = number of free ids (at quiescence)
AvailableExact == Quiescent => N - inuse - 1 = Cardinality(Ids \ used)

\* exhaustion is reported only if no id stayed free for the whole call
NoFalseExhaustion == \A t \in Threads : res[t].kind = "get_fail" => freeAll[t] = {}

\* Clear(id) of a held id succeeds exactly once; a repeated Clear reports false
ClearReports ==
  \A t \in Threads :
    /\ (res[t].kind = "clear_true" => res[t].val \in past[t])
    /\ (~DoubleClear /\ ~RaceClear /\ res[t].kind = "clear_false" => FALSE)

\* racing releases of one id: at most one of them reports true (the counter stays exact)
OneTrueRelease ==
  RaceClear => \A id \in Ids : Cardinality({t \in Threads : res[t] = [kind |-> "clear_true", val |-> id]}) <= 1

\* action property: a repeated Clear of an id nobody re-acquired changes nothing
DoubleClearHarmless ==
  [][\A t \in Threads :
       (pc[t] = "c_load_word" /\ loc[t].id \notin used /\ pc'[t] = "idle")
          => (used' = used /\ inuse' = inuse /\ res'[t].kind = "clear_false")]_vars

Terminates == <>[]Done

\* the part of the state the implementation exposes (for the graph walk)
View == <<used, offset, inuse, pc, loc, ops, held, past, res>>
=============================================================================
