--------------------------- MODULE Trace_Prepare ---------------------------
(***************************************************************************)
(* code -> spec for C14: evaluates executions recorded from the real       *)
(* driver against Prepare.tla.                                             *)
(*                                                                         *)
(* The log (NDJSON, one scenario after the other, each opened by an "init" *)
(* line) holds, in one global order:                                       *)
(*   c_hit c_miss c_remove c_evict  the cache's hooks, fired under the     *)
(*                                  cache mutex, attributed to an executor *)
(*                                  through the goroutine that ran them    *)
(*   c_gone                         the LRU's OnEvicted callback: an entry *)
(*                                  left the cache (same critical section) *)
(*   x_send                         a request was registered on a          *)
(*                                  connection by an executor's goroutine  *)
(*                                  or by a goroutine it created (PREPARE) *)
(*   n_prepare n_prep_reply n_execute n_exec_reply n_forget                *)
(*                                  what the scripted nodes saw and did    *)
(*   start e_cancel e_end e_hang    the executors (public API calls)       *)
(*                                                                         *)
(* The monitor is deterministic.  Every event is mapped onto the action of *)
(* Prepare.tla it witnesses, preceded by the unobservable steps of the     *)
(* same executor (the flight's result becoming visible, WaiterWake,        *)
(* CheckArity, an evictPreparedID that found nothing to evict); S is the   *)
(* state of Prepare.tla reconstructed that way.  Where the code does not   *)
(* follow the model the step is recorded as DRIFT and the observed effect  *)
(* is forced onto S (cache events are exact observations); when the        *)
(* observations contradict each other the model-based part is switched off *)
(* (`lost`).  The property is evaluated at every step:                     *)
(*   direct    on the observations alone (ids vs. the connection they are  *)
(*             sent on and the statement of the executor, value counts,    *)
(*             cache size seen by the hooks, a failed entry leaving the    *)
(*             cache, an UNPREPARED id sent again, result metadata)        *)
(*   model     PreparedOnce, FailedNotCached, FailedReported,              *)
(*             ExecAttribution, ArityChecked of Prepare.tla on S           *)
(* A violated property prints MONVIOL, a step mismatch MONDRIFT.           *)
(***************************************************************************)
EXTENDS Prepare, Json, IOUtils, TLCExt

Log == ndJsonDeserialize(IOEnv.VF_TRACE)
TArity == Log[1].arity          \* a record = a function on the statement names (the same in every init line)
TCanc == Nat

VARIABLES l,    \* next line
          X,    \* bookkeeping of the monitor
          out   \* verdict of the last step
tvars == <<S, l, X, out>>

Empty == [plan |-> <<>>, lru |-> <<>>, ent |-> <<>>, fl |-> <<>>, ex |-> <<>>, known |-> <<>>, gen |-> <<>>,
          cnt |-> <<>>, nprep |-> <<>>, nrem |-> <<>>, forgets |-> 0, fails |-> 0]
InitEx == [pc |-> "lookup", idx |-> 1, cur |-> 0, got |-> <<>>, waited |-> {}, unprep |-> NoId, res |-> "none",
           nframes |-> 0, frame |-> NoFrame, started |-> FALSE, rep |-> 0]
X0 == [scn |-> 0, cap |-> 1, pend |-> <<>>, sends |-> <<>>, lost |-> FALSE, ordOK |-> TRUE, over |-> NoKey,
       expect |-> NoKey, expId |-> NoId, canc |-> {}, stamp |-> 0, ust |-> <<>>, unp |-> <<>>, unpn |-> <<>>, kinds |-> <<>>, lostn |-> 0, lean |-> FALSE]
NoUnp == [id |-> NoId, cnt |-> 0]
\* One forgotten statement can legitimately cost an execution TWO UNPREPARED answers in a row (see ExecV), so
\* "the driver prepares again and the query still succeeds" demands at least two re-preparations in a row.  A
\* driver that bounds its retries (conn.go maxReprepare) may hand UNPREPARED to the caller only after more.
MinReprepare == 2
Quiet == [v |-> "", d |-> "", line |-> 0, scn |-> 0, e |-> 0, key |-> NoKey]

TInit == S = Empty /\ l = 1 /\ X = X0 /\ out = Quiet

-----------------------------------------------------------------------------
Has(f, x) == x \in DOMAIN f
Put(f, x, v) == [y \in DOMAIN f \cup {x} |-> IF y = x THEN v ELSE f[y]]
Del(f, x) == [y \in DOMAIN f \ {x} |-> f[y]]
Get(f, x, dflt) == IF x \in DOMAIN f THEN f[x] ELSE dflt

ExtKey(T, k) == IF k \in DOMAIN T.known THEN T ELSE
  [T EXCEPT !.known = Put(@, k, FALSE), !.gen = Put(@, k, 0), !.cnt = Put(@, k, 0),
            !.nprep = Put(@, k, 0), !.nrem = Put(@, k, 0)]
Install(T, e, conn, items) ==
  LET T1 == [T EXCEPT !.plan = Put(@, e, [conn |-> conn, items |-> items]), !.ex = Put(@, e, InitEx)]
      T2 == ExtKey(T1, KeyOf(T1.plan, e, 1))
  IN IF Len(items) >= 2 THEN ExtKey(T2, KeyOf(T1.plan, e, 2)) ELSE T2

\* removal that the property does not license: the entry goes, the removal is not counted
ForceDrop(T, k) == IF InLRU(T, k) THEN [T EXCEPT !.lru = Without(T.lru, k), !.ent = Del(T.ent, k)] ELSE T

\* evictPreparedID that evicted nothing (no hook fires): Get moves the entry to the front
EvictSilent(T, e) ==
  LET k == T.ex[e].unprep.k
      T1 == IF InLRU(T, k) THEN Touch(T, k) ELSE T
  IN [T1 EXCEPT !.ex[e].pc = "lookup", !.ex[e].idx = 1, !.ex[e].got = <<>>]

\* one unobservable step of executor e (or none)
Adv1(T, e) ==
  LET x == T.ex[e] IN
  CASE x.pc = "wait" /\ x.cur # 0 /\ T.fl[x.cur].st = "ok" -> FlightDone(T, x.cur)
    [] x.pc = "wait" /\ x.cur # 0 /\ T.fl[x.cur].st \in {"done_ok", "done_fail"} -> WaiterWake(T, e)
    [] x.pc = "arity" -> CheckArity(T, e)
    [] x.pc = "evict" -> EvictSilent(T, e)
    [] OTHER -> T
RECURSIVE AdvN(_, _, _, _)
AdvN(T, e, pcs, fuel) == IF fuel = 0 \/ T.ex[e].pc \in pcs THEN T ELSE AdvN(Adv1(T, e), e, pcs, fuel - 1)
AdvTo(T, e, pcs) == AdvN(T, e, pcs, 6)

LatestFlight(T, who, sts) ==
  LET F == {f \in Flights(T) : T.fl[f].by = who /\ T.fl[f].st \in sts} IN
  IF F = {} THEN 0 ELSE CHOOSE f \in F : \A g \in F : g <= f

\* the result of one step
Res(T, Y, v, d) == [T |-> T, Y |-> Y, v |-> v, d |-> d]
Lose(T, Y, why) == Res(T, [Y EXCEPT !.lost = TRUE], "", why)

-----------------------------------------------------------------------------
\* checks common to the four cache hooks (they report Len before the operation)
PreV(ev, Y) == IF ev.len > Y.cap THEN "CapExceeded"
               ELSE IF Y.over # NoKey THEN "CapExceeded"     \* the insert before left the cache over its size
               ELSE ""
PreLost(ev, T, Y) == ~ev.kok \/ Y.expect # NoKey \/ ev.len # Len(T.lru)
PreY(Y) == [Y EXCEPT !.over = NoKey, !.expect = NoKey, !.stamp = @ + 1]

OnLookup(ev, T, Y0) ==
  LET e == ev.by
      k == ev.key
      Y == PreY(Y0)
      pv == PreV(ev, Y0)
  IN
  IF PreLost(ev, T, Y0) \/ e = 0 \/ ~(Has(T.ex, e) \/ Has(Y.pend, e))
  THEN Res(T, [Y EXCEPT !.lost = TRUE], pv, "cache-history-inconsistent")
  ELSE
  LET T0 == IF Has(T.ex, e) THEN T ELSE Install(T, e, <<k[1], k[2]>>, Y.pend[e].items)
      \* an evictPreparedID that evicted nothing moved its entry to the front at an unknown moment since
      \* the UNPREPARED answer: if other cache operations happened since, the LRU ORDER is no longer exact
      fuzzy == /\ T0.ex[e].pc = "evict" /\ InLRU(T0, T0.ex[e].unprep.k) /\ T0.lru[1] # T0.ex[e].unprep.k
               /\ Get(Y0.ust, e, -1) # Y0.stamp
      T1 == ExtKey(AdvTo(T0, e, {"lookup"}), k)
      I == {i \in 1 .. Len(Items(T1, e)) : KeyOf(T1.plan, e, i) = k}
      disc == T1.ex[e].pc = "lookup" /\ CurKey(T1, e) = k
      i0 == IF I = {} THEN 0 ELSE CHOOSE i \in I : \A j \in I : i <= j
      T2 == IF disc THEN T1
            ELSE [T1 EXCEPT !.ex[e].pc = "lookup", !.ex[e].idx = IF i0 = 0 THEN 1 ELSE i0,
                            !.ex[e].got = IF i0 = 0 THEN <<>> ELSE SubSeq(@ \o <<NoId, NoId>>, 1, i0 - 1)]
  IN
  IF ~disc /\ i0 = 0 THEN Res(T1, [Y EXCEPT !.lost = TRUE], pv, "lookup-of-a-foreign-key")
  ELSE IF ev.ev = "c_hit" /\ ~InLRU(T2, k) THEN Res(T2, [Y EXCEPT !.lost = TRUE], pv, "cache-tracking-lost")
  ELSE
  \* A miss on a key that IS in the cache (the cache length the hook reports agrees with the history): the code
  \* inserts a second in-flight entry over the first without having looked - lookup and insert are not one
  \* critical section.  The old entry is overwritten (no removal the property licenses), PreparedOnce decides.
  LET over == ev.ev = "c_miss" /\ InLRU(T2, k)
      T3 == Lookup(IF over THEN ForceDrop(T2, k) ELSE T2, e)
      Y1 == [Y EXCEPT !.over = IF Len(T3.lru) > Y.cap THEN k ELSE NoKey,
                      !.ordOK = IF Len(T3.lru) <= 1 THEN TRUE ELSE IF fuzzy THEN FALSE ELSE @]
  IN Res(T3, Y1, pv, IF over THEN "insert-over-existing-entry" ELSE IF disc THEN "" ELSE "lookup-unexpected")

OnGone(ev, T, Y) ==
  LET k == ev.key IN
  IF ~ev.kok THEN Lose(T, Y, "unparsable-key")
  ELSE IF ev.st = "failed" /\ ev.cause # "lru_remove"
       THEN \* a flight whose failure had been published was still cached
            Res(ForceDrop(T, k), [Y EXCEPT !.over = NoKey, !.expect = NoKey, !.lost = TRUE], "FailedNotCached", "")
  ELSE IF ev.cause = "lru_miss" THEN
    IF ~InLRU(T, k) \/ k = T.lru[1] THEN Lose(T, Y, "capacity-eviction-of-an-unknown-entry")
    ELSE LET d == IF Y.over = NoKey THEN "eviction-below-capacity"
                  ELSE IF Y.ordOK /\ k # T.lru[Len(T.lru)] THEN "eviction-not-oldest" ELSE ""
             T1 == Drop(T, k)
         IN Res(T1, [Y EXCEPT !.over = IF Len(T1.lru) > Y.cap THEN @ ELSE NoKey], "", d)
  ELSE IF ev.cause \in {"lru_remove", "lru_evict"} THEN
    IF Y.expect # k THEN Lose(T, [Y EXCEPT !.expect = NoKey], "unexpected-removal")
    ELSE Res(T, [Y EXCEPT !.expect = NoKey, !.expId = NoId], "",
             IF ev.cause = "lru_evict" /\ ev.st = "ok" /\ Y.expId # NoId /\ ev.id # Y.expId THEN "evicted-id-differs" ELSE "")
  ELSE Lose(ForceDrop(T, k), Y, "entry-left-the-cache-outside-the-known-paths")

OnRemove(ev, T, Y0) ==
  LET k == ev.key
      Y == PreY(Y0)
      pv == PreV(ev, Y0)
      f == LatestFlight(T, ev.by, {"new", "sent", "ok", "fail"})
  IN
  IF PreLost(ev, T, Y0) THEN Res(T, [Y EXCEPT !.lost = TRUE], pv, "cache-history-inconsistent")
  ELSE IF ev.by = 0 \/ f = 0 \/ T.fl[f].key # k
  THEN Res(ForceDrop(T, k), [Y EXCEPT !.expect = IF InLRU(T, k) THEN k ELSE NoKey], pv, "remove-by-unknown-flight")
  ELSE IF T.fl[f].st = "ok" /\ Y.lostn = 0
  THEN \* the node answered OK, yet the entry is removed: not a removal the property licenses
       \* (unless a connection was killed / requests time out in this scenario: then the answer may never have arrived)
       Res(ForceDrop(T, k), [Y EXCEPT !.expect = IF InLRU(T, k) THEN k ELSE NoKey], pv, "remove-after-successful-prepare")
  ELSE LET T1 == IF T.fl[f].st = "fail" THEN T ELSE [T EXCEPT !.fl[f].st = "fail"]   \* failed locally (no answer)
       IN Res(FlightDone(T1, f), [Y EXCEPT !.expect = IF InLRU(T, k) THEN k ELSE NoKey], pv, "")

OnEvict(ev, T, Y0) ==
  LET k == ev.key
      e == ev.by
      Y == PreY(Y0)
      pv == PreV(ev, Y0)
  IN
  IF PreLost(ev, T, Y0) \/ ~InLRU(T, k) THEN Res(T, [Y EXCEPT !.lost = TRUE], pv, "cache-history-inconsistent")
  ELSE
  LET f == T.ent[k]
      T0 == IF T.fl[f].st = "ok" THEN FlightDone(T, f) ELSE T
      known == e # 0 /\ Has(T0.ex, e) /\ EvictEn(T0, e)
      legit == known /\ T0.ex[e].unprep.k = k /\ EvictRemoves(T0, e)
      Y1 == [Y EXCEPT !.expect = k, !.expId = T0.fl[f].id]
  IN IF legit THEN Res(Evict(T0, e), Y1, pv, "")
     ELSE LET T1 == ForceDrop(T0, k)
              T2 == IF known THEN [T1 EXCEPT !.ex[e].pc = "lookup", !.ex[e].idx = 1, !.ex[e].got = <<>>] ELSE T1
          IN Res(T2, Y1, pv, "evict-without-matching-id")

OnSend(ev, T, Y) ==
  LET who == IF ev.par # 0 THEN ev.par ELSE ev.own
      f == LatestFlight(T, who, {"new"})
      mine == ev.par # 0 \/ (Has(T.ex, who) /\ T.ex[who].pc = "wait" /\ T.ex[who].cur = f)
  IN IF f # 0 /\ mine THEN Res(T, [Y EXCEPT !.sends = Put(@, <<ev.wire, ev.stream>>, f)], "", "")
     ELSE Res(T, Y, "", "")

OnPrepare(ev, T0, Y) ==
  LET k == ev.key
      T == ExtKey(T0, k)
      w == <<ev.wire, ev.stream>>
      f == Get(Y.sends, w, 0)
  IN IF f # 0 /\ T.fl[f].st = "new" /\ T.fl[f].key = k THEN Res(SendPrepare(T, f), Y, "", "")
     ELSE IF f # 0 /\ T.fl[f].key = k /\ T.fl[f].st \in {"fail", "done_fail"}
     THEN \* the node logs a frame after it has read it: the driver may already have given the PREPARE up
          \* (connection killed right after the frame was read)
          Res([T EXCEPT !.nprep[k] = @ + 1], Y, "", "")
     ELSE \* a PREPARE no single-flight entry accounts for: it counts all the same
          Res([T EXCEPT !.nprep[k] = @ + 1], Y, "", "prepare-unattributed")

OnPrepReply(ev, T, Y) ==
  LET w == <<ev.wire, ev.stream>>
      f == Get(Y.sends, w, 0)
      Y1 == [Y EXCEPT !.sends = Del(@, w)]
  IN IF f # 0 /\ T.fl[f].st \in {"fail", "done_fail"}
     THEN \* an answer to a PREPARE the driver has already given up (timeout, connection lost): only the node changed
          IF ~ev.ok THEN Res(T, Y1, "", "")
          ELSE LET T1 == NodePrepareOk([T EXCEPT !.fl[f].st = "sent"], f)
               IN Res([T1 EXCEPT !.fl[f] = T.fl[f]], Y1, "", "")
     ELSE IF f = 0 \/ T.fl[f].st # "sent" THEN Res(T, Y1, "", "prepare-answer-unattributed")
     ELSE IF ~ev.ok THEN Res(NodePrepareFail(T, f), Y1, "", "")
     ELSE LET T1 == NodePrepareOk(T, f)
              m == T1.fl[f].id
          IN IF ev.id.k = m.k /\ ev.id.g = m.g /\ ev.id.n \in {0, m.n}
             THEN Res([T1 EXCEPT !.fl[f].id = ev.id], Y1, "", "")
             ELSE Lose(T1, Y1, "node-differs-from-model-node")

\* direct checks on an EXECUTE / BATCH frame
ExecV(ev, its, Y) ==
  LET e == ev.e
      n == Len(ev.ids)
  IN IF ~ev.idsok THEN "ExecUnknownId"
     ELSE IF \E i \in 1 .. n : ev.ids[i].k[1] # ev.at[1] THEN "ExecForeignHost"
     ELSE IF \E i \in 1 .. n : ev.ids[i].k[2] # ev.at[2] THEN "ExecForeignKeyspace"
     ELSE IF n # Len(its) \/ \E i \in 1 .. n : ev.ids[i].k[3] # its[i].s THEN "ExecWrongStatement"
     ELSE IF \E i \in 1 .. n : ev.nvals[i] # TArity[its[i].s] THEN "ArityNotChecked"
     \* An id rejected as UNPREPARED may legitimately be sent ONCE more: evictPreparedID leaves an entry that is
     \* still in flight alone, the executor joins that flight, and its PREPARE may have been answered before the
     \* node forgot (same id when the node issues one id per generation).  By the second rejection that flight
     \* is finished and is evicted, so a THIRD send of the id means the driver does not prepare again.
     ELSE IF Get(Y.unp, e, NoUnp).cnt >= 2 /\ \E i \in 1 .. n : ev.ids[i] = Y.unp[e].id THEN "UnpreparedNotReprepared"
     ELSE ""

OnExecute(ev, T, Y) ==
  LET e == ev.e IN
  IF e = 0 \/ ~Has(Y.pend, e) THEN Res(T, Y, "", "execute-unattributed")
  ELSE
  LET v == ExecV(ev, Y.pend[e].items, Y)
      n == Len(ev.ids)
      fr == [ids |-> ev.ids, nvals |-> ev.nvals, meta |-> [i \in 1 .. n |-> ev.ids[i].k[3]]]
  IN IF Y.lost THEN Res(T, Y, v, "")
     ELSE IF ~Has(T.ex, e) THEN Res(T, Y, v, "execute-before-any-lookup")
     ELSE IF T.ex[e].pc = "done" /\ T.ex[e].res = "err_ctx"
          THEN \* written before the caller's context ended, read by the node after the caller returned
               Res([T EXCEPT !.ex[e].nframes = @ + 1, !.ex[e].frame = fr], Y, v, "")
     ELSE LET T1 == AdvTo(T, e, {"send"})
              disc == T1.ex[e].pc = "send"
              T2 == IF disc THEN SendExecute(T1, e)
                    ELSE [T1 EXCEPT !.ex[e].pc = "awaitexec", !.ex[e].nframes = @ + 1]
          IN Res([T2 EXCEPT !.ex[e].frame = fr], Y, v, IF disc THEN "" ELSE "execute-unexpected")

OnExecReply(ev, T, Y) ==
  LET e == ev.e
      old == Get(Y.unp, e, NoUnp)
      Y1 == [Y EXCEPT !.unp = Put(@, e, IF ev.kind # "unprepared" THEN NoUnp
                                        ELSE IF old.id = ev.id THEN [id |-> ev.id, cnt |-> old.cnt + 1]
                                        ELSE [id |-> ev.id, cnt |-> 1]),
                      !.unpn = Put(@, e, IF ev.kind = "unprepared" THEN Get(Y.unpn, e, 0) + 1 ELSE 0),
                      !.ust = Put(@, e, Y.stamp)]
  IN IF e = 0 \/ ~Has(T.ex, e) \/ Y.lost THEN Res(T, Y1, "", "")
     ELSE IF ev.kind = "error" THEN Res(T, Y1, "", "livelock-guard-of-the-node")
     ELSE IF T.ex[e].pc = "done" /\ T.ex[e].res = "err_ctx" THEN Res(T, Y1, "", "")   \* answer to a caller that has left
     ELSE IF ~NodeExecuteEn(T, e) THEN Res(T, Y1, "", "execute-answer-unexpected")
     ELSE LET T1 == NodeExecute(T, e)
              same == IF ev.kind = "rows" THEN T1.ex[e].pc = "done"
                      ELSE T1.ex[e].pc = "evict" /\ T1.ex[e].unprep = ev.id
          IN IF same THEN Res(T1, Y1, "", "") ELSE Lose(T1, Y1, "node-differs-from-model-node")

OnForget(ev, T0, Y) ==
  LET T == ExtKey(T0, ev.key) IN
  IF T.known[ev.key] THEN Res(Forget(T, ev.key), Y, "", "") ELSE Res(T, Y, "", "forget-of-unknown-statement")

Finish(T, e, res) == [T EXCEPT !.ex[e].pc = "done", !.ex[e].res = res]

OnEnd(ev, T, Y) ==
  LET e == ev.e
      gaveUp == ev.cls = "unprepared" /\ Get(Y.unpn, e, 0) > MinReprepare
      direct == CASE ev.cls = "unprepared" /\ ~gaveUp -> "UnpreparedNotRecovered"
                  [] ev.cls = "panic" -> "Panic"
                  [] OTHER -> ""
  IN
  IF Y.lost THEN Res(T, Y, direct, "")
  ELSE IF ~Has(T.ex, e) THEN Res(T, Y, direct,
                            IF ev.cls \in {"ctx", "closed", "timeout"} THEN "" ELSE "executor-ended-without-a-lookup")
  ELSE
  LET x == T.ex[e]
      kind == Get(Y.kinds, e, "query")
  IN
  CASE ev.cls = "ok" ->
         LET metaBad == kind = "query" /\ x.nframes > 0 /\ ev.meta # x.frame.ids[1] IN
         IF x.pc = "done" /\ x.res = "ok" THEN Res(T, Y, IF metaBad THEN "ResultMetaMismatch" ELSE direct, "")
         ELSE Res(Finish(T, e, "ok"), Y, IF metaBad THEN "ResultMetaMismatch" ELSE direct, "success-unexpected")
    [] ev.cls \in {"prepare", "timeout", "closed", "garbled"} ->
         IF x.pc = "wait" /\ x.cur # 0 /\ T.fl[x.cur].st \in {"fail", "done_fail"}
         THEN \* the error was delivered, so the flight is published - whether or not remove() was seen
              LET T0 == IF T.fl[x.cur].st = "fail" THEN [T EXCEPT !.fl[x.cur].st = "done_fail"] ELSE T
              IN Res(WaiterWake(T0, e), Y, direct, IF T.fl[x.cur].st = "fail" THEN "published-without-remove" ELSE "")
         ELSE IF ev.cls \in {"timeout", "closed"} /\ Y.lostn > 0
         THEN Res(Finish(T, e, "err_ctx"), Y, direct, "")   \* collateral of a killed connection / short timeout
         ELSE Res(Finish(T, e, "err_prepare"), Y, direct, "prepare-error-unexplained-" \o ev.cls)
    [] ev.cls = "prepared" ->   \* prepare-only executor (burst driver): prepareStatement returned the flight's result
         LET T1 == AdvTo(T, e, {"arity", "done"}) IN
         IF T1.ex[e].pc = "arity" THEN Res(Finish(T1, e, "ok"), Y, direct, "")
         ELSE Res(Finish(T1, e, "ok"), Y, direct, "prepared-unexpected")
    [] ev.cls = "arity" ->
         LET T1 == AdvTo(T, e, {"done", "lookup", "send"}) IN
         IF T1.ex[e].pc = "done" /\ T1.ex[e].res = "err_arity" THEN Res(T1, Y, direct, "")
         ELSE Res(Finish(T1, e, "err_arity"), Y, direct, "arity-error-unexpected")
    [] ev.cls = "ctx" ->
         Res(Finish(T, e, "err_ctx"), Y, direct, IF e \in Y.canc THEN "" ELSE "context-error-without-cancel")
    [] gaveUp -> Res(Finish(T, e, "err_unprepared"), Y, direct, "")   \* bounded retries exhausted
    [] OTHER -> Res(Finish(T, e, "err_ctx"), Y, direct, "executor-error-" \o ev.cls)

OnHang(ev, T, Y) ==
  LET e == ev.e IN
  IF Has(T.ex, e) /\ ~Y.lost /\ T.ex[e].pc = "wait" /\ T.ex[e].cur # 0
     /\ T.fl[T.ex[e].cur].st \in {"ok", "fail", "done_ok", "done_fail"}
  THEN Res(T, Y, "PrepareWaiterNeverReturns", "")
  ELSE Res(T, Y, "", "executor-did-not-return")

OnFinal(ev, T, Y) ==
  IF Y.lost THEN Res(T, Y, IF ev.len > Y.cap THEN "CapExceeded" ELSE "", "")
  ELSE Res(T, Y, IF ev.len > Y.cap \/ Y.over # NoKey THEN "CapExceeded" ELSE "",
           IF ev.len # Len(T.lru) THEN "cache-history-inconsistent" ELSE "")

\* Lean scenarios (burst driver): only misses, removals and the PREPAREs the node received are logged - exactly
\* what PreparedOnce speaks about.  Every entry that leaves the cache counts as a removal (a superset of the
\* removals the property licenses, so this cannot alarm falsely); hits are not logged.
LeanStep(ev, T, Y) ==
  CASE ev.ev = "c_miss" ->
         LET k == ev.key
             T1 == ExtKey(T, k)
             over == InLRU(T1, k)
             T2 == IF over THEN ForceDrop(T1, k) ELSE T1
             f == Len(T2.fl) + 1
             T3 == [T2 EXCEPT !.lru = <<k>> \o @, !.ent = Put(@, k, f),
                              !.fl = Append(@, [key |-> k, by |-> 0, st |-> "sent", id |-> NoId])]
         IN IF ~ev.kok \/ ev.len # Len(T.lru) THEN Res(T, [Y EXCEPT !.lost = TRUE], PreV(ev, Y), "cache-history-inconsistent")
            ELSE Res(T3, [PreY(Y) EXCEPT !.over = IF Len(T3.lru) > Y.cap THEN k ELSE NoKey], PreV(ev, Y),
                     IF over THEN "insert-over-existing-entry" ELSE "")
    [] ev.ev = "c_gone" ->
         IF ev.kok /\ InLRU(T, ev.key) THEN Res(Drop(T, ev.key), [Y EXCEPT !.over = NoKey], "", "")
         ELSE Lose(T, Y, "cache-history-inconsistent")
    [] ev.ev = "n_prepare" -> LET T1 == ExtKey(T, ev.key) IN Res([T1 EXCEPT !.nprep[ev.key] = @ + 1], Y, "", "")
    [] ev.ev = "end" -> OnFinal(ev, T, Y)
    [] ev.ev = "e_hang" -> Res(T, Y, "", "executor-did-not-return")
    [] OTHER -> Res(T, Y, "", "")

StepOf(ev, T, Y) ==
  CASE Y.lean -> LeanStep(ev, T, Y)
    [] ev.ev = "start" -> Res(T, [Y EXCEPT !.pend = Put(@, ev.e, [items |-> ev.items]), !.kinds = Put(@, ev.e, ev.kind)], "", "")
    [] ev.ev = "e_cancel" -> Res(T, [Y EXCEPT !.canc = @ \cup {ev.e}], "", "")
    \* a binding callback (Session.Bind / Batch.Bind) was handed prepared metadata: it must be an id and the
    \* bind markers of THAT statement
    [] ev.ev = "e_bound" -> Res(T, Y, IF ~ev.idok \/ ev.id.k[3] # ev.s \/ ev.nargs # TArity[ev.s]
                                       THEN "BindMetaMismatch" ELSE "", "")
    [] ev.ev = "n_execute" -> OnExecute(ev, T, Y)
    [] ev.ev = "n_exec_reply" -> OnExecReply(ev, T, Y)
    [] ev.ev = "e_end" -> OnEnd(ev, T, Y)
    [] ev.ev = "e_hang" -> OnHang(ev, T, Y)
    [] ev.ev = "end" -> OnFinal(ev, T, Y)
    [] ev.ev = "c_gone" /\ ev.st = "failed" /\ ev.cause # "lru_remove" -> OnGone(ev, T, Y)
    [] ev.ev \in {"c_hit", "c_miss", "c_remove", "c_evict"} /\ Y.lost ->
         Res(T, Y, IF ev.len > Y.cap THEN "CapExceeded" ELSE "", "")
    [] Y.lost -> Res(T, Y, "", "")
    [] ev.ev \in {"c_hit", "c_miss"} -> OnLookup(ev, T, Y)
    [] ev.ev = "c_gone" -> OnGone(ev, T, Y)
    [] ev.ev = "c_remove" -> OnRemove(ev, T, Y)
    [] ev.ev = "c_evict" -> OnEvict(ev, T, Y)
    [] ev.ev = "x_send" -> OnSend(ev, T, Y)
    [] ev.ev = "n_prepare" -> OnPrepare(ev, T, Y)
    [] ev.ev = "n_prep_reply" -> OnPrepReply(ev, T, Y)
    [] ev.ev = "n_forget" -> OnForget(ev, T, Y)
    \* the node lets a PREPARE go unanswered / kills the connection: the flight stays "sent" until the driver
    \* gives it up (remove(key) without an answer = failed locally); other requests of the scenario may be hit too
    [] ev.ev = "n_prep_lost" -> Res(T, [Y EXCEPT !.lostn = @ + 1], "", "")
    [] OTHER -> Res(T, Y, "", "unknown-event")

\* model-based part of the property, evaluated on the state after the step; only what is NEWLY false
\* (only the executor and the key the event is about can change the truth of their clauses; quantifying over
\* all of them at every step made long scenarios quadratic)
ModelV(T0, T1, e0, k0) ==
  LET ES == IF e0 \in EX(T1) THEN {e0} ELSE {}
      KS == IF k0 \in DOMAIN T1.nprep THEN {k0} ELSE {}
  IN
  CASE \E k \in KS : ~PreparedOnceK(T1, k) /\ (k \notin DOMAIN T0.nprep \/ PreparedOnceK(T0, k)) -> "PreparedOnce"
    [] ~FailedNotCachedT(T1) /\ FailedNotCachedT(T0) -> "FailedNotCached"
    [] \E e \in ES : ~FailedReportedE(T1, e) /\ (e \notin EX(T0) \/ FailedReportedE(T0, e)) -> "FailedReported"
    [] \E e \in ES : ~ExecAttributionE(T1, e) /\ (e \notin EX(T0) \/ ExecAttributionE(T0, e) \/ T0.ex[e].nframes # T1.ex[e].nframes)
         -> "ExecAttribution"
    [] \E e \in ES : ~ArityCheckedE(T1, e) /\ (e \notin EX(T0) \/ ArityCheckedE(T0, e)) -> "ArityChecked"
    [] OTHER -> ""

EvKey(ev) == IF "key" \in DOMAIN ev THEN ev.key ELSE NoKey
EvE(ev) == IF "e" \in DOMAIN ev THEN ev.e ELSE IF "by" \in DOMAIN ev THEN ev.by ELSE 0

TNext ==
  /\ l <= Len(Log)
  /\ l' = l + 1
  /\ LET ev == Log[l] IN
     IF ev.ev = "init"
     THEN /\ S' = Empty
          /\ X' = [X0 EXCEPT !.scn = ev.scn, !.cap = ev.cap, !.lean = ("lean" \in DOMAIN ev /\ ev.lean),
                               \* a scenario that runs with the short driver timeout may lose any request to it
                               !.lostn = IF "lost" \in DOMAIN ev /\ ev.lost = "silent" THEN 1 ELSE 0]
          /\ out' = Quiet
     ELSE LET R == StepOf(ev, S, X)
              mv == IF R.Y.lost \/ R.v # "" THEN "" ELSE ModelV(S, R.T, EvE(ev), EvKey(ev))
          IN /\ S' = R.T
             /\ X' = R.Y
             /\ out' = [v |-> IF R.v # "" THEN R.v ELSE mv, d |-> R.d, line |-> l, scn |-> X.scn,
                        e |-> EvE(ev), key |-> EvKey(ev)]
TSpec == TInit /\ [][TNext]_tvars

Report == /\ out.v # "" => PrintT(<<"MONVIOL", ToJson(out)>>)
          /\ out.d # "" => PrintT(<<"MONDRIFT", ToJson(out)>>)
Finished == l > Len(Log) => PrintT(<<"MONDONE", l - 1>>)
=============================================================================
