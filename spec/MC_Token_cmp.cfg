INIT InitCmp
NEXT Next
INVARIANT EmitCmp
CHECK_DEADLOCK FALSE
