SPECIFICATION SpecDump
CONSTANTS
  MaxE = 3
  Configs <- CfgSeq
  KeepHist = TRUE
  GateAtomic = TRUE
  NonIdemRetry = FALSE
  Defect_WaitResultsOnly = FALSE
INVARIANTS NoViolation EmitCase
