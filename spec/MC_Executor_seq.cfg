SPECIFICATION SpecDump
CONSTANTS
  MaxE = 3
  Configs <- CfgSeq
  KeepHist = TRUE
  GateAtomic = TRUE
  NonIdemRetry = FALSE
INVARIANTS NoViolation EmitCase
