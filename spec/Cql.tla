--------------------------------- MODULE Cql ---------------------------------
(***************************************************************************)
(* Reference definition of the CQL value encodings (native protocol v1-v5, *)
(* section "Data type serialization formats" / Cassandra's serializers)    *)
(* and of the conversion tables documented on gocql.Marshal / Unmarshal.   *)
(* Written from the protocol text, not from marshal.go.                    *)
(*                                                                         *)
(* Types      [t |-> "int"] ... ; [t |-> "list"|"set", e |-> T] ;          *)
(*            [t |-> "map", kt |-> T, vt |-> T] ;                          *)
(*            [t |-> "tuple"|"udt", es |-> <<T, ...>>]                     *)
(* Values     tagged records (JSON friendly):                              *)
(*   [k |-> "null"]                         CQL null / Go nil              *)
(*   [k |-> "empty"]                        the zero-length non-null value *)
(*   [k |-> "int", neg, m]                  integer (BigNum)               *)
(*   [k |-> "bytes", b]                     text / blob / uuid / inet /    *)
(*                                          IEEE-754 bit pattern           *)
(*   [k |-> "bool", v]                                                     *)
(*   [k |-> "dec", scale, unscaled]         both "int" values              *)
(*   [k |-> "dur", mo, d, ns]               three "int" values             *)
(*   [k |-> "list", es]                     list, set (in wire order)      *)
(*   [k |-> "map", ps]  ps[i] = [key, val]                                 *)
(*   [k |-> "tuple", es]                    tuple and UDT (field order)    *)
(*   [k |-> "err"]                          no such value                  *)
(* Encoded    [st |-> "ok"|"null"|"err", b |-> bytes]                      *)
(* Go kinds   [g |-> "int32"] ... ; [g |-> "ptr"|"slice"|"array"|"setmap", *)
(*            e |-> K] ; [g |-> "map", kk, vk] ;                           *)
(*            [g |-> "struct"|"ifaces"|"udtmap", es |-> <<K, ...>>] ;      *)
(*            [g |-> "nil"] (untyped nil)                                  *)
(***************************************************************************)
EXTENDS BigNum, FiniteSets

\* ------------------------------------------------------------ constructors
ROk(b) == [st |-> "ok", b |-> b]
RNull == [st |-> "null", b |-> <<>>]
RErr == [st |-> "err", b |-> <<>>]
OfB(b) == IF b = BnErr THEN RErr ELSE ROk(b)

VNull == [k |-> "null"]
VEmpty == [k |-> "empty"]
VErr == [k |-> "err"]
VInt(x) == [k |-> "int", neg |-> x.neg, m |-> x.m]
VI(n) == VInt(FromInt(n))
BigOf(v) == [neg |-> v.neg, m |-> v.m]
VBytes(b) == [k |-> "bytes", b |-> b]
VBool(b) == [k |-> "bool", v |-> b]
VDec(scale, unscaled) == [k |-> "dec", scale |-> VInt(scale), unscaled |-> VInt(unscaled)]
VDur(mo, d, ns) == [k |-> "dur", mo |-> VInt(mo), d |-> VInt(d), ns |-> VInt(ns)]
VList(es) == [k |-> "list", es |-> es]
VMap(ps) == [k |-> "map", ps |-> ps]
VTuple(es) == [k |-> "tuple", es |-> es]
KV(a, b) == [key |-> a, val |-> b]

NT(name) == [t |-> name]
TList(e) == [t |-> "list", e |-> e]
TSet(e) == [t |-> "set", e |-> e]
TMap(a, b) == [t |-> "map", kt |-> a, vt |-> b]
TTuple(es) == [t |-> "tuple", es |-> es]
TUdt(es) == [t |-> "udt", es |-> es]

KK(name) == [g |-> name]
KPtr(e) == [g |-> "ptr", e |-> e]
KSlice(e) == [g |-> "slice", e |-> e]
KArray(e, n) == [g |-> "array", e |-> e, n |-> n]
KSetMap(e) == [g |-> "setmap", e |-> e]
KMap(a, b) == [g |-> "map", kk |-> a, vk |-> b]
KStruct(es) == [g |-> "struct", es |-> es]
KIfaces(es) == [g |-> "ifaces", es |-> es]
KUdtMap(es) == [g |-> "udtmap", es |-> es]
\* decode target for a UDT: a struct with Len(ix) fields, field j receiving UDT field ix[j] (any subset, any order);
\* matched by cql tag, or by field name when byname.  UDT fields the struct lacks are skipped by the decoder.
KPStruct(es, ix, byname) == [g |-> "pstruct", es |-> es, ix |-> ix, byname |-> byname]

SeqAny(s, P(_)) == \E i \in 1 .. Len(s) : P(s[i])
IsErr(v) == v.k = "err"
Cat(parts) ==             \* concatenation of byte strings, BnErr if any part is BnErr
  IF \E i \in 1 .. Len(parts) : parts[i] = BnErr THEN BnErr
  ELSE LET RECURSIVE G(_)
           G(i) == IF i > Len(parts) THEN <<>> ELSE parts[i] \o G(i + 1)
       IN G(1)

\* ------------------------------------------------------------ type classes
FixedIntTypes == {"tinyint", "smallint", "int", "bigint", "counter"}
Width(t) == CASE t = "tinyint" -> 1 [] t = "smallint" -> 2 [] t = "int" -> 4
              [] t \in {"bigint", "counter", "time", "timestamp", "double"} -> 8 [] t = "float" -> 4
TextTypes == {"ascii", "text", "varchar", "blob"}
UuidTypes == {"uuid", "timeuuid"}

\* ------------------------------------------------------------ vint (Cassandra VIntCoding) and zig-zag
ZigZag(x) == IF x.neg THEN BSub(BMulSmall(BAbs(x), 2), One) ELSE BMulSmall(x, 2)
UnZigZag(u) == IF BFloorMod(u, 2) = 0 THEN BFloorDiv(u, 2) ELSE BNeg(BFloorDiv(BAdd(u, One), 2))
\* n bytes carry 7n payload bits for n <= 8; the 9-byte form carries 64
VIntSize(u) == LET bl == MBitLen(u.m) IN IF bl <= 7 THEN 1 ELSE IF bl > 56 THEN 9 ELSE (bl + 6) \div 7
LeadOnesMask(e) == 256 - P2(8 - e)        \* e leading one-bits, e in 0..8
EncVInt(u) ==
  LET n == VIntSize(u) IN
  IF n = 9 THEN <<255>> \o MPad(u.m, 8)
  ELSE LET p == MPad(u.m, n) IN <<p[1] + LeadOnesMask(n - 1)>> \o SubSeq(p, 2, n)
LeadingOnes(b) == IF b < 128 THEN 0 ELSE IF b < 192 THEN 1 ELSE IF b < 224 THEN 2 ELSE IF b < 240 THEN 3 ELSE IF b < 248 THEN 4
                  ELSE IF b < 252 THEN 5 ELSE IF b < 254 THEN 6 ELSE IF b < 255 THEN 7 ELSE 8
\* <<value, next position>>; next position 0 means malformed
DecVInt(b, pos) ==
  IF pos > Len(b) THEN <<BZero, 0>>
  ELSE LET e == LeadingOnes(b[pos]) IN
       IF pos + e > Len(b) THEN <<BZero, 0>>
       ELSE <<Mk(FALSE, <<b[pos] % P2(8 - e)>> \o SubSeq(b, pos + 1, pos + e)), pos + e + 1>>
EncSVInt(x) == EncVInt(ZigZag(x))

\* ------------------------------------------------------------ collection framing
\* element count / element length: [short] (unsigned) for protocol <= 2, [int] for >= 3
LenBytes(n, p) ==
  IF p <= 2 THEN (IF n < 0 \/ n > 65535 THEN BnErr ELSE <<n \div 256, n % 256>>)
  ELSE IF n < 0 THEN <<255, 255, 255, 255>> ELSE TC(FromInt(n), 4)
\* Size facts of the two framings (stated here because values of 65536 elements / bytes are too big to be
\* enumerated as TLC values): a count or a length n has a representation iff SizeEncodable(n, p); beyond that Enc is
\* undefined and Marshal must refuse - a length written modulo 2^16 denotes another value.
ShortMax == 65535
SizeWidth(p) == IF p <= 2 THEN 2 ELSE 4
SizeEncodable(n, p) == n >= 0 /\ (p > 2 \/ n <= ShortMax)
ASSUME \A p \in 1 .. 5 : \A n \in {0, 1, 255, 256, 65535, 65536, 65537, 70000, 131072} :
         /\ (LenBytes(n, p) # BnErr) = SizeEncodable(n, p)
         /\ (SizeEncodable(n, p) => Len(LenBytes(n, p)) = SizeWidth(p))
ASSUME LenBytes(65535, 2) = <<255, 255>> /\ LenBytes(65536, 2) = BnErr /\ LenBytes(65536, 3) = <<0, 1, 0, 0>> /\ LenBytes(70000, 4) = <<0, 1, 17, 112>>
\* an encoded element inside a list / set / map: protocol <= 2 has no representation for null
Framed(r, p) ==
  IF r.st = "err" THEN BnErr
  ELSE IF r.st = "null" THEN (IF p <= 2 THEN BnErr ELSE <<255, 255, 255, 255>>)
  ELSE Cat(<<LenBytes(Len(r.b), p), r.b>>)
\* a tuple / UDT field: always [int] length, -1 for null
FramedInt(r) ==
  IF r.st = "err" THEN BnErr
  ELSE IF r.st = "null" THEN <<255, 255, 255, 255>>
  ELSE Cat(<<TC(FromInt(Len(r.b)), 4), r.b>>)
\* <<n, next position>> ; next position 0 = malformed
ReadLen(b, pos, p) ==
  IF p <= 2 THEN (IF pos + 1 > Len(b) THEN <<0, 0>> ELSE <<b[pos] * 256 + b[pos + 1], pos + 2>>)
  ELSE IF pos + 3 > Len(b) THEN <<0, 0>>
  ELSE <<(IF b[pos] >= 128 THEN b[pos] - 256 ELSE b[pos]) * 16777216 + b[pos + 1] * 65536 + b[pos + 2] * 256 + b[pos + 3], pos + 4>>

\* ------------------------------------------------------------ Enc
NormIP(b) == IF Len(b) = 16 /\ SubSeq(b, 1, 12) = <<0, 0, 0, 0, 0, 0, 0, 0, 0, 0, 255, 255>> THEN SubSeq(b, 13, 16) ELSE b
IsMappedIP(b) == Len(b) = 16 /\ NormIP(b) # b

RECURSIVE Enc(_, _, _)
Enc(T, v, p) ==
  IF v.k = "null" THEN RNull
  ELSE IF v.k = "err" THEN RErr
  ELSE IF v.k = "empty" THEN ROk(<<>>)
  ELSE LET t == T.t IN
  CASE t \in FixedIntTypes \cup {"time", "timestamp"} ->
         IF v.k # "int" THEN RErr ELSE OfB(TC(BigOf(v), Width(t)))
    [] t = "varint" -> IF v.k # "int" THEN RErr ELSE ROk(MinTC(BigOf(v)))
    [] t = "date" ->       \* v = days relative to 1970-01-01; wire = unsigned, 2^31 is the epoch
         IF v.k # "int" THEN RErr ELSE OfB(UBytes(BAdd(BigOf(v), Pow2(31)), 4))
    [] t \in {"float", "double"} -> IF v.k = "bytes" /\ Len(v.b) = Width(t) THEN ROk(v.b) ELSE RErr
    [] t = "boolean" -> IF v.k # "bool" THEN RErr ELSE ROk(IF v.v THEN <<1>> ELSE <<0>>)
    [] t \in TextTypes -> IF v.k # "bytes" THEN RErr ELSE ROk(v.b)
    [] t \in UuidTypes -> IF v.k = "bytes" /\ Len(v.b) = 16 THEN ROk(v.b) ELSE RErr
    [] t = "inet" -> IF v.k = "bytes" /\ Len(v.b) \in {4, 16} THEN ROk(v.b) ELSE RErr
    [] t = "decimal" ->
         IF v.k # "dec" THEN RErr ELSE OfB(Cat(<<TC(BigOf(v.scale), 4), MinTC(BigOf(v.unscaled))>>))
    [] t = "duration" ->
         IF v.k # "dur" \/ ~FitsS(BigOf(v.mo), 32) \/ ~FitsS(BigOf(v.d), 32) \/ ~FitsS(BigOf(v.ns), 64) THEN RErr
         ELSE ROk(EncSVInt(BigOf(v.mo)) \o EncSVInt(BigOf(v.d)) \o EncSVInt(BigOf(v.ns)))
    [] t \in {"list", "set"} ->
         IF v.k # "list" THEN RErr
         ELSE OfB(Cat(<<LenBytes(Len(v.es), p)>> \o [i \in 1 .. Len(v.es) |-> Framed(Enc(T.e, v.es[i], p), p)]))
    [] t = "map" ->
         IF v.k # "map" THEN RErr
         ELSE OfB(Cat(<<LenBytes(Len(v.ps), p)>> \o
                      [i \in 1 .. Len(v.ps) |-> Cat(<<Framed(Enc(T.kt, v.ps[i].key, p), p), Framed(Enc(T.vt, v.ps[i].val, p), p)>>)]))
    [] t \in {"tuple", "udt"} ->
         \* "A UDT value will generally have one value for each field of the type it represents, but it is allowed to
         \* have less values than the type has fields" (native protocol, UDT): absent trailing fields are null
         IF v.k # "tuple" \/ Len(v.es) > Len(T.es) \/ (t = "tuple" /\ Len(v.es) # Len(T.es)) THEN RErr
         ELSE OfB(Cat([i \in 1 .. Len(v.es) |-> FramedInt(Enc(T.es[i], v.es[i], p))]))
    [] OTHER -> RErr

\* the same column value with the trailing null fields of every UDT value left out (what a server sends for rows
\* written before ALTER TYPE ... ADD); EncShort is a second specification-conformant encoding of v
RECURSIVE TrimUdt(_, _)
TrimUdt(T, v) ==
  LET t == T.t IN
  IF v.k = "list" /\ t \in {"list", "set"} THEN VList([i \in 1 .. Len(v.es) |-> TrimUdt(T.e, v.es[i])])
  ELSE IF v.k = "map" /\ t = "map" THEN VMap([i \in 1 .. Len(v.ps) |-> KV(TrimUdt(T.kt, v.ps[i].key), TrimUdt(T.vt, v.ps[i].val))])
  ELSE IF v.k = "tuple" /\ t \in {"tuple", "udt"} /\ Len(v.es) = Len(T.es) THEN
       LET es == [i \in 1 .. Len(v.es) |-> TrimUdt(T.es[i], v.es[i])]
           keep == IF t = "tuple" \/ \A i \in 1 .. Len(es) : es[i].k = "null" THEN (IF t = "tuple" THEN Len(es) ELSE 0)
                   ELSE CHOOSE n \in 1 .. Len(es) : es[n].k # "null" /\ \A i \in n + 1 .. Len(es) : es[i].k = "null"
       IN VTuple(SubSeq(es, 1, keep))
  ELSE v
EncShort(T, v, p) == Enc(T, TrimUdt(T, v), p)

\* ------------------------------------------------------------ Dec (reference decoder)
DecDuration(b) ==
  LET a == DecVInt(b, 1) IN
  IF a[2] = 0 THEN VErr ELSE
  LET c == DecVInt(b, a[2]) IN
  IF c[2] = 0 THEN VErr ELSE
  LET d == DecVInt(b, c[2]) IN
  IF d[2] # Len(b) + 1 THEN VErr
  ELSE VDur(UnZigZag(a[1]), UnZigZag(c[1]), UnZigZag(d[1]))

RECURSIVE Dec(_, _, _)
\* one framed element at pos: <<value, next position>>, next position 0 = malformed
DecFramed(T, b, pos, p, intlen) ==
  LET l == ReadLen(b, pos, IF intlen THEN 4 ELSE p) IN
  IF l[2] = 0 THEN <<VErr, 0>>
  ELSE IF l[1] < 0 THEN <<VNull, l[2]>>
  ELSE IF l[2] + l[1] - 1 > Len(b) THEN <<VErr, 0>>
  ELSE <<Dec(T, ROk(SubSeq(b, l[2], l[2] + l[1] - 1)), p), l[2] + l[1]>>
Dec(T, r, p) ==
  IF r.st = "null" THEN VNull
  ELSE IF r.st = "err" THEN VErr
  ELSE LET t == T.t b == r.b IN
  CASE t \in TextTypes -> VBytes(b)
    [] t \in {"list", "set"} ->
         LET c == ReadLen(b, 1, p)
             RECURSIVE G(_, _, _)
             G(i, pos, acc) == IF i > c[1] THEN (IF pos = Len(b) + 1 THEN VList(acc) ELSE VErr)
                               ELSE LET e == DecFramed(T.e, b, pos, p, FALSE) IN
                                    IF e[2] = 0 \/ IsErr(e[1]) THEN VErr ELSE G(i + 1, e[2], Append(acc, e[1]))
         IN IF c[2] = 0 \/ c[1] < 0 THEN VErr ELSE G(1, c[2], <<>>)
    [] t = "map" ->
         LET c == ReadLen(b, 1, p)
             RECURSIVE G(_, _, _)
             G(i, pos, acc) == IF i > c[1] THEN (IF pos = Len(b) + 1 THEN VMap(acc) ELSE VErr)
                               ELSE LET ke == DecFramed(T.kt, b, pos, p, FALSE) IN
                                    IF ke[2] = 0 \/ IsErr(ke[1]) THEN VErr
                                    ELSE LET ve == DecFramed(T.vt, b, ke[2], p, FALSE) IN
                                         IF ve[2] = 0 \/ IsErr(ve[1]) THEN VErr ELSE G(i + 1, ve[2], Append(acc, KV(ke[1], ve[1])))
         IN IF c[2] = 0 \/ c[1] < 0 THEN VErr ELSE G(1, c[2], <<>>)
    [] t \in {"tuple", "udt"} ->          \* fields missing at the end are null
         LET RECURSIVE G(_, _, _)
             G(i, pos, acc) == IF i > Len(T.es) THEN (IF pos = Len(b) + 1 THEN VTuple(acc) ELSE VErr)
                               ELSE IF pos = Len(b) + 1 THEN G(i + 1, pos, Append(acc, VNull))
                               ELSE LET e == DecFramed(T.es[i], b, pos, p, TRUE) IN
                                    IF e[2] = 0 \/ IsErr(e[1]) THEN VErr ELSE G(i + 1, e[2], Append(acc, e[1]))
         IN G(1, 1, <<>>)
    [] OTHER ->
       IF b = <<>> THEN VEmpty ELSE
       CASE t \in FixedIntTypes \cup {"time", "timestamp"} -> IF Len(b) = Width(t) THEN VInt(FromTC(b)) ELSE VErr
         [] t = "varint" -> VInt(FromTC(b))
         [] t = "date" -> IF Len(b) = 4 THEN VInt(BSub(FromU(b), Pow2(31))) ELSE VErr
         [] t \in {"float", "double"} -> IF Len(b) = Width(t) THEN VBytes(b) ELSE VErr
         [] t = "boolean" -> IF Len(b) = 1 THEN VBool(b[1] # 0) ELSE VErr
         [] t \in UuidTypes -> IF Len(b) = 16 THEN VBytes(b) ELSE VErr
         [] t = "inet" -> IF Len(b) \in {4, 16} THEN VBytes(b) ELSE VErr
         [] t = "decimal" -> IF Len(b) < 5 THEN VErr ELSE VDec(FromTC(SubSeq(b, 1, 4)), FromTC(SubSeq(b, 5, Len(b))))
         [] t = "duration" -> DecDuration(b)
         [] OTHER -> VErr

\* order-insensitive normal form: sets and maps as TLA+ sets
RECURSIVE Canon(_, _)
Canon(T, v) ==
  IF v.k = "list" /\ T.t = "set" THEN [k |-> "set", n |-> Len(v.es), s |-> {Canon(T.e, v.es[i]) : i \in 1 .. Len(v.es)}]
  ELSE IF v.k = "list" THEN [k |-> "list", es |-> [i \in 1 .. Len(v.es) |-> Canon(T.e, v.es[i])]]
  ELSE IF v.k = "map" THEN [k |-> "mapset", n |-> Len(v.ps), s |-> {<<Canon(T.kt, v.ps[i].key), Canon(T.vt, v.ps[i].val)>> : i \in 1 .. Len(v.ps)}]
  ELSE IF v.k = "tuple" THEN [k |-> "tuple", es |-> [i \in 1 .. Len(v.es) |-> IF i <= Len(T.es) THEN Canon(T.es[i], v.es[i]) ELSE v.es[i]]]
  ELSE v

\* the same for a value decoded into a target of kind K (a partial struct lists UDT fields in its own order)
RECURSIVE CanonK(_, _, _)
CanonK(T, K, v) ==
  IF K.g = "ptr" THEN CanonK(T, K.e, v)
  ELSE IF v.k = "list" /\ T.t \in {"list", "set"} /\ K.g \in {"slice", "array"} THEN
       LET es == [i \in 1 .. Len(v.es) |-> CanonK(T.e, K.e, v.es[i])] IN
       IF T.t = "set" THEN [k |-> "set", n |-> Len(es), s |-> {es[i] : i \in 1 .. Len(es)}] ELSE [k |-> "list", es |-> es]
  ELSE IF v.k = "map" /\ T.t = "map" /\ K.g = "map" THEN
       [k |-> "mapset", n |-> Len(v.ps), s |-> {<<CanonK(T.kt, K.kk, v.ps[i].key), CanonK(T.vt, K.vk, v.ps[i].val)>> : i \in 1 .. Len(v.ps)}]
  ELSE IF v.k = "tuple" /\ K.g = "pstruct" /\ T.t = "udt" /\ Len(v.es) = Len(K.ix) THEN
       [k |-> "tuple", es |-> [j \in 1 .. Len(v.es) |-> CanonK(T.es[K.ix[j]], K.es[j], v.es[j])]]
  ELSE IF v.k = "tuple" /\ T.t \in {"tuple", "udt"} /\ K.g \in {"struct", "ifaces"} /\ Len(v.es) = Len(K.es) /\ Len(v.es) = Len(T.es) THEN
       [k |-> "tuple", es |-> [j \in 1 .. Len(v.es) |-> CanonK(T.es[j], K.es[j], v.es[j])]]
  ELSE IF v.k = "tuple" /\ T.t = "tuple" /\ K.g \in {"slice", "array"} /\ Len(v.es) = Len(T.es) THEN
       [k |-> "tuple", es |-> [j \in 1 .. Len(v.es) |-> CanonK(T.es[j], K.e, v.es[j])]]
  ELSE IF v.k = "bytes" /\ T.t = "inet" THEN VBytes(NormIP(v.b))
  ELSE v

\* ------------------------------------------------------------ the documented conversion tables
\* Go kinds "time_p9" / "time_m5": a time.Time whose Location is FixedZone(+09:00) / FixedZone(-05:00).  The abstract
\* value is the instant (ms since the epoch), so everything below treats them like "time": the column value
\* depends on the instant only (date = UTC day of the instant).  They are sources only (decodes come back in UTC).
ZoneTimeKinds == {"time_p9", "time_m5"}
\* Go kinds "um_v" / "um_p": user-defined types that implement gocql.Marshaler / Unmarshaler themselves (the harness's
\* ones hold an int32 and write / read the 4-byte CQL int): "um_v" has a value-receiver MarshalCQL, "um_p" a pointer-
\* receiver one; both have a pointer-receiver UnmarshalCQL.  "If value implements Marshaler, its MarshalCQL method is
\* called"; "nil is serialized as CQL null" - a nil *T is null whatever methods *T has.  A bare um_p value does not
\* implement Marshaler (only its pointer does): not a documented source.
UserKinds == {"um_v", "um_p"}
IntKinds == {"int", "int8", "int16", "int32", "int64", "uint", "uint8", "uint16", "uint32", "uint64"}
NamedIntKinds == {"nint", "nint8", "nint16", "nint32", "nint64", "nuint", "nuint8", "nuint16", "nuint32", "nuint64"}
AllIntKinds == IntKinds \cup NamedIntKinds
KindSigned(g) == g \in {"int", "int8", "int16", "int32", "int64", "nint", "nint8", "nint16", "nint32", "nint64"}
KindBits(g) == CASE g \in {"int8", "uint8", "nint8", "nuint8"} -> 8 [] g \in {"int16", "uint16", "nint16", "nuint16"} -> 16
                 [] g \in {"int32", "uint32", "nint32", "nuint32"} -> 32 [] OTHER -> 64     \* int, uint: 64-bit platform
\* can a Go value of kind g hold the integer x
FitsKind(g, x) == IF g \in UserKinds THEN FitsS(x, 32) ELSE IF g \in AllIntKinds THEN (IF KindSigned(g) THEN FitsS(x, KindBits(g)) ELSE FitsU(x, KindBits(g)))
                  ELSE g \in {"bigint", "string"}

\* Marshal doc comment (marshal.go:74-112): CQL type | Go type
Supported(t, g) ==
  CASE t \in TextTypes -> g \in {"string", "bytes"}
    [] t = "boolean" -> g = "bool"
    [] t = "int" -> g \in AllIntKinds \cup {"string", "um_v"}
    [] t \in {"tinyint", "smallint"} -> g \in AllIntKinds \cup {"string"}
    [] t \in {"bigint", "counter", "varint"} -> g \in AllIntKinds \cup {"bigint", "string"}
    [] t = "float" -> g = "float32"
    [] t = "double" -> g = "float64"
    [] t = "decimal" -> g = "dec"
    [] t = "time" -> g \in {"int64", "nint64", "gdur"}
    [] t = "timestamp" -> g \in {"int64", "nint64", "time"} \cup ZoneTimeKinds
    [] t \in UuidTypes -> g \in {"uuid", "arr16", "bytes", "string"}
    [] t = "inet" -> g \in {"ip", "string"}
    [] t = "date" -> g \in {"int64", "time", "string"} \cup ZoneTimeKinds
    [] t = "duration" -> g \in {"int64", "nint64", "gdur", "cdur", "string"}
    [] OTHER -> FALSE
\* Unmarshal doc comment (marshal.go:195-224): CQL type | Go type pointed to.  varint has no row of its
\* own there; its targets are those of the other integer types, with an error as an allowed outcome.
Target(t, g) ==
  CASE t \in TextTypes -> g \in {"string", "bytes"}
    [] t = "boolean" -> g = "bool"
    [] t \in FixedIntTypes \cup {"varint"} -> g \in AllIntKinds \cup {"bigint", "string"} \/ (t = "int" /\ g \in UserKinds)
    [] t = "float" -> g = "float32"
    [] t = "double" -> g = "float64"
    [] t = "decimal" -> g = "dec"
    [] t = "time" -> g \in {"int64", "nint64", "gdur"}
    [] t = "timestamp" -> g \in {"int64", "nint64", "time"}
    [] t \in UuidTypes -> g \in {"uuid", "arr16", "bytes", "string"}
    [] t = "inet" -> g \in {"ip", "string"}
    [] t = "date" -> g \in {"time", "string"}
    [] t = "duration" -> g = "cdur"
    [] OTHER -> FALSE
\* the documentation does not promise these; an error is accepted, a wrong value is not
TargetMayErr(t, g) == t = "varint" \/ (t \in UuidTypes /\ g = "arr16")

SeqProduct(ss) ==         \* ss: sequence of sets -> set of sequences
  LET RECURSIVE G(_)
      G(i) == IF i > Len(ss) THEN {<<>>} ELSE {<<h>> \o tl : h \in ss[i], tl \in G(i + 1)}
  IN G(1)
Perms(n) == {f \in [1 .. n -> 1 .. n] : \A i, j \in 1 .. n : i # j => f[i] # f[j]}
DaysOfMs(x) == BFloorDiv(BFloorDiv(x, 1000), 86400)     \* floor(ms / 86 400 000)

\* every leaf (CQL type, Go kind) pair of the case is in the Marshal table
RECURSIVE Claimed(_, _)
Claimed(T, K) ==
  LET t == T.t g == K.g IN
  IF g = "nil" THEN TRUE
  ELSE IF g = "ptr" THEN (t = "int" /\ K.e.g = "um_p") \/ Claimed(T, K.e)       \* *T implements Marshaler through its pointer receiver
  ELSE IF t \in {"list", "set"} THEN g \in {"slice", "array", "setmap"} /\ Claimed(T.e, K.e)
  ELSE IF t = "map" THEN g = "map" /\ Claimed(T.kt, K.kk) /\ Claimed(T.vt, K.vk)
  ELSE IF t \in {"tuple", "udt"} THEN
       IF g \in {"struct", "ifaces", "udtmap"} THEN Len(K.es) = Len(T.es) /\ \A i \in 1 .. Len(T.es) : Claimed(T.es[i], K.es[i])
       ELSE g \in {"slice", "array"} /\ t = "tuple" /\ \A i \in 1 .. Len(T.es) : Claimed(T.es[i], K.e)
  ELSE Supported(t, g)

\* The column values a Go value stands for: a set, because a Go map is iterated in any order and an
\* IPv4-mapped IPv6 address may be written in either form.  {VErr}: the column type has no encoding.
RECURSIVE SrcAlts(_, _, _)
SrcSeq(Ts, Ks, gvs) ==    \* element-wise alternatives of a sequence: set of sequences, or {<<VErr>>}
  LET alts == [i \in 1 .. Len(gvs) |-> SrcAlts(Ts[i], Ks[i], gvs[i])] IN
  IF \E i \in 1 .. Len(gvs) : VErr \in alts[i] THEN {<<VErr>>} ELSE SeqProduct(alts)
SrcAlts(T, K, gv) ==
  LET t == T.t g == K.g IN
  IF gv.k = "null" /\ g \in {"slice", "setmap"} /\ t \in {"list", "set"} THEN {VNull, VList(<<>>)}   \* nil slice / map: the documentation
  ELSE IF gv.k = "null" /\ g = "map" /\ t = "map" THEN {VNull, VMap(<<>>)}                            \* only says "nil is null"
  ELSE IF g = "nil" \/ gv.k \in {"null", "absent"} THEN {VNull}
  ELSE IF g = "ptr" THEN SrcAlts(T, K.e, gv)
  ELSE IF t \in {"list", "set"} THEN
       LET n == Len(gv.es)
           base == SrcSeq([i \in 1 .. n |-> T.e], [i \in 1 .. n |-> K.e], gv.es)
       IN IF base = {<<VErr>>} THEN {VErr}
          ELSE IF g = "setmap" THEN {VList([i \in 1 .. n |-> s[f[i]]]) : s \in base, f \in Perms(n)}
          ELSE {VList(s) : s \in base}
  ELSE IF t = "map" THEN
       LET n == Len(gv.ps)
           ks == SrcSeq([i \in 1 .. n |-> T.kt], [i \in 1 .. n |-> K.kk], [i \in 1 .. n |-> gv.ps[i].key])
           vs == SrcSeq([i \in 1 .. n |-> T.vt], [i \in 1 .. n |-> K.vk], [i \in 1 .. n |-> gv.ps[i].val])
       IN IF ks = {<<VErr>>} \/ vs = {<<VErr>>} THEN {VErr}
          ELSE {VMap([i \in 1 .. n |-> KV(a[f[i]], b[f[i]])]) : a \in ks, b \in vs, f \in Perms(n)}
  ELSE IF t \in {"tuple", "udt"} THEN
       LET n == Len(T.es)
           base == SrcSeq(T.es, [i \in 1 .. n |-> IF g \in {"slice", "array"} THEN K.e ELSE K.es[i]], gv.es)
       IN IF Len(gv.es) # n \/ base = {<<VErr>>} THEN {VErr} ELSE {VTuple(s) : s \in base}
  ELSE IF t \in FixedIntTypes THEN {IF gv.k = "int" /\ FitsS(BigOf(gv), 8 * Width(t)) THEN gv ELSE VErr}
  ELSE IF t = "date" THEN
       {IF gv.k = "empty" THEN VEmpty
        ELSE LET d == IF g = "string" THEN BigOf(gv) ELSE DaysOfMs(BigOf(gv)) IN
             IF FitsS(d, 32) THEN VInt(d) ELSE VErr}
  ELSE IF t \in {"time", "timestamp"} THEN {IF gv.k = "empty" \/ FitsS(BigOf(gv), 64) THEN gv ELSE VErr}
  ELSE IF t = "duration" THEN {IF g = "cdur" THEN gv ELSE VDur(BZero, BZero, BigOf(gv))}
  \* An IPv4 address is serialized as 4 bytes.  Go's net.IP holds an IPv4 address in 4 or in 16 bytes (net.ParseIP and
  \* net.IPv4 give ::ffff:a.b.c.d in 16 bytes, To4() gives 4): both in-memory forms, and the strings that denote them, are
  \* the same address (Java's InetAddress likewise makes an Inet4Address of a mapped address), so the column value is the
  \* 4-byte form.
  ELSE IF t = "inet" THEN {IF gv.k = "bytes" THEN VBytes(NormIP(gv.b)) ELSE gv}
  ELSE IF t \in UuidTypes THEN {IF gv.k = "bytes" /\ Len(gv.b) = 16 THEN gv ELSE VErr}
  ELSE {gv}
\* the canonical column value (first alternative in the sense of: no permutation, address as given)
RECURSIVE Src(_, _, _)
Src(T, K, gv) ==
  LET t == T.t g == K.g IN
  IF g = "nil" \/ gv.k \in {"null", "absent"} THEN VNull
  ELSE IF g = "ptr" THEN Src(T, K.e, gv)
  ELSE IF t \in {"list", "set"} THEN
       LET es == [i \in 1 .. Len(gv.es) |-> Src(T.e, K.e, gv.es[i])] IN IF SeqAny(es, IsErr) THEN VErr ELSE VList(es)
  ELSE IF t = "map" THEN
       LET ps == [i \in 1 .. Len(gv.ps) |-> KV(Src(T.kt, K.kk, gv.ps[i].key), Src(T.vt, K.vk, gv.ps[i].val))] IN
       IF \E i \in 1 .. Len(ps) : IsErr(ps[i].key) \/ IsErr(ps[i].val) THEN VErr ELSE VMap(ps)
  ELSE IF t \in {"tuple", "udt"} THEN
       IF Len(gv.es) # Len(T.es) THEN VErr ELSE
       LET es == [i \in 1 .. Len(gv.es) |-> Src(T.es[i], IF g \in {"slice", "array"} THEN K.e ELSE K.es[i], gv.es[i])] IN
       IF SeqAny(es, IsErr) THEN VErr ELSE VTuple(es)
  ELSE CHOOSE v \in SrcAlts(T, K, gv) : TRUE

\* Rulings (DESIGN section 9): documented pairs on which an error is an accepted outcome
Refusable(t, g, gv) ==
  \/ t = "varint" /\ g = "string" /\ gv.k = "int" /\ ~FitsS(BigOf(gv), 64)
  \/ t = "varint" /\ g \in {"uint", "nuint", "nuint64"} /\ gv.k = "int" /\ ~FitsS(BigOf(gv), 64)
RECURSIVE AnyRefusable(_, _, _)
AnyRefusable(T, K, gv) ==
  LET t == T.t g == K.g IN
  IF g = "nil" \/ gv.k \in {"null", "absent"} THEN FALSE
  ELSE IF g = "ptr" THEN AnyRefusable(T, K.e, gv)
  ELSE IF t \in {"list", "set"} THEN \E i \in 1 .. Len(gv.es) : AnyRefusable(T.e, K.e, gv.es[i])
  ELSE IF t = "map" THEN \E i \in 1 .. Len(gv.ps) : AnyRefusable(T.kt, K.kk, gv.ps[i].key) \/ AnyRefusable(T.vt, K.vk, gv.ps[i].val)
  ELSE IF t \in {"tuple", "udt"} THEN
       \E i \in 1 .. Len(gv.es) : i <= Len(T.es) /\ AnyRefusable(T.es[i], IF g \in {"slice", "array"} THEN K.e ELSE K.es[i], gv.es[i])
  ELSE Refusable(t, g, gv)

\* ------------------------------------------------------------ what a decode must give
\* zero value a null decodes to when the target is not a pointer to pointer ("nulls are unmarshalled
\* as zero value"); VErr = no claim
ZeroOf(T, K) ==
  LET t == T.t g == K.g IN
  CASE g \in AllIntKinds \cup UserKinds \cup {"bigint", "int64", "gdur"} /\ t \in FixedIntTypes \cup {"varint", "time", "timestamp"} -> VI(0)
    [] g \in {"string", "bytes"} /\ t \in TextTypes -> VBytes(<<>>)
    [] g = "string" /\ t = "date" -> VEmpty
    [] g = "bool" -> VBool(FALSE)
    [] g = "float32" -> VBytes(<<0, 0, 0, 0>>)
    [] g = "float64" -> VBytes(<<0, 0, 0, 0, 0, 0, 0, 0>>)
    [] g = "time" -> VEmpty
    [] g = "cdur" -> VDur(BZero, BZero, BZero)
    [] g = "slice" /\ t \in {"list", "set"} -> VNull
    [] g = "map" /\ t = "map" -> VNull
    [] OTHER -> VErr

\* the Go value (as abstract value) that decoding column value cv into a target of kind K must give;
\* VErr = K is not a documented target for T or cannot represent cv (no claim)
RECURSIVE ConvOut(_, _, _)
ConvOut(T, cv, K) ==
  LET t == T.t g == K.g IN
  IF cv.k = "err" THEN VErr
  ELSE IF g = "ptr" THEN (IF cv.k = "null" THEN VNull ELSE ConvOut(T, cv, K.e))
  ELSE IF cv.k = "null" THEN ZeroOf(T, K)
  ELSE IF t \in {"list", "set"} THEN
       IF g \notin {"slice", "array"} \/ cv.k # "list" THEN VErr
       ELSE LET es == [i \in 1 .. Len(cv.es) |-> ConvOut(T.e, cv.es[i], K.e)] IN IF SeqAny(es, IsErr) THEN VErr ELSE VList(es)
  ELSE IF t = "map" THEN
       IF g # "map" \/ cv.k # "map" THEN VErr
       ELSE LET ps == [i \in 1 .. Len(cv.ps) |-> KV(ConvOut(T.kt, cv.ps[i].key, K.kk), ConvOut(T.vt, cv.ps[i].val, K.vk))] IN
            IF \E i \in 1 .. Len(ps) : IsErr(ps[i].key) \/ IsErr(ps[i].val) THEN VErr ELSE VMap(ps)
  ELSE IF g = "pstruct" THEN
       IF t # "udt" \/ cv.k # "tuple" \/ Len(cv.es) # Len(T.es) THEN VErr
       ELSE LET es == [j \in 1 .. Len(K.ix) |-> ConvOut(T.es[K.ix[j]], cv.es[K.ix[j]], K.es[j])] IN
            IF SeqAny(es, IsErr) THEN VErr ELSE VTuple(es)
  ELSE IF t \in {"tuple", "udt"} THEN
       \* a []interface{} target is honoured only at top level, where the caller supplies the pointers
       \* (ConvOutTop); nested, the driver chooses the dynamic types itself: no claim
       IF cv.k # "tuple" \/ g \notin {"struct", "slice", "array"} \/ (g \in {"slice", "array"} /\ t = "udt") THEN VErr
       ELSE LET es == [i \in 1 .. Len(cv.es) |-> ConvOut(T.es[i], cv.es[i], IF g \in {"slice", "array"} THEN K.e ELSE K.es[i])] IN
            IF SeqAny(es, IsErr) THEN VErr ELSE VTuple(es)
  ELSE IF ~Target(t, g) THEN VErr
  ELSE IF cv.k = "empty" THEN (IF g = "time" \/ (g = "string" /\ t = "date") THEN VEmpty ELSE VErr)
  ELSE IF t \in FixedIntTypes \cup {"varint", "time", "timestamp"} THEN
       (IF g = "time" THEN cv ELSE IF g = "gdur" THEN cv ELSE IF FitsKind(g, BigOf(cv)) THEN cv ELSE VErr)
  ELSE IF t = "date" THEN
       (IF g = "time" THEN VInt(BMulSmall(BMulSmall(BigOf(cv), 86400), 1000))
        ELSE IF BLe(FromInt(-719162), BigOf(cv)) /\ BLe(BigOf(cv), FromInt(2932896)) THEN cv ELSE VErr)   \* layout "2006-01-02": years 0001..9999
  ELSE IF t = "inet" THEN VBytes(NormIP(cv.b))
  ELSE cv
ConvOutTop(T, cv, K) ==
  IF K.g = "ifaces" /\ T.t = "tuple" /\ cv.k = "tuple" /\ Len(K.es) = Len(cv.es)
  THEN LET es == [i \in 1 .. Len(cv.es) |-> ConvOut(T.es[i], cv.es[i], K.es[i])] IN IF SeqAny(es, IsErr) THEN VErr ELSE VTuple(es)
  ELSE ConvOut(T, cv, K)
\* an error is an accepted outcome of this decode (a wrong value never is)
RECURSIVE OutMayErr(_, _, _)
OutMayErr(T, cv, K) ==
  LET t == T.t g == K.g IN
  IF g = "ptr" THEN (cv.k # "null" /\ OutMayErr(T, cv, K.e))
  ELSE IF cv.k = "null" THEN TRUE
  ELSE IF t \in {"list", "set"} THEN \E i \in 1 .. Len(cv.es) : OutMayErr(T.e, cv.es[i], K.e)
  ELSE IF t = "map" THEN \E i \in 1 .. Len(cv.ps) : OutMayErr(T.kt, cv.ps[i].key, K.kk) \/ OutMayErr(T.vt, cv.ps[i].val, K.vk)
  ELSE IF g = "pstruct" THEN \E j \in 1 .. Len(K.ix) : OutMayErr(T.es[K.ix[j]], cv.es[K.ix[j]], K.es[j])
  ELSE IF t \in {"tuple", "udt"} THEN
       \E i \in 1 .. Len(cv.es) : OutMayErr(T.es[i], cv.es[i], IF g \in {"slice", "array"} THEN K.e ELSE K.es[i])
  ELSE TargetMayErr(t, g)

\* ------------------------------------------------------------ self tests
ASSUME Enc(NT("int"), VI(-2), 4) = ROk(<<255, 255, 255, 254>>) /\ Enc(NT("tinyint"), VI(128), 4) = RErr
ASSUME Enc(NT("bigint"), VI(5), 4) = ROk(<<0, 0, 0, 0, 0, 0, 0, 5>>) /\ Enc(NT("bigint"), VInt(Pow2(63)), 4) = RErr
ASSUME Enc(NT("varint"), VI(128), 2) = ROk(<<0, 128>>) /\ Enc(NT("varint"), VI(-129), 2) = ROk(<<255, 127>>)
ASSUME Enc(NT("date"), VI(0), 4) = ROk(<<128, 0, 0, 0>>) /\ Enc(NT("date"), VI(-1), 4) = ROk(<<127, 255, 255, 255>>)
ASSUME Enc(NT("date"), VInt(BNeg(Pow2(31))), 4) = ROk(<<0, 0, 0, 0>>) /\ Enc(NT("date"), VInt(Pow2(31)), 4) = RErr
ASSUME DaysOfMs(FromInt(-1)) = FromInt(-1) /\ DaysOfMs(FromInt(-43200000)) = FromInt(-1) /\ DaysOfMs(FromInt(-86400000)) = FromInt(-1)
ASSUME DaysOfMs(FromInt(-86400001)) = FromInt(-2) /\ DaysOfMs(FromInt(86399999)) = BZero /\ DaysOfMs(FromInt(86400000)) = One
ASSUME Enc(NT("decimal"), VDec(FromInt(2), FromInt(-129)), 4) = ROk(<<0, 0, 0, 2, 255, 127>>)
ASSUME Enc(NT("boolean"), VBool(TRUE), 4) = ROk(<<1>>) /\ Enc(NT("text"), VNull, 4) = RNull /\ Enc(NT("text"), VBytes(<<>>), 4) = ROk(<<>>)
\* vint: CASSANDRA-11873 test vectors and the size boundaries
ASSUME EncSVInt(BZero) = <<0>> /\ EncSVInt(One) = <<2>> /\ EncSVInt(FromInt(-1)) = <<1>> /\ EncSVInt(FromInt(63)) = <<126>> /\ EncSVInt(FromInt(-64)) = <<127>>
ASSUME EncSVInt(FromInt(64)) = <<128, 128>> /\ EncSVInt(FromInt(-65)) = <<128, 129>> /\ EncSVInt(FromInt(8191)) = <<191, 254>> /\ EncSVInt(FromInt(8192)) = <<192, 64, 0>>
ASSUME EncSVInt(BSub(Pow2(63), One)) = <<255, 255, 255, 255, 255, 255, 255, 255, 254>> /\ EncSVInt(BNeg(Pow2(63))) = <<255, 255, 255, 255, 255, 255, 255, 255, 255>>
ASSUME EncSVInt(BSub(Pow2(55), One)) = <<254, 255, 255, 255, 255, 255, 255, 254>> /\ EncSVInt(Pow2(55)) = <<255, 1, 0, 0, 0, 0, 0, 0, 0>>
ASSUME \A n \in {0, 1, -1, 63, 64, -64, -65, 8191, 8192, -8192, -8193, 1048575, 1048576, -1048576, -1048577, 2147483647, -2147483647} :
         LET b == EncSVInt(FromInt(n)) d == DecVInt(b, 1) IN d[2] = Len(b) + 1 /\ UnZigZag(d[1]) = FromInt(n)
\* duration 1mo 2d 3ns ; 1h as nanoseconds
ASSUME Enc(NT("duration"), VDur(One, FromInt(2), FromInt(3)), 5) = ROk(<<2, 4, 6>>)
ASSUME Dec(NT("duration"), ROk(<<2, 4, 6>>), 5) = VDur(One, FromInt(2), FromInt(3)) /\ Dec(NT("duration"), ROk(<<2, 4>>), 5) = VErr
\* collections: [1, null] as list<int> in both framings, map, tuple with null
ASSUME Enc(TList(NT("int")), VList(<<VI(1)>>), 2) = ROk(<<0, 1, 0, 4, 0, 0, 0, 1>>)
ASSUME Enc(TList(NT("int")), VList(<<VI(1), VNull>>), 3) = ROk(<<0, 0, 0, 2, 0, 0, 0, 4, 0, 0, 0, 1, 255, 255, 255, 255>>)
ASSUME Enc(TList(NT("int")), VList(<<VNull>>), 2) = RErr /\ Enc(TList(NT("int")), VList(<<>>), 2) = ROk(<<0, 0>>) /\ Enc(TList(NT("int")), VNull, 2) = RNull
ASSUME Enc(TMap(NT("text"), NT("tinyint")), VMap(<<KV(VBytes(<<97>>), VI(-1))>>), 4) = ROk(<<0, 0, 0, 1, 0, 0, 0, 1, 97, 0, 0, 0, 1, 255>>)
ASSUME Enc(TTuple(<<NT("int"), NT("text")>>), VTuple(<<VNull, VBytes(<<>>)>>), 4) = ROk(<<255, 255, 255, 255, 0, 0, 0, 0>>)
ASSUME Dec(TTuple(<<NT("int"), NT("text")>>), ROk(<<255, 255, 255, 255, 0, 0, 0, 0>>), 4) = VTuple(<<VNull, VBytes(<<>>)>>)
ASSUME Dec(TTuple(<<NT("int"), NT("text")>>), ROk(<<0, 0, 0, 4, 0, 0, 0, 7>>), 4) = VTuple(<<VI(7), VNull>>)
ASSUME LET T == TUdt(<<NT("int"), NT("text"), NT("int")>>) v == VTuple(<<VI(7), VNull, VNull>>) IN
         /\ EncShort(T, v, 4) = ROk(<<0, 0, 0, 4, 0, 0, 0, 7>>) /\ Dec(T, EncShort(T, v, 4), 4) = v
         /\ Enc(T, v, 4) = ROk(<<0, 0, 0, 4, 0, 0, 0, 7, 255, 255, 255, 255, 255, 255, 255, 255>>)
         /\ EncShort(T, VTuple(<<VNull, VNull, VI(1)>>), 4) = Enc(T, VTuple(<<VNull, VNull, VI(1)>>), 4)
         /\ EncShort(TList(T), VList(<<v>>), 4) = ROk(<<0, 0, 0, 1, 0, 0, 0, 8, 0, 0, 0, 4, 0, 0, 0, 7>>)
ASSUME \A p \in {2, 4} : LET T == TList(TMap(NT("text"), NT("varint")))
                             v == VList(<<VMap(<<KV(VBytes(<<97>>), VI(-129)), KV(VBytes(<<>>), VInt(Pow2(64)))>>), VMap(<<>>)>>)
                         IN Dec(T, Enc(T, v, p), p) = v
ASSUME Canon(TSet(NT("int")), VList(<<VI(1), VI(2)>>)) = Canon(TSet(NT("int")), VList(<<VI(2), VI(1)>>))
ASSUME Canon(TSet(NT("int")), VList(<<VI(1), VI(1)>>)) # Canon(TSet(NT("int")), VList(<<VI(1)>>))
ASSUME NormIP(<<0, 0, 0, 0, 0, 0, 0, 0, 0, 0, 255, 255, 1, 2, 3, 4>>) = <<1, 2, 3, 4>> /\ NormIP(<<1, 2, 3, 4>>) = <<1, 2, 3, 4>>
ASSUME Cardinality(Perms(3)) = 6 /\ SeqProduct(<<{1, 2}, {3}>>) = {<<1, 3>>, <<2, 3>>} /\ SeqProduct(<<>>) = {<<>>}
ASSUME SrcAlts(NT("tinyint"), KK("uint8"), VI(200)) = {VErr} /\ SrcAlts(NT("date"), KK("time"), VI(-43200000)) = {VI(-1)}
ASSUME Cardinality(SrcAlts(TMap(NT("text"), NT("int")), KMap(KK("string"), KK("int32")), VMap(<<KV(VBytes(<<97>>), VI(1)), KV(VBytes(<<98>>), VI(2))>>))) = 2
ASSUME ConvOut(NT("int"), VI(200), KK("uint8")) = VI(200) /\ ConvOut(NT("int"), VI(-1), KK("uint8")) = VErr /\ ConvOut(NT("int"), VNull, KPtr(KK("int32"))) = VNull
ASSUME SrcAlts(NT("date"), KK("time_p9"), VI(75600000)) = {VI(0)} /\ SrcAlts(NT("date"), KK("time_m5"), VI(10800000)) = {VI(0)} /\ Supported("time", "time_p9") = FALSE
ASSUME ConvOut(TUdt(<<NT("int"), NT("text"), NT("int")>>), VTuple(<<VI(1), VBytes(<<97>>), VI(3)>>), KPStruct(<<KK("int32"), KK("int32")>>, <<3, 1>>, TRUE)) = VTuple(<<VI(3), VI(1)>>)
ASSUME ConvOut(NT("date"), VI(-1), KK("time")) = VI(-86400000) /\ ConvOut(NT("int"), VNull, KK("int32")) = VI(0)
=============================================================================
