SPECIFICATION FairSpec
CONSTANTS
  MaxE = 3
  Configs <- CfgStuck
  KeepHist = FALSE
  GateAtomic = FALSE
  NonIdemRetry = FALSE
  Defect_WaitResultsOnly = TRUE
INVARIANTS NoViolation
PROPERTIES Terminates
CHECK_DEADLOCK FALSE
