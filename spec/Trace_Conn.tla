----------------------------- MODULE Trace_Conn -----------------------------
(***************************************************************************)
(* Conformance of a real connection to Conn.tla: every event recorded by   *)
(* the hooks in conn.go, by the scripted node and by the harness must be   *)
(* an enabled step of the corresponding Conn.tla action (same guards, same *)
(* effects), and all of Conn.tla's invariants are evaluated on every state *)
(* of the reconstructed behaviour.                                         *)
(*                                                                         *)
(* Logging discipline: a thread logs immediately BEFORE a change other     *)
(* threads can observe (x_wbegin, c_cancel, c_sock, n_send, n_close) and   *)
(* AFTER it observed something (r_hdr, n_recv, the x_arm and r_arm lines); events  *)
(* inside c.mu (x_addcall, x_del, r_lookup, c_begin) are in lock order.    *)
(* The call.resp rendezvous is logged by both parties after it happened:   *)
(* whichever line comes first performs the joint step.                     *)
(***************************************************************************)
EXTENDS Conn, Json, IOUtils

Log == ndJsonDeserialize(IOEnv.VF_TRACE)
TraceReq == {Log[i].req : i \in 1 .. Len(Log)} \ {""}      \* request ids are strings "q<n>"
TraceSid == {Log[i].stream : i \in 1 .. Len(Log)} \ {0}
TraceHB == {Log[i].req : i \in {j \in 1 .. Len(Log) : Log[j].ev = "hb_tick"}}   \* the heartbeat's requests "h<k>"
TraceTimeoutLimit == IF Len(Log) > 0 THEN Log[1].tl ELSE 0

VARIABLES l,      \* next log line
          drift   \* steps where the code's discipline differed from the model's without
                  \* any property being at stake
tvars == <<vars, l, drift>>

E == Log[l]
Ev(name) == l <= Len(Log) /\ E.ev = name
Adv == l' = l + 1
Stutter == UNCHANGED vars /\ UNCHANGED drift

TInit == Init /\ l = 1 /\ drift = 0

\* ---- exec
TCall == Ev("call") /\ Stutter
\* x_ctx / x_nostream carry no request identity (the call record does not exist yet): any
\* request that never obtains a stream id in this log may be the one
NeverStreamed == TraceReq \ {Log[i].req : i \in {j \in 1 .. Len(Log) : Log[j].ev = "x_stream"}}
TCtx == Ev("x_ctx") /\ (\E r \in NeverStreamed : Start(r) /\ pc'[r] = "done") /\ UNCHANGED drift
\* GetStream succeeded: context check passed and an id was allocated (two model steps)
TStream == /\ Ev("x_stream")
           /\ pc[E.req] = "idle" /\ E.stream \in Sid \ inuse
           /\ (E.req \in HBReq => hbpc = "exec" /\ hbreq = E.req)
           /\ inuse' = inuse \cup {E.stream}
           /\ sid' = [sid EXCEPT ![E.req] = E.stream]
           /\ pc' = [pc EXCEPT ![E.req] = "addcall"]
           /\ UNCHANGED <<calls, closed, toClosed, resp, out, written, released, consumed, c2s, pending,
                          answers, s2c, unsol, srvClosed, rpc, rhead, rcall, rerr, cpc, cerr, cq, connCtxDone, sockClosed, drift>>
TNoStream == /\ Ev("x_nostream")
             /\ \E r \in NeverStreamed : /\ pc[r] = "idle" /\ (r \in HBReq => hbpc = "exec" /\ hbreq = r)
                                          /\ Finish(r, O("nostreams"))
             /\ UNCHANGED <<inuse, calls, closed, sid, toClosed, resp, written, released, consumed, c2s, pending,
                            answers, s2c, unsol, srvClosed, rpc, rhead, rcall, rerr, cpc, cerr, cq, connCtxDone, sockClosed, drift>>
TAddCall == /\ Ev("x_addcall") /\ AddCall(E.req)
            /\ (E.a = 0 <=> pc'[E.req] = "build")
            /\ (E.a = 1 <=> out'[E.req].kind = "closed")
            /\ (E.a = 2 <=> out'[E.req].kind = "dup")
            /\ UNCHANGED drift
TBuildFail == Ev("x_buildfail") /\ BuildFail(E.req) /\ UNCHANGED drift
TDel == Ev("x_del") /\ UndoDel(E.req) /\ ~closed /\ UNCHANGED drift
\* x_wbegin carries the outcome of the write (looked ahead from x_wend): the frame is on
\* the wire from this point on
TWBegin ==
  /\ Ev("x_wbegin") /\ pc[E.req] = "build"
  /\ LET r == E.req IN
     CASE E.werr = "none" ->
            /\ ~sockClosed
            /\ c2s' = Append(c2s, [sid |-> sid[r], req |-> r])
            /\ written' = [written EXCEPT ![r] = "full"]
            /\ pc' = [pc EXCEPT ![r] = "wait"]
            /\ UNCHANGED <<toClosed, resp, cpc, cerr>>
       [] E.werr = "ctx" /\ E.wn = 0 ->
            /\ toClosed' = [toClosed EXCEPT ![r] = TRUE]
            /\ resp' = [resp EXCEPT ![r] = O("ctx")]
            /\ pc' = [pc EXCEPT ![r] = "undo_del"]
            /\ UNCHANGED <<c2s, written, cpc, cerr>>
       [] OTHER ->
            /\ toClosed' = [toClosed EXCEPT ![r] = TRUE]
            /\ written' = [written EXCEPT ![r] = IF E.wn = 0 THEN "no" ELSE "partial"]
            /\ resp' = [resp EXCEPT ![r] = O("writeerr")]
            /\ pc' = [pc EXCEPT ![r] = "closing"]
            /\ cpc' = [cpc EXCEPT ![r] = "begin"]
            /\ cerr' = [cerr EXCEPT ![r] = TRUE]
            /\ UNCHANGED c2s
  /\ UNCHANGED <<inuse, calls, closed, sid, out, released, consumed, pending, answers, s2c, unsol, srvClosed,
                 rpc, rhead, rcall, rerr, cq, connCtxDone, sockClosed, drift>>
TWEnd == (Ev("x_wend") \/ Ev("x_wfail") \/ Ev("x_wait")) /\ Stutter
TArm(name, why) == Ev(name) /\ GiveUp(E.req, why) /\ UNCHANGED drift

\* the rendezvous, seen from exec's side
TArmResp ==
  /\ Ev("x_arm_resp")
  /\ LET r == E.req IN
     IF pc[r] = "wait"
     THEN \/ rpc = "deliver" /\ rcall = r /\ RecvDeliver
          \/ \E t \in Closers : CloseDeliver(t, r)
     ELSE pc[r] \in {"gotresp", "done"} /\ UNCHANGED vars
  /\ UNCHANGED drift

\* releaseStream: by exec after a response, by exec undoing an unwritten request, or by the
\* receiver for a caller that gave up
TRelease ==
  /\ Ev("x_release")
  /\ LET r == E.req IN
     CASE pc[r] = "gotresp" ->
            /\ Release(r) /\ Finish(r, resp[r])
            /\ drift' = IF resp[r].kind = "resp" \/ ~closed THEN drift ELSE drift + 1
            /\ UNCHANGED <<calls, closed, sid, toClosed, resp, written, consumed, c2s, pending,
                           answers, s2c, unsol, srvClosed, rpc, rhead, rcall, rerr, cpc, cerr, cq, connCtxDone, sockClosed>>
       [] pc[r] = "undo_rel" -> UndoRel(r) /\ UNCHANGED drift
       [] pc[r] = "undo_del" ->            \* closed meanwhile: no x_del line; both steps here
            /\ closed
            /\ Release(r) /\ Finish(r, resp[r])
            /\ UNCHANGED <<calls, closed, sid, toClosed, resp, written, consumed, c2s, pending,
                           answers, s2c, unsol, srvClosed, rpc, rhead, rcall, rerr, cpc, cerr, cq, connCtxDone, sockClosed, drift>>
       [] OTHER -> rpc = "deliver" /\ rcall = r /\ RecvAbandon /\ UNCHANGED drift
\* exec returned: if it held a response and did not release, that is PostResp's no-release branch
TRet ==
  /\ Ev("ret")
  /\ LET r == E.req IN
     CASE pc[r] = "gotresp" ->
            /\ Finish(r, resp[r])
            /\ drift' = IF resp[r].kind = "resp" \/ ~closed THEN drift + 1 ELSE drift
            /\ UNCHANGED <<inuse, released, calls, closed, sid, toClosed, resp, written, consumed, c2s, pending,
                           answers, s2c, unsol, srvClosed, rpc, rhead, rcall, rerr, cpc, cerr, cq, connCtxDone, sockClosed>>
       [] pc[r] = "closing" -> WriteFailReturn(r) /\ UNCHANGED drift
       [] OTHER -> pc[r] = "done" /\ Stutter

\* ---- recv
\* The log order of n_send / x_wbegin lines of concurrent goroutines need not be the order in
\* which their bytes entered the pipe, so the trace takes any matching frame, not only the head.
RemoveAt(q, i) == SubSeq(q, 1, i - 1) \o SubSeq(q, i + 1, Len(q))
THdr == /\ Ev("r_hdr") /\ rpc = "hdr" /\ ~sockClosed
        /\ \E i \in 1 .. Len(s2c) :
              /\ s2c[i].sid = E.stream
              /\ \A j \in 1 .. i - 1 : s2c[j].sid # E.stream      \* per stream id the order is fixed
              /\ rhead' = s2c[i]
              /\ s2c' = RemoveAt(s2c, i)
        /\ rpc' = "lookup"
        /\ UNCHANGED <<inuse, calls, closed, pc, sid, toClosed, resp, out, written, released, consumed, c2s, pending,
                       answers, unsol, srvClosed, rcall, rerr, cpc, cerr, cq, connCtxDone, sockClosed, drift>>
THdrErr == Ev("r_hdr_err") /\ RecvReadErr /\ UNCHANGED drift
TLookup == /\ Ev("r_lookup") /\ RecvLookup /\ ~closed
           /\ (E.req # "" => rcall' = E.req)
           /\ (E.req = "" => rpc' = "hdr")
           /\ UNCHANGED drift
TRClosed == Ev("r_closed") /\ RecvLookup /\ closed /\ UNCHANGED drift
TBody == /\ Ev("r_body")
         /\ \/ E.err = "none" /\ RecvBody("ok")
            \/ E.err = "net" /\ RecvBody("net")
            \/ E.err \notin {"none", "net"} /\ rpc = "body" /\ rpc' = "deliver" /\ rerr' = "other"
               /\ UNCHANGED <<inuse, calls, closed, pc, sid, toClosed, resp, out, written, released, consumed, c2s, pending,
                              answers, s2c, unsol, srvClosed, rhead, rcall, cpc, cerr, cq, connCtxDone, sockClosed>>
         /\ UNCHANGED drift
TRDeliver == /\ Ev("r_arm_deliver")
             /\ IF pc[E.req] = "wait" /\ rpc = "deliver" /\ rcall = E.req THEN RecvDeliver ELSE UNCHANGED vars
             /\ UNCHANGED drift
TRDropCtx == Ev("r_arm_ctx") /\ RecvDropOnCtx /\ UNCHANGED drift
TRNoop == (Ev("r_discard") \/ Ev("r_gate") \/ Ev("r_arm_timeout") \/ Ev("s_exit")) /\ Stutter

\* ---- closeWithError
TCAlready == Ev("c_already") /\ (\E t \in Closers : CloseBegin(t) /\ closed) /\ UNCHANGED drift
TCBegin == /\ Ev("c_begin") /\ ~closed
           /\ \E t \in Closers : CloseBegin(t) /\ Cardinality(cq'[t]) = E.a /\ (cerr[t] <=> E.err # "none")
           /\ UNCHANGED drift
TCDeliver == /\ Ev("c_deliver")
             /\ IF pc[E.req] = "wait" THEN \E t \in Closers : CloseDeliver(t, E.req) ELSE UNCHANGED vars
             /\ UNCHANGED drift
TCSkip == Ev("c_skip") /\ (\E t \in Closers : CloseSkip(t, E.req)) /\ UNCHANGED drift
TCCancel == Ev("c_cancel") /\ (\E t \in Closers : CloseCancel(t)) /\ UNCHANGED drift
TCSock == Ev("c_sock") /\ (\E t \in Closers : CloseSock(t)) /\ UNCHANGED drift
TCEnd == Ev("c_end") /\ Stutter
TExtClose == Ev("env_extclose") /\ ExtClose /\ UNCHANGED drift

\* ---- node
TNRecv == /\ Ev("n_recv")
          /\ \E i \in 1 .. Len(c2s) :
                /\ c2s[i].sid = E.stream /\ c2s[i].req = E.req
                /\ pending' = pending \cup {c2s[i]}
                /\ c2s' = RemoveAt(c2s, i)
          /\ UNCHANGED <<inuse, calls, closed, pc, sid, toClosed, resp, out, written, released, consumed,
                         answers, s2c, unsol, srvClosed, rpc, rhead, rcall, rerr, cpc, cerr, cq, connCtxDone, sockClosed, drift>>
\* an answer goroutine of the scripted node may fire after the node closed its end: nothing is sent
TNSend == /\ Ev("n_send")
          /\ IF srvClosed THEN UNCHANGED vars
             ELSE \E p \in pending : p.sid = E.stream /\ p.req = E.req /\ SrvAnswer(p)
          /\ UNCHANGED drift
TNClose == Ev("n_close") /\ SrvClose /\ UNCHANGED drift
TNUnsol == Ev("n_unsol") /\ SrvUnsolicited(E.stream) /\ UNCHANGED drift
TOther == (Ev("other")) /\ Stutter

\* ---- heartBeat (its OPTIONS request "h<k>" is traced by the exec / recv / node lines above)
THBTick == Ev("hb_tick") /\ HBTick(E.req) /\ UNCHANGED drift
\* exec returned to the heartbeat (a "ret" line for the request precedes this one): an error counts as a failure now,
\* a response is judged by the line that follows
THBRet == /\ Ev("hb_ret")
          /\ IF E.err = "none" THEN hbreq # None /\ out[hbreq].kind = "resp" /\ UNCHANGED vars
             ELSE hbreq # None /\ out[hbreq].kind # "resp" /\ HBEval("supported")
          /\ UNCHANGED drift
THBEval(name, kind) == Ev(name) /\ hbreq # None /\ out[hbreq].kind = "resp" /\ HBEval(kind) /\ UNCHANGED drift
THBGiveUp == Ev("hb_giveup") /\ HBGiveUp /\ UNCHANGED drift
THBExit == Ev("hb_exit") /\ (IF hbpc = "off" THEN UNCHANGED vars ELSE HBExit) /\ UNCHANGED drift
THB == \/ THBTick \/ THBRet \/ THBGiveUp \/ THBExit
       \/ THBEval("hb_ok", "supported") \/ THBEval("hb_errframe", "errframe")
       \/ THBEval("hb_parsefail", "parsefail") \/ THBEval("hb_unknown", "unknown")

TNext ==
  /\ \/ THB
     \/ /\ UNCHANGED hbvars
        /\ \/ TCall \/ TCtx \/ TStream \/ TNoStream \/ TAddCall \/ TBuildFail \/ TDel \/ TWBegin \/ TWEnd
           \/ TArm("x_arm_timer", "timeout") \/ TArm("x_arm_ctx", "ctx") \/ TArm("x_arm_conn", "closed")
           \/ TArmResp \/ TRelease \/ TRet
           \/ THdr \/ THdrErr \/ TLookup \/ TRClosed \/ TBody \/ TRDeliver \/ TRDropCtx \/ TRNoop
           \/ TCAlready \/ TCBegin \/ TCDeliver \/ TCSkip \/ TCCancel \/ TCSock \/ TCEnd \/ TExtClose
           \/ TNRecv \/ TNSend \/ TNClose \/ TNUnsol \/ TOther
  /\ Adv

TSpec == TInit /\ [][TNext]_tvars

\* accepted iff some behaviour explains the whole log
NotAccepted == l <= Len(Log)
Mark == IF l > TLCGet(1) THEN TLCSet(1, l) ELSE TRUE
PrintMark == PrintT(<<"HIGHWATER", TLCGet(1)>>) /\ PrintT(<<"DRIFT", TLCGet(2)>>)
DriftMark == IF l > Len(Log) THEN TLCSet(2, drift) ELSE TRUE
ASSUME TLCSet(1, 0) /\ TLCSet(2, 0)
=============================================================================
