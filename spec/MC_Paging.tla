----------------------------- MODULE MC_Paging -----------------------------
(* Model-checking wrapper for Paging.tla: the sets of execution plans (cfg files cannot hold sequences). *)
EXTENDS Paging

\* one iteration per Query value
PlansSingle == {<<-1>>}
\* the same Query value executed two or three times: after a complete iteration, after stopping
\* early (before the first row, after one or two rows), and combinations
PlansReexec == {<<-1, -1>>, <<0, -1>>, <<1, -1>>, <<2, -1, -1>>, <<-1, 1, -1>>, <<-1, -1, -1>>}
=============================================================================
