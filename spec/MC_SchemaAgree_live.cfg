SPECIFICATION FairSpec
CONSTANTS
  Vers = {"a", "b"}
  Peers = {"p1", "p2"}
  MaxPolls = 3
  MaxFail = 1
  MaxEnv = 1
  CountNullVersion = FALSE
  Variant = "ok"
INVARIANTS ReachMarks TypeOK AgreeSound AgreeComplete ErrOnlyLate CtxOnlyCancelled CancelHonoured DeadlineHonoured DdlWaits
PROPERTY Terminates
CHECK_DEADLOCK FALSE
