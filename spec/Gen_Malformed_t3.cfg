CONSTANT Thorough = FALSE
CONSTANT Tier = "thorough"
CONSTANT Part = 3
INIT MInit
NEXT MNext
INVARIANT EmitCase
CHECK_DEADLOCK FALSE
