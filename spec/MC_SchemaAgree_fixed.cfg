SPECIFICATION Spec
CONSTANTS
  Vers = {"a", "b"}
  Peers = {"p1", "p2"}
  MaxPolls = 3
  MaxFail = 1
  MaxEnv = 2
  CountNullVersion = FALSE
  Variant = "ok"
INVARIANTS ReachMarks TypeOK AgreeSound AgreeComplete ErrOnlyLate CtxOnlyCancelled CancelHonoured DeadlineHonoured DdlWaits
CHECK_DEADLOCK FALSE
